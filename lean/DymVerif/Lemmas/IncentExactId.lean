/-
  Lemmas/IncentExactId — from the iterator's own `remaining` list (Lemmas/IncentExact, `pendR`) to the stored
  pointer (stream id, gauge id): for a stream of the pointer's epoch
      pendR data e p st k = pendId p st        (`pendR_eq_pendId`)
  PROVIDED the pointer is `PtrOK`: it is at a first gauge (gauge id 0), or the stream it names is still in the
  iterated list, or it is past every stream (the `last` pointer).  The excluded case is exactly the recorded finding
  C15/paging_independent/pointer-stream-terminated: when the named stream has left the list `NewStreamIterator`
  bisects to the NEXT stream but keeps the saved gauge id, so that stream's gauges below it are skipped.
-/
import DymVerif.Lemmas.IncentExact
namespace DymVerif.Incent
open DymVerif Coins

/-- iterator positions the code produces: valid, or past the end of the list -/
def Canon (data : List SView) (e : Nat) (it : Nat × Nat) : Prop :=
  validAt data e it.1 it.2 = true ∨ data.length ≤ it.1

theorem canon_findNext (data : List SView) (e si : Nat) : Canon data e (findNextStream data e si) := by
  obtain ⟨_, f2, _, f4⟩ := findNext_prop data e si
  by_cases h : (findNextStream data e si).1 < data.length
  · left
    apply (validAt_iff data e _ _).2
    refine ⟨h, f4 h, ?_⟩
    rw [f2]; exact sOk_nonempty (f4 h)
  · right; omega

theorem canon_iterNext (data : List SView) (e : Nat) (it : Nat × Nat) : Canon data e (iterNext data e it) := by
  unfold iterNext
  split
  · next h => exact Or.inl h
  · exact canon_findNext data e it.1

theorem canon_newIter (data : List SView) (e : Nat) (p : Pointer) : Canon data e (newIter data e p) := by
  unfold newIter
  cases hd : data[binSearch (data.map (·.id)) p.streamId]? with
  | none =>
    simp only [hd]
    right
    rcases Nat.lt_or_ge (binSearch (data.map (·.id)) p.streamId) data.length with h | h
    · rw [List.getElem?_eq_getElem h] at hd; simp at hd
    · exact h
  | some sv =>
    simp only [hd]
    split
    · next h => exact Or.inl h
    · exact canon_findNext data e _

/-- a stream of epoch `e` the iterator does not accept has no records, hence no shares -/
theorem shares_zero_of_not_ok (data : List SView) (e k : Nat) (hk : k < data.length) (ck : Stream)
    (hrecs : ck.recs = data[k].recs) (hep : data[k].epochId = e) (hno : sOk e data[k] = false) (i : Nat) :
    sharesOf ck ck.recs i = 0 := by
  unfold sOk at hno
  simp only [Bool.and_eq_false_iff, Bool.not_eq_false', beq_eq_false_iff_ne, ne_eq] at hno
  rcases hno with h | h
  · rw [hrecs]
    have : data[k].recs = [] := by simpa using h
    rw [this]; simp [sharesOf]
  · exact absurd hep h

/-- `Next` releases EXACTLY the share of the record just visited (streams of the iterated epoch) -/
theorem posPend_next_eq (data : List SView) (e : Nat) (it : Nat × Nat) (hv : validAt data e it.1 it.2 = true)
    (k : Nat) (ck : Stream) (hk : k < data.length) (hrecs : ck.recs = data[k].recs) (hep : data[k].epochId = e) (i : Nat) :
    posPend ck (iterNext data e it) k i +
      (if it.1 = k then shareOf ck (ck.recs.getD it.2 default) i else 0) = posPend ck it k i := by
  obtain ⟨hsi, hok, hgi⟩ := (validAt_iff data e it.1 it.2).1 hv
  unfold iterNext
  by_cases hn : validAt data e it.1 (it.2 + 1) = true
  · rw [if_pos hn]
    unfold posPend
    simp only
    by_cases h1 : it.1 < k
    · have : ¬ it.1 = k := by omega
      simp [h1, this]
    · by_cases h2 : it.1 = k
      · subst h2
        have hg : it.2 < ck.recs.length := by rw [hrecs]; exact hgi
        simp only [Nat.lt_irrefl, if_false, if_true]
        rw [sharesOf_drop ck it.2 hg i]
        have : ck.recs.getD it.2 default = ck.recs[it.2] := by simp [List.getD_eq_getElem?_getD, hg]
        rw [this]; omega
      · simp [h1, h2]
  · rw [if_neg hn]
    obtain ⟨f1, f2, f3, _⟩ := findNext_prop data e it.1
    unfold posPend
    rw [f2]
    by_cases h2 : it.1 = k
    · subst h2
      have hg : it.2 < ck.recs.length := by rw [hrecs]; exact hgi
      have h3 : ¬ (findNextStream data e it.1).1 < it.1 := by omega
      have h4 : ¬ (findNextStream data e it.1).1 = it.1 := by omega
      simp only [h3, h4, if_false, if_true, Nat.lt_irrefl]
      -- validity fails at it.2 + 1 although the stream is acceptable: it.2 was the last record
      have hlast : ck.recs.length ≤ it.2 + 1 := by
        rcases Nat.lt_or_ge (it.2 + 1) ck.recs.length with hlt | hge
        · exfalso; apply hn
          exact (validAt_iff data e it.1 (it.2 + 1)).2 ⟨hsi, hok, by rw [← hrecs]; exact hlt⟩
        · exact hge
      rw [sharesOf_drop ck it.2 hg i]
      have hnil : ck.recs.drop (it.2 + 1) = [] := List.drop_eq_nil_of_le hlast
      have : ck.recs.getD it.2 default = ck.recs[it.2] := by simp [List.getD_eq_getElem?_getD, hg]
      rw [this, hnil]
      simp [sharesOf]
    · simp only [h2, if_false, Nat.add_zero]
      by_cases h1 : it.1 < k
      · simp only [h1, if_true]
        by_cases h5 : (findNextStream data e it.1).1 < k
        · simp [h5]
        · by_cases h6 : (findNextStream data e it.1).1 = k
          · simp [h5, h6]
          · -- stream k is skipped: not acceptable, so it has no records
            have hno := f3 k h1 (by omega) hk
            simp only [h5, h6, if_false]
            exact (shares_zero_of_not_ok data e k hk ck hrecs hep hno i).symm
      · have h5 : ¬ (findNextStream data e it.1).1 < k := by omega
        have h6 : ¬ (findNextStream data e it.1).1 = k := by omega
        simp [h1, h2, h5, h6]

/-- the shares of slot `k` over everything the iterator still yields from a position the code produces are what
    is ahead of that position -/
theorem sharesAt_visits (data : List SView) (e : Nat) (k : Nat) (ck : Stream) (hk : k < data.length)
    (hrecs : ck.recs = data[k].recs) (hep : data[k].epochId = e) (i : Nat) :
    ∀ n it, rankU data it ≤ n → Canon data e it → sharesAt ck k (visits data e it) i = posPend ck it k i := by
  intro n
  induction n with
  | zero =>
    intro it h hc
    by_cases hv : validAt data e it.1 it.2 = true
    · have := rank_next data e it hv; omega
    · have hv' : validAt data e it.1 it.2 = false := by simpa using hv
      rw [visits_invalid data e it hv']
      rcases hc with h1 | h1
      · exact absurd h1 hv
      · unfold posPend
        have a1 : ¬ it.1 < k := by omega
        have a2 : ¬ it.1 = k := by omega
        simp [sharesAt, a1, a2]
  | succ n ih =>
    intro it h hc
    by_cases hv : validAt data e it.1 it.2 = true
    · rw [visits_valid data e it hv, sharesAt_cons]
      have hr := rank_next data e it hv
      rw [ih (iterNext data e it) (by omega) (canon_iterNext data e it)]
      have := posPend_next_eq data e it hv k ck hk hrecs hep i
      omega
    · have hv' : validAt data e it.1 it.2 = false := by simpa using hv
      rw [visits_invalid data e it hv']
      rcases hc with h1 | h1
      · exact absurd h1 hv
      · unfold posPend
        have a1 : ¬ it.1 < k := by omega
        have a2 : ¬ it.1 = k := by omega
        simp [sharesAt, a1, a2]

/-- the stored pointer can be resumed without loss: it is at a first gauge, or the stream it names is still in the
    list, or it is past every stream -/
def PtrOK (data : List SView) (p : Pointer) : Prop :=
  p.gaugeId = 0 ∨ p.streamId ∈ data.map (·.id) ∨ ∀ sv ∈ data, sv.id < p.streamId

theorem ptrOK_last (data : List SView) (hs : SortedData data) : PtrOK data Pointer.last := by
  right; right
  intro sv hsv
  obtain ⟨k, hk, he⟩ := List.getElem_of_mem hsv
  have := hs.bound k hk
  rw [ids_getD data k hk, he] at this
  exact this

theorem ptrOK_first (data : List SView) : PtrOK data Pointer.first := Or.inl rfl

theorem ptrOK_ptrOf (data : List SView) (e : Nat) (hs : SortedData data) (it : Nat × Nat) : PtrOK data (ptrOf data e it) := by
  unfold ptrOf
  by_cases hv : validAt data e it.1 it.2 = true
  · obtain ⟨hlt, _, _⟩ := (validAt_iff data e it.1 it.2).1 hv
    simp only [hv, if_true, List.getElem?_eq_getElem hlt]
    right; left
    exact List.mem_map_of_mem (f := (·.id)) (List.getElem_mem hlt)
  · have hv' : validAt data e it.1 it.2 = false := by simpa using hv
    simp only [hv', Bool.false_eq_true, if_false]
    exact ptrOK_last data hs

/-- what is pending after a resumable pointer `p` is at most (hence, with `newIter_pend_le`, exactly) what is
    ahead of the iterator built from it — for a stream of the iterated epoch -/
theorem pendId_le_newIter (data : List SView) (e : Nat) (p : Pointer) (hs : SortedData data) (hp : PtrOK data p) (k : Nat) (hk : k < data.length)
    (st : Stream) (hid : st.id = data[k].id) (hrec : st.recs = data[k].recs) (hep : data[k].epochId = e) (i : Nat) :
    pendId p st i ≤ posPend st (newIter data e p) k i := by
  obtain ⟨_, lo, hi⟩ := binSearch_spec (data.map (·.id)) p.streamId hs.ids
  have hlenm : (data.map (·.id)).length = data.length := by simp
  -- streams before the bisection index are entirely before the pointer
  have hbefore : k < binSearch (data.map (·.id)) p.streamId → pendId p st i = 0 := by
    intro h
    apply pendId_zero_of_gt
    have := lo k h
    rw [ids_getD data k hk] at this
    rw [hid]; exact this
  -- at the bisection index: either the pointer names this very stream, or it is at a first gauge
  have hat : binSearch (data.map (·.id)) p.streamId = k → p.streamId = st.id ∨ p.gaugeId = 0 := by
    intro hb
    have hge := hi k (by omega) (by rw [hlenm]; exact hk)
    rw [ids_getD data k hk] at hge
    rcases hp with h | h | h
    · exact Or.inr h
    · left
      obtain ⟨sv, hsv, hsvid⟩ := List.mem_map.1 h
      obtain ⟨j, hj, hje⟩ := List.getElem_of_mem hsv
      have hjk : k ≤ j := by
        rcases Nat.lt_or_ge j k with hlt | hge'
        · exfalso
          have := lo j (by omega)
          rw [ids_getD data j hj, hje, hsvid] at this
          omega
        · exact hge'
      have hmono := StrictInc.mono hs.ids k j hjk (by rw [hlenm]; exact hj)
      rw [ids_getD data k hk, ids_getD data j hj, hje, hsvid] at hmono
      rw [hid]; omega
    · exfalso
      have := h data[k] (List.getElem_mem hk)
      omega
  have hdrop : ∀ g, binSearch (data.map (·.id)) p.streamId = k → g = binSearch (data[k].recs.map (·.gauge)) p.gaugeId →
      pendId p st i ≤ sharesOf st (st.recs.drop g) i := by
    intro g hb hg
    have hmem : data[k] ∈ data := List.getElem_mem hk
    rcases hat hb with h | h
    · obtain ⟨_, glo, _⟩ := binSearch_spec (data[k].recs.map (·.gauge)) p.gaugeId (hs.recs _ hmem)
      apply pendId_le_drop p st g h
      intro j hj1 hj2
      rw [hrec]
      exact glo j (by rw [hg] at hj1; exact hj1)
    · have : g = 0 := by rw [hg, h]; exact binSearch_zero _ (hs.recs _ hmem)
      rw [this, List.drop_zero]; exact pendId_le_all _ _ _
  unfold newIter
  cases hd : data[binSearch (data.map (·.id)) p.streamId]? with
  | none =>
    simp only [hd]
    have : data.length ≤ binSearch (data.map (·.id)) p.streamId := by
      rcases Nat.lt_or_ge (binSearch (data.map (·.id)) p.streamId) data.length with h | h
      · rw [List.getElem?_eq_getElem h] at hd; simp at hd
      · exact h
    rw [hbefore (by omega)]; exact Nat.zero_le _
  | some sv =>
    simp only [hd]
    obtain ⟨hsi, hsv⟩ := List.getElem?_eq_some_iff.1 hd
    by_cases hv : validAt data e (binSearch (data.map (·.id)) p.streamId) (binSearch (sv.recs.map (·.gauge)) p.gaugeId) = true
    · rw [if_pos hv]
      unfold posPend
      simp only
      by_cases h1 : binSearch (data.map (·.id)) p.streamId < k
      · simp only [h1, if_true]; exact pendId_le_all _ _ _
      · by_cases h2 : binSearch (data.map (·.id)) p.streamId = k
        · simp only [h2, Nat.lt_irrefl, if_false, if_true]
          have hsvk : sv = data[k] := by rw [← hsv]; simp [h2]
          rw [hsvk]
          exact hdrop _ h2 rfl
        · simp only [h1, h2, if_false]
          rw [hbefore (by omega)]; exact Nat.le_refl _
    · rw [if_neg hv]
      obtain ⟨f1, f2, f3, _⟩ := findNext_prop data e (binSearch (data.map (·.id)) p.streamId)
      unfold posPend
      rw [f2]
      by_cases h1 : (findNextStream data e (binSearch (data.map (·.id)) p.streamId)).1 < k
      · simp only [h1, if_true]; exact pendId_le_all _ _ _
      · by_cases h2 : (findNextStream data e (binSearch (data.map (·.id)) p.streamId)).1 = k
        · simp only [h2, Nat.lt_irrefl, if_false, if_true, List.drop_zero]; exact pendId_le_all _ _ _
        · simp only [h1, h2, if_false]
          -- k is before the next acceptable stream: before the bisection index, at it (invalid), or skipped
          rcases Nat.lt_trichotomy k (binSearch (data.map (·.id)) p.streamId) with hlt | heq | hgt
          · rw [hbefore hlt]; exact Nat.le_refl _
          · have hsvk : sv = data[k] := by rw [← hsv]; simp [heq]
            rw [hsvk] at hv
            -- invalid at (k, g): the stream is not acceptable (no records) or g is past its records
            by_cases hok : sOk e data[k] = true
            · have hg : data[k].recs.length ≤ binSearch (data[k].recs.map (·.gauge)) p.gaugeId := by
                rcases Nat.lt_or_ge (binSearch (data[k].recs.map (·.gauge)) p.gaugeId) data[k].recs.length with hlt | hge
                · exfalso
                  rw [← heq] at hv
                  exact hv ((validAt_iff data e _ _).2 ⟨hk, hok, hlt⟩)
                · exact hge
              have := hdrop _ heq.symm rfl
              rw [List.drop_eq_nil_of_le (by rw [hrec]; exact hg)] at this
              simpa [sharesOf] using this
            · have hno : sOk e data[k] = false := by simpa using hok
              have := shares_zero_of_not_ok data e k hk st hrec hep hno i
              have h2 := pendId_le_all p st i
              omega
          · have hno := f3 k hgt (by omega) hk
            have := shares_zero_of_not_ok data e k hk st hrec hep hno i
            have h2 := pendId_le_all p st i
            omega

/-- **`remaining` read per stream is the id-based pending amount** (resumable pointer, stream of the iterated epoch) -/
theorem pendR_eq_pendId (data : List SView) (e : Nat) (p : Pointer) (hs : SortedData data) (hp : PtrOK data p) (k : Nat) (hk : k < data.length)
    (st : Stream) (hid : st.id = data[k].id) (hrec : st.recs = data[k].recs) (hep : data[k].epochId = e) (i : Nat) :
    pendR data e p st k i = pendId p st i := by
  unfold pendR remaining
  rw [sharesAt_visits data e k st hk hrec hep i _ _ (Nat.le_refl _) (canon_newIter data e p)]
  have a := newIter_pend_le data e p hs k hk st hid hrec i
  have b := pendId_le_newIter data e p hs hp k hk st hid hrec hep i
  omega

/-- `PtrOK` for the pointer of epoch `e`, remembering that the stream it names belongs to that epoch (so the pointer
    stays resumable when the list is restricted to the streams of `e`, as the epoch-end flush does) -/
def PtrOKe (data : List SView) (e : Nat) (p : Pointer) : Prop :=
  p.gaugeId = 0 ∨ (∃ sv ∈ data, sv.id = p.streamId ∧ sv.epochId = e) ∨ ∀ sv ∈ data, sv.id < p.streamId

theorem PtrOKe.ok {data : List SView} {e : Nat} {p : Pointer} (h : PtrOKe data e p) : PtrOK data p := by
  rcases h with h | ⟨sv, h1, h2, _⟩ | h
  · exact Or.inl h
  · exact Or.inr (Or.inl (by rw [← h2]; exact List.mem_map_of_mem (f := (·.id)) h1))
  · exact Or.inr (Or.inr h)

theorem ptrOKe_last (data : List SView) (e : Nat) (hs : SortedData data) : PtrOKe data e Pointer.last := by
  rcases ptrOK_last data hs with h | h | h
  · exact Or.inl h
  · right; right
    intro sv hsv
    obtain ⟨k, hk, he⟩ := List.getElem_of_mem hsv
    have := hs.bound k hk
    rw [ids_getD data k hk, he] at this
    exact this
  · exact Or.inr (Or.inr h)

theorem ptrOKe_ptrOf (data : List SView) (e : Nat) (hs : SortedData data) (it : Nat × Nat) : PtrOKe data e (ptrOf data e it) := by
  unfold ptrOf
  by_cases hv : validAt data e it.1 it.2 = true
  · obtain ⟨hlt, hok, _⟩ := (validAt_iff data e it.1 it.2).1 hv
    simp only [hv, if_true, List.getElem?_eq_getElem hlt]
    right; left
    refine ⟨data[it.1], List.getElem_mem hlt, rfl, ?_⟩
    unfold sOk at hok
    simp only [Bool.and_eq_true, beq_iff_eq] at hok
    exact hok.2
  · have hv' : validAt data e it.1 it.2 = false := by simpa using hv
    simp only [hv', Bool.false_eq_true, if_false]
    exact ptrOKe_last data e hs

end DymVerif.Incent
