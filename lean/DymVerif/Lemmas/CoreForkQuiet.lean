/-
  Lemmas/CoreForkQuiet — a rollapp's revisions and latest height change only by an accepted update of
  that rollapp or a fork of that rollapp: every other transition keeps them (`apply_rk`), hence so
  does every op sequence that contains no such transition (`quiet_rk`).
-/
import DymVerif.Lemmas.CoreForkInv3
namespace DymVerif.Core.Fork

/-- rollapp `ra` keeps its revisions and its latest height -/
def RK (ra : Nat) (s s' : St) : Prop :=
  ∀ r, getRa s ra = some r → ∃ r', getRa s' ra = some r' ∧ r'.revs = r.revs ∧ latestHeight r' = latestHeight r

theorem RK.refl (ra : Nat) (s : St) : RK ra s s := fun r h => ⟨r, h, rfl, rfl⟩

theorem RK.trans {ra : Nat} {s1 s2 s3 : St} (a : RK ra s1 s2) (b : RK ra s2 s3) : RK ra s1 s3 := by
  intro r hg
  obtain ⟨r', h1, h2, h3⟩ := a r hg
  obtain ⟨r'', h4, h5, h6⟩ := b r' h1
  exact ⟨r'', h4, h5.trans h2, h6.trans h3⟩

theorem RK.of_getRa {ra : Nat} {s s' : St} (e : getRa s' ra = getRa s ra) : RK ra s s' :=
  fun r h => ⟨r, e.trans h, rfl, rfl⟩

theorem latestHeight_of_map_eraseNext {r r' : Rollapp} (e : r'.states.map eraseNext = r.states.map eraseNext) :
    latestHeight r' = latestHeight r := by
  have key : ∀ x : Rollapp, latestHeight x = ((x.states.map eraseNext).getLast?).map (·.last) := by
    intro x
    unfold latestHeight
    rw [List.getLast?_map]
    cases x.states.getLast? with
    | none => rfl
    | some y => rfl
  rw [key, key, e]

theorem Good.rk {s s' : St} (g : Good s s') (ra : Nat) : RK ra s s' := by
  intro r hg
  obtain ⟨r', h1, h2, _⟩ := g.keep ra r hg
  exact ⟨r', h1, congrArg Prod.fst h2, latestHeight_of_map_eraseNext (congrArg Prod.snd h2)⟩

theorem hardFork_rk {s s' : St} {ra ra' lv : Nat} (hne : ra ≠ ra') (e : hardFork s ra' lv = .ok s') : RK ra s s' :=
  RK.of_getRa (hardFork_getRa_other e hne)

theorem hardForkToLatest_rk {s s' : St} {ra ra' : Nat} (hne : ra ≠ ra') (e : hardForkToLatest s ra' = .ok s') : RK ra s s' := by
  obtain ⟨_, _, _, _, hf⟩ := hardForkToLatest_ok_elim e
  exact hardFork_rk hne hf

-- ---------------------------------------------------------------- finalization

theorem finalizeOne_rk {s s' : St} {fails : List (Nat × Nat)} {ra' idx : Nat} (ra : Nat)
    (e : finalizeOne s fails ra' idx = some s') : RK ra s s' := by
  unfold finalizeOne at e
  split at e
  · cases e
  · split at e
    · cases e
    · rename_i r hg
      split at e
      · cases e
      · rename_i st hst
        split at e
        · cases e
        · dsimp only at e
          injection e with e; subst e
          have hid := getRa_id hg
          by_cases hx : ra = r.id
          · subst hx
            intro r0 hg0
            rw [hid, hg] at hg0; injection hg0 with hg0; subst hg0
            have hgr : getRa { s with seqH := s.seqH.filter (fun p => !(p.1 == st.creator && st.bds.any (·.height == p.2))) } r.id = some r := by
              show getRa s r.id = some r; rw [hid]; exact hg
            refine ⟨_, getRa_setRa_same (r := { r with states := r.states.set (idx - 1) { st with finalized := true, finalizedAt := s.h }, lastFin := idx }) hgr, rfl, ?_⟩
            unfold latestHeight
            dsimp only
            rw [List.getLast?_eq_getElem?, List.getLast?_eq_getElem?, List.length_set, List.getElem?_set]
            by_cases hi : idx - 1 = r.states.length - 1
            · rw [if_pos hi, ← hi, hst]
              have hlt := getElem?_lt hst
              simp [hlt]
              rfl
            · rw [if_neg hi]
          · apply RK.of_getRa
            have : getRa (setRa { s with seqH := s.seqH.filter (fun p => !(p.1 == st.creator && st.bds.any (·.height == p.2))) }
                { r with states := r.states.set (idx - 1) { st with finalized := true, finalizedAt := s.h }, lastFin := idx }) ra = getRa s ra :=
              getRa_setRa_other hx
            exact this

theorem finalizeEntry_go_rk (ra : Nat) (fails : List (Nat × Nat)) (e : QEntry) (l : List Nat) (s : St) :
    RK ra s (finalizeEntry.go fails e s l).1 := by
  induction l generalizing s with
  | nil => unfold finalizeEntry.go; exact RK.of_getRa rfl
  | cons i rest ih =>
    unfold finalizeEntry.go
    split
    · rename_i s1 h1; exact (finalizeOne_rk ra h1).trans (ih s1)
    · exact RK.of_getRa rfl

theorem finalizeAll_rk (ra : Nat) (fails : List (Nat × Nat)) (es : List QEntry) (failed : List Nat) (s : St) :
    RK ra s (finalizeAll s fails es failed) := by
  induction es generalizing s failed with
  | nil => unfold finalizeAll; exact RK.refl ra s
  | cons e es ih =>
    unfold finalizeAll
    split
    · exact ih _ _
    · have h1 := finalizeEntry_go_rk ra fails e e.idx s
      unfold finalizeEntry
      exact h1.trans (ih _ _)

theorem endBlock_rk (ra : Nat) (s : St) (fails : List (Nat × Nat)) : RK ra s (endBlock s fails) := by
  unfold endBlock
  refine RK.trans ?_ ((checkLiveness_good _).rk ra)
  unfold finalizeRollappStates
  split
  · exact RK.refl ra s
  · exact finalizeAll_rk _ _ _ _ _

-- ---------------------------------------------------------------- update of another rollapp

theorem onProposerLastBlock_rk {s s' : St} {q : Seq} {ra : Nat} (hne : q.rollapp ≠ ra)
    (e : onProposerLastBlock s q = .ok s') : RK ra s s' := by
  unfold onProposerLastBlock at e
  split at e
  · cases e
  · split at e
    · cases e
    · rename_i r hg
      dsimp only at e
      have hid := getRa_id hg
      have g : Good s (setRa s { r with successor := none, proposer := r.successor }) :=
        Good.setRa rfl rfl rfl (r0 := r) (by show getRa s r.id = some r; rw [hid]; exact hg) rfl
          (fun x => ⟨fun a ha => x.2 a ha, fun a ha => (by cases ha)⟩)
      split at e
      · exact (g.rk ra).trans (hardForkToLatest_rk (by rw [hid]; exact fun hc => hne hc.symm) e)
      · have g2 : Good s s' := by
          injection e with e; rw [← e]
          exact g.trans (afterSetRealProposer_good _ _ _)
        exact g2.rk ra

theorem seqAfterUpdate_rk {s s' : St} {m : UpdMsg} {b : Bool} {ra : Nat}
    (hne : ∀ prop, getSeq s m.sender = some prop → prop.rollapp ≠ ra)
    (e : seqAfterUpdate s m b = .ok s') : RK ra s s' := by
  unfold seqAfterUpdate at e
  split at e
  · cases e
  · rename_i prop hg
    dsimp only at e
    have g : Good s (setSeq s { prop with dishonor := prop.dishonor - min s.sqp.dishonorSU prop.dishonor }) :=
      Good.setSeq (q := { prop with dishonor := prop.dishonor - min s.sqp.dishonorSU prop.dishonor }) (q0 := prop)
        (by show getSeq s prop.addr = some prop; rw [getSeq_addr hg]; exact hg) rfl
    split at e
    · exact (g.rk ra).trans (onProposerLastBlock_rk (q := { prop with dishonor := prop.dishonor - min s.sqp.dishonorSU prop.dishonor })
        (hne prop hg) e)
    · injection e with e; subst e; exact g.rk ra

theorem updateState_rk {s s' : St} {m : UpdMsg} {ra : Nat} (hi : Inv s) (hne : m.ra ≠ ra)
    (e : updateState s m = .ok s') : RK ra s s' := by
  unfold updateState at e
  split at e
  · cases e
  · split at e
    · cases e
    · rename_i r hg
      split at e
      · cases e
      · rename_i hprop
        split at e
        · cases e
        · split at e
          · cases e
          · split at e
            · cases e
            · split at e
              · cases e
              · split at e
                · cases e
                · rename_i s3 h3
                  dsimp only at e
                  split at e
                  · cases e
                  · rename_i r4 hg4
                    injection e with e; subst e
                    have hid := getRa_id hg
                    have hpr : r.proposer = some m.sender := by simpa using hprop
                    have hsend : SeqOf s m.sender m.ra := by
                      have h0 := (hi.j.prop m.ra r hg).1 m.sender hpr
                      rw [hid] at h0; exact h0
                    have k1 : RK ra s (setRa s { r with states := r.states ++ [newSInfo s m (updSucc r m)] }) := by
                      apply RK.of_getRa
                      exact getRa_setRa_other (r := { r with states := r.states ++ [newSInfo s m (updSucc r m)] })
                        (by show ra ≠ r.id; rw [hid]; exact fun hc => hne hc.symm)
                    have k2 : RK ra (setRa s { r with states := r.states ++ [newSInfo s m (updSucc r m)] }) s3 := by
                      apply seqAfterUpdate_rk _ h3
                      intro prop hp
                      obtain ⟨q, hq, hqr⟩ := hsend
                      have hp : getSeq s m.sender = some prop := hp
                      rw [hq] at hp; injection hp with hp; subst hp
                      rw [hqr]; exact hne
                    have k3 : RK ra s3 { s3 with queue := queueAppend s3.queue s3.h m.ra (r.states.length + 1),
                                                 seqH := addSeqHeights s3.seqH m.sender m.bds } := RK.of_getRa rfl
                    refine ((k1.trans k2).trans k3).trans ?_
                    refine Good.rk ?_ ra
                    exact indicateLiveness_good (id := m.ra) hg4

-- ---------------------------------------------------------------- kick / fraud of another rollapp

theorem kick_rk {s s' : St} {a : Addr} {ra : Nat} (hi : Inv s) (hne : ∀ q, getSeq s a = some q → q.rollapp ≠ ra)
    (e : kick s a = .ok s') : RK ra s s' := by
  obtain ⟨kicker, r, pa, s3, hk, hg, hpa, _, h3, e'⟩ := kick_ok_elim e
  have hid := getRa_id hg
  have g2 := abruptRemoveProposer_good s r.id
  have hc2 : ChainAll (abruptRemoveProposer s r.id) := abruptRemoveProposer_chain hi.chain
  have hcu2 : Cust (abruptRemoveProposer s r.id) := abruptRemoveProposer_cust hi.cust
  have hcu3 := hardForkToLatest_cust hcu2 h3
  have hw3 := g2.weak.trans (hardForkToLatest_weak hc2 h3)
  obtain ⟨q3, hq3, hr3⟩ := hw3.seqMono a kicker.rollapp ⟨kicker, hk, rfl⟩
  have hka := getSeq_addr hk
  have g4 : Good s3 (setSeq s3 { kicker with optedIn := true }) :=
    Good.setSeq (q := { kicker with optedIn := true }) (q0 := q3)
      (by show getSeq s3 kicker.addr = some q3; rw [hka]; exact hq3) (by show kicker.rollapp = q3.rollapp; exact hr3.symm)
  have k3 : RK ra (abruptRemoveProposer s r.id) s3 :=
    hardForkToLatest_rk (by rw [hid]; exact fun hc => hne kicker hk hc.symm) h3
  exact ((g2.rk ra).trans k3).trans ((g4.trans (recoverFromSentinel_good (nodup_setSeq hcu3.nodup _) e')).rk ra)

theorem fraud_rk {s s' : St} {au : Bool} {ra ra' hh rev : Nat} {p rw : Option Addr} (hne : ra' ≠ ra)
    (e : fraud s au ra' hh rev p rw = .ok s') : RK ra s s' := by
  obtain ⟨_, _, r, s1, _, _, h5, h6⟩ := fraud_ok_elim e
  cases p with
  | none =>
    have : s1 = s := h5
    subst this
    exact hardFork_rk (fun hc => hne hc.symm) h6
  | some a =>
    have h5 : punish s a rw = .ok s1 := h5
    exact ((punish_good h5).rk ra).trans (hardFork_rk (fun hc => hne hc.symm) h6)

-- ---------------------------------------------------------------- all ops

/-- the transitions that may change rollapp `ra`'s revisions or latest height: an update of `ra`,
    a fraud proposal against `ra`, a kick by a sequencer of `ra`, an obsolete-version marking -/
def touches (s : St) (ra : Nat) : Op → Prop
  | .update m => m.ra = ra
  | .fraud _ ra' _ _ _ _ => ra' = ra
  | .kick a => ∃ q, getSeq s a = some q ∧ q.rollapp = ra
  | .obsolete _ _ => True
  | _ => False

theorem apply_rk {s s' : St} {o : Op} {ra : Nat} (hi : Inv s) (e : apply s o = .ok s') (hq : ¬ touches s ra o) :
    RK ra s s' := by
  cases o with
  | createRollapp id owner mb =>
    simp only [apply] at e
    split at e
    · cases e
    · rename_i hn
      injection e with e; subst e
      have hnone : getRa s id = none := by
        cases hx : getRa s id with
        | none => rfl
        | some _ => simp [hx] at hn
      exact (createRollapp_good owner mb hnone).rk ra
  | bridge ra' hh =>
    simp only [apply] at e
    split at e
    · cases e
    · rename_i r hg
      split at e
      · cases e
      · split at e
        · cases e
        · injection e with e; subst e
          exact (Good.setRa rfl rfl rfl (r0 := r) (r1 := { r with tph := hh })
            (by show getRa s r.id = some r; rw [getRa_id hg]; exact hg) rfl (fun x => x.of_fields rfl rfl rfl)).rk ra
  | fund a amt =>
    simp only [apply] at e; injection e with e; subst e
    exact RK.of_getRa rfl
  | createSeq a ra' b d => exact (createSeq_good hi.cust.nodup e).rk ra
  | bondInc a amt d => exact (increaseBond_good e).rk ra
  | bondDec a amt => exact (decreaseBond_good e).rk ra
  | unbond a => exact (unbond_good e).rk ra
  | optIn a v => exact (optIn_good hi.cust.nodup e).rk ra
  | kick a =>
    exact kick_rk hi (fun q hq' hc => hq ⟨q, hq', hc⟩) e
  | update m => exact updateState_rk hi (fun hc => hq hc) e
  | fraud au ra' hh rev p rw => exact fraud_rk (fun hc => hq hc) e
  | obsolete au vs => exact absurd trivial hq
  | punish au a rw => exact (punish_good (punishProposal_ok e).2).rk ra
  | transferOwner sg ra' no =>
    obtain ⟨r, hg, _, _, _, rfl⟩ := transferOwner_ok e
    exact (Good.setRa rfl rfl rfl (r0 := r) (r1 := { r with owner := no })
      (by show getRa s r.id = some r; rw [getRa_id hg]; exact hg) rfl (fun x => x.of_fields rfl rfl rfl)).rk ra
  | setSeqParams au sp =>
    obtain ⟨_, hnp, _, rfl⟩ := setSeqParams_ok e
    exact RK.of_getRa rfl
  | begin_ dt =>
    simp only [apply] at e; injection e with e; subst e
    exact (beginBlock_good hi.cust.nodup).rk ra
  | end_ f =>
    simp only [apply] at e; injection e with e; subst e
    exact endBlock_rk ra s f

/-- an op sequence in which every op either does not touch `ra` or is rejected -/
inductive Quiet (ra : Nat) : St → List Op → Prop
  | nil (s : St) : Quiet ra s []
  | cons (s : St) (o : Op) (rest : List Op) : (¬ touches s ra o ∨ (step s o).2 ≠ none) →
      Quiet ra (step s o).1 rest → Quiet ra s (o :: rest)

theorem quiet_rk {ra : Nat} {s : St} {ops : List Op} (hi : Inv s) (hq : Quiet ra s ops) :
    RK ra s (ops.foldl (fun s o => (step s o).1) s) ∧ Inv (ops.foldl (fun s o => (step s o).1) s) := by
  induction hq with
  | nil s => exact ⟨RK.refl ra s, hi⟩
  | cons s o rest h1 _ ih =>
    have hi1 : Inv (step s o).1 := step_inv hi
    obtain ⟨k2, i2⟩ := ih hi1
    rw [List.foldl_cons]
    refine ⟨RK.trans ?_ k2, i2⟩
    unfold step
    cases ha : apply s o with
    | ok s1 =>
      dsimp only
      rcases h1 with h1 | h1
      · exact apply_rk hi ha h1
      · exfalso; apply h1; unfold step; rw [ha]
    | error er => exact RK.refl ra s

end DymVerif.Core.Fork
