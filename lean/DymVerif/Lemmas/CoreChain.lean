/-
  Lemmas/CoreChain — the state chain of every rollapp is gap-free in every reachable state.
-/
import DymVerif.Lemmas.CoreBasic
namespace DymVerif.Core

/-- a single stored state update is well formed -/
structure SInfo.WF (st : SInfo) : Prop where
  num_pos : 1 ≤ st.num
  start_pos : 1 ≤ st.start
  no_overflow : st.start + st.num < 2 ^ 64
  bds_len : st.bds.length = st.num
  bds_seq : ∀ i b, st.bds[i]? = some b → b.height = st.start + i

/-- gap-free chain: every state well formed, each starts right after the previous one ends -/
structure Chain (l : List SInfo) : Prop where
  wf : ∀ st ∈ l, st.WF
  link : ∀ i a b, l[i]? = some a → l[i + 1]? = some b → b.start = a.start + a.num

def ChainQ (r : Rollapp) : Prop := Chain r.states

theorem Chain.nil : Chain [] := ⟨by simp, by simp⟩

/-- the chain only depends on (start, num, bds) of each element -/
theorem Chain.congr {l l' : List SInfo} (h : Chain l)
    (e : l'.map (fun s => (s.start, s.num, s.bds)) = l.map (fun s => (s.start, s.num, s.bds))) : Chain l' := by
  have hlen : l'.length = l.length := by simpa using congrArg List.length e
  have key : ∀ (i : Nat) (a' : SInfo), l'[i]? = some a' → ∃ a : SInfo, l[i]? = some a ∧ a'.start = a.start ∧ a'.num = a.num ∧ a'.bds = a.bds := by
    intro i a' ha'
    have hi : i < l'.length := by
      rcases Nat.lt_or_ge i l'.length with h1 | h1
      · exact h1
      · rw [List.getElem?_eq_none h1] at ha'; cases ha'
    have hi2 : i < l.length := hlen ▸ hi
    refine ⟨l[i], by simp [hi2], ?_⟩
    have e1 := congrArg (fun x => x[i]?) e
    simp only [List.getElem?_map] at e1
    rw [ha'] at e1
    simp [List.getElem?_eq_getElem hi2] at e1
    exact e1
  constructor
  · intro st hst
    obtain ⟨i, hi, rfl⟩ := List.mem_iff_getElem.1 hst
    obtain ⟨a, ha, e1, e2, e3⟩ := key i l'[i] (by simp [hi])
    have hw := h.wf a (List.mem_of_getElem? ha)
    exact ⟨e2 ▸ hw.num_pos, e1 ▸ hw.start_pos, by rw [e1, e2]; exact hw.no_overflow,
      by rw [e3, e2]; exact hw.bds_len, by intro j b hb; rw [e3] at hb; rw [e1]; exact hw.bds_seq j b hb⟩
  · intro i a' b' ha' hb'
    obtain ⟨a, ha, e1, e2, _⟩ := key i a' ha'
    obtain ⟨b, hb, f1, _, _⟩ := key (i + 1) b' hb'
    rw [f1, e1, e2]; exact h.link i a b ha hb

/-- appending a well-formed state that starts right after the last one -/
theorem Chain.append {l : List SInfo} {st : SInfo} (h : Chain l) (hw : st.WF)
    (hs : ∀ a, l.getLast? = some a → st.start = a.start + a.num) : Chain (l ++ [st]) := by
  constructor
  · intro x hx
    rcases List.mem_append.1 hx with h1 | h1
    · exact h.wf x h1
    · simp at h1; exact h1 ▸ hw
  · intro i a b ha hb
    by_cases hi : i + 1 < l.length
    · rw [List.getElem?_append_left (by omega)] at ha
      rw [List.getElem?_append_left hi] at hb
      exact h.link i a b ha hb
    · have hb2 : i + 1 < (l ++ [st]).length := by
        rcases Nat.lt_or_ge (i + 1) (l ++ [st]).length with h1 | h1
        · exact h1
        · rw [List.getElem?_eq_none h1] at hb; cases hb
      simp at hb2
      have hil : i + 1 = l.length := by omega
      rw [List.getElem?_append_right (by omega)] at hb
      have : i + 1 - l.length = 0 := by omega
      rw [this] at hb
      simp at hb
      subst hb
      rw [List.getElem?_append_left (by omega)] at ha
      apply hs
      rw [List.getLast?_eq_getElem?]
      have : l.length - 1 = i := by omega
      rw [this]; exact ha

/-- a prefix of a chain is a chain -/
theorem Chain.take {l : List SInfo} (h : Chain l) (n : Nat) : Chain (l.take n) := by
  constructor
  · intro x hx; exact h.wf x (List.mem_of_mem_take hx)
  · intro i a b ha hb
    have hb' : i + 1 < n := by
      rcases Nat.lt_or_ge (i + 1) n with h1 | h1
      · exact h1
      · rw [List.getElem?_take_eq_none h1] at hb; cases hb
    rw [List.getElem?_take_of_lt (by omega)] at ha
    rw [List.getElem?_take_of_lt hb'] at hb
    exact h.link i a b ha hb

/-- the result of a fork: a prefix followed by the kept state, which is either an unchanged element
    of the chain or a truncation of one to a positive number of blocks -/
theorem Chain.fork {l : List SInfo} (h : Chain l) (k : Nat) (st kst : SInfo) (hk : l[k]? = some st)
    (hstart : kst.start = st.start) (hnum : 1 ≤ kst.num ∧ kst.num ≤ st.num)
    (hbds : kst.bds = st.bds.take kst.num) : Chain (l.take k ++ [kst]) := by
  have hwst := h.wf st (List.mem_of_getElem? hk)
  have hklt : k < l.length := by
    rcases Nat.lt_or_ge k l.length with h1 | h1
    · exact h1
    · rw [List.getElem?_eq_none h1] at hk; cases hk
  apply Chain.append (h.take k)
  · refine ⟨hnum.1, hstart ▸ hwst.start_pos, ?_, ?_, ?_⟩
    · rw [hstart]; have := hwst.no_overflow; omega
    · rw [hbds, List.length_take, hwst.bds_len]; omega
    · intro i b hb
      rw [hbds] at hb
      have hi : i < kst.num := by
        rcases Nat.lt_or_ge i kst.num with h1 | h1
        · exact h1
        · rw [List.getElem?_take_eq_none h1] at hb; cases hb
      rw [List.getElem?_take_of_lt hi] at hb
      rw [hstart]; exact hwst.bds_seq i b hb
  · intro a ha
    rw [List.getLast?_eq_getElem?, List.length_take, Nat.min_eq_left (by omega)] at ha
    by_cases hk0 : k = 0
    · subst hk0; simp at ha
    · rw [List.getElem?_take_of_lt (by omega)] at ha
      have := h.link (k - 1) a st ha (by rw [show k - 1 + 1 = k by omega]; exact hk)
      rw [hstart]; exact this

end DymVerif.Core
