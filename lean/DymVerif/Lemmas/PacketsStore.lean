/-
  Lemmas/PacketsStore — the packet store and the by-address index as finite maps: membership after
  `setPacket` / `delPacket` / `insertAK`, key uniqueness, `getPacket` on a key-unique store.
-/
import DymVerif.Lemmas.PacketsBasic
namespace DymVerif.Packets
open DymVerif DymVerif.Keys

theorem mem_insertPkt {p q : Packet} : ∀ {l : List Packet}, q ∈ insertPkt p l ↔ q = p ∨ q ∈ l
  | [] => by simp [insertPkt]
  | x :: xs => by
    unfold insertPkt
    split
    · simp
    · simp only [List.mem_cons, mem_insertPkt (l := xs)]
      constructor
      · rintro (h | h | h)
        · exact Or.inr (Or.inl h)
        · exact Or.inl h
        · exact Or.inr (Or.inr h)
      · rintro (h | h | h)
        · exact Or.inr (Or.inl h)
        · exact Or.inl h
        · exact Or.inr (Or.inr h)

theorem mem_setPacket {s : St} {p q : Packet} :
    q ∈ (setPacket s p).packets ↔ q = p ∨ (q ∈ s.packets ∧ pkey q ≠ pkey p) := by
  simp [setPacket, mem_insertPkt, List.mem_filter]

theorem mem_delPacket {s : St} {k : Bytes} {q : Packet} :
    q ∈ (delPacket s k).packets ↔ q ∈ s.packets ∧ pkey q ≠ k := by
  simp [delPacket, List.mem_filter]

@[simp] theorem setPacket_byAddr (s : St) (p) : (setPacket s p).byAddr = s.byAddr := rfl
@[simp] theorem setPacket_receipts (s : St) (p) : (setPacket s p).receipts = s.receipts := rfl
@[simp] theorem setPacket_commits (s : St) (p) : (setPacket s p).commits = s.commits := rfl
@[simp] theorem setPacket_nextSeq (s : St) (p) : (setPacket s p).nextSeq = s.nextSeq := rfl
@[simp] theorem setPacket_log (s : St) (p) : (setPacket s p).log = s.log := rfl
@[simp] theorem setPacket_ras (s : St) (p) : (setPacket s p).ras = s.ras := rfl
@[simp] theorem setPacket_sent (s : St) (p) : (setPacket s p).sent = s.sent := rfl
@[simp] theorem setPacket_chans (s : St) (p) : (setPacket s p).chans = s.chans := rfl
@[simp] theorem delPacket_byAddr (s : St) (k) : (delPacket s k).byAddr = s.byAddr := rfl
@[simp] theorem delPacket_receipts (s : St) (k) : (delPacket s k).receipts = s.receipts := rfl
@[simp] theorem delPacket_commits (s : St) (k) : (delPacket s k).commits = s.commits := rfl
@[simp] theorem delPacket_nextSeq (s : St) (k) : (delPacket s k).nextSeq = s.nextSeq := rfl
@[simp] theorem delPacket_log (s : St) (k) : (delPacket s k).log = s.log := rfl
@[simp] theorem delPacket_ras (s : St) (k) : (delPacket s k).ras = s.ras := rfl
@[simp] theorem delPacket_sent (s : St) (k) : (delPacket s k).sent = s.sent := rfl
@[simp] theorem delPacket_chans (s : St) (k) : (delPacket s k).chans = s.chans := rfl
@[simp] theorem addByAddr_packets (s : St) (a k) : (addByAddr s a k).packets = s.packets := rfl
@[simp] theorem addByAddr_receipts (s : St) (a k) : (addByAddr s a k).receipts = s.receipts := rfl
@[simp] theorem addByAddr_commits (s : St) (a k) : (addByAddr s a k).commits = s.commits := rfl
@[simp] theorem addByAddr_nextSeq (s : St) (a k) : (addByAddr s a k).nextSeq = s.nextSeq := rfl
@[simp] theorem addByAddr_log (s : St) (a k) : (addByAddr s a k).log = s.log := rfl
@[simp] theorem addByAddr_ras (s : St) (a k) : (addByAddr s a k).ras = s.ras := rfl
@[simp] theorem addByAddr_sent (s : St) (a k) : (addByAddr s a k).sent = s.sent := rfl
@[simp] theorem addByAddr_chans (s : St) (a k) : (addByAddr s a k).chans = s.chans := rfl
@[simp] theorem delByAddr_packets (s : St) (a k) : (delByAddr s a k).packets = s.packets := rfl
@[simp] theorem delByAddr_receipts (s : St) (a k) : (delByAddr s a k).receipts = s.receipts := rfl
@[simp] theorem delByAddr_commits (s : St) (a k) : (delByAddr s a k).commits = s.commits := rfl
@[simp] theorem delByAddr_nextSeq (s : St) (a k) : (delByAddr s a k).nextSeq = s.nextSeq := rfl
@[simp] theorem delByAddr_log (s : St) (a k) : (delByAddr s a k).log = s.log := rfl
@[simp] theorem delByAddr_ras (s : St) (a k) : (delByAddr s a k).ras = s.ras := rfl
@[simp] theorem delByAddr_sent (s : St) (a k) : (delByAddr s a k).sent = s.sent := rfl
@[simp] theorem delByAddr_chans (s : St) (a k) : (delByAddr s a k).chans = s.chans := rfl

/-- `getPacket` finds a packet of the store and it has the requested key -/
theorem getPacket_some {s : St} {k : Bytes} {p : Packet} (h : getPacket s k = some p) : p ∈ s.packets ∧ pkey p = k := by
  unfold getPacket at h
  have h1 := List.mem_of_find?_eq_some h
  have h2 := List.find?_some h
  exact ⟨h1, by simpa using h2⟩

theorem getPacket_none {s : St} {k : Bytes} (h : getPacket s k = none) : ∀ p ∈ s.packets, pkey p ≠ k := by
  unfold getPacket at h
  intro p hp hk
  have := List.find?_eq_none.mp h p hp
  simp [hk] at this

/-- the store holds at most one packet per key -/
def KeysNodup (l : List Packet) : Prop := l.Pairwise (fun a b => pkey a ≠ pkey b)

theorem find_of_keysNodup : ∀ {l : List Packet} {p : Packet}, KeysNodup l → p ∈ l →
    l.find? (fun q => pkey q == pkey p) = some p
  | [], _, _, h => by cases h
  | x :: xs, p, hk, hp => by
    rw [KeysNodup, List.pairwise_cons] at hk
    rcases List.mem_cons.mp hp with rfl | hp'
    · simp [List.find?]
    · have hne : pkey x ≠ pkey p := hk.1 p hp'
      have : (pkey x == pkey p) = false := by simpa using hne
      simp only [List.find?, this]
      exact find_of_keysNodup hk.2 hp'

theorem getPacket_of_mem {s : St} {p : Packet} (hk : KeysNodup s.packets) (hp : p ∈ s.packets) :
    getPacket s (pkey p) = some p := find_of_keysNodup hk hp

theorem keysNodup_filter {l : List Packet} (f : Packet → Bool) (h : KeysNodup l) : KeysNodup (l.filter f) :=
  List.Pairwise.filter f h

theorem keysNodup_insertPkt {p : Packet} : ∀ {l : List Packet}, KeysNodup l → (∀ q ∈ l, pkey q ≠ pkey p) →
    KeysNodup (insertPkt p l)
  | [], _, _ => by simp [insertPkt, KeysNodup]
  | x :: xs, hk, hn => by
    unfold insertPkt
    rw [KeysNodup, List.pairwise_cons] at hk
    split
    · rw [KeysNodup, List.pairwise_cons]
      refine ⟨fun q hq => (hn q hq).symm, ?_⟩
      rw [List.pairwise_cons]; exact hk
    · rw [KeysNodup, List.pairwise_cons]
      refine ⟨?_, keysNodup_insertPkt hk.2 (fun q hq => hn q (List.mem_cons_of_mem _ hq))⟩
      intro q hq
      rcases mem_insertPkt.mp hq with rfl | hq'
      · exact hn x List.mem_cons_self
      · exact hk.1 q hq'

theorem keysNodup_setPacket {s : St} (p : Packet) (h : KeysNodup s.packets) : KeysNodup (setPacket s p).packets := by
  unfold setPacket
  apply keysNodup_insertPkt (keysNodup_filter _ h)
  intro q hq
  simpa using (List.mem_filter.mp hq).2

theorem keysNodup_delPacket {s : St} (k : Bytes) (h : KeysNodup s.packets) : KeysNodup (delPacket s k).packets :=
  keysNodup_filter _ h

-- by-address index ---------------------------------------------------------------------------

theorem mem_insertAK {x y : Addr × Bytes} : ∀ {l : List (Addr × Bytes)}, y ∈ insertAK x l ↔ y = x ∨ y ∈ l
  | [] => by simp [insertAK]
  | z :: zs => by
    unfold insertAK
    split
    · simp
    · split
      · simp only [List.mem_cons, mem_insertAK (l := zs)]
        constructor
        · rintro (h | h | h)
          · exact Or.inr (Or.inl h)
          · exact Or.inl h
          · exact Or.inr (Or.inr h)
        · rintro (h | h | h)
          · exact Or.inr (Or.inl h)
          · exact Or.inl h
          · exact Or.inr (Or.inr h)
      · -- neither smaller nor larger: the entry replaces an equal one (x and z compare equal)
        rename_i h1 h2
        have hxz : x = z := by
          have e1 : ¬ (x.1 < z.1) := by
            intro hlt; apply h1; simp [ltAK, hlt]
          have e2 : ¬ (z.1 < x.1) := by
            intro hlt; apply h2; simp [ltAK, hlt]
          have e : x.1 = z.1 := Nat.le_antisymm (Nat.not_lt.mp e2) (Nat.not_lt.mp e1)
          have l1 : lexLt x.2 z.2 = false := by
            cases hh : lexLt x.2 z.2 with
            | false => rfl
            | true => exact absurd (by simp [ltAK, e, hh]) h1
          have l2 : lexLt z.2 x.2 = false := by
            cases hh : lexLt z.2 x.2 with
            | false => rfl
            | true => exact absurd (by simp [ltAK, e, hh]) h2
          have : x.2 = z.2 := lexLt_total_eq l1 l2
          exact Prod.ext e this
        subst hxz
        simp
where
  lexLt_total_eq : ∀ {a b : Bytes}, lexLt a b = false → lexLt b a = false → a = b
    | [], [], _, _ => rfl
    | [], _ :: _, h, _ => by simp [lexLt] at h
    | _ :: _, [], _, h => by simp [lexLt] at h
    | x :: xs, y :: ys, h1, h2 => by
      unfold lexLt at h1 h2
      by_cases hxy : x < y
      · simp [hxy] at h1
      · by_cases hyx : y < x
        · simp [hyx] at h2
        · simp only [hxy, hyx, if_false] at h1 h2
          have : x = y := Nat.le_antisymm (Nat.not_lt.mp hyx) (Nat.not_lt.mp hxy)
          subst this
          rw [lexLt_total_eq h1 h2]

theorem mem_addByAddr {s : St} {a : Addr} {k : Bytes} {y : Addr × Bytes} :
    y ∈ (addByAddr s a k).byAddr ↔ y = (a, k) ∨ y ∈ s.byAddr := by
  simp [addByAddr, mem_insertAK]

theorem mem_delByAddr {s : St} {a : Addr} {k : Bytes} {y : Addr × Bytes} :
    y ∈ (delByAddr s a k).byAddr ↔ y ∈ s.byAddr ∧ y ≠ (a, k) := by
  simp only [delByAddr, List.mem_filter]
  constructor
  · rintro ⟨h1, h2⟩
    refine ⟨h1, ?_⟩
    rintro rfl
    simp at h2
  · rintro ⟨h1, h2⟩
    refine ⟨h1, ?_⟩
    cases y with
    | mk y1 y2 =>
      simp only [Bool.not_eq_true', Bool.and_eq_false_iff]
      by_cases e1 : y1 = a
      · by_cases e2 : y2 = k
        · subst e1; subst e2; exact absurd rfl h2
        · right; simpa using e2
      · left; simpa using e1

end DymVerif.Packets
