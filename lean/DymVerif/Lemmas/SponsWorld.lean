import DymVerif.Lemmas.SponsFrame
/-
  Lemmas/SponsWorld — the world-building invariant: gauge ids are bounded by `LastGaugeID` (so every
  created gauge is fresh), every rollapp gauge belongs to a rollapp with an endorsement, every
  endorsement names exactly one rollapp gauge (`RaGauge`) and its total shares are exact (`ShareInv`),
  and votes only weigh existing gauges.  It holds in the genesis state and is kept by EVERY op
  (creation of gauges / rollapps, MsgUpdateParams included), so `RaGauge` / `ShareInv` need not be
  assumed.
-/
namespace DymVerif.Spons

structure World (s : State) : Prop where
  bound : ∀ i ∈ s.gauges.map (·.id), i ≤ s.lastGauge
  ra_endo : ∀ g r, raOf s.gauges g = some r → (s.endorsement? r).isSome
  endo : ∀ r e, s.endorsement? r = some e → RaGauge s r e.gaugeId ∧ ShareInv s r e.gaugeId
  wbound : ∀ x ∈ s.votes, ∀ w ∈ x.2.weights, w.1 ≤ s.lastGauge

theorem init_world (ma mv : Int) : World (State.init ma mv) := by
  refine ⟨?_, ?_, ?_, ?_⟩
  · intro i hi; cases hi
  · intro g r h; cases h
  · intro r e h; cases h
  · intro x hx; cases hx

/-! ### the votes' weights -/

/-- every stored vote's weight list satisfies `P` -/
def VotesAll (P : List GP → Prop) (s : State) : Prop := ∀ x ∈ s.votes, P x.2.weights

theorem revokeVote_votesAll {P : List GP → Prop} {s : State} {a : Nat} {v : Vote} (h : VotesAll P s) :
    VotesAll P (s.revokeVote a v) := by
  intro x hx
  rw [revokeVote_votes] at hx
  exact h x (mem_aerase.mp hx).1

theorem castVote_votesAll {P : List GP → Prop} {s1 s' : State} {a : Nat} {ws : List GP} (h : VotesAll P s1)
    (hp : P ws) (hc : s1.castVote a ws = .ok s') : VotesAll P s' := by
  obtain ⟨_, hvotes, _, _, _⟩ := castVote_ok hc
  intro x hx
  rw [hvotes] at hx
  rcases List.mem_cons.mp hx with rfl | hx
  · exact hp
  · exact h x (mem_aerase.mp hx).1

theorem vote_votesAll {P : List GP → Prop} {s s' : State} {a : Nat} {ws : List GP} (h : VotesAll P s)
    (hp : P ws) (hv : s.vote a ws = .ok s') : VotesAll P s' := by
  unfold State.vote at hv
  split at hv
  · cases hv
  split at hv
  · cases hv
  split at hv
  · exact castVote_votesAll (revokeVote_votesAll h) hp hv
  · exact castVote_votesAll h hp hv

theorem processHook_votesAll {P : List GP → Prop} {s : State} {a val : Nat} {v : Vote} {o n : Int}
    (h : VotesAll P s) (hv : alookup a s.votes = some v) : VotesAll P (s.processHook a val v o n) := by
  unfold State.processHook
  simp only
  split
  · exact revokeVote_votesAll h
  · intro x hx
    have hx' : x ∈ aset a (⟨v.vp + (n - o), v.weights⟩ : Vote) s.votes := hx
    rcases List.mem_cons.mp hx' with rfl | hx'
    · exact h (a, v) (alookup_mem hv)
    · exact h x (mem_aerase.mp hx').1

theorem hooks_votesAll {P : List GP → Prop} {s s' : State} {a : Nat} {hs : List (Nat × Option Int)}
    (h : VotesAll P s) (hh : s.hooks a hs = .ok s') : VotesAll P s' := by
  induction hs generalizing s with
  | nil => cases hh; exact h
  | cons x xs ih =>
    unfold State.hooks at hh
    split at hh
    · cases hh
    · rename_i s1 h1
      refine ih ?_ hh
      rcases hook_ok h1 with ⟨_, rfl⟩ | ⟨v, hv, rfl⟩
      · exact h
      · exact processHook_votesAll h hv

/-- accepted weights name existing gauges -/
theorem validateWeights_ok {s : State} {ws : List GP} (h : validateWeights s ws = none) :
    ∀ w ∈ ws, (s.gauge? w.1).isSome := by
  induction ws with
  | nil => intro w hw; cases hw
  | cons w ws ih =>
    unfold validateWeights at h
    split at h
    · cases h
    split at h
    · cases h
    · rename_i g hg
      split at h
      · cases h
      · intro x hx
        rcases List.mem_cons.mp hx with rfl | hx
        · rw [hg]; rfl
        · exact ih h x hx

theorem vote_weights_exist {s s' : State} {a : Nat} {ws : List GP} (hv : s.vote a ws = .ok s') :
    ∀ w ∈ ws, (s.gauge? w.1).isSome := by
  unfold State.vote at hv
  split at hv
  · cases hv
  split at hv
  · cases hv
  · rename_i hval; exact validateWeights_ok hval

theorem gauge?_bound {s : State} (hb : ∀ i ∈ s.gauges.map (·.id), i ≤ s.lastGauge) {gid : Nat}
    (h : (s.gauge? gid).isSome) : gid ≤ s.lastGauge := by
  cases hg : s.gauge? gid with
  | none => rw [hg] at h; cases h
  | some g =>
    have hm := List.mem_of_find?_eq_some hg
    have hid : g.id = gid := gauge?_id hg
    rw [← hid]
    exact hb g.id (List.mem_map.mpr ⟨g, hm, rfl⟩)

/-- the votes' weights stay within `bound` under every op (the op's own effect on `lastGauge` aside) -/
theorem step_votesAll {s : State} {op : Op} {n : Nat} (hb : ∀ i ∈ s.gauges.map (·.id), i ≤ s.lastGauge)
    (hn : s.lastGauge ≤ n) (h : VotesAll (fun ws => ∀ w ∈ ws, w.1 ≤ n) s) :
    VotesAll (fun ws => ∀ w ∈ ws, w.1 ≤ n) (step s op).1 := by
  cases op with
  | vote a ws =>
    simp only [step]; split
    · rename_i s1 hv
      refine vote_votesAll h ?_ hv
      intro w hw
      exact Nat.le_trans (gauge?_bound hb (vote_weights_exist hv w hw)) hn
    · exact h
  | revoke a =>
    simp only [step]; split
    · rename_i s1 hv
      unfold State.revoke at hv; split at hv
      · cases hv
      · cases hv; exact revokeVote_votesAll h
    · exact h
  | claim a g =>
    simp only [step]; split
    · rename_i s1 p hc; intro x hx; rw [(claim_core hc).1.votes] at hx; exact h x hx
    · exact h
  | staking a hs fin =>
    simp only [step]; split
    · rename_i s1 hst
      unfold State.staking at hst
      split at hst
      · cases hst
      · rename_i s2 h2; cases hst; exact fun x hx => hooks_votesAll h h2 x hx
    · exact h
  | slash fin => exact h
  | epochEnd d =>
    have e : (step s (.epochEnd d)).1.votes = s.votes := (epochEnd_core s d).1.votes
    intro x hx; rw [e] at hx; exact h x hx
  | fund g amt =>
    simp only [step]; split
    · rename_i s1 hf; intro x hx; rw [(fund_core hf).1.votes] at hx; exact h x hx
    · exact h
  | addGauge g =>
    simp only [step]; split
    · rename_i s1 hg; intro x hx; rw [(addGauge_core hg).1.votes] at hx; exact h x hx
    · exact h
  | addRollapp r =>
    simp only [step]; split
    · rename_i s1 hr; intro x hx; rw [(addRollapp_core hr).1.votes] at hx; exact h x hx
    · exact h
  | setParams ma mv =>
    simp only [step]; split
    · rename_i s1 hp; obtain ⟨rfl, _⟩ := setParams_ok hp; exact h
    · exact h

/-! ### a fresh gauge has no power in any vote -/

theorem wpow_absent {vp : Int} {ws : List GP} {g : Nat} (h : ∀ w ∈ ws, w.1 ≠ g) : wpow vp ws g = 0 := by
  induction ws with
  | nil => rfl
  | cons w ws ih =>
    have hw : w.1 ≠ g := h w (by simp)
    simp only [wpow, hw, if_false]
    rw [ih (fun x hx => h x (by simp [hx]))]; rfl

theorem vsum_pow_fresh {l : List (Nat × Vote)} {g : Nat} (h : ∀ x ∈ l, ∀ w ∈ x.2.weights, w.1 ≠ g) :
    vsum (fun v => v.pow g) l = 0 := by
  induction l with
  | nil => rfl
  | cons x xs ih =>
    simp only [vsum]
    rw [ih (fun y hy => h y (by simp [hy]))]
    show wpow x.2.vp x.2.weights g + 0 = 0
    rw [wpow_absent (h x (by simp))]; rfl

/-! ### the invariant is kept by every op -/

theorem find_none_of_bound {s : State} (hb : ∀ i ∈ s.gauges.map (·.id), i ≤ s.lastGauge) :
    s.gauges.find? (·.id == s.lastGauge + 1) = none := by
  cases hf : s.gauges.find? (·.id == s.lastGauge + 1) with
  | none => rfl
  | some g =>
    have hm := List.mem_of_find?_eq_some hf
    have hid : g.id = s.lastGauge + 1 := by have := List.find?_some hf; simpa using this
    have := hb g.id (List.mem_map.mpr ⟨g, hm, rfl⟩)
    omega

theorem step_world {s : State} {op : Op} (wf : WF s) (inv : DistInv s) (w : World s) : World (step s op).1 := by
  by_cases ha : isAdd op = true
  · cases op with
    | addGauge g =>
      simp only [step]; split
      · rename_i s1 h
        have hsh := addGauge_shares h
        obtain ⟨⟨inc, rfl⟩, hnr, _⟩ := addGauge_ok h
        refine ⟨?_, ?_, ?_, ?_⟩
        · intro i hi
          have hi' : i ∈ (s.gauges ++ [newGauge (s.lastGauge + 1) g]).map (·.id) := hi
          rw [List.map_append, List.mem_append] at hi'
          show i ≤ s.lastGauge + 1
          rcases hi' with hi' | hi'
          · exact Nat.le_succ_of_le (w.bound i hi')
          · simp only [List.map_cons, List.map_nil, List.mem_singleton] at hi'
            rw [hi']; exact Nat.le_refl _
        · intro gid r hra
          rw [hsh.ra] at hra
          exact w.ra_endo gid r hra
        · intro r e he
          have he' : s.endorsement? r = some e := he
          have := w.endo r e he'
          exact ⟨hsh.raGauge this.1, hsh.share this.2⟩
        · intro x hx wt hw
          exact Nat.le_succ_of_le (w.wbound x hx wt hw)
      · exact w
    | addRollapp r' =>
      simp only [step]; split
      · rename_i s1 h
        have hshare := fun r gid hg hs => addRollapp_share (r := r) (gid := gid) h hg hs
        obtain ⟨hnone, rfl⟩ := addRollapp_ok h
        have hfresh := find_none_of_bound w.bound
        have hnone' : s.endorsements.find? (·.r == r') = none := hnone
        refine ⟨?_, ?_, ?_, ?_⟩
        · intro i hi
          have hi' : i ∈ (s.gauges ++ [({ id := s.lastGauge + 1, kind := .rollapp r', perpetual := true } : Gauge)]).map (·.id) := hi
          rw [List.map_append, List.mem_append] at hi'
          show i ≤ s.lastGauge + 1
          rcases hi' with hi' | hi'
          · exact Nat.le_succ_of_le (w.bound i hi')
          · simp only [List.map_cons, List.map_nil, List.mem_singleton] at hi'
            rw [hi']; exact Nat.le_refl _
        · intro gid r hra
          have hra' : raOf (s.gauges ++ [({ id := s.lastGauge + 1, kind := .rollapp r', perpetual := true } : Gauge)]) gid = some r := hra
          show ((s.endorsements ++ [(⟨r', s.lastGauge + 1, 0, 0⟩ : Endorsement)]).find? (·.r == r)).isSome
          rw [find_append_endo]
          rw [raOf_append] at hra'
          cases hf : s.gauges.find? (·.id == gid) with
          | some x =>
            rw [hf] at hra'
            have := w.ra_endo gid r hra'
            unfold State.endorsement? at this
            cases he : s.endorsements.find? (·.r == r) with
            | none => rw [he] at this; cases this
            | some e => rfl
          | none =>
            rw [hf] at hra'
            simp only [kindRa] at hra'
            split at hra'
            · injection hra' with hra'
              subst hra'
              rw [hnone']; simp
            · cases hra'
        · intro r e he
          have he' : (s.endorsements ++ [(⟨r', s.lastGauge + 1, 0, 0⟩ : Endorsement)]).find? (·.r == r) = some e := he
          rw [find_append_endo] at he'
          cases hf : s.endorsements.find? (·.r == r) with
          | some e0 =>
            rw [hf] at he'
            cases he'
            have := w.endo r e hf
            have := hshare r e.gaugeId this.1 this.2
            exact ⟨this.2, this.1⟩
          | none =>
            rw [hf] at he'
            simp only at he'
            split at he'
            · rename_i hr
              cases he'
              subst hr
              -- the new rollapp: its gauge is the fresh id, nobody votes on it yet
              refine ⟨⟨fun g => ?_, ?_⟩, ?_⟩
              · show raOf (s.gauges ++ [({ id := s.lastGauge + 1, kind := .rollapp r', perpetual := true } : Gauge)]) g = some r' ↔ g = s.lastGauge + 1
                rw [raOf_append]
                constructor
                · intro h1
                  cases hg : s.gauges.find? (·.id == g) with
                  | some x =>
                    rw [hg] at h1
                    have := w.ra_endo g r' h1
                    unfold State.endorsement? at this
                    rw [hnone'] at this; cases this
                  | none =>
                    rw [hg] at h1
                    simp only at h1
                    split at h1
                    · rename_i hid; exact hid.symm
                    · cases h1
                · intro h1
                  subst h1
                  rw [hfresh]; simp [kindRa]
              · show ((s.endorsements ++ [(⟨r', s.lastGauge + 1, 0, 0⟩ : Endorsement)]).find? (·.r == r')).isSome
                rw [find_append_endo, hnone']; simp
              · show totalOf (s.endorsements ++ [(⟨r', s.lastGauge + 1, 0, 0⟩ : Endorsement)]) r' = vsum (fun v => v.pow (s.lastGauge + 1)) s.votes
                unfold totalOf
                rw [find_append_endo, hnone']
                simp only [if_true]
                rw [vsum_pow_fresh]
                intro x hx wt hw
                have := w.wbound x hx wt hw
                omega
            · cases he'
        · intro x hx wt hw
          exact Nat.le_succ_of_le (w.wbound x hx wt hw)
      · exact w
    | _ => cases ha
  · have ha' : isAdd op = false := by simpa using ha
    have hf := step_frame0 (s := s) ha'
    refine ⟨?_, ?_, ?_, ?_⟩
    · intro i hi
      rw [hf.ids] at hi
      rw [hf.last]
      exact w.bound i hi
    · intro gid r hra
      rw [raOf_of_gk0 hf.gk] at hra
      have := w.ra_endo gid r hra
      rw [endo_isSome_of_ek0 hf.ek]
      exact this
    · intro r e he
      have hk := hf.ek r
      rw [he] at hk
      cases he0 : s.endorsement? r with
      | none => rw [he0] at hk; cases hk
      | some e0 =>
        rw [he0] at hk
        simp only [Option.map, ekey0, Option.some.injEq, Prod.mk.injEq] at hk
        have := w.endo r e0 he0
        have := step_share (op := op) wf inv this.1 this.2
        rw [hk.2]
        exact ⟨this.2, this.1⟩
    · have := step_votesAll (op := op) (n := s.lastGauge) w.bound (Nat.le_refl _) w.wbound
      intro x hx wt hw
      rw [hf.last]
      exact this x hx wt hw

end DymVerif.Spons
