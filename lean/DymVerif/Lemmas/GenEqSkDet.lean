/-
  Lemmas/GenEqSkDet — tie 1 for C12 (Model/Determinism.lean): the normalised statement listing (translate/skel.go `listing`:
  every `if` / `for` / `switch` header, call, assignment and `return` in source order; comments, logging,
  events and error-message texts dropped) of EVERY function with a body in the files the property is
  anchored in, regenerated from /repo's working tree on every run (Gen/SkDet.lean), equals the listing
  the model was written and validated against.  A dropped or weakened guard, a reordered effect, a
  changed operand, a new early return, a new or vanished function breaks the corresponding lemma; the
  check then searches for a failing input with the harness' monitors (DESIGN.md §12.2).
-/
import DymVerif.Gen.SkDet
namespace DymVerif.GenEqSk.Det

/-- `?.Get` -/
theorem cache_?_Get_listing : Gen.SkDet.cache_?_Get =
  ["func (c *InsertionOrdered[K, V]) Get(key K) (zero V, found bool)",
   "  idx, ok := c.keyToIdx[key]",
   "  if ok",
   "    return c.idxToValue[idx], true",
   "  return zero, false"] := rfl

/-- `?.GetAll` -/
theorem cache_?_GetAll_listing : Gen.SkDet.cache_?_GetAll =
  ["func (c *InsertionOrdered[K, V]) GetAll() []V",
   "  return c.idxToValue"] := rfl

/-- `?.MustGet` -/
theorem cache_?_MustGet_listing : Gen.SkDet.cache_?_MustGet =
  ["func (c *InsertionOrdered[K, V]) MustGet(key K) V",
   "  value, ok := c.Get(key)",
   "  if ok",
   "    return value",
   "  panic()"] := rfl

/-- `?.Range` -/
theorem cache_?_Range_listing : Gen.SkDet.cache_?_Range =
  ["func (c *InsertionOrdered[K, V]) Range(f func(V) bool)",
   "  for _, value := range c.idxToValue",
   "    stop := f(value)",
   "    if stop",
   "      return"] := rfl

/-- `?.Upsert` -/
theorem cache_?_Upsert_listing : Gen.SkDet.cache_?_Upsert =
  ["func (c *InsertionOrdered[K, V]) Upsert(values ...V)",
   "  for _, value := range values",
   "    c.upsert(value)"] := rfl

/-- `?.upsert` -/
theorem cache_?_upsert_listing : Gen.SkDet.cache_?_upsert =
  ["func (c *InsertionOrdered[K, V]) upsert(value V)",
   "  key := c.key(value)",
   "  idx, ok := c.keyToIdx[key]",
   "  if ok",
   "    c.idxToValue[idx] = value",
   "  else",
   "    idx = c.nextIdx",
   "    c.nextIdx++",
   "    c.keyToIdx[key] = idx",
   "    c.idxToValue = append(c.idxToValue, value)"] := rfl

/-- `NewInsertionOrdered` -/
theorem cache_NewInsertionOrdered_listing : Gen.SkDet.cache_NewInsertionOrdered =
  ["func NewInsertionOrdered[K comparable, V any](key func(V) K, initial ...V) *InsertionOrdered[K, V]",
   "  cache := &InsertionOrdered[K, V]{key: key, nextIdx: 0, keyToIdx: make(map[K]int, len(initial)), idxToValue: make([]V, 0, len(initial))}",
   "  cache.Upsert(initial...)",
   "  return cache"] := rfl

/-- `Keeper.CreateLP` -/
theorem lps_Keeper_CreateLP_listing : Gen.SkDet.lps_Keeper_CreateLP =
  ["func (k Keeper) CreateLP(ctx sdk.Context, lp *types.OnDemandLP) (uint64, error)",
   "  return k.LPs.Create(ctx, lp)"] := rfl

/-- `Keeper.DeleteLP` -/
theorem lps_Keeper_DeleteLP_listing : Gen.SkDet.lps_Keeper_DeleteLP =
  ["func (k Keeper) DeleteLP(ctx sdk.Context, owner sdk.AccAddress, id uint64, reason string) error",
   "  lp, err := k.LPs.Get(ctx, id)",
   "  if errors.Is(err, collections.ErrNotFound)",
   "    return nil",
   "  if err != nil",
   "    return err",
   "  if !lp.Lp.MustAddr().Equals(owner)",
   "    return gerrc.ErrPermissionDenied",
   "  return k.LPs.Del(ctx, id, reason)"] := rfl

/-- `Keeper.FulfillByOnDemandLP` -/
theorem lps_Keeper_FulfillByOnDemandLP_listing : Gen.SkDet.lps_Keeper_FulfillByOnDemandLP =
  ["func (k Keeper) FulfillByOnDemandLP(ctx sdk.Context, order string, rng int64) error",
   "  o, err := k.GetOutstandingOrder(ctx, order)",
   "  if err != nil",
   "    return err",
   "  lps, err := k.LPs.GetOrderCompatibleLPs(ctx, *o)",
   "  if err != nil",
   "    return err",
   "  r := rand.New(rand.NewSource(rng))",
   "  r.Shuffle(len(lps), func#1)",
   "    func#1 (i, j int)",
   "      lps[i], lps[j] = lps[j], lps[i]",
   "  for _, lp := range lps",
   "    err := k.Fulfill(ctx, o, lp.Lp.MustAddr())",
   "    if err != nil",
   "      if errorsmod.IsOf(err, sdkerrors.ErrInsufficientFunds)",
   "        err := k.LPs.Del(ctx, lp.Id, \"out of funds\")",
   "        if err != nil",
   "          return err",
   "        continue",
   "      return err",
   "    lp.Spent = lp.Spent.Add(o.PriceAmount())",
   "    err = k.LPs.Set(ctx, lp)",
   "    if err != nil",
   "      return err",
   "    return nil",
   "  return gerrc.ErrNotFound"] := rfl

/-- `LPs.Create` -/
theorem lps_LPs_Create_listing : Gen.SkDet.lps_LPs_Create =
  ["func (s LPs) Create(ctx sdk.Context, lp *types.OnDemandLP) (uint64, error)",
   "  id, err := s.nextID.Next(ctx)",
   "  if err != nil",
   "    return 0, err",
   "  err := s.Set(ctx, types.OnDemandLPRecord{Id: id, Lp: lp, Spent: math.ZeroInt()})",
   "  if err != nil",
   "    return 0, err",
   "  return id, nil"] := rfl

/-- `LPs.Del` -/
theorem lps_LPs_Del_listing : Gen.SkDet.lps_LPs_Del =
  ["func (s LPs) Del(ctx sdk.Context, id uint64, reason string) error",
   "  lp, err := s.byID.Get(ctx, id)",
   "  if err != nil",
   "    return err",
   "  err = s.byID.Remove(ctx, id)",
   "  if err != nil",
   "    return err",
   "  err = s.byRollAppDenom.Remove(ctx, collections.Join3(lp.Lp.Rollapp, lp.Lp.Denom, id))",
   "  if err != nil",
   "    return err",
   "  err = s.byAddr.Remove(ctx, collections.Join(lp.Lp.FundsAddr, lp.Id))",
   "  if err != nil",
   "    return err",
   "  return nil"] := rfl

/-- `LPs.Get` -/
theorem lps_LPs_Get_listing : Gen.SkDet.lps_LPs_Get =
  ["func (s LPs) Get(ctx sdk.Context, id uint64) (*types.OnDemandLPRecord, error)",
   "  ret, err := s.byID.Get(ctx, id)",
   "  return &ret, err"] := rfl

/-- `LPs.GetAll` -/
theorem lps_LPs_GetAll_listing : Gen.SkDet.lps_LPs_GetAll =
  ["func (s LPs) GetAll(ctx sdk.Context) ([]*types.OnDemandLPRecord, error)",
   "  it, err := s.byID.Iterate(ctx, nil)",
   "  if err != nil",
   "    return nil, err",
   "  var ret []*types.OnDemandLPRecord",
   "  for ; it.Valid(); it.Next()",
   "    v, err := it.Value()",
   "    if err != nil",
   "      return nil, err",
   "    ret = append(ret, &v)",
   "  return ret, nil"] := rfl

/-- `LPs.GetByAddr` -/
theorem lps_LPs_GetByAddr_listing : Gen.SkDet.lps_LPs_GetByAddr =
  ["func (s LPs) GetByAddr(ctx sdk.Context, addr sdk.AccAddress) ([]*types.OnDemandLPRecord, error)",
   "  var ret []*types.OnDemandLPRecord",
   "  rng := collections.NewPrefixedPairRange[string, uint64](addr.String())",
   "  iter, err := s.byAddr.Iterate(ctx, rng)",
   "  if err != nil",
   "    return nil, err",
   "  for ; iter.Valid(); iter.Next()",
   "    key, err := iter.Key()",
   "    if err != nil",
   "      return nil, err",
   "    id := key.K2()",
   "    lp, err := s.byID.Get(ctx, id)",
   "    if err != nil",
   "      return nil, err",
   "    ret = append(ret, &lp)",
   "  return ret, err"] := rfl

/-- `LPs.GetOrderCompatibleLPs` -/
theorem lps_LPs_GetOrderCompatibleLPs_listing : Gen.SkDet.lps_LPs_GetOrderCompatibleLPs =
  ["func (s LPs) GetOrderCompatibleLPs(ctx sdk.Context, o types.DemandOrder) ([]types.OnDemandLPRecord, error)",
   "  rol := o.RollappId",
   "  denom := o.Denom()",
   "  ranger := collections.NewSuperPrefixedTripleRange[string, string, uint64](rol, denom)",
   "  iter, err := s.byRollAppDenom.Iterate(ctx, ranger)",
   "  if err != nil",
   "    return nil, err",
   "  defer iter.Close()",
   "  var compat []types.OnDemandLPRecord",
   "  for ; iter.Valid(); iter.Next()",
   "    key, err := iter.Key()",
   "    if err != nil",
   "      return nil, err",
   "    id := key.K3()",
   "    lpr, err := s.byID.Get(ctx, id)",
   "    if err != nil",
   "      return nil, err",
   "    if lpr.Accepts(uint64(ctx.BlockHeight()), o)",
   "      compat = append(compat, lpr)",
   "  return compat, nil"] := rfl

/-- `LPs.Set` -/
theorem lps_LPs_Set_listing : Gen.SkDet.lps_LPs_Set =
  ["func (s LPs) Set(ctx sdk.Context, lp types.OnDemandLPRecord) error",
   "  err := s.byID.Set(ctx, lp.Id, lp)",
   "  if err != nil",
   "    return err",
   "  err = s.byAddr.Set(ctx, collections.Join(lp.Lp.FundsAddr, lp.Id))",
   "  if err != nil",
   "    return err",
   "  err = s.byRollAppDenom.Set(ctx, collections.Join3(lp.Lp.Rollapp, lp.Lp.Denom, lp.Id))",
   "  if err != nil",
   "    return err",
   "  return nil"] := rfl

/-- `makeLPsStore` -/
theorem lps_makeLPsStore_listing : Gen.SkDet.lps_makeLPsStore =
  ["func makeLPsStore(sb *collections.SchemaBuilder, cdc codec.BinaryCodec) LPs",
   "  return LPs{byRollAppDenom: collections.NewKeySet[collections.Triple[string, string, uint64]](sb, LPsByRollAppDenomPrefix, \"byRollAppDenom\", collections.TripleKeyCodec[string, string, uint64](collections.StringKey, collections.StringKey, collections.Uint64Key)), byID: collections.NewMap[uint64, types.OnDemandLPRecord](sb, LPsByIDPrefix, \"byID\", collections.Uint64Key, codec.CollValue[types.OnDemandLPRecord](cdc)), byAddr: collections.NewKeySet[collections.Pair[string, uint64]](sb, LPsByAddrPrefix, \"byAddr\", collections.PairKeyCodec[string, uint64](collections.StringKey, collections.Uint64Key)), nextID: collections.NewSequence(sb, LPsNextIDPrefix, \"nextID\")}"] := rfl

/-- `msgServer.TryFulfillOnDemand` -/
theorem ms_msgServer_TryFulfillOnDemand_listing : Gen.SkDet.ms_msgServer_TryFulfillOnDemand =
  ["func (m msgServer) TryFulfillOnDemand(goCtx context.Context, msg *types.MsgTryFulfillOnDemand) (*types.MsgTryFulfillOnDemandResponse, error)",
   "  err := msg.ValidateBasic()",
   "  if err != nil",
   "    return nil, err",
   "  return &types.MsgTryFulfillOnDemandResponse{}, m.Keeper.FulfillByOnDemandLP(ctx, msg.OrderId, msg.Rng)"] := rfl

/-- `Keeper.UpdateDistrRecords` -/
theorem str_Keeper_UpdateDistrRecords_listing : Gen.SkDet.str_Keeper_UpdateDistrRecords =
  ["func (k Keeper) UpdateDistrRecords(ctx sdk.Context, streamId uint64, records []types.DistrRecord) error",
   "  recordsMap := make(map[uint64]types.DistrRecord)",
   "  stream, err := k.GetStreamByID(ctx, streamId)",
   "  if err != nil",
   "    return err",
   "  err = k.validateGauges(ctx, records)",
   "  if err != nil",
   "    return err",
   "  for _, existingRecord := range stream.DistributeTo.Records",
   "    recordsMap[existingRecord.GaugeId] = existingRecord",
   "  for _, record := range records",
   "    recordsMap[record.GaugeId] = record",
   "  newRecords := []types.DistrRecord{}",
   "  for _, val := range recordsMap",
   "    if !val.Weight.Equal(math.ZeroInt())",
   "      newRecords = append(newRecords, val)",
   "  sort.SliceStable(newRecords, func#1)",
   "    func#1 (i, j int) bool",
   "      return newRecords[i].GaugeId < newRecords[j].GaugeId",
   "  distrInfo, err := k.NewDistrInfo(ctx, newRecords)",
   "  if err != nil",
   "    return err",
   "  stream.DistributeTo = distrInfo",
   "  err = k.SetStream(ctx, stream)",
   "  if err != nil",
   "    return err",
   "  return nil"] := rfl

/-- `mapKeysToSlice` -/
theorem hf_mapKeysToSlice_listing : Gen.SkDet.hf_mapKeysToSlice =
  ["func mapKeysToSlice(m map[string]struct{}) []string",
   "  keys := make([]string, 0, len(m))",
   "  for k := range m",
   "    keys = append(keys, k)",
   "  sort.Strings(keys)",
   "  return keys"] := rfl

/-- `Keeper.InitializeAllLocks` -/
theorem lk_Keeper_InitializeAllLocks_listing : Gen.SkDet.lk_Keeper_InitializeAllLocks =
  ["func (k Keeper) InitializeAllLocks(ctx sdk.Context, locks []types.PeriodLock) error",
   "  accumulationStoreEntries := make(map[string]map[time.Duration]math.Int)",
   "  denoms := []string{}",
   "  for i, lock := range locks",
   "    if i%25000 == 0",
   "      msg := fmt.Sprintf(\"Reset %d lock refs, cur lock ID %d\", i, lock.ID)",
   "    err := k.setLockAndAddLockRefs(ctx, lock)",
   "    if err != nil",
   "      return err",
   "    for _, coin := range lock.Coins",
   "      var curDurationMap map[time.Duration]math.Int",
   "      durationMap, ok := accumulationStoreEntries[coin.Denom]",
   "      if ok",
   "        curDurationMap = durationMap",
   "        newAmt := coin.Amount",
   "        curAmt, ok := durationMap[lock.Duration]",
   "        if ok",
   "          newAmt = newAmt.Add(curAmt)",
   "        curDurationMap[lock.Duration] = newAmt",
   "      else",
   "        denoms = append(denoms, coin.Denom)",
   "        curDurationMap = map[time.Duration]math.Int{lock.Duration: coin.Amount}",
   "      accumulationStoreEntries[coin.Denom] = curDurationMap",
   "  sort.Strings(denoms)",
   "  for _, denom := range denoms",
   "    curDurationMap := accumulationStoreEntries[denom]",
   "    durations := make([]time.Duration, 0, len(curDurationMap))",
   "    for duration := range curDurationMap",
   "      durations = append(durations, duration)",
   "    sort.Slice(durations, func#1)",
   "      func#1 (i, j int) bool",
   "        return durations[i] < durations[j]",
   "    msg := fmt.Sprintf(\"Setting accumulation entries for locks for %s, there are %d distinct durations\", denom, len(durations))",
   "    for _, d := range durations",
   "      amt := curDurationMap[d]",
   "      k.accumulationStore(ctx, denom).Increase(accumulationKey(d), amt)",
   "  return nil"] := rfl

/-- `GetSortedStringKeys` -/
theorem dmap_GetSortedStringKeys_listing : Gen.SkDet.dmap_GetSortedStringKeys =
  ["func GetSortedStringKeys[V any](m map[string]V) []string",
   "  keys := make([]string, 0, len(m))",
   "  for k := range m",
   "    keys = append(keys, k)",
   "  sort.Slice(keys, func#1)",
   "    func#1 (i, j int) bool",
   "      return keys[i] < keys[j]",
   "  return keys"] := rfl

/-- `ReverseResolvedDymNameAddress.String` -/
theorem rra_ReverseResolvedDymNameAddress_String_listing : Gen.SkDet.rra_ReverseResolvedDymNameAddress_String =
  ["func (m ReverseResolvedDymNameAddress) String() string",
   "  var sb strings.Builder",
   "  if m.SubName != \"\"",
   "    sb.WriteString(m.SubName)",
   "    sb.WriteString(\".\")",
   "  sb.WriteString(m.Name)",
   "  sb.WriteString(\"@\")",
   "  sb.WriteString(m.ChainIdOrAlias)",
   "  return sb.String()"] := rfl

/-- `ReverseResolvedDymNameAddresses.Distinct` -/
theorem rra_ReverseResolvedDymNameAddresses_Distinct_listing : Gen.SkDet.rra_ReverseResolvedDymNameAddresses_Distinct =
  ["func (m ReverseResolvedDymNameAddresses) Distinct() (distinct ReverseResolvedDymNameAddresses)",
   "  if len(m) < 1",
   "    return m",
   "  unique := make(map[string]ReverseResolvedDymNameAddress)",
   "  defer func#1()",
   "    func#1 ()",
   "      distinct.Sort()",
   "  for _, addr := range m",
   "    unique[addr.String()] = addr",
   "  for _, addr := range unique",
   "    distinct = append(distinct, addr)",
   "  return"] := rfl

/-- `ReverseResolvedDymNameAddresses.Sort` -/
theorem rra_ReverseResolvedDymNameAddresses_Sort_listing : Gen.SkDet.rra_ReverseResolvedDymNameAddresses_Sort =
  ["func (m ReverseResolvedDymNameAddresses) Sort()",
   "  if len(m) > 0",
   "    sort.Slice(m, func#1)",
   "      func#1 (i, j int) bool",
   "        addr1 := m[i].String()",
   "        addr2 := m[j].String()",
   "        if len(addr1) < len(addr2)",
   "          return true",
   "        if len(addr1) > len(addr2)",
   "          return false",
   "        return strings.Compare(addr1, addr2) < 0"] := rfl

/-- `ModuleAccountAddrs` -/
theorem mod_ModuleAccountAddrs_listing : Gen.SkDet.mod_ModuleAccountAddrs =
  ["func ModuleAccountAddrs() map[string]bool",
   "  modAccAddrs := make(map[string]bool)",
   "  for acc := range maccPerms",
   "    modAccAddrs[authtypes.NewModuleAddress(acc).String()] = true",
   "  modAccAddrs[authtypes.NewModuleAddress(streamermoduletypes.ModuleName).String()] = false",
   "  modAccAddrs[authtypes.NewModuleAddress(txfeestypes.ModuleName).String()] = false",
   "  modAccAddrs[authtypes.NewModuleAddress(irotypes.ModuleName).String()] = false",
   "  return modAccAddrs"] := rfl

/-- `every function with a body in the listed files, sorted per package` -/
theorem inventory_listing : Gen.SkDet.inventory =
  ["cache_?_Get",
   "cache_?_GetAll",
   "cache_?_MustGet",
   "cache_?_Range",
   "cache_?_Upsert",
   "cache_?_upsert",
   "cache_NewInsertionOrdered",
   "lps_Keeper_CreateLP",
   "lps_Keeper_DeleteLP",
   "lps_Keeper_FulfillByOnDemandLP",
   "lps_LPs_Create",
   "lps_LPs_Del",
   "lps_LPs_Get",
   "lps_LPs_GetAll",
   "lps_LPs_GetByAddr",
   "lps_LPs_GetOrderCompatibleLPs",
   "lps_LPs_Set",
   "lps_makeLPsStore",
   "ms_msgServer_TryFulfillOnDemand",
   "str_Keeper_UpdateDistrRecords",
   "hf_mapKeysToSlice",
   "lk_Keeper_InitializeAllLocks",
   "dmap_GetSortedStringKeys",
   "rra_ReverseResolvedDymNameAddress_String",
   "rra_ReverseResolvedDymNameAddresses_Distinct",
   "rra_ReverseResolvedDymNameAddresses_Sort",
   "mod_ModuleAccountAddrs"] := rfl

end DymVerif.GenEqSk.Det
