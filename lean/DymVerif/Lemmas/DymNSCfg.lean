/-
  Lemmas/DymNSCfg — the (chain, path) identities of the address records of every name stay pairwise
  distinct (what `DymName.Validate` checks on every write).
-/
import DymVerif.Lemmas.DymNSResolve
namespace DymVerif.DymNS
open AMap

section
variable {s s' : State}

/-- the name an operation can rewrite (none for operations that never touch the name store) -/
def opTarget (s : State) : Op → Option Name
  | .register _ n .. | .transfer _ n _ | .setController _ n _ | .updateResolve _ n .. | .updateDetails _ n ..
  | .completeName _ n | .buyName _ n _ => some n
  | .acceptOffer _ pfx id _ => (getBO s pfx id).map (·.asset)
  | _ => none

/-- all other names keep their records -/
theorem exec_getName_other {op : Op} (h : exec s op = .ok s') (n : Name) (hn : opTarget s op ≠ some n)
    (hm : ∀ m, op ≠ .migrateChainIds m) : getName s' n = getName s n := by
  cases op
  case migrateChainIds m => exact absurd rfl (hm m)
  case register a m dur pay c =>
    have hnm : n ≠ m := fun e => hn (by simp [opTarget, e])
    simp only [exec] at h
    unfold registerName at h
    mcases' h
    all_goals
      rename (payAndBurn s a _ = Except.ok _) => h1
      obtain ⟨rfl, _⟩ := payAndBurn_ok h1
    · rename (pruneName _ m = Except.ok _) => hp
      obtain ⟨rfl, _⟩ := pruneName_ok hp
      rw [setNameAfterBoth_ok] at h
      injection h with h; subst h
      simp [getName, NameStore.get_setAfterBothT, pruneNameT_get, hnm, payAndBurnT]
    · injection h with h; subst h
      simp [getName, setName, payAndBurnT, NameStore.get_set, hnm]
  case transfer a m b =>
    have hnm : n ≠ m := fun e => hn (by simp [opTarget, e])
    simp only [exec] at h
    unfold transferName at h
    mcases' h
    obtain ⟨rfl, _⟩ := transferOwnership_ok h
    simp [getName, transferOwnershipT_get, hnm]
  case setController a m c =>
    have hnm : n ≠ m := fun e => hn (by simp [opTarget, e])
    simp only [exec] at h
    unfold setController at h
    mcases' h
    injection h with h; subst h
    simp [getName, setName, NameStore.get_set, hnm]
  case updateResolve a m ch e p v =>
    have hnm : n ≠ m := fun e => hn (by simp [opTarget, e])
    simp only [exec] at h
    unfold updateResolveAddress at h
    mcases' h
    all_goals
      rw [setNameConfigChanged_ok] at h
      injection h with h; subst h
      simp [getName, NameStore.get_setConfigChangedT, hnm]
  case updateDetails a m c cl =>
    have hnm : n ≠ m := fun e => hn (by simp [opTarget, e])
    simp only [exec] at h
    unfold updateDetails at h
    mcases' h
    all_goals
      first
      | (rw [setNameConfigChanged_ok] at h
         injection h with h; subst h
         simp [getName, NameStore.get_setConfigChangedT, hnm])
      | (injection h with h; subst h
         simp [getName, setName, NameStore.get_set, hnm])
  case completeName a m =>
    have hnm : n ≠ m := fun e => hn (by simp [opTarget, e])
    simp only [exec] at h
    unfold completeNameSOMsg at h
    mcases' h
    · rename (refundBid s _ = Except.ok _) => hr
      obtain ⟨rfl, _⟩ := fromModule_ok hr
      injection h with h; subst h; rfl
    · obtain ⟨d0, so, b, _, _, _, _, _, rfl⟩ := completeNameSO_ok h
      simp [getName, completeNameSOT_get, hnm]
  case buyName a m offer =>
    have hnm : n ≠ m := fun e => hn (by simp [opTarget, e])
    simp only [exec] at h
    unfold purchaseName at h
    mcases' h
    all_goals
      rename (takeBid s _ a offer = Except.ok _) => ht
      obtain ⟨rfl, _, _⟩ := takeBid_ok ht
    · obtain ⟨d0, so', b, _, _, _, _, _, rfl⟩ := completeNameSO_ok h
      simp [getName, completeNameSOT_get, hnm]
    · injection h with h; subst h
      simp [getName]
  case acceptOffer a pfx id mn =>
    simp only [exec] at h
    unfold acceptBO at h
    mcases' h
    all_goals rename (getBO s pfx id = some _) => hg
    · rename (BuyOrder) => bo
      unfold acceptAliasBO at h
      mcases' h
      · rename (fromModule s _ _ = Except.ok _) => hf
        obtain ⟨rfl, _⟩ := fromModule_ok hf
        have := moveAlias_ns h
        rw [getName, this]; rfl
      · injection h with h; subst h; rfl
    · rename (BuyOrder) => bo
      have hnm : n ≠ bo.asset := fun e => hn (by simp [opTarget, hg, e])
      unfold acceptNameBO at h
      mcases' h
      · rename (fromModule s _ _ = Except.ok _) => hf
        obtain ⟨rfl, _⟩ := fromModule_ok hf
        obtain ⟨rfl, _⟩ := transferOwnership_ok h
        simp only [getName, transferOwnershipT_get, hnm, if_false]
        rfl
      · injection h with h; subst h; rfl
  all_goals
    have := exec_ns_frame h trivial
    rw [getName, this]; rfl

/-- a record that appears for a name without one is a fresh registration: no address records -/
theorem name_created {op : Op} (h : exec s op = .ok s') {n : Name} {d' : DymName}
    (hn : getName s n = none) (hd' : getName s' n = some d') : d'.configs = [] := by
  by_cases hmig : ∃ m, op = .migrateChainIds m
  · obtain ⟨m, rfl⟩ := hmig
    obtain ⟨rfl, _, _⟩ := migrateChainIds_ok h
    rw [getName_migrateT, hn] at hd'; cases hd'
  by_cases ht : opTarget s op = some n
  · cases op <;> simp only [opTarget, Option.some.injEq, reduceCtorEq] at ht
    case register a m dur pay c =>
      subst ht
      simp only [exec] at h
      unfold registerName at h
      mcases' h
      all_goals
        rename (payAndBurn s a _ = Except.ok _) => h1
        obtain ⟨rfl, _⟩ := payAndBurn_ok h1
      · rename (pruneName _ m = Except.ok _) => hp
        obtain ⟨rfl, _⟩ := pruneName_ok hp
        rw [setNameAfterBoth_ok] at h
        injection h with h; subst h
        simp only [getName, NameStore.get_setAfterBothT, if_true, Option.some.injEq] at hd'
        subst hd'
        simp [regPlan, hn]
      · rename (¬ (regPlan s a m dur c).prune = true) => hk
        obtain ⟨d0, hd0, _⟩ := regPlan_keep (by simpa using hk)
        rw [hn] at hd0; cases hd0
    case transfer a m b =>
      subst ht; simp only [exec] at h; unfold transferName at h; mcases' h
      rename (getName s m = some _) => hd; rw [hn] at hd; cases hd
    case setController a m c =>
      subst ht; simp only [exec] at h; unfold setController at h; mcases' h
      rename (getName s m = some _) => hd; rw [hn] at hd; cases hd
    case updateResolve a m ch e p v =>
      subst ht; simp only [exec] at h; unfold updateResolveAddress at h; mcases' h
      all_goals (rename (getName s m = some _) => hd; rw [hn] at hd; cases hd)
    case updateDetails a m c cl =>
      subst ht; simp only [exec] at h; unfold updateDetails at h; mcases' h
      all_goals (rename (getName s m = some _) => hd; rw [hn] at hd; cases hd)
    case completeName a m =>
      subst ht; simp only [exec] at h; unfold completeNameSOMsg at h; mcases' h
      all_goals (rename (getName s m = some _) => hd; rw [hn] at hd; cases hd)
    case buyName a m offer =>
      subst ht; simp only [exec] at h; unfold purchaseName at h; mcases' h
      all_goals (rename (getName s m = some _) => hd; rw [hn] at hd; cases hd)
    case acceptOffer a pfx id mn =>
      simp only [exec] at h
      unfold acceptBO at h
      mcases' h
      all_goals
        rename (getBO s pfx id = some _) => hg
        simp only [hg, Option.map_some, Option.some.injEq] at ht
      · rename (BuyOrder) => bo
        unfold acceptAliasBO at h
        mcases' h
        · rename (fromModule s _ _ = Except.ok _) => hf
          obtain ⟨rfl, _⟩ := fromModule_ok hf
          have := moveAlias_ns h
          rw [getName, this] at hd'
          have : getName s n = some d' := hd'
          rw [hn] at this; cases this
        · injection h with h; subst h
          have : getName s n = some d' := hd'
          rw [hn] at this; cases this
      · rename (BuyOrder) => bo
        unfold acceptNameBO at h
        mcases' h
        all_goals
          rename (getNameLive s bo.asset = some _) => hl
          have := (getNameLive_some hl).1
          rw [ht, hn] at this; cases this
  · rw [exec_getName_other h n ht (fun m e => hmig ⟨m, e⟩), hn] at hd'; cases hd'

end

/-! ### upsert / remove keep the identities distinct -/

theorem sameId_iff (x : Config) (ch : Chain) (p : Path) : sameId x ch p = true ↔ cid x = (ch, p) := by
  simp [sameId, cid]

theorem mem_upsertConfig {l : List Config} {c x : Config} (h : x ∈ upsertConfig l c) : x = c ∨ x ∈ l := by
  induction l with
  | nil => simp [upsertConfig] at h; exact Or.inl h
  | cons y ys ih =>
    unfold upsertConfig at h
    split at h
    · rcases List.mem_cons.mp h with h | h
      · exact Or.inl h
      · exact Or.inr (List.mem_cons_of_mem _ h)
    · rcases List.mem_cons.mp h with h | h
      · exact Or.inr (by simp [h])
      · rcases ih h with h | h
        · exact Or.inl h
        · exact Or.inr (List.mem_cons_of_mem _ h)

theorem nodup_upsertConfig {l : List Config} (c : Config) (h : (l.map cid).Nodup) :
    ((upsertConfig l c).map cid).Nodup := by
  induction l with
  | nil => simp [upsertConfig]
  | cons y ys ih =>
    simp only [List.map_cons, List.nodup_cons] at h
    unfold upsertConfig
    split
    · rename_i hs
      have : cid y = cid c := by rw [sameId_iff] at hs; exact hs
      simp only [List.map_cons, List.nodup_cons]
      exact ⟨by rw [← this]; exact h.1, h.2⟩
    · rename_i hs
      have hne : cid y ≠ cid c := fun e => hs (by rw [sameId_iff]; exact e)
      simp only [List.map_cons, List.nodup_cons]
      refine ⟨fun hm => ?_, ih h.2⟩
      obtain ⟨x, hx, hxe⟩ := List.mem_map.mp hm
      rcases mem_upsertConfig hx with rfl | hx
      · exact hne hxe.symm
      · exact h.1 (List.mem_map.mpr ⟨x, hx, hxe⟩)

theorem removeConfig_sublist (l : List Config) (ch : Chain) (p : Path) : (removeConfig l ch p).Sublist l := by
  induction l with
  | nil => simp [removeConfig]
  | cons y ys ih =>
    unfold removeConfig
    split
    · exact List.sublist_cons_self _ _
    · exact ih.cons_cons _

theorem nodup_removeConfig {l : List Config} (ch : Chain) (p : Path) (h : (l.map cid).Nodup) :
    ((removeConfig l ch p).map cid).Nodup :=
  h.sublist ((removeConfig_sublist l ch p).map cid)

/-- a record list is well formed: pairwise distinct (chain, path) identities, and host-chain records
    carry the host bech32 prefix (checked by `UpdateResolveAddress` before every write) -/
def CfgWF (l : List Config) : Prop := (l.map cid).Nodup ∧ ∀ c ∈ l, c.chain = 0 → c.value.hrp = 0

theorem cfgWF_nil : CfgWF [] := ⟨by simp, by simp⟩

/-- all records of all names are well formed -/
def CfgOK (s : State) : Prop := ∀ n d, getName s n = some d → CfgWF d.configs

theorem eq_of_nodup_map {α β : Type} (f : α → β) {l : List α} (h : (l.map f).Nodup) {x y : α} (hx : x ∈ l) (hy : y ∈ l)
    (e : f x = f y) : x = y := by
  induction l with
  | nil => cases hx
  | cons z zs ih =>
    simp only [List.map_cons, List.nodup_cons] at h
    rcases List.mem_cons.mp hx with hxz | hx'
    · rcases List.mem_cons.mp hy with hyz | hy'
      · rw [hxz, hyz]
      · subst hxz
        exact absurd (List.mem_map.mpr ⟨y, hy', e.symm⟩) h.1
    · rcases List.mem_cons.mp hy with hyz | hy'
      · subst hyz
        exact absurd (List.mem_map.mpr ⟨x, hx', e⟩) h.1
      · exact ih h.2 hx' hy'

theorem cfgUniq_of_nodup {d : DymName} (h : (d.configs.map cid).Nodup) : CfgUniq d := by
  intro c hc c' hc' e1 e2
  exact eq_of_nodup_map cid h hc hc' (by simp [cid, e1, e2])

theorem exec_cfgOK {s s' : State} {op : Op} (hI : Inv s) (hC : CfgOK s) (h : exec s op = .ok s') : CfgOK s' := by
  intro n d' hd'
  cases hn : getName s n with
  | none => rw [name_created h hn hd']; exact cfgWF_nil
  | some d =>
    have hd0 := hC n d hn
    obtain ⟨d'', hd'', hc⟩ := name_change hI h hn
    rw [hd'] at hd''; injection hd'' with hd''; subst hd''
    rcases hc with rfl | hc
    · exact hd0
    · cases hc with
      | extend dur pay c he => exact hd0
      | renew dur pay c he => exact cfgWF_nil
      | takeOver a dur pay c hna he hg => exact cfgWF_nil
      | transfer b he hso hb => exact cfgWF_nil
      | setController c he => exact hd0
      | updateResolve ch e p v cfgs he hcf =>
        rcases hcf with ⟨x, rfl, hx⟩ | rfl
        · refine ⟨nodup_upsertConfig _ hd0.1, fun c hc h0 => ?_⟩
          rcases mem_upsertConfig hc with rfl | hc
          · exact hx h0
          · exact hd0.2 c hc h0
        · exact ⟨nodup_removeConfig _ _ hd0.1, fun c hc h0 => hd0.2 c ((removeConfig_sublist _ _ _).subset hc) h0⟩
      | updateDetails c cl cfgs contact he hcf =>
        rcases hcf with rfl | rfl
        · exact cfgWF_nil
        · exact hd0
      | purchase a offer so hso hsel hse he hna => exact cfgWF_nil
      | complete a so b hso hsel hb he ha => exact cfgWF_nil
      | accept pfx id m bo hg hna hn he hso hb => exact cfgWF_nil
      | migrate m he hnd =>
        refine ⟨hnd, fun c hc h0 => ?_⟩
        obtain ⟨c0, hc0, rfl⟩ := List.mem_map.mp hc
        have hz := (migConfig_chain_zero m c0).mp h0
        rw [migConfig_of_zero m hz]
        exact hd0.2 c0 hc0 hz

theorem run_inv_cfgOK {s : State} (ops : List Op) (hI : Inv s) (hC : CfgOK s) :
    Inv (run s ops) ∧ CfgOK (run s ops) := by
  induction ops generalizing s with
  | nil => exact ⟨hI, hC⟩
  | cons op ops ih =>
    have hI' := step_inv op hI
    have hC' : CfgOK (step s op) := by
      unfold step
      cases h : exec s op with
      | ok s' => exact exec_cfgOK hI hC h
      | error e => exact hC
    exact ih hI' hC'


/-- **the host-chain fallback stage is sound**: a fallback candidate on the host chain, queried with a
    host-format address, resolves back to it -/
theorem revByFallback_host_sound {s : State} {addr : Addr} {p : Path} {n : Name}
    (hC : ∀ d, getNameLive s n = some d → CfgWF d.configs)
    (hH : handleChain s (prettyChain s 0) = some 0)
    (hP : ∀ c, prettyChain s 0 = .chain c → c = 0)
    (hfmt : addr.hrp = 0)
    (h : (p, n) ∈ revByFallback s addr) : resolve s p n (prettyChain s 0) = some addr := by
  obtain ⟨rfl, d, hl, c, hc, hd, hacct⟩ := of_mem_revByFallback h
  have hw := hC d hl
  have hU : CfgUniq d := cfgUniq_of_nodup hw.1
  have hid : c.chain = 0 ∧ c.path = 0 := by simpa [Config.isDefault] using hd
  -- what the default lookup yields
  have key : (match findConfig d 0 0 with | some v => some v | none => some (hostAddr d.owner)) = some addr := by
    unfold DymName.revConfigs at hc
    split at hc
    · have hf := findConfig_of_mem hU hc
      rw [hid.1, hid.2] at hf
      have hh := hw.2 c hc hid.1
      simp only [hf]
      cases hv : c.value; cases addr; simp_all
    · rename_i hnd
      rcases List.mem_append.mp hc with hc | hc
      · have := List.any_eq_false.mp (by simpa using hnd) c hc
        rw [hd] at this; exact absurd rfl this
      · simp only [List.mem_singleton] at hc
        subst hc
        simp only [findConfig_none_of_no_default (by simpa using hnd)]
        cases addr; simp_all [hostAddr]
  unfold resolve
  simp only [hl]
  cases hh : prettyChain s 0 with
  | chain c' =>
    have := hP c' hh; subst this
    rw [hh] at hH
    cases hf : findConfig d 0 0 with
    | some v => simpa [hf] using key
    | none => simpa [hf, hH] using key
  | alias l =>
    rw [hh] at hH
    cases hf : findConfig d 0 0 with
    | some v => simpa [hf, hH] using key
    | none => simpa [hf, hH] using key

end DymVerif.DymNS
