/-
  Lemmas/CoreLevOwn — proposer and successor of every rollapp are sequencers *of that rollapp*, in
  every reachable state.  Consequence: an address proposes for at most one rollapp (`Uniq`), so a
  liveness event of another rollapp never touches the bond of this rollapp's proposer.
-/
import DymVerif.Lemmas.CoreLevExact
namespace DymVerif.Core.LevNs

/-- proposer and successor of every rollapp have a sequencer record naming that rollapp -/
def Own (s : St) : Prop :=
  ∀ id r a, getRa s id = some r → (r.proposer = some a ∨ r.successor = some a) →
    ∃ q, getSeq s a = some q ∧ q.rollapp = id

structure OwnN (s : St) : Prop where
  nodup : AddrNodup s.seqs
  own : Own s

/-- sequencer records persist and keep their rollapp -/
def RolMono (s s' : St) : Prop :=
  ∀ a q, getSeq s a = some q → ∃ q', getSeq s' a = some q' ∧ q'.rollapp = q.rollapp

theorem RolMono.refl (s : St) : RolMono s s := fun _ q h => ⟨q, h, rfl⟩

theorem RolMono.trans {a b c : St} (h1 : RolMono a b) (h2 : RolMono b c) : RolMono a c := by
  intro x q h
  obtain ⟨q1, g1, r1⟩ := h1 x q h
  obtain ⟨q2, g2, r2⟩ := h2 x q1 g1
  exact ⟨q2, g2, r2.trans r1⟩

theorem RolMono.of_seqs {s s' : St} (e : s'.seqs = s.seqs) : RolMono s s' := by
  intro a q h; exact ⟨q, by rw [getSeq_congr e]; exact h, rfl⟩

theorem RolMono.setSeq {s : St} {q0 q' : Seq} (hg : getSeq s q'.addr = some q0) (hr : q'.rollapp = q0.rollapp) :
    RolMono s (setSeq s q') := by
  intro a q h
  by_cases ha : q'.addr = a
  · subst ha; rw [hg] at h; injection h with h; subst h; exact ⟨q', getSeq_setSeq_same hg, hr⟩
  · exact ⟨q, by rw [getSeq_setSeq_other ha]; exact h, rfl⟩

theorem RolMono.map {s : St} (f : Seq → Seq) (hf : ∀ x, (f x).addr = x.addr) (hr : ∀ x, (f x).rollapp = x.rollapp) :
    RolMono s { s with seqs := s.seqs.map f } := by
  intro a q h
  unfold getSeq at h ⊢
  dsimp only
  rw [find_map_addr _ f hf, h]
  exact ⟨f q, rfl, hr q⟩

theorem getSeq_of_mem {s : St} (hn : AddrNodup s.seqs) {q : Seq} (hq : q ∈ s.seqs) : getSeq s q.addr = some q := by
  unfold getSeq
  cases hf : s.seqs.find? (·.addr == q.addr) with
  | none =>
    have := List.find?_eq_none.1 hf q hq
    simp at this
  | some q' =>
    have h1 := List.mem_of_find?_eq_some hf
    have h2 : q'.addr = q.addr := by simpa using List.find?_some hf
    rw [hn.eq_of_mem h1 hq h2]

-- ---------------------------------------------------------------- proposer choice

theorem foldl_pick (f : Option Seq → Seq → Option Seq)
    (hf : ∀ acc q b, f acc q = some b → b = q ∨ acc = some b) (P : Seq → Prop) (l : List Seq) (hl : ∀ q ∈ l, P q) :
    ∀ (acc : Option Seq), (∀ b, acc = some b → P b) → ∀ b, l.foldl f acc = some b → P b := by
  induction l with
  | nil => intro acc hacc b hb; exact hacc b hb
  | cons x xs ih =>
    intro acc hacc b hb
    rw [List.foldl_cons] at hb
    refine ih (fun q hq => hl q (by simp [hq])) _ ?_ b hb
    intro b' hb'
    rcases hf acc x b' hb' with h1 | h1
    · subst h1; exact hl _ (by simp)
    · exact hacc b' h1

/-- the chosen proposer is a sequencer of the rollapp -/
theorem choose_mem {s : St} {ra : Nat} {a : Addr} (h : choose s ra = some a) :
    ∃ q ∈ s.seqs, q.addr = a ∧ q.rollapp = ra := by
  unfold choose at h
  dsimp only at h
  obtain ⟨b, hb, ha⟩ := Option.map_eq_some_iff.1 h
  have := foldl_pick _ (by
      intro acc q b h
      cases acc with
      | none => dsimp only at h; injection h with h; exact Or.inl h.symm
      | some c =>
        dsimp only at h
        split at h
        · injection h with h; exact Or.inl h.symm
        · exact Or.inr h)
    (fun q => q ∈ s.seqs ∧ q.rollapp = ra) _ (by
      intro q hq
      obtain ⟨h1, h2⟩ := List.mem_filter.1 hq
      simp only [Bool.and_eq_true, beq_iff_eq] at h2
      exact ⟨h1, h2.1.1⟩) none (by intro b hb; cases hb) b hb
  exact ⟨b, this.1, ha, this.2⟩

theorem choose_own {s : St} (hn : AddrNodup s.seqs) {ra : Nat} {a : Addr} (h : choose s ra = some a) :
    ∃ q, getSeq s a = some q ∧ q.rollapp = ra := by
  obtain ⟨q, hq, ha, hr⟩ := choose_mem h
  exact ⟨q, by rw [← ha]; exact getSeq_of_mem hn hq, hr⟩

-- ---------------------------------------------------------------- primitives

theorem Own.setRa {s : St} {id : Nat} {r r' : Rollapp} (h : Own s) (hg : getRa s id = some r) (hid : r'.id = r.id)
    (hps : ∀ a, (r'.proposer = some a ∨ r'.successor = some a) → ∃ q, getSeq s a = some q ∧ q.rollapp = id) :
    Own (setRa s r') := by
  have hid' : r'.id = id := hid.trans (getRa_id hg)
  intro id' x a hgx hpx
  by_cases hc : id' = id
  · subst hc
    rw [getRa_setRa_same_id hg hid'] at hgx
    injection hgx with hgx; subst hgx
    exact hps a hpx
  · rw [getRa_setRa_other (by rw [hid']; exact fun e => hc e.symm)] at hgx
    exact h id' x a hgx hpx

theorem OwnN.of_eq {s s' : St} (h : OwnN s) (e1 : s'.ras = s.ras) (e2 : s'.seqs = s.seqs) : OwnN s' := by
  refine ⟨e2 ▸ h.nodup, ?_⟩
  intro id r a hg hp
  rw [getRa_congr e1] at hg
  rw [getSeq_congr e2]
  exact h.own id r a hg hp

theorem OwnN.setRa_ps {s : St} {id : Nat} {r r' : Rollapp} (h : OwnN s) (hg : getRa s id = some r) (hid : r'.id = r.id)
    (hps : ∀ a, (r'.proposer = some a ∨ r'.successor = some a) → ∃ q, getSeq s a = some q ∧ q.rollapp = id) :
    OwnN (setRa s r') := ⟨h.nodup, h.own.setRa hg hid hps⟩

theorem OwnN.setRa_same {s : St} {id : Nat} {r r' : Rollapp} (h : OwnN s) (hg : getRa s id = some r) (hid : r'.id = r.id)
    (hp : r'.proposer = r.proposer) (hs : r'.successor = r.successor) : OwnN (setRa s r') :=
  h.setRa_ps hg hid (fun a ha => h.own id r a hg (by rw [← hp, ← hs]; exact ha))

/-- sequencer records change but persist with their rollapp; rollapp records unchanged -/
theorem OwnN.mono {s s' : St} (h : OwnN s) (hn : AddrNodup s'.seqs) (e1 : s'.ras = s.ras) (hm : RolMono s s') : OwnN s' := by
  refine ⟨hn, ?_⟩
  intro id r a hg hp
  rw [getRa_congr e1] at hg
  obtain ⟨q, hq, hr⟩ := h.own id r a hg hp
  obtain ⟨q', hq', hr'⟩ := hm a q hq
  exact ⟨q', hq', hr'.trans hr⟩

theorem OwnN.setSeq {s : St} {q0 q' : Seq} (h : OwnN s) (hg : getSeq s q'.addr = some q0) (hr : q'.rollapp = q0.rollapp) :
    OwnN (setSeq s q') :=
  h.mono (h.nodup.of_addrs_eq (addrs_replace s.seqs q')) rfl (RolMono.setSeq hg hr)

-- ---------------------------------------------------------------- money movers

theorem sendToModule_q {s s1 : St} {q q1 : Seq} {amt : Nat} (e : sendToModule s q amt = .ok (s1, q1)) :
    s1.ras = s.ras ∧ s1.seqs = s.seqs ∧ q1.addr = q.addr ∧ q1.rollapp = q.rollapp := by
  unfold sendToModule at e; split at e
  · cases e
  · injection e with e; injection e with e1 e2; subst e1; subst e2; exact ⟨rfl, rfl, rfl, rfl⟩

theorem sendFromModule_q {s s1 : St} {q q1 : Seq} {amt : Nat} {to : Addr} (e : sendFromModule s q amt to = .ok (s1, q1)) :
    s1.ras = s.ras ∧ s1.seqs = s.seqs ∧ q1.addr = q.addr ∧ q1.rollapp = q.rollapp := by
  unfold sendFromModule at e; split at e
  · cases e
  · split at e
    · cases e
    · split at e
      · cases e
      · injection e with e; injection e with e1 e2; subst e1; subst e2; exact ⟨rfl, rfl, rfl, rfl⟩

theorem burn_q {s s1 : St} {q q1 : Seq} {amt : Nat} (e : burn s q amt = .ok (s1, q1)) :
    s1.ras = s.ras ∧ s1.seqs = s.seqs ∧ q1.addr = q.addr ∧ q1.rollapp = q.rollapp := by
  unfold burn at e; split at e
  · cases e
  · split at e
    · cases e
    · injection e with e; injection e with e1 e2; subst e1; subst e2; exact ⟨rfl, rfl, rfl, rfl⟩

theorem slash_q {s s1 : St} {q q1 : Seq} {amt : Nat} {mul : Dec} {rw : Option Addr}
    (e : slash s q amt mul rw = .ok (s1, q1)) :
    s1.ras = s.ras ∧ s1.seqs = s.seqs ∧ q1.addr = q.addr ∧ q1.rollapp = q.rollapp := by
  unfold slash at e
  dsimp only at e
  split at e
  · cases e
  · rename_i s0 q0 h0
    have hb := burn_q e
    have h0' : s0.ras = s.ras ∧ s0.seqs = s.seqs ∧ q0.addr = q.addr ∧ q0.rollapp = q.rollapp := by
      split at h0
      · injection h0 with h0; injection h0 with h1 h2; subst h1; subst h2; exact ⟨rfl, rfl, rfl, rfl⟩
      · split at h0
        · exact sendFromModule_q h0
        · cases h0
    exact ⟨hb.1.trans h0'.1, hb.2.1.trans h0'.2.1, hb.2.2.1.trans h0'.2.2.1, hb.2.2.2.trans h0'.2.2.2⟩

theorem tryUnbond_q {s s1 : St} {q q1 : Seq} {amt : Nat} (e : tryUnbond s q amt = .ok (s1, q1)) :
    s1.ras = s.ras ∧ s1.seqs = s.seqs ∧ q1.addr = q.addr ∧ q1.rollapp = q.rollapp := by
  unfold tryUnbond at e
  split at e
  · cases e
  · split at e
    · cases e
    · split at e
      · cases e
      · dsimp only at e
        split at e
        · cases e
        · split at e
          · cases e
          · rename_i s0 q0 h0
            have := sendFromModule_q h0
            injection e with e; injection e with e1 e2; subst e1; subst e2
            have ha : (if q0.tokens = 0 then { q0 with bonded := false } else q0).addr = q0.addr := by split <;> rfl
            have hr : (if q0.tokens = 0 then { q0 with bonded := false } else q0).rollapp = q0.rollapp := by split <;> rfl
            exact ⟨this.1, this.2.1, ha.trans this.2.2.1, hr.trans this.2.2.2⟩

-- ---------------------------------------------------------------- the walk

theorem indicateLiveness_own {s : St} {id : Nat} {r : Rollapp} (h : OwnN s) (hg : getRa s id = some r) :
    OwnN (indicateLiveness s r) :=
  (h.setRa_same (r' := { r with evH := nextSlashHeight s.p.lsBlocks s.p.lsInterval s.h s.h, cdStart := s.h })
    hg rfl rfl rfl).of_eq (indicateLiveness_ras s r) rfl

theorem afterSetRealProposer_own {s : St} {ra : Nat} {a : Addr} (h : OwnN s) : OwnN (afterSetRealProposer s ra a) := by
  unfold afterSetRealProposer
  split
  · exact h
  · rename_i r hg
    have h1 := indicateLiveness_own h hg
    split
    · exact h1
    · rename_i r1 hg1
      exact h1.setRa_same hg1 rfl rfl rfl

theorem recoverFromSentinel_own {s s' : St} {ra : Nat} (h : OwnN s) (e : recoverFromSentinel s ra = .ok s') : OwnN s' := by
  unfold recoverFromSentinel at e
  split at e
  · cases e
  · rename_i r hg
    split at e
    · cases e
    · split at e
      · cases e
      · rename_i a hch
        injection e with e; subst e
        apply afterSetRealProposer_own
        refine h.setRa_ps hg (by rfl) ?_
        intro b hb
        rcases hb with hb | hb
        · have : a = b := by injection hb
          subst this
          exact choose_own h.nodup hch
        · exact h.own ra r b hg (Or.inr hb)

theorem setProposer_none_own {s : St} {ra : Nat} (h : OwnN s) : OwnN (setProposer s ra none) := by
  unfold setProposer
  split
  · exact h
  · rename_i r hg
    refine h.setRa_ps hg (by rfl) ?_
    intro b hb
    rcases hb with hb | hb
    · cases hb
    · exact h.own ra r b hg (Or.inr hb)

theorem setSuccessor_none_own {s : St} {ra : Nat} (h : OwnN s) : OwnN (setSuccessor s ra none) := by
  unfold setSuccessor
  split
  · exact h
  · rename_i r hg
    refine h.setRa_ps hg (by rfl) ?_
    intro b hb
    rcases hb with hb | hb
    · exact h.own ra r b hg (Or.inl hb)
    · cases hb

theorem setProposer_mono (s : St) (ra : Nat) (a : Option Addr) : RolMono s (setProposer s ra a) :=
  RolMono.of_seqs (setProposer_seqs s ra a).1

theorem setSuccessor_mono (s : St) (ra : Nat) (a : Option Addr) : RolMono s (setSuccessor s ra a) :=
  RolMono.of_seqs (setSuccessor_seqs s ra a).1

theorem abruptRemoveProposer_own {s : St} {ra : Nat} (h : OwnN s) :
    OwnN (abruptRemoveProposer s ra) ∧ RolMono s (abruptRemoveProposer s ra) := by
  unfold abruptRemoveProposer
  split
  · exact ⟨h, RolMono.refl s⟩
  · split
    · exact ⟨h, RolMono.refl s⟩
    · split
      · exact ⟨h, RolMono.refl s⟩
      · rename_i _ a _ _ q hq
        have h1 : OwnN (removeFromNoticeQueue s q) := h.of_eq (removeFromNoticeQueue_ras s q) (removeFromNoticeQueue_seqs s q).1
        have hq1 : getSeq (removeFromNoticeQueue s q) q.addr = some q := by
          rw [getSeq_congr (removeFromNoticeQueue_seqs s q).1, getSeq_addr hq]; exact hq
        have h2 : OwnN (setSeq (removeFromNoticeQueue s q) { q with bonded := false }) :=
          h1.setSeq (q' := { q with bonded := false }) hq1 rfl
        refine ⟨setProposer_none_own h2, ?_⟩
        exact ((RolMono.of_seqs (removeFromNoticeQueue_seqs s q).1).trans
          (RolMono.setSeq (q' := { q with bonded := false }) hq1 rfl)).trans (setProposer_mono _ _ _)

theorem optOutAll_own {s : St} {ra : Nat} (h : OwnN s) : OwnN (optOutAll s ra) ∧ RolMono s (optOutAll s ra) := by
  have ha : ∀ x : Seq, (if x.rollapp == ra then { x with optedIn := false } else x).addr = x.addr := by
    intro x; split <;> rfl
  have hr : ∀ x : Seq, (if x.rollapp == ra then { x with optedIn := false } else x).rollapp = x.rollapp := by
    intro x; split <;> rfl
  have hm : RolMono s (optOutAll s ra) := by unfold optOutAll; exact RolMono.map _ ha hr
  refine ⟨h.mono ?_ rfl hm, hm⟩
  apply h.nodup.of_addrs_eq
  unfold optOutAll
  dsimp only
  rw [List.map_map]; apply List.map_congr_left; intro x _; exact ha x

theorem seqOnHardFork_own {s : St} {ra : Nat} (h : OwnN s) : OwnN (seqOnHardFork s ra) ∧ RolMono s (seqOnHardFork s ra) := by
  unfold seqOnHardFork
  have h1 := optOutAll_own (ra := ra) h
  have h2 := abruptRemoveProposer_own (ra := ra) h1.1
  exact ⟨setSuccessor_none_own h2.1, (h1.2.trans h2.2).trans (setSuccessor_mono _ _ _)⟩

theorem hardFork_own {s s' : St} {ra lv : Nat} (h : OwnN s) (e : hardFork s ra lv = .ok s') : OwnN s' ∧ RolMono s s' := by
  unfold hardFork at e
  split at e
  · cases e
  · rename_i r hg
    split at e
    · cases e
    · split at e
      · cases e
      · split at e
        · cases e
        · rename_i keep kst hplan
          dsimp only at e
          injection e with e; subst e
          have h1 : OwnN { s with queue := removeIdxAbove s.queue ra keep,
                                  seqH := pruneSeqHeights s.seqH (kst.creator :: (r.states.drop keep).map (·.creator)) kst.last } :=
            h.of_eq rfl rfl
          have key : ∀ X : St, X.ras = (setRa s { forkedRollapp r keep kst with evH := 0, cdStart := s.h }).ras →
              X.seqs = s.seqs → OwnN (seqOnHardFork X ra) ∧ RolMono s (seqOnHardFork X ra) := by
            intro X e1 e2
            have h2 : OwnN X :=
              (h1.setRa_same (r := r) (r' := { forkedRollapp r keep kst with evH := 0, cdStart := s.h }) hg rfl rfl rfl).of_eq e1 e2
            have h3 := seqOnHardFork_own (ra := ra) h2
            exact ⟨h3.1, (RolMono.of_seqs e2).trans h3.2⟩
          exact key _ rfl rfl

theorem hardForkToLatest_own {s s' : St} {ra : Nat} (h : OwnN s) (e : hardForkToLatest s ra = .ok s') :
    OwnN s' ∧ RolMono s s' := by
  unfold hardForkToLatest at e
  split at e
  · cases e
  · split at e
    · cases e
    · exact hardFork_own h e

theorem onProposerLastBlock_own {s s' : St} {q : Seq} (h : OwnN s) (e : onProposerLastBlock s q = .ok s') : OwnN s' := by
  unfold onProposerLastBlock at e
  split at e
  · cases e
  · split at e
    · cases e
    · rename_i r hg
      dsimp only at e
      have h1 : OwnN (setRa s { r with successor := none, proposer := r.successor }) := by
        refine h.setRa_ps hg (by rfl) ?_
        intro b hb
        rcases hb with hb | hb
        · exact h.own _ r b hg (Or.inr hb)
        · cases hb
      split at e
      · exact (hardForkToLatest_own h1 e).1
      · injection e with e; subst e
        exact afterSetRealProposer_own h1

theorem seqAfterUpdate_own {s s' : St} {m : UpdMsg} {b : Bool} (h : OwnN s) (e : seqAfterUpdate s m b = .ok s') : OwnN s' := by
  unfold seqAfterUpdate at e
  split at e
  · cases e
  · rename_i prop hg
    dsimp only at e
    have h1 : OwnN (setSeq s { prop with dishonor := prop.dishonor - min s.sqp.dishonorSU prop.dishonor }) :=
      h.setSeq (q' := { prop with dishonor := prop.dishonor - min s.sqp.dishonorSU prop.dishonor }) (q0 := prop)
        (by show getSeq s prop.addr = some prop; rw [getSeq_addr hg]; exact hg) rfl
    split at e
    · exact onProposerLastBlock_own h1 e
    · injection e with e; subst e; exact h1

theorem updateState_own {s s' : St} {m : UpdMsg} (h : OwnN s) (e : updateState s m = .ok s') : OwnN s' := by
  unfold updateState at e
  split at e
  · cases e
  · split at e
    · cases e
    · rename_i r hg
      split at e
      · cases e
      · split at e
        · cases e
        · split at e
          · cases e
          · split at e
            · cases e
            · split at e
              · cases e
              · split at e
                · cases e
                · rename_i s3 h3
                  dsimp only at e
                  split at e
                  · cases e
                  · rename_i r4 hg4
                    injection e with e; subst e
                    have hnew : OwnN (setRa s { r with states := r.states ++ [newSInfo s m (updSucc r m)] }) :=
                      h.setRa_same hg rfl rfl rfl
                    have h3' := seqAfterUpdate_own hnew h3
                    have h4 : OwnN { s3 with queue := queueAppend s3.queue s3.h m.ra (r.states.length + 1),
                                             seqH := addSeqHeights s3.seqH m.sender m.bds } := h3'.of_eq rfl rfl
                    exact indicateLiveness_own h4 hg4

theorem find_insertSeq_other (x : Seq) (l : List Seq) (a : Addr) (hx : x.addr ≠ a) (hf : ∀ y ∈ l, y.addr ≠ x.addr) :
    (insertSorted (fun u v => decide (u.addr < v.addr)) x l).find? (·.addr == a) = l.find? (·.addr == a) := by
  induction l with
  | nil => simp [insertSorted, hx]
  | cons y ys ih =>
    have hy : y.addr ≠ x.addr := hf y (by simp)
    have ih' := ih (fun z hz => hf z (by simp [hz]))
    unfold insertSorted
    by_cases h1 : x.addr < y.addr
    · have hb : (x.addr == a) = false := by simp [hx]
      simp only [h1, decide_true, if_true]
      rw [List.find?_cons, hb]
    · have h2 : y.addr < x.addr := Nat.lt_of_le_of_ne (Nat.le_of_not_lt h1) hy
      simp only [h1, h2, decide_false, decide_true, Bool.false_eq_true, if_false, if_true]
      rw [List.find?_cons, List.find?_cons, ih']

theorem rolMono_insert {s : St} {q1 : Seq} (hfresh : getSeq s q1.addr = none) :
    RolMono s { s with seqs := insertSorted (fun x y => decide (x.addr < y.addr)) q1 s.seqs } := by
  have hne := getSeq_none hfresh
  intro a q h
  refine ⟨q, ?_, rfl⟩
  have hqa : q.addr = a := getSeq_addr h
  have hx : q1.addr ≠ a := by
    intro hc
    exact hne q (getSeq_mem h) (hqa.trans hc.symm)
  unfold getSeq at h ⊢
  dsimp only
  rw [find_insertSeq_other _ _ _ hx hne]; exact h

theorem createSeq_own {s s' : St} {a : Addr} {ra bond : Nat} {d : Bool} (h : OwnN s)
    (e : createSeq s a ra bond d = .ok s') : OwnN s' := by
  unfold createSeq at e
  split at e
  · cases e
  · rename_i r hg
    split at e
    · cases e
    · rename_i hex
      have hnone : getSeq s a = none := by
        cases hx : getSeq s a with
        | none => rfl
        | some _ => simp [hx] at hex
      split at e
      · cases e
      · split at e
        · cases e
        · split at e
          · cases e
          · dsimp only at e
            have h0 : OwnN (if r.launched = true then s else setRa s { r with launched := true }) := by
              split
              · exact h
              · exact h.setRa_same hg rfl rfl rfl
            have hs0 : (if r.launched = true then s else setRa s { r with launched := true }).seqs = s.seqs := by
              split <;> rfl
            split at e
            · cases e
            · rename_i s1 q1 hs
              have sp := sendToModule_q hs
              have h1 : OwnN s1 := h0.of_eq sp.1 sp.2.1
              have hfresh1 : getSeq s1 q1.addr = none := by
                rw [getSeq_congr (sp.2.1.trans hs0), sp.2.2.1]; exact hnone
              have h2 : OwnN { s1 with seqs := insertSorted (fun x y => decide (x.addr < y.addr)) q1 s1.seqs } :=
                h1.mono (nodup_insert s1.seqs q1 h1.nodup (getSeq_none hfresh1)) rfl (rolMono_insert hfresh1)
              split at e
              · cases e
              · split at e
                · exact recoverFromSentinel_own h2 e
                · injection e with e; subst e; exact h2

theorem increaseBond_own {s s' : St} {a : Addr} {amt : Nat} {d : Bool} (h : OwnN s)
    (e : increaseBond s a amt d = .ok s') : OwnN s' := by
  unfold increaseBond at e
  split at e
  · cases e
  · rename_i q hq
    split at e
    · cases e
    · split at e
      · cases e
      · split at e
        · cases e
        · rename_i s1 q1 hs
          have sp := sendToModule_q hs
          injection e with e; subst e
          exact (h.of_eq sp.1 sp.2.1).setSeq (q0 := q)
            (by rw [getSeq_congr sp.2.1, sp.2.2.1, getSeq_addr hq]; exact hq) sp.2.2.2

theorem decreaseBond_own {s s' : St} {a : Addr} {amt : Nat} (h : OwnN s)
    (e : decreaseBond s a amt = .ok s') : OwnN s' := by
  unfold decreaseBond at e
  split at e
  · cases e
  · rename_i q hq
    split at e
    · cases e
    · split at e
      · cases e
      · rename_i s1 q1 hs
        have sp := tryUnbond_q hs
        injection e with e; subst e
        exact (h.of_eq sp.1 sp.2.1).setSeq (q0 := q)
          (by rw [getSeq_congr sp.2.1, sp.2.2.1, getSeq_addr hq]; exact hq) sp.2.2.2

theorem unbond_own {s s' : St} {a : Addr} (h : OwnN s) (e : unbond s a = .ok s') : OwnN s' := by
  unfold unbond at e
  split at e
  · cases e
  · rename_i q hq
    have hqq : getSeq s q.addr = some q := by rw [getSeq_addr hq]; exact hq
    split at e
    · cases e
    · split at e
      · cases e
      · split at e
        · split at e
          · cases e
          · split at e
            · cases e
            · injection e with e; subst e
              exact OwnN.setSeq (s := { s with nq := _ }) (q' := { q with optedIn := false, notice := some (s.t + s.sqp.noticePeriod) })
                (q0 := q) (h.of_eq rfl rfl) hqq rfl
        · split at e
          · cases e
          · rename_i s1 q1 hs
            have sp := tryUnbond_q hs
            injection e with e; subst e
            exact (h.of_eq sp.1 sp.2.1).setSeq (q0 := q)
              (by rw [getSeq_congr sp.2.1, sp.2.2.1]; exact hqq) sp.2.2.2

theorem optIn_own {s s' : St} {a : Addr} {v : Bool} (h : OwnN s) (e : optIn s a v = .ok s') : OwnN s' := by
  unfold optIn at e
  split at e
  · cases e
  · rename_i q hq
    split at e
    · cases e
    · dsimp only at e
      have h1 : OwnN (setSeq s { q with optedIn := v }) :=
        h.setSeq (q' := { q with optedIn := v }) (q0 := q) (by show getSeq s q.addr = some q; rw [getSeq_addr hq]; exact hq) rfl
      split at e
      · cases e
      · split at e
        · exact recoverFromSentinel_own h1 e
        · injection e with e; subst e; exact h1

theorem kick_own {s s' : St} {a : Addr} (h : OwnN s) (e : kick s a = .ok s') : OwnN s' := by
  unfold kick at e
  split at e
  · cases e
  · rename_i kicker hgk
    split at e
    · cases e
    · split at e
      · cases e
      · rename_i r hgr
        split at e
        · cases e
        · split at e
          · cases e
          · split at e
            · cases e
            · split at e
              · cases e
              · dsimp only at e
                split at e
                · cases e
                · rename_i s3 h3
                  have c2 := abruptRemoveProposer_own (ra := r.id) h
                  have c3 := hardForkToLatest_own c2.1 h3
                  obtain ⟨q3, hq3, hr3⟩ := (c2.2.trans c3.2) a kicker hgk
                  have hka : kicker.addr = a := getSeq_addr hgk
                  have c4 : OwnN (setSeq s3 { kicker with optedIn := true }) :=
                    c3.1.setSeq (q' := { kicker with optedIn := true }) (q0 := q3)
                      (by show getSeq s3 kicker.addr = some q3; rw [hka]; exact hq3) hr3.symm
                  exact recoverFromSentinel_own c4 e

theorem punish_own {s s' : St} {a : Addr} {rw : Option Addr} (h : OwnN s) (e : punish s a rw = .ok s') : OwnN s' := by
  unfold punish at e
  split at e
  · cases e
  · rename_i q hq
    dsimp only at e
    split at e
    · cases e
    · rename_i s1 q1 hs
      have sp := slash_q hs
      injection e with e; subst e
      exact (h.of_eq sp.1 sp.2.1).setSeq (q0 := q)
        (by rw [getSeq_congr sp.2.1, sp.2.2.1, getSeq_addr hq]; exact hq) sp.2.2.2

theorem fraud_own {s s' : St} {au : Bool} {ra hh rev : Nat} {p rw : Option Addr} (h : OwnN s)
    (e : fraud s au ra hh rev p rw = .ok s') : OwnN s' := by
  unfold fraud at e
  split at e
  · cases e
  · split at e
    · cases e
    · split at e
      · cases e
      · split at e
        · cases e
        · dsimp only at e
          split at e
          · cases e
          · rename_i s1 h1
            have : OwnN s1 := by
              split at h1
              · exact punish_own h h1
              · injection h1 with h1; subst h1; exact h
            exact (hardFork_own this e).1

theorem markObsolete_own {s s' : St} {au : Bool} {vs : List Nat} (h : OwnN s)
    (e : markObsolete s au vs = .ok s') : OwnN s' := by
  unfold markObsolete at e
  split at e
  · cases e
  · split at e
    · cases e
    · dsimp only at e
      injection e with e; subst e
      apply foldl_inv OwnN
      · exact h.of_eq rfl rfl
      · intro b r0 hb
        split
        · exact hb
        · split
          · exact hb
          · split
            · split
              · rename_i a ha; exact (hardForkToLatest_own hb ha).1
              · exact hb
            · exact hb

theorem beginBlock_own {s : St} {dt : Nat} (h : OwnN s) : OwnN (beginBlock s dt) := by
  unfold beginBlock
  dsimp only
  apply foldl_inv OwnN
  · exact h.of_eq rfl rfl
  · intro b e hb
    have hb1 : OwnN { b with nq := b.nq.filter (fun x => !(x.1 == e.1 && x.2 == e.2)) } := hb.of_eq rfl rfl
    split
    · exact hb1
    · rename_i q hq
      split
      · exact hb1
      · rename_i r hg
        refine hb1.setRa_ps hg (by rfl) ?_
        intro c hc
        rcases hc with hc | hc
        · exact hb1.own _ r c hg (Or.inl hc)
        · exact choose_own hb1.nodup hc

theorem finalizeOne_own {s s' : St} {fails : List (Nat × Nat)} {ra idx : Nat} (h : OwnN s)
    (e : finalizeOne s fails ra idx = some s') : OwnN s' := by
  unfold finalizeOne at e
  split at e
  · cases e
  · split at e
    · cases e
    · rename_i r hg
      split at e
      · cases e
      · rename_i st hst
        split at e
        · cases e
        · dsimp only at e
          injection e with e; subst e
          have h1 : OwnN { s with seqH := s.seqH.filter (fun p => !(p.1 == st.creator && st.bds.any (·.height == p.2))) } :=
            h.of_eq rfl rfl
          exact h1.setRa_same hg rfl rfl rfl

theorem finalizeEntry_go_own (fails : List (Nat × Nat)) (e : QEntry) (l : List Nat) (s : St) (h : OwnN s) :
    OwnN (finalizeEntry.go fails e s l).1 := by
  induction l generalizing s with
  | nil => unfold finalizeEntry.go; exact h.of_eq rfl rfl
  | cons i rest ih =>
    unfold finalizeEntry.go
    split
    · rename_i s1 h1; exact ih s1 (finalizeOne_own h h1)
    · exact h.of_eq rfl rfl

theorem finalizeAll_own (fails : List (Nat × Nat)) (es : List QEntry) (failed : List Nat) (s : St) (h : OwnN s) :
    OwnN (finalizeAll s fails es failed) := by
  induction es generalizing s failed with
  | nil => unfold finalizeAll; exact h
  | cons e es ih =>
    unfold finalizeAll
    split
    · exact ih _ _ h
    · have := finalizeEntry_go_own fails e e.idx s h
      unfold finalizeEntry
      exact ih _ _ this

theorem slashLiveness_own {s s1 : St} {r : Rollapp} (h : OwnN s) (e : slashLiveness s r = .ok s1) : OwnN s1 := by
  unfold slashLiveness at e
  split at e
  · injection e with e; subst e; exact h
  · split at e
    · injection e with e; subst e; exact h
    · rename_i q hq
      split at e
      · cases e
      · rename_i s2 q2 hsl
        have sp := slash_q hsl
        injection e with e; subst e
        exact (h.of_eq sp.1 sp.2.1).setSeq (q' := { q2 with dishonor := q2.dishonor + s2.sqp.dishonorL }) (q0 := q)
          (by show getSeq s2 q2.addr = some q; rw [getSeq_congr sp.2.1, sp.2.2.1, getSeq_addr hq]; exact hq) sp.2.2.2

theorem handleLivenessEvent_own {s : St} {ra : Nat} (h : OwnN s) : OwnN (handleLivenessEvent s ra) := by
  cases hg : getRa s ra with
  | none => rw [handleLivenessEvent_none hg]; exact h
  | some r =>
    cases hs : slashLiveness s r with
    | error e => rw [handleLivenessEvent_err hg hs]; exact h
    | ok s1 =>
      have h1 := slashLiveness_own h hs
      have hg1 : getRa s1 ra = some r := by rw [getRa_congr (slashLiveness_same hs).1]; exact hg
      rw [handleLivenessEvent_eq hg hs]
      generalize nextSlashHeight s1.p.lsBlocks s1.p.lsInterval s1.h r.cdStart = n
      have key : ∀ X : St, X.ras = s1.ras → X.seqs = s1.seqs → OwnN (setRa X { r with evH := n }) := by
        intro X e1 e2
        exact (h1.of_eq e1 e2).setRa_same (r := r) (by rw [getRa_congr e1]; exact hg1) rfl rfl rfl
      exact key _ rfl rfl

theorem endBlock_own {s : St} {f : List (Nat × Nat)} (h : OwnN s) : OwnN (endBlock s f) := by
  unfold endBlock checkLiveness
  apply foldl_inv OwnN
  · unfold finalizeRollappStates
    split
    · exact h
    · exact finalizeAll_own _ _ _ _ h
  · intro b e hb; exact handleLivenessEvent_own hb

theorem apply_own {s s' : St} {o : Op} (h : OwnN s) (e : apply s o = .ok s') : OwnN s' := by
  cases o with
  | createRollapp id owner mb =>
    simp only [apply] at e
    split at e
    · cases e
    · rename_i hex
      injection e with e; subst e
      have hnone : getRa s id = none := by
        cases hx : getRa s id with
        | none => rfl
        | some _ => simp [hx] at hex
      have hfresh := getRa_none hnone
      refine ⟨h.nodup, ?_⟩
      intro id' r a hg hp
      by_cases hc : (newRollapp id owner mb).id = id'
      · exfalso
        have hm := getRa_mem hg
        have hid := getRa_id hg
        rcases mem_insertRa _ _ _ hm with h1 | h1
        · subst h1; rcases hp with hp | hp <;> cases hp
        · exact hfresh r h1 (hid.trans hc.symm)
      · have : getRa s id' = some r := by
          unfold getRa at hg ⊢
          rw [← find_insertRa_other _ _ _ hc hfresh]; exact hg
        exact h.own id' r a this hp
  | bridge ra hh =>
    simp only [apply] at e
    split at e
    · cases e
    · rename_i r hg
      split at e
      · cases e
      · split at e
        · cases e
        · injection e with e; subst e
          exact h.setRa_same hg rfl rfl rfl
  | fund a amt => simp only [apply] at e; injection e with e; subst e; exact h.of_eq rfl rfl
  | createSeq a ra b d => exact createSeq_own h e
  | bondInc a amt d => exact increaseBond_own h e
  | bondDec a amt => exact decreaseBond_own h e
  | unbond a => exact unbond_own h e
  | optIn a v => exact optIn_own h e
  | kick a => exact kick_own h e
  | update m => exact updateState_own h e
  | fraud au ra hh rev p rw => exact fraud_own h e
  | obsolete au vs => exact markObsolete_own h e
  | punish au a rw => exact punish_own h (punishProposal_ok e).2
  | transferOwner sg ra' no =>
    obtain ⟨r, hg, _, _, _, rfl⟩ := transferOwner_ok e
    exact h.setRa_same hg rfl rfl rfl
  | setSeqParams au sp =>
    obtain ⟨_, hnp, _, rfl⟩ := setSeqParams_ok e
    exact h.of_eq rfl rfl
  | begin_ dt => simp only [apply] at e; injection e with e; subst e; exact beginBlock_own h
  | end_ f => simp only [apply] at e; injection e with e; subst e; exact endBlock_own h

theorem run_own (p : Params) (ops : List Op) : OwnN (run p ops) := by
  unfold run
  apply foldl_inv OwnN
  · exact ⟨List.Pairwise.nil, by intro id r a hg; simp [getRa, init] at hg⟩
  · intro b o hb
    unfold step
    split
    · rename_i s' e; exact apply_own hb e
    · exact hb

/-- in a state satisfying `Own`, the proposer of a rollapp proposes for no other rollapp -/
theorem OwnN.uniq {s : St} (h : OwnN s) {ra : Nat} {r : Rollapp} {a : Addr} (hg : getRa s ra = some r)
    (hp : r.proposer = some a) : Uniq s a ra := by
  intro id r' hg' hp'
  obtain ⟨q, hq, hr⟩ := h.own ra r a hg (Or.inl hp)
  obtain ⟨q', hq', hr'⟩ := h.own id r' a hg' (Or.inl hp')
  rw [hq] at hq'; injection hq' with hq'; subst hq'
  exact hr'.symm.trans hr

theorem run_uniq (p : Params) (ops : List Op) {ra : Nat} {r : Rollapp} {a : Addr}
    (hg : getRa (run p ops) ra = some r) (hp : r.proposer = some a) : Uniq (run p ops) a ra :=
  (run_own p ops).uniq hg hp

end DymVerif.Core.LevNs
