import DymVerif.Lemmas.LockupFate
import DymVerif.Lemmas.GenesisKV
import DymVerif.Model.LockupChain
/-
  Lemmas/LockupChain — what a restart (ExportGenesis → InitGenesis) does to an M-Lockup state:
  the exported list is a permutation of the lock table, re-inserting it under the id keys rebuilds the
  table, and the accumulation store rebuilt from the per-(denom, duration) cache answers every query
  as the sum over the locks.  Core Lean only.
-/
namespace DymVerif.Lockup

/-! ### sums are order independent -/

theorem total_perm (P : Lock → Bool) {l₁ l₂ : List Lock} (h : l₁.Perm l₂) : total P l₁ = total P l₂ := by
  induction h with
  | nil => rfl
  | cons x _ ih => simp [total, ih]
  | swap x y l => simp only [total]; omega
  | trans _ _ ih₁ ih₂ => exact ih₁.trans ih₂

/-- `GetPeriodLocks` lists every lock exactly once (in reference order, not in id order) -/
theorem periodLocks_perm (ls : List Lock) : (periodLocks ls).Perm ls := by
  unfold periodLocks
  refine ((Genesis.sortBy_perm _ _).append (Genesis.sortBy_perm _ _)).trans ?_
  have := List.filter_append_perm (fun l : Lock => !l.isUnlocking) ls
  have e : (fun x : Lock => !(fun l : Lock => !l.isUnlocking) x) = fun l : Lock => l.isUnlocking := by
    funext x; simp
  rw [e] at this
  exact this

/-! ### the lock section of the store: id order -/

/-- the lock list is in id order — the order of the lock section (`lockStoreKey(id)`, big-endian) -/
def IdSorted (ls : List Lock) : Prop := (ls.map (·.id)).Pairwise (· < ·)

theorem idSorted_nil : IdSorted [] := List.Pairwise.nil

theorem IdSorted.nodup {ls : List Lock} (h : IdSorted ls) : (ls.map (·.id)).Nodup :=
  List.Pairwise.imp (fun hlt => Nat.ne_of_lt hlt) h

theorem idSorted_setLock {ls : List Lock} (h : IdSorted ls) (n : Lock) : IdSorted (setLock ls n) := by
  unfold IdSorted; rw [setLock_ids]; exact h

theorem idSorted_delLock {ls : List Lock} (h : IdSorted ls) (id : Nat) : IdSorted (delLock ls id) :=
  List.Pairwise.sublist (List.Sublist.map _ List.filter_sublist) h

theorem idSorted_filter {ls : List Lock} (h : IdSorted ls) (P : Lock → Bool) : IdSorted (ls.filter P) :=
  List.Pairwise.sublist (List.Sublist.map _ List.filter_sublist) h

theorem idSorted_append_fresh {ls : List Lock} (h : IdSorted ls) (n : Lock)
    (hfresh : ∀ x ∈ ls, x.id < n.id) : IdSorted (ls ++ [n]) := by
  unfold IdSorted
  rw [List.map_append, List.pairwise_append]
  refine ⟨h, by simp, ?_⟩
  intro a ha b hb
  rcases List.mem_map.mp ha with ⟨x, hx, rfl⟩
  simp at hb
  subst hb
  exact hfresh x hx

/-- re-inserting any permutation of an id-ordered lock table under the id keys rebuilds the table -/
theorem storeLocks_perm {ls l : List Lock} (hs : IdSorted ls) (hp : l.Perm ls) : storeLocks l = ls := by
  have hsort : Genesis.Sorted Genesis.ltNat (ls.map (fun x : Lock => (x.id, x))) := by
    unfold Genesis.Sorted
    rw [List.pairwise_map]
    unfold IdSorted at hs
    rw [List.pairwise_map] at hs
    exact List.Pairwise.imp (fun h => by simpa [Genesis.ltNat] using h) hs
  have hk : Genesis.Keyed (fun x : Lock => x.id) (ls.map (fun x : Lock => (x.id, x))) := by
    intro e he
    obtain ⟨x, _, rfl⟩ := List.mem_map.1 he
    rfl
  have hexp : Genesis.exportVals (ls.map (fun x : Lock => (x.id, x))) = ls := by
    unfold Genesis.exportVals
    rw [List.map_map]
    exact (List.map_congr_left (fun x _ => rfl)).trans (List.map_id ls)
  unfold storeLocks
  rw [Genesis.importVals_perm Genesis.soNat hsort hk (by rw [hexp]; exact hp), hexp]

/-! ### the accumulation store rebuilt from the cache -/

theorem accQuery_foldl (es acc0 : List AccEntry) (d k : Nat) :
    accQuery (es.foldl (fun acc e => accAdd acc e.denom e.dur e.val) acc0) d k =
      accQuery acc0 d k + accQuery es d k := by
  induction es generalizing acc0 with
  | nil => simp [accQuery]
  | cons e es ih =>
    simp only [List.foldl_cons, ih, accQuery_accAdd, accQuery]
    omega

theorem accQuery_perm {l₁ l₂ : List AccEntry} (h : l₁.Perm l₂) (d k : Nat) : accQuery l₁ d k = accQuery l₂ d k := by
  induction h with
  | nil => rfl
  | cons x _ ih => simp [accQuery, ih]
  | swap x y l => simp only [accQuery]; omega
  | trans _ _ ih₁ ih₂ => exact ih₁.trans ih₂

/-- the order of the `Increase` calls is unobservable -/
theorem accQuery_accFlush (cache : List AccEntry) (d k : Nat) : accQuery (accFlush cache) d k = accQuery cache d k := by
  unfold accFlush
  rw [accQuery_foldl, accQuery_perm (Genesis.sortBy_perm accLt cache)]
  simp [accQuery]

theorem accQuery_foldl_locks (ls : List Lock) (c0 : List AccEntry) (d k : Nat) :
    accQuery (ls.foldl (fun c l => accAdd c l.denom l.duration l.amount) c0) d k =
      accQuery c0 d k + (lockedLonger ls d k : Int) := by
  induction ls generalizing c0 with
  | nil => simp [lockedLonger, total]
  | cons l ls ih =>
    simp only [List.foldl_cons, ih, accQuery_accAdd, lockedLonger, total]
    by_cases h : l.denom = d ∧ k ≤ l.duration
    · simp [h]; omega
    · have h' : ¬ (l.denom = d ∧ k ≤ l.duration) := h
      simp only [Bool.and_eq_true, beq_iff_eq, decide_eq_true_eq, h, if_false]
      omega

/-- the cache of `InitializeAllLocks` answers a query with the sum over the listed locks -/
theorem accQuery_accCache (ls : List Lock) (d k : Nat) : accQuery (accCache ls) d k = (lockedLonger ls d k : Int) := by
  unfold accCache
  rw [accQuery_foldl_locks]
  simp [accQuery]

/-- **the accumulation store after `InitializeAllLocks`**: for every denom and duration, the sum of
    the coins of the listed locks with at least that duration — whatever the order of the list and
    however many locks share a (denom, duration) entry -/
theorem initializeAllLocks_acc (ls : List Lock) (d k : Nat) :
    accQuery (initializeAllLocks ls).2 d k = (lockedLonger ls d k : Int) := by
  simp only [initializeAllLocks, accQuery_accFlush, accQuery_accCache]

/-! ### restart -/

theorem restart_locks {s : State} (hs : IdSorted s.locks) :
    (initGenesis s (exportGenesis s)).locks = s.locks := by
  simp only [initGenesis, exportGenesis, initializeAllLocks]
  exact storeLocks_perm hs (periodLocks_perm s.locks)

theorem restart_acc (s : State) (d k : Nat) :
    accQuery (initGenesis s (exportGenesis s)).acc d k = (lockedLonger s.locks d k : Int) := by
  simp only [initGenesis, exportGenesis, initializeAllLocks_acc]
  exact congrArg Int.ofNat (total_perm _ (periodLocks_perm s.locks))

theorem restart_inv {s : State} (h : Inv s) (hs : IdSorted s.locks) : Inv (initGenesis s (exportGenesis s)) := by
  have hl := restart_locks hs
  constructor
  · intro d; rw [hl]; exact h.custody d
  · intro d k; rw [hl]; exact restart_acc s d k
  · rw [hl]; exact h.nodup
  · intro l hm; rw [hl] at hm; exact h.idle l hm
  · intro l hm; rw [hl] at hm; exact h.pos l hm
  · intro l hm; rw [hl] at hm; exact h.ghost l hm

/-! ### every operation keeps the lock table in id order -/

theorem step_idSorted (p : Params) {s : State} (h : Inv s) (hs : IdSorted s.locks) (op : Op) :
    IdSorted (step p s op).1.locks := by
  have hfresh : ∀ x ∈ s.locks, x.id < s.lastId + 1 := fun x hx => Nat.lt_succ_of_le (h.idle x hx).2
  cases op with
  | lock a d amt dur =>
    simp only [step]
    rcases lockTokens_cases p s a d amt dur with ⟨e, he⟩ | ⟨_, _, _, _, t, ht, hc⟩
    · rw [he]; exact hs
    · obtain ⟨fr, _, _⟩ := frame_charge ht
      rcases hc with ⟨l, _, he⟩ | ⟨_, he⟩
      · rw [he]; simp only [addToLock, fr.locks]; exact idSorted_setLock hs _
      · rw [he]; simp only [createLock, fr.locks, fr.lastId]
        exact idSorted_append_fresh hs _ hfresh
  | unlock a id c =>
    simp only [step]
    rcases beginUnlocking_cases s a id c with ⟨e, he⟩ | ⟨l, _, _, _, _, _, hc⟩
    · rw [he]; exact hs
    · rcases hc with ⟨_, he⟩ | ⟨_, he⟩
      · rw [he]; simp only [splitUnlock]
        refine idSorted_append_fresh (idSorted_setLock hs _) _ ?_
        intro x hx
        obtain ⟨o, ho, hid⟩ := mem_setLock_old hx
        rw [← hid]; exact hfresh o ho
      · rw [he]; simp only [startUnlock]; exact idSorted_setLock hs _
  | extend a id dur =>
    simp only [step]
    rcases extendLockup_cases s a id dur with ⟨e, he⟩ | ⟨l, _, _, _, _, he⟩
    · rw [he]; exact hs
    · rw [he]; simp only [extendTo]; exact idSorted_setLock hs _
  | force a id c =>
    simp only [step]
    rcases forceUnlock_cases p s a id c with ⟨e, he⟩ | ⟨l, _, _, _, _, _, hc⟩
    · rw [he]; exact hs
    · rcases hc with ⟨_, t, ht, he⟩ | ⟨_, t, ht, he⟩
      · obtain ⟨_, hl, _⟩ := fromModule_some ht
        rw [he]; simp only [shrinkLock, hl]; exact idSorted_setLock hs _
      · obtain ⟨_, hl, _⟩ := fromModule_some ht
        rw [he]; simp only [removeLock, hl]; exact idSorted_delLock hs _
  | beginBlock dt => exact hs
  | endBlock =>
    simp only [step]
    by_cases hh : minHeightAutoWithdraw ≤ s.height
    · obtain ⟨s', he, _, _, _, _, hlocks, _⟩ := endBlock_spec h hh
      rw [he, hlocks]; exact idSorted_filter hs _
    · have : s.height < minHeightAutoWithdraw := by omega
      unfold endBlock
      simp only [this, if_true]; exact hs

/-! ### the invariant of a chain's whole life -/

/-- M-Lockup's state invariant plus "the lock table is in id order" (what lets a restart rebuild the
    table exactly); the parameters are unconstrained -/
structure CInv (c : Chain) : Prop where
  inv : Inv c.s
  sorted : IdSorted c.s.locks

theorem cinit_cinv (p : Params) (bal : Actor → Denom → Nat) (now height : Nat) : CInv (cinit p bal now height) :=
  ⟨init_inv bal now height, idSorted_nil⟩

/-- a restart leaves everything of the module state but the representation of the accumulation store
    as it was -/
theorem restart_frame {c : Chain} (h : CInv c) :
    (restart c).s.locks = c.s.locks ∧ (restart c).s.lastId = c.s.lastId ∧ (restart c).s.bal = c.s.bal ∧
    (restart c).s.modBal = c.s.modBal ∧ (restart c).s.now = c.s.now ∧ (restart c).s.height = c.s.height :=
  ⟨restart_locks h.sorted, rfl, rfl, rfl, rfl, rfl⟩

theorem restart_cinv {c : Chain} (h : CInv c) : CInv (restart c) :=
  ⟨restart_inv h.inv h.sorted, by rw [(restart_frame h).1]; exact h.sorted⟩

theorem cstep_cinv {c : Chain} (h : CInv c) (op : COp) : CInv (cstep c op).1 := by
  cases op with
  | msg op => exact ⟨step_inv c.p h.inv op, step_idSorted c.p h.inv h.sorted op⟩
  | restart => exact restart_cinv h
  | setParams m f al => exact ⟨h.inv, h.sorted⟩

theorem crun_cinv : ∀ (ops : List COp) {c : Chain}, CInv c → CInv (crun c ops)
  | [], _, h => h
  | op :: ops, _, h => crun_cinv ops (cstep_cinv h op)

/-- the two operations that are not messages or blocks leave the lock table, the id counter, every
    balance and the clock as they were -/
theorem cstep_nonmsg_frame {c : Chain} (h : CInv c) {op : COp} (hop : ∀ o, op ≠ .msg o) :
    (cstep c op).1.s.locks = c.s.locks ∧ (cstep c op).1.s.lastId = c.s.lastId ∧
    (cstep c op).1.s.bal = c.s.bal ∧ (cstep c op).1.s.modBal = c.s.modBal ∧
    (cstep c op).1.s.now = c.s.now ∧ (cstep c op).1.s.height = c.s.height ∧ (cstep c op).2 = .ok 0 := by
  cases op with
  | msg o => exact absurd rfl (hop o)
  | restart => obtain ⟨a, b, c', d, e, f⟩ := restart_frame h; exact ⟨a, b, c', d, e, f, rfl⟩
  | setParams m f al => exact ⟨rfl, rfl, rfl, rfl, rfl, rfl, rfl⟩

end DymVerif.Lockup
