/-
  Lemmas/CoreRoles3 — the roles invariant through the rollapp-side hooks, the filling of an empty
  proposer slot, the abrupt removal of a proposer and the hard fork.
-/
import DymVerif.Lemmas.CoreRoles2
namespace DymVerif.Core.Roles

theorem getRa_self {s : St} {id : Nat} {r : Rollapp} (hg : getRa s id = some r) : getRa s r.id = some r := by
  rw [getRa_id hg]; exact hg

theorem mem_setRa' {s : St} {r0 r : Rollapp} (h : r ∈ (setRa s r0).ras) : (r ∈ s.ras ∧ r.id ≠ r0.id) ∨ r = r0 := by
  unfold setRa at h
  simp only [List.mem_map] at h
  obtain ⟨x, hx, rfl⟩ := h
  by_cases hc : (x.id == r0.id) = true
  · simp [hc]
  · simp only [hc]
    left
    exact ⟨hx, by simpa using hc⟩

-- ---------------------------------------------------------------- rollapp-side hooks are frames

theorem indicateLiveness_frame {s : St} {id : Nat} {r : Rollapp} (u : Uniq s) (hg : getRa s id = some r) :
    Frame s (indicateLiveness s r) := by
  unfold indicateLiveness resetClock scheduleEvent
  dsimp only
  exact Frame.of_setRa_eq (r0 := r) u hg (by rfl) (by rfl) (by rfl) (by rfl) (by rfl) (by rfl) (by rfl) (by rfl)

theorem afterSetRealProposer_frame {s : St} (u : Uniq s) (ra : Nat) (a : Addr) :
    Frame s (afterSetRealProposer s ra a) := by
  unfold afterSetRealProposer
  split
  · exact Frame.refl s
  · rename_i r hg
    have f1 := indicateLiveness_frame u hg
    split
    · exact f1
    · rename_i r1 hg1
      exact f1.trans (Frame.of_setRa (r0 := r1) (f1.uniq u) hg1 (by rfl) (by rfl) (by rfl))

-- ---------------------------------------------------------------- filling an empty proposer slot

theorem recoverFromSentinel_roles {s s' : St} {ra : Nat} (h : RolesCore s) (sp : SuccProp s)
    (e : recoverFromSentinel s ra = .ok s') : Roles s' := by
  unfold recoverFromSentinel at e
  split at e
  · cases e
  · rename_i r hg
    split at e
    · cases e
    · rename_i hnone
      have hpn : r.proposer = none := by
        cases hp : r.proposer with
        | none => rfl
        | some _ => simp [hp] at hnone
      split at e
      · cases e
      · rename_i a hch
        injection e with e; subst e
        have hid := getRa_id hg
        have hsn : r.successor = none := sp r (getRa_mem hg) hpn
        have c1 : RolesCore (setRa s { r with proposer := some a }) := by
          apply h.of_setRa (r0 := r) hg (by rfl)
          · intro a' ha'
            injection ha' with ha'; subst ha'
            show BondedOf s r.id a
            rw [hid]; exact choose_bondedOf h.uniq hch
          · intro a' ha'; exact h.succ r (getRa_mem hg) a' ha'
          · intro a' ha'; exact h.succFresh r (getRa_mem hg) a' ha'
          · intro a' _ hs; rw [hsn] at hs; cases hs
          · intro t a' _ hp; rw [hpn] at hp; cases hp
        have s1 : SuccProp (setRa s { r with proposer := some a }) := by
          apply sp.of_setRa
          intro hc; cases hc
        have f := afterSetRealProposer_frame c1.uniq ra a
        exact ⟨c1.frame f, s1.frame f⟩

-- ---------------------------------------------------------------- abrupt removal of the proposer

/-- the "successor only under a proposer" clause for all rollapps but one -/
def SuccPropEx (ra : Nat) (s : St) : Prop := ∀ r ∈ s.ras, r.id ≠ ra → r.proposer = none → r.successor = none

theorem SuccProp.ex {s : St} (h : SuccProp s) (ra : Nat) : SuccPropEx ra s := fun r hr _ => h r hr

theorem SuccPropEx.of_ras {s s' : St} {ra : Nat} (h : SuccPropEx ra s) (e : s'.ras = s.ras) : SuccPropEx ra s' := by
  intro r hr; rw [e] at hr; exact h r hr

theorem SuccPropEx.frame {s s' : St} {ra : Nat} (h : SuccPropEx ra s) (f : Frame s s') : SuccPropEx ra s' := by
  intro r' hr' hne hp
  obtain ⟨r, hr, e⟩ := mem_key_congr rkey f.ras hr'
  simp only [rkey, Prod.mk.injEq] at e
  rw [← e.2.2]
  exact h r hr (by rw [e.1]; exact hne) (e.2.1.trans hp)

theorem SuccPropEx.of_setRa {s : St} {r : Rollapp} (h : SuccPropEx r.id s) : SuccPropEx r.id (setRa s r) := by
  intro x hx hne
  rcases mem_setRa' hx with h1 | h1
  · exact h x h1.1 hne
  · subst h1; exact absurd rfl hne

theorem setProposer_ex {s : St} {ra : Nat} {a : Option Addr} (h : SuccPropEx ra s) : SuccPropEx ra (setProposer s ra a) := by
  unfold setProposer
  split
  · exact h
  · rename_i r hg
    have := getRa_id hg
    subst this
    exact SuccPropEx.of_setRa (r := { r with proposer := a }) h

theorem removeFromNoticeQueue_sub (s : St) (q : Seq) : ∀ e ∈ (removeFromNoticeQueue s q).nq, e ∈ s.nq := by
  unfold removeFromNoticeQueue
  split
  · intro e he; exact (List.mem_filter.1 he).1
  · intro e he; exact he

theorem abruptRemoveProposer_ex {s : St} {ra : Nat} (h : SuccPropEx ra s) : SuccPropEx ra (abruptRemoveProposer s ra) := by
  unfold abruptRemoveProposer
  split
  · exact h
  · split
    · exact h
    · split
      · exact h
      · rename_i q _
        apply setProposer_ex
        exact SuccPropEx.of_ras (s := s) h (removeFromNoticeQueue_ras s q)

theorem abruptRemoveProposer_core {s : St} {ra : Nat} (h : RolesCore s) : RolesCore (abruptRemoveProposer s ra) := by
  unfold abruptRemoveProposer
  split
  · exact h
  · rename_i r hg
    split
    · exact h
    · rename_i a hpa
      split
      · exact h
      · rename_i q hq
        have hqa : q.addr = a := getSeq_addr hq
        have hrm := getRa_mem hg
        have hras := removeFromNoticeQueue_ras s q
        have hseqs := (removeFromNoticeQueue_seqs s q).1
        -- the state after the queue removal
        have c1 : RolesCore (removeFromNoticeQueue s q) := by
          apply h.of_sub hras hseqs (removeFromNoticeQueue_sub s q)
          · unfold removeFromNoticeQueue; split <;> rfl
          · unfold removeFromNoticeQueue; split <;> rfl
        have hnone : ∀ t, (t, a) ∉ (removeFromNoticeQueue s q).nq := by
          intro t ht
          have hin := removeFromNoticeQueue_sub s q _ ht
          obtain ⟨q1, _, hq1, hn1, _, _⟩ := h.nq t a hin
          rw [hq] at hq1; injection hq1 with hq1; subst hq1
          unfold removeFromNoticeQueue at ht
          rw [hn1] at ht
          simp only [List.mem_filter] at ht
          simp [hqa] at ht
        have hg1 : getRa (removeFromNoticeQueue s q) ra = some r := by rw [getRa_congr hras]; exact hg
        have hq1 : getSeq (removeFromNoticeQueue s q) a = some q := by rw [getSeq_congr hseqs]; exact hq
        -- write the rollapp record first (the two writes commute)
        unfold setProposer
        show RolesCore (match getRa (removeFromNoticeQueue s q) ra with
          | none => setSeq (removeFromNoticeQueue s q) { q with bonded := false }
          | some r => setRa (setSeq (removeFromNoticeQueue s q) { q with bonded := false }) { r with proposer := none })
        rw [hg1]
        show RolesCore (setSeq (setRa (removeFromNoticeQueue s q) { r with proposer := none }) { q with bonded := false })
        have c2 : RolesCore (setRa (removeFromNoticeQueue s q) { r with proposer := none }) := by
          apply c1.of_setRa (r0 := r) hg1 (by rfl)
          · intro a' ha'; cases ha'
          · intro a' ha'; exact c1.succ r (hras ▸ hrm) a' ha'
          · intro a' ha'; exact c1.succFresh r (hras ▸ hrm) a' ha'
          · intro a' ha'; cases ha'
          · intro t a' hta hp
            rw [hpa] at hp; injection hp with hp; subst hp
            exact absurd hta (hnone t)
        apply c2.of_setSeq (q0 := q) hq1 (by rfl) (by rfl)
        · intro _
          right
          intro x hx
          rcases mem_setRa' hx with ⟨h1, h2⟩ | h1
          · rw [hras] at h1
            have h2' : x.id ≠ r.id := h2
            constructor
            · intro hp
              obtain ⟨q2, hq2, _, hr2⟩ := h.prop x h1 _ hp
              obtain ⟨q3, hq3, _, hr3⟩ := h.prop r hrm a hpa
              rw [hqa, hq] at hq2; injection hq2 with hq2; subst hq2
              rw [hq] at hq3; injection hq3 with hq3; subst hq3
              exact h2' (hr2.symm.trans hr3)
            · intro hp
              obtain ⟨q2, hq2, _, hr2⟩ := h.succ x h1 _ hp
              obtain ⟨q3, hq3, _, hr3⟩ := h.prop r hrm a hpa
              rw [hqa, hq] at hq2; injection hq2 with hq2; subst hq2
              rw [hq] at hq3; injection hq3 with hq3; subst hq3
              exact h2' (hr2.symm.trans hr3)
          · subst h1
            constructor
            · intro hc; cases hc
            · rw [hqa]; exact h.ne r hrm a hpa
        · exact Or.inl rfl
        · exact h.optOut q (getSeq_mem hq)
        · intro t hta
          rw [hqa] at hta
          exact absurd hta (hnone t)

-- ---------------------------------------------------------------- hard fork

theorem setSuccessor_none_roles {s : St} {ra : Nat} (h : RolesCore s) (sp : SuccPropEx ra s) :
    Roles (setSuccessor s ra none) := by
  unfold setSuccessor
  split
  · rename_i hg
    refine ⟨h, ?_⟩
    intro r hr
    by_cases hc : r.id = ra
    · exact absurd hc (getRa_none hg r hr)
    · exact sp r hr hc
  · rename_i r hg
    have hid := getRa_id hg
    constructor
    · apply h.of_setRa (r0 := r) hg (by rfl)
      · intro a ha; exact h.prop r (getRa_mem hg) a ha
      · intro a ha; cases ha
      · intro a ha; cases ha
      · intro a _ hs; cases hs
      · intro t a _ hp; exact hp
    · intro x hx
      rcases mem_setRa' hx with ⟨h1, h2⟩ | h1
      · exact sp x h1 (by rw [← hid]; exact h2)
      · subst h1; intro _; rfl

theorem seqOnHardFork_roles {s : St} {ra : Nat} (h : RolesCore s) (sp : SuccPropEx ra s) :
    Roles (seqOnHardFork s ra) := by
  unfold seqOnHardFork
  apply setSuccessor_none_roles
  · exact abruptRemoveProposer_core (optOutAll_core h ra)
  · apply abruptRemoveProposer_ex
    exact SuccPropEx.of_ras (s := s) sp rfl

theorem hardFork_roles {s s' : St} {ra lv : Nat} (h : RolesCore s) (sp : SuccPropEx ra s)
    (e : hardFork s ra lv = .ok s') : Roles s' := by
  unfold hardFork at e
  split at e
  · cases e
  · rename_i r hg
    split at e
    · cases e
    · split at e
      · cases e
      · split at e
        · cases e
        · rename_i keep kst _
          dsimp only at e
          injection e with e; subst e
          unfold resetClock
          dsimp only
          apply seqOnHardFork_roles
          · exact h.frame (Frame.of_setRa_eq (r0 := r) h.uniq hg (by rfl) (by rfl) (by rfl) (by rfl) (by rfl) (by rfl) (by rfl) (by rfl))
          · exact sp.frame (Frame.of_setRa_eq (r0 := r) h.uniq hg (by rfl) (by rfl) (by rfl) (by rfl) (by rfl) (by rfl) (by rfl) (by rfl))

theorem hardForkToLatest_roles {s s' : St} {ra : Nat} (h : RolesCore s) (sp : SuccPropEx ra s)
    (e : hardForkToLatest s ra = .ok s') : Roles s' := by
  unfold hardForkToLatest at e
  split at e
  · cases e
  · split at e
    · cases e
    · exact hardFork_roles h sp e

end DymVerif.Core.Roles
