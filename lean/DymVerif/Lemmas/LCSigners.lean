/-
  Lemmas/LCSigners — the header-signer records of M-LC (`signerSet`, keeper.headerSigners): who writes them,
  who removes them (only `pruneWhere`, reached from `validateNew` and `rollbackClient`), and the shape of a
  successful `coreOp`.  Helpers of Props/C06LC.
-/
import DymVerif.Lemmas.LCDesig
import DymVerif.Lemmas.CoreCustody4
namespace DymVerif.LC
open DymVerif.Core (Addr NextP)

abbrev Rec := Addr × Nat × Nat

-- ---------------------------------------------------------------- writers

theorem mem_saveSigner (s : St) (c h : Nat) (a : Addr) : (a, c, h) ∈ (saveSigner s c h a).signerSet := by
  unfold saveSigner
  dsimp only
  split
  · rename_i hc; simpa using hc
  · simp

theorem saveSigner_sub (s : St) (c h : Nat) (a : Addr) (t : Rec) (ht : t ∈ s.signerSet) : t ∈ (saveSigner s c h a).signerSet := by
  unfold saveSigner
  dsimp only
  split
  · exact ht
  · exact List.mem_append_left _ ht

/-- `HandleMsgUpdateClient` never removes a signer record -/
theorem handleUpdate_sub (s : St) (c : Nat) (hd : Hdr) (t : Rec) (ht : t ∈ s.signerSet) : t ∈ (handleUpdate s c hd).1.signerSet := by
  unfold handleUpdate
  simp only
  repeat' split
  all_goals first
    | exact ht
    | exact saveSigner_sub _ _ _ _ _ ht

theorem setClient_signerSet (s : St) (cl : Client) : (setClient s cl).signerSet = s.signerSet := rfl

theorem updateClient_sub (s : St) (c : Nat) (w : Wrap) (hd : Hdr) (ibc : Bool) (t : Rec) (ht : t ∈ s.signerSet) :
    t ∈ (updateClient s c w hd ibc).1.signerSet := by
  unfold updateClient
  cases w with
  | nested => exact ht
  | storedProposal => exact ht
  | wrapped => exact ht
  | nestedWrapped => exact ht
  | top =>
    simp only
    have h1 := handleUpdate_sub s c hd t ht
    cases hh : handleUpdate s c hd with
    | mk s1 oe =>
      rw [hh] at h1
      cases oe with
      | some e => exact ht
      | none =>
        simp only
        cases getClient s c with
        | none => exact h1
        | some cl =>
          simp only
          split
          · exact h1
          · exact h1

theorem misbehaviour_signerSet (s : St) (c : Nat) (k : MKind) (ibc : Bool) : (misbehaviour s c k ibc).1.signerSet = s.signerSet := by
  unfold misbehaviour
  cases getClient s c with
  | none => rfl
  | some cl =>
    simp only
    cases k <;> simp only <;> repeat' split
    all_goals rfl

theorem chanAck_signerSet (s : St) (ch : Nat) (w : ChanRoute) (ibc : Bool) : (chanAck s ch w ibc).1.signerSet = s.signerSet := by
  unfold chanAck
  repeat' split
  all_goals rfl

theorem chanInit_signerSet (s : St) (c : Nat) : (chanInit s c).1.signerSet = s.signerSet := by
  unfold chanInit
  repeat' split
  all_goals rfl

theorem setCanonical_signerSet (s : St) (c : Nat) : (setCanonical s c).1.signerSet = s.signerSet := by
  rcases setCanonical_cases s c with ⟨e, _⟩ | ⟨cl, r, _, _, _, _, _, _, e⟩
  · rw [e]
  · rw [e]

-- ---------------------------------------------------------------- the one remover

/-- a record `pruneWhere` removes is a record of that client whose height satisfies the range predicate
    (and the (client, height) map entry named its sequencer) -/
theorem pruneWhere_removed {s : St} {c : Nat} {p : Nat → Bool} {t : Rec} (hin : t ∈ s.signerSet)
    (hout : t ∉ (pruneWhere s c p).signerSet) : t.2.1 = c ∧ p t.2.2 = true ∧ (c, t.2.2, t.1) ∈ s.signerMap := by
  unfold pruneWhere at hout
  dsimp only at hout
  rw [List.mem_filter] at hout
  have hany : (s.signerMap.filter (fun x => x.1 == c && p x.2.1)).any (fun x => x.2.2 == t.1 && x.1 == t.2.1 && x.2.1 == t.2.2) = true := by
    cases hb : (s.signerMap.filter (fun x => x.1 == c && p x.2.1)).any (fun x => x.2.2 == t.1 && x.1 == t.2.1 && x.2.1 == t.2.2) with
    | true => rfl
    | false => exact absurd ⟨hin, by simp [hb]⟩ hout
  obtain ⟨x, hx, hxt⟩ := List.any_eq_true.1 hany
  rw [List.mem_filter] at hx
  obtain ⟨hxm, hxc⟩ := hx
  simp only [Bool.and_eq_true, beq_iff_eq] at hxt hxc
  obtain ⟨⟨e1, e2⟩, e3⟩ := hxt
  obtain ⟨e4, e5⟩ := hxc
  refine ⟨by rw [← e2, e4], by rw [← e3]; exact e5, ?_⟩
  have : x = (c, t.2.2, t.1) := by
    rcases x with ⟨x1, x2, x3⟩
    simp only at e1 e3 e4
    rw [e1, e3, e4]
  rw [← this]; exact hxm

theorem rollbackClient_removed {s : St} {ra lv c : Nat} {cl : Client} {t : Rec} (hin : t ∈ s.signerSet)
    (hout : t ∉ (rollbackClient s ra lv c cl).1.signerSet) : t.2.1 = c ∧ lv - 1 < t.2.2 := by
  unfold rollbackClient at hout
  split at hout
  · exact absurd hin hout
  · dsimp only at hout
    unfold pruneAbove at hout
    have := pruneWhere_removed (s := { (setClient s _) with descs := _ }) (by exact hin) hout
    exact ⟨this.1, by simpa using this.2.1⟩

theorem rollback_removed {s : St} {ra lv : Nat} {t : Rec} (hin : t ∈ s.signerSet)
    (hout : t ∉ (rollback s ra lv).1.signerSet) : lookup s.r2c ra = some t.2.1 ∧ lv - 1 < t.2.2 := by
  unfold rollback at hout
  cases hl : lookup s.r2c ra with
  | none => rw [hl] at hout; exact absurd hin hout
  | some c =>
    simp only [hl] at hout
    cases hcl : getClient s c with
    | none => rw [hcl] at hout; exact absurd hin hout
    | some cl =>
      simp only [hcl] at hout
      have := rollbackClient_removed hin hout
      exact ⟨by rw [this.1], this.2⟩

/-- a record gone after the `OnHardFork` hooks of the forks `l` was removed by the rollback of the client
    designated for one of the forked rollapps, and lies above the fork's last valid height - 1 -/
theorem applyForks_removed : ∀ (l : List (Nat × Nat)) (s : St) (t : Rec), t ∈ s.signerSet → t ∉ (applyForks s l).1.signerSet →
    ∃ ra lv, (ra, lv) ∈ l ∧ lookup s.r2c ra = some t.2.1 ∧ lv - 1 < t.2.2
  | [], s, t, hin, hout => absurd hin hout
  | (ra, lv) :: rest, s, t, hin, hout => by
    unfold applyForks at hout
    cases hr : rollback s ra lv with
    | mk s1 oe =>
      rw [hr] at hout
      cases oe with
      | some e => exact absurd hin hout
      | none =>
        simp only at hout
        have hs1 : (rollback s ra lv).1 = s1 := by rw [hr]
        by_cases h1 : t ∈ s1.signerSet
        · obtain ⟨ra', lv', hm, hl, hlt⟩ := applyForks_removed rest s1 t h1 hout
          have hsh := shape_rollback s ra lv
          rw [hs1] at hsh
          exact ⟨ra', lv', List.mem_cons_of_mem _ hm, by rw [← hsh.r2c]; exact hl, hlt⟩
        · have := rollback_removed (ra := ra) (lv := lv) hin (by rw [hs1]; exact h1)
          exact ⟨ra, lv, List.mem_cons_self, this.1, this.2⟩

theorem resolveFork_signerSet (s : St) (ra : Nat) (st : Core.SInfo) (cl : Client) :
    (resolveFork s ra st cl).1.signerSet = s.signerSet := by
  unfold resolveFork
  repeat' split
  all_goals rfl

/-- a record gone after the x/lightclient `AfterUpdateState` hook was pruned by `validateNew`: the client is the
    one designated for the rollapp, `validateStateInfo` raised no error, the record's height is at or below
    the last height of the new state info -/
theorem afterUpdate_removed {s : St} {ra rev : Nat} {st : Core.SInfo} {t : Rec} (hin : t ∈ s.signerSet)
    (hout : t ∉ (afterUpdate s ra rev st).1.signerSet) :
    lookup s.r2c ra = some t.2.1 ∧ t.2.2 ≤ st.last ∧ ∃ cl, getClient s t.2.1 = some cl ∧ (validateStateInfo s cl ra st).2 = none := by
  unfold afterUpdate at hout
  cases hl : lookup s.r2c ra with
  | none => rw [hl] at hout; exact absurd hin hout
  | some c =>
    simp only [hl] at hout
    cases hcl : getClient s c with
    | none => simp only [hcl] at hout; exact absurd hin hout
    | some cl =>
      cases hr : Core.getRa s.core ra with
      | none => simp only [hcl, hr] at hout; exact absurd hin hout
      | some r =>
        simp only [hcl, hr] at hout
        split at hout
        · rw [resolveFork_signerSet] at hout; exact absurd hin hout
        · unfold validateNew at hout
          cases hv : validateStateInfo s cl ra st with
          | mk m oe =>
            rw [hv] at hout
            cases oe with
            | some e => exact absurd hin hout
            | none =>
              simp only at hout
              unfold pruneBelow at hout
              have := pruneWhere_removed hin hout
              have hlt : t.2.2 < st.last + 1 := by simpa using this.2.1
              refine ⟨by rw [this.1], by omega, cl, by rw [this.1]; exact hcl, by rw [hv]⟩

theorem withDescs_signerSet {s1 s2 : St} {o : Core.Op} {ds : List (Nat × Option Nat)} (h : withDescs s1 o ds = some s2) :
    s2.signerSet = s1.signerSet := by
  unfold withDescs at h
  split at h
  · split at h
    · simp at h
    · simp only [Option.some.injEq] at h; subst h; rfl
  · simp only [Option.some.injEq] at h; subst h; rfl

-- ---------------------------------------------------------------- anatomy of a Core op with hooks

/-- a Core op with hooks is either refused as a whole (nothing changes) or went through every stage -/
theorem coreOp_cases (s : St) (o : Core.Op) (ds : List (Nat × Option Nat)) :
    ((coreOp s o ds).1 = s ∧ (coreOp s o ds).2 ≠ .ok) ∨
    ∃ core1 s2 s3, Core.step s.core o = (core1, none) ∧ coreBlocked s o = false ∧
      withDescs { s with core := core1 } o ds = some s2 ∧ applyForks s2 (newForks s.core core1) = (s3, none) ∧
      (coreOp s o ds).2 = .ok ∧
      ((∃ m r st s4, o = .update m ∧ Core.getRa s3.core m.ra = some r ∧ r.states.getLast? = some st ∧
          afterUpdate s3 m.ra m.rev st = (s4, none) ∧ (coreOp s o ds).1 = s4) ∨
       ((∀ m, o ≠ .update m) ∧ (coreOp s o ds).1 = s3)) := by
  cases hstep : Core.step s.core o with
  | mk core1 oe =>
    cases oe with
    | some e =>
      have e1 : coreOp s o ds = (s, .msg (.core e)) := by simp [coreOp, hstep]
      rw [e1]; exact Or.inl ⟨rfl, by simp⟩
    | none =>
      cases hb : coreBlocked s o with
      | true =>
        have e1 : coreOp s o ds = (s, .msg .unbondBlocked) := by simp [coreOp, hstep, hb]
        rw [e1]; exact Or.inl ⟨rfl, by simp⟩
      | false =>
        cases hw : withDescs { s with core := core1 } o ds with
        | none =>
          have e1 : coreOp s o ds = (s, .msg .staleDesc) := by simp [coreOp, hstep, hb, hw]
          rw [e1]; exact Or.inl ⟨rfl, by simp⟩
        | some s2 =>
          cases hf : applyForks s2 (newForks s.core core1) with
          | mk s3 oe =>
            cases oe with
            | some e =>
              have e1 : coreOp s o ds = (s, .msg e) := by simp [coreOp, hstep, hb, hw, hf]
              rw [e1]; exact Or.inl ⟨rfl, by simp⟩
            | none =>
              by_cases hu : ∃ m, o = .update m
              · obtain ⟨m, hu⟩ := hu
                subst hu
                have e0 : coreOp s (.update m) ds = finishUpdate s s3 m ds := by simp [coreOp, hstep, hb, hw, hf]
                rw [e0]
                cases hr : Core.getRa s3.core m.ra with
                | none =>
                  have e1 : finishUpdate s s3 m ds = (s, .msg .internal) := by simp [finishUpdate, hr]
                  rw [e1]; exact Or.inl ⟨rfl, by simp⟩
                | some r =>
                  cases hl : r.states.getLast? with
                  | none =>
                    have e1 : finishUpdate s s3 m ds = (s, .msg .internal) := by simp [finishUpdate, hr, hl]
                    rw [e1]; exact Or.inl ⟨rfl, by simp⟩
                  | some st =>
                    by_cases hg : (st.start != m.start || st.last + 1 - st.start != ds.length) = true
                    · have e1 : finishUpdate s s3 m ds = (s, .msg .internal) := by
                        unfold finishUpdate; simp only [hr, hl]; rw [if_pos hg]
                      rw [e1]; exact Or.inl ⟨rfl, by simp⟩
                    · cases ha : afterUpdate s3 m.ra m.rev st with
                      | mk s4 oe =>
                        cases oe with
                        | some e =>
                          have e1 : finishUpdate s s3 m ds = (s, .msg e) := by
                            unfold finishUpdate; simp only [hr, hl]; rw [if_neg hg, ha]
                          rw [e1]; exact Or.inl ⟨rfl, by simp⟩
                        | none =>
                          have e1 : finishUpdate s s3 m ds = (s4, .ok) := by
                            unfold finishUpdate; simp only [hr, hl]; rw [if_neg hg, ha]
                          rw [e1]
                          exact Or.inr ⟨core1, s2, s3, rfl, rfl, hw, hf, rfl, Or.inl ⟨m, r, st, s4, rfl, hr, hl, ha, rfl⟩⟩
              · have e1 : coreOp s o ds = (s3, .ok) := by
                  cases o with
                  | update m => exact absurd ⟨m, rfl⟩ hu
                  | _ => simp [coreOp, hstep, hb, hw, hf]
                rw [e1]
                exact Or.inr ⟨core1, s2, s3, rfl, rfl, hw, hf, rfl, Or.inr ⟨fun m hm => hu ⟨m, hm⟩, rfl⟩⟩

/-- **removal through a Core op**: a record present before and absent after a Core op with hooks -/
theorem coreOp_removed {s : St} {o : Core.Op} {ds : List (Nat × Option Nat)} {t : Rec} (hin : t ∈ s.signerSet)
    (hout : t ∉ (coreOp s o ds).1.signerSet) :
    (coreOp s o ds).2 = .ok ∧
    ((∃ m r st, o = .update m ∧ lookup s.r2c m.ra = some t.2.1 ∧ Core.getRa (coreOp s o ds).1.core m.ra = some r ∧
        r.states.getLast? = some st ∧ t.2.2 ≤ st.last ∧
        ∃ s3 cl, s3.core = (coreOp s o ds).1.core ∧ getClient s3 t.2.1 = some cl ∧ (validateStateInfo s3 cl m.ra st).2 = none) ∨
     (∃ ra lv, (ra, lv) ∈ newForks s.core (coreOp s o ds).1.core ∧ lookup s.r2c ra = some t.2.1 ∧ lv - 1 < t.2.2)) := by
  rcases coreOp_cases s o ds with ⟨e, _⟩ | ⟨core1, s2, s3, hstep, _, hw, hf, hok, hfin⟩
  · rw [e] at hout; exact absurd hin hout
  · refine ⟨hok, ?_⟩
    have hs2 : s2.signerSet = s.signerSet := withDescs_signerSet (s1 := { s with core := core1 }) hw
    have hr2 : s2.r2c = s.r2c := (shape_withDescs (s1 := { s with core := core1 }) hw).r2c
    have hc2 : s2.core = core1 := withDescs_core hw
    have hs3 : (applyForks s2 (newForks s.core core1)).1 = s3 := by rw [hf]
    have hc3 : s3.core = core1 := by
      have := applyForks_core (newForks s.core core1) s2
      rw [hs3] at this; exact this.trans hc2
    have hr3 : s3.r2c = s.r2c := by
      have := (shape_applyForks (newForks s.core core1) s2).r2c
      rw [hs3] at this; exact this.trans hr2
    -- removed by the fork hooks?
    have forkCase : t ∉ s3.signerSet → ∃ ra lv, (ra, lv) ∈ newForks s.core core1 ∧ lookup s.r2c ra = some t.2.1 ∧ lv - 1 < t.2.2 := by
      intro h3
      obtain ⟨ra, lv, hm, hl, hlt⟩ := applyForks_removed (newForks s.core core1) s2 t (by rw [hs2]; exact hin) (by rw [hs3]; exact h3)
      exact ⟨ra, lv, hm, by rw [← hr2]; exact hl, hlt⟩
    rcases hfin with ⟨m, r, st, s4, ho, hr, hl, ha, he⟩ | ⟨_, he⟩
    · have hc4 : s4.core = core1 := by
        have := afterUpdate_core s3 m.ra m.rev st
        rw [ha] at this; exact this.trans hc3
      rw [he] at hout ⊢
      rw [hc4]
      by_cases h3 : t ∈ s3.signerSet
      · left
        have hs4 : (afterUpdate s3 m.ra m.rev st).1 = s4 := by rw [ha]
        obtain ⟨hlk, hle, cl, hcl, hv⟩ := afterUpdate_removed (ra := m.ra) (rev := m.rev) (st := st) h3 (by rw [hs4]; exact hout)
        exact ⟨m, r, st, ho, by rw [← hr3]; exact hlk, by rw [← hc3]; exact hr, hl, hle, s3, cl, hc3, hcl, hv⟩
      · exact Or.inr (forkCase h3)
    · rw [he] at hout ⊢
      rw [hc3]
      exact Or.inr (forkCase hout)

-- ---------------------------------------------------------------- the Core side of a withdrawal

/-- `MsgDecreaseBond` of the proposer is refused by x/sequencer itself -/
theorem decreaseBond_not_proposer {s s' : Core.St} {a : Addr} {amt : Nat} {q : Core.Seq}
    (e : Core.decreaseBond s a amt = .ok s') (hq : Core.getSeq s a = some q) : Core.isProposer s q = false := by
  unfold Core.decreaseBond at e
  rw [hq] at e
  simp only at e
  split at e
  · cases e
  · cases ht : Core.tryUnbond s q amt with
    | error x => rw [ht] at e; cases e
    | ok r =>
      unfold Core.tryUnbond at ht
      split at ht
      · cases ht
      · rename_i h1
        simp only [Bool.or_eq_true, not_or, Bool.not_eq_true] at h1
        exact h1.1

/-- `MsgUnbond` of the proposer only starts its notice period: no money moves, the bond stays -/
theorem unbond_proposer {s s' : Core.St} {a : Addr} {q : Core.Seq} (e : Core.unbond s a = .ok s')
    (hq : Core.getSeq s a = some q) (hp : Core.isProposer s q = true) :
    s'.bal = s.bal ∧ s'.modBal = s.modBal ∧ s'.burned = s.burned ∧
    ∃ q', Core.getSeq s' a = some q' ∧ q'.tokens = q.tokens ∧ q'.rollapp = q.rollapp := by
  unfold Core.unbond at e
  rw [hq] at e
  simp only at e
  cases hr : Core.getRa s q.rollapp with
  | none => rw [hr] at e; cases e
  | some r =>
    rw [hr] at e
    simp only at e
    by_cases h1 : (Core.awaitingLast s r && (Core.isProposer s q || Core.isSuccessor s q)) = true
    · rw [if_pos h1] at e; cases e
    · rw [if_neg h1, if_pos hp] at e
      by_cases h2 : (!Core.forkLatestAllowed r) = true
      · rw [if_pos h2] at e; cases e
      · rw [if_neg h2] at e
        by_cases h3 : Core.noticeInProgress q s.t = true
        · rw [if_pos h3] at e; cases e
        · rw [if_neg h3] at e
          injection e with e; subst e
          have hqa : q.addr = a := Core.getSeq_addr hq
          refine ⟨rfl, rfl, rfl, { q with optedIn := false, notice := some (s.t + s.sqp.noticePeriod) }, ?_, rfl, rfl⟩
          have hg0 : Core.getSeq { s with nq := Core.insertSorted Core.ltPair (s.t + s.sqp.noticePeriod, a) s.nq } q.addr = some q := by
            rw [hqa]; exact hq
          have := Core.getSeq_setSeq_self (q := { q with optedIn := false, notice := some (s.t + s.sqp.noticePeriod) }) hg0
          rw [← hqa]; exact this

end DymVerif.LC
