/-
  Lemmas/GenEqSkGBX — tie 1 for C10 (M-GB, Model/GB.lean): the normalised statement listing (translate/skel.go `listing`:
  every `if` / `for` / `switch` header, call, assignment and `return` in source order; comments, logging,
  events and error-message texts dropped) of EVERY function with a body in the files the property is
  anchored in, regenerated from /repo's working tree on every run (Gen/SkGBX.lean), equals the listing
  the model was written and validated against.  A dropped or weakened guard, a reordered effect, a
  changed operand, a new early return, a new or vanished function breaks the corresponding lemma; the
  check then searches for a failing input with the harness' monitors (DESIGN.md §12.2).
-/
import DymVerif.Gen.SkGBX
namespace DymVerif.GenEqSk.GBX

/-- `Keeper.CheckAndUpdateRollappFields` -/
theorem ra_Keeper_CheckAndUpdateRollappFields_listing : Gen.SkGBX.ra_Keeper_CheckAndUpdateRollappFields =
  ["func (k Keeper) CheckAndUpdateRollappFields(ctx sdk.Context, update *types.MsgUpdateRollappInformation) (types.Rollapp, error)",
   "  current, found := k.GetRollapp(ctx, update.RollappId)",
   "  if !found",
   "    return current, types.ErrRollappNotFound",
   "  if update.Owner != current.Owner",
   "    return current, sdkerrors.ErrUnauthorized",
   "  if update.UpdatingImmutableValues() && current.Launched",
   "    return current, types.ErrImmutableFieldUpdateAfterLaunched",
   "  if update.UpdatingGenesisInfo() && current.GenesisInfo.Sealed",
   "    return current, types.ErrGenesisInfoSealed",
   "  if update.InitialSequencer != \"\"",
   "    current.InitialSequencer = update.InitialSequencer",
   "  if types.IsUpdateMinSeqBond(update.MinSequencerBond)",
   "    minSeqBond := *update.MinSequencerBond",
   "    err := k.validMinBond(ctx, minSeqBond)",
   "    if err != nil",
   "      return current, err",
   "    current.MinSequencerBond = sdk.NewCoins(minSeqBond)",
   "  if update.GenesisInfo != nil",
   "    current.GenesisInfo = *update.GenesisInfo",
   "    if update.GenesisInfo.InitialSupply.IsZero()",
   "      current.GenesisInfo.NativeDenom = types.DenomMetadata{}",
   "  if update.Metadata != nil && !update.Metadata.IsEmpty()",
   "    current.Metadata = update.Metadata",
   "  err := current.ValidateBasic()",
   "  if err != nil",
   "    return current, fmt.Errorf(err)",
   "  return current, nil"] := rfl

/-- `Keeper.CheckIfRollappExists` -/
theorem ra_Keeper_CheckIfRollappExists_listing : Gen.SkGBX.ra_Keeper_CheckIfRollappExists =
  ["func (k Keeper) CheckIfRollappExists(ctx sdk.Context, rollappId types.ChainID) error",
   "  _, isFound := k.GetRollapp(ctx, rollappId.GetChainID())",
   "  if isFound",
   "    return types.ErrRollappExists",
   "  _, isFound := k.GetRollappByEIP155(ctx, rollappId.GetEIP155ID())",
   "  if isFound",
   "    return types.ErrRollappExists",
   "  _, isFound := k.GetRollappByName(ctx, rollappId.GetName())",
   "  if isFound",
   "    return types.ErrRollappExists",
   "  return nil"] := rfl

/-- `Keeper.FilterRollapps` -/
theorem ra_Keeper_FilterRollapps_listing : Gen.SkGBX.ra_Keeper_FilterRollapps =
  ["func (k Keeper) FilterRollapps(ctx sdk.Context, f func(types.Rollapp) bool) []types.Rollapp",
   "  store := prefix.NewStore(ctx.KVStore(k.storeKey), types.KeyPrefix(types.RollappKeyPrefix))",
   "  iterator := storetypes.KVStorePrefixIterator(store, []byte{})",
   "  defer iterator.Close()",
   "  var result []types.Rollapp",
   "  for ; iterator.Valid(); iterator.Next()",
   "    var val types.Rollapp",
   "    k.cdc.MustUnmarshal(iterator.Value(), &val)",
   "    if f(val)",
   "      result = append(result, val)",
   "  return result"] := rfl

/-- `Keeper.GetAllObsoleteDRSVersions` -/
theorem ra_Keeper_GetAllObsoleteDRSVersions_listing : Gen.SkGBX.ra_Keeper_GetAllObsoleteDRSVersions =
  ["func (k Keeper) GetAllObsoleteDRSVersions(ctx sdk.Context) ([]uint32, error)",
   "  iter, err := k.obsoleteDRSVersions.Iterate(ctx, nil)",
   "  if err != nil",
   "    return nil, err",
   "  return iter.Keys()"] := rfl

/-- `Keeper.GetAllRollapps` -/
theorem ra_Keeper_GetAllRollapps_listing : Gen.SkGBX.ra_Keeper_GetAllRollapps =
  ["func (k Keeper) GetAllRollapps(ctx sdk.Context) []types.Rollapp",
   "  return k.FilterRollapps(ctx, func#1)",
   "    func#1 (rollapp types.Rollapp) bool",
   "      return true"] := rfl

/-- `Keeper.GetRollapp` -/
theorem ra_Keeper_GetRollapp_listing : Gen.SkGBX.ra_Keeper_GetRollapp =
  ["func (k Keeper) GetRollapp(ctx sdk.Context, rollappId string) (val types.Rollapp, found bool)",
   "  store := prefix.NewStore(ctx.KVStore(k.storeKey), types.KeyPrefix(types.RollappKeyPrefix))",
   "  b := store.Get(types.RollappKey(rollappId))",
   "  if b == nil",
   "    return val, false",
   "  k.cdc.MustUnmarshal(b, &val)",
   "  return val, true"] := rfl

/-- `Keeper.GetRollappByDenom` -/
theorem ra_Keeper_GetRollappByDenom_listing : Gen.SkGBX.ra_Keeper_GetRollappByDenom =
  ["func (k Keeper) GetRollappByDenom(ctx sdk.Context, denom string) (*types.Rollapp, error)",
   "  rollappID, ok := irotypes.RollappIDFromIRODenom(denom)",
   "  if ok",
   "    ra, ok := k.GetRollapp(ctx, rollappID)",
   "    if ok",
   "      return &ra, nil",
   "    return nil, types.ErrUnknownRollappID",
   "  hexHash, ok := udenom.ValidateIBCDenom(denom)",
   "  if !ok",
   "    return nil, errors.New(\"denom is neither IRO nor IBC\")",
   "  hash, err := transferTypes.ParseHexHash(hexHash)",
   "  if err != nil",
   "    return nil, fmt.Errorf(err)",
   "  trace, ok := k.transferKeeper.GetDenomTrace(ctx, hash)",
   "  if !ok",
   "    return nil, errors.New(\"denom trace not found\")",
   "  sourcePort, sourceChan, ok := udenom.SourcePortChanFromTracePath(trace.Path)",
   "  if !ok",
   "    return nil, errors.New(\"invalid denom trace path\")",
   "  return k.GetRollappByPortChan(ctx, sourcePort, sourceChan)"] := rfl

/-- `Keeper.GetRollappByEIP155` -/
theorem ra_Keeper_GetRollappByEIP155_listing : Gen.SkGBX.ra_Keeper_GetRollappByEIP155 =
  ["func (k Keeper) GetRollappByEIP155(ctx sdk.Context, eip155 uint64) (val types.Rollapp, found bool)",
   "  store := prefix.NewStore(ctx.KVStore(k.storeKey), types.KeyPrefix(types.RollappByEIP155KeyPrefix))",
   "  id := store.Get(types.RollappByEIP155Key(eip155))",
   "  if id == nil",
   "    return val, false",
   "  return k.GetRollapp(ctx, string(id))"] := rfl

/-- `Keeper.GetRollappByName` -/
theorem ra_Keeper_GetRollappByName_listing : Gen.SkGBX.ra_Keeper_GetRollappByName =
  ["func (k Keeper) GetRollappByName(ctx sdk.Context, name string) (val types.Rollapp, found bool)",
   "  name = name + \"_\"",
   "  store := prefix.NewStore(ctx.KVStore(k.storeKey), types.KeyPrefix(types.RollappKeyPrefix))",
   "  iterator := storetypes.KVStorePrefixIterator(store, []byte(name))",
   "  defer iterator.Close()",
   "  if !iterator.Valid()",
   "    return val, false",
   "  k.cdc.MustUnmarshal(iterator.Value(), &val)",
   "  return val, true"] := rfl

/-- `Keeper.GetRollappOwnerByDenom` -/
theorem ra_Keeper_GetRollappOwnerByDenom_listing : Gen.SkGBX.ra_Keeper_GetRollappOwnerByDenom =
  ["func (k Keeper) GetRollappOwnerByDenom(ctx sdk.Context, denom string) (sdk.AccAddress, error)",
   "  ra, err := k.GetRollappByDenom(ctx, denom)",
   "  if err != nil",
   "    return nil, fmt.Errorf(err)",
   "  owner, err := sdk.AccAddressFromBech32(ra.Owner)",
   "  if err != nil",
   "    return nil, fmt.Errorf(err)",
   "  return owner, nil"] := rfl

/-- `Keeper.IsDRSVersionObsolete` -/
theorem ra_Keeper_IsDRSVersionObsolete_listing : Gen.SkGBX.ra_Keeper_IsDRSVersionObsolete =
  ["func (k Keeper) IsDRSVersionObsolete(ctx sdk.Context, version uint32) bool",
   "  ok, err := k.obsoleteDRSVersions.Has(ctx, version)",
   "  if err != nil",
   "    panic()",
   "  return ok"] := rfl

/-- `Keeper.IsRollappStarted` -/
theorem ra_Keeper_IsRollappStarted_listing : Gen.SkGBX.ra_Keeper_IsRollappStarted =
  ["func (k Keeper) IsRollappStarted(ctx sdk.Context, rollappId string) bool",
   "  _, found := k.GetLatestStateInfoIndex(ctx, rollappId)",
   "  return found"] := rfl

/-- `Keeper.MustGetRollapp` -/
theorem ra_Keeper_MustGetRollapp_listing : Gen.SkGBX.ra_Keeper_MustGetRollapp =
  ["func (k Keeper) MustGetRollapp(ctx sdk.Context, rollappId string) types.Rollapp",
   "  ret, found := k.GetRollapp(ctx, rollappId)",
   "  if !found",
   "    panic()",
   "  return ret"] := rfl

/-- `Keeper.MustGetRollappOwner` -/
theorem ra_Keeper_MustGetRollappOwner_listing : Gen.SkGBX.ra_Keeper_MustGetRollappOwner =
  ["func (k Keeper) MustGetRollappOwner(ctx sdk.Context, rollappID string) sdk.AccAddress",
   "  ra := k.MustGetRollapp(ctx, rollappID)",
   "  return sdk.MustAccAddressFromBech32(ra.Owner)"] := rfl

/-- `Keeper.RemoveRollapp` -/
theorem ra_Keeper_RemoveRollapp_listing : Gen.SkGBX.ra_Keeper_RemoveRollapp =
  ["func (k Keeper) RemoveRollapp(ctx sdk.Context, rollappId string)",
   "  store := prefix.NewStore(ctx.KVStore(k.storeKey), types.KeyPrefix(types.RollappKeyPrefix))",
   "  store.Delete(types.RollappKey(rollappId))"] := rfl

/-- `Keeper.SetIROPlanToRollapp` -/
theorem ra_Keeper_SetIROPlanToRollapp_listing : Gen.SkGBX.ra_Keeper_SetIROPlanToRollapp =
  ["func (k Keeper) SetIROPlanToRollapp(ctx sdk.Context, rollapp *types.Rollapp, plan irotypes.Plan) error",
   "  if rollapp.Launched",
   "    return gerrc.ErrFailedPrecondition",
   "  if rollapp.GenesisInfo.Sealed",
   "    return gerrc.ErrFailedPrecondition",
   "  if !rollapp.GenesisInfo.IROReady()",
   "    return gerrc.ErrFailedPrecondition",
   "  rollapp.GenesisInfo.Sealed = true",
   "  preLaunchTime := plan.PreLaunchTime",
   "  if !plan.TradingEnabled",
   "    preLaunchTime = ctx.BlockTime().Add(time.Hour * 24 * 365 * 10)",
   "  rollapp.PreLaunchTime = &preLaunchTime",
   "  k.SetRollapp(ctx, *rollapp)",
   "  return nil"] := rfl

/-- `Keeper.SetObsoleteDRSVersion` -/
theorem ra_Keeper_SetObsoleteDRSVersion_listing : Gen.SkGBX.ra_Keeper_SetObsoleteDRSVersion =
  ["func (k Keeper) SetObsoleteDRSVersion(ctx sdk.Context, version uint32) error",
   "  return k.obsoleteDRSVersions.Set(ctx, version)"] := rfl

/-- `Keeper.SetPreLaunchTime` -/
theorem ra_Keeper_SetPreLaunchTime_listing : Gen.SkGBX.ra_Keeper_SetPreLaunchTime =
  ["func (k Keeper) SetPreLaunchTime(ctx sdk.Context, rollapp *types.Rollapp, preLaunchTime time.Time)",
   "  rollapp.PreLaunchTime = &preLaunchTime",
   "  k.SetRollapp(ctx, *rollapp)"] := rfl

/-- `Keeper.SetRollapp` -/
theorem ra_Keeper_SetRollapp_listing : Gen.SkGBX.ra_Keeper_SetRollapp =
  ["func (k Keeper) SetRollapp(ctx sdk.Context, rollapp types.Rollapp)",
   "  store := prefix.NewStore(ctx.KVStore(k.storeKey), types.KeyPrefix(types.RollappKeyPrefix))",
   "  b := k.cdc.MustMarshal(&rollapp)",
   "  store.Set(types.RollappKey(rollapp.RollappId), b)",
   "  rollappID := types.MustNewChainID(rollapp.RollappId)",
   "  store = prefix.NewStore(ctx.KVStore(k.storeKey), types.KeyPrefix(types.RollappByEIP155KeyPrefix))",
   "  store.Set(types.RollappByEIP155Key(rollappID.GetEIP155ID()), []byte(rollapp.RollappId))"] := rfl

/-- `Keeper.SetRollappAsLaunched` -/
theorem ra_Keeper_SetRollappAsLaunched_listing : Gen.SkGBX.ra_Keeper_SetRollappAsLaunched =
  ["func (k Keeper) SetRollappAsLaunched(ctx sdk.Context, rollapp *types.Rollapp) error",
   "  if !rollapp.AllImmutableFieldsAreSet()",
   "    return gerrc.ErrFailedPrecondition",
   "  rollapp.GenesisInfo.Sealed = true",
   "  rollapp.Launched = true",
   "  k.SetRollapp(ctx, *rollapp)",
   "  return nil"] := rfl

/-- `Keeper.CreateDenomMetadata` -/
theorem dm_Keeper_CreateDenomMetadata_listing : Gen.SkGBX.dm_Keeper_CreateDenomMetadata =
  ["func (k *Keeper) CreateDenomMetadata(ctx sdk.Context, metadata banktypes.Metadata) error",
   "  found := k.HasDenomMetadata(ctx, metadata.Base)",
   "  if found",
   "    return gerrc.ErrAlreadyExists",
   "  k.bankKeeper.SetDenomMetaData(ctx, metadata)",
   "  err := k.hooks.AfterDenomMetadataCreation(ctx, metadata)",
   "  if err != nil",
   "    return err",
   "  return nil"] := rfl

/-- `Keeper.GetHooks` -/
theorem dm_Keeper_GetHooks_listing : Gen.SkGBX.dm_Keeper_GetHooks =
  ["func (k *Keeper) GetHooks() types.MultiDenomMetadataHooks",
   "  return k.hooks"] := rfl

/-- `Keeper.HasDenomMetadata` -/
theorem dm_Keeper_HasDenomMetadata_listing : Gen.SkGBX.dm_Keeper_HasDenomMetadata =
  ["func (k *Keeper) HasDenomMetadata(ctx sdk.Context, base string) bool",
   "  _, found := k.bankKeeper.GetDenomMetaData(ctx, base)",
   "  return found"] := rfl

/-- `Keeper.Logger` -/
theorem dm_Keeper_Logger_listing : Gen.SkGBX.dm_Keeper_Logger =
  ["func (k *Keeper) Logger(ctx sdk.Context) log.Logger",
   "  return <noise>"] := rfl

/-- `Keeper.RollappHooks` -/
theorem dm_Keeper_RollappHooks_listing : Gen.SkGBX.dm_Keeper_RollappHooks =
  ["func (k Keeper) RollappHooks() rollapptypes.RollappHooks",
   "  return rollappHook{k: k}"] := rfl

/-- `Keeper.SetHooks` -/
theorem dm_Keeper_SetHooks_listing : Gen.SkGBX.dm_Keeper_SetHooks =
  ["func (k *Keeper) SetHooks(sh types.MultiDenomMetadataHooks)",
   "  k.hooks = sh"] := rfl

/-- `Keeper.UpdateDenomMetadata` -/
theorem dm_Keeper_UpdateDenomMetadata_listing : Gen.SkGBX.dm_Keeper_UpdateDenomMetadata =
  ["func (k *Keeper) UpdateDenomMetadata(ctx sdk.Context, metadata banktypes.Metadata) error",
   "  found := k.HasDenomMetadata(ctx, metadata.Base)",
   "  if !found",
   "    return gerrc.ErrNotFound",
   "  k.bankKeeper.SetDenomMetaData(ctx, metadata)",
   "  err := k.hooks.AfterDenomMetadataUpdate(ctx, metadata)",
   "  if err != nil",
   "    return err",
   "  return nil"] := rfl

/-- `NewKeeper` -/
theorem dm_NewKeeper_listing : Gen.SkGBX.dm_NewKeeper =
  ["func NewKeeper(bankKeeper types.BankKeeper, rk types.RollappKeeper) *Keeper",
   "  return &Keeper{bankKeeper: bankKeeper, rk: rk, hooks: nil}"] := rfl

/-- `rollappHook.OnHardFork` -/
theorem dm_rollappHook_OnHardFork_listing : Gen.SkGBX.dm_rollappHook_OnHardFork =
  ["func (hook rollappHook) OnHardFork(ctx sdk.Context, rollappID string, _ uint64) error",
   "  return hook.k.rk.ClearRegisteredDenoms(ctx, rollappID)"] := rfl

/-- `every function with a body in the listed files, sorted per package` -/
theorem inventory_listing : Gen.SkGBX.inventory =
  ["ra_Keeper_CheckAndUpdateRollappFields",
   "ra_Keeper_CheckIfRollappExists",
   "ra_Keeper_FilterRollapps",
   "ra_Keeper_GetAllObsoleteDRSVersions",
   "ra_Keeper_GetAllRollapps",
   "ra_Keeper_GetRollapp",
   "ra_Keeper_GetRollappByDenom",
   "ra_Keeper_GetRollappByEIP155",
   "ra_Keeper_GetRollappByName",
   "ra_Keeper_GetRollappOwnerByDenom",
   "ra_Keeper_IsDRSVersionObsolete",
   "ra_Keeper_IsRollappStarted",
   "ra_Keeper_MustGetRollapp",
   "ra_Keeper_MustGetRollappOwner",
   "ra_Keeper_RemoveRollapp",
   "ra_Keeper_SetIROPlanToRollapp",
   "ra_Keeper_SetObsoleteDRSVersion",
   "ra_Keeper_SetPreLaunchTime",
   "ra_Keeper_SetRollapp",
   "ra_Keeper_SetRollappAsLaunched",
   "dm_Keeper_CreateDenomMetadata",
   "dm_Keeper_GetHooks",
   "dm_Keeper_HasDenomMetadata",
   "dm_Keeper_Logger",
   "dm_Keeper_RollappHooks",
   "dm_Keeper_SetHooks",
   "dm_Keeper_UpdateDenomMetadata",
   "dm_NewKeeper",
   "dm_rollappHook_OnHardFork"] := rfl

end DymVerif.GenEqSk.GBX
