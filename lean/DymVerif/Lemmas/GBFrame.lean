/-
  Lemmas/GBFrame — frame and monotonicity of M-GB: what one op can do to the bridge part of a rollapp
  record (proof height, credited balances, metadata flag, handshake counter, canonical channel), to the
  channel table, and the total of the credited balances.
-/
import DymVerif.Lemmas.GBInv
namespace DymVerif.GB

/-- the bridge part of a rollapp record -/
def Ra.bridge (ra : Ra) : Nat × List (Nat × Int) × Bool × Nat := (ra.tph, ra.bal, ra.md, ra.nOpen)

/-- `op` is the packet that completes the handshake of `r`: a receive on the recorded canonical channel
    of `r` while its bridge is closed, answered with a success acknowledgement; `ra'` is what the
    handshake writes -/
def Opening (s : St) (op : Op) (r : Nat) (ra ra' : Ra) : Prop :=
  ∃ c ph p c', op = .recv c ph p ∧ s.chans.find? (·.1 == c) = some (c', ChanKind.canon r) ∧ ra.tph = 0 ∧
    (handshake ra ph p).2 = .ok ∧ (step s op).2 = .ok ∧ ra' = (handshake ra ph p).1

/-- what a step may do to the record of `r` -/
def Frame (s : St) (op : Op) (r : Nat) (ra ra' : Ra) : Prop :=
  (ra'.bridge = ra.bridge ∨ Opening s op r ra ra' ∨
    (op = .premd r ∧ ra.md = false ∧ ra'.tph = ra.tph ∧ ra'.bal = ra.bal ∧ ra'.nOpen = ra.nOpen ∧ ra'.md = true)) ∧ (ra'.chan = ra.chan ∨ (ra.chan = none ∧ ∃ via, op = .chopen r via) ∨ op = .link r) ∧
  ra'.id = ra.id

theorem handshake_chan (ra : Ra) (ph : Nat) (p : Pkt) : (handshake ra ph p).1.chan = ra.chan ∧ (handshake ra ph p).1.id = ra.id := by
  rcases handshake_cases ra ph p with ⟨h1, _⟩ | ⟨_, _, _, _, _, _, h2, _⟩
  · rw [h1]; exact ⟨rfl, rfl⟩
  · rw [h2]; exact ⟨rfl, rfl⟩

/-- **frame** — one op leaves the bridge part of every rollapp record as it is, unless it is the packet
    that completes the handshake of that rollapp; the recorded canonical channel is written once -/
theorem step_frame (s : St) (op : Op) (r : Nat) (ra : Ra) (hg : getRa s r = some ra) :
    ∃ ra', getRa (step s op).1 r = some ra' ∧ Frame s op r ra ra' := by
  have hrid : ra.id = r := (getRa_mem hg).2
  have keep : ∃ ra', getRa s r = some ra' ∧ Frame s op r ra ra' := ⟨ra, hg, Or.inl rfl, Or.inl rfl, rfl⟩
  have upd : ∀ (r0 : Nat) (ra0 x : Ra), getRa s r0 = some ra0 → x.id = ra0.id →
      (r0 = r → ra0 = ra → Frame s op r ra x) →
      ∃ ra', getRa (setRa s x) r = some ra' ∧ Frame s op r ra ra' := by
    intro r0 ra0 x h0 hx hq
    have hid0 : ra0.id = r0 := (getRa_mem h0).2
    by_cases hr : r = r0
    · subst hr
      have h00 : ra0 = ra := by rw [hg] at h0; cases h0; rfl
      refine ⟨x, ?_, hq rfl h00⟩
      have := getRa_setRa_self (s := s) (x := x) (ra := ra0) (by rw [hx, hid0]; exact h0)
      rw [hx, hid0] at this
      exact this
    · refine ⟨ra, ?_, Or.inl rfl, Or.inl rfl, rfl⟩
      rw [getRa_setRa_ne s x (by rw [hx, hid0]; exact hr)]
      exact hg
  have app : ∀ x : Ra, ∃ ra', getRa { s with ras := s.ras ++ [x] } r = some ra' ∧ Frame s op r ra ra' := by
    intro x
    refine ⟨ra, ?_, Or.inl rfl, Or.inl rfl, rfl⟩
    unfold getRa at hg ⊢
    simp only [List.find?_append, hg, Option.some_or]
  cases op with
  | create r0 g =>
    simp only [step, stepCreate]
    repeat' split
    all_goals first
      | exact keep
      | exact app _
  | setgi r0 owner g =>
    simp only [step, stepSetgi]
    cases hr0 : getRa s r0 with
    | none => exact keep
    | some ra0 =>
      simp only
      repeat' split
      all_goals first
        | exact keep
        | (refine upd r0 ra0 _ hr0 rfl ?_
           intro _ h00; subst h00
           exact ⟨Or.inl rfl, Or.inl rfl, rfl⟩)
  | force r0 gov g =>
    simp only [step, stepForce]
    cases hr0 : getRa s r0 with
    | none => exact keep
    | some ra0 =>
      simp only
      repeat' split
      all_goals first
        | exact keep
        | (refine upd r0 ra0 _ hr0 rfl ?_
           intro _ h00; subst h00
           exact ⟨Or.inl rfl, Or.inl rfl, rfl⟩)
  | plan r0 owner alloc dur te start =>
    simp only [step, stepPlan]
    split
    · exact keep
    cases hr0 : getRa s r0 with
    | none => exact keep
    | some ra0 =>
      simp only
      repeat' split
      all_goals first
        | exact keep
        | (refine upd r0 ra0 _ hr0 rfl ?_
           intro _ h00; subst h00
           exact ⟨Or.inl rfl, Or.inl rfl, rfl⟩)
  | enable r0 owner =>
    simp only [step, stepEnable]
    cases hr0 : getRa s r0 with
    | none => exact keep
    | some ra0 =>
      simp only
      repeat' split
      all_goals first
        | exact keep
        | (refine upd r0 ra0 _ hr0 rfl ?_
           intro _ h00; subst h00
           exact ⟨Or.inl rfl, Or.inl rfl, rfl⟩)
  | tick dt => exact keep
  | seq r0 =>
    simp only [step, stepSeq]
    cases hr0 : getRa s r0 with
    | none => exact keep
    | some ra0 =>
      simp only
      repeat' split
      all_goals first
        | exact keep
        | (refine upd r0 ra0 _ hr0 rfl ?_
           intro _ h00; subst h00
           exact ⟨Or.inl rfl, Or.inl rfl, rfl⟩)
  | link r0 =>
    simp only [step, stepLink]
    cases hr0 : getRa s r0 with
    | none => exact keep
    | some ra0 =>
      simp only
      repeat' split
      all_goals first
        | exact keep
        | (refine upd r0 ra0 _ hr0 rfl ?_
           intro hr h00; subst h00; subst hr
           exact ⟨Or.inl rfl, Or.inr (Or.inr rfl), rfl⟩)
  | link2 r0 =>
    simp only [step, stepLink2]
    repeat' split
    all_goals exact keep
  | canon r0 =>
    simp only [step, stepCanon]
    cases hr0 : getRa s r0 with
    | none => exact keep
    | some ra0 =>
      simp only
      repeat' split
      all_goals first
        | exact keep
        | (refine upd r0 ra0 _ hr0 rfl ?_
           intro _ h00; subst h00
           exact ⟨Or.inl rfl, Or.inl rfl, rfl⟩)
  | premd r0 =>
    simp only [step, stepPremd]
    cases hr0 : getRa s r0 with
    | none => exact keep
    | some ra0 =>
      simp only
      repeat' split
      all_goals first
        | exact keep
        | (refine upd r0 ra0 _ hr0 rfl ?_
           intro hr h00; subst h00; subst hr
           exact ⟨Or.inr (Or.inr ⟨rfl, by simp_all, rfl, rfl, rfl, rfl⟩), Or.inl rfl, rfl⟩)
  | update r0 n =>
    simp only [step, stepUpdate]
    cases hr0 : getRa s r0 with
    | none => exact keep
    | some ra0 =>
      simp only
      repeat' split
      all_goals first
        | exact keep
        | (refine upd r0 ra0 _ hr0 rfl ?_
           intro _ h00; subst h00
           exact ⟨Or.inl rfl, Or.inl rfl, rfl⟩)
  | fork r0 gov h =>
    simp only [step, stepFork]
    split
    · exact keep
    cases hr0 : getRa s r0 with
    | none => exact keep
    | some ra0 =>
      simp only
      repeat' split
      all_goals first
        | exact keep
        | (refine upd r0 ra0 _ hr0 rfl ?_
           intro _ h00; subst h00
           exact ⟨Or.inl rfl, Or.inl rfl, rfl⟩)
  | chopen r0 via =>
    simp only [step, stepChopen]
    cases hr0 : getRa s r0 with
    | none => exact keep
    | some ra0 =>
      simp only
      repeat' split
      all_goals first
        | exact keep
        | (refine upd r0 ra0 _ hr0 rfl ?_
           intro hr h00; subst h00; subst hr
           refine ⟨Or.inl rfl, Or.inr (Or.inl ⟨?_, via, rfl⟩), rfl⟩
           cases hch : ra0.chan <;> simp_all)
  | plainch => exact keep
  | send c =>
    simp only [step, stepSend]
    repeat' split
    all_goals exact keep
  | recv c ph p =>
    simp only [step, stepRecv]
    cases hc : s.chans.find? (·.1 == c) with
    | none => exact keep
    | some ck =>
      obtain ⟨c', k⟩ := ck
      cases k with
      | plain => exact keep
      | second _ =>
        simp only
        repeat' split
        all_goals exact keep
      | canon r0 =>
        simp only
        cases hr0 : getRa s r0 with
        | none => exact keep
        | some ra0 =>
          simp only
          by_cases ht : (ra0.tph != 0) = true
          · rw [if_pos ht]; split <;> exact keep
          · rw [if_neg ht]
            by_cases hok : ((handshake ra0 ph p).2 == Res.ok) = true
            · rw [if_pos hok]
              refine upd r0 ra0 _ hr0 (handshake_chan ra0 ph p).2 ?_
              intro hr h00; subst h00; subst hr
              refine ⟨Or.inr <| Or.inl ⟨c, ph, p, c', rfl, hc, by simpa using ht, by simpa using hok, ?_, rfl⟩,
                      Or.inl (handshake_chan ra0 ph p).1, (handshake_chan ra0 ph p).2⟩
              simp only [step, stepRecv, hc, hr0, if_neg ht, if_pos hok]
            · rw [if_neg hok]; exact keep

-- ---------------------------------------------------------------- the channel table only grows

/-- every op leaves the channel table as it is or appends to it -/
theorem step_chans (s : St) (op : Op) : ∃ l, (step s op).1.chans = s.chans ++ l := by
  cases op with
  | create r g => simp only [step, stepCreate]; repeat' split
                  all_goals exact ⟨[], by simp⟩
  | setgi r owner g => simp only [step, stepSetgi]; repeat' split
                       all_goals exact ⟨[], by simp [setRa_chans]⟩
  | force r gov g => simp only [step, stepForce]; repeat' split
                     all_goals exact ⟨[], by simp [setRa_chans]⟩
  | plan r owner alloc dur te start => simp only [step, stepPlan]; repeat' split
                                       all_goals exact ⟨[], by simp [setRa_chans]⟩
  | enable r owner => simp only [step, stepEnable]; repeat' split
                      all_goals exact ⟨[], by simp [setRa_chans]⟩
  | tick dt => exact ⟨[], by simp [step]⟩
  | seq r => simp only [step, stepSeq]; repeat' split
             all_goals exact ⟨[], by simp [setRa_chans]⟩
  | link r => simp only [step, stepLink]; repeat' split
              all_goals first
                | exact ⟨[_], rfl⟩
                | exact ⟨[], by simp⟩
  | link2 r => simp only [step, stepLink2]; repeat' split
               all_goals first
                 | exact ⟨[_], rfl⟩
                 | exact ⟨[], by simp⟩
  | canon r => simp only [step, stepCanon]; repeat' split
               all_goals exact ⟨[], by simp [setRa_chans]⟩
  | premd r => simp only [step, stepPremd]; repeat' split
               all_goals exact ⟨[], by simp [setRa_chans]⟩
  | update r n => simp only [step, stepUpdate]; repeat' split
                  all_goals exact ⟨[], by simp [setRa_chans]⟩
  | fork r gov h => simp only [step, stepFork]; repeat' split
                    all_goals exact ⟨[], by simp [setRa_chans]⟩
  | chopen r via => simp only [step, stepChopen]; repeat' split
                    all_goals first
                      | exact ⟨[_], rfl⟩
                      | exact ⟨[], by simp⟩
  | plainch => exact ⟨[_], rfl⟩
  | send c => simp only [step, stepSend]; repeat' split
              all_goals exact ⟨[], by simp⟩
  | recv c ph p => simp only [step, stepRecv]; repeat' split
                   all_goals exact ⟨[], by simp [setRa_chans]⟩

/-- a channel keeps its kind -/
theorem step_find (s : St) (op : Op) (c : Nat) (k : Nat × ChanKind) (h : s.chans.find? (·.1 == c) = some k) :
    (step s op).1.chans.find? (·.1 == c) = some k := by
  obtain ⟨l, hl⟩ := step_chans s op
  rw [hl, List.find?_append, h]; rfl

theorem run_find (s : St) (ops : List Op) (c : Nat) (k : Nat × ChanKind) (h : s.chans.find? (·.1 == c) = some k) :
    (run s ops).chans.find? (·.1 == c) = some k := by
  induction ops generalizing s with
  | nil => exact h
  | cons op ops ih =>
    simp only [run, List.foldl_cons]
    exact ih _ (step_find s op c k h)

-- ---------------------------------------------------------------- once open, open for good

/-- an open bridge is never touched again: along any op sequence the proof height, the credited
    balances and the handshake counter of a rollapp whose handshake has completed stay what they are,
    and registered metadata stays registered -/
theorem run_opened (s : St) (ops : List Op) (r : Nat) (ra : Ra) (hg : getRa s r = some ra) (ht : ra.tph ≠ 0) :
    ∃ ra', getRa (run s ops) r = some ra' ∧ ra'.tph = ra.tph ∧ ra'.bal = ra.bal ∧ ra'.nOpen = ra.nOpen ∧
      (ra.md = true → ra'.md = true) := by
  induction ops generalizing s ra with
  | nil => exact ⟨ra, hg, rfl, rfl, rfl, id⟩
  | cons op ops ih =>
    simp only [run, List.foldl_cons]
    obtain ⟨ra1, hg1, hf, _⟩ := step_frame s op r ra hg
    have hb : ra1.tph = ra.tph ∧ ra1.bal = ra.bal ∧ ra1.nOpen = ra.nOpen ∧ (ra.md = true → ra1.md = true) := by
      rcases hf with hf | ⟨_, _, _, _, _, _, h0, _⟩ | ⟨_, _, h1, h2, h3, h4⟩
      · simp only [Ra.bridge, Prod.mk.injEq] at hf
        exact ⟨hf.1, hf.2.1, hf.2.2.2, fun h => by rw [hf.2.2.1]; exact h⟩
      · exact absurd h0 ht
      · exact ⟨h1, h2, h3, fun _ => h4⟩
    have ht1 : ra1.tph ≠ 0 := by rw [hb.1]; exact ht
    obtain ⟨ra', hg', h1, h2, h3, h4⟩ := ih _ ra1 hg1 ht1
    exact ⟨ra', hg', h1.trans hb.1, h2.trans hb.2.1, h3.trans hb.2.2.1, fun h => h4 (hb.2.2.2 h)⟩

-- ---------------------------------------------------------------- total of the credited balances

def totalBal (b : List (Nat × Int)) : Int := (b.map (·.2)).sum

theorem any_false_of_not_mem (b : List (Nat × Int)) (a : Nat) (h : a ∉ b.map (·.1)) : b.any (·.1 == a) = false := by
  induction b with
  | nil => rfl
  | cons x xs ih =>
    simp only [List.map_cons, List.mem_cons, not_or] at h
    simp only [List.any_cons, Bool.or_eq_false_iff, beq_eq_false_iff_ne, ne_eq]
    exact ⟨fun he => h.1 he.symm, ih h.2⟩

theorem map_upd_keys (b : List (Nat × Int)) (a : Nat) (v : Int) :
    (b.map (fun x => if x.1 == a then (a, x.2 + v) else x)).map (·.1) = b.map (·.1) := by
  induction b with
  | nil => rfl
  | cons x xs ih =>
    simp only [List.map_cons, ih]
    congr 1
    split
    · rename_i h; simpa using (beq_iff_eq.1 h).symm
    · rfl

theorem map_upd_total (b : List (Nat × Int)) (a : Nat) (v : Int) (hn : (b.map (·.1)).Nodup) :
    totalBal (b.map (fun x => if x.1 == a then (a, x.2 + v) else x)) = totalBal b + (if b.any (·.1 == a) then v else 0) := by
  induction b with
  | nil => simp [totalBal]
  | cons x xs ih =>
    simp only [List.map_cons, List.nodup_cons] at hn
    have ih' := ih hn.2
    by_cases hx : x.1 = a
    · have hf := any_false_of_not_mem xs a (by rw [← hx]; exact hn.1)
      rw [hf] at ih'
      simp only [totalBal, List.map_cons, List.sum_cons, List.any_cons, hx, beq_self_eq_true, if_true, Bool.true_or,
        Bool.false_eq_true, if_false] at ih' ⊢
      omega
    · have hx' : (x.1 == a) = false := by simpa using hx
      simp only [totalBal, List.map_cons, List.sum_cons, List.any_cons, hx', Bool.false_or, Bool.false_eq_true, if_false] at ih' ⊢
      omega

theorem addBal_keys_nodup (b : List (Nat × Int)) (a : Nat) (v : Int) (hn : (b.map (·.1)).Nodup) :
    ((addBal b a v).map (·.1)).Nodup := by
  unfold addBal
  split
  · rw [map_upd_keys]; exact hn
  · rename_i h
    rw [List.map_append, List.nodup_append]
    refine ⟨hn, by simp, ?_⟩
    intro x hx y hy
    simp only [List.map_cons, List.map_nil, List.mem_singleton] at hy
    subst hy
    intro hxy
    subst hxy
    apply h
    obtain ⟨z, hz, hz1⟩ := List.mem_map.1 hx
    exact List.any_eq_true.2 ⟨z, hz, by simpa using hz1⟩

theorem addBal_total (b : List (Nat × Int)) (a : Nat) (v : Int) (hn : (b.map (·.1)).Nodup) :
    totalBal (addBal b a v) = totalBal b + v := by
  unfold addBal
  split
  · rename_i h
    rw [map_upd_total b a v hn, h]; rfl
  · simp [totalBal, List.sum_append]

/-- the genesis credits add exactly the sum of the credited accounts to the total -/
theorem credit_total : ∀ (l : List Acc) (b b' : List (Nat × Int)), (b.map (·.1)).Nodup → credit l b = some b' →
    (b'.map (·.1)).Nodup ∧ totalBal b' = totalBal b + sumAccs l
  | [], b, b', hn, h => by
    simp only [credit, Option.some.injEq] at h
    subst h
    exact ⟨hn, by simp [sumAccs]⟩
  | a :: as, b, b', hn, h => by
    simp only [credit] at h
    split at h
    · exact absurd h (by simp)
    · obtain ⟨h1, h2⟩ := credit_total as _ b' (addBal_keys_nodup b a.addr a.amt hn) h
      refine ⟨h1, ?_⟩
      rw [h2, addBal_total b a.addr a.amt hn]
      simp only [sumAccs, List.map_cons, List.sum_cons]
      omega

end DymVerif.GB
