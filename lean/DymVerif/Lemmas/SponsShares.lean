import DymVerif.Lemmas.SponsClaim
/-
  Lemmas/SponsShares — endorsement shares: `TotalShares` of a rollapp's endorsement is the sum over
  the votes of their power on the rollapp gauge (`ShareInv`), kept by vote / revoke / staking hooks;
  the snapshot taken at an epoch end then covers everybody's power.
-/
namespace DymVerif.Spons

/-- the rollapp a gauge id belongs to, if it is a rollapp gauge -/
def raOf (gs : List Gauge) (gid : Nat) : Option Nat :=
  match gs.find? (·.id == gid) with
  | some g => (match g.kind with | .rollapp r => some r | _ => none)
  | none => none

theorem updateShares_cons (gs : List Gauge) (es : List Endorsement) (u : GP) (us : List GP) :
    updateShares gs es (u :: us) =
      updateShares gs (match raOf gs u.1 with | some r => addShares es r u.2 | none => es) us := by
  unfold raOf
  rw [updateShares]
  split
  · rename_i g hg
    simp only [hg]
    split <;> rename_i hk <;> simp [hk]
  · rename_i hg; simp [hg]

/-- total shares of rollapp `r` in an endorsement list (endorsements have distinct rollapps) -/
def totalOf (es : List Endorsement) (r : Nat) : Int :=
  match es.find? (·.r == r) with
  | some e => e.total
  | none => 0

theorem find_addShares (es : List Endorsement) (r r' : Nat) (p : Int) :
    (addShares es r' p).find? (·.r == r) =
      (es.find? (·.r == r)).map (fun e => if e.r = r' then { e with total := e.total + p } else e) := by
  unfold addShares
  induction es with
  | nil => rfl
  | cons e es ih =>
    simp only [List.map_cons, List.find?_cons]
    by_cases he : e.r = r'
    · simp only [he, if_true]
      cases hr : (r' == r) with
      | true => simp [he]
      | false => simpa using ih
    · simp only [he, if_false]
      cases hr : (e.r == r) with
      | true => simp [he]
      | false => simpa using ih

theorem totalOf_addShares (es : List Endorsement) (r r' : Nat) (p : Int) (h : (es.find? (·.r == r)).isSome) :
    totalOf (addShares es r' p) r = totalOf es r + (if r' = r then p else 0) := by
  unfold totalOf
  rw [find_addShares]
  cases hf : es.find? (·.r == r) with
  | none => rw [hf] at h; cases h
  | some e =>
    have her : e.r = r := by have := List.find?_some hf; simpa using this
    simp only [Option.map]
    by_cases hr : r' = r
    · subst hr; simp [her]
    · have : ¬ e.r = r' := by rw [her]; exact fun e => hr e.symm
      simp [this, hr]

theorem find_addShares_isSome (es : List Endorsement) (r r' : Nat) (p : Int) :
    ((addShares es r' p).find? (·.r == r)).isSome = (es.find? (·.r == r)).isSome := by
  rw [find_addShares]; cases es.find? (·.r == r) <;> rfl

/-- the update adds to rollapp `r`'s total exactly the power of the gauges that are `r`'s rollapp gauge -/
theorem totalOf_updateShares (gs : List Gauge) (es : List Endorsement) (us : List GP) (r : Nat)
    (h : (es.find? (·.r == r)).isSome) :
    totalOf (updateShares gs es us) r
      = totalOf es r + ((us.filter fun u => raOf gs u.1 == some r).map (·.2)).sum
    ∧ ((updateShares gs es us).find? (·.r == r)).isSome := by
  induction us generalizing es with
  | nil => simp [updateShares, h]
  | cons u us ih =>
    rw [updateShares_cons]
    cases hra : raOf gs u.1 with
    | none =>
      simp only
      have := ih es h
      simp [hra, this]
    | some r' =>
      simp only
      have h' : ((addShares es r' u.2).find? (·.r == r)).isSome := by rw [find_addShares_isSome]; exact h
      have := ih (addShares es r' u.2) h'
      rw [this.1, totalOf_addShares es r r' u.2 h]
      refine ⟨?_, this.2⟩
      by_cases hr : r' = r
      · subst hr; simp [hra]; omega
      · have : (some r' == some r) = false := by simpa using hr
        simp [hra, hr, this]

/-- if exactly the gauge `gid` is rollapp `r`'s gauge, the filtered sum is the list's power on `gid` -/
theorem filter_sum_eq_gget (gs : List Gauge) (us : List GP) (r gid : Nat)
    (h : ∀ g, raOf gs g = some r ↔ g = gid) :
    ((us.filter fun u => raOf gs u.1 == some r).map (·.2)).sum = gget us gid := by
  induction us with
  | nil => rfl
  | cons u us ih =>
    by_cases hu : u.1 = gid
    · have hr : raOf gs u.1 = some r := (h u.1).mpr hu
      have hb : (raOf gs u.1 == some r) = true := by simp [hr]
      rw [List.filter_cons, if_pos hb]
      simp only [List.map_cons, List.sum_cons, ih, gget, hu, if_true]
    · have : ¬ raOf gs u.1 = some r := fun e => hu ((h u.1).mp e)
      have hb : (raOf gs u.1 == some r) = false := by simpa using this
      simp [List.filter_cons, hb, gget, hu, ih]

/-- the gauge table names exactly one rollapp gauge, `gid`, for rollapp `r`, whose endorsement exists -/
structure RaGauge (s : State) (r gid : Nat) : Prop where
  only : ∀ g, raOf s.gauges g = some r ↔ g = gid
  endo : (s.endorsements.find? (·.r == r)).isSome

/-- **ShareInv**: total shares of `r` = Σ over the votes of their power on `r`'s rollapp gauge -/
def ShareInv (s : State) (r gid : Nat) : Prop :=
  totalOf s.endorsements r = vsum (fun v => v.pow gid) s.votes

theorem applyUpdate_total {s : State} {r gid : Nat} (hg : RaGauge s r gid) (u : Dist) :
    totalOf (s.applyUpdate u).endorsements r = totalOf s.endorsements r + gget u.gauges gid ∧
    RaGauge (s.applyUpdate u) r gid := by
  have := totalOf_updateShares s.gauges s.endorsements u.gauges r hg.endo
  refine ⟨?_, ⟨hg.only, this.2⟩⟩
  show totalOf (updateShares s.gauges s.endorsements u.gauges) r = _
  rw [this.1, filter_sum_eq_gget _ _ _ _ hg.only]

theorem revokeVote_share {s : State} {a r gid : Nat} {v : Vote} (wf : WF s) (hg : RaGauge s r gid)
    (hs : ShareInv s r gid) (hv : alookup a s.votes = some v) :
    ShareInv (s.revokeVote a v) r gid ∧ RaGauge (s.revokeVote a v) r gid := by
  have := applyUpdate_total hg v.toDist.negate
  refine ⟨?_, ⟨this.2.only, this.2.endo⟩⟩
  show totalOf (s.applyUpdate v.toDist.negate).endorsements r = vsum _ (aerase a s.votes)
  rw [this.1, hs, vsum_aerase _ wf.keys hv]
  have h1 : gget v.toDist.negate.gauges gid = - v.pow gid := by
    show gget (v.toDist.gauges.map fun x => (x.1, -x.2)) gid = _
    rw [gget_negate, gget_toDist]
  rw [h1]; omega

theorem castVote_share {s1 s' : State} {a r gid : Nat} {ws : List GP} (hg : RaGauge s1 r gid)
    (hs : ShareInv s1 r gid) (hnone : alookup a s1.votes = none) (hc : s1.castVote a ws = .ok s') :
    ShareInv s' r gid ∧ RaGauge s' r gid := by
  unfold State.castVote at hc
  simp only at hc
  split at hc
  · cases hc
  · cases hc
    have := applyUpdate_total hg (applyWeights (sumP (s1.breakdown a)) ws)
    refine ⟨?_, ⟨this.2.only, this.2.endo⟩⟩
    show totalOf (s1.applyUpdate (applyWeights (sumP (s1.breakdown a)) ws)).endorsements r
      = vsum _ (aset a ⟨sumP (s1.breakdown a), ws⟩ s1.votes)
    rw [this.1, hs, gget_applyWeights]
    simp only [aset, vsum, aerase_of_none hnone, Vote.pow]; omega

theorem vote_share {s s' : State} {a r gid : Nat} {ws : List GP} (wf : WF s) (hg : RaGauge s r gid)
    (hs : ShareInv s r gid) (h : s.vote a ws = .ok s') : ShareInv s' r gid ∧ RaGauge s' r gid := by
  unfold State.vote at h
  split at h
  · cases h
  split at h
  · cases h
  split at h
  · rename_i v hv
    have := revokeVote_share wf hg hs hv
    exact castVote_share this.2 this.1 (by rw [revokeVote_votes]; exact alookup_aerase_self _ _) h
  · rename_i hv
    exact castVote_share hg hs hv h

theorem processHook_share {s : State} {a val r gid : Nat} {v : Vote} {old new : Int} (wf : WF s)
    (hg : RaGauge s r gid) (hs : ShareInv s r gid) (hv : alookup a s.votes = some v) :
    ShareInv (s.processHook a val v old new) r gid ∧ RaGauge (s.processHook a val v old new) r gid := by
  unfold State.processHook
  simp only
  split
  · exact revokeVote_share wf hg hs hv
  · have h1 := applyUpdate_total hg v.toDist.negate
    have h2 := applyUpdate_total h1.2 (Vote.toDist ⟨v.vp + (new - old), v.weights⟩)
    refine ⟨?_, ⟨h2.2.only, h2.2.endo⟩⟩
    show totalOf ((s.applyUpdate v.toDist.negate).applyUpdate (Vote.toDist ⟨v.vp + (new - old), v.weights⟩)).endorsements r
      = vsum _ (aset a _ s.votes)
    have hneg : gget v.toDist.negate.gauges gid = - v.pow gid := by
      show gget (v.toDist.gauges.map fun x => (x.1, -x.2)) gid = _
      rw [gget_negate, gget_toDist]
    rw [h2.1, h1.1, hs, vsum_aerase _ wf.keys hv, gget_toDist, hneg]
    simp only [aset, vsum]
    omega

/-- after an epoch end the snapshot equals the total and nobody is blacklisted: it covers all power -/
theorem usum_nil_eq (gid : Nat) (l : List (Nat × Vote)) : usum [] gid l = vsum (fun v => v.gaugePower gid) l := by
  induction l with
  | nil => rfl
  | cons x xs ih => simp [usum, vsum, ih]

theorem vsum_congr {f g : Vote → Int} {l : List (Nat × Vote)} (h : ∀ x ∈ l, f x.2 = g x.2) : vsum f l = vsum g l := by
  induction l with
  | nil => rfl
  | cons x xs ih => simp only [vsum]; rw [h x (by simp), ih (fun y hy => h y (by simp [hy]))]

/-! ### frame: ops that keep the gauge kinds and the totals -/

theorem raOf_updGauge {gs : List Gauge} {g g2 : Gauge} {gid' : Nat} (hg : gs.find? (·.id == gid') = some g)
    (hid : g2.id = g.id) (hk : g2.kind = g.kind) (gid : Nat) : raOf (updGauge gs g2) gid = raOf gs gid := by
  unfold raOf
  rw [find_updGauge]
  cases hf : gs.find? (·.id == gid) with
  | none => rfl
  | some x =>
    simp only [Option.map]
    by_cases hx : x.id = g2.id
    · have h1 : x.id = gid := by have := List.find?_some hf; simpa using this
      have h2 : g.id = gid' := by have := List.find?_some hg; simpa using this
      have : gid' = gid := by omega
      subst this
      rw [hf] at hg; cases hg
      simp [hx, hk]
    · simp [hx]

theorem find_map_id {f : Gauge → Gauge} (hid : ∀ x, (f x).id = x.id) (gs : List Gauge) (gid : Nat) :
    (gs.map f).find? (·.id == gid) = (gs.find? (·.id == gid)).map f := by
  induction gs with
  | nil => rfl
  | cons x xs ih =>
    simp only [List.map_cons, List.find?_cons, hid]
    cases (x.id == gid) with
    | true => rfl
    | false => exact ih

theorem raOf_map {f : Gauge → Gauge} (hid : ∀ x, (f x).id = x.id) (hk : ∀ x, (f x).kind = x.kind)
    (gs : List Gauge) (gid : Nat) : raOf (gs.map f) gid = raOf gs gid := by
  unfold raOf
  rw [find_map_id hid]
  cases gs.find? (·.id == gid) with
  | none => rfl
  | some x => simp [Option.map, hk]

/-- same gauge kinds, same totals, same votes -/
structure SameShares (s s' : State) : Prop where
  ra : ∀ gid, raOf s'.gauges gid = raOf s.gauges gid
  total : ∀ r, totalOf s'.endorsements r = totalOf s.endorsements r
  some : ∀ r, (s'.endorsements.find? (·.r == r)).isSome = (s.endorsements.find? (·.r == r)).isSome
  votes : s'.votes = s.votes

theorem SameShares.share {s s' : State} (h : SameShares s s') {r gid : Nat} (hs : ShareInv s r gid) : ShareInv s' r gid := by
  unfold ShareInv; rw [h.total, h.votes]; exact hs

theorem SameShares.raGauge {s s' : State} (h : SameShares s s') {r gid : Nat} (hg : RaGauge s r gid) : RaGauge s' r gid :=
  ⟨fun g => by rw [h.ra]; exact hg.only g, by rw [h.some]; exact hg.endo⟩

theorem pay_shares {s s1 : State} {a gid' : Nat} {g : Gauge} {e : Endorsement} {pw p : Int}
    (hg : s.gauge? gid' = some g) (h : s.pay a g e pw = .ok (s1, p)) : SameShares s s1 := by
  rcases pay_facts h with ⟨_, _, rfl⟩ | ⟨er, _, _, _, rfl⟩
  · exact ⟨fun _ => rfl, fun _ => rfl, fun _ => rfl, rfl⟩
  · exact ⟨fun gid => raOf_updGauge (g2 := { g with distributed := g.distributed + p }) hg rfl rfl gid,
      fun _ => rfl, fun _ => rfl, rfl⟩

theorem claim_shares {s s1 : State} {a gid : Nat} {p : Int} (h : s.claim a gid = .ok (s1, p)) : SameShares s s1 := by
  obtain ⟨_, g, r, e, v, hg, _, _, _, _, hpay⟩ := claim_ok h
  exact pay_shares hg hpay

theorem fund_shares {s s1 : State} {g : Nat} {amt : Int} (h : s.fund g amt = .ok s1) : SameShares s s1 := by
  unfold State.fund at h
  split at h
  · cases h
  rename_i g0 hg
  split at h
  · cases h
  · cases h
    exact ⟨fun gid => raOf_updGauge (g2 := { g0 with coins := g0.coins + amt }) hg rfl rfl gid,
      fun _ => rfl, fun _ => rfl, rfl⟩

theorem find_map_r {f : Endorsement → Endorsement} (hr : ∀ x, (f x).r = x.r) (es : List Endorsement) (r : Nat) :
    (es.map f).find? (·.r == r) = (es.find? (·.r == r)).map f := by
  induction es with
  | nil => rfl
  | cons x xs ih =>
    simp only [List.map_cons, List.find?_cons, hr]
    cases (x.r == r) with
    | true => rfl
    | false => exact ih

theorem incentivesEpochEnd_shares (s : State) : SameShares s s.incentivesEpochEnd := by
  unfold State.incentivesEpochEnd
  simp only
  split
  · exact ⟨fun _ => rfl, fun _ => rfl, fun _ => rfl, rfl⟩
  · refine ⟨fun gid => ?_, fun _ => rfl, fun _ => rfl, rfl⟩
    show raOf (List.map _ (List.map _ s.gauges)) gid = _
    rw [raOf_map, raOf_map]
    · intro x; split <;> rfl
    · intro x; split <;> rfl
    · intro x; split
      · split <;> (split <;> rfl)
      · rfl
    · intro x; split
      · split <;> (split <;> rfl)
      · rfl

theorem sponsEpochEnd_shares (s : State) : SameShares s s.sponsEpochEnd := by
  refine ⟨fun _ => rfl, fun r => ?_, fun r => ?_, rfl⟩
  · show totalOf (s.endorsements.map fun e => { e with epoch := e.total }) r = _
    unfold totalOf
    rw [find_map_r (f := fun e => { e with epoch := e.total }) (fun _ => rfl)]
    cases s.endorsements.find? (·.r == r) <;> rfl
  · show ((s.endorsements.map fun e => { e with epoch := e.total }).find? (·.r == r)).isSome = _
    rw [find_map_r (f := fun e => { e with epoch := e.total }) (fun _ => rfl)]
    cases s.endorsements.find? (·.r == r) <;> rfl

theorem SameShares.trans {a b c : State} (h1 : SameShares a b) (h2 : SameShares b c) : SameShares a c :=
  ⟨fun g => (h2.ra g).trans (h1.ra g), fun r => (h2.total r).trans (h1.total r),
   fun r => (h2.some r).trans (h1.some r), h2.votes.trans h1.votes⟩

theorem epochEnd_shares (s : State) (d : Bool) : SameShares s (s.epochEnd d) := by
  unfold State.epochEnd
  cases d
  · exact ⟨fun _ => rfl, fun _ => rfl, fun _ => rfl, rfl⟩
  · exact (incentivesEpochEnd_shares s).trans (sponsEpochEnd_shares _)

/-! ### world building ops: appended gauges / endorsements -/

/-- the rollapp a gauge kind belongs to -/
def kindRa : GKind → Option Nat
  | .rollapp r => some r
  | _ => none

theorem raOf_eq_kindRa (gs : List Gauge) (g : Nat) :
    raOf gs g = (gs.find? (·.id == g)).bind (fun x => kindRa x.kind) := by
  unfold raOf
  cases gs.find? (·.id == g) with
  | none => rfl
  | some x => simp only [Option.bind]; cases x.kind <;> rfl

theorem raOf_append (gs : List Gauge) (ng : Gauge) (g : Nat) :
    raOf (gs ++ [ng]) g =
      match gs.find? (·.id == g) with
      | some _ => raOf gs g
      | none => if ng.id = g then kindRa ng.kind else none := by
  rw [raOf_eq_kindRa, raOf_eq_kindRa, List.find?_append]
  cases hf : gs.find? (·.id == g) with
  | some x => simp
  | none =>
    simp only [Option.none_or, List.find?_cons, List.find?_nil]
    by_cases hid : ng.id = g
    · simp [hid]
    · have : (ng.id == g) = false := by simpa using hid
      simp [this, hid]

theorem find_append_endo (es : List Endorsement) (ne : Endorsement) (r : Nat) :
    (es ++ [ne]).find? (·.r == r) =
      match es.find? (·.r == r) with
      | some e => some e
      | none => if ne.r = r then some ne else none := by
  rw [List.find?_append]
  cases hf : es.find? (·.r == r) with
  | some x => simp
  | none =>
    simp only [Option.none_or, List.find?_cons, List.find?_nil]
    by_cases hid : ne.r = r
    · simp [hid]
    · have : (ne.r == r) = false := by simpa using hid
      simp [this, hid]

theorem addGauge_shares {s s1 : State} {g : Gauge} (h : s.addGauge g = .ok s1) : SameShares s s1 := by
  obtain ⟨⟨inc, rfl⟩, hnr, _⟩ := addGauge_ok h
  refine ⟨fun gid => ?_, fun _ => rfl, fun _ => rfl, rfl⟩
  show raOf (s.gauges ++ [newGauge (s.lastGauge + 1) g]) gid = raOf s.gauges gid
  rw [raOf_append]
  cases hf : s.gauges.find? (·.id == gid) with
  | some x => rfl
  | none =>
    have hk : kindRa (newGauge (s.lastGauge + 1) g).kind = none := by
      show kindRa g.kind = none
      cases hk : g.kind with
      | rollapp r => exact absurd hk (hnr r)
      | asset => rfl
      | endorsement r => rfl
    have hra : raOf s.gauges gid = none := by rw [raOf_eq_kindRa, hf]; rfl
    simp only [hk, hra]; split <;> rfl

/-- a new rollapp `r'` leaves the rollapp gauge and the shares of every OTHER rollapp as they are -/
theorem addRollapp_share {s s1 : State} {r' r gid : Nat} (h : s.addRollapp r' = .ok s1)
    (hg : RaGauge s r gid) (hs : ShareInv s r gid) : ShareInv s1 r gid ∧ RaGauge s1 r gid := by
  obtain ⟨hnone, rfl⟩ := addRollapp_ok h
  have hne : r' ≠ r := by
    intro e; subst e
    have := hg.endo
    unfold State.endorsement? at hnone
    rw [hnone] at this; cases this
  have hfind : (s.endorsements ++ [(⟨r', s.lastGauge + 1, 0, 0⟩ : Endorsement)]).find? (·.r == r) = s.endorsements.find? (·.r == r) := by
    rw [find_append_endo]
    cases hf : s.endorsements.find? (·.r == r) with
    | some e => rfl
    | none => have := hg.endo; rw [hf] at this; cases this
  refine ⟨?_, ⟨fun g => ?_, ?_⟩⟩
  · show totalOf (s.endorsements ++ [(⟨r', s.lastGauge + 1, 0, 0⟩ : Endorsement)]) r = vsum _ s.votes
    unfold totalOf; rw [hfind]; exact hs
  · show raOf (s.gauges ++ [{ id := s.lastGauge + 1, kind := .rollapp r', perpetual := true }]) g = some r ↔ g = gid
    rw [raOf_append]
    cases hf : s.gauges.find? (·.id == g) with
    | some x => exact hg.only g
    | none =>
      have hra : raOf s.gauges g = none := by rw [raOf_eq_kindRa, hf]; rfl
      have hgid : g ≠ gid := by
        intro e; subst e
        have := (hg.only g).mpr rfl
        rw [hra] at this; cases this
      simp only [kindRa]
      constructor
      · intro h1
        split at h1
        · injection h1 with h1; exact absurd h1 hne
        · cases h1
      · intro h1; exact absurd h1 hgid
  · show ((s.endorsements ++ [(⟨r', s.lastGauge + 1, 0, 0⟩ : Endorsement)]).find? (·.r == r)).isSome
    rw [hfind]; exact hg.endo

/-! ### hooks and steps -/

theorem hook_share {s s' : State} {a val r gid : Nat} {p : Option Int} (wf : WF s) (hg : RaGauge s r gid)
    (hs : ShareInv s r gid) (h : s.hook a val p = .ok s') :
    ShareInv s' r gid ∧ RaGauge s' r gid := by
  rcases hook_ok h with ⟨_, rfl⟩ | ⟨v, hv, rfl⟩
  · exact ⟨hs, hg⟩
  · exact processHook_share wf hg hs hv

theorem hooks_share {s s' : State} {a r gid : Nat} {hs' : List (Nat × Option Int)} (wf : WF s) (inv : DistInv s)
    (hg : RaGauge s r gid) (hs : ShareInv s r gid) (h : s.hooks a hs' = .ok s') :
    ShareInv s' r gid ∧ RaGauge s' r gid := by
  induction hs' generalizing s with
  | nil => cases h; exact ⟨hs, hg⟩
  | cons x xs ih =>
    unfold State.hooks at h
    split at h
    · cases h
    · rename_i s1 h1
      have g1 := hook_good wf inv h1
      have s1' := hook_share wf hg hs h1
      exact ih g1.1 g1.2 s1'.2 s1'.1 h

theorem step_share {s : State} {op : Op} {r gid : Nat} (wf : WF s) (inv : DistInv s) (hg : RaGauge s r gid)
    (hs : ShareInv s r gid) :
    ShareInv (step s op).1 r gid ∧ RaGauge (step s op).1 r gid := by
  cases op with
  | vote a ws =>
    simp only [step]; split
    · rename_i s1 h; exact vote_share wf hg hs h
    · exact ⟨hs, hg⟩
  | revoke a =>
    simp only [step]; split
    · rename_i s1 h
      unfold State.revoke at h; split at h
      · cases h
      · rename_i v hv; cases h; exact revokeVote_share wf hg hs hv
    · exact ⟨hs, hg⟩
  | claim a g =>
    simp only [step]; split
    · rename_i s1 p h; have := claim_shares h; exact ⟨this.share hs, this.raGauge hg⟩
    · exact ⟨hs, hg⟩
  | staking a hs' fin =>
    simp only [step]; split
    · rename_i s1 h
      unfold State.staking at h
      split at h
      · cases h
      · rename_i s2 h2
        cases h
        have := hooks_share wf inv hg hs h2
        exact ⟨this.1, ⟨this.2.only, this.2.endo⟩⟩
    · exact ⟨hs, hg⟩
  | slash fin => exact ⟨hs, ⟨hg.only, hg.endo⟩⟩
  | epochEnd d => have := epochEnd_shares s d; exact ⟨this.share hs, this.raGauge hg⟩
  | fund g amt =>
    simp only [step]; split
    · rename_i s1 h; have := fund_shares h; exact ⟨this.share hs, this.raGauge hg⟩
    · exact ⟨hs, hg⟩
  | addGauge g =>
    simp only [step]; split
    · rename_i s1 h; have := addGauge_shares h; exact ⟨this.share hs, this.raGauge hg⟩
    · exact ⟨hs, hg⟩
  | addRollapp r' =>
    simp only [step]; split
    · rename_i s1 h; exact addRollapp_share h hg hs
    · exact ⟨hs, hg⟩
  | setParams ma mv =>
    simp only [step]; split
    · rename_i s1 h; obtain ⟨rfl, _⟩ := setParams_ok h; exact ⟨hs, ⟨hg.only, hg.endo⟩⟩
    · exact ⟨hs, hg⟩

end DymVerif.Spons
