/-
  Lemmas/DymNSLit — records stored under the literal host chain-id (`hostLit`) exist only after a
  chain-id migration whose target is the host chain-id: every history without such a migration (and
  without the op argument `hostLit`, which is the id of no text) keeps all records free of it.
-/
import DymVerif.Lemmas.DymNSCfg
namespace DymVerif.DymNS
open AMap

/-- no record of any name is stored under the literal host chain-id -/
def NoLit (s : State) : Prop := ∀ n d, getName s n = some d → ∀ c ∈ d.configs, c.chain ≠ hostLit

/-- the operations that can store the literal host chain-id: a chain-id migration onto the host
    chain-id (text id 0; `hostLit` itself is not the id of a text), and an update-resolve-address
    whose chain argument is `hostLit` (no message corresponds to it) -/
def IntroducesLit : Op → Prop
  | .updateResolve _ _ ch _ _ _ => ch = hostLit
  | .migrateChainIds m => ∃ r ∈ m, r.2 = 0 ∨ r.2 = hostLit
  | _ => False

theorem AMap.mem_of_get {κ ν : Type} [DecidableEq κ] {m : AMap κ ν} {k : κ} {v : ν} (h : AMap.get m k = some v) :
    (k, v) ∈ m := by
  induction m with
  | nil => cases h
  | cons e m ih =>
    obtain ⟨k0, v0⟩ := e
    by_cases hk : k = k0
    · subst hk
      simp only [AMap.get, if_true, Option.some.injEq] at h
      subst h; simp
    · simp only [AMap.get, hk, if_false] at h
      exact List.mem_cons_of_mem _ (ih h)

theorem migConfig_noLit {m : List (Chain × Chain)} (hm : ¬ ∃ r ∈ m, r.2 = 0 ∨ r.2 = hostLit) {c : Config}
    (hc : c.chain ≠ hostLit) : (migConfig m c).chain ≠ hostLit := by
  unfold migConfig
  split
  · exact hc
  · split
    · rename_i new hg
      have hmem := AMap.mem_of_get hg
      intro e
      apply hm
      refine ⟨_, hmem, ?_⟩
      simp only [litChain] at e
      split at e
      · rename_i h0; exact Or.inl h0
      · exact Or.inr e
    · exact hc

theorem exec_noLit {s s' : State} {op : Op} (hI : Inv s) (hN : NoLit s) (hop : ¬ IntroducesLit op)
    (h : exec s op = .ok s') : NoLit s' := by
  intro n d' hd'
  cases hn : getName s n with
  | none => rw [name_created h hn hd']; intro c hc; cases hc
  | some d =>
    have hd0 := hN n d hn
    obtain ⟨d'', hd'', hc⟩ := name_change hI h hn
    rw [hd'] at hd''; injection hd'' with hd''; subst hd''
    rcases hc with rfl | hc
    · exact hd0
    · cases hc with
      | extend dur pay c he => exact hd0
      | renew dur pay c he => intro c hc; cases hc
      | takeOver a dur pay c hna he hg => intro c hc; cases hc
      | transfer b he hso hb => intro c hc; cases hc
      | setController c he => exact hd0
      | updateResolve ch e p v cfgs he hcf =>
        rcases hcf with ⟨x, rfl, _⟩ | rfl
        · intro c hc
          rcases mem_upsertConfig hc with rfl | hc
          · exact hop
          · exact hd0 c hc
        · intro c hc
          exact hd0 c ((removeConfig_sublist _ _ _).subset hc)
      | updateDetails c cl cfgs contact he hcf =>
        rcases hcf with rfl | rfl
        · intro c hc; cases hc
        · exact hd0
      | purchase a offer so hso hsel hse he hna => intro c hc; cases hc
      | complete a so b hso hsel hb he ha => intro c hc; cases hc
      | accept pfx id m bo hg hna hn he hso hb => intro c hc; cases hc
      | migrate m he hnd =>
        intro c hc
        obtain ⟨c0, hc0, rfl⟩ := List.mem_map.mp hc
        exact migConfig_noLit hop (hd0 c0 hc0)

theorem run_inv_noLit {s : State} (ops : List Op) (hI : Inv s) (hN : NoLit s) (hops : ∀ op ∈ ops, ¬ IntroducesLit op) :
    NoLit (run s ops) := by
  induction ops generalizing s with
  | nil => exact hN
  | cons op ops ih =>
    have hI' := step_inv op hI
    have hN' : NoLit (step s op) := by
      unfold step
      cases h : exec s op with
      | ok s' => exact exec_noLit hI hN (hops op (by simp)) h
      | error e => exact hN
    exact ih hI' hN' (fun o ho => hops o (List.mem_cons_of_mem _ ho))

end DymVerif.DymNS
