/-
  Lemmas/GenesisRefOps — the reference-store invariant `RsInv` holds after every history of the
  store's write paths (`rsStep`: creation under a fresh id, upcoming → active, active → finished,
  rewriting a record in place), at any clock values.  The invariant is proved in a membership form
  (`RsInvM`) and converted (`RsInvM.toRsInv`).
-/
import DymVerif.Lemmas.GenesisRefs
namespace DymVerif.Genesis
open DymVerif

/-- id `id` is listed under time key `t` -/
def InRefs (r : Refs) (t id : Nat) : Prop := ∃ l, (t, l) ∈ r ∧ id ∈ l

theorem inRefs_iff_look {r : Refs} (hs : Sorted ltNat r) (t id : Nat) : InRefs r t id ↔ id ∈ look t r := by
  constructor
  · rintro ⟨l, hl, hid⟩; rw [look_of_mem hs hl]; exact hid
  · intro h
    have hne : look t r ≠ [] := fun e => by rw [e] at h; cases h
    exact ⟨_, mem_of_look rfl hne, h⟩

theorem inRefs_refAdd {r : Refs} (hs : Sorted ltNat r) (t0 id0 t id : Nat) :
    InRefs (refAdd t0 id0 r) t id ↔ InRefs r t id ∨ (t = t0 ∧ id = id0) := by
  rw [inRefs_iff_look (sorted_refAdd hs _ _), inRefs_iff_look hs, look_refAdd hs]
  by_cases h : t = t0
  · subst h; simp
  · simp [h]

/-! ### `removeValue` -/

theorem dropLast_append_last : ∀ (xs : List Nat) (z : Nat), xs.getLast? = some z → xs.dropLast ++ [z] = xs
  | [], _, h => by simp at h
  | [a], z, h => by simp at h; simp [h]
  | a :: b :: rest, z, h => by
    rw [List.getLast?_cons_cons] at h
    have ih := dropLast_append_last (b :: rest) z h
    simp only [List.dropLast_cons₂, List.cons_append]
    rw [ih]

theorem mem_dropLast_getLast {xs : List Nat} {z : Nat} (h : xs.getLast? = some z) (x : Nat) :
    x ∈ z :: xs.dropLast ↔ x ∈ xs := by
  have e := dropLast_append_last xs z h
  constructor
  · intro hx
    rw [← e]
    rcases List.mem_cons.1 hx with rfl | hx'
    · exact List.mem_append_right _ List.mem_cons_self
    · exact List.mem_append_left _ hx'
  · intro hx
    rw [← e] at hx
    rcases List.mem_append.1 hx with h1 | h1
    · exact List.mem_cons_of_mem _ h1
    · rw [List.mem_singleton] at h1; rw [h1]; exact List.mem_cons_self

theorem swapRemove_spec : ∀ (l : List Nat) (id : Nat), l.Nodup →
    (∀ x, x ∈ swapRemove l id ↔ x ∈ l ∧ x ≠ id) ∧ (swapRemove l id).Nodup
  | [], _, _ => ⟨fun x => by simp [swapRemove], List.nodup_nil⟩
  | y :: ys, id, hn => by
    rw [List.nodup_cons] at hn
    unfold swapRemove
    by_cases h : y = id
    · subst h
      rw [if_pos rfl]
      cases hl : ys.getLast? with
      | none =>
        have : ys = [] := List.getLast?_eq_none_iff.1 hl
        subst this
        exact ⟨fun x => by simp, List.nodup_nil⟩
      | some z =>
        have e := dropLast_append_last ys z hl
        refine ⟨fun x => ?_, ?_⟩
        · rw [mem_dropLast_getLast hl]
          constructor
          · intro hx; exact ⟨List.mem_cons_of_mem _ hx, fun e' => hn.1 (e' ▸ hx)⟩
          · rintro ⟨hx, hne⟩
            rcases List.mem_cons.1 hx with rfl | hx'
            · exact absurd rfl hne
            · exact hx'
        · have hp : (z :: ys.dropLast).Perm ys := by
            rw [← e]
            have : (ys.dropLast ++ [z]).dropLast = ys.dropLast := by rw [e]
            rw [this]
            exact (List.perm_append_comm (l₁ := [z]) (l₂ := ys.dropLast))
          exact (hp.nodup_iff).2 hn.2
    · rw [if_neg h]
      have ih := swapRemove_spec ys id hn.2
      refine ⟨fun x => ?_, ?_⟩
      · rw [List.mem_cons, ih.1 x, List.mem_cons]
        constructor
        · rintro (rfl | ⟨h1, h2⟩)
          · exact ⟨Or.inl rfl, h⟩
          · exact ⟨Or.inr h1, h2⟩
        · rintro ⟨rfl | h1, h2⟩
          · exact Or.inl rfl
          · exact Or.inr ⟨h1, h2⟩
      · rw [List.nodup_cons]
        exact ⟨fun hm => hn.1 ((ih.1 y).1 hm).1, ih.2⟩

theorem sorted_refDel {r : Refs} (hs : Sorted ltNat r) (t id : Nat) : Sorted ltNat (refDel t id r) := by
  unfold refDel; split
  · exact sorted_kvDel t hs
  · exact sorted_kvSet soNat _ _ hs

theorem noEmpty_refDel {r : Refs} (hs : Sorted ltNat r) (hn : NoEmpty r) (t id : Nat) : NoEmpty (refDel t id r) := by
  unfold refDel
  split
  · intro e he; exact hn e ((mem_kvDel t e).1 he).1
  · rename_i hne
    intro e he
    rcases (mem_kvSet soNat _ _ hs e).1 he with rfl | ⟨h, _⟩
    · intro hnil; apply hne; simp only at hnil; rw [hnil]; rfl
    · exact hn e h

theorem look_refDel {r : Refs} (hs : Sorted ltNat r) (t0 id0 t : Nat) :
    look t (refDel t0 id0 r) = if t = t0 then swapRemove (look t0 r) id0 else look t r := by
  unfold refDel
  by_cases h : t = t0
  · subst h
    rw [if_pos rfl]
    split
    · rename_i he
      have : swapRemove (look t r) id0 = [] := List.isEmpty_iff.1 he
      rw [this]
      exact look_not_key (fun e hm => ((mem_kvDel t e).1 hm).2)
    · unfold look; rw [kvGet_kvSet_self soNat hs]; rfl
  · rw [if_neg h]
    split
    · unfold look
      have hsd := sorted_kvDel (lt := ltNat) t0 hs
      cases hg : kvGet t r with
      | some l =>
        have hm : (t, l) ∈ kvDel t0 r := (mem_kvDel t0 _).2 ⟨kvGet_some hg, h⟩
        rw [(kvGet_eq_some_iff soNat hsd t l).2 hm]
      | none =>
        cases hg' : kvGet t (kvDel t0 r) with
        | none => rfl
        | some l' => exact absurd rfl (kvGet_none hg _ ((mem_kvDel t0 _).1 (kvGet_some hg')).1)
    · unfold look; rw [kvGet_kvSet_ne soNat hs _ h]

theorem inRefs_refDel {r : Refs} (hs : Sorted ltNat r) (t0 id0 t id : Nat) (hnd : (look t0 r).Nodup) :
    InRefs (refDel t0 id0 r) t id ↔ InRefs r t id ∧ ¬ (t = t0 ∧ id = id0) := by
  rw [inRefs_iff_look (sorted_refDel hs _ _), inRefs_iff_look hs, look_refDel hs]
  by_cases h : t = t0
  · subst h
    rw [if_pos rfl, (swapRemove_spec _ id0 hnd).1 id]
    simp
  · simp [h]

/-! ### the invariant in membership form -/

structure RsInvM (s : RefStore) : Prop where
  si : Sorted ltNat s.items
  ki : Keyed (fun x : Item => x.id) s.items
  sr : ∀ c, Sorted ltNat (s.refs c)
  ne : ∀ c, NoEmpty (s.refs c)
  ln : ∀ c t, (look t (s.refs c)).Nodup
  pts : ∀ c t id, InRefs (s.refs c) t id → ∃ x, (id, x) ∈ s.items ∧ x.start = t
  cov : ∀ e ∈ s.items, ∃ c, InRefs (s.refs c) e.2.start e.1
  one : ∀ c c' t t' id, InRefs (s.refs c) t id → InRefs (s.refs c') t' id → c = c'

theorem RsInvM.time_unique {s : RefStore} (h : RsInvM s) {c c' : Cls} {t t' id : Nat}
    (h1 : InRefs (s.refs c) t id) (h2 : InRefs (s.refs c') t' id) : t = t' := by
  obtain ⟨x, hx, hxt⟩ := h.pts c t id h1
  obtain ⟨x', hx', hxt'⟩ := h.pts c' t' id h2
  have := h.si.eq_of_key soNat hx hx' rfl
  rw [← hxt, ← hxt', (Prod.mk.inj this).2]

/-- ids of one reference section are pairwise distinct -/
theorem nodup_refIds (items : KV Nat Item) : ∀ (r : Refs), Sorted ltNat r → (∀ e ∈ r, e.2.Nodup) →
    (∀ t t' id, InRefs r t id → InRefs r t' id → t = t') → (refIds r).Nodup
  | [], _, _, _ => List.nodup_nil
  | (t1, l1) :: rest, hs, hl, hu => by
    have hs' := sorted_cons.1 hs
    have : refIds ((t1, l1) :: rest) = l1 ++ refIds rest := by simp [refIds]
    rw [this, List.nodup_append]
    refine ⟨hl _ List.mem_cons_self, ?_, ?_⟩
    · apply nodup_refIds items rest hs'.2 (fun e he => hl e (List.mem_cons_of_mem _ he))
      intro t t' id ⟨l, hl1, hid⟩ ⟨l', hl2, hid'⟩
      exact hu t t' id ⟨l, List.mem_cons_of_mem _ hl1, hid⟩ ⟨l', List.mem_cons_of_mem _ hl2, hid'⟩
    · intro a ha b hb hab
      subst hab
      obtain ⟨e, he, hae⟩ := mem_refIds.1 hb
      have := hu t1 e.1 a ⟨l1, List.mem_cons_self, ha⟩ ⟨e.2, List.mem_cons_of_mem _ he, hae⟩
      exact soNat.ne_of_lt (hs'.1 e he) this

theorem RsInvM.toRsInv {s : RefStore} (h : RsInvM s) : RsInv s := by
  have hl : ∀ c, ∀ e ∈ s.refs c, e.2.Nodup := by
    intro c e he
    have := h.ln c e.1
    rwa [look_of_mem (h.sr c) he] at this
  have nd : ∀ c, (refIds (s.refs c)).Nodup := fun c =>
    nodup_refIds s.items (s.refs c) (h.sr c) (hl c) (fun t t' id h1 h2 => h.time_unique h1 h2)
  have disj : ∀ c c', c ≠ c' → ∀ a, a ∈ refIds (s.refs c) → a ∈ refIds (s.refs c') → False := by
    intro c c' hne a ha hb
    obtain ⟨e, he, hae⟩ := mem_refIds.1 ha
    obtain ⟨e', he', hae'⟩ := mem_refIds.1 hb
    exact hne (h.one c c' e.1 e'.1 a ⟨e.2, he, hae⟩ ⟨e'.2, he', hae'⟩)
  refine ⟨h.si, h.ki, h.sr, h.ne, ?_, ?_, ?_⟩
  · intro c e he id hid
    exact h.pts c e.1 id ⟨e.2, he, hid⟩
  · intro e he
    obtain ⟨c, l, hl', hid⟩ := h.cov e he
    exact ⟨c, mem_refIds.2 ⟨_, hl', hid⟩⟩
  · have na := nd .active
    have nu := nd .upcoming
    have nf := nd .finished
    simp only [RefStore.refs] at na nu nf
    rw [List.nodup_append]
    refine ⟨?_, nf, ?_⟩
    · rw [List.nodup_append]
      exact ⟨na, nu, fun a ha b hb hab => by subst hab; exact disj .active .upcoming (by decide) a ha hb⟩
    · intro a ha b hb hab
      subst hab
      rcases List.mem_append.1 ha with h1 | h1
      · exact disj .active .finished (by decide) a h1 hb
      · exact disj .upcoming .finished (by decide) a h1 hb

/-! ### preservation -/

theorem rsInvM_empty : RsInvM RefStore.empty where
  si := sorted_nil
  ki := fun _ h => by cases h
  sr := fun c => by cases c <;> exact sorted_nil
  ne := fun c => by cases c <;> (intro e he; cases he)
  ln := fun c t => by cases c <;> exact List.nodup_nil
  pts := fun c t id ⟨l, hl, _⟩ => by cases c <;> cases hl
  cov := fun _ h => by cases h
  one := fun c _ _ _ _ ⟨l, hl, _⟩ => by cases c <;> cases hl

/-- replacing one class's section -/
def RefStore.withRefs (s : RefStore) (c : Cls) (r : Refs) : RefStore :=
  match c with
  | .upcoming => { s with upcoming := r }
  | .active => { s with active := r }
  | .finished => { s with finished := r }

theorem withRefs_refs (s : RefStore) (c c' : Cls) (r : Refs) :
    (s.withRefs c r).refs c' = if c' = c then r else s.refs c' := by
  cases c <;> cases c' <;> simp [RefStore.withRefs, RefStore.refs]

theorem withRefs_items (s : RefStore) (c : Cls) (r : Refs) : (s.withRefs c r).items = s.items := by
  cases c <;> rfl

theorem setWithRef_eq (now : Nat) (s : RefStore) (x : Item) :
    s.setWithRef now x =
      ({ s with items := kvSet ltNat x.id x s.items } : RefStore).withRefs (x.cls now) (refAdd x.start x.id (s.refs (x.cls now))) := by
  unfold RefStore.setWithRef
  cases x.cls now <;> rfl

theorem rsInvM_create {s : RefStore} (h : RsInvM s) (now : Nat) (x : Item) (hf : kvHas x.id s.items = false) :
    RsInvM (s.setWithRef now x) := by
  rw [setWithRef_eq]
  have hfresh : ∀ e ∈ s.items, e.1 ≠ x.id := kvHas_false hf
  have hnoref : ∀ c t, ¬ InRefs (s.refs c) t x.id := by
    intro c t hin
    obtain ⟨y, hy, _⟩ := h.pts c t x.id hin
    exact hfresh _ hy rfl
  have hmem := mem_kvSet (β := Item) soNat x.id x h.si
  have hrefs : ∀ c', (RefStore.withRefs { s with items := kvSet ltNat x.id x s.items } (x.cls now)
      (refAdd x.start x.id (s.refs (x.cls now)))).refs c' =
      if c' = x.cls now then refAdd x.start x.id (s.refs (x.cls now)) else s.refs c' := by
    intro c'; rw [withRefs_refs]; split <;> rfl
  have hin : ∀ c' t id, InRefs ((RefStore.withRefs { s with items := kvSet ltNat x.id x s.items } (x.cls now)
      (refAdd x.start x.id (s.refs (x.cls now)))).refs c') t id ↔
      InRefs (s.refs c') t id ∨ (c' = x.cls now ∧ t = x.start ∧ id = x.id) := by
    intro c' t id
    rw [hrefs]
    by_cases hc : c' = x.cls now
    · subst hc; rw [if_pos rfl, inRefs_refAdd (h.sr _)]; simp
    · rw [if_neg hc]; simp [hc]
  constructor
  · rw [withRefs_items]; exact sorted_kvSet soNat _ _ h.si
  · rw [withRefs_items]; exact keyed_kvSet (key := fun y : Item => y.id) soNat h.si h.ki x
  · intro c'; rw [hrefs]; split
    · exact sorted_refAdd (h.sr _) _ _
    · exact h.sr c'
  · intro c'; rw [hrefs]; split
    · exact noEmpty_refAdd (h.sr _) (h.ne _) _ _
    · exact h.ne c'
  · intro c' t; rw [hrefs]; split
    · rw [look_refAdd (h.sr _)]
      split
      · rename_i ht
        rw [List.nodup_append]
        refine ⟨h.ln _ _, by simp, ?_⟩
        intro a ha b hb hab
        simp only [List.mem_singleton] at hb
        subst hab; subst hb
        exact hnoref (x.cls now) x.start ((inRefs_iff_look (h.sr _) _ _).2 ha)
      · exact h.ln _ _
    · exact h.ln c' t
  · intro c' t id hi
    rw [withRefs_items]
    rcases (hin c' t id).1 hi with h1 | ⟨_, rfl, rfl⟩
    · obtain ⟨y, hy, hyt⟩ := h.pts c' t id h1
      exact ⟨y, (hmem _).2 (Or.inr ⟨hy, hfresh _ hy⟩), hyt⟩
    · exact ⟨x, (hmem _).2 (Or.inl rfl), rfl⟩
  · intro e he
    rw [withRefs_items] at he
    rcases (hmem e).1 he with rfl | ⟨he', _⟩
    · exact ⟨x.cls now, (hin _ _ _).2 (Or.inr ⟨rfl, rfl, rfl⟩)⟩
    · obtain ⟨c', hc'⟩ := h.cov e he'
      exact ⟨c', (hin _ _ _).2 (Or.inl hc')⟩
  · intro c1 c2 t t' i h1 h2
    rcases (hin c1 t i).1 h1 with a | ⟨ha1, _, ha3⟩ <;> rcases (hin c2 t' i).1 h2 with b | ⟨hb1, _, hb3⟩
    · exact h.one c1 c2 t t' i a b
    · rw [hb3] at a; exact absurd a (hnoref _ _)
    · rw [ha3] at b; exact absurd b (hnoref _ _)
    · rw [ha1, hb1]

/-- moving a listed id from class `c1` to another class `c2` under the same time key -/
theorem rsInvM_move {s : RefStore} (h : RsInvM s) (c1 c2 : Cls) (hne : c1 ≠ c2) (t id : Nat)
    (hin0 : InRefs (s.refs c1) t id) :
    RsInvM ((s.withRefs c1 (refDel t id (s.refs c1))).withRefs c2 (refAdd t id (s.refs c2))) := by
  have hrefs : ∀ c', ((s.withRefs c1 (refDel t id (s.refs c1))).withRefs c2 (refAdd t id (s.refs c2))).refs c' =
      if c' = c2 then refAdd t id (s.refs c2) else if c' = c1 then refDel t id (s.refs c1) else s.refs c' := by
    intro c'; rw [withRefs_refs, withRefs_refs]
  have hitems : ((s.withRefs c1 (refDel t id (s.refs c1))).withRefs c2 (refAdd t id (s.refs c2))).items = s.items := by
    rw [withRefs_items, withRefs_items]
  have hin : ∀ c' t' id', InRefs (((s.withRefs c1 (refDel t id (s.refs c1))).withRefs c2 (refAdd t id (s.refs c2))).refs c') t' id' ↔
      (InRefs (s.refs c') t' id' ∧ ¬ (c' = c1 ∧ t' = t ∧ id' = id)) ∨ (c' = c2 ∧ t' = t ∧ id' = id) := by
    intro c' t' id'
    rw [hrefs]
    by_cases h2 : c' = c2
    · subst h2
      rw [if_pos rfl, inRefs_refAdd (h.sr _)]
      have : ¬ c' = c1 := fun e => hne e.symm
      simp [this]
    · rw [if_neg h2]
      by_cases h1 : c' = c1
      · subst h1
        rw [if_pos rfl, inRefs_refDel (h.sr _) _ _ _ _ (h.ln _ _)]
        simp [h2]
      · rw [if_neg h1]; simp [h1, h2]
  have hnot2 : ∀ t', ¬ InRefs (s.refs c2) t' id := fun t' hx => hne (h.one c1 c2 t t' id hin0 hx)
  constructor
  · rw [hitems]; exact h.si
  · rw [hitems]; exact h.ki
  · intro c'; rw [hrefs]; split
    · exact sorted_refAdd (h.sr _) _ _
    · split
      · exact sorted_refDel (h.sr _) _ _
      · exact h.sr c'
  · intro c'; rw [hrefs]; split
    · exact noEmpty_refAdd (h.sr _) (h.ne _) _ _
    · split
      · exact noEmpty_refDel (h.sr _) (h.ne _) _ _
      · exact h.ne c'
  · intro c' t'; rw [hrefs]; split
    · rw [look_refAdd (h.sr _)]
      split
      · rw [List.nodup_append]
        refine ⟨h.ln _ _, by simp, ?_⟩
        intro a ha b hb hab
        simp only [List.mem_singleton] at hb
        subst hab; subst hb
        exact hnot2 t ((inRefs_iff_look (h.sr _) _ _).2 ha)
      · exact h.ln _ _
    · split
      · rw [look_refDel (h.sr _)]
        split
        · exact (swapRemove_spec _ id (h.ln _ _)).2
        · exact h.ln _ _
      · exact h.ln c' t'
  · intro c' t' id' hi
    rw [hitems]
    rcases (hin c' t' id').1 hi with ⟨h1, _⟩ | ⟨_, rfl, rfl⟩
    · exact h.pts c' t' id' h1
    · exact h.pts c1 t' id' hin0
  · intro e he
    rw [hitems] at he
    obtain ⟨c', hc'⟩ := h.cov e he
    by_cases hmv : c' = c1 ∧ e.2.start = t ∧ e.1 = id
    · exact ⟨c2, (hin _ _ _).2 (Or.inr ⟨rfl, hmv.2.1, hmv.2.2⟩)⟩
    · exact ⟨c', (hin _ _ _).2 (Or.inl ⟨hc', hmv⟩)⟩
  · intro ca cb ta tb id' ha hb
    rcases (hin ca ta id').1 ha with ⟨a1, a2⟩ | ⟨rfl, rfl, rfl⟩ <;> rcases (hin cb tb id').1 hb with ⟨b1, b2⟩ | ⟨rfl, rfl, hb3⟩
    · exact h.one ca cb ta tb id' a1 b1
    · -- id' = id is listed in class ca (not moved away) and arrives in c2: ca must have been c1 at time t
      subst hb3
      have hc : ca = c1 := h.one ca c1 ta tb id' a1 hin0
      have ht : ta = tb := h.time_unique a1 hin0
      exact absurd ⟨hc, ht, rfl⟩ a2
    · have hc : cb = c1 := h.one cb c1 tb ta id' b1 hin0
      have ht : tb = ta := h.time_unique b1 hin0
      exact absurd ⟨hc, ht, rfl⟩ b2
    · rfl

theorem rsInvM_update {s : RefStore} (h : RsInvM s) (x y : Item) (hg : kvGet y.id s.items = some x) (hst : x.start = y.start) :
    RsInvM { s with items := kvSet ltNat y.id y s.items } := by
  have hx : (y.id, x) ∈ s.items := kvGet_some hg
  have hmem := mem_kvSet (β := Item) soNat y.id y h.si
  refine ⟨sorted_kvSet soNat _ _ h.si, keyed_kvSet (key := fun z : Item => z.id) soNat h.si h.ki y, h.sr, h.ne, h.ln, ?_, ?_, h.one⟩
  · intro c t id hi
    obtain ⟨z, hz, hzt⟩ := h.pts c t id hi
    by_cases hid : id = y.id
    · subst hid
      have := h.si.eq_of_key soNat hz hx rfl
      have hzx : z = x := (Prod.mk.inj this).2
      exact ⟨y, (hmem _).2 (Or.inl rfl), by rw [← hst, ← hzx]; exact hzt⟩
    · exact ⟨z, (hmem _).2 (Or.inr ⟨hz, hid⟩), hzt⟩
  · intro e he
    rcases (hmem e).1 he with rfl | ⟨he', _⟩
    · obtain ⟨c, hc⟩ := h.cov _ hx
      simp only at hc
      rw [hst] at hc
      exact ⟨c, hc⟩
    · exact h.cov e he'

theorem rsInvM_step {s : RefStore} (h : RsInvM s) (now : Nat) (op : RsOp) : RsInvM (rsStep now s op) := by
  cases op with
  | create x =>
    simp only [rsStep]
    split
    · exact h
    · rename_i hf; exact rsInvM_create h now x (by simpa using hf)
  | activate id =>
    simp only [rsStep]
    split
    · rename_i x hg
      split
      · exact h
      · split
        · rename_i hm
          have hin0 : InRefs (s.refs .upcoming) x.start id := (inRefs_iff_look (h.sr .upcoming) _ _).2 hm
          exact rsInvM_move h .upcoming .active (by decide) x.start id hin0
        · exact h
    · exact h
  | finish id =>
    simp only [rsStep]
    split
    · rename_i x hg
      split
      · rename_i hm
        have hin0 : InRefs (s.refs .active) x.start id := (inRefs_iff_look (h.sr .active) _ _).2 hm
        exact rsInvM_move h .active .finished (by decide) x.start id hin0
      · exact h
    · exact h
  | update y =>
    simp only [rsStep]
    split
    · rename_i x hg
      split
      · rename_i hst; exact rsInvM_update h x y hg hst
      · exact h
    · exact h
  | terminate id =>
    simp only [rsStep]
    split
    · rename_i x hg
      split
      · split
        · rename_i hm
          have hin0 : InRefs (s.refs .active) x.start id := (inRefs_iff_look (h.sr .active) _ _).2 hm
          exact rsInvM_move h .active .finished (by decide) x.start id hin0
        · exact h
      · split
        · split
          · rename_i hm
            have hin0 : InRefs (s.refs .upcoming) x.start id := (inRefs_iff_look (h.sr .upcoming) _ _).2 hm
            exact rsInvM_move h .upcoming .finished (by decide) x.start id hin0
          · exact h
        · exact h
    · exact h

/-- **the reference-store invariant holds in every reachable state** -/
theorem rsInv_run (ops : List (Nat × RsOp)) : RsInv (rsRun ops) := by
  unfold rsRun
  suffices ∀ s, RsInvM s → RsInvM (ops.foldl (fun s o => rsStep o.1 s o.2) s) from (this _ rsInvM_empty).toRsInv
  induction ops with
  | nil => exact fun _ h => h
  | cons o os ih => exact fun s h => ih _ (rsInvM_step h o.1 o.2)

end DymVerif.Genesis
