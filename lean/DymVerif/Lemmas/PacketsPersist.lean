/-
  Lemmas/PacketsPersist — a pending packet survives every operation except its own accepted
  finalization and a hard fork whose range contains it: afterwards some packet is stored under the same
  key, PENDING, differing from the old one at most in `target` / `orig` (a fulfilment).
-/
import DymVerif.Lemmas.PacketsIndex
import DymVerif.Lemmas.PacketsFork
import DymVerif.Lemmas.PacketsEibc2
namespace DymVerif.Packets
open DymVerif DymVerif.Keys

/-- the same packet up to the beneficiary rewrite of a fulfilment -/
def Same (p p' : Packet) : Prop :=
  pkey p' = pkey p ∧ p'.status = .pending ∧ { p' with target := p.target, orig := p.orig } = p

/-- the packet survives in `s'` -/
def Surv (p : Packet) (s' : St) : Prop := ∃ p' ∈ s'.packets, Same p p'

theorem Same.refl {p : Packet} (h : p.status = .pending) : Same p p := ⟨rfl, h, rfl⟩

theorem Same.retarget {p q : Packet} (h : Same p q) (a : Addr) : Same p (retarget q a) := by
  obtain ⟨h1, h2, h3⟩ := h
  refine ⟨?_, h2, ?_⟩
  · rw [← h1]; rfl
  · rw [← h3]; rfl

theorem Surv.of_packets {p : Packet} {s s' : St} (e : s'.packets = s.packets) (h : Surv p s) : Surv p s' := by
  obtain ⟨q, hq, hs⟩ := h; exact ⟨q, e ▸ hq, hs⟩

theorem Surv.of_mem {p : Packet} {s : St} (hp : p ∈ s.packets) (hs : p.status = .pending) : Surv p s := ⟨p, hp, Same.refl hs⟩

/-- storing a packet under another key -/
theorem Surv.setOther {p q : Packet} {s : St} (h : Surv p s) (hk : pkey q ≠ pkey p) : Surv p (setPacket s q) := by
  obtain ⟨p', hp', hs⟩ := h
  exact ⟨p', mem_setPacket.mpr (Or.inr ⟨hp', by rw [hs.1]; exact fun e => hk e.symm⟩), hs⟩

theorem Surv.delOther {p : Packet} {s : St} {k : Bytes} (h : Surv p s) (hk : k ≠ pkey p) : Surv p (delPacket s k) := by
  obtain ⟨p', hp', hs⟩ := h
  refine ⟨p', ?_, hs⟩
  simp only [delPacket, List.mem_filter, bne_iff_ne, ne_eq]
  exact ⟨hp', by rw [hs.1]; exact fun e => hk e.symm⟩

theorem pkey_status {p q : Packet} (h : pkey p = pkey q) : p.status = q.status := by
  unfold pkey rollappPacketKey byStatusRollappHeightPrefix byStatusRollappPrefix byStatusPrefix at h
  simp only [List.append_assoc] at h
  have hl : (statusBytes p.status).length = (statusBytes q.status).length := by rw [statusBytes_length, statusBytes_length]
  exact statusBytes_inj _ _ (List.append_inj h hl).1

-- ------------------------------------------------------------------ fulfilment

theorem surv_updateTransferAddress {p : Packet} {s s' : St} {k : Bytes} {a : Addr} (hk : KeysNodup s.packets) (h : Surv p s)
    (hu : updateTransferAddress s k a = .ok s') : Surv p s' := by
  obtain ⟨q, hq, hst, rfl⟩ := updateTransferAddress_ok hu
  obtain ⟨hqm, hqk⟩ := getPacket_some hq
  obtain ⟨p', hp', hs⟩ := h
  by_cases e : pkey p' = pkey q
  · have : p' = q := keysNodup_eq hk hqm hp' e
    subst this
    exact ⟨retarget p' a, mem_setPacket.mpr (Or.inl rfl), hs.retarget a⟩
  · refine ⟨p', mem_setPacket.mpr (Or.inr ⟨?_, e⟩), hs⟩
    exact hp'

theorem surv_setOrderFulfilled {p : Packet} {s s' : St} {o f c} (hk : KeysNodup s.packets) (h : Surv p s)
    (hu : setOrderFulfilled s o f c = .ok s') : Surv p s' := by
  unfold setOrderFulfilled at hu
  exact surv_updateTransferAddress (s := setOrder s { o with fulfiller := some f }) hk h hu

theorem surv_fulfillCore {p : Packet} {s s' : St} {o f} (hk : KeysNodup s.packets) (h : Surv p s) (hu : fulfillCore s o f = .ok s') : Surv p s' := by
  unfold fulfillCore at hu
  split at hu
  · cases hu
  · split at hu
    · cases hu
    · rename_i s1 hs
      have fr := frame_sendCoins hs
      exact surv_setOrderFulfilled (by rw [fr.packets]; exact hk) (h.of_packets fr.packets) hu

theorem surv_onDemandLoop {p : Packet} {o : Order} : ∀ (l : List LP) {s s' : St}, KeysNodup s.packets → Surv p s → onDemandLoop s o l = .ok s' → Surv p s'
  | [], s, s', _, _, hu => by unfold onDemandLoop at hu; cases hu
  | x :: rest, s, s', hk, h, hu => by
    unfold onDemandLoop at hu
    split at hu
    · split at hu
      · cases hu
      · exact surv_onDemandLoop rest (s := delLp s x.id) hk h hu
    · cases hu
    · rename_i s1 hf
      cases hu
      exact (surv_fulfillCore hk h hf).of_packets rfl

theorem surv_fulfillAuthorizedCore {p : Packet} {s s' : St} {m} (hk : KeysNodup s.packets) (h : Surv p s)
    (hu : fulfillAuthorizedCore s m = .ok s') : Surv p s' := by
  obtain ⟨o, _, _, s1, s2, hs1, hs2, hf⟩ := fulfillAuthorizedCore_ok hu
  have fr := (frame_sendCoins hs1).trans (frame_payOperator hs2)
  exact surv_setOrderFulfilled (by rw [fr.packets]; exact hk) (h.of_packets fr.packets) hf

-- ------------------------------------------------------------------ finalization of another packet

theorem surv_finalizePacket {p : Packet} {s s' : St} {k : Bytes} (h : Surv p s) (hne : k ≠ pkey p)
    (hf : finalizePacket s k = .ok s') : Surv p s' := by
  unfold finalizePacket at hf
  split at hf
  · cases hf
  · rename_i q hq
    obtain ⟨-, hqk⟩ := getPacket_some hq
    split at hf
    · cases hf
    · unfold updateAfterFinalization at hf
      split at hf
      · cases hf
      · cases hf
        apply Surv.of_packets (frame_afterPacketStatusUpdated _ _ _ _).packets
        apply Surv.setOther
        · apply Surv.delOther
          · exact h.of_packets (frame_releaseEffect s q).packets
          · show pkey q ≠ pkey p
            rw [hqk]; exact hne
        · intro e
          obtain ⟨p', -, hs⟩ := h
          have := pkey_status (e.trans hs.1.symm)
          rw [hs.2.1] at this
          cases this

-- ------------------------------------------------------------------ epoch clean-up

theorem surv_deletePacket {p q : Packet} {s : St} (h : Surv p s) (hq : q.status = .finalized) : Surv p (deletePacket s q) := by
  obtain ⟨p', hp', hs⟩ := h
  refine ⟨p', ?_, hs⟩
  rw [deletePacket_packets]
  refine List.mem_filter.mpr ⟨hp', ?_⟩
  simp only [bne_iff_ne, ne_eq]
  intro e
  have := pkey_status e
  rw [hs.2.1, hq] at this
  cases this

theorem surv_foldl_deletePacket {p : Packet} : ∀ (l : List Packet) {s : St}, (∀ q ∈ l, q.status = .finalized) → Surv p s →
    Surv p (l.foldl deletePacket s)
  | [], _, _, h => h
  | q :: rest, s, hl, h => by
    rw [List.foldl_cons]
    exact surv_foldl_deletePacket rest (fun x hx => hl x (List.mem_cons_of_mem _ hx)) (surv_deletePacket h (hl q (List.mem_cons_self ..)))

theorem surv_epochCleanup {p : Packet} {s : St} (h : Surv p s) : Surv p (epochCleanup s) := by
  unfold epochCleanup
  apply surv_foldl_deletePacket _ _ h
  intro q hq
  have := (List.mem_filter.mp hq).2
  simpa using this

-- ------------------------------------------------------------------ hard fork

theorem surv_onHardFork {p : Packet} {s : St} (rid : Bytes) (lv : Nat) (hp : p ∈ s.packets) (hs : p.status = .pending)
    (hr : forkRange rid lv (pkey p) = false) : Surv p (onHardFork s rid lv) := by
  refine ⟨p, ?_, Same.refl hs⟩
  rw [onHardFork_eq, foldl_revert_packets]
  refine List.mem_filter.mpr ⟨hp, List.all_eq_true.mpr ?_⟩
  intro q hq
  have hqf := (List.mem_filter.mp hq).2
  simp only [bne_iff_ne, ne_eq]
  intro hk
  rw [hk, hqf] at hr
  cases hr

end DymVerif.Packets
