/-
  Lemmas/CoreGenesis — export followed by import is the identity on M-Core states with pairwise
  distinct rollapp ids and a consistent notice queue.
-/
import DymVerif.Model.CoreGenesis
import DymVerif.Lemmas.CoreBasic
namespace DymVerif.Core

def IdsDistinct (l : List Rollapp) : Prop := l.Pairwise (fun a b => a.id ≠ b.id)

/-- every notice-queue entry is backed by the sequencer record carrying that notice time -/
def NqOk (s : St) : Prop := ∀ e ∈ s.nq, ∃ q, s.seqs.find? (·.addr == e.2) = some q ∧ q.notice = some e.1

theorem indexed_map (l : List SInfo) (ra : Nat) : (indexed l ra).map (·.2.2) = l := by
  unfold indexed
  simp only [List.map_map]
  have : ((fun x : Nat × Nat × SInfo => x.2.2) ∘ fun x : Nat × SInfo => (ra, x.1 + 1, x.2)) = fun x => x.2 := rfl
  rw [this]
  have h := List.unzip_zip (l₁ := List.range l.length) (l₂ := l) (by simp)
  have := congrArg Prod.snd h
  simpa [List.unzip_eq_map] using this

theorem indexed_filter_same (l : List SInfo) (ra : Nat) : (indexed l ra).filter (fun x => x.1 == ra) = indexed l ra := by
  apply List.filter_eq_self.2
  intro x hx
  unfold indexed at hx
  simp only [List.mem_map] at hx
  obtain ⟨y, _, rfl⟩ := hx
  simp

theorem indexed_filter_other (l : List SInfo) (ra ra' : Nat) (h : ra ≠ ra') : (indexed l ra).filter (fun x => x.1 == ra') = [] := by
  apply List.filter_eq_nil_iff.2
  intro x hx
  unfold indexed at hx
  simp only [List.mem_map] at hx
  obtain ⟨y, _, rfl⟩ := hx
  simp [h]

/-- the state infos of one rollapp in the flat export, under distinct ids -/
theorem stateInfos_of (l : List Rollapp) (hd : IdsDistinct l) (r : Rollapp) (hr : r ∈ l) :
    ((l.flatMap fun x => indexed x.states x.id).filter (fun x => x.1 == r.id)).map (·.2.2) = r.states := by
  induction l with
  | nil => cases hr
  | cons a as ih =>
    have hp := List.pairwise_cons.1 hd
    simp only [List.flatMap_cons, List.filter_append, List.map_append]
    rcases List.mem_cons.1 hr with h1 | h1
    · subst h1
      rw [indexed_filter_same, indexed_map]
      have : (as.flatMap fun x => indexed x.states x.id).filter (fun x => x.1 == r.id) = [] := by
        apply List.filter_eq_nil_iff.2
        intro x hx
        simp only [List.mem_flatMap] at hx
        obtain ⟨y, hy, hxy⟩ := hx
        unfold indexed at hxy
        simp only [List.mem_map] at hxy
        obtain ⟨z, _, rfl⟩ := hxy
        have := hp.1 y hy
        simp; exact fun e => this e.symm
      rw [this]; simp
    · have hne : a.id ≠ r.id := hp.1 r h1
      rw [indexed_filter_other _ _ _ hne]
      simpa using ih hp.2 h1

theorem lookup_filterMap (l : List Rollapp) (hd : IdsDistinct l) (f : Rollapp → Option Nat) (r : Rollapp) (hr : r ∈ l) :
    lookup (l.filterMap fun x => (f x).map fun a => (x.id, a)) r.id = f r := by
  induction l with
  | nil => cases hr
  | cons a as ih =>
    have hp := List.pairwise_cons.1 hd
    rcases List.mem_cons.1 hr with h1 | h1
    · subst h1
      cases hf : f r with
      | some v => simp [List.filterMap_cons, hf, lookup]
      | none =>
        simp only [List.filterMap_cons, hf, Option.map_none]
        unfold lookup
        have : (as.filterMap fun x => (f x).map fun a => (x.id, a)).find? (fun x => x.1 == r.id) = none := by
          apply List.find?_eq_none.2
          intro x hx
          simp only [List.mem_filterMap] at hx
          obtain ⟨y, hy, hxy⟩ := hx
          cases hfy : f y with
          | none => simp [hfy] at hxy
          | some v =>
            simp [hfy] at hxy; subst hxy
            have := hp.1 y hy
            simp; exact fun e => this e.symm
        rw [this]; rfl
    · have hne : a.id ≠ r.id := hp.1 r h1
      cases hf : f a with
      | none => simp only [List.filterMap_cons, hf, Option.map_none]; exact ih hp.2 h1
      | some v =>
        simp only [List.filterMap_cons, hf, Option.map_some]
        unfold lookup
        simp only [List.find?_cons]
        have : ((a.id, v).1 == r.id) = false := by simp [hne]
        rw [this]
        exact ih hp.2 h1

theorem filter_map_eq_filterMap (l : List Rollapp) (p : Rollapp → Bool) (f : Rollapp → Nat) :
    (l.filter p).map (fun x => (x.id, f x)) =
      l.filterMap (fun x => (if p x then some (f x) else none).map fun a => (x.id, a)) := by
  induction l with
  | nil => rfl
  | cons a as ih =>
    simp only [List.filter_cons, List.filterMap_cons]
    cases hpa : p a with
    | true => simp [ih]
    | false => simp [ih]

theorem lookup_filter_map (l : List Rollapp) (hd : IdsDistinct l) (p : Rollapp → Bool) (f : Rollapp → Nat) (r : Rollapp) (hr : r ∈ l) :
    lookup ((l.filter p).map fun x => (x.id, f x)) r.id = if p r then some (f r) else none := by
  rw [filter_map_eq_filterMap]
  exact lookup_filterMap l hd (fun x => if p x then some (f x) else none) r hr

/-- the notice queue is rebuilt from the sequencer records -/
theorem nq_roundtrip (seqs : List Seq) (nq : List (Nat × Addr))
    (h : ∀ e ∈ nq, ∃ q, seqs.find? (·.addr == e.2) = some q ∧ q.notice = some e.1) :
    importNq seqs (nq.map (·.2)) = nq := by
  unfold importNq
  induction nq with
  | nil => rfl
  | cons e es ih =>
    obtain ⟨q, hq, hn⟩ := h e (by simp)
    simp only [List.map_cons, List.filterMap_cons, hq, Option.bind_some, hn, Option.map_some]
    rw [ih (fun x hx => h x (by simp [hx]))]

theorem importRollapp_export (s : St) (hd : IdsDistinct s.ras) (r : Rollapp) (hr : r ∈ s.ras) :
    importRollapp (exportCore s) (gOf r) = r := by
  have h1 := stateInfos_of s.ras hd r hr
  have h2 := lookup_filter_map s.ras hd (fun r => !r.states.isEmpty) (fun r => r.states.length) r hr
  have h3 := lookup_filter_map s.ras hd (fun r => r.lastFin != 0) (fun r => r.lastFin) r hr
  have h4 := lookup_filterMap s.ras hd (fun r => r.proposer) r hr
  have h5 := lookup_filterMap s.ras hd (fun r => r.successor) r hr
  unfold importRollapp exportCore gOf
  cases r with
  | mk id owner minBond launched revs states lastFin tph evH cdStart proposer successor =>
    simp only at h1 h2 h3 h4 h5 ⊢
    simp only [Rollapp.mk.injEq, true_and]
    refine ⟨?_, ?_, h4, h5⟩
    · rw [h1, h2]
      cases states with
      | nil => simp
      | cons a as => simp
    · rw [h3]
      by_cases hl : lastFin = 0
      · simp [hl]
      · simp [hl]

/-- **export ∘ import = id** on states with distinct rollapp ids and a consistent notice queue -/
theorem reimport_id (s : St) (hd : IdsDistinct s.ras) (hn : NqOk s) : reimport s = s := by
  have hras : (exportCore s).rollapps.map (importRollapp (exportCore s)) = s.ras := by
    show (s.ras.map gOf).map (importRollapp (exportCore s)) = s.ras
    rw [List.map_map]
    calc s.ras.map (importRollapp (exportCore s) ∘ gOf) = s.ras.map id :=
          List.map_congr_left (fun r hr => importRollapp_export s hd r hr)
      _ = s.ras := by simp
  have hnq : importNq (exportCore s).seqs (exportCore s).nq = s.nq := nq_roundtrip s.seqs s.nq hn
  unfold reimport importCore
  rw [hras, hnq]
  cases s; rfl

end DymVerif.Core
