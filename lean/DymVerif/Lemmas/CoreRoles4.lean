/-
  Lemmas/CoreRoles4 — the roles invariant through the message handlers.
-/
import DymVerif.Lemmas.CoreRoles3
namespace DymVerif.Core.Roles

-- ---------------------------------------------------------------- money movements change nothing role-relevant

/-- only balances differ -/
structure Same (s s' : St) : Prop where
  ras : s'.ras = s.ras
  seqs : s'.seqs = s.seqs
  nq : s'.nq = s.nq
  t : s'.t = s.t
  p : pp s' = pp s

theorem Same.refl (s : St) : Same s s := ⟨rfl, rfl, rfl, rfl, rfl⟩
theorem Same.trans {s1 s2 s3 : St} (h1 : Same s1 s2) (h2 : Same s2 s3) : Same s1 s3 :=
  ⟨h2.ras.trans h1.ras, h2.seqs.trans h1.seqs, h2.nq.trans h1.nq, h2.t.trans h1.t, h2.p.trans h1.p⟩
theorem Same.frame {s s' : St} (h : Same s s') : Frame s s' := Frame.of_eq h.ras h.seqs h.nq h.t h.p

theorem sendToModule_same {s s1 : St} {q q1 : Seq} {amt : Nat} (e : sendToModule s q amt = .ok (s1, q1)) :
    Same s s1 ∧ skey q1 = skey q := by
  unfold sendToModule at e; split at e
  · cases e
  · injection e with e; injection e with e1 e2; subst e1; subst e2; exact ⟨⟨rfl, rfl, rfl, rfl, rfl⟩, rfl⟩

theorem sendFromModule_same {s s1 : St} {q q1 : Seq} {amt : Nat} {to : Addr}
    (e : sendFromModule s q amt to = .ok (s1, q1)) : Same s s1 ∧ skey q1 = skey q := by
  unfold sendFromModule at e; split at e
  · cases e
  · split at e
    · cases e
    · split at e
      · cases e
      · injection e with e; injection e with e1 e2; subst e1; subst e2; exact ⟨⟨rfl, rfl, rfl, rfl, rfl⟩, rfl⟩

theorem burn_same {s s1 : St} {q q1 : Seq} {amt : Nat} (e : burn s q amt = .ok (s1, q1)) :
    Same s s1 ∧ skey q1 = skey q := by
  unfold burn at e; split at e
  · cases e
  · split at e
    · cases e
    · injection e with e; injection e with e1 e2; subst e1; subst e2; exact ⟨⟨rfl, rfl, rfl, rfl, rfl⟩, rfl⟩

theorem slash_same {s s1 : St} {q q1 : Seq} {amt : Nat} {mul : Dec} {rw : Option Addr}
    (e : slash s q amt mul rw = .ok (s1, q1)) : Same s s1 ∧ skey q1 = skey q := by
  unfold slash at e
  dsimp only at e
  split at e
  · cases e
  · rename_i s0 q0 h0
    have hb := burn_same e
    have h0' : Same s s0 ∧ skey q0 = skey q := by
      split at h0
      · injection h0 with h0; injection h0 with h1 h2; subst h1; subst h2; exact ⟨Same.refl _, rfl⟩
      · split at h0
        · exact sendFromModule_same h0
        · cases h0
    exact ⟨h0'.1.trans hb.1, hb.2.trans h0'.2⟩

theorem tryUnbond_same {s s1 : St} {q q1 : Seq} {amt : Nat} (e : tryUnbond s q amt = .ok (s1, q1)) :
    Same s s1 ∧ isProposer s q = false ∧ isSuccessor s q = false ∧ q1.addr = q.addr ∧ q1.rollapp = q.rollapp ∧
      q1.optedIn = q.optedIn ∧ q1.notice = q.notice ∧ (q1.bonded = true → q.bonded = true) := by
  unfold tryUnbond at e
  split at e
  · cases e
  · rename_i hps
    split at e
    · cases e
    · split at e
      · cases e
      · dsimp only at e
        split at e
        · cases e
        · split at e
          · cases e
          · rename_i s0 q0 h0
            have sp := sendFromModule_same h0
            injection e with e; injection e with e1 e2; subst e1; subst e2
            have hk := sp.2
            simp only [skey, Prod.mk.injEq] at hk
            have hps' : isProposer s q = false ∧ isSuccessor s q = false := by
              cases h1 : isProposer s q <;> cases h2 : isSuccessor s q <;> simp [h1, h2] at hps ⊢
            refine ⟨sp.1, hps'.1, hps'.2, ?_, ?_, ?_, ?_, ?_⟩
            · split <;> exact hk.1
            · split <;> exact hk.2.1
            · split <;> exact hk.2.2.2.1
            · split <;> exact hk.2.2.2.2
            · split
              · intro hc; cases hc
              · intro hc; rw [← hk.2.2.1]; exact hc

-- ---------------------------------------------------------------- the static part of a sequencer record

/-- rollapp and notice time of every address are the same in both states -/
def StatFrame (s s' : St) : Prop :=
  ∀ a, (getSeq s' a).map (fun q => (q.rollapp, q.notice)) = (getSeq s a).map (fun q => (q.rollapp, q.notice))

theorem StatFrame.refl (s : St) : StatFrame s s := fun _ => rfl
theorem StatFrame.trans {s1 s2 s3 : St} (h1 : StatFrame s1 s2) (h2 : StatFrame s2 s3) : StatFrame s1 s3 :=
  fun a => (h2 a).trans (h1 a)
theorem StatFrame.of_seqs {s s' : St} (e : s'.seqs = s.seqs) : StatFrame s s' := by
  intro a; rw [getSeq_congr e]

theorem StatFrame.get {s s' : St} (h : StatFrame s s') {a : Addr} {q : Seq} (hg : getSeq s a = some q) :
    ∃ q', getSeq s' a = some q' ∧ q'.rollapp = q.rollapp ∧ q'.notice = q.notice := by
  have := h a
  rw [hg] at this
  cases hg' : getSeq s' a with
  | none => rw [hg'] at this; cases this
  | some q' =>
    rw [hg'] at this
    simp only [Option.map_some, Option.some.injEq, Prod.mk.injEq] at this
    exact ⟨q', rfl, this.1, this.2⟩

theorem StatFrame.map {s : St} (f : Seq → Seq) (hf : ∀ x, (f x).addr = x.addr) (hr : ∀ x, (f x).rollapp = x.rollapp)
    (hn : ∀ x, (f x).notice = x.notice) : StatFrame s { s with seqs := s.seqs.map f } := by
  intro a
  rw [getSeq_mapSeqs s f hf]
  cases getSeq s a with
  | none => rfl
  | some x => simp [hr, hn]

theorem StatFrame.of_setSeq {s : St} {a : Addr} {q0 q : Seq} (hg : getSeq s a = some q0) (ha : q.addr = q0.addr)
    (hr : q.rollapp = q0.rollapp) (hn : q.notice = q0.notice) : StatFrame s (setSeq s q) := by
  intro b
  by_cases hb : q.addr = b
  · subst hb
    have hg' : getSeq s q.addr = some q0 := by rw [ha, getSeq_addr hg]; exact hg
    rw [getSeq_setSeq_same hg', hg']; simp [hr, hn]
  · rw [getSeq_setSeq_other hb]

theorem abruptRemoveProposer_stat (s : St) (ra : Nat) : StatFrame s (abruptRemoveProposer s ra) := by
  unfold abruptRemoveProposer
  split
  · exact StatFrame.refl s
  · split
    · exact StatFrame.refl s
    · split
      · exact StatFrame.refl s
      · rename_i _ a _ _ q hg
        have f1 : StatFrame s (removeFromNoticeQueue s q) := StatFrame.of_seqs (removeFromNoticeQueue_seqs s q).1
        have hg1 : getSeq (removeFromNoticeQueue s q) a = some q := by
          rw [getSeq_congr (removeFromNoticeQueue_seqs s q).1]; exact hg
        have f2 : StatFrame (removeFromNoticeQueue s q) (setSeq (removeFromNoticeQueue s q) { q with bonded := false }) :=
          StatFrame.of_setSeq hg1 rfl rfl rfl
        exact (f1.trans f2).trans (StatFrame.of_seqs (setProposer_seqs _ _ _).1)

theorem seqOnHardFork_stat (s : St) (ra : Nat) : StatFrame s (seqOnHardFork s ra) := by
  unfold seqOnHardFork
  have f1 : StatFrame s (optOutAll s ra) := by
    unfold optOutAll
    exact StatFrame.map _ (by intro x; split <;> rfl) (by intro x; split <;> rfl) (by intro x; split <;> rfl)
  exact (f1.trans (abruptRemoveProposer_stat _ _)).trans (StatFrame.of_seqs (setSuccessor_seqs _ _ _).1)

theorem hardFork_stat {s s' : St} {ra lv : Nat} (e : hardFork s ra lv = .ok s') : StatFrame s s' := by
  unfold hardFork at e
  split at e
  · cases e
  · split at e
    · cases e
    · split at e
      · cases e
      · split at e
        · cases e
        · dsimp only at e
          injection e with e; subst e
          unfold resetClock
          exact (StatFrame.of_seqs rfl).trans (seqOnHardFork_stat _ _)

theorem hardForkToLatest_stat {s s' : St} {ra : Nat} (e : hardForkToLatest s ra = .ok s') : StatFrame s s' := by
  unfold hardForkToLatest at e
  split at e
  · cases e
  · split at e
    · cases e
    · exact hardFork_stat e

-- ---------------------------------------------------------------- rotation and state updates

/-- a sequencer that is neither proposer nor successor of its own rollapp holds no role at all -/
theorem noRole_of_flags {s : St} {a : Addr} {q : Seq} (h : RolesCore s) (hg : getSeq s a = some q)
    (h1 : isProposer s q = false) (h2 : isSuccessor s q = false) :
    ∀ r ∈ s.ras, r.proposer ≠ some q.addr ∧ r.successor ≠ some q.addr := by
  have hqa := getSeq_addr hg
  intro r hr
  constructor
  · intro hp
    obtain ⟨q2, hq2, _, hr2⟩ := h.prop r hr _ hp
    rw [hqa, hg] at hq2; injection hq2 with hq2; subst hq2
    unfold isProposer at h1
    rw [hr2, getRa_of_mem h.uniq.ids hr] at h1
    simp [hp] at h1
  · intro hp
    obtain ⟨q2, hq2, _, hr2⟩ := h.succ r hr _ hp
    rw [hqa, hg] at hq2; injection hq2 with hq2; subst hq2
    unfold isSuccessor at h2
    rw [hr2, getRa_of_mem h.uniq.ids hr] at h2
    simp [hp] at h2

theorem onProposerLastBlock_roles {s s' : St} {prop : Seq} (h : Roles s) (hq : getSeq s prop.addr = some prop)
    (hp : ∃ r ∈ s.ras, r.proposer = some prop.addr) (e : onProposerLastBlock s prop = .ok s') : Roles s' := by
  obtain ⟨r0, hr0, hp0⟩ := hp
  obtain ⟨q2, hq2, _, hr2⟩ := h.core.prop r0 hr0 _ hp0
  rw [hq] at hq2; injection hq2 with hq2; subst hq2
  have hg0 : getRa s prop.rollapp = some r0 := by rw [hr2]; exact getRa_of_mem h.core.uniq.ids hr0
  unfold onProposerLastBlock at e
  split at e
  · cases e
  · rename_i hel
    split at e
    · cases e
    · rename_i r hg
      rw [hg0] at hg; injection hg with hg; subst hg
      dsimp only at e
      have c1 : RolesCore (setRa s { r0 with successor := none, proposer := r0.successor }) := by
        apply h.core.of_setRa (r0 := r0) hg0 (by rfl)
        · intro a ha; exact h.core.succ r0 hr0 a ha
        · intro a ha; cases ha
        · intro a ha; cases ha
        · intro a _ hs; cases hs
        · intro t a hta hpa
          rw [hp0] at hpa; injection hpa with hpa; subst hpa
          obtain ⟨q3, _, hq3, hn3, _, _⟩ := h.core.nq t _ hta
          rw [hq] at hq3; injection hq3 with hq3; subst hq3
          have := h.core.fut _ hta
          unfold noticeElapsed at hel
          rw [hn3] at hel
          simp at hel
          exact absurd this (by simp only; omega)
      split at e
      · rename_i hsn
        apply hardForkToLatest_roles c1 _ e
        intro x hx hne
        rcases mem_setRa' hx with ⟨h1, _⟩ | h1
        · exact h.sp x h1
        · subst h1; exact absurd rfl hne
      · rename_i a hsa
        injection e with e; subst e
        have s1 : SuccProp (setRa s { r0 with successor := none, proposer := r0.successor }) := by
          apply h.sp.of_setRa
          intro _; rfl
        have f := afterSetRealProposer_frame c1.uniq r0.id a
        exact ⟨c1.frame f, s1.frame f⟩

theorem seqAfterUpdate_roles {s s' : St} {m : UpdMsg} {b : Bool} (h : Roles s)
    (hp : ∃ r ∈ s.ras, r.proposer = some m.sender) (e : seqAfterUpdate s m b = .ok s') : Roles s' := by
  unfold seqAfterUpdate at e
  split at e
  · cases e
  · rename_i prop hg
    dsimp only at e
    have hpa : prop.addr = m.sender := getSeq_addr hg
    have f1 : Frame s (setSeq s { prop with dishonor := prop.dishonor - min s.sqp.dishonorSU prop.dishonor }) :=
      Frame.of_setSeq (q0 := prop) h.core.uniq hg (by rfl) (by rfl) (by rfl) (by rfl) (by rfl)
    have h1 := h.frame f1
    split at e
    · apply onProposerLastBlock_roles h1 _ _ e
      · exact getSeq_setSeq_same' (q0 := prop) hg (by rfl)
      · obtain ⟨r, hr, hpr⟩ := hp
        exact ⟨r, hr, by rw [hpr]; exact congrArg some hpa.symm⟩
    · injection e with e; subst e; exact h1

theorem updateState_roles {s s' : St} {m : UpdMsg} (h : Roles s) (e : updateState s m = .ok s') : Roles s' := by
  unfold updateState at e
  split at e
  · cases e
  · split at e
    · cases e
    · rename_i r hg
      split at e
      · cases e
      · rename_i hprop
        have hpr : r.proposer = some m.sender := by simpa using hprop
        split at e
        · cases e
        · split at e
          · cases e
          · split at e
            · cases e
            · split at e
              · cases e
              · split at e
                · cases e
                · rename_i s3 h3
                  dsimp only at e
                  split at e
                  · cases e
                  · rename_i r4 hg4
                    injection e with e; subst e
                    have f1 : Frame s (setRa s { r with states := r.states ++ [newSInfo s m (updSucc r m)] }) :=
                      Frame.of_setRa (r0 := r) h.core.uniq hg (by rfl) (by rfl) (by rfl)
                    have h1 := h.frame f1
                    have h3' : Roles s3 := by
                      apply seqAfterUpdate_roles h1 _ h3
                      exact ⟨_, getRa_mem (getRa_setRa_same' (r0 := r) hg (by rfl)), hpr⟩
                    have f4 : Frame s3 { s3 with queue := queueAppend s3.queue s3.h m.ra (r.states.length + 1),
                                                 seqH := addSeqHeights s3.seqH m.sender m.bds } :=
                      Frame.of_eq rfl rfl rfl rfl rfl
                    have h4 := h3'.frame f4
                    exact h4.frame (indicateLiveness_frame h4.core.uniq hg4)

-- ---------------------------------------------------------------- bonds

theorem createSeq_roles {s s' : St} {a : Addr} {ra bond : Nat} {d : Bool} (h : Roles s)
    (e : createSeq s a ra bond d = .ok s') : Roles s' := by
  unfold createSeq at e
  split at e
  · cases e
  · rename_i r hg
    split at e
    · cases e
    · rename_i hex
      have hnone : getSeq s a = none := by
        cases hx : getSeq s a with
        | none => rfl
        | some _ => simp [hx] at hex
      split at e
      · cases e
      · split at e
        · cases e
        · split at e
          · cases e
          · dsimp only at e
            have f0 : Frame s (if r.launched = true then s else setRa s { r with launched := true }) := by
              split
              · exact Frame.refl s
              · exact Frame.of_setRa (r0 := r) h.core.uniq hg (by rfl) (by rfl) (by rfl)
            have hs0 : (if r.launched = true then s else setRa s { r with launched := true }).seqs = s.seqs := by
              split <;> rfl
            split at e
            · cases e
            · rename_i s1 q1 hs
              have sp := sendToModule_same hs
              have hk := sp.2
              simp only [skey, Prod.mk.injEq] at hk
              have h1 : Roles s1 := (h.frame f0).frame sp.1.frame
              have hfresh : getSeq s1 q1.addr = none := by
                rw [getSeq_congr (sp.1.seqs.trans hs0), hk.1]; exact hnone
              have c2 : RolesCore { s1 with seqs := insertSorted (fun x y => decide (x.addr < y.addr)) q1 s1.seqs } :=
                h1.core.of_insertSeq hfresh hk.2.2.2.2
              have p2 : SuccProp { s1 with seqs := insertSorted (fun x y => decide (x.addr < y.addr)) q1 s1.seqs } :=
                h1.sp.of_ras rfl
              split at e
              · cases e
              · split at e
                · exact recoverFromSentinel_roles c2 p2 e
                · injection e with e; subst e; exact ⟨c2, p2⟩

theorem increaseBond_frame {s s' : St} {a : Addr} {amt : Nat} {d : Bool} (u : Uniq s)
    (e : increaseBond s a amt d = .ok s') : Frame s s' := by
  unfold increaseBond at e
  split at e
  · cases e
  · rename_i q hg
    split at e
    · cases e
    · split at e
      · cases e
      · split at e
        · cases e
        · rename_i s1 q1 hs
          have sp := sendToModule_same hs
          have hk := sp.2
          simp only [skey, Prod.mk.injEq] at hk
          injection e with e; subst e
          have f1 := sp.1.frame
          exact f1.trans (Frame.of_setSeq (q0 := q) (f1.uniq u) (by rw [getSeq_congr sp.1.seqs]; exact hg)
            hk.1 hk.2.1 hk.2.2.1 hk.2.2.2.1 hk.2.2.2.2)

/-- writing back the result of `tryUnbond` -/
theorem tryUnbond_write_roles {s s1 : St} {a : Addr} {q0 q q1 : Seq} {amt : Nat} (h : Roles s)
    (hg : getSeq s a = some q0) (ha : q.addr = q0.addr) (hr : q.rollapp = q0.rollapp) (hn : q.notice = q0.notice)
    (ho : q.optedIn = true → q0.optedIn = true)
    (e : tryUnbond s q amt = .ok (s1, q1)) : Roles (setSeq s1 q1) := by
  have sp := tryUnbond_same e
  obtain ⟨sm, hp1, hp2, e1, e2, e3, e4, _⟩ := sp
  have h1 : Roles s1 := h.frame sm.frame
  have hg1 : getSeq s1 a = some q0 := by rw [getSeq_congr sm.seqs]; exact hg
  have hip : isProposer s q0 = false := by
    unfold isProposer at hp1 ⊢; rw [hr, ha] at hp1; exact hp1
  have his : isSuccessor s q0 = false := by
    unfold isSuccessor at hp2 ⊢; rw [hr, ha] at hp2; exact hp2
  refine ⟨?_, h1.sp.of_ras rfl⟩
  apply h1.core.of_setSeq hg1 (e1.trans ha) (e2.trans hr)
  · intro _
    right
    intro r hr'
    rw [sm.ras] at hr'
    rw [e1, ha]
    exact noRole_of_flags h.core hg hip his r hr'
  · exact Or.inl (e4.trans hn)
  · intro hns
    rw [e4, hn] at hns
    have := h.core.optOut q0 (getSeq_mem hg) hns
    cases hq : q1.optedIn with
    | false => rfl
    | true => rw [e3] at hq; rw [ho hq] at this; cases this
  · intro t hta
    rw [sm.nq, e1, ha, getSeq_addr hg] at hta
    obtain ⟨q3, _, hq3, hn3, _, _⟩ := h.core.nq t a hta
    rw [hg] at hq3; injection hq3 with hq3; subst hq3
    rw [e4, hn]; exact hn3

theorem decreaseBond_roles {s s' : St} {a : Addr} {amt : Nat} (h : Roles s)
    (e : decreaseBond s a amt = .ok s') : Roles s' := by
  unfold decreaseBond at e
  split at e
  · cases e
  · rename_i q hg
    split at e
    · cases e
    · split at e
      · cases e
      · rename_i s1 q1 hs
        injection e with e; subst e
        exact tryUnbond_write_roles h hg rfl rfl rfl id hs

/-- a new notice-queue entry for a proposer whose notice time it is -/
theorem RolesCore.of_nqInsert {s : St} {a : Addr} {T : Nat} {q : Seq} {r : Rollapp} (h : RolesCore s)
    (hq : getSeq s a = some q) (hn : q.notice = some T) (hr : getRa s q.rollapp = some r) (hp : r.proposer = some a)
    (hT : s.t < T) : RolesCore { s with nq := insertSorted ltPair (T, a) s.nq } := by
  constructor
  · exact h.uniq.of_eq rfl rfl
  · exact h.prop
  · exact h.succ
  · exact h.succFresh
  · exact h.ne
  · exact h.optOut
  · intro t a' hta
    rcases insertSorted_mem _ _ _ _ hta with h1 | h1
    · injection h1 with h1 h2; subst h1; subst h2
      exact ⟨q, r, hq, hn, hr, hp⟩
    · exact h.nq t a' h1
  · intro e he
    rcases insertSorted_mem _ _ _ _ he with h1 | h1
    · subst h1; exact hT
    · exact h.fut e h1
  · exact h.np

theorem unbond_roles {s s' : St} {a : Addr} (h : Roles s) (e : unbond s a = .ok s') : Roles s' := by
  unfold unbond at e
  split at e
  · cases e
  · rename_i q hg
    have hqa := getSeq_addr hg
    split at e
    · cases e
    · rename_i r hgr
      split at e
      · cases e
      · rename_i hrot
        split at e
        · rename_i hisp
          split at e
          · cases e
          · split at e
            · cases e
            · rename_i hnip
              injection e with e; subst e
              have hpr : r.proposer = some a := by
                unfold isProposer at hisp; rw [hgr] at hisp; rw [← hqa]; simpa using hisp
              -- the proposer has not started a notice yet
              have hnn : q.notice = none := by
                have haw : awaitingLast s r = false := by
                  cases hc : awaitingLast s r with
                  | false => rfl
                  | true => simp [hc, hisp] at hrot
                unfold awaitingLast at haw
                rw [hpr] at haw
                simp only [hg] at haw
                unfold noticeElapsed at haw
                unfold noticeInProgress at hnip
                cases hn : q.notice with
                | none => rfl
                | some t =>
                  rw [hn] at haw hnip
                  simp at haw hnip
                  omega
              show Roles { setSeq s { q with optedIn := false, notice := some (s.t + s.sqp.noticePeriod) } with
                            nq := insertSorted ltPair (s.t + s.sqp.noticePeriod, a) s.nq }
              have c1 : RolesCore (setSeq s { q with optedIn := false, notice := some (s.t + s.sqp.noticePeriod) }) := by
                apply h.core.of_setSeq hg (by rfl) (by rfl)
                · intro hb; exact Or.inl hb
                · right
                  intro x hx hsx
                  obtain ⟨q2, hq2, _, hr2⟩ := h.core.succ x hx _ hsx
                  rw [show ({ q with optedIn := false, notice := some (s.t + s.sqp.noticePeriod) } : Seq).addr = a from hqa, hg] at hq2
                  injection hq2 with hq2; subst hq2
                  have hxr : x = r := by
                    have := getRa_of_mem h.core.uniq.ids hx
                    rw [← hr2, hgr] at this; injection this with this; exact this.symm
                  subst hxr
                  exact h.core.ne x hx a hpr (by rw [← hqa]; exact hsx)
                · intro _; rfl
                · intro t hta
                  obtain ⟨q3, _, hq3, hn3, _, _⟩ := h.core.nq t _ hta
                  rw [show ({ q with optedIn := false, notice := some (s.t + s.sqp.noticePeriod) } : Seq).addr = a from hqa, hg] at hq3
                  injection hq3 with hq3; subst hq3
                  rw [hnn] at hn3; cases hn3
              refine ⟨?_, h.sp.of_ras rfl⟩
              have := h.core.np
              apply c1.of_nqInsert (q := { q with optedIn := false, notice := some (s.t + s.sqp.noticePeriod) }) (r := r)
              · rw [← hqa]; exact getSeq_setSeq_same' (q0 := q) hg (by rfl)
              · rfl
              · exact hgr
              · exact hpr
              · show s.t < s.t + s.sqp.noticePeriod; omega
        · split at e
          · cases e
          · rename_i s1 q1 hs
            injection e with e; subst e
            exact tryUnbond_write_roles (q := { q with optedIn := false }) h hg rfl rfl rfl (fun hc => Bool.noConfusion hc) hs

theorem optIn_roles {s s' : St} {a : Addr} {v : Bool} (h : Roles s) (e : optIn s a v = .ok s') : Roles s' := by
  unfold optIn at e
  split at e
  · cases e
  · rename_i q hg
    split at e
    · cases e
    · rename_i hns
      have hnn : q.notice = none := by
        cases hn : q.notice with
        | none => rfl
        | some _ => simp [hn] at hns
      dsimp only at e
      have c1 : RolesCore (setSeq s { q with optedIn := v }) := by
        apply h.core.of_setSeq hg (by rfl) (by rfl)
        · intro hb; exact Or.inl hb
        · exact Or.inl rfl
        · intro hc; rw [show ({ q with optedIn := v } : Seq).notice = none from hnn] at hc; cases hc
        · intro t hta
          obtain ⟨q3, _, hq3, hn3, _, _⟩ := h.core.nq t _ hta
          rw [show ({ q with optedIn := v } : Seq).addr = a from (getSeq_addr hg : q.addr = a), hg] at hq3
          injection hq3 with hq3; subst hq3
          exact hn3
      have p1 : SuccProp (setSeq s { q with optedIn := v }) := h.sp.of_ras rfl
      split at e
      · cases e
      · split at e
        · exact recoverFromSentinel_roles c1 p1 e
        · injection e with e; subst e; exact ⟨c1, p1⟩

theorem punish_frame {s s' : St} {a : Addr} {rw : Option Addr} (u : Uniq s) (e : punish s a rw = .ok s') : Frame s s' := by
  unfold punish at e
  split at e
  · cases e
  · rename_i q hg
    dsimp only at e
    split at e
    · cases e
    · rename_i s1 q1 hs
      have sp := slash_same hs
      have hk := sp.2
      simp only [skey, Prod.mk.injEq] at hk
      injection e with e; subst e
      have f1 := sp.1.frame
      exact f1.trans (Frame.of_setSeq (q0 := q) (f1.uniq u) (by rw [getSeq_congr sp.1.seqs]; exact hg)
        hk.1 hk.2.1 hk.2.2.1 hk.2.2.2.1 hk.2.2.2.2)

theorem fraud_roles {s s' : St} {au : Bool} {ra hh rev : Nat} {p rw : Option Addr} (h : Roles s)
    (e : fraud s au ra hh rev p rw = .ok s') : Roles s' := by
  unfold fraud at e
  split at e
  · cases e
  · split at e
    · cases e
    · split at e
      · cases e
      · split at e
        · cases e
        · dsimp only at e
          split at e
          · cases e
          · rename_i s1 h1
            have : Roles s1 := by
              split at h1
              · exact h.frame (punish_frame h.core.uniq h1)
              · injection h1 with h1; subst h1; exact h
            exact hardFork_roles this.core (this.sp.ex ra) e

-- ---------------------------------------------------------------- kick

theorem kick_roles {s s' : St} {a : Addr} (h : Roles s) (e : kick s a = .ok s') : Roles s' := by
  unfold kick at e
  split at e
  · cases e
  · rename_i kicker hgk
    split at e
    · cases e
    · rename_i hpot
      have hkb : kicker.bonded = true ∧ kicker.optedIn = true := by
        cases h1 : kicker.bonded <;> cases h2 : kicker.optedIn <;> simp [h1, h2] at hpot ⊢
      split at e
      · cases e
      · rename_i r hgr
        split at e
        · cases e
        · rename_i pa hpa
          split at e
          · cases e
          · split at e
            · cases e
            · split at e
              · cases e
              · dsimp only at e
                split at e
                · cases e
                · rename_i s3 h3
                  have c2 : RolesCore (abruptRemoveProposer s r.id) := abruptRemoveProposer_core h.core
                  have p2 : SuccPropEx r.id (abruptRemoveProposer s r.id) := abruptRemoveProposer_ex (h.sp.ex r.id)
                  have h3' : Roles s3 := hardForkToLatest_roles c2 p2 h3
                  have sf : StatFrame s s3 := (abruptRemoveProposer_stat s r.id).trans (hardForkToLatest_stat h3)
                  obtain ⟨q3, hq3, hr3, hn3⟩ := sf.get hgk
                  -- an opted-in sequencer has not started a notice
                  have hkn : kicker.notice = none := by
                    cases hn : kicker.notice with
                    | none => rfl
                    | some t =>
                      have := h.core.optOut kicker (getSeq_mem hgk) (by rw [hn]; rfl)
                      rw [hkb.2] at this; cases this
                  have c4 : RolesCore (setSeq s3 { kicker with optedIn := true }) := by
                    apply h3'.core.of_setSeq hq3 _ (by exact hr3.symm)
                    · intro _; exact Or.inl hkb.1
                    · exact Or.inl hn3.symm
                    · intro hc; rw [show ({ kicker with optedIn := true } : Seq).notice = none from hkn] at hc; cases hc
                    · intro t hta
                      obtain ⟨q5, _, hq5, hn5, _, _⟩ := h3'.core.nq t _ hta
                      rw [show ({ kicker with optedIn := true } : Seq).addr = a from (getSeq_addr hgk : kicker.addr = a), hq3] at hq5
                      injection hq5 with hq5; subst hq5
                      rw [hn3, hkn] at hn5; cases hn5
                    · show kicker.addr = q3.addr
                      rw [getSeq_addr hgk, getSeq_addr hq3]
                  exact recoverFromSentinel_roles c4 (h3'.sp.of_ras rfl) e

end DymVerif.Core.Roles
