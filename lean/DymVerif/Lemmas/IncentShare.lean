/-
  Lemmas/IncentShare — the stream share formula `amount.Mul(weight.Quo(total)).TruncateInt()` in
  closed form: ⌊amount · ratio / 10^18⌋ with `ratio = round_half_even(weight·10^18 / total)`.
-/
import DymVerif.Lemmas.IncentBasic
namespace DymVerif.Incent
open DymVerif

/-- `weight.Quo(total)` as a raw 18-decimal numerator -/
def ratio (w W : Nat) : Nat := ((Dec.ofInt (w : Int)).quo (Dec.ofInt (W : Int))).raw.toNat

theorem chopRound_nonneg (d : Int) (h : 0 ≤ d) : 0 ≤ chopRound d := by
  unfold chopRound
  have : ¬ d < 0 := by omega
  simp only [this, if_false]
  exact Int.natCast_nonneg _

theorem chopRound_nat_mul (n : Nat) : chopRound ((n : Int) * decP) = (n : Int) := by
  unfold chopRound
  have h1 : ((n : Int) * decP).natAbs = n * decPN := by
    rw [Int.natAbs_mul]; simp [decP, decPN]
  have h2 : ¬ ((n : Int) * decP < 0) := by
    have : (0 : Int) ≤ (n : Int) * decP := Int.mul_nonneg (Int.natCast_nonneg _) (by decide)
    omega
  have hpos : 0 < decPN := by decide
  have hhalf : 0 < decHalf := by decide
  simp only [h1, h2, if_false, Nat.mul_mod_left, Nat.mul_div_cancel _ hpos, hhalf, if_true]

theorem quo_raw_nonneg (w W : Nat) : 0 ≤ ((Dec.ofInt (w : Int)).quo (Dec.ofInt (W : Int))).raw := by
  unfold Dec.quo Dec.ofInt
  simp only
  apply chopRound_nonneg
  apply Int.tdiv_nonneg
  · exact Int.mul_nonneg (Int.mul_nonneg (Int.mul_nonneg (Int.natCast_nonneg _) (by decide)) (by decide)) (by decide)
  · exact Int.mul_nonneg (Int.natCast_nonneg _) (by decide)

/-- closed form of the share -/
theorem streamShare_eq (a w W : Nat) : streamShare a w W = a * ratio w W / decPN := by
  unfold streamShare ratio
  have hq := quo_raw_nonneg w W
  generalize ((Dec.ofInt (w : Int)).quo (Dec.ofInt (W : Int))) = q at hq ⊢
  obtain ⟨n, hn⟩ := Int.eq_ofNat_of_zero_le hq
  unfold Dec.mul Dec.truncateInt chopTrunc Dec.ofInt
  simp only [hn]
  have : (a : Int) * decP * (n : Int) = ((a * n : Nat) : Int) * decP := by
    rw [Int.natCast_mul, Int.mul_assoc, Int.mul_comm decP, ← Int.mul_assoc]
  rw [this, chopRound_nat_mul]
  have h2 : decP = ((decPN : Nat) : Int) := by decide
  rw [h2, ← Int.ofNat_tdiv, Int.toNat_natCast, Int.toNat_natCast]

/-- Σ ⌊a·q_i / P⌋ ≤ ⌊a·Σq_i / P⌋ -/
theorem share_sum_le (a : Nat) (qs : List Nat) :
    (qs.map (fun q => a * q / decPN)).sum ≤ a * qs.sum / decPN := by
  induction qs with
  | nil => simp
  | cons q rest ih =>
    rw [List.map_cons, List.sum_cons, List.sum_cons, Nat.mul_add]
    have := div_add_div_le (a * q) (a * rest.sum) decPN
    omega

/-- the shares of one epoch stay within the epoch's coins **provided** the rounded ratios add up to
    at most 1 (they need not: half-even rounding of `w/W` can round every ratio up) -/
theorem shares_le_of_ratios (a W : Nat) (ws : List Nat) (h : (ws.map (fun w => ratio w W)).sum ≤ decPN) :
    (ws.map (fun w => streamShare a w W)).sum ≤ a := by
  have h1 : ws.map (fun w => streamShare a w W) = (ws.map (fun w => ratio w W)).map (fun q => a * q / decPN) := by
    simp [List.map_map, Function.comp_def, streamShare_eq]
  rw [h1]
  refine Nat.le_trans (share_sum_le a _) ?_
  apply Nat.div_le_of_le_mul
  rw [Nat.mul_comm decPN a]
  exact Nat.mul_le_mul_left a h


/-- the repaired formula (multiply before dividing, on math.Int): ⌊a·w/W⌋ -/
def fixedShare (a w W : Nat) : Nat := a * w / W

theorem fixedShare_sum_le (a W : Nat) (ws : List Nat) (h : ws.sum ≤ W) :
    (ws.map (fun w => fixedShare a w W)).sum ≤ a := by
  have h1 : (ws.map (fun w => fixedShare a w W)).sum ≤ a * ws.sum / W := by
    induction ws with
    | nil => simp
    | cons w rest ih =>
      have hr : rest.sum ≤ W := by simp only [List.sum_cons] at h; omega
      have := ih hr
      rw [List.map_cons, List.sum_cons, List.sum_cons, Nat.mul_add]
      have := div_add_div_le (a * w) (a * rest.sum) W
      unfold fixedShare at *
      omega
  refine Nat.le_trans h1 ?_
  rcases Nat.eq_zero_or_pos W with h0 | h0
  · subst h0; simp
  · apply Nat.div_le_of_le_mul
    rw [Nat.mul_comm W a]
    exact Nat.mul_le_mul_left a h

end DymVerif.Incent
