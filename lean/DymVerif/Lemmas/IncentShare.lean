/-
  Lemmas/IncentShare — the stream share formula after fix D1: `coin.Amount.Mul(weight).Quo(total)`,
  i.e. ⌊amount·weight/total⌋; the shares of one epoch never exceed the epoch's coins.
-/
import DymVerif.Lemmas.IncentBasic
namespace DymVerif.Incent
open DymVerif

/-- Σ ⌊a·w/W⌋ ≤ ⌊a·Σw/W⌋ ≤ a whenever Σ w ≤ W -/
theorem streamShare_sum_le (a W : Nat) (ws : List Nat) (h : ws.sum ≤ W) :
    (ws.map (fun w => streamShare a w W)).sum ≤ a := by
  have h1 : (ws.map (fun w => streamShare a w W)).sum ≤ a * ws.sum / W := by
    induction ws with
    | nil => simp
    | cons w rest ih =>
      have hr : rest.sum ≤ W := by simp only [List.sum_cons] at h; omega
      have := ih hr
      rw [List.map_cons, List.sum_cons, List.sum_cons, Nat.mul_add]
      have := div_add_div_le (a * w) (a * rest.sum) W
      unfold streamShare at *
      omega
  refine Nat.le_trans h1 ?_
  rcases Nat.eq_zero_or_pos W with h0 | h0
  · subst h0; simp
  · apply Nat.div_le_of_le_mul
    rw [Nat.mul_comm W a]
    exact Nat.mul_le_mul_left a h

/-- the formula the code had before fix D1 (`amount.Mul(weight.Quo(total)).TruncateInt()` on LegacyDec:
    the ratio is rounded half-even at 18 decimals before the multiplication), kept for the record -/
def streamShareOld (amount weight total : Nat) : Nat :=
  ((Dec.ofInt amount).mul ((Dec.ofInt weight).quo (Dec.ofInt total))).truncateInt.toNat

end DymVerif.Incent
