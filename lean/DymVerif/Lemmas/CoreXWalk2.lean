/-
  Lemmas/CoreXWalk2 — second half of the `QClosed` walk: sequencer messages, kick, fraud, obsolete
  marking, block processing, and the step / run theorems.

  (Integration with agent-corea: the three cases `punish` / `transferOwner` / `setSeqParams` of `apply_w`
  were added exactly along the note below.)

  NOTE FOR WHOEVER ADDS A CONSTRUCTOR TO `Core.Op`: `apply_w` below is the ONE place of the
  `CoreX*` / `Props/C0nX*` files that splits over the constructors of `Op`.  A new message whose
  handler leaves `ras` alone (e.g. a punish proposal = `punish` behind an authority check) is closed by
  `punish_w`-style `RaAll.of_ras_eq`; one that rewrites a field outside `xv` / `proposer` of one record
  (e.g. the owner) by `RaAll.setRa w.q (hc.view (w.q.get hg) rfl (Or.inl rfl))`.
-/
import DymVerif.Lemmas.CoreXWalk
namespace DymVerif.Core.XW
open DymVerif.Core.LevNs

section
variable {Q : Rollapp → Prop}

-- ---------------------------------------------------------------- proposer removal

theorem setProposer_none_q (hc : QClosed Q) {s : St} {ra : Nat} (h : RaAll Q s) : RaAll Q (setProposer s ra none) := by
  unfold setProposer
  split
  · exact h
  · rename_i r hg
    exact RaAll.setRa h (hc.view (h.get hg) rfl (Or.inr rfl))

theorem abruptRemoveProposer_q (hc : QClosed Q) {s : St} {ra : Nat} (h : RaAll Q s) : RaAll Q (abruptRemoveProposer s ra) := by
  unfold abruptRemoveProposer
  split
  · exact h
  · split
    · exact h
    · split
      · exact h
      · rename_i q _
        apply setProposer_none_q hc
        exact RaAll.of_ras_eq h (by rw [setSeq_ras, removeFromNoticeQueue_ras])

theorem abruptRemoveProposer_w (hc : QClosed Q) {s : St} {ra : Nat} (w : W Q s) : W Q (abruptRemoveProposer s ra) :=
  ⟨(abruptRemoveProposer_own w.own).1, abruptRemoveProposer_chain w.chain, abruptRemoveProposer_cl ids_closed w.ids,
    by rw [(abruptRemoveProposer_cl (hp_closed s.h s.p) (s := s) ⟨rfl, rfl⟩).1]; exact w.hpos,
    abruptRemoveProposer_q hc w.q⟩

-- ---------------------------------------------------------------- sequencer messages

theorem createSeq_q (hc : QClosed Q) {s s' : St} {a : Addr} {ra bond : Nat} {d : Bool} (hp : 1 ≤ s.h) (h : RaAll Q s)
    (e : createSeq s a ra bond d = .ok s') : RaAll Q s' := by
  unfold createSeq at e
  split at e
  · cases e
  · rename_i r hg
    split at e
    · cases e
    · split at e
      · cases e
      · split at e
        · cases e
        · split at e
          · cases e
          · dsimp only at e
            have h0 : RaAll Q (if r.launched = true then s else setRa s { r with launched := true }) ∧
                (if r.launched = true then s else setRa s { r with launched := true }).h = s.h := by
              split
              · exact ⟨h, rfl⟩
              · exact ⟨RaAll.setRa h (hc.view (h.get hg) rfl (Or.inl rfl)), rfl⟩
            split at e
            · cases e
            · rename_i s1 q1 hs
              have hsame := sendToModule_same hs
              have h2 : RaAll Q { s1 with seqs := insertSorted (fun x y => decide (x.addr < y.addr)) q1 s1.seqs } :=
                RaAll.of_ras_eq h0.1 hsame.1
              have hp2 : 1 ≤ ({ s1 with seqs := insertSorted (fun x y => decide (x.addr < y.addr)) q1 s1.seqs } : St).h := by
                show 1 ≤ s1.h; rw [hsame.2.2.1, h0.2]; exact hp
              split at e
              · cases e
              · split at e
                · exact recoverFromSentinel_q hc hp2 h2 e
                · injection e with e; subst e; exact h2

theorem increaseBond_q {s s' : St} {a : Addr} {amt : Nat} {d : Bool} (h : RaAll Q s)
    (e : increaseBond s a amt d = .ok s') : RaAll Q s' := by
  unfold increaseBond at e
  split at e
  · cases e
  · split at e
    · cases e
    · split at e
      · cases e
      · split at e
        · cases e
        · rename_i s1 q1 hs
          injection e with e; subst e
          exact RaAll.of_ras_eq h (by rw [setSeq_ras]; exact (sendToModule_same hs).1)

theorem decreaseBond_q {s s' : St} {a : Addr} {amt : Nat} (h : RaAll Q s)
    (e : decreaseBond s a amt = .ok s') : RaAll Q s' := by
  unfold decreaseBond at e
  split at e
  · cases e
  · split at e
    · cases e
    · split at e
      · cases e
      · rename_i s1 q1 hs
        injection e with e; subst e
        exact RaAll.of_ras_eq h (by rw [setSeq_ras]; exact (tryUnbond_same hs).1)

theorem unbond_q {s s' : St} {a : Addr} (h : RaAll Q s) (e : unbond s a = .ok s') : RaAll Q s' := by
  unfold unbond at e
  repeat' split at e
  all_goals first
    | (injection e with e; subst e; exact RaAll.of_ras_eq h rfl)
    | (rename_i s1 q1 hs; injection e with e; subst e
       exact RaAll.of_ras_eq h (by rw [setSeq_ras]; exact (tryUnbond_same hs).1))
    | (cases e; done)

theorem optIn_q (hc : QClosed Q) {s s' : St} {a : Addr} {v : Bool} (hp : 1 ≤ s.h) (h : RaAll Q s)
    (e : optIn s a v = .ok s') : RaAll Q s' := by
  unfold optIn at e
  split at e
  · cases e
  · split at e
    · cases e
    · dsimp only at e
      have h1 : ∀ q : Seq, RaAll Q (setSeq s q) := fun q => RaAll.of_ras_eq h rfl
      split at e
      · cases e
      · split at e
        · exact recoverFromSentinel_q hc (by show 1 ≤ s.h; exact hp) (h1 _) e
        · injection e with e; subst e; exact h1 _

theorem kick_q (hc : QClosed Q) {s s' : St} {a : Addr} (w : W Q s) (e : kick s a = .ok s') : RaAll Q s' := by
  obtain ⟨kicker, r, pa, s3, _, _, _, _, h3, e'⟩ := Fork.kick_ok_elim e
  have w3 := hardForkToLatest_w hc (abruptRemoveProposer_w hc (ra := r.id) w) h3
  exact recoverFromSentinel_q hc (s := setSeq s3 { kicker with optedIn := true }) (by show 1 ≤ s3.h; exact w3.hpos)
    (RaAll.of_ras_eq w3.q rfl) e'

theorem punish_ras {s s' : St} {a : Addr} {rw : Option Addr} (e : punish s a rw = .ok s') : s'.ras = s.ras := by
  unfold punish at e
  split at e
  · cases e
  · dsimp only at e
    split at e
    · cases e
    · rename_i s1 q1 hs
      injection e with e; subst e
      rw [setSeq_ras]; exact (slash_same hs).1

theorem punish_w {s s' : St} {a : Addr} {rw : Option Addr} (w : W Q s) (e : punish s a rw = .ok s') : W Q s' :=
  ⟨punish_own w.own e, punish_chain w.chain e, punish_cl ids_closed w.ids e,
    by rw [(punish_cl (hp_closed s.h s.p) ⟨rfl, rfl⟩ e).1]; exact w.hpos, RaAll.of_ras_eq w.q (punish_ras e)⟩

theorem fraud_q (hc : QClosed Q) {s s' : St} {au : Bool} {ra hh rev : Nat} {p rw : Option Addr} (w : W Q s)
    (e : fraud s au ra hh rev p rw = .ok s') : RaAll Q s' := by
  obtain ⟨_, _, r, s1, _, _, h5, h6⟩ := Fork.fraud_ok_elim e
  cases p with
  | none =>
    have : s1 = s := h5
    subst this
    exact (hardFork_w hc w h6).q
  | some a =>
    have h5 : punish s a rw = .ok s1 := h5
    exact (hardFork_w hc (punish_w w h5) h6).q

theorem forkSeq_w (hc : QClosed Q) {a b : St} (f : Fork.ForkSeq a b) : W Q a → W Q b := by
  induction f with
  | refl => exact fun w => w
  | step ra _ hf ih => exact fun w => hardForkToLatest_w hc (ih w) hf

theorem markObsolete_q (hc : QClosed Q) {s s' : St} {au : Bool} {vs : List Nat} (w : W Q s)
    (e : markObsolete s au vs = .ok s') : RaAll Q s' := by
  obtain ⟨_, _, f⟩ := Fork.markObsolete_ok_elim e
  refine (forkSeq_w hc f ?_).q
  exact ⟨w.own.of_eq rfl rfl, w.chain.ras_eq rfl, w.ids, w.hpos, RaAll.of_ras_eq w.q rfl⟩

-- ---------------------------------------------------------------- block processing

theorem beginBlock_q (hc : QClosed Q) {s : St} {dt : Nat} (h : RaAll Q s) : RaAll Q (beginBlock s dt) := by
  unfold beginBlock
  dsimp only
  apply foldl_inv (RaAll Q)
  · exact RaAll.of_ras_eq h rfl
  · intro b e hb
    have hb1 : RaAll Q { b with nq := b.nq.filter (fun x => !(x.1 == e.1 && x.2 == e.2)) } := RaAll.of_ras_eq hb rfl
    split
    · exact hb1
    · split
      · exact hb1
      · rename_i r hg
        exact RaAll.setRa hb1 (hc.view (hb1.get hg) rfl (Or.inl rfl))

theorem finalizeOne_q (hc : QClosed Q) {s s' : St} {fails : List (Nat × Nat)} {ra idx : Nat} (h : RaAll Q s)
    (e : finalizeOne s fails ra idx = some s') : RaAll Q s' := by
  unfold finalizeOne at e
  split at e
  · cases e
  · split at e
    · cases e
    · rename_i r hg
      split at e
      · cases e
      · rename_i st hst
        split at e
        · cases e
        · dsimp only at e
          injection e with e; subst e
          have h1 : RaAll Q { s with seqH := s.seqH.filter (fun p => !(p.1 == st.creator && st.bds.any (·.height == p.2))) } :=
            RaAll.of_ras_eq h rfl
          refine RaAll.setRa h1 (hc.view (h.get hg) ?_ (Or.inl rfl))
          show (r.id, r.revs, (r.states.set (idx - 1) { st with finalized := true, finalizedAt := s.h }).map xKey, r.evH, r.cdStart) = _
          rw [set_fin_xKey hst]
          rfl

theorem finalizeEntry_go_q (hc : QClosed Q) (fails : List (Nat × Nat)) (e : QEntry) (l : List Nat) (s : St) (h : RaAll Q s) :
    RaAll Q (finalizeEntry.go fails e s l).1 := by
  induction l generalizing s with
  | nil => unfold finalizeEntry.go; exact RaAll.of_ras_eq h rfl
  | cons i rest ih =>
    unfold finalizeEntry.go
    split
    · rename_i s1 h1; exact ih s1 (finalizeOne_q hc h h1)
    · exact RaAll.of_ras_eq h rfl

theorem finalizeAll_q (hc : QClosed Q) (fails : List (Nat × Nat)) (es : List QEntry) (failed : List Nat) (s : St) (h : RaAll Q s) :
    RaAll Q (finalizeAll s fails es failed) := by
  induction es generalizing s failed with
  | nil => unfold finalizeAll; exact h
  | cons e es ih =>
    unfold finalizeAll
    split
    · exact ih _ _ h
    · have := finalizeEntry_go_q hc fails e e.idx s h
      unfold finalizeEntry
      exact ih _ _ this

theorem finalizeRollappStates_q (hc : QClosed Q) {s : St} {fails : List (Nat × Nat)} (h : RaAll Q s) :
    RaAll Q (finalizeRollappStates s fails) := by
  unfold finalizeRollappStates
  split
  · exact h
  · exact finalizeAll_q hc _ _ _ _ h

theorem handleLivenessEvent_q (hc : QClosed Q) {s : St} {ra : Nat} (h : RaAll Q s) : RaAll Q (handleLivenessEvent s ra) := by
  unfold handleLivenessEvent
  split
  · exact h
  · rename_i r hg
    split
    · exact h
    · rename_i s1 hs1
      have h1 : RaAll Q s1 := RaAll.of_ras_eq h (slashLiveness_ras hs1)
      split
      · exact h
      · rename_i r1 hg1
        refine RaAll.setRa (s := (scheduleEvent { s1 with lev := delEvent s1.lev s1.h ra } r1).1) ?_ ?_
        · exact RaAll.of_ras_eq h1 rfl
        · exact hc.resched _ _ _ (h1.get hg1)

theorem endBlock_q (hc : QClosed Q) {s : St} {f : List (Nat × Nat)} (h : RaAll Q s) : RaAll Q (endBlock s f) := by
  unfold endBlock checkLiveness
  apply foldl_inv (RaAll Q)
  · exact finalizeRollappStates_q hc h
  · intro b e hb; exact handleLivenessEvent_q hc hb

-- ---------------------------------------------------------------- all ops (the one split over `Op`)

theorem apply_hpos {s s' : St} {o : Op} (hp : 1 ≤ s.h) (e : apply s o = .ok s') : 1 ≤ s'.h := by
  cases hm : o.isMsg with
  | true => rw [(apply_msg_hp e hm).1]; exact hp
  | false =>
    cases o with
    | begin_ dt => simp only [apply] at e; injection e with e; subst e; rw [(beginBlock_frame s dt).2]; omega
    | end_ f => simp only [apply] at e; injection e with e; subst e; rw [endBlock_h]; exact hp
    | _ => cases hm

theorem apply_w (hc : QClosed Q) {s s' : St} {o : Op} (w : W Q s) (e : apply s o = .ok s') : W Q s' := by
  have hpos : 1 ≤ s'.h := apply_hpos w.hpos e
  refine ⟨apply_own w.own e, apply_chain w.chain e, apply_ids w.ids e, hpos, ?_⟩
  cases o with
  | createRollapp id owner mb =>
    simp only [apply] at e
    split at e
    · cases e
    · injection e with e; subst e
      intro x hx
      rcases insertSorted_mem _ _ _ _ hx with h1 | h1
      · subst h1; exact hc.fresh id owner mb
      · exact w.q x h1
  | bridge ra hh =>
    simp only [apply] at e
    split at e
    · cases e
    · rename_i r hg
      split at e
      · cases e
      · split at e
        · cases e
        · injection e with e; subst e
          exact RaAll.setRa w.q (hc.view (w.q.get hg) rfl (Or.inl rfl))
  | fund a amt => simp only [apply] at e; injection e with e; subst e; exact RaAll.of_ras_eq w.q rfl
  | createSeq a ra b d => exact createSeq_q hc w.hpos w.q e
  | bondInc a amt d => exact increaseBond_q w.q e
  | bondDec a amt => exact decreaseBond_q w.q e
  | unbond a => exact unbond_q w.q e
  | optIn a v => exact optIn_q hc w.hpos w.q e
  | kick a => exact kick_q hc w e
  | update m => exact (updateState_w hc w e).q
  | fraud au ra hh rev p rw => exact fraud_q hc w e
  | obsolete au vs => exact markObsolete_q hc w e
  | punish au a rw => exact RaAll.of_ras_eq w.q (punish_ras (punishProposal_ok e).2)
  | transferOwner sg ra' no =>
    obtain ⟨r, hg, _, _, _, rfl⟩ := transferOwner_ok e
    exact RaAll.setRa w.q (hc.view (w.q.get hg) rfl (Or.inl rfl))
  | setSeqParams au sp =>
    obtain ⟨_, _, _, rfl⟩ := setSeqParams_ok e
    exact RaAll.of_ras_eq w.q rfl
  | begin_ dt => simp only [apply] at e; injection e with e; subst e; exact beginBlock_q hc w.q
  | end_ f => simp only [apply] at e; injection e with e; subst e; exact endBlock_q hc w.q

end

theorem step_w {Q : Rollapp → Prop} (hc : QClosed Q) {s : St} {o : Op} (w : W Q s) : W Q (step s o).1 := by
  unfold step
  split
  · rename_i s' e; exact apply_w hc w e
  · exact w

theorem init_w {Q : Rollapp → Prop} (p : Params) : W Q (init p) :=
  ⟨(run_own p []), (run_chain p []), (run_ids p []), Nat.le_refl 1, by intro r hr; simp [init] at hr⟩

/-- a `QClosed` per-record predicate holds for every rollapp record of every reachable state -/
theorem run_w {Q : Rollapp → Prop} (hc : QClosed Q) (p : Params) (ops : List Op) : W Q (run p ops) := by
  unfold run
  exact foldl_inv (W Q) _ _ _ (init_w p) (fun b o hb => step_w hc hb)

theorem run_q {Q : Rollapp → Prop} (hc : QClosed Q) (p : Params) (ops : List Op) : RaAll Q (run p ops) :=
  (run_w hc p ops).q

end DymVerif.Core.XW
