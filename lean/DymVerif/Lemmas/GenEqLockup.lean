import DymVerif.Gen.Lockup
import DymVerif.Model.Lockup
/-
  Lemmas/GenEqLockup — tie 1 for M-Lockup: the facts regenerated from /repo's x/lockup on every run
  (`Gen/Lockup.lean`, by translate/lockup.go) equal what the model was written against.
  * the auto-withdraw height constant is the model's;
  * for every mirrored Go function, its skeleton (the `if` conditions, the updates of the lock object
    and the keeper / bank / txfees / hooks calls, in source order) is the one recorded here.  A dropped
    owner check, a changed comparison (`<` vs `<=`), a different end-time expression or a reordered
    effect makes the corresponding lemma fail.
-/
namespace DymVerif.GenEq.Lockup
open DymVerif

theorem minHeight_eq : Gen.Lockup.minBlockHeightToBeginAutoWithdrawing = Lockup.minHeightAutoWithdraw := rfl

/-- `x/lockup/abci.go EndBlocker -/
def minBlockHeightToBeginAutoWithdrawing : Nat := 6

/-- EndBlocker` as mirrored by the model -/
theorem endBlocker_skeleton : Gen.Lockup.endBlocker =
  ["if ctx.BlockHeight() < MinBlockHeightToBeginAutoWithdrawing",
   "call k.WithdrawAllMaturedLocks"] := rfl

/-- `msgServer.LockTokens` as mirrored by the model -/
theorem msgLockTokens_skeleton : Gen.Lockup.msgLockTokens =
  ["if err != nil",
   "call server.keeper.GetParams",
   "if msg.Duration < minLockDuration",
   "if err != nil",
   "call server.keeper.ChargeLockFee",
   "call server.keeper.GetLockCreationFee",
   "call server.keeper.HasLock",
   "if lockExists",
   "call server.keeper.AddToExistingLock",
   "if err != nil",
   "call server.keeper.CreateLock",
   "if err != nil"] := rfl

/-- `msgServer.BeginUnlocking` as mirrored by the model -/
theorem msgBeginUnlocking_skeleton : Gen.Lockup.msgBeginUnlocking =
  ["call server.keeper.GetLockByID",
   "if err != nil",
   "if msg.Owner != lock.Owner",
   "call server.keeper.BeginUnlock",
   "if err != nil"] := rfl

/-- `msgServer.ExtendLockup` as mirrored by the model -/
theorem msgExtendLockup_skeleton : Gen.Lockup.msgExtendLockup =
  ["if err != nil",
   "call server.keeper.ExtendLockup",
   "if err != nil",
   "call server.keeper.GetLockByID",
   "if err != nil"] := rfl

/-- `msgServer.ForceUnlock` as mirrored by the model -/
theorem msgForceUnlock_skeleton : Gen.Lockup.msgForceUnlock =
  ["call server.keeper.GetLockByID",
   "if err != nil",
   "if lock.Owner != msg.Owner",
   "call server.keeper.GetParams",
   "if addr == lock.Owner && addr == msg.Owner",
   "if !found",
   "call server.keeper.PartialForceUnlock",
   "if err != nil"] := rfl

/-- `Keeper.ChargeLockFee` as mirrored by the model -/
theorem chargeLockFee_skeleton : Gen.Lockup.chargeLockFee =
  ["if k.tk == nil",
   "call k.tk.GetBaseDenom",
   "if err != nil",
   "call k.bk.GetBalance",
   "if accountBalance.LT(totalCost)",
   "call k.tk.ChargeFeesFromPayer"] := rfl

/-- `Keeper.AddToExistingLock` as mirrored by the model -/
theorem addToExistingLock_skeleton : Gen.Lockup.addToExistingLock =
  ["call k.GetAccountLockedDurationNotUnlockingOnly",
   "if len(locks) < 1",
   "call k.AddTokensToLockByID",
   "if err != nil"] := rfl

/-- `Keeper.AddTokensToLockByID` as mirrored by the model -/
theorem addTokensToLockByID_skeleton : Gen.Lockup.addTokensToLockByID =
  ["call k.GetLockByID",
   "if err != nil",
   "if lock.GetOwner() != owner.String()",
   "set lock.Coins = lock.Coins.Add(tokensToAdd)",
   "call k.lock",
   "if err != nil",
   "if k.hooks == nil",
   "call k.hooks.AfterAddTokensToLock"] := rfl

/-- `Keeper.CreateLock` as mirrored by the model -/
theorem createLock_skeleton : Gen.Lockup.createLock =
  ["call k.GetLastLockID",
   "call k.lock",
   "if err != nil",
   "call k.addLockRefs",
   "if err != nil",
   "call k.SetLastLockID"] := rfl

/-- `Keeper.lock` as mirrored by the model -/
theorem lock_skeleton : Gen.Lockup.lock =
  ["if err != nil",
   "if err != nil",
   "call k.bk.SendCoinsFromAccountToModule",
   "call k.setLock",
   "if err != nil",
   "call k.accumulationStore(ctx, coin.Denom).Increase",
   "call k.accumulationStore",
   "call k.hooks.OnTokenLocked"] := rfl

/-- `Keeper.beginUnlock` as mirrored by the model -/
theorem beginUnlock_skeleton : Gen.Lockup.beginUnlock =
  ["if !coins.IsAllLTE(lock.Coins)",
   "if lock.IsUnlocking()",
   "if len(coins) != 0 && !coins.Equal(lock.Coins)",
   "call k.splitLock",
   "if err != nil",
   "call k.deleteLockRefs",
   "if err != nil",
   "set lock.EndTime = ctx.BlockTime().Add(lock.Duration)",
   "call k.setLock",
   "if err != nil",
   "call k.addLockRefs",
   "if err != nil",
   "if k.hooks != nil",
   "call k.hooks.OnStartUnlock"] := rfl

/-- `Keeper.splitLock` as mirrored by the model -/
theorem splitLock_skeleton : Gen.Lockup.splitLock =
  ["if !forceUnlock && lock.IsUnlocking()",
   "set lock.Coins = lock.Coins.Sub(coins...)",
   "call k.setLock",
   "if err != nil",
   "call k.GetLastLockID",
   "call k.SetLastLockID",
   "call k.setLock"] := rfl

/-- `Keeper.PartialForceUnlock` as mirrored by the model -/
theorem partialForceUnlock_skeleton : Gen.Lockup.partialForceUnlock =
  ["if !coins.IsAllLTE(lock.Coins)",
   "if len(coins) != 0 && !coins.Equal(lock.Coins)",
   "call k.splitLock",
   "if err != nil",
   "call k.ForceUnlock"] := rfl

/-- `Keeper.ForceUnlock` as mirrored by the model -/
theorem forceUnlock_skeleton : Gen.Lockup.forceUnlock =
  ["if !lock.IsUnlocking()",
   "call k.BeginUnlock",
   "if err != nil",
   "call k.GetLockByID",
   "if err != nil",
   "call k.unlockMaturedLockInternalLogic"] := rfl

/-- `Keeper.UnlockMaturedLock` as mirrored by the model -/
theorem unlockMaturedLock_skeleton : Gen.Lockup.unlockMaturedLock =
  ["call k.GetLockByID",
   "if err != nil",
   "if !lock.IsUnlocking()",
   "if curTime.Before(lock.EndTime)",
   "call k.unlockMaturedLockInternalLogic"] := rfl

/-- `Keeper.unlockMaturedLockInternalLogic` as mirrored by the model -/
theorem unlockMaturedLockInternalLogic_skeleton : Gen.Lockup.unlockMaturedLockInternalLogic =
  ["if err != nil",
   "if err != nil",
   "call k.bk.SendCoinsFromModuleToAccount",
   "call k.deleteLock",
   "call k.deleteLockRefs",
   "if err != nil",
   "call k.accumulationStore(ctx, coin.Denom).Decrease",
   "call k.accumulationStore",
   "call k.hooks.OnTokenUnlocked"] := rfl

/-- `Keeper.ExtendLockup` as mirrored by the model -/
theorem extendLockup_skeleton : Gen.Lockup.extendLockup =
  ["call k.GetLockByID",
   "if err != nil",
   "if lock.GetOwner() != owner.String()",
   "if lock.IsUnlocking()",
   "call k.deleteLockRefs",
   "if err != nil",
   "if newDuration != 0",
   "if newDuration <= oldDuration",
   "call k.accumulationStore(ctx, coin.Denom).Decrease",
   "call k.accumulationStore",
   "call k.accumulationStore(ctx, coin.Denom).Increase",
   "call k.accumulationStore",
   "set lock.Duration = newDuration",
   "call k.addLockRefs",
   "if err != nil",
   "call k.setLock",
   "if err != nil",
   "call k.hooks.OnLockupExtend"] := rfl

/-- `Keeper.WithdrawAllMaturedLocks` as mirrored by the model -/
theorem withdrawAllMaturedLocks_skeleton : Gen.Lockup.withdrawAllMaturedLocks =
  ["call k.unlockFromIterator",
   "call k.LockIteratorBeforeTime"] := rfl

/-- `Keeper.unlockFromIterator` as mirrored by the model -/
theorem unlockFromIterator_skeleton : Gen.Lockup.unlockFromIterator =
  ["call k.getLocksFromIterator",
   "call k.UnlockMaturedLock",
   "if err != nil"] := rfl

/-- `MsgLockTokens.ValidateBasic` as mirrored by the model -/
theorem vbLockTokens_skeleton : Gen.Lockup.vbLockTokens =
  ["if err != nil",
   "if m.Duration <= 0",
   "if m.Coins.Len() != 1",
   "if !m.Coins.IsAllPositive()"] := rfl

/-- `MsgBeginUnlocking.ValidateBasic` as mirrored by the model -/
theorem vbBeginUnlocking_skeleton : Gen.Lockup.vbBeginUnlocking =
  ["if err != nil",
   "if m.ID == 0",
   "if m.Coins.Len() > 1",
   "if !m.Coins.Empty() && !m.Coins.IsAllPositive()"] := rfl

/-- `MsgExtendLockup.ValidateBasic` as mirrored by the model -/
theorem vbExtendLockup_skeleton : Gen.Lockup.vbExtendLockup =
  ["if err != nil",
   "if m.ID == 0",
   "if m.Duration <= 0"] := rfl

/-- `MsgForceUnlock.ValidateBasic` as mirrored by the model -/
theorem vbForceUnlock_skeleton : Gen.Lockup.vbForceUnlock =
  ["if err != nil",
   "if m.ID <= 0",
   "if !m.Coins.IsValid()"] := rfl

/-- `PeriodLock.IsUnlocking` as mirrored by the model -/
theorem isUnlocking_skeleton : Gen.Lockup.isUnlocking =
  ["{ return !p.EndTime.Equal(time.Time{}) }"] := rfl

end DymVerif.GenEq.Lockup
