/-
  Lemmas/CoreFinComplete — completeness of a finalization pass (every due pending state of a rollapp
  without a failing earlier index is finalized) and isolation (what happens to one rollapp's record
  depends only on the oracle restricted to that rollapp's due indices).
-/
import DymVerif.Lemmas.CoreFinInv
namespace DymVerif.Core

theorem mem_flat {q : List QEntry} {ra i : Nat} : i ∈ flat q ra ↔ ∃ e ∈ q, e.ra = ra ∧ i ∈ e.idx := by
  unfold flat
  simp only [List.mem_flatMap, List.mem_filter, beq_iff_eq]
  constructor
  · rintro ⟨e, ⟨h1, h2⟩, h3⟩; exact ⟨e, h1, h2, h3⟩
  · rintro ⟨e, h1, h2, h3⟩; exact ⟨e, ⟨h1, h2⟩, h3⟩

theorem Evolves.get {s s' : St} (h : Evolves s s') (hn : IdsNodup s') {r : Rollapp} (hr : r ∈ s.ras) {i : Nat} {st : SInfo}
    (hst : r.states[i]? = some st) (hf : st.finalized = true) :
    ∃ r' st', getRa s' r.id = some r' ∧ r'.states[i]? = some st' ∧ sKey st' = sKey st := by
  obtain ⟨r', hr', hid, f⟩ := h r hr
  obtain ⟨st', hst', hk⟩ := f i st hst hf
  exact ⟨r', st', by rw [← hid]; exact getRa_of_mem hn hr', hst', hk⟩

-- ---------------------------------------------------------------- completeness

/-- after the finalization pass at height `s.h`: a pending state whose dispute period has elapsed and
    whose rollapp has no failing pending index up to its own is finalized, at this height -/
theorem finalize_complete_core {s : St} (fails : List (Nat × Nat)) (hi : FinInv s) {r : Rollapp} (hr : r ∈ s.ras)
    {i : Nat} {st : SInfo} (hst : r.states[i]? = some st) (hnf : st.finalized = false)
    (hdue : st.creationHeight + s.p.dispute ≤ s.h)
    (hok : ∀ j, r.lastFin < j → j ≤ i + 1 → (r.id, j) ∉ fails) :
    ∃ r', getRa (finalizeRollappStates s fails) r.id = some r' ∧
      r'.states[i]? = some { st with finalized := true, finalizedAt := s.h } := by
  obtain ⟨hi', hfin⟩ := finalizeRollappStates_fin fails hi
  obtain ⟨failed', hfok, hempty⟩ := hfin (by omega)
  obtain ⟨hh, hp, _, hrel⟩ := finalizeRollappStates_rel fails hi.nodup
  obtain ⟨r', hr', hid, hlen, hst'⟩ := hrel r hr
  have hg' : getRa (finalizeRollappStates s fails) r.id = some r' := by
    rw [← hid]; exact getRa_of_mem hi'.nodup hr'
  obtain ⟨st', hst1, hc⟩ := hst' i st hst
  rcases hc with hc | ⟨_, hc⟩
  · -- still unfinalized: impossible
    exfalso
    subst hc
    have old := hi.ras r hr
    have new := hi'.ras r' hr'
    have hlf : r.lastFin ≤ r'.lastFin := by
      rcases Nat.eq_zero_or_pos r.lastFin with h0 | h0
      · omega
      · have hlt : r.lastFin - 1 < r.states.length := by have := old.le; omega
        have hx : r.states[r.lastFin - 1]? = some r.states[r.lastFin - 1] := List.getElem?_eq_getElem hlt
        have hfx := (old.pre _ _ hx).2 (by omega)
        obtain ⟨sx, hsx, hcx⟩ := hst' _ _ hx
        rcases hcx with hcx | ⟨hcx, _⟩
        · subst hcx
          have := (new.pre _ _ hsx).1 hfx
          omega
        · rw [hfx] at hcx; cases hcx
    have hnl : ¬ i < r'.lastFin := by
      intro hlt
      have := (new.pre i st' hst1).2 hlt
      rw [hnf] at this; cases this
    have hil : i < r'.states.length := getElem?_lt hst1
    have hmem : i + 1 ∈ flat (finalizeRollappStates s fails).queue r'.id := by
      rw [new.flat_eq]
      unfold pendingIdx
      rw [List.mem_range'_1]
      omega
    obtain ⟨e, he, hera, hei⟩ := mem_flat.1 hmem
    obtain ⟨sy, hsy, hch⟩ := new.ch e he hera (i + 1) hei
    rw [Nat.add_sub_cancel, hst1] at hsy
    injection hsy with hsy; subst hsy
    have hnotdue : dueP (s.h - s.p.dispute) failed' e = false := by
      cases hd : dueP (s.h - s.p.dispute) failed' e with
      | false => rfl
      | true =>
        have : e ∈ (finalizeRollappStates s fails).queue.filter (dueP (s.h - s.p.dispute) failed') :=
          List.mem_filter.2 ⟨he, hd⟩
        rw [hempty] at this; cases this
    unfold dueP at hnotdue
    have hdec : decide (e.ch ≤ s.h - s.p.dispute) = true := by
      rw [decide_eq_true_iff, ← hch]; omega
    rw [hdec] at hnotdue
    have hfm : e.ra ∈ failed' := by simpa using hnotdue
    have := hfok e.ra hfm r' (by rw [hera, hid]; exact hg')
    rw [hera, hid] at this
    exact hok (r'.lastFin + 1) (by omega) (by omega) this
  · exact ⟨r', hg', by rw [hst1, hc]⟩

-- ---------------------------------------------------------------- checkLiveness does not touch states / lastFin

def finPart (r : Rollapp) : List SInfo × Nat := (r.states, r.lastFin)

theorem getRa_frame {s s1 : St} (h : s1.ras = s.ras) (id : Nat) : getRa s1 id = getRa s id := by
  unfold getRa; rw [h]

theorem getRa_setRa_finPart (s0 : St) (r0 r1 : Rollapp) (id : Nat) (hg : getRa s0 r0.id = some r1)
    (hfp : finPart r0 = finPart r1) : (getRa (setRa s0 r0) id).map finPart = (getRa s0 id).map finPart := by
  by_cases hid : r0.id = id
  · subst hid
    rw [getRa_setRa_same s0 r0 (by rw [hg]; rfl), hg]
    simp [hfp]
  · rw [getRa_setRa_other _ _ _ hid]

theorem handleLivenessEvent_finPart (s : St) (ra id : Nat) :
    (getRa (handleLivenessEvent s ra) id).map finPart = (getRa s id).map finPart := by
  unfold handleLivenessEvent
  split
  · rfl
  · split
    · rfl
    · rename_i s1 hs1
      have hf := slashLiveness_frame hs1
      split
      · rfl
      · rename_i r1 hg1
        unfold scheduleEvent
        dsimp only
        refine (getRa_setRa_finPart _ _ r1 id ?_ ?_).trans ?_
        · show getRa s1 r1.id = some r1
          rw [getRa_id hg1]; exact hg1
        · rfl
        · show (getRa s1 id).map finPart = _
          rw [getRa_frame hf.ras]

theorem checkLiveness_finPart (s : St) (id : Nat) : (getRa (checkLiveness s) id).map finPart = (getRa s id).map finPart := by
  unfold checkLiveness
  apply foldl_inv (fun b => (getRa b id).map finPart = (getRa s id).map finPart)
  · rfl
  · intro b e hb
    rw [handleLivenessEvent_finPart]; exact hb

/-- completeness at the level of `EndBlock` -/
theorem endBlock_complete {s : St} (fails : List (Nat × Nat)) (hi : FinInv s) {r : Rollapp} (hr : r ∈ s.ras)
    {i : Nat} {st : SInfo} (hst : r.states[i]? = some st) (hnf : st.finalized = false)
    (hdue : st.creationHeight + s.p.dispute ≤ s.h)
    (hok : ∀ j, r.lastFin < j → j ≤ i + 1 → (r.id, j) ∉ fails) :
    ∃ r', getRa (endBlock s fails) r.id = some r' ∧
      r'.states[i]? = some { st with finalized := true, finalizedAt := s.h } := by
  obtain ⟨r1, hg1, hs1⟩ := finalize_complete_core fails hi hr hst hnf hdue hok
  unfold endBlock
  have := checkLiveness_finPart (finalizeRollappStates s fails) r.id
  rw [hg1] at this
  cases hg2 : getRa (checkLiveness (finalizeRollappStates s fails)) r.id with
  | none => rw [hg2] at this; cases this
  | some r2 =>
    rw [hg2] at this
    simp only [Option.map_some, Option.some.injEq, finPart, Prod.mk.injEq] at this
    exact ⟨r2, rfl, by rw [this.1]; exact hs1⟩

/-- a state that gets finalized by `EndBlock` had its dispute period elapsed at this block, and the
    recorded finalization height is this block's height -/
theorem endBlock_newly {s : St} (fails : List (Nat × Nat)) (hi : FinInv s) {r r' : Rollapp} (hr : r ∈ s.ras)
    {i : Nat} {st st' : SInfo} (hst : r.states[i]? = some st) (hnf : st.finalized = false)
    (hg' : getRa (endBlock s fails) r.id = some r') (hst' : r'.states[i]? = some st') (hf : st'.finalized = true) :
    st.creationHeight + s.p.dispute ≤ s.h ∧ st' = { st with finalized := true, finalizedAt := s.h } := by
  obtain ⟨hi1, _⟩ := finalizeRollappStates_fin fails hi
  obtain ⟨hh, hp, _, hrel⟩ := finalizeRollappStates_rel fails hi.nodup
  obtain ⟨r1, hr1, hid, _, hs1⟩ := hrel r hr
  have hg1 : getRa (finalizeRollappStates s fails) r.id = some r1 := by
    rw [← hid]; exact getRa_of_mem hi1.nodup hr1
  have := checkLiveness_finPart (finalizeRollappStates s fails) r.id
  unfold endBlock at hg'
  rw [hg', hg1] at this
  simp only [Option.map_some, Option.some.injEq, finPart, Prod.mk.injEq] at this
  rw [this.1] at hst'
  obtain ⟨st1, hst1, hc⟩ := hs1 i st hst
  rw [hst1] at hst'; injection hst' with hst'; subst hst'
  rcases hc with hc | ⟨_, hc⟩
  · subst hc; rw [hnf] at hf; cases hf
  · refine ⟨?_, hc⟩
    have := (hi1.ras r1 hr1).notEarly st1 (List.mem_of_getElem? hst1) hf
    rw [hc, hp] at this
    exact this

/-- backward form: every finalized state info after `EndBlock` was either finalized before (and is
    unchanged), or was unfinalized with its dispute period elapsed and got finalized at this height -/
theorem endBlock_back {s : St} (fails : List (Nat × Nat)) (hi : FinInv s) {r' : Rollapp}
    (hg' : getRa (endBlock s fails) r'.id = some r') {i : Nat} {st' : SInfo} (hst' : r'.states[i]? = some st')
    (hf : st'.finalized = true) :
    ∃ r ∈ s.ras, r.id = r'.id ∧ ∃ st, r.states[i]? = some st ∧
      ((st.finalized = true ∧ st' = st) ∨
       (st.finalized = false ∧ st.creationHeight + s.p.dispute ≤ s.h ∧
         st' = { st with finalized := true, finalizedAt := s.h })) := by
  obtain ⟨hi1, _⟩ := finalizeRollappStates_fin fails hi
  have hrel := finalizeRollappStates_rel fails hi.nodup
  have := checkLiveness_finPart (finalizeRollappStates s fails) r'.id
  unfold endBlock at hg'
  rw [hg'] at this
  cases hg1 : getRa (finalizeRollappStates s fails) r'.id with
  | none => rw [hg1] at this; cases this
  | some r1 =>
    rw [hg1] at this
    simp only [Option.map_some, Option.some.injEq, finPart, Prod.mk.injEq] at this
    rw [this.1] at hst'
    obtain ⟨r, hr, hid, hb⟩ := hrel.back hi1.nodup (getRa_mem hg1)
    obtain ⟨st, hst, hc⟩ := hb i st' hst'
    refine ⟨r, hr, hid.trans (getRa_id hg1), st, hst, ?_⟩
    rcases hc with hc | ⟨hnf, hc⟩
    · left; subst hc; exact ⟨hf, rfl⟩
    · right
      refine ⟨hnf, ?_, hc⟩
      have := (hi1.ras r1 (getRa_mem hg1)).notEarly st' (List.mem_of_getElem? hst') hf
      rw [hc, hrel.2.1] at this
      exact this

-- ---------------------------------------------------------------- isolation

/-- `finalizePendingState` on a record -/
def recOne (ro : Option Rollapp) (inF : Bool) (idx H : Nat) : Option Rollapp :=
  if inF then none else
  match ro with
  | none => none
  | some r =>
    match r.states[idx - 1]? with
    | none => none
    | some st => if idx = 0 || st.finalized then none else some (finRec r idx st H)

theorem finalizeOne_idx_pos {s s' : St} {fails : List (Nat × Nat)} {ra idx : Nat}
    (e : finalizeOne s fails ra idx = some s') : idx ≠ 0 := by
  unfold finalizeOne at e
  split at e
  · cases e
  · split at e
    · cases e
    · split at e
      · cases e
      · split at e
        · cases e
        · rename_i hc
          simp at hc
          exact hc.1

theorem finalizeOne_rec_some {s s' : St} {fails : List (Nat × Nat)} {ra idx : Nat}
    (e : finalizeOne s fails ra idx = some s') :
    recOne (getRa s ra) (fails.contains (ra, idx)) idx s.h = getRa s' ra ∧ (getRa s' ra).isSome = true ∧ s'.h = s.h := by
  have h0 := finalizeOne_idx_pos e
  obtain ⟨r, st, s0, hg, hst, hnf, hfc, hfr, rfl⟩ := finalizeOne_some e
  have hid : (finRec r idx st s.h).id = ra := show r.id = ra from getRa_id hg
  have h1 := getRa_setRa_same s0 (finRec r idx st s.h) (by
    rw [hid, getRa_frame hfr.ras, hg]; rfl)
  rw [hid] at h1
  refine ⟨?_, by rw [h1]; rfl, hfr.h⟩
  unfold recOne
  rw [hfc, hg]
  dsimp only
  rw [hst]
  dsimp only
  rw [if_neg (by simp), if_neg (by simp [h0, hnf]), h1]

theorem finalizeOne_rec_none {s : St} {fails : List (Nat × Nat)} {ra idx : Nat}
    (e : finalizeOne s fails ra idx = none) : recOne (getRa s ra) (fails.contains (ra, idx)) idx s.h = none := by
  unfold finalizeOne at e
  unfold recOne
  split at e
  · rename_i hf; rw [if_pos hf]
  · rename_i hf; rw [if_neg hf]
    split at e
    · rename_i hg; rw [hg]
    · rename_i r hg; rw [hg]; dsimp only
      split at e
      · rename_i hst; rw [hst]
      · rename_i st hst; rw [hst]; dsimp only
        split at e
        · rename_i hc; rw [if_pos hc]
        · cases e

/-- `FinalizeStates` on a record: remaining indices processed in order until the first failure -/
def recGo (f : Nat → Bool) (H : Nat) : Option Rollapp → List Nat → Option Rollapp × Bool
  | ro, [] => (ro, true)
  | ro, i :: tl =>
    match recOne ro (f i) i H with
    | some r' => recGo f H (some r') tl
    | none => (ro, false)

theorem go_rec (fails : List (Nat × Nat)) (e : QEntry) : ∀ (l : List Nat) (s : St),
    getRa (finalizeEntry.go fails e s l).1 e.ra = (recGo (fun i => fails.contains (e.ra, i)) s.h (getRa s e.ra) l).1 ∧
    (finalizeEntry.go fails e s l).2 = (recGo (fun i => fails.contains (e.ra, i)) s.h (getRa s e.ra) l).2 := by
  intro l
  induction l with
  | nil => intro s; unfold finalizeEntry.go recGo; exact ⟨rfl, rfl⟩
  | cons i tl ih =>
    intro s
    unfold finalizeEntry.go recGo
    split
    · rename_i s1 h1
      obtain ⟨t1, t2, t3⟩ := finalizeOne_rec_some h1
      cases hg1 : getRa s1 e.ra with
      | none => rw [hg1] at t2; cases t2
      | some r1 =>
        rw [hg1] at t1
        rw [t1]
        dsimp only
        have := ih s1
        rw [hg1, t3] at this
        exact this
    · rename_i h1
      rw [finalizeOne_rec_none h1]
      exact ⟨rfl, rfl⟩

theorem recGo_congr (f g : Nat → Bool) (H : Nat) : ∀ (l : List Nat) (ro : Option Rollapp), (∀ i ∈ l, f i = g i) →
    recGo f H ro l = recGo g H ro l := by
  intro l
  induction l with
  | nil => intro ro _; rfl
  | cons i tl ih =>
    intro ro h
    unfold recGo
    rw [h i (by simp)]
    split
    · exact ih _ (fun j hj => h j (by simp [hj]))
    · rfl

/-- one step of `finalizeAll` on an entry of another rollapp leaves the record, the height and the
    failed-flag of rollapp `id` alone -/
theorem finalizeAll_step_other (s : St) (fails : List (Nat × Nat)) (e : QEntry) (es : List QEntry) (failed : List Nat)
    (id : Nat) (hne : e.ra ≠ id) :
    ∃ s' failed', finalizeAll s fails (e :: es) failed = finalizeAll s' fails es failed' ∧
      getRa s' id = getRa s id ∧ s'.h = s.h ∧ failed'.contains id = failed.contains id := by
  rw [finalizeAll_cons]
  split
  · exact ⟨s, failed, rfl, rfl, rfl, rfl⟩
  · refine ⟨_, _, rfl, go_getRa_other fails e id hne _ _, (go_frame fails e _ _).2, ?_⟩
    split
    · rfl
    · rw [List.contains_cons]
      have : (id == e.ra) = false := by simpa using (Ne.symm hne)
      rw [this]; rfl

theorem finalizeAll_iso (f1 f2 : List (Nat × Nat)) (id : Nat) : ∀ (es : List QEntry) (failed1 failed2 : List Nat) (s1 s2 : St),
    getRa s1 id = getRa s2 id → s1.h = s2.h → failed1.contains id = failed2.contains id →
    (∀ e ∈ es, e.ra = id → ∀ j ∈ e.idx, f1.contains (id, j) = f2.contains (id, j)) →
    getRa (finalizeAll s1 f1 es failed1) id = getRa (finalizeAll s2 f2 es failed2) id := by
  intro es
  induction es with
  | nil => intro _ _ s1 s2 hg _ _ _; unfold finalizeAll; exact hg
  | cons e es ih =>
    intro failed1 failed2 s1 s2 hg hh hf hag
    have hag' : ∀ e' ∈ es, e'.ra = id → ∀ j ∈ e'.idx, f1.contains (id, j) = f2.contains (id, j) :=
      fun e' he' => hag e' (by simp [he'])
    by_cases hra : e.ra = id
    · rw [finalizeAll_cons, finalizeAll_cons, hra, hf]
      split
      · exact ih _ _ _ _ hg hh hf hag'
      · obtain ⟨a1, a2⟩ := go_rec f1 e e.idx s1
        obtain ⟨b1, b2⟩ := go_rec f2 e e.idx s2
        have hcg := recGo_congr (fun i => f1.contains (e.ra, i)) (fun i => f2.contains (e.ra, i)) s1.h e.idx (getRa s1 e.ra)
          (by intro j hj; rw [hra]; exact hag e (by simp) hra j hj)
        rw [hra] at a1 a2 b1 b2 hcg
        rw [hcg, hg, hh] at a1 a2
        apply ih
        · rw [a1, b1]
        · rw [(go_frame f1 e _ _).2, (go_frame f2 e _ _).2, hh]
        · rw [a2, b2]
          split
          · exact hf
          · rw [List.contains_cons, List.contains_cons]; simp
        · exact hag'
    · obtain ⟨s1', fl1', e1, g1, h1, c1⟩ := finalizeAll_step_other s1 f1 e es failed1 id hra
      obtain ⟨s2', fl2', e2, g2, h2, c2⟩ := finalizeAll_step_other s2 f2 e es failed2 id hra
      rw [e1, e2]
      exact ih _ _ _ _ (by rw [g1, g2, hg]) (by rw [h1, h2, hh]) (by rw [c1, c2, hf]) hag'

/-- the finalization pass on rollapp `id` depends only on the oracle at `id`'s due indices -/
theorem finalizeRollappStates_iso (s : St) (f1 f2 : List (Nat × Nat)) (id : Nat)
    (hag : ∀ e ∈ s.queue, e.ra = id → e.ch + s.p.dispute ≤ s.h → ∀ j ∈ e.idx, f1.contains (id, j) = f2.contains (id, j)) :
    getRa (finalizeRollappStates s f1) id = getRa (finalizeRollappStates s f2) id := by
  unfold finalizeRollappStates
  split
  · rfl
  · dsimp only
    apply finalizeAll_iso f1 f2 id _ _ _ _ _ rfl rfl rfl
    intro e he hra j hj
    obtain ⟨h1, h2⟩ := List.mem_filter.1 he
    have : e.ch ≤ s.h - s.p.dispute := by simpa using h2
    exact hag e h1 hra (by omega) j hj

theorem endBlock_iso (s : St) (f1 f2 : List (Nat × Nat)) (id : Nat)
    (hag : ∀ e ∈ s.queue, e.ra = id → e.ch + s.p.dispute ≤ s.h → ∀ j ∈ e.idx, f1.contains (id, j) = f2.contains (id, j)) :
    (getRa (endBlock s f1) id).map finPart = (getRa (endBlock s f2) id).map finPart := by
  unfold endBlock
  rw [checkLiveness_finPart, checkLiveness_finPart, finalizeRollappStates_iso s f1 f2 id hag]

end DymVerif.Core
