import DymVerif.Base.Base64
import DymVerif.Lemmas.Bytes
namespace DymVerif

theorem b64val_sym (n : Nat) (h : n < 64) : b64val (b64sym n) = some n := by
  unfold b64sym b64val
  by_cases h1 : n < 26
  · simp only [h1, if_true]
    rw [if_pos (by omega)]; congr 1; omega
  · simp only [h1, if_false]
    by_cases h2 : n < 52
    · simp only [h2, if_true]
      rw [if_neg (by omega), if_pos (by omega)]; congr 1; omega
    · simp only [h2, if_false]
      by_cases h3 : n < 62
      · simp only [h3, if_true]
        rw [if_neg (by omega), if_neg (by omega), if_pos (by omega)]; congr 1; omega
      · simp only [h3, if_false]
        by_cases h4 : n = 62
        · subst h4; decide
        · have : n = 63 := by omega
          subst this; decide

theorem b64sym_props (n : Nat) : b64sym n ≠ 61 ∧ b64sym n ≠ 10 ∧ b64sym n ≠ 13 := by
  unfold b64sym
  split
  · omega
  · split
    · omega
    · split
      · omega
      · split <;> omega

theorem b64sym_ne_pad (n : Nat) : b64sym n ≠ padChar := (b64sym_props n).1

theorem b64sym_not_nl (n : Nat) : (b64sym n != 10 && b64sym n != 13) = true := by
  have := b64sym_props n
  simp [this.2.1, this.2.2]

theorem b64enc_filter (bs : Bytes) :
    (b64enc bs).filter (fun c => c != 10 && c != 13) = b64enc bs := by
  fun_induction b64enc bs with
  | case1 => rfl
  | case2 a => simp [List.filter, b64sym_not_nl, padChar]
  | case3 a b => simp [List.filter, b64sym_not_nl, padChar]
  | case4 a b c rest ih => simp [List.filter, b64sym_not_nl, ih]

/-- the three-bytes / four-sextets identities -/
theorem sextet_identities (a b c : Nat) (ha : a < 256) (hb : b < 256) (hc : c < 256) :
    a / 4 < 64 ∧ a % 4 * 16 + b / 16 < 64 ∧ b % 16 * 4 + c / 64 < 64 ∧ c % 64 < 64 ∧
    a / 4 * 4 + (a % 4 * 16 + b / 16) / 16 = a ∧
    (a % 4 * 16 + b / 16) % 16 * 16 + (b % 16 * 4 + c / 64) / 4 = b ∧
    (b % 16 * 4 + c / 64) % 4 * 64 + c % 64 = c := by omega

theorem b64enc_cons3_ne_nil (a b c : Nat) (rest : Bytes) : b64enc (a :: b :: c :: rest) ≠ [] := by
  simp [b64enc]

theorem b64decQ_enc (bs : Bytes) (h : Bytes.WF bs) : b64decQ (b64enc bs) = some bs := by
  fun_induction b64enc bs with
  | case1 => rfl
  | case2 a =>
    have ha : a < 256 := h a (by simp)
    have := sextet_identities a 0 0 ha (by omega) (by omega)
    simp only [b64decQ]
    rw [b64val_sym _ (by omega), b64val_sym _ (by omega)]
    simp; omega
  | case3 a b =>
    have ha : a < 256 := h a (by simp)
    have hb : b < 256 := h b (by simp)
    have := sextet_identities a b 0 ha hb (by omega)
    simp only [b64decQ]
    rw [b64val_sym _ (by omega), b64val_sym _ (by omega)]
    have hne := b64sym_ne_pad (b % 16 * 4)
    simp only [hne, if_false]
    rw [b64val_sym _ (by omega)]
    simp; omega
  | case4 a b c rest ih =>
    have ha : a < 256 := h a (by simp)
    have hb : b < 256 := h b (by simp)
    have hc : c < 256 := h c (by simp)
    have hr : Bytes.WF rest := fun x hx => h x (by simp [hx])
    have := sextet_identities a b c ha hb hc
    have ih' := ih hr
    cases hrest : b64enc rest with
    | nil =>
      rw [hrest] at ih'
      have : rest = [] := by simpa [b64decQ] using ih'.symm
      subst this
      simp only [b64decQ]
      rw [b64val_sym _ (by omega), b64val_sym _ (by omega)]
      have hne := b64sym_ne_pad (b % 16 * 4 + c / 64)
      have hne2 := b64sym_ne_pad (c % 64)
      simp only [hne, hne2, if_false]
      rw [b64val_sym _ (by omega), b64val_sym _ (by omega)]
      simp; omega
    | cons y ys =>
      rw [hrest] at ih'
      simp only [b64decQ]
      rw [b64val_sym _ (by omega), b64val_sym _ (by omega), b64val_sym _ (by omega),
        b64val_sym _ (by omega), ih']
      simp; omega

/-- Go: `Decode(Encode(b)) = b` for every byte string -/
theorem b64dec_enc (bs : Bytes) (h : Bytes.WF bs) : b64dec (b64enc bs) = some bs := by
  unfold b64dec; rw [b64enc_filter]; exact b64decQ_enc bs h

end DymVerif
