import DymVerif.Lemmas.SponsTrack
/-
  Lemmas/SponsRun — op-level preservation: which ops touch which part of the state, hook lists,
  and the hypotheses (`RunDivisible`, `RunFaithful`) of the partial theorems.
-/
namespace DymVerif.Spons

/-- the op did not touch votes / distribution / recorded power / params -/
structure SameCore (s s' : State) : Prop where
  minVP : s'.minVP = s.minVP
  dist : s'.dist = s.dist
  votes : s'.votes = s.votes
  dvp : s'.dvp = s.dvp

theorem SameCore.wf {s s' : State} (h : SameCore s s') (w : WF s) : WF s' :=
  ⟨h.minVP ▸ w.minVP, h.dist ▸ w.sorted, h.votes ▸ w.keys, h.votes ▸ w.votes⟩

theorem SameCore.distInv {s s' : State} (h : SameCore s s') (w : DistInv s) : DistInv s' :=
  ⟨fun g => by rw [h.dist, h.votes]; exact w.gauges g, by rw [h.dist, h.votes]; exact w.vp⟩

theorem SameCore.track {s s' : State} (h : SameCore s s') {T : PTable} (w : Track s T) : Track s' T := by
  intro a v hv; rw [h.votes] at hv; rw [h.dvp]; exact w a v hv

theorem SameCore.minInv {s s' : State} (h : SameCore s s') (w : MinInv s) : MinInv s' := by
  intro a v hv; rw [h.votes] at hv; rw [h.minVP]; exact w a v hv

theorem SameCore.clean {s s' : State} (h : SameCore s s') (w : DvpClean s) : DvpClean s' := by
  intro a val hv; rw [h.votes] at hv; rw [h.dvp]; exact w a val hv

theorem pay_core {s s1 : State} {a : Nat} {g : Gauge} {e : Endorsement} {pw p : Int}
    (h : s.pay a g e pw = .ok (s1, p)) : SameCore s s1 ∧ s1.stk = s.stk := by
  unfold State.pay at h
  split at h
  · cases h; exact ⟨⟨rfl, rfl, rfl, rfl⟩, rfl⟩
  · split at h
    · cases h
    split at h
    · cases h
    split at h
    · cases h
    · cases h; exact ⟨⟨rfl, rfl, rfl, rfl⟩, rfl⟩

theorem claim_core {s s1 : State} {a gid : Nat} {p : Int} (h : s.claim a gid = .ok (s1, p)) :
    SameCore s s1 ∧ s1.stk = s.stk := by
  unfold State.claim at h
  split at h
  · cases h
  split at h
  · cases h
  split at h
  · cases h
  · cases h
  split at h
  · cases h
  split at h
  · cases h
  split at h
  · cases h
  · exact pay_core h

theorem epochEnd_core (s : State) (d : Bool) : SameCore s (s.epochEnd d) ∧ (s.epochEnd d).stk = s.stk := by
  unfold State.epochEnd State.sponsEpochEnd State.incentivesEpochEnd
  cases d
  · exact ⟨⟨rfl, rfl, rfl, rfl⟩, rfl⟩
  · simp only [if_true]; split <;> exact ⟨⟨rfl, rfl, rfl, rfl⟩, rfl⟩

theorem fund_core {s s1 : State} {g : Nat} {amt : Int} (h : s.fund g amt = .ok s1) :
    SameCore s s1 ∧ s1.stk = s.stk := by
  unfold State.fund at h
  split at h
  · cases h
  split at h
  · cases h
  · cases h; exact ⟨⟨rfl, rfl, rfl, rfl⟩, rfl⟩

theorem addGauge_ok {s s1 : State} {g : Gauge} (h : s.addGauge g = .ok s1) :
    (∃ inc, s1 = { s with gauges := s.gauges ++ [newGauge (s.lastGauge + 1) g], lastGauge := s.lastGauge + 1,
                          incBal := s.incBal + inc }) ∧ (∀ r, g.kind ≠ .rollapp r) ∧
      (∀ r, g.kind = .endorsement r → (s.endorsement? r).isSome) := by
  unfold State.addGauge at h
  split at h
  · cases h
  · rename_i hk
    cases h
    refine ⟨⟨0, ?_⟩, ?_, ?_⟩
    · simp
    · intro r e; rw [hk] at e; cases e
    · intro r e; rw [hk] at e; cases e
  · rename_i r hk
    split at h
    · cases h
    rename_i hsome
    split at h
    · cases h
    · cases h
      refine ⟨⟨g.coins, rfl⟩, ?_, ?_⟩
      · intro r' e; rw [hk] at e; cases e
      · intro r' e
        rw [hk] at e; cases e
        cases hh : s.endorsement? r with
        | none => simp [hh] at hsome
        | some _ => rfl

theorem addGauge_core {s s1 : State} {g : Gauge} (h : s.addGauge g = .ok s1) :
    SameCore s s1 ∧ s1.stk = s.stk := by
  obtain ⟨⟨inc, rfl⟩, _, _⟩ := addGauge_ok h
  exact ⟨⟨rfl, rfl, rfl, rfl⟩, rfl⟩

theorem addRollapp_ok {s s1 : State} {r : Nat} (h : s.addRollapp r = .ok s1) :
    s.endorsement? r = none ∧
    s1 = { s with gauges := s.gauges ++ [{ id := s.lastGauge + 1, kind := .rollapp r, perpetual := true }],
                  endorsements := s.endorsements ++ [⟨r, s.lastGauge + 1, 0, 0⟩],
                  lastGauge := s.lastGauge + 1 } := by
  unfold State.addRollapp at h
  split at h
  · cases h
  · rename_i hn
    cases h
    refine ⟨?_, rfl⟩
    cases hh : s.endorsement? r with
    | none => rfl
    | some _ => simp [hh] at hn

theorem addRollapp_core {s s1 : State} {r : Nat} (h : s.addRollapp r = .ok s1) :
    SameCore s s1 ∧ s1.stk = s.stk := by
  obtain ⟨_, rfl⟩ := addRollapp_ok h
  exact ⟨⟨rfl, rfl, rfl, rfl⟩, rfl⟩

theorem setParams_ok {s s1 : State} {ma mv : Int} (h : s.setParams ma mv = .ok s1) :
    s1 = { s with minAlloc := ma, minVP := mv } ∧ 0 ≤ mv ∧ 0 ≤ ma ∧ ma ≤ maxW := by
  unfold State.setParams at h
  split at h
  · cases h
  · rename_i hv
    cases h
    have hv' : validParams ma mv = true := by simpa using hv
    simp only [validParams, Bool.and_eq_true, decide_eq_true_eq] at hv'
    exact ⟨rfl, hv'.2, hv'.1.1, hv'.1.2⟩

/-! ### one hook -/

theorem hook_ok {s s' : State} {a val : Nat} {p : Option Int} (h : s.hook a val p = .ok s') :
    (alookup a s.votes = none ∧ s' = s) ∨
    ∃ v, alookup a s.votes = some v ∧ s' = s.processHook a val v (pOf s.dvp a val) (p.getD 0) := by
  unfold State.hook State.vote? at h
  split at h
  · rename_i hv; cases h; exact Or.inl ⟨hv, rfl⟩
  · rename_i v hv
    refine Or.inr ⟨v, hv, ?_⟩
    split at h
    · cases h; rfl
    · split at h
      · cases h
      · rename_i old ho; cases h; simp [pOf, ho]

theorem processHook_stk (s : State) (a val : Nat) (v : Vote) (o n : Int) : (s.processHook a val v o n).stk = s.stk := by
  unfold State.processHook; simp only; split <;> rfl

theorem hook_stk {s s' : State} {a val : Nat} {p : Option Int} (h : s.hook a val p = .ok s') : s'.stk = s.stk := by
  rcases hook_ok h with ⟨_, rfl⟩ | ⟨v, _, rfl⟩
  · rfl
  · exact processHook_stk _ _ _ _ _ _

theorem hook_good {s s' : State} {a val : Nat} {p : Option Int} (wf : WF s) (inv : DistInv s)
    (h : s.hook a val p = .ok s') : WF s' ∧ DistInv s' := by
  rcases hook_ok h with ⟨_, rfl⟩ | ⟨v, hv, rfl⟩
  · exact ⟨wf, inv⟩
  · exact processHook_inv wf inv hv

theorem hook_tracked {s s' : State} {T : PTable} {a val : Nat} {p : Option Int} (hk : KeysNodup T)
    (ht : Track s T) (hc : DvpClean s) (h : s.hook a val p = .ok s') :
    Track s' (upd T (a, val) p) ∧ DvpClean s' := by
  rcases hook_ok h with ⟨hv, rfl⟩ | ⟨v, hv, rfl⟩
  · refine ⟨?_, hc⟩
    intro a' v' hv'
    have ha : a' ≠ a := by intro e; subst e; rw [hv] at hv'; cases hv'
    have := ht a' v' hv'
    refine ⟨fun val' => ?_, ?_⟩
    · rw [this.1 val', pOf_upd_ne T p (fun e => ha (by cases e; rfl))]
    · rw [this.2, powerOf_upd_other T p (fun e => ha e.symm)]
  · exact processHook_track hk ht hc hv

theorem hook_min {s s' : State} {a val : Nat} {p : Option Int} (hm : MinInv s) (h : s.hook a val p = .ok s') :
    MinInv s' := by
  rcases hook_ok h with ⟨_, rfl⟩ | ⟨v, hv, rfl⟩
  · exact hm
  · unfold State.processHook; simp only; split
    · exact revokeVote_min hm
    · rename_i hge
      intro a' v' hv'
      by_cases ha : a' = a
      · subst ha
        have hv'' : some (⟨v.vp + (p.getD 0 - pOf s.dvp a' val), v.weights⟩ : Vote) = some v' := by
          rw [← hv']; exact (alookup_aset_self _ _ _).symm
        cases hv''
        show s.minVP ≤ v.vp + (p.getD 0 - pOf s.dvp a' val)
        omega
      · have hv'' : alookup a' s.votes = some v' := by
          rw [← hv']; exact (alookup_aset_ne ha _ _).symm
        exact hm a' v' hv''

/-! ### hook lists, staking ops -/

theorem hooks_good {s s' : State} {a : Nat} {hs : List (Nat × Option Int)} (wf : WF s) (inv : DistInv s)
    (h : s.hooks a hs = .ok s') : WF s' ∧ DistInv s' := by
  induction hs generalizing s with
  | nil => cases h; exact ⟨wf, inv⟩
  | cons x xs ih =>
    unfold State.hooks at h
    split at h
    · cases h
    · rename_i s1 h1
      have := hook_good wf inv h1
      exact ih this.1 this.2 h

theorem hooks_min {s s' : State} {a : Nat} {hs : List (Nat × Option Int)} (hm : MinInv s)
    (h : s.hooks a hs = .ok s') : MinInv s' := by
  induction hs generalizing s with
  | nil => cases h; exact hm
  | cons x xs ih =>
    unfold State.hooks at h
    split at h
    · cases h
    · rename_i s1 h1; exact ih (hook_min hm h1) h

theorem hooks_stk {s s' : State} {a : Nat} {hs : List (Nat × Option Int)} (h : s.hooks a hs = .ok s') : s'.stk = s.stk := by
  induction hs generalizing s with
  | nil => cases h; rfl
  | cons x xs ih =>
    unfold State.hooks at h
    split at h
    · cases h
    · rename_i s1 h1; rw [ih h, hook_stk h1]

/-- the final staking facts of a faithful staking op: exactly the hooked delegations, with the value
    the hook saw -/
def finOf (a : Nat) (hs : List (Nat × Option Int)) : List ((Nat × Nat) × Option Int) :=
  hs.map fun h => ((a, h.1), h.2)

theorem KeysNodup_setStk {T : PTable} (hk : KeysNodup T) (fin : List ((Nat × Nat) × Option Int)) :
    KeysNodup (setStk T fin) := by
  induction fin generalizing T with
  | nil => exact hk
  | cons x xs ih => exact ih (KeysNodup_upd hk _ _)

theorem setStk_cons (T : PTable) (x : (Nat × Nat) × Option Int) (xs : List ((Nat × Nat) × Option Int)) :
    setStk T (x :: xs) = setStk (upd T x.1 x.2) xs := rfl

theorem hooks_tracked {s s' : State} {T : PTable} {a : Nat} {hs : List (Nat × Option Int)} (hk : KeysNodup T)
    (ht : Track s T) (hc : DvpClean s) (h : s.hooks a hs = .ok s') :
    Track s' (setStk T (finOf a hs)) ∧ DvpClean s' := by
  induction hs generalizing s T with
  | nil => cases h; exact ⟨ht, hc⟩
  | cons x xs ih =>
    unfold State.hooks at h
    split at h
    · cases h
    · rename_i s1 h1
      have := hook_tracked hk ht hc h1
      show Track s' (setStk T (((a, x.1), x.2) :: finOf a xs)) ∧ _
      rw [setStk_cons]
      exact ih (KeysNodup_upd hk _ _) this.1 this.2 h

/-! ### hypotheses over op lists -/

def OpFaithful : Op → Prop
  | .staking a hs fin => fin = finOf a hs
  | .slash _ => False
  | _ => True

/-- slash-free history in which a delegation's power changes only through its own hook, to the value
    the hook saw -/
def RunFaithful (ops : List Op) : Prop := ∀ op ∈ ops, OpFaithful op

structure Tracked (s : State) : Prop where
  keys : KeysNodup s.stk
  track : Track s s.stk
  clean : DvpClean s

theorem step_good {s : State} {op : Op} (wf : WF s) (inv : DistInv s) :
    WF (step s op).1 ∧ DistInv (step s op).1 := by
  cases op with
  | vote a ws =>
    simp only [step]; split
    · rename_i s1 h; exact vote_inv wf inv h
    · exact ⟨wf, inv⟩
  | revoke a =>
    simp only [step]; split
    · rename_i s1 h; exact revoke_inv wf inv h
    · exact ⟨wf, inv⟩
  | claim a g =>
    simp only [step]; split
    · rename_i s1 p h; have := (claim_core h).1; exact ⟨this.wf wf, this.distInv inv⟩
    · exact ⟨wf, inv⟩
  | staking a hs fin =>
    simp only [step]; split
    · rename_i s1 h
      unfold State.staking at h
      split at h
      · cases h
      · rename_i s2 h2
        cases h
        have := hooks_good wf inv h2
        exact ⟨⟨this.1.minVP, this.1.sorted, this.1.keys, this.1.votes⟩, ⟨this.2.gauges, this.2.vp⟩⟩
    · exact ⟨wf, inv⟩
  | slash fin => exact ⟨⟨wf.minVP, wf.sorted, wf.keys, wf.votes⟩, ⟨inv.gauges, inv.vp⟩⟩
  | epochEnd d => have := (epochEnd_core s d).1; exact ⟨this.wf wf, this.distInv inv⟩
  | fund g amt =>
    simp only [step]; split
    · rename_i s1 h; have := (fund_core h).1; exact ⟨this.wf wf, this.distInv inv⟩
    · exact ⟨wf, inv⟩
  | addGauge g =>
    simp only [step]; split
    · rename_i s1 h; have := (addGauge_core h).1; exact ⟨this.wf wf, this.distInv inv⟩
    · exact ⟨wf, inv⟩
  | addRollapp r =>
    simp only [step]; split
    · rename_i s1 h; have := (addRollapp_core h).1; exact ⟨this.wf wf, this.distInv inv⟩
    · exact ⟨wf, inv⟩
  | setParams ma mv =>
    simp only [step]; split
    · rename_i s1 h
      obtain ⟨rfl, hmv, _, _⟩ := setParams_ok h
      exact ⟨⟨hmv, wf.sorted, wf.keys, wf.votes⟩, ⟨inv.gauges, inv.vp⟩⟩
    · exact ⟨wf, inv⟩

/-- the op does not RAISE MinVotingPower (a raise leaves the votes cast under the lower minimum in
    place: `min_power_recorded_counterexample`) -/
def NoRaiseMin (s : State) : Op → Prop
  | .setParams _ mv => mv ≤ s.minVP
  | _ => True

theorem step_min {s : State} {op : Op} (hm : MinInv s) (hr : NoRaiseMin s op) : MinInv (step s op).1 := by
  cases op with
  | vote a ws =>
    simp only [step]; split
    · rename_i s1 h
      unfold State.vote at h
      split at h
      · cases h
      split at h
      · cases h
      split at h
      · rename_i v hv
        obtain ⟨hlow, hvotes, _, _, hmin⟩ := castVote_ok h
        have hm1 : MinInv (s.revokeVote a v) := revokeVote_min hm
        intro a' v' hv'
        rw [hvotes] at hv'; rw [hmin]
        by_cases ha : a' = a
        · subst ha; rw [alookup_aset_self] at hv'; cases hv'; exact hlow
        · rw [alookup_aset_ne ha] at hv'; exact hm1 a' v' hv'
      · obtain ⟨hlow, hvotes, _, _, hmin⟩ := castVote_ok h
        intro a' v' hv'
        rw [hvotes] at hv'; rw [hmin]
        by_cases ha : a' = a
        · subst ha; rw [alookup_aset_self] at hv'; cases hv'; exact hlow
        · rw [alookup_aset_ne ha] at hv'; exact hm a' v' hv'
    · exact hm
  | revoke a =>
    simp only [step]; split
    · rename_i s1 h
      unfold State.revoke at h; split at h
      · cases h
      · cases h; exact revokeVote_min hm
    · exact hm
  | claim a g =>
    simp only [step]; split
    · rename_i s1 p h; exact (claim_core h).1.minInv hm
    · exact hm
  | staking a hs fin =>
    simp only [step]; split
    · rename_i s1 h
      unfold State.staking at h
      split at h
      · cases h
      · rename_i s2 h2; cases h; exact fun a' v' hv' => hooks_min hm h2 a' v' hv'
    · exact hm
  | slash fin => exact hm
  | epochEnd d => exact (epochEnd_core s d).1.minInv hm
  | fund g amt =>
    simp only [step]; split
    · rename_i s1 h; exact (fund_core h).1.minInv hm
    · exact hm
  | addGauge g =>
    simp only [step]; split
    · rename_i s1 h; exact (addGauge_core h).1.minInv hm
    · exact hm
  | addRollapp r =>
    simp only [step]; split
    · rename_i s1 h; exact (addRollapp_core h).1.minInv hm
    · exact hm
  | setParams ma mv =>
    simp only [step]; split
    · rename_i s1 h
      obtain ⟨rfl, _, _, _⟩ := setParams_ok h
      intro a v hv
      have h1 : mv ≤ s.minVP := hr
      have h2 : s.minVP ≤ v.vp := hm a v hv
      exact Int.le_trans h1 h2
    · exact hm

theorem step_tracked {s : State} {op : Op} (ht : Tracked s) (hf : OpFaithful op) :
    Tracked (step s op).1 := by
  cases op with
  | vote a ws =>
    simp only [step]; split
    · rename_i s1 h
      unfold State.vote at h
      split at h
      · cases h
      split at h
      · cases h
      split at h
      · rename_i v hv
        have hc1 : DvpClean (s.revokeVote a v) := revokeVote_clean ht.clean
        have hnone : ∀ val, alookup (a, val) (s.revokeVote a v).dvp = none :=
          fun val => hc1 a val (by rw [revokeVote_votes]; exact alookup_aerase_self _ _)
        have := castVote_track (s1 := s.revokeVote a v) ht.keys (revokeVote_track ht.track) hnone h
        exact ⟨by rw [this.2]; exact ht.keys, this.1, castVote_clean hc1 ht.keys h⟩
      · rename_i hv
        have hnone : ∀ val, alookup (a, val) s.dvp = none := fun val => ht.clean a val hv
        have := castVote_track ht.keys ht.track hnone h
        exact ⟨by rw [this.2]; exact ht.keys, this.1, castVote_clean ht.clean ht.keys h⟩
    · exact ht
  | revoke a =>
    simp only [step]; split
    · rename_i s1 h
      unfold State.revoke at h; split at h
      · cases h
      · cases h; exact ⟨ht.keys, revokeVote_track ht.track, revokeVote_clean ht.clean⟩
    · exact ht
  | claim a g =>
    simp only [step]; split
    · rename_i s1 p h
      have := claim_core h
      exact ⟨this.2 ▸ ht.keys, this.2 ▸ this.1.track ht.track, this.1.clean ht.clean⟩
    · exact ht
  | staking a hs fin =>
    simp only [step]; split
    · rename_i s1 h
      unfold State.staking at h
      split at h
      · cases h
      · rename_i s2 h2
        cases h
        have hfin : fin = finOf a hs := hf
        subst hfin
        have := hooks_tracked ht.keys ht.track ht.clean h2
        rw [← hooks_stk h2] at this
        exact ⟨KeysNodup_setStk (hooks_stk h2 ▸ ht.keys) _, this.1, this.2⟩
    · exact ht
  | slash fin => exact hf.elim
  | epochEnd d =>
    have := epochEnd_core s d
    exact ⟨this.2 ▸ ht.keys, this.2 ▸ this.1.track ht.track, this.1.clean ht.clean⟩
  | fund g amt =>
    simp only [step]; split
    · rename_i s1 h
      have := fund_core h
      exact ⟨this.2 ▸ ht.keys, this.2 ▸ this.1.track ht.track, this.1.clean ht.clean⟩
    · exact ht
  | addGauge g =>
    simp only [step]; split
    · rename_i s1 h
      have := addGauge_core h
      exact ⟨this.2 ▸ ht.keys, this.2 ▸ this.1.track ht.track, this.1.clean ht.clean⟩
    · exact ht
  | addRollapp r =>
    simp only [step]; split
    · rename_i s1 h
      have := addRollapp_core h
      exact ⟨this.2 ▸ ht.keys, this.2 ▸ this.1.track ht.track, this.1.clean ht.clean⟩
    · exact ht
  | setParams ma mv =>
    simp only [step]; split
    · rename_i s1 h
      obtain ⟨rfl, _, _, _⟩ := setParams_ok h
      exact ⟨ht.keys, ht.track, ht.clean⟩
    · exact ht

end DymVerif.Spons
