/-
  Lemmas/CoreFinEnd — `FinalizeStates` on one queue entry (finalizeOne / finalizeEntry): the entry
  processed is the first one of its rollapp, so its indices are lastFin+1, lastFin+2, … in order; on
  success the entry is removed, on failure at position j it is rewritten to the unfinalized suffix.
-/
import DymVerif.Lemmas.CoreFinSame2
namespace DymVerif.Core

-- ---------------------------------------------------------------- one index, record level

/-- the record after finalizing state index `i` (whose stored info is `st`) at hub height `H` -/
def finRec (r : Rollapp) (i : Nat) (st : SInfo) (H : Nat) : Rollapp :=
  { r with states := r.states.set (i - 1) { st with finalized := true, finalizedAt := H }, lastFin := i }

theorem RFinL.head {i : Nat} {fl : List Nat} {q : List QEntry} {d : Nat} {r : Rollapp} (h : RFinL (i :: fl) q d r) :
    i = r.lastFin + 1 ∧ r.lastFin < r.states.length ∧ fl = List.range' (r.lastFin + 1 + 1) (r.states.length - r.lastFin - 1) := by
  have := h.flat_eq
  unfold pendingIdx at this
  have hpos : r.lastFin < r.states.length := by
    rcases Nat.lt_or_ge r.lastFin r.states.length with h1 | h1
    · exact h1
    · rw [show r.states.length - r.lastFin = 0 by omega] at this; simp at this
  rw [show r.states.length - r.lastFin = (r.states.length - r.lastFin - 1) + 1 by omega, List.range'_succ] at this
  injection this with h1 h2
  exact ⟨h1, hpos, h2⟩

theorem RFinL.finalize {i : Nat} {fl : List Nat} {q : List QEntry} {d : Nat} {r : Rollapp} {H : Nat}
    (h : RFinL (i :: fl) q d r) (hdue : ∀ st, r.states[i - 1]? = some st → st.creationHeight + d ≤ H) :
    i = r.lastFin + 1 ∧ ∃ st, r.states[i - 1]? = some st ∧ st.finalized = false ∧ RFinL fl q d (finRec r i st H) := by
  obtain ⟨hi, hlt, hfl⟩ := h.head
  subst hi
  obtain ⟨st, hst⟩ : ∃ st, r.states[r.lastFin]? = some st := ⟨_, List.getElem?_eq_getElem hlt⟩
  refine ⟨rfl, st, by rw [Nat.add_sub_cancel]; exact hst, ?_, ?_⟩
  · have := h.pre r.lastFin st hst
    cases hf : st.finalized with
    | false => rfl
    | true => have := this.1 hf; omega
  · have hget : ∀ j, (finRec r (r.lastFin + 1) st H).states[j]? =
        if r.lastFin = j then some { st with finalized := true, finalizedAt := H } else r.states[j]? := by
      intro j
      unfold finRec
      show (r.states.set (r.lastFin + 1 - 1) _)[j]? = _
      rw [Nat.add_sub_cancel, List.getElem?_set]
      by_cases hj : r.lastFin = j
      · rw [if_pos hj, if_pos hj, if_pos hlt]
      · rw [if_neg hj, if_neg hj]
    have hlen : (finRec r (r.lastFin + 1) st H).states.length = r.states.length := by
      unfold finRec; simp
    refine ⟨?_, ?_, ?_, ?_, ?_⟩
    · rw [hlen]; exact hlt
    · rw [hfl]; unfold pendingIdx; rw [hlen]
      show _ = List.range' (r.lastFin + 1 + 1) (r.states.length - (r.lastFin + 1))
      congr 1
    · intro j st' hst'
      rw [hget j] at hst'
      show st'.finalized = true ↔ j < r.lastFin + 1
      split at hst'
      · rename_i hj
        injection hst' with hst'; subst hst'
        simp; omega
      · rename_i hj
        have := h.pre j st' hst'
        rw [this]; omega
    · intro e he hra j hj
      obtain ⟨st1, hst1, hch⟩ := h.ch e he hra j hj
      rw [hget (j - 1)]
      by_cases hjj : r.lastFin = j - 1
      · rw [if_pos hjj]
        rw [← hjj, hst] at hst1; injection hst1 with hst1; subst hst1
        exact ⟨_, rfl, hch⟩
      · rw [if_neg hjj]; exact ⟨st1, hst1, hch⟩
    · intro st' hm hf
      obtain ⟨j, hj⟩ := List.mem_iff_getElem?.1 hm
      rw [hget j] at hj
      split at hj
      · injection hj with hj; subst hj
        exact hdue st (by rw [Nat.add_sub_cancel]; exact hst)
      · exact h.notEarly st' (List.mem_of_getElem? hj) hf

/-- weakening of the queue argument (used for the two writes of `FinalizeStates`) -/
theorem RFinL.mono_q {fl : List Nat} {q q' : List QEntry} {d : Nat} {r : Rollapp} (h : RFinL fl q d r)
    (hq : ∀ e' ∈ q', e'.ra = r.id → ∃ e0 ∈ q, e0.ch = e'.ch ∧ e0.ra = e'.ra ∧ ∀ i ∈ e'.idx, i ∈ e0.idx) :
    RFinL fl q' d r := by
  refine ⟨h.le, h.flat_eq, h.pre, ?_, h.notEarly⟩
  intro e' he' hra i hi
  obtain ⟨e0, he0, k1, k2, k3⟩ := hq e' he' hra
  obtain ⟨st, hst, hch⟩ := h.ch e0 he0 (by rw [k2]; exact hra) i (k3 i hi)
  exact ⟨st, hst, by rw [hch, k1]⟩

-- ---------------------------------------------------------------- finalizeOne

theorem finalizeOne_some {s s' : St} {fails : List (Nat × Nat)} {ra idx : Nat} (e : finalizeOne s fails ra idx = some s') :
    ∃ r st s0, getRa s ra = some r ∧ r.states[idx - 1]? = some st ∧ st.finalized = false ∧
      fails.contains (ra, idx) = false ∧ Frame s s0 ∧ s' = setRa s0 (finRec r idx st s.h) := by
  unfold finalizeOne at e
  split at e
  · cases e
  · rename_i hf
    split at e
    · cases e
    · rename_i r hg
      split at e
      · cases e
      · rename_i st hst
        split at e
        · cases e
        · rename_i hc
          dsimp only at e
          injection e with e
          have hc : ¬ idx = 0 ∧ st.finalized = false := by simpa using hc
          exact ⟨r, st, { s with seqH := s.seqH.filter (fun p => !(p.1 == st.creator && st.bds.any (·.height == p.2))) },
            hg, hst, hc.2, by simpa using hf, ⟨rfl, rfl, rfl, rfl⟩, e.symm⟩

theorem finalizeOne_none {s : St} {fails : List (Nat × Nat)} {ra idx : Nat} {r : Rollapp} {st : SInfo}
    (e : finalizeOne s fails ra idx = none) (hg : getRa s ra = some r) (hst : r.states[idx - 1]? = some st)
    (hnf : st.finalized = false) (h0 : idx ≠ 0) : (ra, idx) ∈ fails := by
  unfold finalizeOne at e
  split at e
  · rename_i hf; simpa using hf
  · rw [hg] at e
    dsimp only at e
    rw [hst] at e
    dsimp only at e
    rw [if_neg (by simp [h0, hnf])] at e
    cases e

-- ---------------------------------------------------------------- the invariant in the middle of an entry

theorem QSorted.key_unique {q : List QEntry} (hs : QSorted q) {a b : QEntry} (ha : a ∈ q) (hb : b ∈ q)
    (h1 : a.ch = b.ch) (h2 : a.ra = b.ra) : a = b := by
  apply pairwise_unique hs ha hb
  · intro hc; rw [keyLt_iff] at hc; omega
  · intro hc; rw [keyLt_iff] at hc; omega

structure MidInv (e : QEntry) (rest l : List Nat) (s : St) : Prop where
  nodup : IdsNodup s
  sorted : QSorted s.queue
  ent : ∀ x ∈ s.queue, x.ch ≤ s.h ∧ x.idx ≠ []
  qra : ∀ x ∈ s.queue, x.ra ∈ s.ras.map (·.id)
  mem : e ∈ s.queue
  suffix : ∃ pre, e.idx = pre ++ l
  due : e.ch + s.p.dispute ≤ s.h
  others : ∀ r ∈ s.ras, r.id ≠ e.ra → RFin s.queue s.p.dispute r
  this : ∀ r ∈ s.ras, r.id = e.ra → RFinL (l ++ rest) s.queue s.p.dispute r

/-- the state after one of the two writes, given the per-rollapp facts -/
theorem MidInv.write {e : QEntry} {rest l : List Nat} {s : St} (h : MidInv e rest l s) (q' : List QEntry)
    (hs : QSorted q') (hne : ∀ x ∈ q', x.idx ≠ [])
    (hsub : ∀ e' ∈ q', ∃ e0 ∈ s.queue, e0.ch = e'.ch ∧ e0.ra = e'.ra ∧ ∀ i ∈ e'.idx, i ∈ e0.idx)
    (hother : ∀ ra', ra' ≠ e.ra → flat q' ra' = flat s.queue ra') (hflat : flat q' e.ra = l ++ rest) :
    FinInv { s with queue := q' } := by
  refine ⟨h.nodup, hs, ?_, ?_, ?_⟩
  · intro x hx
    obtain ⟨e0, he0, k1, _, _⟩ := hsub x hx
    exact ⟨by rw [← k1]; exact (h.ent e0 he0).1, hne x hx⟩
  · intro x hx
    obtain ⟨e0, he0, _, k2, _⟩ := hsub x hx
    show x.ra ∈ s.ras.map (·.id)
    rw [← k2]; exact h.qra e0 he0
  · intro r hr
    show RFin q' s.p.dispute r
    by_cases hra : r.id = e.ra
    · unfold RFin
      rw [hra, hflat]
      exact (h.this r hr hra).mono_q (fun e' he' _ => hsub e' he')
    · have := h.others r hr hra
      unfold RFin at *
      rw [hother _ hra]
      exact this.mono_q (fun e' he' _ => hsub e' he')

theorem mem_qRewrite {q : List QEntry} {ch ra : Nat} {l : List Nat} {x : QEntry} (hx : x ∈ qRewrite q ch ra l) :
    x ∈ q ∨ ∃ x0 ∈ q, x0.ch = ch ∧ x0.ra = ra ∧ x = { x0 with idx := l } := by
  unfold qRewrite at hx
  obtain ⟨x0, hx0, rfl⟩ := List.mem_map.1 hx
  split
  · rename_i hc
    have : x0.ch = ch ∧ x0.ra = ra := by simpa using hc
    exact Or.inr ⟨x0, hx0, this.1, this.2, rfl⟩
  · exact Or.inl hx0

/-- `FinalizeStates` on the first entry of a rollapp: result state satisfies the invariant, and a
    failure can only come from the injected oracle, at index lastFin+1 of the resulting record -/
theorem go_fin (fails : List (Nat × Nat)) (e : QEntry) (rest : List Nat) :
    ∀ (l : List Nat) (s : St), MidInv e rest l s →
      flat (qRemove s.queue e.ch e.ra) e.ra = rest → (∀ l', flat (qRewrite s.queue e.ch e.ra l') e.ra = l' ++ rest) →
      FinInv (finalizeEntry.go fails e s l).1 ∧
      ((finalizeEntry.go fails e s l).2 = false →
        ∀ r, getRa (finalizeEntry.go fails e s l).1 e.ra = some r → (e.ra, r.lastFin + 1) ∈ fails) ∧
      ((finalizeEntry.go fails e s l).2 = true → (finalizeEntry.go fails e s l).1.queue = qRemove s.queue e.ch e.ra) ∧
      ((finalizeEntry.go fails e s l).2 = false →
        ∃ l', (finalizeEntry.go fails e s l).1.queue = qRewrite s.queue e.ch e.ra l') := by
  intro l
  induction l with
  | nil =>
    intro s h h2 _
    unfold finalizeEntry.go
    refine ⟨?_, ?_, ?_, ?_⟩
    · show FinInv { s with queue := qRemove s.queue e.ch e.ra }
      apply h.write
      · exact qRemove_sorted h.sorted _ _
      · intro x hx; exact (h.ent x (List.mem_filter.1 hx).1).2
      · intro e' he'; exact ⟨e', (List.mem_filter.1 he').1, rfl, rfl, fun i hi => hi⟩
      · intro ra' hne; exact flat_qRemove_other _ _ _ _ hne
      · rw [h2]; rfl
    · intro hc; simp at hc
    · intro _; rfl
    · intro hc; simp at hc
  | cons i tl ih =>
    intro s h h2 h3
    have hrw : FinInv { s with queue := qRewrite s.queue e.ch e.ra (i :: tl) } := by
      apply h.write
      · exact qRewrite_sorted h.sorted _ _ _
      · intro x hx
        rcases mem_qRewrite hx with h1 | ⟨x0, _, _, _, rfl⟩
        · exact (h.ent x h1).2
        · simp
      · intro e' he'
        rcases mem_qRewrite he' with h1 | ⟨x0, hx0, k1, k2, rfl⟩
        · exact ⟨e', h1, rfl, rfl, fun i hi => hi⟩
        · have : x0 = e := h.sorted.key_unique hx0 h.mem k1 k2
          subst this
          refine ⟨x0, hx0, rfl, rfl, ?_⟩
          intro j hj
          obtain ⟨pre, hpre⟩ := h.suffix
          have hj : j ∈ i :: tl := hj
          rw [hpre]; exact List.mem_append_right _ hj
      · intro ra' hne; exact flat_qRewrite_other _ _ _ _ _ hne
      · exact h3 _
    unfold finalizeEntry.go
    split
    · rename_i s1 h1
      obtain ⟨r, st, s0, hg, hst, hnf, _, hfr, rfl⟩ := finalizeOne_some h1
      have hrid : r.id = e.ra := getRa_id hg
      have hrm : r ∈ s.ras := getRa_mem hg
      have hq : (setRa s0 (finRec r i st s.h)).queue = s.queue := hfr.queue
      have hiin : i ∈ e.idx := by
        obtain ⟨pre, hpre⟩ := h.suffix
        rw [hpre]; simp
      have hmid : MidInv e rest tl (setRa s0 (finRec r i st s.h)) := by
        have hp : (setRa s0 (finRec r i st s.h)).p = s.p := hfr.p
        have hh : (setRa s0 (finRec r i st s.h)).h = s.h := hfr.h
        refine ⟨(h.nodup.of_ids (by rw [hfr.ras])).setRa _, by rw [hq]; exact h.sorted, ?_, ?_, by rw [hq]; exact h.mem, ?_,
          by rw [hp, hh]; exact h.due, ?_, ?_⟩
        · intro x hx; rw [hq] at hx; rw [hh]; exact h.ent x hx
        · intro x hx; rw [hq] at hx; rw [setRa_ids, hfr.ras]; exact h.qra x hx
        · obtain ⟨pre, hpre⟩ := h.suffix
          exact ⟨pre ++ [i], by rw [hpre]; simp⟩
        · intro r2 hr2 hne
          rw [hq, hp]
          rcases mem_setRa_strong hr2 with ⟨hm, _⟩ | heq
          · rw [hfr.ras] at hm; exact h.others r2 hm hne
          · subst heq; exact absurd hrid hne
        · intro r2 hr2 heq2
          rw [hq, hp]
          rcases mem_setRa_strong hr2 with ⟨_, hne⟩ | heq
          · exact absurd (heq2.trans hrid.symm) hne
          · subst heq
            have hthis := h.this r hrm hrid
            obtain ⟨_, st2, hst2, _, hres⟩ := hthis.finalize (H := s.h) (by
              intro st3 hst3
              obtain ⟨st4, hst4, hch⟩ := hthis.ch e h.mem hrid.symm i hiin
              rw [hst3] at hst4; injection hst4 with hst4; subst hst4
              rw [hch]; exact h.due)
            rw [hst] at hst2; injection hst2 with hst2; subst hst2
            exact hres
      have := ih _ hmid (by rw [hq]; exact h2) (by rw [hq]; exact h3)
      rw [hq] at this
      exact this
    · rename_i h1
      refine ⟨hrw, ?_, ?_, ?_⟩
      rotate_left
      · intro hc; simp at hc
      · intro _; exact ⟨i :: tl, rfl⟩
      intro _ r hg
      have hg : getRa s e.ra = some r := hg
      have hthis := h.this r (getRa_mem hg) (getRa_id hg)
      obtain ⟨hi1, st, hst, hnf, _⟩ := hthis.finalize (H := s.h + s.p.dispute + 0) (by
        intro st3 hst3
        obtain ⟨st4, hst4, hch⟩ := hthis.ch e h.mem (getRa_id hg).symm i (by
          obtain ⟨pre, hpre⟩ := h.suffix
          rw [hpre]; simp)
        rw [hst3] at hst4; injection hst4 with hst4; subst hst4
        have := h.due
        omega)
      rw [← hi1]
      exact finalizeOne_none h1 hg hst hnf (by omega)

/-- entering an entry that is the first one of its rollapp -/
theorem MidInv.start {s : St} (hi : FinInv s) {e : QEntry} (he : e ∈ s.queue)
    (hfirst : ∀ y ∈ s.queue, y.ra = e.ra → e.ch ≤ y.ch) (hdue : e.ch + s.p.dispute ≤ s.h) :
    ∃ rest, flat (qRemove s.queue e.ch e.ra) e.ra = rest ∧
      (∀ l', flat (qRewrite s.queue e.ch e.ra l') e.ra = l' ++ rest) ∧ MidInv e rest e.idx s := by
  obtain ⟨rest, h1, h2, h3⟩ := flat_first_entry s.queue hi.sorted e he hfirst
  refine ⟨rest, h2, h3, hi.nodup, hi.sorted, hi.ent, hi.qra, he, ⟨[], rfl⟩, hdue, fun r hr _ => hi.ras r hr, ?_⟩
  intro r hr hra
  have := hi.ras r hr
  unfold RFin at this
  rw [hra, h1] at this
  exact this

end DymVerif.Core
