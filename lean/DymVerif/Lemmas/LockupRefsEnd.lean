import DymVerif.Lemmas.LockupRefsStep
/-
  Lemmas/LockupRefsEnd — the EndBlocker, the restart and whole histories of the reference-level
  machine (Model/LockupRefs): projection onto M-Lockup (`rcstep_sim`, `rcrun_sim`), the invariant for
  all histories (`rcrun_rinv`), and when exactly the EndBlocker panics (`endBlockR_panics_iff`).
-/
namespace DymVerif.Lockup
open DymVerif.Genesis

/-- the part of the invariant the EndBlocker's loop needs and keeps -/
structure W (rs : RState) : Prop where
  nodup : (rs.s.locks.map (·.id)).Nodup
  refs : RefsOk rs.s.locks rs.refs

theorem unlockMaturedR_step (B : Actor → Bool) {rs : RState} (w : W rs) (id : Nat) :
    (unlockMaturedR B rs id = none ∧
      (unlockMatured rs.s id = none ∨ ∃ l, findLock rs.s.locks id = some l ∧ B l.owner = true)) ∨
    (∃ rs' l, unlockMaturedR B rs id = some rs' ∧ unlockMatured rs.s id = some rs'.s ∧ W rs' ∧
      findLock rs.s.locks id = some l ∧ B l.owner = false ∧ rs'.s.locks = delLock rs.s.locks id ∧
      rs'.s.now = rs.s.now) := by
  unfold unlockMaturedR unlockMatured
  cases hf : findLock rs.s.locks id with
  | none => exact Or.inl ⟨rfl, Or.inl rfl⟩
  | some l =>
    obtain ⟨hl, hid⟩ := findLock_some hf
    try dsimp only
    cases hu : l.isUnlocking with
    | false => exact Or.inl ⟨by simp, Or.inl (by simp)⟩
    | true =>
      cases hm : matured rs.s.now l with
      | false => exact Or.inl ⟨by simp, Or.inl (by simp)⟩
      | true =>
        cases hb : B l.owner with
        | true => exact Or.inl ⟨by simp, Or.inr ⟨l, rfl, hb⟩⟩
        | false =>
          cases hm2 : fromModule rs.s l.owner l.denom l.amount with
          | none => exact Or.inl ⟨by simp, Or.inl (by simp)⟩
          | some s1 =>
            obtain ⟨_, hlk, _, _, hnow, _⟩ := fromModule_some hm2
            right
            refine ⟨⟨removeLock s1 l, deleteLockRefs rs.refs (queueOf true) l⟩, l, by simp, by simp, ?_, rfl, hb, ?_, ?_⟩
            · constructor
              · simp only [removeLock, hlk]; exact delLock_nodup w.nodup _
              · simp only [removeLock, hlk]
                have := refsOk_remove w.refs w.nodup hl
                rwa [hu] at this
            · simp only [removeLock, hlk, hid]
            · simp only [removeLock, hnow]

/-- with no blocked owner among the locks to withdraw, the loop of `unlockFromIterator` is M-Lockup's -/
theorem withdrawAllR_ok (B : Actor → Bool) : ∀ (ids : List Nat) (rs : RState), W rs →
    (∀ id ∈ ids, ∀ l ∈ rs.s.locks, l.id = id → B l.owner = false) →
    (withdrawAll ids rs.s = none ∧ withdrawAllR B ids rs = none) ∨
    (∃ rs', withdrawAllR B ids rs = some rs' ∧ withdrawAll ids rs.s = some rs'.s ∧ W rs' ∧
      ∀ l ∈ rs'.s.locks, l ∈ rs.s.locks)
  | [], rs, w, _ => Or.inr ⟨rs, rfl, rfl, w, fun _ h => h⟩
  | id :: ids, rs, w, hB => by
    rcases unlockMaturedR_step B w id with ⟨h1, h2 | ⟨l, hf, hb⟩⟩ | ⟨rs', l, h1, h2, w', hf, hb, hlk, _⟩
    · exact Or.inl ⟨by simp [withdrawAll, h2], by simp [withdrawAllR, h1]⟩
    · obtain ⟨hl, hid⟩ := findLock_some hf
      rw [hB id List.mem_cons_self l hl hid] at hb; cases hb
    · have hsub : ∀ x ∈ rs'.s.locks, x ∈ rs.s.locks := by
        intro x hx; rw [hlk] at hx; exact (mem_delLock.1 hx).1
      rcases withdrawAllR_ok B ids rs' w' (fun i hi x hx hxi =>
          hB i (List.mem_cons_of_mem _ hi) x (hsub x hx) hxi) with ⟨h3, h4⟩ | ⟨rs'', h3, h4, w'', hs⟩
      · exact Or.inl ⟨by simp [withdrawAll, h2, h3], by simp [withdrawAllR, h1, h4]⟩
      · exact Or.inr ⟨rs'', by simp [withdrawAllR, h1, h3], by simp [withdrawAll, h2, h4], w'',
          fun x hx => hsub x (hs x hx)⟩

/-- one blocked owner among the locks to withdraw makes `unlockFromIterator` panic -/
theorem withdrawAllR_blocked (B : Actor → Bool) : ∀ (ids : List Nat) (rs : RState), W rs → ids.Nodup →
    (∃ id ∈ ids, ∃ l ∈ rs.s.locks, l.id = id ∧ B l.owner = true) → withdrawAllR B ids rs = none
  | [], _, _, _, h => by obtain ⟨_, h, _⟩ := h; cases h
  | id :: ids, rs, w, hnd, ⟨i, hi, l, hl, hli, hb⟩ => by
    rw [List.nodup_cons] at hnd
    rcases unlockMaturedR_step B w id with ⟨h1, _⟩ | ⟨rs', l', h1, _, w', hf, hb', hlk, _⟩
    · simp [withdrawAllR, h1]
    · simp only [withdrawAllR, h1]
      obtain ⟨hl', hid'⟩ := findLock_some hf
      rcases List.mem_cons.1 hi with rfl | hi'
      · have : l = l' := eq_of_id_eq w.nodup hl hl' (by rw [hli, hid'])
        subst this; rw [hb] at hb'; cases hb'
      · apply withdrawAllR_blocked B ids rs' w' hnd.2
        refine ⟨i, hi', l, ?_, hli, hb⟩
        rw [hlk]
        exact mem_delLock.2 ⟨hl, by rw [hli]; intro e; exact hnd.1 (e ▸ hi')⟩

theorem maturedWalk_filter {B : Actor → Bool} {rs : RState} (h : RInv B rs) :
    rs.s.locks.filter (fun l => (maturedWalk rs.refs rs.s.now).contains l.id) = rs.s.locks.filter (matured rs.s.now) :=
  List.filter_congr (fun l hl => matured_lookup h hl)

/-- **the EndBlocker of the reference-level machine is M-Lockup's** -/
theorem endBlockR_good {B : Actor → Bool} {rs : RState} (h : RInv B rs) :
    Good B (endBlockR B rs) (endBlock rs.s) := by
  unfold endBlockR endBlock
  by_cases hh : rs.s.height < minHeightAutoWithdraw
  · simp only [if_pos hh]; exact good_same h _
  simp only [if_neg hh]
  obtain ⟨ls, hls, _⟩ := walk_total h.refs h.inv.nodup (qBefore (queueOf true) fTime 0 0 rs.s.now)
  have hls' : getLocksFromIterator rs.s.locks (maturedWalk rs.refs rs.s.now) = some ls := hls
  simp only [hls', maturedWalk_filter h]
  rcases withdrawAllR_ok B ((rs.s.locks.filter (matured rs.s.now)).map (·.id)) rs ⟨h.inv.nodup, h.refs⟩
      (fun _ _ l hl _ => h.owners l hl) with ⟨h1, h2⟩ | ⟨rs', h1, h2, w', hs⟩
  · simp only [h1, h2]; exact good_same h _
  · simp only [h1, h2]
    exact ⟨rfl, rfl, w'.refs, fun l hl => h.owners l (hs l hl)⟩

/-- the invariant without "no owner is blocked": what a hand-written genesis can violate -/
structure RInv0 (rs : RState) : Prop where
  inv : Inv rs.s
  sorted : IdSorted rs.s.locks
  refs : RefsOk rs.s.locks rs.refs

theorem RInv.toRInv0 {B : Actor → Bool} {rs : RState} (h : RInv B rs) : RInv0 rs := ⟨h.inv, h.sorted, h.refs⟩

/-- **the EndBlocker panics iff (from the auto-withdraw height on) a matured lock's owner is a
    blocked bank recipient**; otherwise it answers as M-Lockup's EndBlocker, which cannot fail -/
theorem endBlockR_panics_iff (B : Actor → Bool) {rs : RState} (h : RInv0 rs) :
    (endBlockR B rs).2 = .out .panic ↔
      minHeightAutoWithdraw ≤ rs.s.height ∧ ∃ l ∈ rs.s.locks, matured rs.s.now l = true ∧ B l.owner = true := by
  have hB0 : RInv (fun _ => false) rs := ⟨h.inv, h.sorted, h.refs, fun _ _ => rfl⟩
  unfold endBlockR
  by_cases hh : rs.s.height < minHeightAutoWithdraw
  · simp only [if_pos hh]
    constructor
    · intro e; cases e
    · intro ⟨h1, _⟩; omega
  simp only [if_neg hh]
  obtain ⟨ls, hls, _⟩ := walk_total h.refs h.inv.nodup (qBefore (queueOf true) fTime 0 0 rs.s.now)
  have hls' : getLocksFromIterator rs.s.locks (maturedWalk rs.refs rs.s.now) = some ls := hls
  simp only [hls', maturedWalk_filter hB0]
  have hnd : ((rs.s.locks.filter (matured rs.s.now)).map (·.id)).Nodup :=
    List.Nodup.sublist (List.Sublist.map _ List.filter_sublist) h.inv.nodup
  by_cases hex : ∃ l ∈ rs.s.locks, matured rs.s.now l = true ∧ B l.owner = true
  · obtain ⟨l, hl, hm, hb⟩ := hex
    have := withdrawAllR_blocked B _ rs ⟨h.inv.nodup, h.refs⟩ hnd
      ⟨l.id, List.mem_map.2 ⟨l, List.mem_filter.2 ⟨hl, hm⟩, rfl⟩, l, hl, rfl, hb⟩
    simp only [this]
    constructor
    · intro _; exact ⟨by omega, l, hl, hm, hb⟩
    · intro _; first | rfl | trivial
  · have hown : ∀ id ∈ (rs.s.locks.filter (matured rs.s.now)).map (·.id), ∀ l ∈ rs.s.locks, l.id = id →
        B l.owner = false := by
      intro id hid l hl hlid
      obtain ⟨l2, hl2, hid2⟩ := List.mem_map.1 hid
      obtain ⟨hl2a, hl2m⟩ := List.mem_filter.1 hl2
      have : l2 = l := eq_of_id_eq h.inv.nodup hl2a hl (by rw [hid2, hlid])
      subst this
      cases hb : B l2.owner with
      | false => rfl
      | true => exact absurd ⟨l2, hl, hl2m, hb⟩ hex
    -- M-Lockup's loop succeeds (endBlock_spec), so the reference-level loop does
    obtain ⟨s', he, _⟩ := endBlock_spec h.inv (by omega : minHeightAutoWithdraw ≤ rs.s.height)
    have hbase : withdrawAll ((rs.s.locks.filter (matured rs.s.now)).map (·.id)) rs.s ≠ none := by
      intro hc
      unfold endBlock at he
      simp only [if_neg hh, hc] at he
      cases he
    rcases withdrawAllR_ok B _ rs ⟨h.inv.nodup, h.refs⟩ hown with ⟨h1, _⟩ | ⟨rs', h1, _⟩
    · exact absurd h1 hbase
    · simp only [h1]
      constructor
      · intro e; cases e
      · intro ⟨_, hx⟩; exact absurd hx hex

/-! ### restart -/

theorem importRefs_spec : ∀ (ls : List Lock) (locks0 : List Lock) (refs0 : Refs), RefsOk locks0 refs0 →
    ((locks0 ++ ls).map (·.id)).Nodup →
    ∃ r', importRefs ls refs0 = some r' ∧ RefsOk (locks0 ++ ls) r'
  | [], locks0, refs0, h, _ => ⟨refs0, rfl, by simpa using h⟩
  | l :: ls, locks0, refs0, h, hnd => by
    have hnd' : (((locks0 ++ [l]) ++ ls).map (·.id)).Nodup := by simpa using hnd
    have hfresh : ∀ x ∈ locks0, x.id ≠ l.id := by
      intro x hx e
      rw [List.map_append, List.nodup_append] at hnd
      exact hnd.2.2 x.id (List.mem_map.2 ⟨x, hx, rfl⟩) l.id (by simp) e
    obtain ⟨r1, hr1, hok1⟩ := refsOk_create h hfresh
    obtain ⟨r', hr', hok'⟩ := importRefs_spec ls (locks0 ++ [l]) r1 hok1 hnd'
    exact ⟨r', by simp [importRefs, hr1, hr'], by simpa using hok'⟩

theorem refsOk_perm {l₁ l₂ : List Lock} {refs : Refs} (hp : l₁.Perm l₂) (h : RefsOk l₁ refs) : RefsOk l₂ refs := by
  refine ⟨h.sorted, fun e => ?_⟩
  rw [h.mem e, mem_refsOf, mem_refsOf]
  constructor
  · rintro ⟨l, hl, hr⟩; exact ⟨l, hp.mem_iff.1 hl, hr⟩
  · rintro ⟨l, hl, hr⟩; exact ⟨l, hp.mem_iff.2 hl, hr⟩

/-- the export walk (`GetPeriodLocks`) cannot panic, and yields every lock exactly once -/
theorem periodLocksR_total {rs : RState} (h : RefsOk rs.s.locks rs.refs)
    (hn : (rs.s.locks.map (·.id)).Nodup) : ∃ ls, periodLocksR rs = some ls := by
  unfold periodLocksR
  obtain ⟨us, hu, _⟩ := walk_total h hn (qAll (queueOf true) fDur 0 0)
  obtain ⟨ns, hns, _⟩ := walk_total h hn (qAll (queueOf false) fDur 0 0)
  exact ⟨ns ++ us, by simp only [hu, hns]⟩

/-! ### the chain's life -/

/-- the invariant of a reference-level chain -/
def RCInv (B : Actor → Bool) (rc : RChain) : Prop := RInv B ⟨rc.c.s, rc.refs⟩

theorem RCInv.cinv {B : Actor → Bool} {rc : RChain} (h : RCInv B rc) : CInv rc.c := ⟨h.inv, h.sorted⟩

theorem rcinit_rcinv (B : Actor → Bool) (p : Params) (bal : Actor → Denom → Nat) (now height : Nat) :
    RCInv B (rcinit p bal now height) :=
  ⟨init_inv bal now height, idSorted_nil, refsOk_nil, fun _ h => by cases h⟩

/-- the messages signed by blocked recipients (module accounts) do not exist -/
def SignerOk (B : Actor → Bool) : COp → Prop
  | .msg op => ∀ a, opSigner op = some a → B a = false
  | _ => True

theorem rstep_good {B : Actor → Bool} {rs : RState} (h : RInv B rs) (p : Params) (op : Op)
    (hs : ∀ a, opSigner op = some a → B a = false) : Good B (rstep B p rs op) (step p rs.s op) := by
  cases op with
  | lock a d amt dur => exact lockTokensR_good h p a d amt dur (hs a rfl)
  | unlock a id c => exact beginUnlockingR_good h a id c
  | extend a id dur => exact extendLockupR_good h a id dur
  | force a id c => exact forceUnlockR_good h p a id c
  | beginBlock dt => exact ⟨rfl, rfl, h.refs, h.owners⟩
  | endBlock => exact endBlockR_good h

/-- **a restart rebuilds the reference store exactly** (no clash, no dangling reference), and is
    M-Lockup's restart on everything else -/
theorem restartR_good {B : Actor → Bool} {rc : RChain} (h : RCInv B rc) :
    (restartR rc).1.c = restart rc.c ∧ (restartR rc).2 = .out (.ok 0) ∧ RCInv B (restartR rc).1 := by
  obtain ⟨pl, hpl⟩ := periodLocksR_total (rs := ⟨rc.c.s, rc.refs⟩) h.refs h.inv.nodup
  have hperm := periodLocks_perm rc.c.s.locks
  have hnd : ((([] : List Lock) ++ periodLocks rc.c.s.locks).map (·.id)).Nodup := by
    simp only [List.nil_append]
    exact (hperm.map (fun l : Lock => l.id)).nodup_iff.2 h.inv.nodup
  obtain ⟨r', hr', hok⟩ := importRefs_spec (periodLocks rc.c.s.locks) [] [] refsOk_nil hnd
  have hfr := restart_frame h.cinv
  have hci := restart_cinv h.cinv
  unfold restartR
  simp only [hpl, exportGenesis, hr']
  refine ⟨trivial, trivial, hci.inv, hci.sorted, ?_, ?_⟩
  · show RefsOk (restart rc.c).s.locks r'
    rw [hfr.1]
    exact refsOk_perm hperm (by simpa using hok)
  · show ∀ l ∈ (restart rc.c).s.locks, B l.owner = false
    rw [hfr.1]; exact h.owners

/-- **one step of the reference-level chain is one step of M-Lockup's chain**, and keeps the invariant -/
theorem rcstep_sim {B : Actor → Bool} {rc : RChain} (h : RCInv B rc) (op : COp) (hs : SignerOk B op) :
    (rcstep B rc op).1.c = (cstep rc.c op).1 ∧ (rcstep B rc op).2 = .out (cstep rc.c op).2 ∧
    RCInv B (rcstep B rc op).1 := by
  cases op with
  | msg op =>
    have g := rstep_good h rc.c.p op hs
    refine ⟨?_, g.out, ?_⟩
    · simp only [rcstep, cstep]; rw [g.state]
    · have hinv : Inv (rstep B rc.c.p ⟨rc.c.s, rc.refs⟩ op).1.s := by rw [g.state]; exact step_inv _ h.inv op
      have hsrt : IdSorted (rstep B rc.c.p ⟨rc.c.s, rc.refs⟩ op).1.s.locks := by
        rw [g.state]; exact step_idSorted _ h.inv h.sorted op
      exact ⟨hinv, hsrt, g.refs, g.owners⟩
  | restart => exact restartR_good h
  | setParams m f al => exact ⟨rfl, rfl, h⟩

theorem rcrun_sim {B : Actor → Bool} : ∀ (ops : List COp) {rc : RChain}, RCInv B rc → (∀ op ∈ ops, SignerOk B op) →
    (rcrun B rc ops).c = crun rc.c ops ∧ RCInv B (rcrun B rc ops)
  | [], _, h, _ => ⟨rfl, h⟩
  | op :: ops, rc, h, hs => by
    obtain ⟨h1, _, h3⟩ := rcstep_sim h op (hs op List.mem_cons_self)
    obtain ⟨h4, h5⟩ := rcrun_sim ops h3 (fun o ho => hs o (List.mem_cons_of_mem _ ho))
    exact ⟨by simp only [rcrun, crun]; rw [h4, h1], h5⟩

end DymVerif.Lockup
