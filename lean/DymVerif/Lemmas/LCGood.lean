/-
  Lemmas/LCGood — the bundled invariant of M-LC (designation maps, client well-formedness, agreement)
  and its preservation by every op that satisfies the two side conditions (`SafeOp`).
-/
import DymVerif.Lemmas.LCDesig
namespace DymVerif.LC
open DymVerif.Core (Addr NextP)

structure Good (s : St) : Prop where
  maps : MapsInv s
  clients : ClientsOk s
  agree : AgreeInv s
  chain : CoreChain s

/-- every descriptor M-LC holds for the rollapp lies inside one of the rollapp's state infos (the
    descriptor table is M-LC's copy of the descriptors stored in the state infos of M-Core) -/
def DescsCovered (s : St) (ra : Nat) : Prop :=
  ∀ h d, getDesc s ra h = some d → ∃ r st, Core.getRa s.core ra = some r ∧ st ∈ r.states ∧ st.start ≤ h ∧ h ≤ st.last

/-- the only side condition left: at a designation the descriptor table is covered by the state infos -/
def SafeOp (s : St) : Op → Prop
  | .setCanonical c => ∀ cl, getClient s c = some cl → DescsCovered s cl.chain
  | _ => True

theorem Good.of_eq {s s' : St} (h : Good s) (e1 : s'.clients = s.clients) (e2 : s'.descs = s.descs) (e3 : s'.r2c = s.r2c) (e4 : s'.c2r = s.c2r)
    (e5 : s'.core = s.core) : Good s' :=
  ⟨h.maps.of_eq e3 e4 e1, h.clients.of_eq e1, (h.agree.toEx _ |>.of_eq e1 e2 e3).toInv, by unfold CoreChain; rw [e5]; exact h.chain⟩

theorem good_coreOp {s : St} (h : Good s) (o : Core.Op) (ds : List (Nat × Option Nat)) :
    ClientsOk (coreOp s o ds).1 ∧ AgreeInv (coreOp s o ds).1 := by
  unfold coreOp
  cases hstep : Core.step s.core o with
  | mk core1 oe =>
    cases oe with
    | some e => exact ⟨h.clients, h.agree⟩
    | none =>
      simp only
      split
      · exact ⟨h.clients, h.agree⟩
      · cases hw : withDescs { s with core := core1 } o ds with
        | none => exact ⟨h.clients, h.agree⟩
        | some s2 =>
          simp only
          have g1 : MapsInv { s with core := core1 } ∧ ClientsOk { s with core := core1 } ∧ AgreeInv { s with core := core1 } :=
            ⟨h.maps.of_eq rfl rfl rfl, h.clients.of_eq rfl, (h.agree.toEx _ |>.of_eq rfl rfl rfl).toInv⟩
          cases o with
          | update m =>
            obtain ⟨a1, a2, a3, a4, a5, a6⟩ := withDescs_update hw g1.2.2
            have hc2 : ClientsOk s2 := g1.2.1.of_eq a3
            cases hf : applyForks s2 (newForks s.core core1) with
            | mk s3 oe =>
              cases oe with
              | some e => exact ⟨h.clients, h.agree⟩
              | none =>
                simp only
                obtain ⟨b1, b2, b3, b4⟩ := applyForks_props (E := IsNew m) (newForks s.core core1) s2 a1 hc2
                rw [hf] at b1 b2 b3 b4
                have hm3 : MapsInv s3 := by
                  have hs12 : Shape { s with core := core1 } s2 := shape_withDescs hw
                  have hs23 : Shape s2 s3 := by
                    have := shape_applyForks (newForks s.core core1) s2
                    rw [hf] at this; exact this
                  exact g1.1.of_shape (hs12.trans hs23)
                have hb3 : NewBound m ds.length s3 := fun d hd => a2 d (b3 d hd)
                unfold finishUpdate
                cases hr : Core.getRa s3.core m.ra with
                | none => exact ⟨h.clients, h.agree⟩
                | some r =>
                  simp only
                  cases hl : r.states.getLast? with
                  | none => exact ⟨h.clients, h.agree⟩
                  | some st =>
                    simp only
                    split
                    · exact ⟨h.clients, h.agree⟩
                    · rename_i hg
                      simp only [Bool.or_eq_true, bne_iff_ne, ne_eq, not_or, Decidable.not_not] at hg
                      cases ha : afterUpdate s3 m.ra m.rev st with
                      | mk s4 oe =>
                        cases oe with
                        | some e => exact ⟨h.clients, h.agree⟩
                        | none =>
                          simp only
                          obtain ⟨r1, r2⟩ := afterUpdate_agree hm3 b2 b1 hb3 hg.1 hg.2 ha
                          exact ⟨r2, r1⟩
          | _ =>
            have e2 : s2 = { s with core := core1 } := withDescs_other hw (by intro m; simp)
            subst e2
            cases hf : applyForks { s with core := core1 } (newForks s.core core1) with
            | mk s3 oe =>
              cases oe with
              | some e => exact ⟨h.clients, h.agree⟩
              | none =>
                simp only
                obtain ⟨b1, b2, _, _⟩ := applyForks_props (E := fun _ _ => False) (newForks s.core core1) _ (g1.2.2.toEx _) g1.2.1
                rw [hf] at b1 b2
                exact ⟨b2, b1.toInv⟩

theorem good_createClient {s : St} (h : Good s) (chain : Nat) (p : CParams) (ht : Nat) (cs : Cons) :
    ClientsOk (createClient s chain p ht cs).1 ∧ AgreeInv (createClient s chain p ht cs).1 := by
  refine ⟨?_, ?_⟩
  · intro x hx
    simp only [createClient, List.mem_append, List.mem_singleton] at hx
    rcases hx with hx | rfl
    · exact h.clients x hx
    · refine ⟨by simp [SortedCons], ?_⟩
      intro y hy
      simp only [List.mem_singleton] at hy
      subst hy; exact Nat.le_refl _
  · intro r c cl hh cs' d a b g f
    have a' : lookup s.r2c r = some c := a
    obtain ⟨cl0, g0, _⟩ := h.maps.canon_client c r (h.maps.r2c_c2r r c a')
    have : getClient (createClient s chain p ht cs).1 c = some cl0 := by
      rw [getClient_append s _ c _ rfl, g0]; rfl
    rw [this] at b
    simp only [Option.some.injEq] at b
    subst b
    exact h.agree r c cl0 hh cs' d a' g0 g f

theorem good_setCanonical {s : St} (h : Good s) (c : Nat) (hs : SafeOp s (.setCanonical c)) :
    ClientsOk (setCanonical s c).1 ∧ AgreeInv (setCanonical s c).1 := by
  refine ⟨?_, ?_⟩
  · rcases setCanonical_cases s c with ⟨e, _⟩ | ⟨_, _, _, _, _, _, _, _, e⟩
    · rw [e]; exact h.clients
    · rw [e]; exact h.clients.of_eq rfl
  · rcases setCanonical_cases s c with ⟨e, _⟩ | ⟨cl, r0, hcl, hr0, hnone, _, hv, hok, e⟩
    · rw [e]; exact h.agree
    · rw [e]
      intro r c0 cl0 hh cs d a b g f
      simp only at a
      have b' : getClient s c0 = some cl0 := b
      have f' : getDesc s r hh = some d := f
      cases ho : lookup s.r2c r with
      | some c1 =>
        rw [lookup_append_left ho] at a
        simp only [Option.some.injEq] at a; subst a
        exact h.agree r c1 cl0 hh cs d ho b' g f'
      | none =>
        rw [lookup_append_single ho] at a
        split at a
        · rename_i hr
          simp only [Option.some.injEq] at a
          subst a; subst hr
          rw [hcl] at b'; cases b'
          -- the loop of validClient has looked at every state info that contains a consensus state
          obtain ⟨r1, st, hr1, hst, h1, h2⟩ := hs cl hcl hh d f'
          rw [hr0] at hr1; cases hr1
          have hchain : Core.Chain r0.states := h.chain r0 (Core.getRa_mem hr0)
          obtain ⟨d', hd', hag⟩ := validLoop_all hchain hv st hst hh cs h1 h2 g
          rw [f'] at hd'; cases hd'
          exact hag
        · exact absurd a (by simp)

theorem good_updateClient {s : St} (h : Good s) (c : Nat) (w : Wrap) (hd : Hdr) (ibc : Bool) :
    ClientsOk (updateClient s c w hd ibc).1 ∧ AgreeInv (updateClient s c w hd ibc).1 := by
  unfold updateClient
  cases w with
  | nested => exact ⟨h.clients, h.agree⟩
  | storedProposal => exact ⟨h.clients, h.agree⟩
  | wrapped => exact ⟨h.clients, h.agree⟩
  | nestedWrapped => exact ⟨h.clients, h.agree⟩
  | top =>
    simp only
    cases hh : handleUpdate s c hd with
    | mk s1 oe =>
      cases oe with
      | some e => exact ⟨h.clients, h.agree⟩
      | none =>
        simp only
        obtain ⟨e1, e2, e3, e4, e5, hchk⟩ := handleUpdate_ok hh
        have g1 : Good s1 := h.of_eq e1 e2 e3 e4 e5
        cases hcl : getClient s c with
        | none => exact ⟨g1.clients, g1.agree⟩
        | some cl =>
          simp only
          split
          · have hcl1 : getClient s1 c = some cl := by rw [getClient_congr e1]; exact hcl
            have hid := getClient_id hcl
            have hidA : (ibcApply cl hd).id = c := by rw [ibcApply_id]; exact hid
            refine ⟨ClientsOk.setClient g1.clients (clientOk_ibcApply (h.clients cl (getClient_mem hcl)) hd), ?_⟩
            intro r c0 cl0 hh' cs d a b g f
            simp only [setClient_r2c] at a
            rw [getDesc_congr (setClient_descs _ _)] at f
            rw [e3] at a
            rw [getDesc_congr e2] at f
            by_cases hcc : c0 = c
            · subst hcc
              have : getClient (setClient s1 (ibcApply cl hd)) c0 = some (ibcApply cl hd) := by
                have := getClient_setClient_self (s := s1) (cl := ibcApply cl hd) (old := cl) (by rw [hidA]; exact hcl1)
                rw [hidA] at this; exact this
              rw [this] at b; cases b
              rcases getCons_ibcApply g with g' | ⟨eh, ec⟩
              · exact h.agree r c0 cl hh' cs d a hcl g' f
              · subst eh; subst ec
                have hcr := h.maps.r2c_c2r r c0 a
                obtain ⟨q, _, _, _, _, _, _, hag⟩ := hchk r hcr
                exact hag d f
            · have hne : c0 ≠ (ibcApply cl hd).id := by rw [hidA]; exact hcc
              rw [getClient_setClient_ne hne, getClient_congr e1] at b
              exact h.agree r c0 cl0 hh' cs d a b g f
          · exact ⟨g1.clients, g1.agree⟩

theorem good_misbehaviour {s : St} (h : Good s) (c : Nat) (k : MKind) (ibc : Bool) :
    ClientsOk (misbehaviour s c k ibc).1 ∧ AgreeInv (misbehaviour s c k ibc).1 := by
  unfold misbehaviour
  cases hcl : getClient s c with
  | none => exact ⟨h.clients, h.agree⟩
  | some cl =>
    have hid := getClient_id hcl
    have hfz : ClientsOk (setClient s { cl with frozen := true }) ∧ AgreeInv (setClient s { cl with frozen := true }) := by
      refine ⟨ClientsOk.setClient h.clients ⟨(h.clients cl (getClient_mem hcl)).sorted, (h.clients cl (getClient_mem hcl)).le⟩, ?_⟩
      intro r c0 cl0 hh cs d a b g f
      simp only [setClient_r2c] at a
      rw [getDesc_congr (setClient_descs _ _)] at f
      by_cases hcc : c0 = c
      · subst hcc
        have : getClient (setClient s { cl with frozen := true }) c0 = some { cl with frozen := true } := by
          have := getClient_setClient_self (s := s) (cl := { cl with frozen := true }) (old := cl) (by simpa [hid] using hcl)
          simpa [hid] using this
        rw [this] at b; cases b
        exact h.agree r c0 cl hh cs d a hcl g f
      · have hne : c0 ≠ ({ cl with frozen := true } : Client).id := by simpa [hid] using hcc
        rw [getClient_setClient_ne hne] at b
        exact h.agree r c0 cl0 hh cs d a b g f
    simp only
    cases k <;> simp only <;> repeat' split
    all_goals first
      | exact ⟨h.clients, h.agree⟩
      | exact hfz

theorem chanAck_descs (s : St) (ch : Nat) (w : ChanRoute) (ibc : Bool) : (chanAck s ch w ibc).1.descs = s.descs := by
  unfold chanAck
  repeat' split
  all_goals rfl

theorem chanInit_descs (s : St) (c : Nat) : (chanInit s c).1.descs = s.descs := by
  unfold chanInit
  repeat' split
  all_goals rfl

theorem step_good {s : St} (h : Good s) (op : Op) (hs : SafeOp s op) : Good (step s op).1 := by
  suffices key : ClientsOk (step s op).1 ∧ AgreeInv (step s op).1 from
    ⟨step_mapsInv h.maps op, key.1, key.2, step_coreChain h.chain op⟩
  cases op with
  | core o ds => exact good_coreOp h o ds
  | createClient chain p ht cs => exact good_createClient h chain p ht cs
  | setCanonical c =>
    have := good_setCanonical h c hs
    simp only [step]
    split
    · rename_i s1 he; rw [he] at this; exact this
    · exact ⟨h.clients, h.agree⟩
  | updateClient c w hd ibc => exact good_updateClient h c w hd ibc
  | misbehaviour c k ibc => exact good_misbehaviour h c k ibc
  | chanInit c =>
    obtain ⟨a, _, d⟩ := chanInit_maps s c
    exact ⟨h.clients.of_eq d, (h.agree.toEx _ |>.of_eq d (chanInit_descs s c) a).toInv⟩
  | chanAck ch w ibc =>
    obtain ⟨a, _, d⟩ := chanAck_maps s ch w ibc
    exact ⟨h.clients.of_eq d, (h.agree.toEx _ |>.of_eq d (chanAck_descs s ch w ibc) a).toInv⟩

theorem init_good (p : Core.Params) : Good (init p) :=
  ⟨init_mapsInv p, fun _ h => by simp [init] at h, fun _ _ _ _ _ _ a => by simp [init, lookup] at a, init_coreChain p⟩

/-- every op of the run satisfies its side condition in the state it is applied to -/
def SafeRun : St → List Op → Prop
  | _, [] => True
  | s, op :: ops => SafeOp s op ∧ SafeRun (step s op).1 ops

theorem run_good : ∀ (ops : List Op) (s : St), Good s → SafeRun s ops → Good (run s ops)
  | [], _, h, _ => h
  | op :: ops, s, h, hs => by
    simp only [run, List.foldl_cons]
    exact run_good ops _ (step_good h op hs.1) hs.2

end DymVerif.LC
