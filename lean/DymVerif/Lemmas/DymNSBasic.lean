/-
  Lemmas/DymNSBasic — association maps, reverse-lookup records and sums (helpers for Props/C17).
-/
import DymVerif.Model.DymNS
namespace DymVerif.DymNS

namespace AMap
variable {κ ν : Type} [DecidableEq κ]

@[simp] theorem get_nil (k : κ) : get ([] : AMap κ ν) k = none := rfl

theorem get_set (m : AMap κ ν) (k k' : κ) (v : ν) :
    get (set m k v) k' = if k' = k then some v else get m k' := by
  induction m with
  | nil => simp [set, get]
  | cons e m ih =>
    obtain ⟨k0, v0⟩ := e
    by_cases h : k = k0
    · subst h
      by_cases h' : k' = k <;> simp [set, get, h']
    · by_cases h' : k' = k0
      · subst h'
        have : ¬ k' = k := fun e => h e.symm
        simp [set, get, h, this]
      · simp [set, get, h, h', ih]

theorem get_del (m : AMap κ ν) (k k' : κ) :
    get (del m k) k' = if k' = k then none else get m k' := by
  induction m with
  | nil => simp [del, get]
  | cons e m ih =>
    obtain ⟨k0, v0⟩ := e
    by_cases h : k = k0
    · subst h
      by_cases h' : k' = k
      · subst h'; simp [del, ih]
      · simp [del, get, h', ih]
    · by_cases h' : k' = k0
      · subst h'
        have : ¬ k' = k := fun e => h e.symm
        simp [del, get, h, this]
      · simp [del, get, h, h', ih]

@[simp] theorem get_set_self (m : AMap κ ν) (k : κ) (v : ν) : get (set m k v) k = some v := by
  simp [get_set]

@[simp] theorem get_del_self (m : AMap κ ν) (k : κ) : get (del m k) k = none := by
  simp [get_del]

/-- keys are pairwise distinct -/
def NoDupKeys (m : AMap κ ν) : Prop := (m.map (·.1)).Nodup

theorem keys_del_subset (m : AMap κ ν) (k x : κ) (h : x ∈ (del m k).map (·.1)) : x ∈ m.map (·.1) ∧ x ≠ k := by
  induction m with
  | nil => simp [del] at h
  | cons e m ih =>
    obtain ⟨k0, v0⟩ := e
    by_cases hk : k = k0
    · subst hk
      simp only [del, if_true] at h
      have := ih h
      exact ⟨by simp [this.1], this.2⟩
    · simp only [del, hk, if_false, List.map_cons, List.mem_cons] at h
      rcases h with h | h
      · subst h
        exact ⟨by simp, fun e => hk e.symm⟩
      · have := ih h
        exact ⟨by simp [this.1], this.2⟩

theorem noDup_del (m : AMap κ ν) (k : κ) (h : NoDupKeys m) : NoDupKeys (del m k) := by
  induction m with
  | nil => simp [del, NoDupKeys]
  | cons e m ih =>
    obtain ⟨k0, v0⟩ := e
    simp only [NoDupKeys, List.map_cons, List.nodup_cons] at h
    by_cases hk : k = k0
    · subst hk
      simpa [del] using ih h.2
    · simp only [del, hk, if_false, NoDupKeys, List.map_cons, List.nodup_cons]
      refine ⟨fun hm => h.1 (keys_del_subset m k k0 hm).1, ih h.2⟩

theorem keys_set (m : AMap κ ν) (k x : κ) (v : ν) (h : x ∈ (set m k v).map (·.1)) : x ∈ m.map (·.1) ∨ x = k := by
  induction m with
  | nil => simp [set] at h; exact Or.inr h
  | cons e m ih =>
    obtain ⟨k0, v0⟩ := e
    by_cases hk : k = k0
    · subst hk
      simp only [set, if_true, List.map_cons, List.mem_cons] at h
      rcases h with h | h
      · exact Or.inr h
      · exact Or.inl (by simp [h])
    · simp only [set, hk, if_false, List.map_cons, List.mem_cons] at h
      rcases h with h | h
      · exact Or.inl (by simp [h])
      · rcases ih h with h | h
        · exact Or.inl (by simp [h])
        · exact Or.inr h

theorem noDup_set (m : AMap κ ν) (k : κ) (v : ν) (h : NoDupKeys m) : NoDupKeys (set m k v) := by
  induction m with
  | nil => simp [set, NoDupKeys]
  | cons e m ih =>
    obtain ⟨k0, v0⟩ := e
    simp only [NoDupKeys, List.map_cons, List.nodup_cons] at h
    by_cases hk : k = k0
    · subst hk
      simpa [set, NoDupKeys] using h
    · simp only [set, hk, if_false, NoDupKeys, List.map_cons, List.nodup_cons]
      refine ⟨fun hm => ?_, ih h.2⟩
      rcases keys_set m k k0 v hm with h' | h'
      · exact h.1 h'
      · exact hk h'.symm

/-- sum of a measure over the values -/
def vsum (f : ν → Nat) (m : AMap κ ν) : Nat := (m.map (fun e => f e.2)).sum

def fOpt (f : ν → Nat) : Option ν → Nat
  | some v => f v
  | none => 0

@[simp] theorem vsum_nil (f : ν → Nat) : vsum f ([] : AMap κ ν) = 0 := rfl

@[simp] theorem vsum_cons (f : ν → Nat) (e : κ × ν) (m : AMap κ ν) : vsum f (e :: m) = f e.2 + vsum f m := by
  simp [vsum]

theorem get_none_of_not_mem (m : AMap κ ν) (k : κ) (h : k ∉ m.map (·.1)) : get m k = none := by
  induction m with
  | nil => rfl
  | cons e m ih =>
    obtain ⟨k0, v0⟩ := e
    simp only [List.map_cons, List.mem_cons, not_or] at h
    simp [get, h.1, ih h.2]

theorem vsum_del_of_not_mem (f : ν → Nat) (m : AMap κ ν) (k : κ) (h : k ∉ m.map (·.1)) :
    vsum f (del m k) = vsum f m := by
  induction m with
  | nil => rfl
  | cons e m ih =>
    obtain ⟨k0, v0⟩ := e
    simp only [List.map_cons, List.mem_cons, not_or] at h
    simp [del, h.1, ih h.2]

/-- replacing the value of `k`: new total + old value = old total + new value (no hypothesis: `set`
    replaces exactly the occurrence `get` reads) -/
theorem vsum_set (f : ν → Nat) (m : AMap κ ν) (k : κ) (v : ν) :
    vsum f (set m k v) + fOpt f (get m k) = vsum f m + f v := by
  induction m with
  | nil => simp [set, get, fOpt]
  | cons e m ih =>
    obtain ⟨k0, v0⟩ := e
    by_cases hk : k = k0
    · subst hk
      simp [set, get, fOpt]; omega
    · simp only [set, hk, if_false, get, vsum_cons]
      omega

/-- deleting `k`: new total + old value = old total -/
theorem vsum_del (f : ν → Nat) (m : AMap κ ν) (k : κ) (h : NoDupKeys m) :
    vsum f (del m k) + fOpt f (get m k) = vsum f m := by
  induction m with
  | nil => simp [del, get, fOpt]
  | cons e m ih =>
    obtain ⟨k0, v0⟩ := e
    simp only [NoDupKeys, List.map_cons, List.nodup_cons] at h
    by_cases hk : k = k0
    · subst hk
      simp only [del, if_true, get, fOpt, vsum_cons]
      rw [vsum_del_of_not_mem f m k h.1]; omega
    · simp only [del, hk, if_false, get, vsum_cons]
      have := ih h.2
      omega

end AMap

namespace Idx
variable {κ : Type} [DecidableEq κ]

theorem lookup_set (i : Idx κ) (k k' : κ) (l : List Nat) :
    lookup (AMap.set i k l) k' = if k' = k then l else lookup i k' := by
  unfold lookup; rw [AMap.get_set]; split <;> rfl

theorem lookup_del (i : Idx κ) (k k' : κ) :
    lookup (AMap.del i k) k' = if k' = k then [] else lookup i k' := by
  unfold lookup; rw [AMap.get_del]; split <;> rfl

theorem mem_add (i : Idx κ) (k k' : κ) (n n' : Nat) :
    n' ∈ lookup (add i k n) k' ↔ n' ∈ lookup i k' ∨ (k' = k ∧ n' = n) := by
  unfold add
  cases hg : AMap.get i k with
  | none =>
    simp only [lookup_set]
    by_cases hk : k' = k
    · subst hk; simp [lookup, hg]
    · simp [hk]
  | some l =>
    by_cases hn : n ∈ l
    · simp only [hn, if_true]
      constructor
      · exact Or.inl
      · rintro (h | ⟨hk, hn'⟩)
        · exact h
        · subst hk; subst hn'; simp [lookup, hg, hn]
    · simp only [hn, if_false, lookup_set]
      by_cases hk : k' = k
      · subst hk; simp [lookup, hg]
      · simp [hk]

theorem mem_remove (i : Idx κ) (k k' : κ) (n n' : Nat) :
    n' ∈ lookup (remove i k n) k' ↔ n' ∈ lookup i k' ∧ ¬ (k' = k ∧ n' = n) := by
  unfold remove
  cases hg : AMap.get i k with
  | none =>
    constructor
    · intro h
      refine ⟨h, fun ⟨hk, _⟩ => ?_⟩
      subst hk; simp [lookup, hg] at h
    · exact fun h => h.1
  | some l =>
    simp only
    by_cases hlen : (l.filter (· ≠ n)).length = l.length
    · simp only [hlen, if_true]
      have hall : ∀ x ∈ l, x ≠ n := by
        intro x hx
        have := (List.length_filter_eq_length_iff (p := (· ≠ n)) (l := l)).mp hlen
        simpa using this x hx
      constructor
      · intro h
        refine ⟨h, fun ⟨hk, hn⟩ => ?_⟩
        subst hk; subst hn
        simp only [lookup, hg, Option.getD_some] at h
        exact hall _ h rfl
      · exact fun h => h.1
    · simp only [hlen, if_false]
      by_cases hnil : l.filter (· ≠ n) = []
      · simp only [hnil, if_true, lookup_del]
        by_cases hk : k' = k
        · subst hk
          simp only [if_true, List.not_mem_nil, false_iff]
          rintro ⟨hm, hne⟩
          simp only [lookup, hg, Option.getD_some] at hm
          have hnot : n' ∉ l.filter (· ≠ n) := by rw [hnil]; simp
          exact hnot (List.mem_filter.mpr ⟨hm, by simpa using fun e => hne ⟨trivial, e⟩⟩)
        · simp [hk]
      · simp only [hnil, if_false, lookup_set]
        by_cases hk : k' = k
        · subst hk
          simp [lookup, hg]
        · simp [hk]

theorem mem_foldl_add (l : List κ) (i : Idx κ) (k' : κ) (n n' : Nat) :
    n' ∈ lookup (l.foldl (fun i a => i.add a n) i) k' ↔ n' ∈ lookup i k' ∨ (k' ∈ l ∧ n' = n) := by
  induction l generalizing i with
  | nil => simp
  | cons a l ih =>
    simp only [List.foldl_cons, ih, mem_add, List.mem_cons]
    constructor
    · rintro ((h | ⟨h1, h2⟩) | ⟨h1, h2⟩)
      · exact Or.inl h
      · exact Or.inr ⟨Or.inl h1, h2⟩
      · exact Or.inr ⟨Or.inr h1, h2⟩
    · rintro (h | ⟨h1 | h1, h2⟩)
      · exact Or.inl (Or.inl h)
      · exact Or.inl (Or.inr ⟨h1, h2⟩)
      · exact Or.inr ⟨h1, h2⟩

theorem mem_foldl_remove (l : List κ) (i : Idx κ) (k' : κ) (n n' : Nat) :
    n' ∈ lookup (l.foldl (fun i a => i.remove a n) i) k' ↔ n' ∈ lookup i k' ∧ ¬ (k' ∈ l ∧ n' = n) := by
  induction l generalizing i with
  | nil => simp
  | cons a l ih =>
    simp only [List.foldl_cons, ih, mem_remove, List.mem_cons]
    constructor
    · rintro ⟨⟨h, h1⟩, h2⟩
      refine ⟨h, ?_⟩
      rintro ⟨h3 | h3, h4⟩
      · exact h1 ⟨h3, h4⟩
      · exact h2 ⟨h3, h4⟩
    · rintro ⟨h, h1⟩
      exact ⟨⟨h, fun ⟨h3, h4⟩ => h1 ⟨Or.inl h3, h4⟩⟩, fun ⟨h3, h4⟩ => h1 ⟨Or.inr h3, h4⟩⟩

end Idx

end DymVerif.DymNS
