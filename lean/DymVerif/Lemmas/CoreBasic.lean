/-
  Lemmas/CoreBasic — frame lemmas for M-Core: how the primitive state transformers act on the
  components of the state, and the generic "for all rollapps" invariant machinery.
-/
import DymVerif.Model.Core
namespace DymVerif.Core

-- ---------------------------------------------------------------- accessors

theorem getRa_mem {s : St} {id : Nat} {r : Rollapp} (h : getRa s id = some r) : r ∈ s.ras := by
  unfold getRa at h; exact List.mem_of_find?_eq_some h

theorem getRa_id {s : St} {id : Nat} {r : Rollapp} (h : getRa s id = some r) : r.id = id := by
  unfold getRa at h
  have := List.find?_some h
  simpa using this

theorem mem_setRa {s : St} {r0 r : Rollapp} (h : r ∈ (setRa s r0).ras) : r ∈ s.ras ∨ r = r0 := by
  unfold setRa at h
  simp only [List.mem_map] at h
  obtain ⟨x, hx, rfl⟩ := h
  by_cases hc : (x.id == r0.id) = true
  · simp [hc]
  · simp [hc, hx]

theorem getSeq_mem {s : St} {a : Addr} {q : Seq} (h : getSeq s a = some q) : q ∈ s.seqs := by
  unfold getSeq at h; exact List.mem_of_find?_eq_some h

theorem getSeq_addr {s : St} {a : Addr} {q : Seq} (h : getSeq s a = some q) : q.addr = a := by
  unfold getSeq at h
  have := List.find?_some h
  simpa using this

theorem mem_setSeq {s : St} {q0 q : Seq} (h : q ∈ (setSeq s q0).seqs) : q ∈ s.seqs ∨ q = q0 := by
  unfold setSeq at h
  simp only [List.mem_map] at h
  obtain ⟨x, hx, rfl⟩ := h
  by_cases hc : (x.addr == q0.addr) = true
  · simp [hc]
  · simp [hc, hx]

@[simp] theorem setRa_seqs (s : St) (r : Rollapp) : (setRa s r).seqs = s.seqs := rfl
@[simp] theorem setRa_queue (s : St) (r : Rollapp) : (setRa s r).queue = s.queue := rfl
@[simp] theorem setRa_seqH (s : St) (r : Rollapp) : (setRa s r).seqH = s.seqH := rfl
@[simp] theorem setRa_lev (s : St) (r : Rollapp) : (setRa s r).lev = s.lev := rfl
@[simp] theorem setRa_h (s : St) (r : Rollapp) : (setRa s r).h = s.h := rfl
@[simp] theorem setRa_t (s : St) (r : Rollapp) : (setRa s r).t = s.t := rfl
@[simp] theorem setRa_p (s : St) (r : Rollapp) : (setRa s r).p = s.p := rfl
@[simp] theorem setRa_sqp (s : St) (r : Rollapp) : (setRa s r).sqp = s.sqp := rfl
@[simp] theorem setRa_modBal (s : St) (r : Rollapp) : (setRa s r).modBal = s.modBal := rfl
@[simp] theorem setRa_bal (s : St) (r : Rollapp) : (setRa s r).bal = s.bal := rfl
@[simp] theorem setRa_nq (s : St) (r : Rollapp) : (setRa s r).nq = s.nq := rfl
@[simp] theorem setRa_burned (s : St) (r : Rollapp) : (setRa s r).burned = s.burned := rfl
@[simp] theorem setRa_obsolete (s : St) (r : Rollapp) : (setRa s r).obsolete = s.obsolete := rfl
@[simp] theorem setSeq_ras (s : St) (q : Seq) : (setSeq s q).ras = s.ras := rfl
@[simp] theorem setSeq_queue (s : St) (q : Seq) : (setSeq s q).queue = s.queue := rfl
@[simp] theorem setSeq_seqH (s : St) (q : Seq) : (setSeq s q).seqH = s.seqH := rfl
@[simp] theorem setSeq_lev (s : St) (q : Seq) : (setSeq s q).lev = s.lev := rfl
@[simp] theorem setSeq_h (s : St) (q : Seq) : (setSeq s q).h = s.h := rfl
@[simp] theorem setSeq_t (s : St) (q : Seq) : (setSeq s q).t = s.t := rfl
@[simp] theorem setSeq_p (s : St) (q : Seq) : (setSeq s q).p = s.p := rfl
@[simp] theorem setSeq_sqp (s : St) (q : Seq) : (setSeq s q).sqp = s.sqp := rfl
@[simp] theorem setSeq_modBal (s : St) (q : Seq) : (setSeq s q).modBal = s.modBal := rfl
@[simp] theorem setSeq_bal (s : St) (q : Seq) : (setSeq s q).bal = s.bal := rfl
@[simp] theorem setSeq_nq (s : St) (q : Seq) : (setSeq s q).nq = s.nq := rfl
@[simp] theorem setSeq_burned (s : St) (q : Seq) : (setSeq s q).burned = s.burned := rfl
@[simp] theorem setSeq_obsolete (s : St) (q : Seq) : (setSeq s q).obsolete = s.obsolete := rfl

theorem getBal_setBal (b : List (Addr × Nat)) (a : Addr) (v : Nat) : getBal (setBal b a v) a = v := by
  unfold getBal setBal
  by_cases h : b.any (·.1 == a) = true
  · rw [if_pos h]
    induction b with
    | nil => simp at h
    | cons x xs ih =>
      simp only [List.map_cons, List.find?_cons]
      by_cases hx : (x.1 == a) = true
      · simp [hx]
      · simp only [hx]
        simp only [Bool.false_eq_true, if_false]
        simp only [hx]
        have : xs.any (·.1 == a) = true := by simpa [hx] using h
        exact ih this
  · rw [if_neg h]
    have hn : b.find? (·.1 == a) = none := by
      apply List.find?_eq_none.2
      intro x hx hc
      exact h (List.any_eq_true.2 ⟨x, hx, hc⟩)
    rw [List.find?_append, hn]; simp

theorem insertSorted_mem' {α} (lt : α → α → Bool) (x : α) (l : List α) (y : α)
    (h : y ∈ insertSorted lt x l) : y = x ∨ y ∈ l := by
  induction l with
  | nil => simp [insertSorted] at h; exact Or.inl h
  | cons a as ih =>
    unfold insertSorted at h
    split at h
    · simp at h; rcases h with h | h | h
      · exact Or.inl h
      · exact Or.inr (by simp [h])
      · exact Or.inr (by simp [h])
    · split at h
      · simp at h; rcases h with h | h
        · exact Or.inr (by simp [h])
        · rcases ih h with h2 | h2
          · exact Or.inl h2
          · exact Or.inr (by simp [h2])
      · simp at h; rcases h with h | h
        · exact Or.inl h
        · exact Or.inr (by simp [h])

-- ---------------------------------------------------------------- "for all rollapps" invariants

/-- `RaAll Q s`: every rollapp record of the state satisfies `Q` -/
def RaAll (Q : Rollapp → Prop) (s : St) : Prop := ∀ r ∈ s.ras, Q r

theorem RaAll.setRa {Q : Rollapp → Prop} {s : St} {r : Rollapp} (h : RaAll Q s) (hr : Q r) :
    RaAll Q (setRa s r) := by
  intro x hx
  rcases mem_setRa hx with h1 | h1
  · exact h x h1
  · exact h1 ▸ hr

theorem RaAll.get {Q : Rollapp → Prop} {s : St} {id : Nat} {r : Rollapp} (h : RaAll Q s)
    (hg : getRa s id = some r) : Q r := h r (getRa_mem hg)

/-- a state whose rollapp list is the same satisfies the same rollapp invariant -/
theorem RaAll.of_ras_eq {Q : Rollapp → Prop} {s s' : St} (h : RaAll Q s) (e : s'.ras = s.ras) :
    RaAll Q s' := by
  intro r hr; rw [e] at hr; exact h r hr

-- ---------------------------------------------------------------- the standalone punish proposal

/-- an accepted `PunishSequencerProposal` came from the governance authority and is exactly
    `PunishSequencer` (no fork, no role change) -/
theorem punishProposal_ok {s s' : St} {au : Bool} {a : Addr} {rw : Option Addr}
    (e : punishProposal s au a rw = .ok s') : au = true ∧ punish s a rw = .ok s' := by
  unfold punishProposal at e
  cases au with
  | false => simp at e
  | true => exact ⟨rfl, by simpa using e⟩

-- ---------------------------------------------------------------- ownership transfer

/-- an accepted `MsgTransferOwnership`: signed by the current owner, to a different, non-blocked address;
    only the `owner` field of that one rollapp record changes -/
theorem transferOwner_ok {s s' : St} {sg : Addr} {ra : Nat} {no : Addr}
    (e : transferOwner s sg ra no = .ok s') :
    ∃ r, getRa s ra = some r ∧ r.owner = sg ∧ r.owner ≠ no ∧ blockedAddr no = false ∧
      s' = setRa s { r with owner := no } := by
  unfold transferOwner at e
  split at e
  · cases e
  · rename_i r hg
    split at e
    · cases e
    · rename_i h1
      split at e
      · cases e
      · rename_i h2
        split at e
        · cases e
        · rename_i h3
          injection e with e
          refine ⟨r, hg, by simpa using h1, by simpa using h2, by simpa using h3, e.symm⟩

-- ---------------------------------------------------------------- sequencer parameters

/-- both parameter sets of the state: the genesis set (whose x/rollapp part the handlers read) and the
    x/sequencer set in force.  The frame relations (`Roles.Frame`, `LevNs.SameL`, `LevNs.LFrame`) carry
    `pp s' = pp s`: every transition except `setSeqParams` keeps both. -/
def pp (s : St) : Params × SeqParams := (s.p, s.sqp)

theorem pp_p {s s' : St} (h : pp s' = pp s) : s'.p = s.p := congrArg Prod.fst h
theorem pp_sqp {s s' : St} (h : pp s' = pp s) : s'.sqp = s.sqp := congrArg Prod.snd h

/-- an accepted x/sequencer `MsgUpdateParams`: from the authority, with a positive notice period and a
    non-zero kick threshold; only the sequencer parameter set changes -/
theorem setSeqParams_ok {s s' : St} {au : Bool} {sp : SeqParams} (e : setSeqParams s au sp = .ok s') :
    au = true ∧ 0 < sp.noticePeriod ∧ 0 < sp.kickThr ∧ s' = { s with sqp := sp } := by
  unfold setSeqParams at e
  split at e
  · cases e
  · rename_i h1
    split at e
    · cases e
    · rename_i h2
      split at e
      · cases e
      · split at e
        · cases e
        · rename_i h4
          injection e with e
          exact ⟨by simpa using h1, Nat.pos_of_ne_zero h2, Nat.pos_of_ne_zero h4, e.symm⟩

/-- `Q` only looks at the `states` field -/
def StatesOnly (Q : Rollapp → Prop) : Prop := ∀ r r' : Rollapp, r'.states = r.states → Q r → Q r'

end DymVerif.Core
