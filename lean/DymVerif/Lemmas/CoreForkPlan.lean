/-
  Lemmas/CoreForkPlan — what `revertPlan` (RevertPendingStates + UpdateLastStateInfo) decides, under
  the chain invariant: which state is kept, how it is truncated, the new latest height
  h' = min (n - 1) (previous latest height) for a fork whose first removed height is n, and the
  complete list of refusals.
-/
import DymVerif.Lemmas.CoreFork
import DymVerif.Lemmas.CoreSearch
namespace DymVerif.Core.Fork

-- ---------------------------------------------------------------- chain facts

theorem _root_.DymVerif.Core.SInfo.WF.last_eq {st : SInfo} (hw : st.WF) : st.last = st.start + st.num - 1 := by
  unfold SInfo.last; rw [if_pos (by have := hw.num_pos; omega)]

theorem getElem?_lt {α : Type _} {l : List α} {i : Nat} {a : α} (h : l[i]? = some a) : i < l.length := by
  rcases Nat.lt_or_ge i l.length with h1 | h1
  · exact h1
  · rw [List.getElem?_eq_none h1] at h; cases h

theorem getLast?_getElem? {α : Type _} (l : List α) : l.getLast? = l[l.length - 1]? := List.getLast?_eq_getElem? ..

/-- every state ends at or before the end of the latest one -/
theorem _root_.DymVerif.Core.Chain.le_last {l : List SInfo} (hc : Chain l) {x : SInfo} (hl : l.getLast? = some x) :
    ∀ (i : Nat) (st : SInfo), l[i]? = some st → st.start + st.num ≤ x.start + x.num := by
  intro i st hst
  rw [getLast?_getElem?] at hl
  have hi := getElem?_lt hst
  rcases Nat.lt_or_ge i (l.length - 1) with h1 | h1
  · have := hc.mono' i (l.length - 1) st x h1 hst hl
    have := (hc.wf x (List.mem_of_getElem? hl)).num_pos
    omega
  · have : i = l.length - 1 := by omega
    rw [this, hl] at hst; injection hst with hst; subst hst; exact Nat.le_refl _

/-- every state starts at or after the first one -/
theorem _root_.DymVerif.Core.Chain.first_le {l : List SInfo} (hc : Chain l) {f : SInfo} (hf : l[0]? = some f) :
    ∀ (i : Nat) (st : SInfo), l[i]? = some st → f.start ≤ st.start := by
  intro i st hst
  rcases Nat.eq_zero_or_pos i with h0 | h0
  · subst h0; rw [hf] at hst; injection hst with hst; subst hst; exact Nat.le_refl _
  · have := hc.mono' 0 i f st h0 hf hst
    omega

theorem nonempty_first_last {α : Type _} {l : List α} {i : Nat} {a : α} (h : l[i]? = some a) :
    ∃ f x, l[0]? = some f ∧ l.getLast? = some x := by
  have hi := getElem?_lt h
  refine ⟨l[0], l[l.length - 1], by simp [show 0 < l.length by omega], ?_⟩
  rw [getLast?_getElem?]; simp [show l.length - 1 < l.length by omega]

-- ---------------------------------------------------------------- the search, complete under the chain invariant

theorem findByHeightAux_pos (l : List SInfo) (h : Nat) : ∀ fuel lo hi i, 1 ≤ lo →
    findByHeightAux l h fuel lo hi = some i → 1 ≤ i := by
  intro fuel
  induction fuel with
  | zero => intro lo hi i _ e; simp [findByHeightAux] at e
  | succ f ih =>
    intro lo hi i hlo e
    unfold findByHeightAux at e
    split at e
    · dsimp only at e
      split at e
      · cases e
      · split at e
        · injection e with e; omega
        · split at e
          · exact ih _ _ _ hlo e
          · exact ih _ _ _ (by omega) e
    · cases e

theorem findByHeight_pos {r : Rollapp} {h i : Nat} (e : findByHeight r h = some i) : 1 ≤ i := by
  unfold findByHeight at e
  split at e
  · cases e
  · split at e
    · cases e
    · split at e
      · cases e
      · exact findByHeightAux_pos _ _ _ _ _ _ (Nat.le_refl 1) e

/-- under the chain invariant the lookup finds the state with (0-based) position k that contains h -/
theorem findByHeight_complete {r : Rollapp} (hc : Chain r.states) (h k : Nat) (st : SInfo)
    (hk : r.states[k]? = some st) (h1 : st.start ≤ h) (h2 : h ≤ st.start + st.num - 1) :
    findByHeight r h = some (k + 1) := by
  have hwst := hc.wf st (List.mem_of_getElem? hk)
  have hklt := getElem?_lt hk
  unfold findByHeight
  rw [if_neg (by have := hwst.start_pos; omega)]
  cases hl : r.states.getLast? with
  | none =>
    have : r.states = [] := by simpa using hl
    rw [this] at hklt; simp at hklt
  | some l =>
    dsimp only
    have hwl := hc.wf l (List.mem_of_getLast? hl)
    have hle := hc.le_last hl k st hk
    rw [if_neg (by rw [hwl.last_eq]; have := hwst.num_pos; omega)]
    exact findByHeightAux_complete r.states hc h _ 1 r.states.length (k + 1) st (by simpa using hk)
      ((contains_iff st h hwst).2 ⟨h1, h2⟩) (Nat.le_refl _) (by omega) (by omega) (Nat.le_refl _) (by omega)

/-- a height nobody contains lies below the first recorded state or above the latest one -/
theorem findByHeight_none_cases {r : Rollapp} (hc : Chain r.states) {n : Nat} (hnone : findByHeight r n = none)
    {f l : SInfo} (hf : r.states[0]? = some f) (hl : r.states.getLast? = some l) : n < f.start ∨ l.last < n := by
  have hwl := hc.wf l (List.mem_of_getLast? hl)
  rcases Nat.lt_or_ge n f.start with h1 | h1
  · exact Or.inl h1
  · rcases Nat.lt_or_ge l.last n with h2 | h2
    · exact Or.inr h2
    · exfalso
      have hll : r.states[r.states.length - 1]? = some l := by rw [← getLast?_getElem?]; exact hl
      obtain ⟨k, st, _, hk, hs1, hs2⟩ := hc.container f hf n h1 (r.states.length - 1) l hll (by rw [← hwl.last_eq]; exact h2)
      rw [findByHeight_complete hc n k st hk hs1 hs2] at hnone
      cases hnone

/-- two states containing the same height are the same position -/
theorem _root_.DymVerif.Core.Chain.container_unique {l : List SInfo} (hc : Chain l) {i j n : Nat} {a b : SInfo}
    (ha : l[i]? = some a) (hb : l[j]? = some b) (ha1 : a.start ≤ n) (ha2 : n ≤ a.last)
    (hb1 : b.start ≤ n) (hb2 : n ≤ b.last) : i = j := by
  have hwa := hc.wf a (List.mem_of_getElem? ha)
  have hwb := hc.wf b (List.mem_of_getElem? hb)
  rw [hwa.last_eq] at ha2
  rw [hwb.last_eq] at hb2
  have := hwa.num_pos
  have := hwb.num_pos
  rcases Nat.lt_trichotomy i j with h | h | h
  · have := hc.mono' i j a b h ha hb; omega
  · exact h
  · have := hc.mono' j i b a h hb ha; omega

-- ---------------------------------------------------------------- revertPlan in two steps

/-- first step of `revertPlan`: the index of the state the fork height falls into (refused when that
    state is finalized), or the latest index when no state contains it -/
def planFound (r : Rollapp) (n : Nat) : M Nat :=
  match findByHeight r n with
  | some i =>
    match r.states[i - 1]? with
    | some st => if st.finalized then .error .finalizedHeight else .ok i
    | none => .error .internal
  | none => if r.states.isEmpty then .error .noState else .ok r.states.length

/-- second step: which state is kept and with what contents -/
def planOf (r : Rollapp) (n i : Nat) : M (Nat × SInfo) :=
  match r.states[i - 1]? with
  | none => .error .internal
  | some st =>
    if n < st.start then .error .internal else
    if st.start = n then
      match (if i ≤ 1 then none else r.states[i - 2]?) with
      | none => .error .noState
      | some prev => .ok (i - 1, { prev with next := NextP.empty })
    else if n ≤ st.last then
      .ok (i, { st with num := n - st.start, bds := st.bds.take (n - st.start), next := NextP.empty })
    else .ok (i, { st with next := NextP.empty })

theorem revertPlan_eq (r : Rollapp) (n : Nat) :
    revertPlan r n = (match planFound r n with | .error e => .error e | .ok i => planOf r n i) := rfl

/-- what the first step returns on success -/
theorem planFound_ok {r : Rollapp} {n i : Nat} (hc : Chain r.states) (e : planFound r n = .ok i) :
    ∃ st l f, r.states[i - 1]? = some st ∧ r.states.getLast? = some l ∧ r.states[0]? = some f ∧ 1 ≤ i ∧
      ((st.start ≤ n ∧ n ≤ st.last ∧ st.finalized = false) ∨ (i = r.states.length ∧ (l.last < n ∨ n < f.start))) := by
  unfold planFound at e
  split at e
  · rename_i j hj
    obtain ⟨st, hst, hcont⟩ := findByHeight_sound r n j hj
    rw [hst] at e
    dsimp only at e
    split at e
    · cases e
    · rename_i hfin
      injection e with e; subst e
      obtain ⟨f, l, hf, hl⟩ := nonempty_first_last hst
      have hcc : st.start ≤ n ∧ n ≤ st.last := by simpa [SInfo.contains] using hcont
      exact ⟨st, l, f, hst, hl, hf, findByHeight_pos hj, Or.inl ⟨hcc.1, hcc.2, by simpa using hfin⟩⟩
  · rename_i hnone
    split at e
    · cases e
    · rename_i hne
      injection e with e; subst e
      have hlen : 0 < r.states.length := by
        cases hs : r.states with
        | nil => simp [hs] at hne
        | cons a b => simp
      have h0 : r.states[r.states.length - 1]? = some r.states[r.states.length - 1] := by
        simp [show r.states.length - 1 < r.states.length by omega]
      obtain ⟨f, l, hf, hl⟩ := nonempty_first_last h0
      have hll : r.states[r.states.length - 1]? = some l := by rw [← getLast?_getElem?]; exact hl
      exact ⟨l, l, f, hll, hl, hf, hlen, Or.inr ⟨rfl, (findByHeight_none_cases hc hnone hf hl).symm⟩⟩

/-- everything a successful plan says, with `st` the state at the kept index before the fork and `l`
    the latest state before the fork -/
structure PlanSpec (r : Rollapp) (n keep : Nat) (kst st l : SInfo) : Prop where
  keep_pos : 1 ≤ keep
  hst : r.states[keep - 1]? = some st
  hl : r.states.getLast? = some l
  /-- the kept state is the old one cut down to the heights ≤ h' with `NextProposer` cleared -/
  kst_eq : kst = { st with num := kst.last + 1 - st.start, bds := st.bds.take (kst.last + 1 - st.start), next := NextP.empty }
  h_lo : st.start ≤ kst.last
  h_hi : kst.last ≤ st.last
  /-- the new latest height -/
  h_min : kst.last = min (n - 1) l.last
  /-- a state that loses heights was not finalized -/
  trunc_unfin : kst.last < st.last → st.finalized = false
  /-- the state containing the first removed height was not finalized -/
  hit_unfin : ∀ (j : Nat) (x : SInfo), r.states[j]? = some x → x.start ≤ n → n ≤ x.last → x.finalized = false

theorem take_num_bds {st : SInfo} (hw : st.WF) : st.bds.take st.num = st.bds := by
  rw [← hw.bds_len, List.take_length]

theorem revertPlan_spec {r : Rollapp} {n keep : Nat} {kst : SInfo} (hc : Chain r.states)
    (e : revertPlan r n = .ok (keep, kst)) : ∃ st l, PlanSpec r n keep kst st l := by
  rw [revertPlan_eq] at e
  cases hfound : planFound r n with
  | error e' => rw [hfound] at e; cases e
  | ok i =>
    rw [hfound] at e
    dsimp only at e
    obtain ⟨st, l, f, hst, hl, hf, hi, hcase⟩ := planFound_ok hc hfound
    have hwst := hc.wf st (List.mem_of_getElem? hst)
    have hwl := hc.wf l (List.mem_of_getLast? hl)
    have hstl := hc.le_last hl (i - 1) st hst
    have hstlast := hwst.last_eq
    have hllast := hwl.last_eq
    have hnp := hwst.num_pos
    have hlp := hwl.num_pos
    unfold planOf at e
    rw [hst] at e
    dsimp only at e
    rcases hcase with ⟨hc1, hc2, hc3⟩ | ⟨hilen, hc1⟩
    · -- the fork height lies inside the (unfinalized) state i
      have hhit : ∀ (j : Nat) (x : SInfo), r.states[j]? = some x → x.start ≤ n → n ≤ x.last → x.finalized = false := by
        intro j x hx hx1 hx2
        have := hc.container_unique hx hst hx1 hx2 hc1 hc2
        subst this
        rw [hst] at hx; injection hx with hx; subst hx; exact hc3
      rw [if_neg (by omega)] at e
      split at e
      · -- on its first height: keep the previous state as it is
        rename_i hs
        split at e
        · cases e
        · rename_i prev hprev
          injection e with e; injection e with e1 e2; subst e1; subst e2
          split at hprev
          · cases hprev
          · rename_i hi1
            have hwp := hc.wf prev (List.mem_of_getElem? hprev)
            have hlink := hc.link (i - 2) prev st hprev (by rw [show i - 2 + 1 = i - 1 by omega]; exact hst)
            have hpl := hwp.last_eq
            have hpp := hwp.num_pos
            have hkl : ({ prev with next := NextP.empty } : SInfo).last = prev.last := rfl
            refine ⟨prev, l, ⟨by omega, by rw [show i - 1 - 1 = i - 2 by omega]; exact hprev, hl, ?_, ?_, ?_, ?_, ?_, hhit⟩⟩
            · rw [hkl, hpl, show prev.start + prev.num - 1 + 1 - prev.start = prev.num by omega, take_num_bds hwp]
            · rw [hkl, hpl]; omega
            · rw [hkl]; exact Nat.le_refl _
            · rw [hkl, hpl]; omega
            · rw [hkl]; intro hx; omega
      · rename_i hs
        first | rw [if_pos hc2] at e | skip
        injection e with e; injection e with e1 e2; subst e1; subst e2
        have hkl : ({ st with num := n - st.start, bds := st.bds.take (n - st.start), next := NextP.empty } : SInfo).last = n - 1 := by
          unfold SInfo.last; dsimp only; rw [if_pos (by omega)]; omega
        refine ⟨st, l, ⟨hi, hst, hl, ?_, ?_, ?_, ?_, ?_, hhit⟩⟩
        · rw [hkl, show n - 1 + 1 - st.start = n - st.start by omega]
        · rw [hkl]; omega
        · rw [hkl]; omega
        · rw [hkl]; omega
        · intro _; exact hc3
    · -- no state contains the fork height: it is beyond the latest one (or the plan is refused)
      subst hilen
      have hll : r.states[r.states.length - 1]? = some l := by rw [← getLast?_getElem?]; exact hl
      have hsl : st = l := by rw [hll] at hst; injection hst with hst; exact hst.symm
      subst hsl
      have hfl := hc.first_le hf (r.states.length - 1) st hll
      split at e
      · cases e
      · rename_i hge
        have hgt : st.last < n := by
          rcases hc1 with h | h
          · exact h
          · omega
        rw [if_neg (by omega), if_neg (by omega)] at e
        injection e with e; injection e with e1 e2; subst e1; subst e2
        have hkl : ({ st with next := NextP.empty } : SInfo).last = st.last := rfl
        refine ⟨st, st, ⟨hi, hll, hl, ?_, ?_, ?_, ?_, ?_, ?_⟩⟩
        · rw [hkl, hstlast, show st.start + st.num - 1 + 1 - st.start = st.num by omega, take_num_bds hwst]
        · rw [hkl, hstlast]; omega
        · rw [hkl]; exact Nat.le_refl _
        · rw [hkl]; omega
        · rw [hkl]; intro hx; omega
        · intro j x hx _ hx2
          have := hc.le_last hl j x hx
          have hwx := hc.wf x (List.mem_of_getElem? hx)
          rw [hwx.last_eq] at hx2
          have := hwx.num_pos
          omega

namespace PlanSpec
variable {r : Rollapp} {n keep : Nat} {kst st l : SInfo}

theorem kst_creator (h : PlanSpec r n keep kst st l) : kst.creator = st.creator := by rw [h.kst_eq]
theorem kst_start (h : PlanSpec r n keep kst st l) : kst.start = st.start := by rw [h.kst_eq]
theorem kst_finalized (h : PlanSpec r n keep kst st l) : kst.finalized = st.finalized := by rw [h.kst_eq]
theorem kst_next (h : PlanSpec r n keep kst st l) : kst.next = NextP.empty := by rw [h.kst_eq]

/-- every removed state (index above `keep`) lies entirely above the new latest height -/
theorem above (h : PlanSpec r n keep kst st l) (hc : Chain r.states) :
    ∀ (j : Nat) (x : SInfo), keep ≤ j → r.states[j]? = some x → kst.last < x.start := by
  intro j x hj hx
  have hw := hc.wf st (List.mem_of_getElem? h.hst)
  have := hc.mono' (keep - 1) j st x (by have := h.keep_pos; omega) h.hst hx
  have := h.h_hi
  rw [hw.last_eq] at this
  have := hw.num_pos
  omega

/-- every state strictly below the kept index lies entirely below the kept state -/
theorem below (h : PlanSpec r n keep kst st l) (hc : Chain r.states) :
    ∀ (j : Nat) (x : SInfo), j + 1 < keep → r.states[j]? = some x → x.last < st.start := by
  intro j x hj hx
  have hw := hc.wf x (List.mem_of_getElem? hx)
  have := hc.mono' j (keep - 1) x st (by omega) hx h.hst
  rw [hw.last_eq]
  have := hw.num_pos
  omega

theorem kst_num (h : PlanSpec r n keep kst st l) : kst.num = kst.last + 1 - st.start := by
  have := h.kst_eq
  generalize kst.last + 1 - st.start = m at this
  rw [this]

theorem kst_num_le (h : PlanSpec r n keep kst st l) (hc : Chain r.states) : 1 ≤ kst.num ∧ kst.num ≤ st.num := by
  have hw := hc.wf st (List.mem_of_getElem? h.hst)
  have := h.kst_num
  have := h.h_lo
  have := h.h_hi
  rw [hw.last_eq] at this
  have := hw.num_pos
  omega

end PlanSpec

-- ---------------------------------------------------------------- refusals

/-- every way `revertPlan` can refuse, under the chain invariant -/
theorem revertPlan_refusals {r : Rollapp} {n : Nat} {e : Err} (hc : Chain r.states)
    (h : revertPlan r n = .error e) :
    (e = .noState ∧ r.states = []) ∨
    (e = .finalizedHeight ∧ ∃ (i : Nat) (st : SInfo), r.states[i]? = some st ∧ st.start ≤ n ∧ n ≤ st.last ∧ st.finalized = true) ∨
    (e = .noState ∧ ∃ f, r.states[0]? = some f ∧ f.start = n ∧ f.finalized = false) ∨
    (e = .internal ∧ ∃ f, r.states[0]? = some f ∧ n < f.start) := by
  rw [revertPlan_eq] at h
  cases hfound : planFound r n with
  | error e' =>
    rw [hfound] at h
    injection h with h; subst h
    unfold planFound at hfound
    split at hfound
    · rename_i j hj
      obtain ⟨st, hst, hcont⟩ := findByHeight_sound r n j hj
      rw [hst] at hfound
      dsimp only at hfound
      split at hfound
      · rename_i hfin
        injection hfound with hfound; subst hfound
        have hcc : st.start ≤ n ∧ n ≤ st.last := by simpa [SInfo.contains] using hcont
        exact Or.inr (Or.inl ⟨rfl, j - 1, st, hst, hcc.1, hcc.2, hfin⟩)
      · cases hfound
    · split at hfound
      · rename_i hemp
        injection hfound with hfound; subst hfound
        exact Or.inl ⟨rfl, by simpa using hemp⟩
      · cases hfound
  | ok i =>
    rw [hfound] at h
    dsimp only at h
    obtain ⟨st, l, f, hst, hl, hf, hi, hcase⟩ := planFound_ok hc hfound
    have hwst := hc.wf st (List.mem_of_getElem? hst)
    unfold planOf at h
    rw [hst] at h
    dsimp only at h
    split at h
    · rename_i hlt
      injection h with h; subst h
      rcases hcase with ⟨hc1, _, _⟩ | ⟨hilen, hc1⟩
      · omega
      · rcases hc1 with h1 | h1
        · have := hwst.last_eq; have := hwst.num_pos
          subst hilen
          have hll : r.states[r.states.length - 1]? = some l := by rw [← getLast?_getElem?]; exact hl
          have hsl : st = l := by rw [hll] at hst; injection hst with hst; exact hst.symm
          subst hsl
          omega
        · exact Or.inr (Or.inr (Or.inr ⟨rfl, f, hf, h1⟩))
    · split at h
      · rename_i hs
        split at h
        · rename_i hprev
          injection h with h; subst h
          rcases hcase with ⟨_, _, hc3⟩ | ⟨hilen, hc1⟩
          · -- the first height of the first state
            have hi1 : i = 1 := by
              split at hprev
              · omega
              · rename_i hgt
                have := getElem?_lt hst
                have : i - 2 < r.states.length := by omega
                rw [List.getElem?_eq_getElem this] at hprev; cases hprev
            subst hi1
            rw [hf] at hst; injection hst with hst; subst hst
            exact Or.inr (Or.inr (Or.inl ⟨rfl, f, hf, hs, hc3⟩))
          · exfalso
            subst hilen
            have hll : r.states[r.states.length - 1]? = some l := by rw [← getLast?_getElem?]; exact hl
            have hsl : st = l := by rw [hll] at hst; injection hst with hst; exact hst.symm
            subst hsl
            have hfl := hc.first_le hf (r.states.length - 1) st hll
            have := hwst.last_eq; have := hwst.num_pos
            omega
        · cases h
      · split at h <;> cases h

/-- a fork whose first removed height lies in a finalized state is refused -/
theorem revertPlan_finalized {r : Rollapp} {n i : Nat} {st : SInfo} (hc : Chain r.states)
    (hst : r.states[i]? = some st) (h1 : st.start ≤ n) (h2 : n ≤ st.last) (hfin : st.finalized = true) :
    revertPlan r n = .error .finalizedHeight := by
  have hw := hc.wf st (List.mem_of_getElem? hst)
  have hfind := findByHeight_complete hc n i st hst h1 (by rw [← hw.last_eq]; exact h2)
  rw [revertPlan_eq]
  unfold planFound
  rw [hfind]
  dsimp only
  rw [show i + 1 - 1 = i by omega, hst]
  dsimp only
  rw [if_pos hfin]

theorem revertPlan_noState {r : Rollapp} {n : Nat} (h : r.states = []) : revertPlan r n = .error .noState := by
  have : planFound r n = .error .noState := by
    unfold planFound findByHeight
    rw [h]
    by_cases hn : n = 0 <;> simp [hn]
  rw [revertPlan_eq, this]

end DymVerif.Core.Fork
