/-
  Lemmas/GenEqGenesis — tie 1 for the genesis models (C18): what translate/genesis.go regenerates
  from /repo's working tree on every check (`Gen/Genesis.lean`) equals what the models of
  `Model/Genesis.lean` were written against.
  * the computed pieces of InitGenesis — the x/iro id-counter loop, the pending-by-address switch of
    x/delayedack, the base64 encode / decode of the eibc tracking key, x/streamer's comparison
    function, the distribution recomputation of x/sponsorship — are translated statement by statement
    into Lean definitions that must EQUAL the model's (`…_eq`);
  * every InitGenesis / ExportGenesis of the property's anchor list, and the keeper helpers the models
    mirror directly, must have exactly the statement skeleton recorded here (`…_skeleton`): a changed
    guard, a dropped or reordered write, another getter in the exported GenesisState, a new loop — any
    edit breaks the corresponding lemma (the check then searches for a failing input; a behaviour
    preserving rewrite ends as `no-failing-input-found`).
-/
import DymVerif.Gen.Genesis
namespace DymVerif.GenEq.Genesis
open DymVerif DymVerif.Genesis

/-! ### computed pieces -/

/-- the id-counter loop of x/iro InitGenesis is the model's (and therefore computes the maximum:
    `iroInitLastPlanId_eq_maxId`) -/
theorem iroInitLastPlanId_eq : Gen.Genesis.iroInitLastPlanId = Genesis.iroInitLastPlanId := rfl

theorem daIndexAddr_eq : Gen.Genesis.daIndexAddr = Genesis.daIndexAddr := by
  funext t r s; cases t <;> rfl

theorem eibcEncodeKey_eq : Gen.Genesis.eibcEncodeKey = Genesis.eibcEncodeKey := rfl

theorem eibcDecodeKey_eq : Gen.Genesis.eibcDecodeKey = Genesis.eibcDecodeKey := by
  funext k
  unfold Gen.Genesis.eibcDecodeKey Genesis.eibcDecodeKey
  split
  · cases b64dec k <;> rfl
  · rfl

/-- `slices.SortFunc(streams, CmpStreams)` orders by the model's `ltStream` -/
theorem strCmp_eq (a b : Item) : decide (Gen.Genesis.strCmp a.id b.id < 0) = ltStream a b := by
  unfold Gen.Genesis.strCmp ltStream
  by_cases h : a.id < b.id
  · simp [h]
  · by_cases h2 : a.id > b.id <;> simp [h, h2]

theorem strCmp_zero_iff (a b : Nat) : Gen.Genesis.strCmp a b = 0 ↔ a = b := by
  unfold Gen.Genesis.strCmp
  by_cases h : a < b
  · simp [h]; omega
  · by_cases h2 : a > b
    · simp [h, h2]; omega
    · simp [h, h2]; omega

theorem sponsInitDist_eq : Gen.Genesis.sponsInitDist = Genesis.sponsInitDist := rfl

/-! ### statement skeletons -/

/-- `x/rollapp InitGenesis` as mirrored by the model -/
theorem rollappInitSkeleton_eq : Gen.Genesis.rollappInitSkeleton =
  ["range genState.RollappList as _, elem {",
   "call k.SetRollapp(ctx, elem)",
   "}",
   "range genState.StateInfoList as _, elem {",
   "call k.SetStateInfo(ctx, elem)",
   "}",
   "range genState.LatestStateInfoIndexList as _, elem {",
   "call k.SetLatestStateInfoIndex(ctx, elem)",
   "}",
   "range genState.LatestFinalizedStateIndexList as _, elem {",
   "call k.SetLatestFinalizedStateIndex(ctx, elem)",
   "}",
   "range genState.BlockHeightToFinalizationQueueList as _, elem {",
   "call k.MustSetFinalizationQueue(ctx, elem)",
   "}",
   "range genState.LivenessEvents as _, elem {",
   "call k.PutLivenessEvent(ctx, elem)",
   "}",
   "range genState.AppList as _, elem {",
   "call k.SetApp(ctx, elem)",
   "}",
   "range genState.RegisteredDenoms as _, elem {",
   "range elem.Denoms as _, denom {",
   "err := k.SetRegisteredDenom(ctx, elem.RollappId, denom)",
   "if err != nil {",
   "panic",
   "}",
   "}",
   "}",
   "range genState.SequencerHeightPairs as _, elem {",
   "err := k.SaveSequencerHeight(ctx, elem.Sequencer, elem.Height)",
   "if err != nil {",
   "panic",
   "}",
   "}",
   "range genState.ObsoleteDrsVersions as _, elem {",
   "err := k.SetObsoleteDRSVersion(ctx, elem)",
   "if err != nil {",
   "panic",
   "}",
   "}",
   "call k.SetParams(ctx, genState.Params)"] := rfl

/-- `x/rollapp ExportGenesis` as mirrored by the model -/
theorem rollappExportSkeleton_eq : Gen.Genesis.rollappExportSkeleton =
  ["genesis := types.DefaultGenesis()",
   "genesis.Params = k.GetParams(ctx)",
   "genesis.RollappList = k.GetAllRollapps(ctx)",
   "genesis.StateInfoList = k.GetAllStateInfo(ctx)",
   "genesis.LatestStateInfoIndexList = k.GetAllLatestStateInfoIndex(ctx)",
   "genesis.LatestFinalizedStateIndexList = k.GetAllLatestFinalizedStateIndex(ctx)",
   "finalizationQueue, err := k.GetEntireFinalizationQueue(ctx)",
   "if err != nil {",
   "panic",
   "}",
   "genesis.BlockHeightToFinalizationQueueList = finalizationQueue",
   "genesis.LivenessEvents = k.GetLivenessEvents(ctx, nil)",
   "apps := k.GetRollappApps(ctx, \"\")",
   "var appList []types.App",
   "range apps as _, app {",
   "appList = append(appList, *app)",
   "}",
   "genesis.AppList = appList",
   "var registeredRollappDenoms []types.RollappRegisteredDenoms",
   "range genesis.RollappList as _, rollapp {",
   "denoms, err := k.GetAllRegisteredDenoms(ctx, rollapp.RollappId)",
   "if err != nil {",
   "panic",
   "}",
   "registeredRollappDenoms = append(registeredRollappDenoms, types.RollappRegisteredDenoms{ RollappId: rollapp.RollappId, Denoms: denoms, })",
   "}",
   "genesis.RegisteredDenoms = registeredRollappDenoms",
   "genesis.SequencerHeightPairs, err = k.AllSequencerHeightPairs(ctx)",
   "if err != nil {",
   "panic",
   "}",
   "drsVersions, err := k.GetAllObsoleteDRSVersions(ctx)",
   "if err != nil {",
   "panic",
   "}",
   "genesis.ObsoleteDrsVersions = drsVersions",
   "return genesis"] := rfl

/-- `x/sequencer InitGenesis` as mirrored by the model -/
theorem sequencerInitSkeleton_eq : Gen.Genesis.sequencerInitSkeleton =
  ["call k.SetParams(ctx, genState.Params)",
   "range genState.SequencerList as _, elem {",
   "call k.SetSequencer(ctx, elem)",
   "err := k.SetSequencerByDymintAddr(ctx, elem.MustProposerAddr(), elem.Address)",
   "if err != nil {",
   "panic",
   "}",
   "}",
   "range genState.NoticeQueue as _, s {",
   "seq := k.GetSequencer(ctx, s)",
   "call k.AddToNoticeQueue(ctx, seq)",
   "}",
   "range genState.GenesisProposers as _, elem {",
   "call k.SetProposer(ctx, elem.RollappId, elem.Address)",
   "}",
   "range genState.GenesisSuccessors as _, elem {",
   "call k.SetSuccessor(ctx, elem.RollappId, elem.Address)",
   "}"] := rfl

/-- `x/sequencer ExportGenesis` as mirrored by the model -/
theorem sequencerExportSkeleton_eq : Gen.Genesis.sequencerExportSkeleton =
  ["genesis := types.GenesisState{}",
   "genesis.Params = k.GetParams(ctx)",
   "genesis.SequencerList = k.AllSequencers(ctx)",
   "proposers := k.AllProposers(ctx)",
   "range proposers as _, proposer {",
   "if proposer.Sentinel() {",
   "continue",
   "}",
   "genesis.GenesisProposers = append(genesis.GenesisProposers, types.GenesisProposer{ RollappId: proposer.RollappId, Address: proposer.Address, })",
   "}",
   "elems := k.AllSuccessors(ctx)",
   "range elems as _, elem {",
   "if elem.Sentinel() {",
   "continue",
   "}",
   "genesis.GenesisSuccessors = append(genesis.GenesisSuccessors, types.GenesisProposer{ RollappId: elem.RollappId, Address: elem.Address, })",
   "}",
   "notice, err := k.NoticeQueue(ctx, nil)",
   "if err != nil {",
   "panic",
   "}",
   "range notice as _, seq {",
   "genesis.NoticeQueue = append(genesis.NoticeQueue, seq.Address)",
   "}",
   "return &genesis"] := rfl

/-- `x/delayedack InitGenesis` as mirrored by the model -/
theorem delayedackInitSkeleton_eq : Gen.Genesis.delayedackInitSkeleton =
  ["call k.SetParams(ctx, genState.Params)",
   "range genState.RollappPackets as _, packet {",
   "transferPacketData := packet.MustGetTransferPacketData()",
   "if packet.Status == commontypes.Status_PENDING {",
   "switch packet.Type {",
   "case commontypes.RollappPacket_ON_RECV:",
   "call k.MustSetPendingPacketByAddress(ctx, transferPacketData.Receiver, packet.RollappPacketKey())",
   "case commontypes.RollappPacket_ON_ACK, commontypes.RollappPacket_ON_TIMEOUT:",
   "call k.MustSetPendingPacketByAddress(ctx, transferPacketData.Sender, packet.RollappPacketKey())",
   "case commontypes.RollappPacket_UNDEFINED:",
   "panic",
   "}",
   "}",
   "call k.SetRollappPacket(ctx, packet)",
   "}"] := rfl

/-- `x/delayedack ExportGenesis` as mirrored by the model -/
theorem delayedackExportSkeleton_eq : Gen.Genesis.delayedackExportSkeleton =
  ["return types.GenesisState {",
   "Params = k.GetParams(ctx)",
   "RollappPackets = k.GetAllRollappPackets(ctx)",
   "}"] := rfl

/-- `x/eibc InitGenesis` as mirrored by the model -/
theorem eibcInitSkeleton_eq : Gen.Genesis.eibcInitSkeleton =
  ["call k.SetParams(ctx, genState.Params)",
   "range genState.DemandOrders as _, demandOrder {",
   "demandOrderCopy := demandOrder",
   "if demandOrderCopy.TrackingPacketKey != \"\" {",
   "decodedKey, err := base64.StdEncoding.DecodeString(demandOrderCopy.TrackingPacketKey)",
   "if err != nil {",
   "panic",
   "}",
   "demandOrderCopy.TrackingPacketKey = string(decodedKey)",
   "}",
   "err := k.SetDemandOrder(ctx, &demandOrderCopy)",
   "if err != nil {",
   "panic",
   "}",
   "}"] := rfl

/-- `x/eibc ExportGenesis` as mirrored by the model -/
theorem eibcExportSkeleton_eq : Gen.Genesis.eibcExportSkeleton =
  ["genesis := types.DefaultGenesis()",
   "genesis.Params = k.GetParams(ctx)",
   "allDemandOrders, err := k.ListAllDemandOrders(ctx)",
   "if err != nil {",
   "panic",
   "}",
   "genesis.DemandOrders = make([]types.DemandOrder, len(allDemandOrders))",
   "range allDemandOrders as i, order {",
   "orderCopy := *order",
   "if orderCopy.TrackingPacketKey != \"\" {",
   "encodedKey := base64.StdEncoding.EncodeToString([]byte(orderCopy.TrackingPacketKey))",
   "orderCopy.TrackingPacketKey = encodedKey",
   "}",
   "genesis.DemandOrders[i] = orderCopy",
   "}",
   "return genesis"] := rfl

/-- `x/dymns InitGenesis` as mirrored by the model -/
theorem dymnsInitSkeleton_eq : Gen.Genesis.dymnsInitSkeleton =
  ["call mustNoError(k.SetParams(ctx, genState.Params))",
   "range genState.DymNames as _, dymName {",
   "call mustNoError(k.SetDymName(ctx, dymName))",
   "call mustNoError(k.AfterDymNameOwnerChanged(ctx, dymName.Name))",
   "call mustNoError(k.AfterDymNameConfigChanged(ctx, dymName.Name))",
   "}",
   "range genState.SellOrderBids as _, bid {",
   "call mustNoError(k.GenesisRefundBid(ctx, bid))",
   "}",
   "range genState.BuyOrders as _, offer {",
   "call mustNoError(k.GenesisRefundBuyOrder(ctx, offer))",
   "}",
   "range genState.AliasesOfRollapps as _, aliasesOfRollApp {",
   "range aliasesOfRollApp.Aliases as _, alias {",
   "call mustNoError(k.SetAliasForRollAppId(ctx, aliasesOfRollApp.ChainId, alias))",
   "}",
   "}"] := rfl

/-- `x/dymns ExportGenesis` as mirrored by the model -/
theorem dymnsExportSkeleton_eq : Gen.Genesis.dymnsExportSkeleton =
  ["if ctx.BlockTime().Unix() <= 0 {",
   "ctx = ctx.WithBlockTime(time.Now().UTC())",
   "}",
   "params := k.GetParams(ctx)",
   "collectExpiredDymNamesExpiredFromEpoch := ctx.BlockTime().Add(-1 * params.Misc.GracePeriodDuration).Unix()",
   "dymNames := k.GetAllDymNames(ctx)",
   "var nonExpiredDymNameAndWithinGracePeriod []dymnstypes.DymName",
   "range dymNames as _, dymName {",
   "if dymName.ExpireAt < collectExpiredDymNamesExpiredFromEpoch {",
   "continue",
   "}",
   "nonExpiredDymNameAndWithinGracePeriod = append(nonExpiredDymNameAndWithinGracePeriod, dymName)",
   "}",
   "var nonRefundedBids []dymnstypes.SellOrderBid",
   "range k.GetAllSellOrders(ctx) as _, bid {",
   "if bid.HighestBid == nil {",
   "continue",
   "}",
   "nonRefundedBids = append(nonRefundedBids, *bid.HighestBid)",
   "}",
   "var nonRefundedBuyOrders []dymnstypes.BuyOrder",
   "range k.GetAllBuyOrders(ctx) as _, offer {",
   "truncatedOffer := offer",
   "truncatedOffer.CounterpartyOfferPrice = nil",
   "nonRefundedBuyOrders = append(nonRefundedBuyOrders, truncatedOffer)",
   "}",
   "aliasesOfRollApps := k.GetAllRollAppsWithAliases(ctx)",
   "return dymnstypes.GenesisState {",
   "Params = params",
   "DymNames = nonExpiredDymNameAndWithinGracePeriod",
   "SellOrderBids = nonRefundedBids",
   "BuyOrders = nonRefundedBuyOrders",
   "AliasesOfRollapps = aliasesOfRollApps",
   "}"] := rfl

/-- `x/dymns Keeper.GenesisRefundBid` as mirrored by the model -/
theorem dymnsGenesisRefundBidSkeleton_eq : Gen.Genesis.dymnsGenesisRefundBidSkeleton =
  ["soBid.Params = nil",
   "return k.refundBid(ctx, soBid, dymnstypes.TypeName, true)"] := rfl

/-- `x/dymns Keeper.GenesisRefundBuyOrder` as mirrored by the model -/
theorem dymnsGenesisRefundBuyOrderSkeleton_eq : Gen.Genesis.dymnsGenesisRefundBuyOrderSkeleton =
  ["return k.refundBuyOrder(ctx, offer, true)"] := rfl

/-- `x/dymns Keeper.refundBid` as mirrored by the model -/
theorem dymnsRefundBidSkeleton_eq : Gen.Genesis.dymnsRefundBidSkeleton =
  ["err := soBid.Validate(assetType)",
   "if err != nil {",
   "return err",
   "}",
   "if genesis {",
   "err := k.bankKeeper.MintCoins(ctx, dymnstypes.ModuleName, sdk.Coins{soBid.Price})",
   "if err != nil {",
   "return err",
   "}",
   "}",
   "err := k.bankKeeper.SendCoinsFromModuleToAccount(ctx, dymnstypes.ModuleName, sdk.MustAccAddressFromBech32(soBid.Bidder), sdk.Coins{soBid.Price})",
   "if err != nil {",
   "return err",
   "}",
   "call ctx.EventManager().EmitEvent(sdk.NewEvent(dymnstypes.EventTypeSoRefundBid, sdk.NewAttribute(dymnstypes.AttributeKeySoRefundBidder, soBid.Bidder), sdk.NewAttribute(dymnstypes.AttributeKeySoRefundAmount, soBid.Price.String())))",
   "return nil"] := rfl

/-- `x/dymns Keeper.refundBuyOrder` as mirrored by the model -/
theorem dymnsRefundBuyOrderSkeleton_eq : Gen.Genesis.dymnsRefundBuyOrderSkeleton =
  ["err := offer.Validate()",
   "if err != nil {",
   "return err",
   "}",
   "if genesis {",
   "err := k.bankKeeper.MintCoins(ctx, dymnstypes.ModuleName, sdk.Coins{offer.OfferPrice})",
   "if err != nil {",
   "return err",
   "}",
   "}",
   "err := k.bankKeeper.SendCoinsFromModuleToAccount(ctx, dymnstypes.ModuleName, sdk.MustAccAddressFromBech32(offer.Buyer), sdk.Coins{offer.OfferPrice})",
   "if err != nil {",
   "return err",
   "}",
   "call ctx.EventManager().EmitEvent(sdk.NewEvent(dymnstypes.EventTypeBoRefundOffer, sdk.NewAttribute(dymnstypes.AttributeKeyBoRefundBuyer, offer.Buyer), sdk.NewAttribute(dymnstypes.AttributeKeyBoRefundAmount, offer.OfferPrice.String())))",
   "return nil"] := rfl

/-- `x/lightclient Keeper.InitGenesis` as mirrored by the model -/
theorem lightclientInitSkeleton_eq : Gen.Genesis.lightclientInitSkeleton =
  ["err := genesisState.Validate()",
   "if err != nil {",
   "panic",
   "}",
   "range genesisState.GetCanonicalClients() as _, client {",
   "call k.SetCanonicalClient(ctx, client.RollappId, client.IbcClientId)",
   "}",
   "range genesisState.HeaderSigners as _, signer {",
   "err := k.SaveSigner(ctx, signer.SequencerAddress, signer.ClientId, signer.Height)",
   "if err != nil {",
   "panic",
   "}",
   "}"] := rfl

/-- `x/lightclient Keeper.ExportGenesis` as mirrored by the model -/
theorem lightclientExportSkeleton_eq : Gen.Genesis.lightclientExportSkeleton =
  ["clients := k.GetAllCanonicalClients(ctx)",
   "ret := types.GenesisState{ CanonicalClients: clients, }",
   "err := k.headerSigners.Walk(ctx, nil, func)",
   "{",
   "ret.HeaderSigners = append(ret.HeaderSigners, types.HeaderSignerEntry{ SequencerAddress: key.K1(), ClientId: key.K2(), Height: key.K3(), })",
   "return false, nil",
   "}",
   "if err != nil {",
   "panic",
   "}",
   "return ret"] := rfl

/-- `x/lightclient Keeper.SetCanonicalClient` as mirrored by the model -/
theorem lightclientSetCanonicalClientSkeleton_eq : Gen.Genesis.lightclientSetCanonicalClientSkeleton =
  ["store := ctx.KVStore(k.storeKey)",
   "call store.Set(types.GetRollappClientKey(rollappId), []byte(clientID))",
   "call store.Set(types.CanonicalClientKey(clientID), []byte(rollappId))"] := rfl

/-- `x/lightclient Keeper.SaveSigner` as mirrored by the model -/
theorem lightclientSaveSignerSkeleton_eq : Gen.Genesis.lightclientSaveSignerSkeleton =
  ["return errors.Join(k.headerSigners.Set(ctx, collections.Join3(seqAddr, client, h)), k.clientHeightToSigner.Set(ctx, collections.Join(client, h), seqAddr))"] := rfl

/-- `x/lightclient GenesisState.Validate` as mirrored by the model -/
theorem lightclientValidateSkeleton_eq : Gen.Genesis.lightclientValidateSkeleton =
  ["range g.CanonicalClients as _, client {",
   "if client.RollappId == \"\" {",
   "return fmt.Errorf(…)",
   "}",
   "if client.IbcClientId == \"\" {",
   "return fmt.Errorf(…)",
   "}",
   "}",
   "return nil"] := rfl

/-- `x/iro InitGenesis` as mirrored by the model -/
theorem iroInitSkeleton_eq : Gen.Genesis.iroInitSkeleton =
  ["moduleAcc := k.AK.GetModuleAccount(ctx, types.ModuleName)",
   "if moduleAcc == nil {",
   "panic",
   "}",
   "call k.SetParams(ctx, genState.Params)",
   "lastPlanId := uint64(0)",
   "range genState.Plans as _, plan {",
   "call k.SetPlan(ctx, plan)",
   "if plan.Id > lastPlanId {",
   "lastPlanId = plan.Id",
   "}",
   "}",
   "call k.SetLastPlanId(ctx, lastPlanId)"] := rfl

/-- `x/iro ExportGenesis` as mirrored by the model -/
theorem iroExportSkeleton_eq : Gen.Genesis.iroExportSkeleton =
  ["genesis := types.GenesisState{}",
   "genesis.Params = k.GetParams(ctx)",
   "genesis.Plans = append(genesis.Plans, k.GetAllPlans(ctx, false))",
   "return &genesis"] := rfl

/-- `x/iro Keeper.SetPlan` as mirrored by the model -/
theorem iroSetPlanSkeleton_eq : Gen.Genesis.iroSetPlanSkeleton =
  ["store := ctx.KVStore(k.storeKey)",
   "b := k.cdc.MustMarshal(&plan)",
   "call store.Set(types.PlanKey(fmt.Sprintf(…)), b)",
   "planByRollappKey := types.PlansByRollappKey(plan.RollappId)",
   "call store.Set(planByRollappKey, []byte(fmt.Sprintf(…)))"] := rfl

/-- `x/iro Keeper.GetNextPlanIdAndIncrement` as mirrored by the model -/
theorem iroNextPlanIdSkeleton_eq : Gen.Genesis.iroNextPlanIdSkeleton =
  ["lastPlanId := k.GetLastPlanId(ctx)",
   "call k.SetLastPlanId(ctx, lastPlanId + 1)",
   "return lastPlanId + 1"] := rfl

/-- `x/lockup Keeper.InitGenesis` as mirrored by the model -/
theorem lockupInitSkeleton_eq : Gen.Genesis.lockupInitSkeleton =
  ["call k.SetParams(ctx, types.DefaultParams())",
   "call k.SetLastLockID(ctx, genState.LastLockId)",
   "err := k.InitializeAllLocks(ctx, genState.Locks)",
   "if err != nil {",
   "return",
   "}"] := rfl

/-- `x/lockup Keeper.ExportGenesis` as mirrored by the model -/
theorem lockupExportSkeleton_eq : Gen.Genesis.lockupExportSkeleton =
  ["locks, err := k.GetPeriodLocks(ctx)",
   "if err != nil {",
   "panic",
   "}",
   "return types.GenesisState {",
   "LastLockId = k.GetLastLockID(ctx)",
   "Locks = locks",
   "}"] := rfl

/-- `x/lockup Keeper.GetPeriodLocks` as mirrored by the model -/
theorem lockupGetPeriodLocksSkeleton_eq : Gen.Genesis.lockupGetPeriodLocksSkeleton =
  ["unlockings := k.getLocksFromIterator(ctx, k.LockIterator(ctx, true))",
   "notUnlockings := k.getLocksFromIterator(ctx, k.LockIterator(ctx, false))",
   "return combineLocks(notUnlockings, unlockings), nil"] := rfl

/-- `x/lockup combineLocks` as mirrored by the model -/
theorem lockupCombineLocksSkeleton_eq : Gen.Genesis.lockupCombineLocksSkeleton =
  ["return append(pl1, pl2)"] := rfl

/-- `x/incentives Keeper.InitGenesis` as mirrored by the model -/
theorem incentivesInitSkeleton_eq : Gen.Genesis.incentivesInitSkeleton =
  ["call k.SetParams(ctx, genState.Params)",
   "call k.SetLockableDurations(ctx, genState.LockableDurations)",
   "range genState.Gauges as _, gauge {",
   "gauge := gauge",
   "err := k.SetGaugeWithRefKey(ctx, &gauge)",
   "if err != nil {",
   "panic",
   "}",
   "}",
   "call k.SetLastGaugeID(ctx, genState.LastGaugeId)"] := rfl

/-- `x/incentives Keeper.ExportGenesis` as mirrored by the model -/
theorem incentivesExportSkeleton_eq : Gen.Genesis.incentivesExportSkeleton =
  ["return types.GenesisState {",
   "Params = k.GetParams(ctx)",
   "LockableDurations = k.GetLockableDurations(ctx)",
   "Gauges = k.GetNotFinishedGauges(ctx)",
   "LastGaugeId = k.GetLastGaugeID(ctx)",
   "}"] := rfl

/-- `x/incentives Keeper.SetGaugeWithRefKey` as mirrored by the model -/
theorem incentivesSetGaugeWithRefKeySkeleton_eq : Gen.Genesis.incentivesSetGaugeWithRefKeySkeleton =
  ["err := k.setGauge(ctx, gauge)",
   "if err != nil {",
   "return err",
   "}",
   "curTime := ctx.BlockTime()",
   "timeKey := getTimeKey(gauge.StartTime)",
   "activeOrUpcomingGauge := gauge.IsActiveGauge(curTime) || gauge.IsUpcomingGauge(curTime)",
   "if gauge.IsUpcomingGauge(curTime) {",
   "combinedKeys := combineKeys(types.KeyPrefixUpcomingGauges, timeKey)",
   "return k.CreateGaugeRefKeys(ctx, gauge, combinedKeys, activeOrUpcomingGauge)",
   "} else if gauge.IsActiveGauge(curTime) {",
   "combinedKeys := combineKeys(types.KeyPrefixActiveGauges, timeKey)",
   "return k.CreateGaugeRefKeys(ctx, gauge, combinedKeys, activeOrUpcomingGauge)",
   "} else {",
   "combinedKeys := combineKeys(types.KeyPrefixFinishedGauges, timeKey)",
   "return k.CreateGaugeRefKeys(ctx, gauge, combinedKeys, activeOrUpcomingGauge)",
   "}"] := rfl

/-- `x/incentives Keeper.GetNotFinishedGauges` as mirrored by the model -/
theorem incentivesNotFinishedSkeleton_eq : Gen.Genesis.incentivesNotFinishedSkeleton =
  ["return append(k.GetActiveGauges(ctx), k.GetUpcomingGauges(ctx))"] := rfl

/-- `x/incentives Gauge.IsUpcomingGauge` as mirrored by the model -/
theorem incentivesIsUpcomingSkeleton_eq : Gen.Genesis.incentivesIsUpcomingSkeleton =
  ["return curTime.Before(gauge.StartTime)"] := rfl

/-- `x/incentives Gauge.IsActiveGauge` as mirrored by the model -/
theorem incentivesIsActiveSkeleton_eq : Gen.Genesis.incentivesIsActiveSkeleton =
  ["if (curTime.After(gauge.StartTime) || curTime.Equal(gauge.StartTime)) && (gauge.IsPerpetual || gauge.FilledEpochs < gauge.NumEpochsPaidOver) {",
   "return true",
   "}",
   "return false"] := rfl

/-- `x/streamer Keeper.InitGenesis` as mirrored by the model -/
theorem streamerInitSkeleton_eq : Gen.Genesis.streamerInitSkeleton =
  ["recipientAcc := k.ak.GetModuleAccount(ctx, types.ModuleName)",
   "if recipientAcc == nil {",
   "panic",
   "}",
   "call k.SetParams(ctx, genState.Params)",
   "call slices.SortFunc(genState.Streams, CmpStreams)",
   "range genState.Streams as _, stream {",
   "err := k.SetStreamWithRefKey(ctx, &stream)",
   "if err != nil {",
   "panic",
   "}",
   "}",
   "call k.SetLastStreamID(ctx, genState.LastStreamId)",
   "range k.ek.AllEpochInfos(ctx) as _, epoch {",
   "err := k.SaveEpochPointer(ctx, types.NewEpochPointer(epoch.Identifier, epoch.Duration))",
   "if err != nil {",
   "panic",
   "}",
   "}",
   "range genState.EpochPointers as _, pointer {",
   "err := k.SaveEpochPointer(ctx, pointer)",
   "if err != nil {",
   "panic",
   "}",
   "}"] := rfl

/-- `x/streamer Keeper.ExportGenesis` as mirrored by the model -/
theorem streamerExportSkeleton_eq : Gen.Genesis.streamerExportSkeleton =
  ["pointers, err := k.GetAllEpochPointers(ctx)",
   "if err != nil {",
   "panic",
   "}",
   "return types.GenesisState {",
   "Params = k.GetParams(ctx)",
   "Streams = k.GetNotFinishedStreams(ctx)",
   "LastStreamId = k.GetLastStreamID(ctx)",
   "EpochPointers = pointers",
   "}"] := rfl

/-- `x/streamer Keeper.SetStreamWithRefKey` as mirrored by the model -/
theorem streamerSetStreamWithRefKeySkeleton_eq : Gen.Genesis.streamerSetStreamWithRefKeySkeleton =
  ["err := k.SetStream(ctx, stream)",
   "if err != nil {",
   "return err",
   "}",
   "curTime := ctx.BlockTime()",
   "timeKey := getTimeKey(stream.StartTime)",
   "if stream.IsUpcomingStream(curTime) {",
   "combinedKeys := combineKeys(types.KeyPrefixUpcomingStreams, timeKey)",
   "return k.CreateStreamRefKeys(ctx, stream, combinedKeys)",
   "} else if stream.IsActiveStream(curTime) {",
   "combinedKeys := combineKeys(types.KeyPrefixActiveStreams, timeKey)",
   "return k.CreateStreamRefKeys(ctx, stream, combinedKeys)",
   "} else {",
   "combinedKeys := combineKeys(types.KeyPrefixFinishedStreams, timeKey)",
   "return k.CreateStreamRefKeys(ctx, stream, combinedKeys)",
   "}"] := rfl

/-- `x/streamer Keeper.GetNotFinishedStreams` as mirrored by the model -/
theorem streamerNotFinishedSkeleton_eq : Gen.Genesis.streamerNotFinishedSkeleton =
  ["return append(k.GetActiveStreams(ctx), k.GetUpcomingStreams(ctx))"] := rfl

/-- `x/streamer Stream.IsUpcomingStream` as mirrored by the model -/
theorem streamerIsUpcomingSkeleton_eq : Gen.Genesis.streamerIsUpcomingSkeleton =
  ["return curTime.Before(stream.StartTime)"] := rfl

/-- `x/streamer Stream.IsActiveStream` as mirrored by the model -/
theorem streamerIsActiveSkeleton_eq : Gen.Genesis.streamerIsActiveSkeleton =
  ["if (curTime.After(stream.StartTime) || curTime.Equal(stream.StartTime)) && (stream.FilledEpochs < stream.NumEpochsPaidOver) {",
   "return true",
   "}",
   "return false"] := rfl

/-- `x/streamer NewEpochPointer` as mirrored by the model -/
theorem streamerNewEpochPointerSkeleton_eq : Gen.Genesis.streamerNewEpochPointerSkeleton =
  ["return EpochPointer {",
   "StreamId = MinStreamID",
   "GaugeId = MinGaugeID",
   "EpochIdentifier = epochIdentifier",
   "EpochDuration = epochDuration",
   "}"] := rfl

/-- `x/sponsorship Keeper.ImportGenesis` as mirrored by the model -/
theorem sponsorshipInitSkeleton_eq : Gen.Genesis.sponsorshipInitSkeleton =
  ["err := k.SetParams(ctx, genState.Params)",
   "if err != nil {",
   "return fmt.Errorf(…)",
   "}",
   "distr := types.NewDistribution()",
   "range genState.VoterInfos as _, i {",
   "voterAddr, errX := sdk.AccAddressFromBech32(i.Voter)",
   "if errX != nil {",
   "return fmt.Errorf(…)",
   "}",
   "range i.Validators as _, v {",
   "valAddr, err := sdk.ValAddressFromBech32(v.Validator)",
   "if err != nil {",
   "return fmt.Errorf(…)",
   "}",
   "err = k.SaveDelegatorValidatorPower(ctx, voterAddr, valAddr, v.Power)",
   "if err != nil {",
   "return fmt.Errorf(…)",
   "}",
   "}",
   "err := k.SaveVote(ctx, voterAddr, i.Vote)",
   "if err != nil {",
   "return fmt.Errorf(…)",
   "}",
   "distr = distr.Merge(i.Vote.ToDistribution())",
   "}",
   "err = k.SaveDistribution(ctx, distr)",
   "if err != nil {",
   "return fmt.Errorf(…)",
   "}",
   "return nil"] := rfl

/-- `x/sponsorship Keeper.ExportGenesis` as mirrored by the model -/
theorem sponsorshipExportSkeleton_eq : Gen.Genesis.sponsorshipExportSkeleton =
  ["var infos []types.VoterInfo",
   "const Break = true",
   "const Continue = false",
   "err := k.IterateVotes(ctx, func)",
   "{",
   "var vals []types.ValidatorVotingPower",
   "err := k.IterateDelegatorValidatorPower(ctx, voterAddr, func)",
   "{",
   "vals = append(vals, types.ValidatorVotingPower{ Validator: valAddr.String(), Power: power, })",
   "return Continue, nil",
   "}",
   "if err != nil {",
   "return Break, err",
   "}",
   "infos = append(infos, types.VoterInfo{ Voter: voterAddr.String(), Vote: vote, Validators: vals, })",
   "return Continue, nil",
   "}",
   "if err != nil {",
   "return types.GenesisState{}, fmt.Errorf(…)",
   "}",
   "params, err := k.GetParams(ctx)",
   "if err != nil {",
   "return types.GenesisState{}, fmt.Errorf(…)",
   "}",
   "return types.GenesisState {",
   "Params = params",
   "VoterInfos = infos",
   "}, nil"] := rfl

/-- `x/app App.ExportAppStateAndValidators` as mirrored by the model -/
theorem appExportSkeleton_eq : Gen.Genesis.appExportSkeleton =
  ["ctx := app.NewContextLegacy(true, cmtproto.Header{Height: app.LastBlockHeight()})",
   "height := app.LastBlockHeight() + 1",
   "if forZeroHeight {",
   "height = 0",
   "call app.prepForZeroHeightGenesis(ctx, jailAllowedAddrs)",
   "}",
   "genState, err := app.mm.ExportGenesisForModules(ctx, app.appCodec, modulesToExport)",
   "if err != nil {",
   "return servertypes.ExportedApp{}, err",
   "}",
   "appState, err := json.MarshalIndent(genState, \"\", \" \")",
   "if err != nil {",
   "return servertypes.ExportedApp{}, err",
   "}",
   "validators, err := staking.WriteValidators(ctx, app.StakingKeeper)",
   "if err != nil {",
   "return servertypes.ExportedApp{}, err",
   "}",
   "return servertypes.ExportedApp {",
   "AppState = appState",
   "Validators = validators",
   "Height = height",
   "ConsensusParams = app.BaseApp.GetConsensusParams(ctx)",
   "}, nil"] := rfl

end DymVerif.GenEq.Genesis
