/-
  Lemmas/GenEqIncent — tie between the regenerated facts (Gen/Incent.lean, re-extracted from the Go
  sources on every run) and the hand-written model M-Incent.  A change of the share formulas, of the
  iteration constants or of the hook / EndBlocker order breaks one of these lemmas.
-/
import DymVerif.Model.Incent
import DymVerif.Gen.Incent
namespace DymVerif.GenEq
open DymVerif

/-- `CalculateGaugeRewards`: the model's stream share is the expression the source currently has -/
theorem streamShare_eq (a w W : Nat) : Gen.Incent.streamShare a w W = Incent.streamShare a w W := rfl

/-- `calculateAssetGaugeRewards`: the per-lock share -/
theorem lockShare_eq (r l L e : Nat) : Gen.Incent.lockShare r l L e = Incent.lockShare r l L e := rfl

/-- the default per-block limit of the model's initial state, the epoch-end budget and the pointer sentinels -/
theorem defaultMaxIter_eq : Gen.Incent.defaultMaxIterationsPerBlock = ({} : Incent.State).maxIter := rfl
theorem noLimit_eq : Gen.Incent.iterationsNoLimit = Incent.maxU64 := rfl
theorem pointer_last_eq : (⟨Gen.Incent.maxStreamID, Gen.Incent.maxGaugeID⟩ : Incent.Pointer) = Incent.Pointer.last := rfl
theorem pointer_first_eq : (⟨Gen.Incent.minStreamID, Gen.Incent.minGaugeID⟩ : Incent.Pointer) = Incent.Pointer.first := rfl

/-- x/incentives distributes on the `week` epoch (epoch id 2 of the model) -/
theorem distrEpoch_eq : Gen.Incent.distrEpochIdentifier = [119, 101, 101, 107] := rfl

/-- epoch hooks: x/streamer runs before x/incentives (the order `epochTick` applies them in) -/
theorem streamer_hook_before_incentives : Gen.Incent.epochHookStreamer < Gen.Incent.epochHookIncentives := by decide

/-- EndBlockers: x/streamer runs before x/lockup (matured locks still count in the block they mature) -/
theorem streamer_endblock_before_lockup : Gen.Incent.endBlockStreamer < Gen.Incent.endBlockLockup := by decide

end DymVerif.GenEq
