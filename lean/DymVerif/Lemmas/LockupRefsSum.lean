import DymVerif.Lemmas.LockupRefsEnd
/-
  Lemmas/LockupRefsSum — the index-driven queries of Model/LockupRefs at the LIST / SUM level: a walk
  inside one (queue, family, account, denom) of a consistent reference store yields, in the store's
  own (key, lock id) order, exactly the locks of the lock table that have a reference in its range
  (`walk_eq_sorted`); hence `GetPeriodLocks` by the reference walk is the list `periodLocks`, the
  account / denom id-list queries are the sorted filters, and the coin queries are sums over the lock
  table.
-/
namespace DymVerif.Lockup
open DymVerif.Genesis

/-- the order of a walk inside one (queue, family, account, denom): (key, lock id) -/
def keyLt (key : Lock → Nat) (a b : Lock) : Bool :=
  decide (key a < key b) || (decide (key a = key b) && decide (a.id < b.id))

theorem refLt_eq_keyLt : refLt = keyLt (·.duration) := rfl

theorem keyLt_total {key : Lock → Nat} {a b : Lock} (h : keyLt key a b = false) (hid : a.id ≠ b.id) :
    keyLt key b a = true := by
  simp only [keyLt, Bool.or_eq_false_iff, Bool.and_eq_false_iff, decide_eq_false_iff_not, Bool.or_eq_true,
    Bool.and_eq_true, decide_eq_true_eq] at *
  omega

theorem keyLt_trans {key : Lock → Nat} {a b c : Lock} (h1 : keyLt key a b = true) (h2 : keyLt key b c = true) :
    keyLt key a c = true := by
  simp only [keyLt, Bool.or_eq_true, Bool.and_eq_true, decide_eq_true_eq] at *
  omega

theorem mem_insertBy' {β : Type} (lt : β → β → Bool) (x y : β) (l : List β) : y ∈ insertBy lt x l ↔ y = x ∨ y ∈ l :=
  (insertBy_perm lt x l).mem_iff.trans List.mem_cons

theorem insertBy_keyLt (key : Lock → Nat) (x : Lock) : ∀ (l : List Lock),
    l.Pairwise (fun a b => keyLt key a b = true) → (∀ y ∈ l, y.id ≠ x.id) →
    (insertBy (keyLt key) x l).Pairwise (fun a b => keyLt key a b = true)
  | [], _, _ => by simp [insertBy]
  | y :: ys, hl, hne => by
    rw [List.pairwise_cons] at hl
    unfold insertBy
    split
    · rename_i hyx
      rw [List.pairwise_cons]
      refine ⟨fun z hz => ?_, insertBy_keyLt key x ys hl.2 (fun z hz => hne z (List.mem_cons_of_mem _ hz))⟩
      rcases (mem_insertBy' _ _ _ _).1 hz with rfl | hz
      · exact hyx
      · exact hl.1 z hz
    · rename_i hyx
      have hxy : keyLt key x y = true :=
        keyLt_total (by simpa using hyx) (hne y List.mem_cons_self)
      rw [List.pairwise_cons]
      refine ⟨fun z hz => ?_, List.pairwise_cons.2 hl⟩
      rcases List.mem_cons.1 hz with rfl | hz
      · exact hxy
      · exact keyLt_trans hxy (hl.1 z hz)

theorem sortBy_keyLt (key : Lock → Nat) : ∀ (l : List Lock), (l.map (·.id)).Nodup →
    (sortBy (keyLt key) l).Pairwise (fun a b => keyLt key a b = true)
  | [], _ => List.Pairwise.nil
  | x :: xs, h => by
    rw [List.map_cons, List.nodup_cons] at h
    refine insertBy_keyLt key x _ (sortBy_keyLt key xs h.2) (fun y hy hid => h.1 ?_)
    rw [← hid]
    exact List.mem_map_of_mem ((sortBy_perm _ _).mem_iff.1 hy)

/-- the (key, id) pairs of a walk, as a store section -/
def walkKV (refs : Refs) (q : RefK → Bool) : KV (Nat × Nat) Unit :=
  (refs.filter (fun e => q e.1)).map (fun e => ((e.1.2.2.2.2.1, e.1.2.2.2.2.2), ()))

theorem walkKV_ids (refs : Refs) (q : RefK → Bool) : (walkKV refs q).map (·.1.2) = walk refs q := by
  simp [walkKV, walk, List.map_map, Function.comp_def]

/-- a walk that stays inside one (queue, family, account, denom) is in (key, id) order -/
theorem walkKV_sorted {refs : Refs} (hs : Sorted ltRef refs) (Q F a d : Nat) {q : RefK → Bool}
    (hq : ∀ r, q r = true → qAll Q F a d r = true) : Sorted (ltPair ltNat ltNat) (walkKV refs q) := by
  unfold walkKV Sorted
  rw [List.pairwise_map]
  have hf : (refs.filter (fun e => q e.1)).Pairwise (fun x y => ltRef x.1 y.1 = true) :=
    List.Pairwise.filter _ hs
  refine List.Pairwise.imp_of_mem ?_ hf
  intro x y hx hy hlt
  have qx := hq _ (List.mem_filter.1 hx).2
  have qy := hq _ (List.mem_filter.1 hy).2
  obtain ⟨⟨x1, x2, x3, x4, x5, x6⟩, _⟩ := x
  obtain ⟨⟨y1, y2, y3, y4, y5, y6⟩, _⟩ := y
  simp only [qAll, Bool.and_eq_true, beq_iff_eq] at qx qy
  obtain ⟨⟨⟨rfl, rfl⟩, rfl⟩, rfl⟩ := qx
  obtain ⟨⟨⟨rfl, rfl⟩, rfl⟩, rfl⟩ := qy
  simpa [ltRef, ltPair, ltNat] using hlt

/-- **a walk inside one (queue, family, account, denom) of a consistent store = the locks with a
    reference in its range, sorted by (key, id)**: `getLocksFromIterator` cannot panic and returns the
    filtered lock table in the store's own order -/
theorem walk_eq_sorted {locks : List Lock} {refs : Refs} (h : RefsOk locks refs) (hn : (locks.map (·.id)).Nodup)
    (Q F a d : Nat) (q : RefK → Bool) (key : Lock → Nat) (P : Lock → Bool)
    (hq : ∀ r, q r = true → qAll Q F a d r = true)
    (h1 : ∀ l r, r ∈ lockRefs l → q r = true → P l = true ∧ r = (Q, F, a, d, key l, l.id))
    (h2 : ∀ l, P l = true → (Q, F, a, d, key l, l.id) ∈ lockRefs l ∧ q (Q, F, a, d, key l, l.id) = true) :
    getLocksFromIterator locks (walk refs q) = some (sortBy (keyLt key) (locks.filter P)) := by
  have hnf : ((locks.filter P).map (·.id)).Nodup :=
    List.Nodup.sublist (List.Sublist.map _ List.filter_sublist) hn
  have hkv : walkKV refs q = (sortBy (keyLt key) (locks.filter P)).map (fun l => ((key l, l.id), ())) := by
    apply sorted_ext (soPair soNat soNat) (walkKV_sorted h.sorted Q F a d hq)
    · unfold Sorted
      rw [List.pairwise_map]
      exact List.Pairwise.imp (fun {a b} hab => hab) (sortBy_keyLt key _ hnf)
    · intro e
      simp only [walkKV, List.mem_map, List.mem_filter]
      constructor
      · rintro ⟨⟨r, u⟩, ⟨hr, hqr⟩, rfl⟩
        obtain ⟨l, hl, hrl⟩ := mem_refsOf.1 ((h.mem (r, u)).1 hr)
        obtain ⟨hP, rfl⟩ := h1 l r hrl hqr
        exact ⟨l, (sortBy_perm _ _).mem_iff.2 (List.mem_filter.2 ⟨hl, hP⟩), rfl⟩
      · rintro ⟨l, hl, rfl⟩
        obtain ⟨hl, hP⟩ := List.mem_filter.1 ((sortBy_perm _ _).mem_iff.1 hl)
        obtain ⟨hr, hqr⟩ := h2 l hP
        exact ⟨((Q, F, a, d, key l, l.id), ()), ⟨(h.mem _).2 (mem_refsOf.2 ⟨l, hl, hr⟩), hqr⟩, rfl⟩
  have hw : walk refs q = (sortBy (keyLt key) (locks.filter P)).map (·.id) := by
    rw [← walkKV_ids, hkv, List.map_map]; rfl
  rw [hw]
  exact getLocksFromIterator_ids hn _
    (fun l hl => (List.mem_filter.1 ((sortBy_perm _ _).mem_iff.1 hl)).1)

end DymVerif.Lockup
