import DymVerif.Lemmas.LockupRefsEnd
/-
  Lemmas/LockupRefsSum — the index-driven queries of Model/LockupRefs at the LIST / SUM level: a walk
  inside one (queue, family, account, denom) of a consistent reference store yields, in the store's
  own (key, lock id) order, exactly the locks of the lock table that have a reference in its range
  (`walk_eq_sorted`); hence `GetPeriodLocks` by the reference walk is the list `periodLocks`, the
  account / denom id-list queries are the sorted filters, and the coin queries are sums over the lock
  table.
-/
namespace DymVerif.Lockup
open DymVerif.Genesis

/-- the order of a walk inside one (queue, family, account, denom): (key, lock id) -/
def keyLt (key : Lock → Nat) (a b : Lock) : Bool :=
  decide (key a < key b) || (decide (key a = key b) && decide (a.id < b.id))

theorem refLt_eq_keyLt : refLt = keyLt (·.duration) := rfl

theorem keyLt_total {key : Lock → Nat} {a b : Lock} (h : keyLt key a b = false) (hid : a.id ≠ b.id) :
    keyLt key b a = true := by
  simp only [keyLt, Bool.or_eq_false_iff, Bool.and_eq_false_iff, decide_eq_false_iff_not, Bool.or_eq_true,
    Bool.and_eq_true, decide_eq_true_eq] at *
  omega

theorem keyLt_trans {key : Lock → Nat} {a b c : Lock} (h1 : keyLt key a b = true) (h2 : keyLt key b c = true) :
    keyLt key a c = true := by
  simp only [keyLt, Bool.or_eq_true, Bool.and_eq_true, decide_eq_true_eq] at *
  omega

theorem mem_insertBy' {β : Type} (lt : β → β → Bool) (x y : β) (l : List β) : y ∈ insertBy lt x l ↔ y = x ∨ y ∈ l :=
  (insertBy_perm lt x l).mem_iff.trans List.mem_cons

theorem insertBy_keyLt (key : Lock → Nat) (x : Lock) : ∀ (l : List Lock),
    l.Pairwise (fun a b => keyLt key a b = true) → (∀ y ∈ l, y.id ≠ x.id) →
    (insertBy (keyLt key) x l).Pairwise (fun a b => keyLt key a b = true)
  | [], _, _ => by simp [insertBy]
  | y :: ys, hl, hne => by
    rw [List.pairwise_cons] at hl
    unfold insertBy
    split
    · rename_i hyx
      rw [List.pairwise_cons]
      refine ⟨fun z hz => ?_, insertBy_keyLt key x ys hl.2 (fun z hz => hne z (List.mem_cons_of_mem _ hz))⟩
      rcases (mem_insertBy' _ _ _ _).1 hz with rfl | hz
      · exact hyx
      · exact hl.1 z hz
    · rename_i hyx
      have hxy : keyLt key x y = true :=
        keyLt_total (by simpa using hyx) (hne y List.mem_cons_self)
      rw [List.pairwise_cons]
      refine ⟨fun z hz => ?_, List.pairwise_cons.2 hl⟩
      rcases List.mem_cons.1 hz with rfl | hz
      · exact hxy
      · exact keyLt_trans hxy (hl.1 z hz)

theorem sortBy_keyLt (key : Lock → Nat) : ∀ (l : List Lock), (l.map (·.id)).Nodup →
    (sortBy (keyLt key) l).Pairwise (fun a b => keyLt key a b = true)
  | [], _ => List.Pairwise.nil
  | x :: xs, h => by
    rw [List.map_cons, List.nodup_cons] at h
    refine insertBy_keyLt key x _ (sortBy_keyLt key xs h.2) (fun y hy hid => h.1 ?_)
    rw [← hid]
    exact List.mem_map_of_mem ((sortBy_perm _ _).mem_iff.1 hy)

/-- the (key, id) pairs of a walk, as a store section -/
def walkKV (refs : Refs) (q : RefK → Bool) : KV (Nat × Nat) Unit :=
  (refs.filter (fun e => q e.1)).map (fun e => ((e.1.2.2.2.2.1, e.1.2.2.2.2.2), ()))

theorem walkKV_ids (refs : Refs) (q : RefK → Bool) : (walkKV refs q).map (·.1.2) = walk refs q := by
  simp [walkKV, walk, List.map_map, Function.comp_def]

/-- a walk that stays inside one (queue, family, account, denom) is in (key, id) order -/
theorem walkKV_sorted {refs : Refs} (hs : Sorted ltRef refs) (Q F a d : Nat) {q : RefK → Bool}
    (hq : ∀ r, q r = true → qAll Q F a d r = true) : Sorted (ltPair ltNat ltNat) (walkKV refs q) := by
  unfold walkKV Sorted
  rw [List.pairwise_map]
  have hf : (refs.filter (fun e => q e.1)).Pairwise (fun x y => ltRef x.1 y.1 = true) :=
    List.Pairwise.filter _ hs
  refine List.Pairwise.imp_of_mem ?_ hf
  intro x y hx hy hlt
  have qx := hq _ (List.mem_filter.1 hx).2
  have qy := hq _ (List.mem_filter.1 hy).2
  obtain ⟨⟨x1, x2, x3, x4, x5, x6⟩, _⟩ := x
  obtain ⟨⟨y1, y2, y3, y4, y5, y6⟩, _⟩ := y
  simp only [qAll, Bool.and_eq_true, beq_iff_eq] at qx qy
  obtain ⟨⟨⟨rfl, rfl⟩, rfl⟩, rfl⟩ := qx
  obtain ⟨⟨⟨rfl, rfl⟩, rfl⟩, rfl⟩ := qy
  simpa [ltRef, ltPair, ltNat] using hlt

/-- **a walk inside one (queue, family, account, denom) of a consistent store = the locks with a
    reference in its range, sorted by (key, id)**: `getLocksFromIterator` cannot panic and returns the
    filtered lock table in the store's own order -/
theorem walk_eq_sorted {locks : List Lock} {refs : Refs} (h : RefsOk locks refs) (hn : (locks.map (·.id)).Nodup)
    (Q F a d : Nat) (q : RefK → Bool) (key : Lock → Nat) (P : Lock → Bool)
    (hq : ∀ r, q r = true → qAll Q F a d r = true)
    (h1 : ∀ l r, r ∈ lockRefs l → q r = true → P l = true ∧ r = (Q, F, a, d, key l, l.id))
    (h2 : ∀ l, P l = true → (Q, F, a, d, key l, l.id) ∈ lockRefs l ∧ q (Q, F, a, d, key l, l.id) = true) :
    getLocksFromIterator locks (walk refs q) = some (sortBy (keyLt key) (locks.filter P)) := by
  have hnf : ((locks.filter P).map (·.id)).Nodup :=
    List.Nodup.sublist (List.Sublist.map _ List.filter_sublist) hn
  have hkv : walkKV refs q = (sortBy (keyLt key) (locks.filter P)).map (fun l => ((key l, l.id), ())) := by
    apply sorted_ext (soPair soNat soNat) (walkKV_sorted h.sorted Q F a d hq)
    · unfold Sorted
      rw [List.pairwise_map]
      exact List.Pairwise.imp (fun {a b} hab => hab) (sortBy_keyLt key _ hnf)
    · intro e
      simp only [walkKV, List.mem_map, List.mem_filter]
      constructor
      · rintro ⟨⟨r, u⟩, ⟨hr, hqr⟩, rfl⟩
        obtain ⟨l, hl, hrl⟩ := mem_refsOf.1 ((h.mem (r, u)).1 hr)
        obtain ⟨hP, rfl⟩ := h1 l r hrl hqr
        exact ⟨l, (sortBy_perm _ _).mem_iff.2 (List.mem_filter.2 ⟨hl, hP⟩), rfl⟩
      · rintro ⟨l, hl, rfl⟩
        obtain ⟨hl, hP⟩ := List.mem_filter.1 ((sortBy_perm _ _).mem_iff.1 hl)
        obtain ⟨hr, hqr⟩ := h2 l hP
        exact ⟨((Q, F, a, d, key l, l.id), ()), ⟨(h.mem _).2 (mem_refsOf.2 ⟨l, hl, hr⟩), hqr⟩, rfl⟩
  have hw : walk refs q = (sortBy (keyLt key) (locks.filter P)).map (·.id) := by
    rw [← walkKV_ids, hkv, List.map_map]; rfl
  rw [hw]
  exact getLocksFromIterator_ids hn _
    (fun l hl => (List.mem_filter.1 ((sortBy_perm _ _).mem_iff.1 hl)).1)

/-! ### the range of every walk the keeper's queries do -/

set_option linter.unusedSimpArgs false


/-- the range of a walk `q` inside (Q, F, a, d): the locks satisfying `P`, each under its key `key l` -/
structure RangeOf (Q F a d : Nat) (q : RefK → Bool) (key : Lock → Nat) (P : Lock → Bool) : Prop where
  inside : ∀ r, q r = true → qAll Q F a d r = true
  only : ∀ l r, r ∈ lockRefs l → q r = true → P l = true ∧ r = (Q, F, a, d, key l, l.id)
  all : ∀ l, P l = true → (Q, F, a, d, key l, l.id) ∈ lockRefs l ∧ q (Q, F, a, d, key l, l.id) = true

macro "ref_range" : tactic => `(tactic|
  (refine ⟨fun r hq => ?_, fun l r hr hq => ?_, fun l hP => ?_⟩
   · simp_all [qAll, qBefore, qAfter, qLonger]
   · obtain ⟨id, ow, du, et, dn, am, gh⟩ := l
     cases et <;>
     · simp only [lockRefs, refKeysOf, lockRefKeys, durationLockRefKeys, Lock.isUnlocking, Option.isSome,
         List.map_cons, List.map_nil, List.mem_cons, List.cons_append, List.nil_append, List.not_mem_nil, or_false, mkRef,
         if_true, if_false, Bool.false_eq_true] at hr
       rcases hr with rfl | rfl | rfl | rfl | rfl | rfl | rfl | rfl <;>
         simp_all [qAll, qBefore, qAfter, qLonger, timeKey, matured, queueOf, fDur, fAccDur, fDenomDur, fAccDenomDur, fTime,
           fAccTime, fDenomTime, fAccDenomTime, Lock.isUnlocking] <;> (try omega)
   · obtain ⟨id, ow, du, et, dn, am, gh⟩ := l
     cases et <;>
       simp_all [lockRefs, refKeysOf, lockRefKeys, durationLockRefKeys, Lock.isUnlocking, mkRef, qAll, qBefore, qAfter,
         qLonger, timeKey, matured, queueOf, fDur, fAccDur, fDenomDur, fAccDenomDur, fTime, fAccTime, fDenomTime,
         fAccDenomTime] <;> (try omega)))

theorem range_dur (u : Bool) : RangeOf (queueOf u) fDur 0 0 (qAll (queueOf u) fDur 0 0) (·.duration)
    (fun l => l.isUnlocking == u) := by
  cases u <;> ref_range

theorem range_accDur (u : Bool) (a : Actor) : RangeOf (queueOf u) fAccDur a 0 (qAll (queueOf u) fAccDur a 0) (·.duration)
    (fun l => l.isUnlocking == u && l.owner == a) := by
  cases u <;> ref_range

theorem range_denomLonger (u : Bool) (d k : Nat) : RangeOf (queueOf u) fDenomDur 0 d (qLonger (queueOf u) fDenomDur 0 d k)
    (·.duration) (fun l => l.isUnlocking == u && l.denom == d && decide (k ≤ l.duration)) := by
  cases u <;> ref_range

theorem range_accBefore (a : Actor) (now : Nat) : RangeOf (queueOf true) fAccTime a 0 (qBefore (queueOf true) fAccTime a 0 now)
    (fun l => timeKey l.endTime) (fun l => l.owner == a && matured now l) := by
  ref_range

theorem range_accAfter (a : Actor) (now : Nat) : RangeOf (queueOf true) fAccTime a 0 (qAfter (queueOf true) fAccTime a 0 now)
    (fun l => timeKey l.endTime) (fun l => l.owner == a && l.isUnlocking && !matured now l) := by
  ref_range


theorem walk_range {locks : List Lock} {refs : Refs} (h : RefsOk locks refs) (hn : (locks.map (·.id)).Nodup)
    {Q F a d : Nat} {q : RefK → Bool} {key : Lock → Nat} {P : Lock → Bool} (hr : RangeOf Q F a d q key P) :
    getLocksFromIterator locks (walk refs q) = some (sortBy (keyLt key) (locks.filter P)) :=
  walk_eq_sorted h hn Q F a d q key P hr.inside hr.only hr.all

/-! ### sums over a filtered, sorted lock list -/

theorem total_filter' (P Q : Lock → Bool) : ∀ (ls : List Lock), total Q (ls.filter P) = total (fun l => P l && Q l) ls
  | [] => rfl
  | l :: ls => by
    rw [List.filter_cons]
    cases hP : P l <;> simp [total, hP, total_filter' P Q ls]

theorem coinsOf_sorted (lt : Lock → Lock → Bool) (P : Lock → Bool) (ls : List Lock) (d : Denom) :
    coinsOf (sortBy lt (ls.filter P)) d = total (fun l => P l && l.denom == d) ls := by
  unfold coinsOf
  rw [total_perm _ (sortBy_perm lt _), total_filter']

theorem total_split3 {A B C : Lock → Bool}
    (h : ∀ l : Lock, (if A l then l.amount else 0) + (if B l then l.amount else 0) = if C l then l.amount else 0) :
    ∀ (ls : List Lock), total A ls + total B ls = total C ls
  | [] => rfl
  | l :: ls => by
    have := h l
    have := total_split3 h ls
    simp only [total]
    omega

/-! ### the list-based answers -/

/-- `GetAccountPeriodLocks` on the lock list: the owner's not-unlocking locks, then the unlocking ones,
    each in (duration, id) order -/
def accountPeriodLocks (ls : List Lock) (a : Actor) : List Lock :=
  sortBy refLt (ls.filter (fun l => !l.isUnlocking && l.owner == a)) ++
  sortBy refLt (ls.filter (fun l => l.isUnlocking && l.owner == a))

/-- `GetLocksLongerThanDurationDenom` on the lock list -/
def locksLongerThanDurationDenom (ls : List Lock) (d : Denom) (k : Nat) : List Lock :=
  sortBy refLt (ls.filter (fun l => !l.isUnlocking && l.denom == d && decide (k ≤ l.duration))) ++
  sortBy refLt (ls.filter (fun l => l.isUnlocking && l.denom == d && decide (k ≤ l.duration)))

theorem unl_false_eq : (fun l : Lock => l.isUnlocking == false) = (fun l => !l.isUnlocking) := by
  funext l; simp
theorem unl_true_eq : (fun l : Lock => l.isUnlocking == true) = (fun l => l.isUnlocking) := by
  funext l; simp

/-- **`GetPeriodLocks` by the reference walks = the list `periodLocks`** -/
theorem periodLocksR_list {rs : RState} (h : RefsOk rs.s.locks rs.refs) (hn : (rs.s.locks.map (·.id)).Nodup) :
    periodLocksR rs = some (periodLocks rs.s.locks) := by
  unfold periodLocksR periodLocks
  rw [walk_range h hn (range_dur true), walk_range h hn (range_dur false), unl_false_eq, unl_true_eq]
  rfl

theorem accountPeriodLocksR_list {rs : RState} (h : RefsOk rs.s.locks rs.refs) (hn : (rs.s.locks.map (·.id)).Nodup)
    (a : Actor) : accountPeriodLocksR rs a = some (accountPeriodLocks rs.s.locks a) := by
  unfold accountPeriodLocksR accountPeriodLocks
  rw [walk_range h hn (range_accDur true a), walk_range h hn (range_accDur false a)]
  simp only [beq_false, beq_true]
  rfl

theorem locksLongerThanDurationDenomR_list {rs : RState} (h : RefsOk rs.s.locks rs.refs)
    (hn : (rs.s.locks.map (·.id)).Nodup) (d : Denom) (k : Nat) :
    locksLongerThanDurationDenomR rs d k = some (locksLongerThanDurationDenom rs.s.locks d k) := by
  unfold locksLongerThanDurationDenomR locksLongerThanDurationDenom
  rw [walk_range h hn (range_denomLonger true d k), walk_range h hn (range_denomLonger false d k)]
  simp only [beq_false, beq_true]
  rfl

/-- **`GetAccountUnlockableCoins`** = Σ amount of the owner's matured locks of the denom -/
theorem accountUnlockableCoinsR_sum {rs : RState} (h : RefsOk rs.s.locks rs.refs) (hn : (rs.s.locks.map (·.id)).Nodup)
    (a : Actor) (d : Denom) :
    accountUnlockableCoinsR rs a d
      = some (total (fun l => (l.owner == a && matured rs.s.now l) && l.denom == d) rs.s.locks) := by
  unfold accountUnlockableCoinsR
  rw [walk_range h hn (range_accBefore a rs.s.now), Option.map_some, coinsOf_sorted]

/-- **`GetAccountUnlockingCoins`** = Σ amount of the owner's unlocking, not yet matured locks of the denom -/
theorem accountUnlockingCoinsR_sum {rs : RState} (h : RefsOk rs.s.locks rs.refs) (hn : (rs.s.locks.map (·.id)).Nodup)
    (a : Actor) (d : Denom) :
    accountUnlockingCoinsR rs a d
      = some (total (fun l => (l.owner == a && l.isUnlocking && !matured rs.s.now l) && l.denom == d) rs.s.locks) := by
  unfold accountUnlockingCoinsR
  rw [walk_range h hn (range_accAfter a rs.s.now), Option.map_some, coinsOf_sorted]

/-- **`GetAccountLockedCoins`** = Σ amount of the owner's locks of the denom that are not matured
    (not unlocking, or unlocking with the end time still ahead) -/
theorem accountLockedCoinsR_sum {rs : RState} (h : RefsOk rs.s.locks rs.refs) (hn : (rs.s.locks.map (·.id)).Nodup)
    (a : Actor) (d : Denom) :
    accountLockedCoinsR rs a d
      = some (total (fun l => l.owner == a && l.denom == d && !matured rs.s.now l) rs.s.locks) := by
  unfold accountLockedCoinsR
  rw [accountUnlockingCoinsR_sum h hn, walk_range h hn (range_accDur false a)]
  dsimp only
  rw [coinsOf_sorted]
  simp only [Option.some.injEq]
  apply total_split3
  intro l
  obtain ⟨id, ow, du, et, dn, am, gh⟩ := l
  cases et <;> cases h1 : (ow == a) <;> cases h2 : (dn == d) <;> simp [matured, Lock.isUnlocking, h1, h2]

/-! ### the reference keys of one lock are pairwise distinct -/

theorem mkRef_injective (q id : Nat) : Function.Injective (fun k : RefKey => mkRef q k id) :=
  fun _ _ h => mkRef_inj h

theorem lockRefs_nodup (l : Lock) : (lockRefs l).Nodup := by
  unfold lockRefs
  exact List.Pairwise.map _ (fun a b hab hc => hab (mkRef_inj hc)) (refKeysOf_nodup l)

theorem lockRefs_length (l : Lock) : (lockRefs l).length = if l.isUnlocking then 8 else 4 := by
  unfold lockRefs refKeysOf lockRefKeys durationLockRefKeys
  split <;> simp

end DymVerif.Lockup
