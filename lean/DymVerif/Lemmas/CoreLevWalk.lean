/-
  Lemmas/CoreLevWalk — one walk through every handler of M-Core for all predicates that are closed
  under the primitive ways the model touches the liveness fields (`evH`, `cdStart`, `lev`, `h`, `p`):
  every message handler, `beginBlock`'s successor choice and `finalizeRollappStates` preserve such a
  predicate.  The invariants of `CoreLevInv` are instances.
-/
import DymVerif.Lemmas.CoreLevBasic
namespace DymVerif.Core.LevNs

/-- the parts of the state the liveness invariants read are equal -/
def SameL (s s' : St) : Prop := s'.ras = s.ras ∧ s'.lev = s.lev ∧ s'.h = s.h ∧ s'.p = s.p

theorem SameL.peq {s s' : St} (h : SameL s s') : s'.p = s.p := h.2.2.2

theorem SameL.refl (s : St) : SameL s s := ⟨rfl, rfl, rfl, rfl⟩
theorem SameL.trans {a b c : St} (h1 : SameL a b) (h2 : SameL b c) : SameL a c :=
  ⟨h2.1.trans h1.1, h2.2.1.trans h1.2.1, h2.2.2.1.trans h1.2.2.1, h2.2.2.2.trans h1.2.2.2⟩

/-- closure of a state predicate under the primitive liveness-relevant transformers -/
structure LClosed (P : St → Prop) : Prop where
  of_same : ∀ {s s' : St}, P s → SameL s s' → P s'
  set_same : ∀ {s : St} {id : Nat} {r r' : Rollapp}, P s → getRa s id = some r → r'.id = r.id →
    r'.evH = r.evH → r'.cdStart = r.cdStart → P (setRa s r')
  indicate : ∀ {s : St} {id : Nat} {r : Rollapp}, P s → getRa s id = some r → P (indicateLiveness s r)
  reset : ∀ {s : St} {id : Nat} {r r' : Rollapp}, P s → getRa s id = some r → r'.id = r.id →
    r'.evH = r.evH → P (setRa (resetClock s r').1 (resetClock s r').2)
  create : ∀ {s : St} {id : Nat} {o : Addr} {mb : Nat}, P s → getRa s id = none →
    P { s with ras := insertSorted (fun x y => decide (x.id < y.id)) (newRollapp id o mb) s.ras }

-- ---------------------------------------------------------------- money movers: frame

theorem sendToModule_same {s s1 : St} {q q1 : Seq} {amt : Nat} (e : sendToModule s q amt = .ok (s1, q1)) : SameL s s1 := by
  unfold sendToModule at e; split at e
  · cases e
  · injection e with e; injection e with e1 _; subst e1; exact ⟨rfl, rfl, rfl, rfl⟩

theorem sendFromModule_same {s s1 : St} {q q1 : Seq} {amt : Nat} {to : Addr}
    (e : sendFromModule s q amt to = .ok (s1, q1)) : SameL s s1 := by
  unfold sendFromModule at e; split at e
  · cases e
  · split at e
    · cases e
    · split at e
      · cases e
      · injection e with e; injection e with e1 _; subst e1; exact ⟨rfl, rfl, rfl, rfl⟩

theorem burn_same {s s1 : St} {q q1 : Seq} {amt : Nat} (e : burn s q amt = .ok (s1, q1)) : SameL s s1 := by
  unfold burn at e; split at e
  · cases e
  · split at e
    · cases e
    · injection e with e; injection e with e1 _; subst e1; exact ⟨rfl, rfl, rfl, rfl⟩

theorem slash_same {s s1 : St} {q q1 : Seq} {amt : Nat} {mul : Dec} {rw : Option Addr}
    (e : slash s q amt mul rw = .ok (s1, q1)) : SameL s s1 := by
  unfold slash at e
  dsimp only at e
  split at e
  · cases e
  · rename_i s0 q0 h0
    have : SameL s s0 := by
      split at h0
      · injection h0 with h0; injection h0 with h1 _; subst h1; exact SameL.refl _
      · split at h0
        · exact sendFromModule_same h0
        · cases h0
    exact this.trans (burn_same e)

theorem tryUnbond_same {s s1 : St} {q q1 : Seq} {amt : Nat} (e : tryUnbond s q amt = .ok (s1, q1)) : SameL s s1 := by
  unfold tryUnbond at e
  split at e
  · cases e
  · split at e
    · cases e
    · split at e
      · cases e
      · dsimp only at e
        split at e
        · cases e
        · split at e
          · cases e
          · rename_i s0 q0 h0
            injection e with e; injection e with e1 _; subst e1
            exact sendFromModule_same h0

theorem removeFromNoticeQueue_same (s : St) (q : Seq) : SameL s (removeFromNoticeQueue s q) := by
  unfold removeFromNoticeQueue; split <;> exact ⟨rfl, rfl, rfl, rfl⟩

theorem slashLiveness_same {s s1 : St} {r : Rollapp} (e : slashLiveness s r = .ok s1) : SameL s s1 := by
  unfold slashLiveness at e
  split at e
  · injection e with e; subst e; exact SameL.refl _
  · split at e
    · injection e with e; subst e; exact SameL.refl _
    · split at e
      · cases e
      · rename_i s2 q2 hsl
        injection e with e; subst e
        exact (slash_same hsl).trans ⟨rfl, rfl, rfl, rfl⟩

-- the sequencer parameters are not written by the money movers either
theorem slash_sqp {s s1 : St} {q q1 : Seq} {amt : Nat} {mul : Dec} {rw : Option Addr}
    (e : slash s q amt mul rw = .ok (s1, q1)) : s1.sqp = s.sqp := by
  unfold slash at e
  dsimp only at e
  split at e
  · cases e
  · rename_i s0 q0 h0
    have h1 : s0.sqp = s.sqp := by
      split at h0
      · injection h0 with h0; injection h0 with h1 _; subst h1; rfl
      · split at h0
        · unfold sendFromModule at h0
          split at h0
          · cases h0
          · split at h0
            · cases h0
            · split at h0
              · cases h0
              · injection h0 with h0; injection h0 with e1 _; subst e1; rfl
        · cases h0
    unfold burn at e
    split at e
    · cases e
    · split at e
      · cases e
      · injection e with e; injection e with e1 _; subst e1; exact h1

theorem slashLiveness_sqp {s s1 : St} {r : Rollapp} (e : slashLiveness s r = .ok s1) : s1.sqp = s.sqp := by
  unfold slashLiveness at e
  split at e
  · injection e with e; subst e; rfl
  · split at e
    · injection e with e; subst e; rfl
    · split at e
      · cases e
      · rename_i s2 q2 hsl
        injection e with e; subst e
        exact (setSeq_sqp _ _).trans (slash_sqp hsl)

-- ---------------------------------------------------------------- the walk

section
variable {P : St → Prop}

theorem afterSetRealProposer_cl (hc : LClosed P) {s : St} {ra : Nat} {a : Addr} (h : P s) :
    P (afterSetRealProposer s ra a) := by
  unfold afterSetRealProposer
  split
  · exact h
  · rename_i r hg
    have h1 := hc.indicate h hg
    split
    · exact h1
    · rename_i r1 hg1
      exact hc.set_same h1 hg1 rfl rfl rfl

theorem recoverFromSentinel_cl (hc : LClosed P) {s s' : St} {ra : Nat} (h : P s)
    (e : recoverFromSentinel s ra = .ok s') : P s' := by
  unfold recoverFromSentinel at e
  split at e
  · cases e
  · rename_i r hg
    split at e
    · cases e
    · split at e
      · cases e
      · injection e with e; subst e
        exact afterSetRealProposer_cl hc (hc.set_same h hg rfl rfl rfl)

theorem setProposer_cl (hc : LClosed P) {s : St} {ra : Nat} {a : Option Addr} (h : P s) : P (setProposer s ra a) := by
  unfold setProposer
  split
  · exact h
  · rename_i r hg; exact hc.set_same h hg rfl rfl rfl

theorem setSuccessor_cl (hc : LClosed P) {s : St} {ra : Nat} {a : Option Addr} (h : P s) : P (setSuccessor s ra a) := by
  unfold setSuccessor
  split
  · exact h
  · rename_i r hg; exact hc.set_same h hg rfl rfl rfl

theorem abruptRemoveProposer_cl (hc : LClosed P) {s : St} {ra : Nat} (h : P s) : P (abruptRemoveProposer s ra) := by
  unfold abruptRemoveProposer
  split
  · exact h
  · split
    · exact h
    · split
      · exact h
      · rename_i q _
        exact setProposer_cl hc (hc.of_same h ((removeFromNoticeQueue_same s q).trans ⟨rfl, rfl, rfl, rfl⟩))

theorem seqOnHardFork_cl (hc : LClosed P) {s : St} {ra : Nat} (h : P s) : P (seqOnHardFork s ra) := by
  unfold seqOnHardFork
  exact setSuccessor_cl hc (abruptRemoveProposer_cl hc (hc.of_same (s' := optOutAll s ra) h ⟨rfl, rfl, rfl, rfl⟩))

theorem hardFork_cl (hc : LClosed P) {s s' : St} {ra lv : Nat} (h : P s) (e : hardFork s ra lv = .ok s') : P s' := by
  unfold hardFork at e
  split at e
  · cases e
  · rename_i r hg
    split at e
    · cases e
    · split at e
      · cases e
      · split at e
        · cases e
        · rename_i keep kst hplan
          dsimp only at e
          injection e with e; subst e
          apply seqOnHardFork_cl hc
          have h1 : P { s with queue := removeIdxAbove s.queue ra keep,
                               seqH := pruneSeqHeights s.seqH (kst.creator :: (r.states.drop keep).map (·.creator)) kst.last } :=
            hc.of_same h ⟨rfl, rfl, rfl, rfl⟩
          exact hc.reset (r := r) (r' := forkedRollapp r keep kst) h1 hg rfl rfl

theorem hardForkToLatest_cl (hc : LClosed P) {s s' : St} {ra : Nat} (h : P s) (e : hardForkToLatest s ra = .ok s') : P s' := by
  unfold hardForkToLatest at e
  split at e
  · cases e
  · split at e
    · cases e
    · exact hardFork_cl hc h e

theorem onProposerLastBlock_cl (hc : LClosed P) {s s' : St} {q : Seq} (h : P s)
    (e : onProposerLastBlock s q = .ok s') : P s' := by
  unfold onProposerLastBlock at e
  split at e
  · cases e
  · split at e
    · cases e
    · rename_i r hg
      dsimp only at e
      have h1 : P (setRa s { r with successor := none, proposer := r.successor }) :=
        hc.set_same h hg rfl rfl rfl
      split at e
      · exact hardForkToLatest_cl hc h1 e
      · injection e with e; subst e
        exact afterSetRealProposer_cl hc h1

theorem seqAfterUpdate_cl (hc : LClosed P) {s s' : St} {m : UpdMsg} {b : Bool} (h : P s)
    (e : seqAfterUpdate s m b = .ok s') : P s' := by
  unfold seqAfterUpdate at e
  split at e
  · cases e
  · dsimp only at e
    have h1 : ∀ q : Seq, P (setSeq s q) := fun q => hc.of_same h ⟨rfl, rfl, rfl, rfl⟩
    split at e
    · exact onProposerLastBlock_cl hc (h1 _) e
    · injection e with e; subst e; exact h1 _

theorem updateState_cl (hc : LClosed P) {s s' : St} {m : UpdMsg} (h : P s) (e : updateState s m = .ok s') : P s' := by
  unfold updateState at e
  split at e
  · cases e
  · split at e
    · cases e
    · rename_i r hg
      split at e
      · cases e
      · split at e
        · cases e
        · split at e
          · cases e
          · split at e
            · cases e
            · split at e
              · cases e
              · split at e
                · cases e
                · rename_i s3 h3
                  dsimp only at e
                  split at e
                  · cases e
                  · rename_i r4 hg4
                    injection e with e; subst e
                    have hnew : P (setRa s { r with states := r.states ++ [newSInfo s m (updSucc r m)] }) :=
                      hc.set_same h hg rfl rfl rfl
                    have h3' := seqAfterUpdate_cl hc hnew h3
                    have h4 : P { s3 with queue := queueAppend s3.queue s3.h m.ra (r.states.length + 1),
                                          seqH := addSeqHeights s3.seqH m.sender m.bds } :=
                      hc.of_same h3' ⟨rfl, rfl, rfl, rfl⟩
                    exact hc.indicate h4 hg4

theorem createSeq_cl (hc : LClosed P) {s s' : St} {a : Addr} {ra bond : Nat} {d : Bool} (h : P s)
    (e : createSeq s a ra bond d = .ok s') : P s' := by
  unfold createSeq at e
  split at e
  · cases e
  · rename_i r hg
    split at e
    · cases e
    · split at e
      · cases e
      · split at e
        · cases e
        · split at e
          · cases e
          · dsimp only at e
            have h0 : P (if r.launched = true then s else setRa s { r with launched := true }) := by
              split
              · exact h
              · exact hc.set_same h hg rfl rfl rfl
            split at e
            · cases e
            · rename_i s1 q1 hs
              have h1 : P s1 := hc.of_same h0 (sendToModule_same hs)
              have h2 : P { s1 with seqs := insertSorted (fun x y => decide (x.addr < y.addr)) q1 s1.seqs } :=
                hc.of_same h1 ⟨rfl, rfl, rfl, rfl⟩
              split at e
              · cases e
              · split at e
                · exact recoverFromSentinel_cl hc h2 e
                · injection e with e; subst e; exact h2

theorem increaseBond_cl (hc : LClosed P) {s s' : St} {a : Addr} {amt : Nat} {d : Bool} (h : P s)
    (e : increaseBond s a amt d = .ok s') : P s' := by
  unfold increaseBond at e
  split at e
  · cases e
  · split at e
    · cases e
    · split at e
      · cases e
      · split at e
        · cases e
        · rename_i s1 q1 hs
          injection e with e; subst e
          exact hc.of_same h ((sendToModule_same hs).trans ⟨rfl, rfl, rfl, rfl⟩)

theorem decreaseBond_cl (hc : LClosed P) {s s' : St} {a : Addr} {amt : Nat} (h : P s)
    (e : decreaseBond s a amt = .ok s') : P s' := by
  unfold decreaseBond at e
  split at e
  · cases e
  · split at e
    · cases e
    · split at e
      · cases e
      · rename_i s1 q1 hs
        injection e with e; subst e
        exact hc.of_same h ((tryUnbond_same hs).trans ⟨rfl, rfl, rfl, rfl⟩)

theorem unbond_cl (hc : LClosed P) {s s' : St} {a : Addr} (h : P s) (e : unbond s a = .ok s') : P s' := by
  unfold unbond at e
  repeat' split at e
  all_goals first
    | (injection e with e; subst e; exact hc.of_same h ⟨rfl, rfl, rfl, rfl⟩)
    | (rename_i s1 q1 hs; injection e with e; subst e
       exact hc.of_same h ((tryUnbond_same hs).trans ⟨rfl, rfl, rfl, rfl⟩))
    | (cases e; done)

theorem optIn_cl (hc : LClosed P) {s s' : St} {a : Addr} {v : Bool} (h : P s) (e : optIn s a v = .ok s') : P s' := by
  unfold optIn at e
  split at e
  · cases e
  · split at e
    · cases e
    · dsimp only at e
      have h1 : ∀ q : Seq, P (setSeq s q) := fun q => hc.of_same h ⟨rfl, rfl, rfl, rfl⟩
      split at e
      · cases e
      · split at e
        · exact recoverFromSentinel_cl hc (h1 _) e
        · injection e with e; subst e; exact h1 _

theorem kick_cl (hc : LClosed P) {s s' : St} {a : Addr} (h : P s) (e : kick s a = .ok s') : P s' := by
  unfold kick at e
  split at e
  · cases e
  · split at e
    · cases e
    · split at e
      · cases e
      · split at e
        · cases e
        · split at e
          · cases e
          · split at e
            · cases e
            · split at e
              · cases e
              · dsimp only at e
                split at e
                · cases e
                · rename_i s3 h3
                  have := hardForkToLatest_cl hc (abruptRemoveProposer_cl hc h) h3
                  exact recoverFromSentinel_cl hc (show P (setSeq s3 _) from hc.of_same this ⟨rfl, rfl, rfl, rfl⟩) e

theorem punish_cl (hc : LClosed P) {s s' : St} {a : Addr} {rw : Option Addr} (h : P s) (e : punish s a rw = .ok s') : P s' := by
  unfold punish at e
  split at e
  · cases e
  · dsimp only at e
    split at e
    · cases e
    · rename_i s1 q1 hs
      injection e with e; subst e
      exact hc.of_same h ((slash_same hs).trans ⟨rfl, rfl, rfl, rfl⟩)

theorem fraud_cl (hc : LClosed P) {s s' : St} {au : Bool} {ra hh rev : Nat} {p rw : Option Addr} (h : P s)
    (e : fraud s au ra hh rev p rw = .ok s') : P s' := by
  unfold fraud at e
  split at e
  · cases e
  · split at e
    · cases e
    · split at e
      · cases e
      · split at e
        · cases e
        · dsimp only at e
          split at e
          · cases e
          · rename_i s1 h1
            have : P s1 := by
              split at h1
              · exact punish_cl hc h h1
              · injection h1 with h1; subst h1; exact h
            exact hardFork_cl hc this e

theorem markObsolete_cl (hc : LClosed P) {s s' : St} {au : Bool} {vs : List Nat} (h : P s)
    (e : markObsolete s au vs = .ok s') : P s' := by
  unfold markObsolete at e
  split at e
  · cases e
  · split at e
    · cases e
    · dsimp only at e
      injection e with e; subst e
      apply foldl_inv P
      · exact hc.of_same h ⟨rfl, rfl, rfl, rfl⟩
      · intro b r0 hb
        split
        · exact hb
        · split
          · exact hb
          · split
            · split
              · rename_i a ha; exact hardForkToLatest_cl hc hb ha
              · exact hb
            · exact hb

/-- the op is a message (not a block boundary) -/
def _root_.DymVerif.Core.Op.isMsg : Op → Bool
  | .begin_ _ => false
  | .end_ _ => false
  | _ => true

/-- every accepted message preserves a closed predicate -/
theorem apply_msg_cl (hc : LClosed P) {s s' : St} {o : Op} (h : P s) (e : apply s o = .ok s')
    (hm : o.isMsg = true) : P s' := by
  cases o with
  | createRollapp id owner mb =>
    simp only [apply] at e
    split at e
    · cases e
    · rename_i hex
      injection e with e; subst e
      have hnone : getRa s id = none := by
        cases hx : getRa s id with
        | none => rfl
        | some _ => simp [hx] at hex
      exact hc.create h hnone
  | bridge ra hh =>
    simp only [apply] at e
    split at e
    · cases e
    · rename_i r hg
      split at e
      · cases e
      · split at e
        · cases e
        · injection e with e; subst e
          exact hc.set_same h hg rfl rfl rfl
  | fund a amt => simp only [apply] at e; injection e with e; subst e; exact hc.of_same h ⟨rfl, rfl, rfl, rfl⟩
  | createSeq a ra b d => exact createSeq_cl hc h e
  | bondInc a amt d => exact increaseBond_cl hc h e
  | bondDec a amt => exact decreaseBond_cl hc h e
  | unbond a => exact unbond_cl hc h e
  | optIn a v => exact optIn_cl hc h e
  | kick a => exact kick_cl hc h e
  | update m => exact updateState_cl hc h e
  | fraud au ra hh rev p rw => exact fraud_cl hc h e
  | obsolete au vs => exact markObsolete_cl hc h e
  | punish au a rw => exact punish_cl hc h (punishProposal_ok e).2
  | transferOwner sg ra' no =>
    obtain ⟨r, hg, _, _, _, rfl⟩ := transferOwner_ok e
    exact hc.set_same h hg rfl rfl rfl
  | setSeqParams au sp =>
    obtain ⟨_, hnp, _, rfl⟩ := setSeqParams_ok e
    exact hc.of_same h ⟨rfl, rfl, rfl, rfl⟩
  | begin_ dt => cases hm
  | end_ f => cases hm

-- ---------------------------------------------------------------- block processing (generic parts)

/-- `beginBlock` after the height/time bump: only successors and the notice queue change -/
theorem beginBlock_cl (hc : LClosed P) {s : St} {dt : Nat} (h : P { s with h := s.h + 1, t := s.t + dt }) :
    P (beginBlock s dt) := by
  unfold beginBlock
  dsimp only
  apply foldl_inv P
  · exact h
  · intro b e hb
    have hb1 : P { b with nq := b.nq.filter (fun x => !(x.1 == e.1 && x.2 == e.2)) } :=
      hc.of_same hb ⟨rfl, rfl, rfl, rfl⟩
    split
    · exact hb1
    · split
      · exact hb1
      · rename_i r hg
        exact hc.set_same hb1 hg rfl rfl rfl

theorem finalizeOne_cl (hc : LClosed P) {s s' : St} {fails : List (Nat × Nat)} {ra idx : Nat} (h : P s)
    (e : finalizeOne s fails ra idx = some s') : P s' := by
  unfold finalizeOne at e
  split at e
  · cases e
  · split at e
    · cases e
    · rename_i r hg
      split at e
      · cases e
      · rename_i st hst
        split at e
        · cases e
        · dsimp only at e
          injection e with e; subst e
          have h1 : P { s with seqH := s.seqH.filter (fun p => !(p.1 == st.creator && st.bds.any (·.height == p.2))) } :=
            hc.of_same h ⟨rfl, rfl, rfl, rfl⟩
          exact hc.set_same h1 hg rfl rfl rfl

theorem finalizeEntry_go_cl (hc : LClosed P) (fails : List (Nat × Nat)) (e : QEntry) (l : List Nat) (s : St) (h : P s) :
    P (finalizeEntry.go fails e s l).1 := by
  induction l generalizing s with
  | nil => unfold finalizeEntry.go; exact hc.of_same h ⟨rfl, rfl, rfl, rfl⟩
  | cons i rest ih =>
    unfold finalizeEntry.go
    split
    · rename_i s1 h1; exact ih s1 (finalizeOne_cl hc h h1)
    · exact hc.of_same h ⟨rfl, rfl, rfl, rfl⟩

theorem finalizeAll_cl (hc : LClosed P) (fails : List (Nat × Nat)) (es : List QEntry) (failed : List Nat) (s : St) (h : P s) :
    P (finalizeAll s fails es failed) := by
  induction es generalizing s failed with
  | nil => unfold finalizeAll; exact h
  | cons e es ih =>
    unfold finalizeAll
    split
    · exact ih _ _ h
    · have := finalizeEntry_go_cl hc fails e e.idx s h
      unfold finalizeEntry
      exact ih _ _ this

theorem finalizeRollappStates_cl (hc : LClosed P) {s : St} {fails : List (Nat × Nat)} (h : P s) :
    P (finalizeRollappStates s fails) := by
  unfold finalizeRollappStates
  split
  · exact h
  · exact finalizeAll_cl hc _ _ _ _ h

end

end DymVerif.Core.LevNs
