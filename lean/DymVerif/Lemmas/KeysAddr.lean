/-
  Lemmas/KeysAddr — character classes of the x/dymns validators and the text lemmas behind
  `parse (format …) = …` (Model/KeysAddr).  Core Lean only.
-/
import DymVerif.Model.KeysAddr
namespace DymVerif.Keys
open DymVerif

/-- a chunk of an address: non-empty, every character of `[a-z0-9_-]` -/
def Clean (s : Bytes) : Prop := s ≠ [] ∧ ∀ c ∈ s, isNameC c = true

theorem nameC_not_sep {c : Nat} (h : isNameC c = true) : isSepC c = false := by
  simp [isNameC, isAlnumC, isLowerB, isDigitB, isDashC] at h
  simp [isSepC]; omega

theorem nameC_not_space {c : Nat} (h : isNameC c = true) : isSpaceC c = false := by
  simp [isNameC, isAlnumC, isLowerB, isDigitB, isDashC] at h
  simp [isSpaceC]; omega

theorem nameC_lower {c : Nat} (h : isNameC c = true) : (if 65 ≤ c && c ≤ 90 then c + 32 else c) = c := by
  simp [isNameC, isAlnumC, isLowerB, isDigitB, isDashC] at h
  have : ¬ (65 ≤ c ∧ c ≤ 90) := by omega
  simp [this]

theorem alnum_nameC {c : Nat} (h : isAlnumC c = true) : isNameC c = true := by simp [isNameC, h]

theorem validDymName_clean {s : Bytes} (h : validDymName s = true) : Clean s := by
  simp [validDymName] at h
  obtain ⟨⟨⟨⟨⟨_, hne⟩, hall⟩, _⟩, _⟩, _⟩ := h
  exact ⟨hne, hall⟩

theorem validAlias_clean {s : Bytes} (h : validAlias s = true) : Clean s := by
  simp [validAlias] at h
  obtain ⟨⟨hne, _⟩, hall⟩ := h
  exact ⟨hne, fun c hc => alnum_nameC (hall c hc)⟩

theorem chainStep_nameC {st c st' : Nat} (h : chainStep st c = some st') : isNameC c = true := by
  unfold chainStep at h
  simp only [isNameC, isAlnumC, isDashC]
  split at h <;> (try split at h) <;> (try split at h) <;> (try split at h) <;> simp_all

theorem chainRun_nameC : ∀ (s : Bytes) (st st' : Nat), chainRun st s = some st' → ∀ c ∈ s, isNameC c = true
  | [], _, _, _ => by simp
  | x :: xs, st, st', h => by
    simp only [chainRun] at h
    split at h
    · rename_i st1 h1
      intro c hc
      rcases List.mem_cons.mp hc with rfl | hc
      · exact chainStep_nameC h1
      · exact chainRun_nameC xs st1 st' h c hc
    · simp at h

theorem validChainIdFormat_clean {s : Bytes} (h : validChainIdFormat s = true) : Clean s := by
  simp only [validChainIdFormat, Bool.and_eq_true, decide_eq_true_eq] at h
  obtain ⟨⟨h3, _⟩, hm⟩ := h
  refine ⟨by intro e; subst e; simp at h3, ?_⟩
  split at hm
  · rename_i st hr; exact chainRun_nameC s 0 st hr
  · simp at hm

theorem handle_clean {h : Bytes} (hh : (validChainIdFormat h || validAlias h) = true) : Clean h := by
  rcases Bool.or_eq_true _ _ |>.mp hh with h1 | h1
  · exact validChainIdFormat_clean h1
  · exact validAlias_clean h1

/-! ### normalisation is the identity on texts made of chunk characters and separators -/

def TextC (c : Nat) : Prop := isNameC c = true ∨ c = 46 ∨ c = 64

theorem textC_not_space {c : Nat} (h : TextC c) : isSpaceC c = false := by
  rcases h with h | rfl | rfl
  · exact nameC_not_space h
  · decide
  · decide

theorem dropWhile_all_false {p : Nat → Bool} : ∀ {l : Bytes}, (∀ c ∈ l, p c = false) → l.dropWhile p = l
  | [], _ => rfl
  | x :: xs, h => by simp [List.dropWhile, h x (by simp)]

theorem trimSpace_id {w : Bytes} (h : ∀ c ∈ w, isSpaceC c = false) : trimSpace w = w := by
  unfold trimSpace
  rw [dropWhile_all_false h, dropWhile_all_false (by simpa using h)]
  simp

theorem asciiLower_id : ∀ {w : Bytes}, (∀ c ∈ w, TextC c) → asciiLower w = w
  | [], _ => rfl
  | x :: xs, h => by
    have hx : (if 65 ≤ x && x ≤ 90 then x + 32 else x) = x := by
      rcases h x (by simp) with h1 | rfl | rfl
      · exact nameC_lower h1
      · decide
      · decide
    have := asciiLower_id (w := xs) (fun c hc => h c (by simp [hc]))
    simp only [asciiLower, List.map_cons] at this ⊢
    rw [hx, this]

theorem clean_trim {s : Bytes} (h : Clean s) : trimSpace s = s :=
  trimSpace_id (fun c hc => nameC_not_space (h.2 c hc))

/-! ### cutting a glued text gives back the chunks -/

theorem splitSeps_fst_ne_nil : ∀ w : Bytes, (splitSeps w).1 ≠ []
  | [] => by simp [splitSeps]
  | c :: cs => by
    have := splitSeps_fst_ne_nil cs
    simp only [splitSeps]
    split
    · simp
    · split <;> simp

theorem splitSeps_nosep : ∀ {f : Bytes}, (∀ c ∈ f, isSepC c = false) → splitSeps f = ([f], [])
  | [], _ => rfl
  | x :: xs, h => by
    have ih := splitSeps_nosep (f := xs) (fun c hc => h c (by simp [hc]))
    simp [splitSeps, h x (by simp), ih]

theorem splitSeps_glue : ∀ {f : Bytes} (s : Nat) (w : Bytes), (∀ c ∈ f, isSepC c = false) → isSepC s = true →
    splitSeps (f ++ s :: w) = (f :: (splitSeps w).1, s :: (splitSeps w).2)
  | [], s, w, _, hs => by simp [splitSeps, hs]
  | x :: xs, s, w, h, hs => by
    have ih := splitSeps_glue (f := xs) s w (fun c hc => h c (by simp [hc])) hs
    simp [splitSeps, h x (by simp), ih]

/-- `p₁ "." p₂ "." … tail` -/
def glueDots : List Bytes → Bytes → Bytes
  | [], tail => tail
  | p :: ps, tail => p ++ 46 :: glueDots ps tail

theorem clean_nosep {s : Bytes} (h : Clean s) : ∀ c ∈ s, isSepC c = false :=
  fun c hc => nameC_not_sep (h.2 c hc)

theorem splitSeps_glueDots (parts : List Bytes) (name h : Bytes) (last : Nat)
    (hp : ∀ p ∈ parts, Clean p) (hn : Clean name) (hh : Clean h) (hl : isSepC last = true) :
    splitSeps (glueDots parts (name ++ last :: h)) =
      (parts ++ [name, h], List.replicate parts.length 46 ++ [last]) := by
  induction parts with
  | nil =>
    simp only [glueDots, List.nil_append, List.length_nil, List.replicate_zero]
    rw [splitSeps_glue last h (clean_nosep hn) hl, splitSeps_nosep (clean_nosep hh)]
  | cons p ps ih =>
    simp only [glueDots]
    rw [splitSeps_glue 46 _ (clean_nosep (hp p (by simp))) (by decide), ih (fun q hq => hp q (by simp [hq]))]
    simp [List.replicate_succ]

theorem joinDot_ne_nil : ∀ {parts : List Bytes}, parts ≠ [] → (∀ p ∈ parts, Clean p) → joinDot parts ≠ []
  | [], h, _ => absurd rfl h
  | [p], _, hp => by simpa [joinDot] using (hp p (by simp)).1
  | p :: q :: r, _, _ => by simp [joinDot]

theorem glueDots_joinDot : ∀ (parts : List Bytes) (tail : Bytes), parts ≠ [] → (∀ p ∈ parts, Clean p) →
    joinDot parts ++ 46 :: tail = glueDots parts tail
  | [], _, h, _ => absurd rfl h
  | [p], tail, _, _ => by simp [joinDot, glueDots]
  | p :: q :: r, tail, _, hp => by
    have ih := glueDots_joinDot (q :: r) tail (by simp) (fun x hx => hp x (by simp [hx]))
    simp only [joinDot, glueDots] at ih ⊢
    rw [← ih]; simp

/-- the formatter's text, as glued chunks (either spelling of the last separator) -/
theorem format_eq_glue (parts : List Bytes) (name h : Bytes) (last : Nat) (hp : ∀ p ∈ parts, Clean p) :
    (if (joinDot parts).isEmpty then [] else joinDot parts ++ [46]) ++ name ++ last :: h =
      glueDots parts (name ++ last :: h) := by
  cases parts with
  | nil => simp [joinDot, glueDots]
  | cons p ps =>
    have hne := joinDot_ne_nil (parts := p :: ps) (by simp) hp
    have : (joinDot (p :: ps)).isEmpty = false := by
      cases hj : joinDot (p :: ps) with
      | nil => exact absurd hj hne
      | cons _ _ => rfl
    rw [this, ← glueDots_joinDot (p :: ps) _ (by simp) hp]
    simp

theorem glueDots_textC (parts : List Bytes) (tail : Bytes) (hp : ∀ p ∈ parts, Clean p) (ht : ∀ c ∈ tail, TextC c) :
    ∀ c ∈ glueDots parts tail, TextC c := by
  induction parts with
  | nil => simpa [glueDots] using ht
  | cons p ps ih =>
    intro c hc
    simp only [glueDots, List.mem_append, List.mem_cons] at hc
    rcases hc with hc | rfl | hc
    · exact Or.inl ((hp p (by simp)).2 c hc)
    · exact Or.inr (Or.inl rfl)
    · exact ih (fun q hq => hp q (by simp [hq])) c hc

end DymVerif.Keys
