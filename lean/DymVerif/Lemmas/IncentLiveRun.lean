/-
  Lemmas/IncentLiveRun — `LiveS` along WHOLE histories.
  The invariant `NamedS`: every stored stream is not sponsored and each of its records names a slot of the gauge
  table holding a PERPETUAL gauge.  It reads the static part `gstat` (id, perpetual flag) of the gauge table only:
    * blocks (`begin`, `end`) leave `gstat` unchanged (every gauge written back is a copy of the stored gauge of its
      own id: `Wst`) and write streams whose records are those of a stored stream (`Tr`);
    * messages append gauges or top one up; `createStream` (not sponsored) validates its records (`validateRecs`:
      existing perpetual gauges); `terminateStream` moves references only.
  A perpetual gauge is never finished, hence `NamedS s → LiveS s`.
  Excluded (beyond `Admissible`): creation of a SPONSORED stream — its records are the sponsorship distribution,
  read unvalidated (Props/C15Run: `liveS_sponsored_counterexample`).
-/
import DymVerif.Lemmas.IncentLive
namespace DymVerif.Incent
open DymVerif Coins

/-! ### the static part of the gauge table -/

def gstat (gs : List Gauge) : List (Nat × Bool) := gs.map (fun g => (g.id, g.perpetual))

/-- slot `k` holds id `k+1` -/
def IdsT (t : List (Nat × Bool)) : Prop := ∀ k p, t[k]? = some p → p.1 = k + 1

/-- the gauge value `x` agrees with the table at the slot `setGauge` would write it to -/
def Wst (t : List (Nat × Bool)) (x : Gauge) : Prop := ∀ p, t[x.id - 1]? = some p → p = (x.id, x.perpetual)

theorem set_same {α : Type} (l : List α) (k : Nat) (a : α) (h : ∀ p, l[k]? = some p → p = a) : l.set k a = l := by
  apply List.ext_getElem?
  intro i
  by_cases hi : k = i
  · subst hi
    by_cases hl : k < l.length
    · rw [List.getElem?_set_self hl, List.getElem?_eq_getElem hl, h l[k] (List.getElem?_eq_getElem hl)]
    · rw [List.getElem?_eq_none (by simpa using hl), List.getElem?_eq_none (by simpa using hl)]
  · rw [List.getElem?_set_ne hi]

theorem gstat_set (gs : List Gauge) (x v : Gauge) (hw : Wst (gstat gs) x) (h1 : v.id = x.id) (h2 : v.perpetual = x.perpetual) :
    gstat (gs.set (x.id - 1) v) = gstat gs := by
  unfold gstat
  rw [List.map_set]
  apply set_same
  intro p hp
  rw [h1, h2]
  exact hw p hp

theorem idsT_of_idsOK (gs : List Gauge) (h : IdsOK gs) : IdsT (gstat gs) := by
  intro k p hp
  unfold gstat at hp
  rw [List.getElem?_map] at hp
  cases hg : gs[k]? with
  | none => simp [hg] at hp
  | some g =>
    simp only [hg, Option.map_some, Option.some.injEq] at hp
    obtain ⟨hk, he⟩ := List.getElem?_eq_some_iff.1 hg
    have := h k hk
    rw [← hp]
    show g.id = k + 1
    rw [← he]; exact this

theorem wst_store (gs : List Gauge) (hi : IdsT (gstat gs)) (id : Nat) (g : Gauge) (h : getG gs id = some g) : Wst (gstat gs) g := by
  unfold getG at h
  split at h
  · simp at h
  · have h1 : (gstat gs)[id - 1]? = some (g.id, g.perpetual) := by
      unfold gstat; rw [List.getElem?_map, h]; rfl
    have h2 : g.id = id - 1 + 1 := hi _ _ h1
    intro p hp
    have h3 : g.id - 1 = id - 1 := by omega
    rw [h3, h1] at hp
    exact (Option.some.inj hp).symm

theorem wst_mem (gs : List Gauge) (hi : IdsT (gstat gs)) (x : Gauge) (hx : x ∈ gs) : Wst (gstat gs) x := by
  obtain ⟨k, hk, he⟩ := List.getElem_of_mem hx
  apply wst_store gs hi (k + 1) x
  unfold getG
  simp only [Nat.add_one_ne_zero, if_false, Nat.add_sub_cancel]
  rw [List.getElem?_eq_getElem hk, he]

/-! ### x/incentives `Distribute` keeps the static part -/

theorem incLoop_gstat (ee : Bool) : ∀ (gs : List Gauge) (s : State) (tr : Tracker) (s' : State) (tr' : Tracker),
    (∀ x ∈ gs, Wst (gstat s.gauges) x) → incLoop ee gs s tr = .ok (s', tr') → gstat s'.gauges = gstat s.gauges := by
  intro gs
  induction gs with
  | nil =>
    intro s tr s' tr' _ h
    simp only [incLoop, Except.ok.injEq, Prod.mk.injEq] at h
    rw [← h.1]
  | cons g rest ih =>
    intro s tr s' tr' hw h
    unfold incLoop at h
    cases hc : calcGauge s g tr with
    | err => simp [hc] at h
    | panic => simp [hc] at h
    | ok t2 c =>
      simp only [hc] at h
      have hrest : ∀ x ∈ rest, Wst (gstat s.gauges) x := fun x hx => hw x (List.mem_cons_of_mem _ hx)
      split at h
      · exact ih _ _ _ _ hrest h
      · have he : gstat (setGauge s { g with filled := if ee then g.filled + 1 else g.filled,
                                              distributed := Coins.add g.distributed c }).gauges = gstat s.gauges :=
          gstat_set s.gauges g _ (hw g List.mem_cons_self) rfl rfl
        have h2 := ih _ _ _ _ (by intro x hx; rw [he]; exact hrest x hx) h
        rw [h2, he]

theorem incDistribute_gstat (s : State) (gs : List Gauge) (ee : Bool) (s' : State)
    (hw : ∀ x ∈ gs, Wst (gstat s.gauges) x) (h : incDistribute s gs ee = .ok s') :
    gstat s'.gauges = gstat s.gauges ∧ s'.streams = s.streams := by
  have hf := incDistribute_frame s gs ee s' h
  refine ⟨?_, by rw [hf]⟩
  unfold incDistribute at h
  cases hl : incLoop ee gs s [] with
  | error e => simp [hl] at h
  | ok p =>
    obtain ⟨s3, tr⟩ := p
    simp only [hl] at h
    cases hp : payAll tr s3.bank with
    | none => simp [hp] at h
    | some b2 =>
      simp only [hp, Except.ok.injEq] at h
      rw [← h]
      exact incLoop_gstat ee gs s [] s3 tr hw hl

/-! ### the streamer's caches -/

/-- a stream that is not sponsored and whose records name gauges satisfying `Q` -/
def SPQ (Q : Nat → Prop) (st : Stream) : Prop := st.sponsored = false ∧ ∀ r ∈ st.recs, Q r.gauge

/-- cache invariant: cached gauges agree with the table `t`, cached streams satisfy `SPQ Q` -/
def PC (t : List (Nat × Bool)) (P : Stream → Prop) (c : Caches) : Prop :=
  (∀ g ∈ c.gauges, Wst t g) ∧ (∀ x ∈ c.streams, P x)

/-- stream predicates that do not read the distributed coins -/
def DFree (P : Stream → Prop) : Prop := ∀ (st : Stream) (d : Coins), P st → P { st with distributed := d }

theorem mem_upsertStream : ∀ (l : List Stream) (x y : Stream), y ∈ upsertStream l x → y = x ∨ y ∈ l := by
  intro l
  induction l with
  | nil => intro x y h; simp [upsertStream] at h; exact Or.inl h
  | cons a rest ih =>
    intro x y h
    unfold upsertStream at h
    split at h
    · rcases List.mem_cons.1 h with h1 | h1
      · exact Or.inl h1
      · exact Or.inr (List.mem_cons_of_mem _ h1)
    · rcases List.mem_cons.1 h with h1 | h1
      · exact Or.inr (by rw [h1]; exact List.mem_cons_self)
      · rcases ih x y h1 with h2 | h2
        · exact Or.inl h2
        · exact Or.inr (List.mem_cons_of_mem _ h2)

theorem PC_bump (t : List (Nat × Bool)) (Q : Stream → Prop) (hQ : DFree Q) (gs : List Gauge) (ss : List Stream) (d : Coins)
    (hg : ∀ g ∈ gs, Wst t g) (hs : ∀ x ∈ ss, Q x) (g : Gauge) (hwg : Wst t g) (st : Stream) (hst : Q st) (c1 c2 : Coins) :
    PC t Q ⟨upsertStream ss { st with distributed := c1 }, upsertGauge gs { g with coins := c2 }, d⟩ := by
  refine ⟨?_, ?_⟩
  · intro y hy
    rcases mem_upsertGauge _ _ _ hy with h1 | h1
    · rw [h1]; exact hwg
    · exact hg y h1
  · intro y hy
    rcases mem_upsertStream _ _ _ hy with h1 | h1
    · rw [h1]; exact hQ st c1 hst
    · exact hs y h1

theorem rewardsCb_PC (s : State) (Q : Stream → Prop) (hQ : DFree Q) (hi : IdsT (gstat s.gauges)) (c : Caches) (v : SView) (r : Rec)
    (h : PC (gstat s.gauges) Q c) : PC (gstat s.gauges) Q (rewardsCb s c v r).1 := by
  unfold rewardsCb
  cases hs : c.getStream v.id with
  | none => exact h
  | some stream =>
    have hsm : stream ∈ c.streams := by
      unfold Caches.getStream at hs; exact List.mem_of_find?_eq_some hs
    have hst := h.2 stream hsm
    simp only
    cases hg : c.getGauge r.gauge with
    | some g =>
      simp only
      obtain ⟨hm, _⟩ := cacheGet_some hg
      split
      · exact h
      · exact PC_bump _ Q hQ c.gauges c.streams _ h.1 h.2 g (h.1 g hm) stream hst _ _
    | none =>
      simp only
      cases hstg : getGauge s r.gauge with
      | none => exact h
      | some g =>
        simp only
        have hwg : Wst (gstat s.gauges) g := wst_store s.gauges hi r.gauge g hstg
        by_cases hf : g.isFinished s.now = true
        · simp only [hf, if_true]; exact h
        · rw [if_neg hf]
          simp only
          have hins : ∀ y ∈ upsertGauge c.gauges g, Wst (gstat s.gauges) y := by
            intro y hy
            rcases mem_upsertGauge _ _ _ hy with h1 | h1
            · rw [h1]; exact hwg
            · exact h.1 y h1
          split
          · exact ⟨hins, h.2⟩
          · exact PC_bump _ Q hQ _ c.streams _ hins h.2 g hwg stream hst _ _

theorem ptrLoop_PC (s : State) (Q : Stream → Prop) (hQ : DFree Q) (hi : IdsT (gstat s.gauges)) (maxOps : Nat) :
    ∀ (es : List Nat) (total : Nat) (c : Caches) (ps : List Pointer), PC (gstat s.gauges) Q c →
      PC (gstat s.gauges) Q (ptrLoop s maxOps es total c ps).2.1 := by
  intro es
  induction es with
  | nil => intro total c ps h; exact h
  | cons e rest ih =>
    intro total c ps h
    unfold ptrLoop
    split
    · exact h
    · exact ih _ _ _ (iterate_inv (PC (gstat s.gauges) Q) _ e _ _ (rewardsCb s) c
        (fun acc v r hp => rewardsCb_PC s Q hQ hi acc v r hp) h)

/-! ### writing the streams back -/

theorem SPQ_atEpochEnd (Q : Nat → Prop) (st : Stream) (h : SPQ Q st) : SPQ Q st.atEpochEnd := by
  unfold Stream.atEpochEnd
  split
  · exact h
  · exact h

theorem allS_setStream (P : Stream → Prop) (s : State) (v : Stream) (hv : P v) (h : ∀ x ∈ s.streams, P x) :
    ∀ x ∈ (setStream s v).streams, P x := by
  intro x hx
  rcases List.mem_or_eq_of_mem_set hx with h1 | h1
  · exact h x h1
  · rw [h1]; exact hv

theorem saveStreamEnd_shape (st : Stream) (s s1 : State) (h : saveStreamEnd st s = .ok s1) :
    s1.streams = s.streams.set (st.id - 1) st ∧ s1.gauges = s.gauges := by
  unfold saveStreamEnd at h
  split at h
  · cases hd : Refs.del s.active st.start st.id with
    | none => simp [hd] at h
    | some a =>
      simp only [hd] at h
      cases ha : Refs.add s.finished st.start st.id with
      | none => simp [ha] at h
      | some f =>
        simp only [ha, Except.ok.injEq] at h
        rw [← h]; exact ⟨rfl, rfl⟩
  · simp only [Except.ok.injEq] at h
    rw [← h]; exact ⟨rfl, rfl⟩

theorem saveStreams_allS (P : Stream → Prop) (hE : ∀ st, P st → P st.atEpochEnd) (ee : Bool) : ∀ (l : List Stream) (s s' : State),
    (∀ v ∈ l, P v) → (∀ x ∈ s.streams, P x) → saveStreams ee l s = .ok s' →
    (∀ x ∈ s'.streams, P x) ∧ s'.gauges = s.gauges := by
  intro l
  induction l with
  | nil => intro s s' _ h hs; simp only [saveStreams, Except.ok.injEq] at hs; rw [← hs]; exact ⟨h, rfl⟩
  | cons st rest ih =>
    intro s s' hl h hs
    have hrest : ∀ v ∈ rest, P v := fun v hv => hl v (List.mem_cons_of_mem _ hv)
    have hst := hl st List.mem_cons_self
    unfold saveStreams at hs
    split at hs
    · cases he : saveStreamEnd st.atEpochEnd s with
      | error e => simp [he] at hs
      | ok s1 =>
        simp only [he] at hs
        obtain ⟨a1, a2⟩ := saveStreamEnd_shape _ _ _ he
        have h1 : ∀ x ∈ s1.streams, P x := by
          rw [a1]
          intro x hx
          rcases List.mem_or_eq_of_mem_set hx with h2 | h2
          · exact h x h2
          · rw [h2]; exact hE st hst
        obtain ⟨b1, b2⟩ := ih s1 s' hrest h1 hs
        exact ⟨b1, by rw [b2, a2]⟩
    · obtain ⟨b1, b2⟩ := ih (setStream s st) s' hrest (allS_setStream P s st hst h) hs
      exact ⟨b1, b2⟩

/-! ### the transition relation of blocks -/

/-- the gauge table keeps its static part; every stored stream keeps `SPQ Q`, whatever `Q` is -/
def Tr (s s' : State) : Prop :=
  gstat s'.gauges = gstat s.gauges ∧ ∀ Q : Nat → Prop, (∀ x ∈ s.streams, SPQ Q x) → ∀ x ∈ s'.streams, SPQ Q x

theorem Tr.refl (s : State) : Tr s s := ⟨rfl, fun _ h => h⟩

theorem Tr.trans {a b c : State} (h1 : Tr a b) (h2 : Tr b c) : Tr a c :=
  ⟨h2.1.trans h1.1, fun Q h => h2.2 Q (h1.2 Q h)⟩

theorem Tr.idsT {a b : State} (h : Tr a b) (hi : IdsT (gstat a.gauges)) : IdsT (gstat b.gauges) := by
  rw [h.1]; exact hi

theorem strDistribute_tr (s : State) (es : List Nat) (streams : List Stream) (maxOps : Nat) (ee : Bool) (s' : State)
    (hi : IdsT (gstat s.gauges)) (hin : ∀ v ∈ streams, v ∈ s.streams)
    (h : strDistribute s es streams maxOps ee = .ok s') : Tr s s' := by
  unfold strDistribute at h
  have hpc : ∀ P : Stream → Prop, DFree P → (∀ x ∈ s.streams, P x) →
      PC (gstat s.gauges) P (ptrLoop s maxOps (sortByDuration es) 0 ⟨sortById streams, [], []⟩ s.ptrs).2.1 := by
    intro P hP hq
    apply ptrLoop_PC s P hP hi
    refine ⟨by intro g hg; simp at hg, ?_⟩
    intro x hx
    exact hq x (hin x ((mem_sortById streams x).1 hx))
  generalize ptrLoop s maxOps (sortByDuration es) 0 ⟨sortById streams, [], []⟩ s.ptrs = res at h hpc
  obtain ⟨tot, c, ps⟩ := res
  dsimp only at h hpc
  split at h
  · simp at h
  · next b hb =>
    cases hinc : incDistribute { s with ptrs := ps, bank := b } c.gauges ee with
    | error x => simp [hinc] at h
    | ok s2 =>
      simp only [hinc] at h
      obtain ⟨g1, g2⟩ := incDistribute_gstat { s with ptrs := ps, bank := b } c.gauges ee s2
        (hpc (fun _ => True) (fun _ _ _ => trivial) (fun _ _ => trivial)).1 hinc
      refine ⟨?_, ?_⟩
      · rw [(saveStreams_allS (fun _ => True) (fun _ _ => trivial) ee c.streams s2 s' (fun _ _ => trivial) (fun _ _ => trivial) h).2]
        exact g1
      · intro Q hq
        have hc := (hpc (SPQ Q) (fun _ _ hh => hh) hq).2
        exact (saveStreams_allS (SPQ Q) (SPQ_atEpochEnd Q) ee c.streams s2 s' hc (by rw [g2]; exact hq) h).1

/-! ### hooks and blocks -/

theorem mem_activeStreamsFor_streams (s : State) (e : Nat) (v : Stream) (h : v ∈ activeStreamsFor s e) : v ∈ s.streams := by
  unfold activeStreamsFor at h
  exact mem_streamsOf (List.mem_filter.1 h).1

theorem endBlock_tr (s s' : State) (hi : IdsT (gstat s.gauges)) (h : streamerEndBlock s = .ok s') : Tr s s' := by
  unfold streamerEndBlock at h
  exact strDistribute_tr s _ _ _ _ s' hi (fun v hv => mem_streamsOf hv) h

theorem streamerAfterEpochEnd_tr (s : State) (e : Nat) (s' : State) (hi : IdsT (gstat s.gauges))
    (h : streamerAfterEpochEnd s e = .ok s') : Tr s s' := by
  unfold streamerAfterEpochEnd at h
  split at h
  · simp only [Except.ok.injEq] at h; rw [← h]; exact Tr.refl s
  · cases hd : strDistribute s [e] (activeStreamsFor s e) maxU64 true with
    | error x => simp [hd] at h
    | ok s1 =>
      simp only [hd, Except.ok.injEq] at h
      have := strDistribute_tr s _ _ _ _ s1 hi (fun v hv => mem_activeStreamsFor_streams s e v hv) hd
      rw [← h]
      exact this

theorem checkFinished_gstat : ∀ (l : List Gauge) (s : State), IdsT (gstat s.gauges) →
    gstat (checkFinished l s).gauges = gstat s.gauges := by
  intro l
  induction l with
  | nil => intro s _; rfl
  | cons g rest ih =>
    intro s hi
    unfold checkFinished
    split
    · cases hg : getGauge s g.id with
      | none => simp only; exact ih s hi
      | some cur =>
        simp only
        have hw : Wst (gstat s.gauges) cur := wst_store s.gauges hi g.id cur hg
        have he : gstat (setGauge s { cur with status := .finished }).gauges = gstat s.gauges :=
          gstat_set s.gauges cur _ hw rfl rfl
        rw [ih _ (by rw [he]; exact hi), he]
    · exact ih s hi

theorem incAfterEpochEnd_tr (s : State) (e : Nat) (s' : State) (hi : IdsT (gstat s.gauges))
    (h : incAfterEpochEnd s e = .ok s') : Tr s s' := by
  have hf := (incAfterEpochEnd_frame s e s' h).1
  refine ⟨?_, fun Q hq => by rw [hf]; exact hq⟩
  unfold incAfterEpochEnd at h
  split at h
  · simp only [Except.ok.injEq] at h; rw [← h]
  · have hmap : gstat (s.gauges.map (fun g =>
        if g.status == .upcoming && decide (g.start ≤ s.now) then { g with status := .active } else g)) = gstat s.gauges := by
      unfold gstat
      rw [List.map_map]
      apply List.map_congr_left
      intro g _
      simp only [Function.comp]
      split <;> rfl
    generalize hs1 : ({ s with gauges := s.gauges.map (fun g =>
        if g.status == .upcoming && decide (g.start ≤ s.now) then { g with status := .active } else g) } : State) = s1 at h
    have hg1 : gstat s1.gauges = gstat s.gauges := by rw [← hs1]; exact hmap
    have hi1 : IdsT (gstat s1.gauges) := by rw [hg1]; exact hi
    dsimp only at h
    cases hd : incDistribute s1 (s1.gauges.filter (·.status == .active)) true with
    | error x => simp [hd] at h
    | ok s2 =>
      simp only [hd, Except.ok.injEq] at h
      obtain ⟨g2, _⟩ := incDistribute_gstat s1 _ true s2
        (fun x hx => wst_mem s1.gauges hi1 x (List.mem_filter.1 hx).1) hd
      rw [← h, checkFinished_gstat _ s2 (by rw [g2]; exact hi1), g2, hg1]

theorem activateDue_frame2 : ∀ (l : List Stream) (s s1 : State), activateDue l s = .ok s1 →
    s1.streams = s.streams ∧ s1.gauges = s.gauges := by
  intro l
  induction l with
  | nil => intro s s1 h; simp only [activateDue, Except.ok.injEq] at h; rw [← h]; exact ⟨rfl, rfl⟩
  | cons st rest ih =>
    intro s s1 h
    unfold activateDue at h
    by_cases hc : st.start ≤ s.now
    · rw [if_pos hc] at h
      cases hd : Refs.del s.upcoming st.start st.id with
      | none => simp [hd] at h
      | some u =>
        simp only [hd] at h
        cases ha : Refs.add s.active st.start st.id with
        | none => simp [ha] at h
        | some a =>
          simp only [ha] at h
          have := ih _ s1 h
          exact this
    · rw [if_neg hc] at h
      exact ih s s1 h

theorem SPQ_start (Q : Nat → Prop) (st : Stream) (distr : List Rec) (ec : Coins) (b : Bool) (h : SPQ Q st) :
    SPQ Q { st.retarget distr with epochCoins := ec, ecEmpty := b } := by
  have : st.retarget distr = st := by unfold Stream.retarget; simp [h.1]
  rw [this]; exact h

theorem startStreams_tr : ∀ (l : List Stream) (s s' : State), startStreams l s = .ok s' →
    s'.gauges = s.gauges ∧ ∀ Q : Nat → Prop, (∀ x ∈ s.streams, SPQ Q x) → (∀ v ∈ l, SPQ Q v) → ∀ x ∈ s'.streams, SPQ Q x := by
  intro l
  induction l with
  | nil => intro s s' h; simp only [startStreams, Except.ok.injEq] at h; rw [← h]; exact ⟨rfl, fun _ hq _ => hq⟩
  | cons st rest ih =>
    intro s s' h
    unfold startStreams at h
    cases hsub : Coins.sub? st.coins st.distributed with
    | none => simp [hsub] at h
    | some remain =>
      simp only [hsub] at h
      by_cases hz : st.numEpochs - st.filled = 0
      · simp [hz] at h
      · simp only [hz, if_false] at h
        obtain ⟨a1, a2⟩ := ih _ s' h
        refine ⟨a1, fun Q hq hl => a2 Q ?_ (fun v hv => hl v (List.mem_cons_of_mem _ hv))⟩
        exact allS_setStream (SPQ Q) s _ (SPQ_start Q st s.distr _ _ (hl st List.mem_cons_self)) hq

theorem streamerBeforeEpochStart_tr (s : State) (e : Nat) (s' : State) (h : streamerBeforeEpochStart s e = .ok s') : Tr s s' := by
  unfold streamerBeforeEpochStart at h
  cases ha : activateDue (upcomingStreams s) s with
  | error x => simp [ha] at h
  | ok s1 =>
    simp only [ha] at h
    obtain ⟨f1, f2⟩ := activateDue_frame2 _ _ _ ha
    obtain ⟨a1, a2⟩ := startStreams_tr _ _ _ h
    refine ⟨by rw [a1, f2], fun Q hq => a2 Q (by rw [f1]; exact hq) ?_⟩
    intro v hv
    have := mem_activeStreamsFor_streams s1 e v hv
    rw [f1] at this
    exact hq v this

theorem applyHook_tr (f : State → Res) (s : State) (hf : ∀ s', f s = .ok s' → Tr s s') : Tr s (applyHook f s) := by
  unfold applyHook
  cases h : f s with
  | ok s' => exact hf s' h
  | error _ => exact Tr.refl s

theorem epochTick_tr (s : State) (e : Nat) (hi : IdsT (gstat s.gauges)) : Tr s (epochTick s e) := by
  unfold epochTick
  split
  · exact Tr.refl s
  · next ep _ =>
    split
    · exact Tr.refl s
    · dsimp only
      split
      · exact Tr.refl s
      · split
        · exact applyHook_tr _ _ (fun s' h => streamerBeforeEpochStart_tr _ e s' h)
        · have t1 : Tr s (applyHook (fun x => streamerAfterEpochEnd x e) s) :=
            applyHook_tr _ _ (fun s' h => streamerAfterEpochEnd_tr s e s' hi h)
          have t2 := applyHook_tr (fun x => incAfterEpochEnd x e) _ (fun s' h => incAfterEpochEnd_tr _ e s' (t1.idsT hi) h)
          have t12 := t1.trans t2
          refine t12.trans ?_
          exact applyHook_tr _ _ (fun s' h => streamerBeforeEpochStart_tr _ e s' h)

theorem beginBlock_tr (s : State) (dt : Nat) (hi : IdsT (gstat s.gauges)) : Tr s (beginBlock s dt) := by
  unfold beginBlock
  have t0 : Tr s { s with now := s.now + dt } := ⟨rfl, fun _ h => h⟩
  have t1 := epochTick_tr { s with now := s.now + dt } 0 hi
  have t2 := epochTick_tr _ 1 (t1.idsT hi)
  have t3 := epochTick_tr _ 2 (t2.idsT (t1.idsT hi))
  exact t0.trans (t1.trans (t2.trans t3))

/-! ### the invariant and the messages -/

/-- gauge id `id` names a slot of the table holding a perpetual gauge -/
def NamedT (t : List (Nat × Bool)) (id : Nat) : Prop := id ≠ 0 ∧ ∃ p, t[id - 1]? = some p ∧ p.2 = true

/-- every stored stream is not sponsored and names perpetual gauges only -/
def NamedS (s : State) : Prop := ∀ st ∈ s.streams, SPQ (NamedT (gstat s.gauges)) st

theorem NamedT_append (t l : List (Nat × Bool)) (id : Nat) (h : NamedT t id) : NamedT (t ++ l) id := by
  obtain ⟨h0, p, hp, hb⟩ := h
  refine ⟨h0, p, ?_, hb⟩
  have hlt : id - 1 < t.length := (List.getElem?_eq_some_iff.1 hp).1
  rw [List.getElem?_append_left hlt]; exact hp

theorem SPQ_mono {Q Q' : Nat → Prop} (h : ∀ id, Q id → Q' id) (st : Stream) (hs : SPQ Q st) : SPQ Q' st :=
  ⟨hs.1, fun r hr => h _ (hs.2 r hr)⟩

theorem NamedS_of_tr {s s' : State} (h : NamedS s) (ht : Tr s s') : NamedS s' := by
  intro st hst
  have := ht.2 _ h st hst
  rw [ht.1]; exact this

/-- gauges appended (or the table's static part unchanged: `l = []`), streams untouched -/
theorem NamedS_of_ext {s s' : State} (h : NamedS s) (l : List (Nat × Bool)) (hg : gstat s'.gauges = gstat s.gauges ++ l)
    (hs : s'.streams = s.streams) : NamedS s' := by
  intro st hst
  rw [hs] at hst
  rw [hg]
  exact SPQ_mono (fun id hid => NamedT_append _ l id hid) st (h st hst)

theorem NamedS_same {s s' : State} (h : NamedS s) (hg : s'.gauges = s.gauges) (hs : s'.streams = s.streams) : NamedS s' :=
  NamedS_of_ext h [] (by rw [hg]; simp) hs

/-- a perpetual gauge is never finished -/
theorem perpetual_not_finished (g : Gauge) (now : Nat) (h : g.perpetual = true) : g.isFinished now = false := by
  unfold Gauge.isFinished
  rw [h]
  by_cases hn : now < g.start
  · simp [hn]
  · have : g.start ≤ now := by omega
    simp [hn, this]

theorem liveRec_of_named (s : State) (r : Rec) (h : NamedT (gstat s.gauges) r.gauge) : LiveRec s r := by
  obtain ⟨h0, p, hp, hb⟩ := h
  unfold gstat at hp
  rw [List.getElem?_map] at hp
  cases hg : s.gauges[r.gauge - 1]? with
  | none => simp [hg] at hp
  | some g =>
    simp only [hg, Option.map_some, Option.some.injEq] at hp
    refine ⟨g, ?_, perpetual_not_finished g s.now ?_⟩
    · unfold getGauge; rw [if_neg h0]; exact hg
    · rw [← hp] at hb; exact hb

/-- **the invariant gives `LiveS`** -/
theorem liveS_of_named (s : State) (h : NamedS s) : LiveS s := by
  intro st hst r hr
  exact liveRec_of_named s r ((h st (mem_streamsOf hst)).2 r hr)

theorem validateRecs_named (s : State) : ∀ (rs : List Rec) (last : Nat) (seen : List Nat), validateRecs s rs last seen = true →
    ∀ r ∈ rs, NamedT (gstat s.gauges) r.gauge := by
  intro rs
  induction rs with
  | nil => intro _ _ _ r hr; simp at hr
  | cons x xs ih =>
    intro last seen h r hr
    unfold validateRecs at h
    split at h
    · simp at h
    · split at h
      · simp at h
      · cases hg : getGauge s x.gauge with
        | none => simp [hg] at h
        | some g =>
          simp only [hg] at h
          by_cases hp : g.perpetual = true
          · simp only [hp, Bool.not_true, Bool.false_eq_true, if_false] at h
            rcases List.mem_cons.1 hr with h1 | h1
            · rw [h1]
              unfold getGauge at hg
              split at hg
              · simp at hg
              · next h0 =>
                refine ⟨h0, (g.id, g.perpetual), ?_, hp⟩
                unfold gstat; rw [List.getElem?_map, hg]; rfl
            · exact ih _ _ h r h1
          · have : g.perpetual = false := by simpa using hp
            simp [this] at h

/-- no sponsored stream is created (its records would be the unvalidated sponsorship distribution) -/
def Op.notSponsored : Op → Prop
  | .createStream sp _ _ _ _ _ => sp = false
  | _ => True

instance (op : Op) : Decidable op.notSponsored := by
  cases op <;> (unfold Op.notSponsored; infer_instance)

theorem createGauge_ext (s : State) (o : Nat) (p : Bool) (d du : Nat) (hs : Bool) (c : Coins) (st n : Nat) :
    (∃ l, gstat (createGauge s o p d du hs c st n).2.gauges = gstat s.gauges ++ l) ∧
    (createGauge s o p d du hs c st n).2.streams = s.streams := by
  unfold createGauge
  split
  · exact ⟨⟨[], by simp⟩, rfl⟩
  · split
    · exact ⟨⟨[], by simp⟩, rfl⟩
    · split
      · exact ⟨⟨[], by simp⟩, rfl⟩
      · split
        · exact ⟨⟨[], by simp⟩, rfl⟩
        · refine ⟨⟨[(s.gauges.length + 1, p)], ?_⟩, rfl⟩
          simp [gstat]

theorem poolGaugesLoop_ext (denom : Nat) (hs : Bool) : ∀ (ds : List Nat) (s : State),
    (∃ l, gstat (poolGaugesLoop denom hs ds s).2.gauges = gstat s.gauges ++ l) ∧
    (poolGaugesLoop denom hs ds s).2.streams = s.streams := by
  intro ds
  induction ds with
  | nil => intro s; exact ⟨⟨[], by simp [poolGaugesLoop]⟩, rfl⟩
  | cons d rest ih =>
    intro s
    unfold poolGaugesLoop
    obtain ⟨⟨l1, e1⟩, e2⟩ := createGauge_ext s streamerAddr true denom d hs [] s.now 1
    generalize createGauge s streamerAddr true denom d hs [] s.now 1 = res at e1 e2
    obtain ⟨o, s1⟩ := res
    cases o with
    | ok =>
      simp only
      obtain ⟨⟨l2, f1⟩, f2⟩ := ih s1
      exact ⟨⟨l1 ++ l2, by rw [f1, e1, List.append_assoc]⟩, by rw [f2, e2]⟩
    | invalid => exact ⟨⟨l1, e1⟩, e2⟩
    | err => exact ⟨⟨l1, e1⟩, e2⟩
    | panic => exact ⟨⟨l1, e1⟩, e2⟩
    | halt => exact ⟨⟨l1, e1⟩, e2⟩

theorem addToGauge_named (s : State) (hi : IdsT (gstat s.gauges)) (o gid : Nat) (c : Coins) (h : NamedS s) :
    NamedS (addToGauge s o gid c).2 := by
  unfold addToGauge
  split
  · exact h
  · cases hg : getGauge s gid with
    | none => exact h
    | some g =>
      simp only
      split
      · exact h
      · cases hb : s.bank.send o incAddr c with
        | none => exact h
        | some b =>
          simp only
          have hw : Wst (gstat s.gauges) g := wst_store s.gauges hi gid g hg
          have he : gstat (setGauge { s with bank := b } { g with coins := Coins.add g.coins c }).gauges = gstat s.gauges :=
            gstat_set s.gauges g _ hw rfl rfl
          exact NamedS_of_ext h [] (by rw [he]; simp) rfl

theorem createStream_named (s : State) (c : Coins) (rs : List Rec) (st e n : Nat) (h : NamedS s) :
    NamedS (createStream s false c rs st e n).2 := by
  unfold createStream
  split
  · exact h
  · split
    · exact h
    · next hv =>
      split
      · exact h
      · cases hm : moduleToDistribute s with
        | none => exact h
        | some alloc =>
          simp only
          cases hf : Coins.sub? (s.bank.get streamerAddr) alloc with
          | none => exact h
          | some free =>
            simp only
            split
            · exact h
            · split
              · exact h
              · cases hu : Refs.add s.upcoming (if st < s.now then s.now else st) (s.streams.length + 1) with
                | none => exact h
                | some u =>
                  simp only
                  have hval : validateRecs s rs 0 [] = true := by simpa using hv
                  intro x hx
                  rcases List.mem_append.1 hx with h1 | h1
                  · exact h x h1
                  · have : x = _ := List.mem_singleton.1 h1
                    rw [this]
                    exact ⟨rfl, fun r hr => validateRecs_named s rs 0 [] hval r (by simpa using hr)⟩

theorem terminateStream_named (s : State) (id : Nat) (h : NamedS s) : NamedS (terminateStream s id).2 := by
  unfold terminateStream
  cases hg : getStream s id with
  | none => exact h
  | some st =>
    simp only
    split
    · exact h
    · cases hm : moveToFinished s (st.isActive s.now) st with
      | none => exact h
      | some s' =>
        simp only
        unfold moveToFinished at hm
        cases hd : Refs.del (if st.isActive s.now = true then s.active else s.upcoming) st.start st.id with
        | none => simp [hd] at hm
        | some r =>
          simp only [hd] at hm
          cases ha : Refs.add s.finished st.start st.id with
          | none => simp [ha] at hm
          | some f =>
            simp only [ha] at hm
            split at hm
            · simp only [Option.some.injEq] at hm; rw [← hm]; exact h
            · simp only [Option.some.injEq] at hm; rw [← hm]; exact h

/-- **one step keeps the invariant** -/
theorem step_named (s : State) (op : Op) (hi : IdsT (gstat s.gauges)) (h : NamedS s) (hr : op.noRetarget) (hn : op.notSponsored) :
    NamedS (step s op).2 := by
  unfold step
  split
  · exact h
  · cases op with
    | begin dt => exact NamedS_of_tr h (beginBlock_tr s dt hi)
    | end_ =>
      simp only
      cases he : streamerEndBlock s with
      | ok s' => exact NamedS_of_tr h (endBlock_tr s s' hi he)
      | error e => exact h
    | setMaxIter n => exact h
    | fund a c => exact h
    | locks ls => exact h
    | rollapp r o l => exact h
    | rollappGauge r =>
      simp only
      unfold createRollappGauge
      cases hra : s.rollapps[r]? with
      | none => exact h
      | some ra =>
        simp only
        split
        · exact h
        · exact NamedS_of_ext h [(s.gauges.length + 1, true)] (by simp [gstat]) rfl
    | createGauge o p d du hs c st n =>
      obtain ⟨⟨l, e1⟩, e2⟩ := createGauge_ext s o p d du hs c st n
      exact NamedS_of_ext h l e1 e2
    | addToGauge o g c => exact addToGauge_named s hi o g c h
    | createStream sp c rs st e n =>
      have : sp = false := hn
      subst this
      exact createStream_named s c rs st e n h
    | terminateStream id => exact terminateStream_named s id h
    | replaceDistr id rs => exact absurd hr (by unfold Op.noRetarget; exact fun x => x)
    | updateDistr id rs => exact absurd hr (by unfold Op.noRetarget; exact fun x => x)
    | distribution rs => exact h
    | poolGauges d hs =>
      obtain ⟨⟨l, e1⟩, e2⟩ := poolGaugesLoop_ext d hs lockableDurations s
      exact NamedS_of_ext h l e1 e2

theorem init_named (now mi : Nat) : NamedS (init now mi) := by
  intro st hst
  simp [init] at hst

/-- **the invariant along every admissible history without sponsored streams** -/
theorem run_named : ∀ (ops : List Op) (s : State), Inv s → NamedS s →
    (∀ op ∈ ops, op.wf ∧ op.wfS ∧ op.noRetarget) → (∀ op ∈ ops, op.notSponsored) →
    (run s ops).streams.length < maxU64 → NamedS (run s ops) := by
  intro ops
  induction ops with
  | nil => intro s _ h _ _ _; exact h
  | cons op rest ih =>
    intro s hi hn hw hns hlen
    unfold run at hlen ⊢
    obtain ⟨w1, w2, w3⟩ := hw op List.mem_cons_self
    have hw' : ∀ o ∈ rest, o.wf ∧ o.wfS ∧ o.noRetarget := fun o ho => hw o (List.mem_cons_of_mem _ ho)
    have hst := step_sstep s op hi.ginv hi.struct w1 w2
    have hg1 := step_ginv s op hi.ginv w1
    have hm := (run_struct_mono rest _ hg1 hst.struct (fun o ho => ⟨(hw' o ho).1, (hw' o ho).2.1⟩)).2
    have hl1 : (step s op).2.streams.length < maxU64 := Nat.lt_of_le_of_lt hm.1 hlen
    exact ih _ (step_inv s op hi w1 w2 w3 hl1)
      (step_named s op (idsT_of_idsOK _ hi.ginv.ids) hn w3 (hns op List.mem_cons_self)) hw'
      (fun o ho => hns o (List.mem_cons_of_mem _ ho)) hlen

end DymVerif.Incent
