import DymVerif.Lemmas.LCInv
import DymVerif.Lemmas.GenesisStores
/-
  Lemmas/GenesisLinkLC — x/lightclient: C18's store invariant `LcInv` PROVED for the projection
  `toLcState` of every reachable state of M-LC (Model/LC).  M-LC keeps the two canonical-client
  sections and the two signer sections as association lists (first match wins); the projection
  rebuilds each as a KV section with `importWith` over the list's first entries per key, so
  sortedness holds by construction, and `LcInv.inv` (the two canonical sections are inverse to each
  other) is M-LC's `MapsInv` (`run_mapsInv`, C09).
-/
namespace DymVerif.GenesisLink
open DymVerif DymVerif.Genesis

/-! ### first entry per key of an association list -/

section firsts
variable {α κ : Type} [DecidableEq κ]

/-- the entries a first-match lookup can return: the first entry of every key -/
def firstsBy (key : α → κ) : List α → List α
  | [] => []
  | x :: xs => x :: (firstsBy key xs).filter (fun y => decide (key y ≠ key x))

theorem firstsBy_nodup (key : α → κ) : ∀ l : List α, ((firstsBy key l).map key).Nodup
  | [] => List.nodup_nil
  | a :: l => by
    simp only [firstsBy, List.map_cons, List.nodup_cons]
    refine ⟨?_, ?_⟩
    · intro h
      obtain ⟨y, hy, e⟩ := List.mem_map.1 h
      have := (List.mem_filter.1 hy).2
      simp only [decide_eq_true_eq] at this
      exact this e
    · exact List.Nodup.sublist (List.Sublist.map key List.filter_sublist) (firstsBy_nodup key l)

end firsts

theorem lookup_cons (a : Nat × Nat) (l : List (Nat × Nat)) (k : Nat) :
    LC.lookup (a :: l) k = if a.1 = k then some a.2 else LC.lookup l k := by
  unfold LC.lookup
  rw [List.find?_cons]
  by_cases h : a.1 = k
  · simp [h]
  · have hb : (a.1 == k) = false := by simp [h]
    rw [hb, if_neg h]

/-- the first entries of an association list are exactly what `lookup` answers -/
theorem mem_firstsBy_assoc : ∀ (l : List (Nat × Nat)) (e : Nat × Nat),
    e ∈ firstsBy (fun x : Nat × Nat => ([x.1] : Bytes)) l ↔ LC.lookup l e.1 = some e.2
  | [], e => by
    constructor
    · intro h; cases h
    · intro h; simp [LC.lookup] at h
  | a :: l, e => by
    rw [lookup_cons]
    simp only [firstsBy, List.mem_cons, List.mem_filter, decide_eq_true_eq]
    by_cases h : a.1 = e.1
    · rw [if_pos h]
      constructor
      · rintro (rfl | ⟨_, hne⟩)
        · rfl
        · exact absurd (by rw [h]) hne
      · intro he
        left
        injection he with he
        exact Prod.ext h.symm he.symm
    · rw [if_neg h]
      constructor
      · rintro (rfl | ⟨hm, _⟩)
        · exact absurd rfl h
        · exact (mem_firstsBy_assoc l e).1 hm
      · intro hl
        right
        refine ⟨(mem_firstsBy_assoc l e).2 hl, ?_⟩
        intro hc
        injection hc with hc
        exact h hc.symm

/-! ### the projection -/

/-- an association list of ids as a KV section over one-byte-string ids -/
def kvOfAssoc (l : List (Nat × Nat)) : KV Bytes Bytes :=
  importWith lexLt (fun e : Nat × Nat => ([e.1] : Bytes)) (fun e => ([e.2] : Bytes))
    (firstsBy (fun x : Nat × Nat => ([x.1] : Bytes)) l)

def signerKeyOf (e : Nat × Nat × Nat) : SignerKey := ([e.1], [e.2.1], e.2.2)
def chKeyOf (e : Nat × Nat × Nat) : Bytes × Nat := ([e.1], e.2.1)

/-- M-LC's light-client sections as C18's `LcState` -/
def toLcState (s : LC.St) : LcState :=
  { r2c := kvOfAssoc s.r2c,
    c2r := kvOfAssoc s.c2r,
    signers := importWith ltSigner signerKeyOf (fun _ => ()) (firstsBy signerKeyOf s.signerSet),
    h2s := importWith ltCH chKeyOf (fun e => ([e.2.2] : Bytes)) (firstsBy chKeyOf s.signerMap) }

theorem sorted_kvOfAssoc (l : List (Nat × Nat)) : Sorted lexLt (kvOfAssoc l) :=
  sorted_importWith soBytes _ _ _ (firstsBy_nodup _ l)

theorem mem_kvOfAssoc (l : List (Nat × Nat)) (e : Bytes × Bytes) :
    e ∈ kvOfAssoc l ↔ ∃ a b, LC.lookup l a = some b ∧ e = ([a], [b]) := by
  unfold kvOfAssoc
  rw [mem_importWith soBytes _ _ _ (firstsBy_nodup _ l)]
  constructor
  · rintro ⟨x, hx, rfl⟩
    exact ⟨x.1, x.2, (mem_firstsBy_assoc l x).1 hx, rfl⟩
  · rintro ⟨a, b, hl, rfl⟩
    exact ⟨(a, b), (mem_firstsBy_assoc l (a, b)).2 hl, rfl⟩

/-- **`LcInv` from `MapsInv`** -/
theorem lcInv_of_mapsInv {s : LC.St} (h : LC.MapsInv s) : LcInv (toLcState s) where
  sr := sorted_kvOfAssoc s.r2c
  sc := sorted_kvOfAssoc s.c2r
  inv := by
    intro c r
    show (c, r) ∈ kvOfAssoc s.c2r ↔ (r, c) ∈ kvOfAssoc s.r2c
    rw [mem_kvOfAssoc, mem_kvOfAssoc]
    constructor
    · rintro ⟨a, b, hl, e⟩
      injection e with e1 e2
      exact ⟨b, a, h.c2r_r2c a b hl, by rw [e1, e2]⟩
    · rintro ⟨a, b, hl, e⟩
      injection e with e1 e2
      exact ⟨b, a, h.r2c_c2r a b hl, by rw [e1, e2]⟩
  ne := by
    intro e he
    obtain ⟨a, b, _, rfl⟩ := (mem_kvOfAssoc s.r2c e).1 he
    exact ⟨by simp, by simp⟩
  ss := sorted_importWith (soPair soBytes (soPair soBytes soNat)) _ _ _ (firstsBy_nodup _ s.signerSet)
  sh := sorted_importWith (soPair soBytes soNat) _ _ _ (firstsBy_nodup _ s.signerMap)

/-- … in every reachable state of M-LC -/
theorem lcInv_reachable (p : Core.Params) (ops : List LC.Op) : LcInv (toLcState (LC.run (LC.init p) ops)) :=
  lcInv_of_mapsInv (LC.run_mapsInv (LC.init_mapsInv p) ops)

end DymVerif.GenesisLink
