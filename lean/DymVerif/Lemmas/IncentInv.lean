/-
  Lemmas/IncentInv — the gauge-side invariant of M-Incent (ids, distributed ≤ coins, the incentives
  module account covers what gauges still owe) and its preservation by every operation; who is paid.
-/
import DymVerif.Lemmas.IncentBasic
namespace DymVerif.Incent
open DymVerif Coins

/-! ### tracker sums -/

def trSum (tr : Tracker) (i : Nat) : Nat := (tr.map (fun p => amt p.2 i)).sum

theorem trSum_addReward (tr : Tracker) (o : Nat) (c : Coins) (i : Nat) :
    trSum (tr.addReward o c) i = trSum tr i + amt c i := by
  induction tr with
  | nil => simp [Tracker.addReward, trSum]
  | cons p rest ih =>
    obtain ⟨o', c'⟩ := p
    unfold Tracker.addReward
    by_cases h : o' = o
    · simp only [h, if_true]
      simp only [trSum, List.map_cons, List.sum_cons, amt_add]
      omega
    · simp only [h, if_false]
      simp only [trSum, List.map_cons, List.sum_cons] at ih ⊢
      omega

theorem owners_addReward (tr : Tracker) (o : Nat) (c : Coins) (a : Nat)
    (h : a ∈ (tr.addReward o c).map (·.1)) : a = o ∨ a ∈ tr.map (·.1) := by
  induction tr with
  | nil => simp [Tracker.addReward] at h; exact Or.inl h
  | cons p rest ih =>
    obtain ⟨o', c'⟩ := p
    unfold Tracker.addReward at h
    by_cases hh : o' = o
    · simp only [hh, if_true, List.map_cons, List.mem_cons] at h
      rcases h with h | h
      · exact Or.inl h
      · right; simp only [List.map_cons, List.mem_cons]; exact Or.inr h
    · simp only [hh, if_false, List.map_cons, List.mem_cons] at h
      rcases h with h | h
      · right; simp only [List.map_cons, List.mem_cons]; exact Or.inl h
      · rcases ih h with h2 | h2
        · exact Or.inl h2
        · right; simp only [List.map_cons, List.mem_cons]; exact Or.inr h2

/-! ### one gauge's payout -/

theorem amt_lockReward (remain : Coins) (l L re i : Nat) :
    amt (lockReward remain l L re) i = lockShare (amt remain i) l L re := by
  unfold lockReward
  rw [amt_map _ (by simp [lockShare])]

theorem assetLoop_spec (remain : Coins) (L re : Nat) (i : Nat) :
    ∀ (ls : List Lock) (tr : Tracker) (tot : Coins) (tr' : Tracker) (tot' : Coins),
      assetLoop remain L re ls tr tot = (tr', tot') →
      trSum tr' i + amt tot i = trSum tr i + amt tot' i ∧
      amt tot' i = amt tot i + (ls.map (fun l => lockShare (amt remain i) l.amount L re)).sum ∧
      (∀ a, a ∈ tr'.map (·.1) → a ∈ tr.map (·.1) ∨ ∃ l ∈ ls, l.owner = a) := by
  intro ls
  induction ls with
  | nil =>
    intro tr tot tr' tot' h
    simp only [assetLoop, Prod.mk.injEq] at h
    obtain ⟨h1, h2⟩ := h
    subst h1; subst h2
    exact ⟨rfl, by simp, fun a ha => Or.inl ha⟩
  | cons l rest ih =>
    intro tr tot tr' tot' h
    unfold assetLoop at h
    simp only at h
    by_cases hz : (lockReward remain l.amount L re).isZero = true
    · simp only [hz, if_true] at h
      have ⟨a, b, c⟩ := ih _ _ _ _ h
      have h0 : lockShare (amt remain i) l.amount L re = 0 := by
        rw [← amt_lockReward]; exact (isZero_iff _).1 hz i
      refine ⟨a, by simp only [List.map_cons, List.sum_cons, h0]; omega, ?_⟩
      intro x hx
      rcases c x hx with h1 | ⟨l', h2, h3⟩
      · exact Or.inl h1
      · exact Or.inr ⟨l', List.mem_cons_of_mem _ h2, h3⟩
    · simp only [hz] at h
      have ⟨a, b, c⟩ := ih _ _ _ _ h
      rw [trSum_addReward, amt_lockReward] at a
      rw [amt_add, amt_lockReward] at a b
      refine ⟨by omega, by simp only [List.map_cons, List.sum_cons]; omega, ?_⟩
      intro x hx
      rcases c x hx with h1 | ⟨l', h2, h3⟩
      · rcases owners_addReward _ _ _ _ h1 with h4 | h4
        · exact Or.inr ⟨l, List.mem_cons_self, h4.symm⟩
        · exact Or.inl h4
      · exact Or.inr ⟨l', List.mem_cons_of_mem _ h2, h3⟩

/-- `calculateAssetGaugeRewards`: pays at most the remainder, the tracker grows by exactly what is paid,
    and only owners of the given locks are added -/
theorem calcAsset_spec (g : Gauge) (locks : List Lock) (tr tr' : Tracker) (c : Coins)
    (h : calcAsset g locks tr = some (tr', c)) :
    (∀ i, amt c i + amt g.distributed i ≤ amt g.coins i ∨ (amt c i = 0)) ∧
    (∀ i, trSum tr' i = trSum tr i + amt c i) ∧
    (∀ a, a ∈ tr'.map (·.1) → a ∈ tr.map (·.1) ∨ ∃ l ∈ locks, l.owner = a) := by
  unfold calcAsset at h
  by_cases hL : lockSum locks = 0
  · simp only [hL, if_true, Option.some.injEq, Prod.mk.injEq] at h
    obtain ⟨h1, h2⟩ := h; subst h1; subst h2
    exact ⟨fun i => Or.inr (by simp), fun i => by simp, fun a ha => Or.inl ha⟩
  · simp only [hL, if_false] at h
    cases hs : Coins.sub? g.coins g.distributed with
    | none => simp [hs] at h
    | some remain =>
      simp only [hs] at h
      obtain ⟨hr, hle⟩ := sub?_some hs
      by_cases hre : remainEpochs g = 0
      · simp only [hre, if_true, Option.some.injEq, Prod.mk.injEq] at h
        obtain ⟨h1, h2⟩ := h; subst h1; subst h2
        exact ⟨fun i => Or.inr (by simp), fun i => by simp, fun a ha => Or.inl ha⟩
      · simp only [hre, if_false] at h
        by_cases hz : remain.isZero = true
        · simp only [hz, if_true, Option.some.injEq, Prod.mk.injEq] at h
          obtain ⟨h1, h2⟩ := h; subst h1; subst h2
          exact ⟨fun i => Or.inr (by simp), fun i => by simp, fun a ha => Or.inl ha⟩
        · rw [if_neg hz] at h
          simp only [Option.some.injEq] at h
          refine ⟨?_, ?_, ?_⟩
          · intro i
            have ⟨_, b, _⟩ := assetLoop_spec remain (lockSum locks) _ i locks tr [] tr' c h
            left
            have hb := lockShare_total_le (amt remain i) _ (Nat.pos_of_ne_zero hre) locks
            rw [hr, amt_sub] at hb
            have := hle i
            simp only [amt_nil, Nat.zero_add] at b
            rw [hr, amt_sub] at b
            omega
          · intro i
            have ⟨a, _, _⟩ := assetLoop_spec remain (lockSum locks) _ i locks tr [] tr' c h
            simp only [amt_nil, Nat.add_zero] at a
            omega
          · intro a ha
            exact (assetLoop_spec remain (lockSum locks) _ 0 locks tr [] tr' c h).2.2 a ha


/-- who a gauge may pay: owners of locks qualifying for an asset gauge, the owner of the (launched) rollapp -/
def LegitFor (locks : List Lock) (rollapps : List Rollapp) (k : GKind) (a : Nat) : Prop :=
  match k with
  | .asset d dur => ∃ l ∈ locks, l.owner = a ∧ qualifies d dur l = true
  | .rollapp r => ∃ ra, rollapps[r]? = some ra ∧ ra.exists_ = true ∧ ra.launched = true ∧ ra.owner = a

theorem calcRollapp_spec (s : State) (g : Gauge) (r : Nat) (tr tr' : Tracker) (c : Coins)
    (h : calcRollapp s g r tr = .ok tr' c) :
    (∀ i, amt c i + amt g.distributed i ≤ amt g.coins i ∨ amt c i = 0) ∧
    (∀ i, trSum tr' i = trSum tr i + amt c i) ∧
    (∀ a, a ∈ tr'.map (·.1) → a ∈ tr.map (·.1) ∨
      ∃ ra, s.rollapps[r]? = some ra ∧ ra.exists_ = true ∧ ra.launched = true ∧ ra.owner = a) := by
  unfold calcRollapp at h
  cases hr : s.rollapps[r]? with
  | none => simp [hr] at h
  | some ra =>
    simp only [hr] at h
    by_cases he : ra.exists_ = true
    · simp only [he, Bool.not_true, Bool.false_eq_true, if_false] at h
      by_cases hl : ra.launched = true
      · simp only [hl, Bool.not_true, Bool.false_eq_true, if_false] at h
        cases hs : Coins.sub? g.coins g.distributed with
        | none => simp [hs] at h
        | some total =>
          simp only [hs] at h
          obtain ⟨ht, hle⟩ := sub?_some hs
          by_cases hz : total.isZero = true
          · simp only [hz, if_true, CalcRes.ok.injEq] at h
            obtain ⟨h1, h2⟩ := h; subst h1; subst h2
            exact ⟨fun i => Or.inr (by simp), fun i => by simp, fun a ha => Or.inl ha⟩
          · rw [if_neg hz] at h
            simp only [CalcRes.ok.injEq] at h
            obtain ⟨h1, h2⟩ := h; subst h1; subst h2
            refine ⟨?_, ?_, ?_⟩
            · intro i; left; rw [ht, amt_sub]; have := hle i; omega
            · intro i; exact trSum_addReward _ _ _ _
            · intro a ha
              rcases owners_addReward _ _ _ _ ha with h4 | h4
              · exact Or.inr ⟨ra, rfl, he, hl, h4.symm⟩
              · exact Or.inl h4
      · have hl' : ra.launched = false := by simpa using hl
        simp only [hl', Bool.not_false, if_true, CalcRes.ok.injEq] at h
        obtain ⟨h1, h2⟩ := h; subst h1; subst h2
        exact ⟨fun i => Or.inr (by simp), fun i => by simp, fun a ha => Or.inl ha⟩
    · have he' : ra.exists_ = false := by simpa using he
      simp [he'] at h

theorem calcGauge_spec (s : State) (g : Gauge) (tr tr' : Tracker) (c : Coins)
    (h : calcGauge s g tr = .ok tr' c) :
    (∀ i, amt c i + amt g.distributed i ≤ amt g.coins i ∨ amt c i = 0) ∧
    (∀ i, trSum tr' i = trSum tr i + amt c i) ∧
    (∀ a, a ∈ tr'.map (·.1) → a ∈ tr.map (·.1) ∨ LegitFor s.locks s.rollapps g.kind a) := by
  unfold calcGauge at h
  cases hk : g.kind with
  | asset d dur =>
    simp only [hk] at h
    cases hc : calcAsset g (gaugeLocks s g) tr with
    | none => simp [hc] at h
    | some p =>
      obtain ⟨t2, c2⟩ := p
      simp only [hc, CalcRes.ok.injEq] at h
      obtain ⟨h1, h2⟩ := h; subst h1; subst h2
      have ⟨a, b, cc⟩ := calcAsset_spec g _ tr _ _ hc
      refine ⟨a, b, ?_⟩
      intro x hx
      rcases cc x hx with h3 | ⟨l, hl, ho⟩
      · exact Or.inl h3
      · right
        unfold LegitFor
        simp only
        unfold gaugeLocks at hl
        simp only [hk] at hl
        by_cases hz : g.coins.isZero = true
        · simp [hz] at hl
        · rw [if_neg hz] at hl
          have := List.mem_filter.1 hl
          exact ⟨l, this.1, ho, this.2⟩
  | rollapp r =>
    simp only [hk] at h
    have ⟨a, b, cc⟩ := calcRollapp_spec s g r tr tr' c h
    refine ⟨a, b, ?_⟩
    intro x hx
    rcases cc x hx with h3 | h3
    · exact Or.inl h3
    · right; unfold LegitFor; simp only; exact h3


/-! ### the gauge store -/

def getG (gs : List Gauge) (id : Nat) : Option Gauge := if id = 0 then none else gs[id - 1]?
theorem getGauge_eq (s : State) (id : Nat) : getGauge s id = getG s.gauges id := rfl

def IdsOK (gs : List Gauge) : Prop := ∀ k (h : k < gs.length), gs[k].id = k + 1
def Bounded (gs : List Gauge) : Prop := ∀ g ∈ gs, ∀ i, amt g.distributed i ≤ amt g.coins i
def owedG (g : Gauge) (i : Nat) : Nat := amt g.coins i - amt g.distributed i
def owed (gs : List Gauge) (i : Nat) : Nat := (gs.map (owedG · i)).sum

/-- a passed gauge value is a copy of the stored gauge, possibly with more coins (the streamer's cache) -/
def Coh (gs : List Gauge) (g : Gauge) : Prop :=
  ∃ g0, getG gs g.id = some g0 ∧ g.distributed = g0.distributed ∧ g.kind = g0.kind ∧ ∀ i, amt g0.coins i ≤ amt g.coins i

def storedCoins (gs : List Gauge) (id : Nat) (i : Nat) : Nat :=
  match getG gs id with
  | some g0 => amt g0.coins i
  | none => 0

def extra (gs : List Gauge) (g : Gauge) (i : Nat) : Nat := amt g.coins i - storedCoins gs g.id i
def extras (gs : List Gauge) (l : List Gauge) (i : Nat) : Nat := (l.map (extra gs · i)).sum

theorem getG_some {gs : List Gauge} (hid : IdsOK gs) {id : Nat} {g0 : Gauge} (h : getG gs id = some g0) :
    1 ≤ id ∧ ∃ hk : id - 1 < gs.length, gs[id - 1] = g0 ∧ g0.id = id ∧ g0 ∈ gs := by
  unfold getG at h
  by_cases h0 : id = 0
  · simp [h0] at h
  · rw [if_neg h0] at h
    obtain ⟨hk, he⟩ := List.getElem?_eq_some_iff.1 h
    refine ⟨by omega, hk, he, ?_, ?_⟩
    · rw [← he, hid _ hk]; omega
    · rw [← he]; exact List.getElem_mem hk

theorem sum_map_set {α : Type} (f : α → Nat) (l : List α) (k : Nat) (v : α) (hk : k < l.length) :
    ((l.set k v).map f).sum + f l[k] = (l.map f).sum + f v := by
  induction l generalizing k with
  | nil => simp at hk
  | cons x xs ih =>
    cases k with
    | zero => simp; omega
    | succ k =>
      have := ih k (by simpa using hk)
      simp only [List.set_cons_succ, List.map_cons, List.sum_cons, List.getElem_cons_succ]
      omega

theorem idsOK_set {gs : List Gauge} (hid : IdsOK gs) (k : Nat) (v : Gauge) (hv : v.id = k + 1) : IdsOK (gs.set k v) := by
  intro j hj
  rw [List.getElem_set]
  split
  · next h => rw [← h]; exact hv
  · exact hid j (by simpa using hj)

theorem bounded_set {gs : List Gauge} (hb : Bounded gs) (k : Nat) (v : Gauge)
    (hv : ∀ i, amt v.distributed i ≤ amt v.coins i) : Bounded (gs.set k v) := by
  intro g hg i
  rcases List.mem_or_eq_of_mem_set hg with h | h
  · exact hb g h i
  · rw [h]; exact hv i

theorem getG_set_ne (gs : List Gauge) (k : Nat) (v : Gauge) (id : Nat) (h : id ≠ k + 1) :
    getG (gs.set k v) id = getG gs id := by
  unfold getG
  by_cases h0 : id = 0
  · simp [h0]
  · simp only [h0, if_false]
    rw [List.getElem?_set_ne (by omega)]

theorem kinds_set (gs : List Gauge) (k : Nat) (v : Gauge) (hk : k < gs.length) (hv : v.kind = gs[k].kind) :
    (gs.set k v).map (·.kind) = gs.map (·.kind) := by
  rw [List.map_set]
  apply List.ext_getElem
  · simp
  · intro j h1 h2
    rw [List.getElem_set]
    split
    · next h => subst h; simp [hv]
    · rfl

/-! ### the gauge loop of `Keeper.Distribute` -/

theorem incLoop_spec (ee : Bool) : ∀ (gs : List Gauge) (s : State) (tr : Tracker) (s' : State) (tr' : Tracker),
    IdsOK s.gauges → Bounded s.gauges → (gs.map (·.id)).Nodup → (∀ g ∈ gs, Coh s.gauges g) →
    incLoop ee gs s tr = .ok (s', tr') →
    IdsOK s'.gauges ∧ Bounded s'.gauges ∧ s' = { s with gauges := s'.gauges } ∧
    s'.gauges.map (·.kind) = s.gauges.map (·.kind) ∧
    (∀ i, owed s'.gauges i + trSum tr' i ≤ owed s.gauges i + extras s.gauges gs i + trSum tr i) ∧
    (∀ a, a ∈ tr'.map (·.1) → a ∈ tr.map (·.1) ∨ ∃ g ∈ gs, LegitFor s.locks s.rollapps g.kind a) := by
  intro gs
  induction gs with
  | nil =>
    intro s tr s' tr' _ _ _ _ h
    simp only [incLoop, Except.ok.injEq, Prod.mk.injEq] at h
    obtain ⟨h1, h2⟩ := h; subst h1; subst h2
    refine ⟨by assumption, by assumption, rfl, rfl, ?_, fun a ha => Or.inl ha⟩
    intro i; simp [extras]
  | cons g rest ih =>
    intro s tr s' tr' hid hb hnd hcoh h
    unfold incLoop at h
    have hnd0 : (g.id :: rest.map (·.id)).Nodup := hnd
    have hnd' : (rest.map (·.id)).Nodup := (List.nodup_cons.1 hnd0).2
    have hgnot : ∀ x ∈ rest, x.id ≠ g.id := by
      intro x hx he
      have := (List.nodup_cons.1 hnd0).1
      exact this (by rw [← he]; exact List.mem_map_of_mem (f := (·.id)) hx)
    cases hc : calcGauge s g tr with
    | err => simp [hc] at h
    | panic => simp [hc] at h
    | ok t2 c =>
      simp only [hc] at h
      obtain ⟨c1, c2, c3⟩ := calcGauge_spec s g tr t2 c hc
      obtain ⟨g0, hg0, hd, hkind, hcoins⟩ := hcoh g List.mem_cons_self
      obtain ⟨hid1, hk, hget, hg0id, hg0mem⟩ := getG_some hid hg0
      by_cases hz : c.isZero = true
      · simp only [hz, if_true] at h
        obtain ⟨r1, r2, r3, r4, r5, r6⟩ := ih s t2 s' tr' hid hb hnd' (fun x hx => hcoh x (List.mem_cons_of_mem _ hx)) h
        refine ⟨r1, r2, r3, r4, ?_, ?_⟩
        · intro i
          have := r5 i
          have hz' := (isZero_iff c).1 hz i
          have := c2 i
          simp only [extras, List.map_cons, List.sum_cons] at *
          omega
        · intro a ha
          rcases r6 a ha with h1 | ⟨x, hx, hl⟩
          · rcases c3 a h1 with h2 | h2
            · exact Or.inl h2
            · exact Or.inr ⟨g, List.mem_cons_self, h2⟩
          · exact Or.inr ⟨x, List.mem_cons_of_mem _ hx, hl⟩
      · rw [if_neg hz] at h
        -- the written-back gauge
        have hbg0 := hb g0 hg0mem
        have hbound : ∀ i, amt (Coins.add g.distributed c) i ≤ amt g.coins i := by
          intro i
          rw [amt_add]
          rcases c1 i with h1 | h1
          · omega
          · have := hbg0 i; have := hcoins i; rw [hd]; omega
        have hsetid : g.id - 1 < s.gauges.length := hk
        let g' : Gauge := { g with filled := if ee then g.filled + 1 else g.filled, distributed := Coins.add g.distributed c }
        have hs1 : setGauge s g' = { s with gauges := s.gauges.set (g.id - 1) g' } := rfl
        have hid' : IdsOK (setGauge s g').gauges := by
          rw [hs1]; exact idsOK_set hid _ _ (by show g.id = g.id - 1 + 1; omega)
        have hb' : Bounded (setGauge s g').gauges := by
          rw [hs1]; exact bounded_set hb _ _ hbound
        have hcoh' : ∀ x ∈ rest, Coh (setGauge s g').gauges x := by
          intro x hx
          obtain ⟨x0, hx0, r⟩ := hcoh x (List.mem_cons_of_mem _ hx)
          refine ⟨x0, ?_, r⟩
          rw [hs1]; simp only
          rw [getG_set_ne _ _ _ _ (by have := hgnot x hx; omega)]
          exact hx0
        obtain ⟨r1, r2, r3, r4, r5, r6⟩ := ih (setGauge s g') t2 s' tr' hid' hb' hnd' hcoh' h
        refine ⟨r1, r2, ?_, ?_, ?_, ?_⟩
        · rw [r3, hs1]
        · rw [r4, hs1]; simp only
          exact kinds_set _ _ _ hk (by show g.kind = _; rw [hget]; exact hkind)
        · intro i
          have h5 := r5 i
          have hset := sum_map_set (owedG · i) s.gauges (g.id - 1) g' hk
          have hex : extras (setGauge s g').gauges rest i = extras s.gauges rest i := by
            unfold extras
            apply congrArg
            apply List.map_congr_left
            intro x hx
            unfold extra storedCoins
            rw [hs1]; simp only
            rw [getG_set_ne _ _ _ _ (by have := hgnot x hx; omega)]
          rw [hex] at h5
          have hs1g : (setGauge s g').gauges = s.gauges.set (g.id - 1) g' := rfl
          rw [hs1g] at h5
          have e1 : owedG s.gauges[g.id - 1] i = amt g0.coins i - amt g0.distributed i := by rw [hget]; rfl
          have e2 : owedG g' i = amt g.coins i - (amt g.distributed i + amt c i) := by
            show amt g.coins i - amt (Coins.add g.distributed c) i = _
            rw [amt_add]
          have e3 : extra s.gauges g i = amt g.coins i - amt g0.coins i := by
            unfold extra storedCoins; rw [hg0]
          have := c2 i
          have hbi := hbound i
          rw [amt_add] at hbi
          have := hbg0 i
          have := hcoins i
          have hdi : amt g.distributed i = amt g0.distributed i := by rw [hd]
          simp only [extras, List.map_cons, List.sum_cons] at *
          unfold owed at *
          omega
        · intro a ha
          rcases r6 a ha with h1 | ⟨x, hx, hl⟩
          · rcases c3 a h1 with h2 | h2
            · exact Or.inl h2
            · exact Or.inr ⟨g, List.mem_cons_self, h2⟩
          · exact Or.inr ⟨x, List.mem_cons_of_mem _ hx, hl⟩

end DymVerif.Incent
