/-
  Lemmas/IncentInv — the gauge-side invariant of M-Incent (ids, distributed ≤ coins, the incentives
  module account covers what gauges still owe) and its preservation by every operation; who is paid.
-/
import DymVerif.Lemmas.IncentBasic
namespace DymVerif.Incent
open DymVerif Coins

/-! ### tracker sums -/

def trSum (tr : Tracker) (i : Nat) : Nat := (tr.map (fun p => amt p.2 i)).sum

theorem trSum_addReward (tr : Tracker) (o : Nat) (c : Coins) (i : Nat) :
    trSum (tr.addReward o c) i = trSum tr i + amt c i := by
  induction tr with
  | nil => simp [Tracker.addReward, trSum]
  | cons p rest ih =>
    obtain ⟨o', c'⟩ := p
    unfold Tracker.addReward
    by_cases h : o' = o
    · simp only [h, if_true]
      simp only [trSum, List.map_cons, List.sum_cons, amt_add]
      omega
    · simp only [h, if_false]
      simp only [trSum, List.map_cons, List.sum_cons] at ih ⊢
      omega

theorem owners_addReward (tr : Tracker) (o : Nat) (c : Coins) (a : Nat)
    (h : a ∈ (tr.addReward o c).map (·.1)) : a = o ∨ a ∈ tr.map (·.1) := by
  induction tr with
  | nil => simp [Tracker.addReward] at h; exact Or.inl h
  | cons p rest ih =>
    obtain ⟨o', c'⟩ := p
    unfold Tracker.addReward at h
    by_cases hh : o' = o
    · simp only [hh, if_true, List.map_cons, List.mem_cons] at h
      rcases h with h | h
      · exact Or.inl h
      · right; simp only [List.map_cons, List.mem_cons]; exact Or.inr h
    · simp only [hh, if_false, List.map_cons, List.mem_cons] at h
      rcases h with h | h
      · right; simp only [List.map_cons, List.mem_cons]; exact Or.inl h
      · rcases ih h with h2 | h2
        · exact Or.inl h2
        · right; simp only [List.map_cons, List.mem_cons]; exact Or.inr h2

/-! ### one gauge's payout -/

theorem amt_lockReward (remain : Coins) (l L re i : Nat) :
    amt (lockReward remain l L re) i = lockShare (amt remain i) l L re := by
  unfold lockReward
  rw [amt_map _ (by simp [lockShare])]

theorem assetLoop_spec (remain : Coins) (L re : Nat) (i : Nat) :
    ∀ (ls : List Lock) (tr : Tracker) (tot : Coins) (tr' : Tracker) (tot' : Coins),
      assetLoop remain L re ls tr tot = (tr', tot') →
      trSum tr' i + amt tot i = trSum tr i + amt tot' i ∧
      amt tot' i = amt tot i + (ls.map (fun l => lockShare (amt remain i) l.amount L re)).sum ∧
      (∀ a, a ∈ tr'.map (·.1) → a ∈ tr.map (·.1) ∨ ∃ l ∈ ls, l.owner = a) := by
  intro ls
  induction ls with
  | nil =>
    intro tr tot tr' tot' h
    simp only [assetLoop, Prod.mk.injEq] at h
    obtain ⟨h1, h2⟩ := h
    subst h1; subst h2
    exact ⟨rfl, by simp, fun a ha => Or.inl ha⟩
  | cons l rest ih =>
    intro tr tot tr' tot' h
    unfold assetLoop at h
    simp only at h
    by_cases hz : (lockReward remain l.amount L re).isZero = true
    · simp only [hz, if_true] at h
      have ⟨a, b, c⟩ := ih _ _ _ _ h
      have h0 : lockShare (amt remain i) l.amount L re = 0 := by
        rw [← amt_lockReward]; exact (isZero_iff _).1 hz i
      refine ⟨a, by simp only [List.map_cons, List.sum_cons, h0]; omega, ?_⟩
      intro x hx
      rcases c x hx with h1 | ⟨l', h2, h3⟩
      · exact Or.inl h1
      · exact Or.inr ⟨l', List.mem_cons_of_mem _ h2, h3⟩
    · simp only [hz] at h
      have ⟨a, b, c⟩ := ih _ _ _ _ h
      rw [trSum_addReward, amt_lockReward] at a
      rw [amt_add, amt_lockReward] at a b
      refine ⟨by omega, by simp only [List.map_cons, List.sum_cons]; omega, ?_⟩
      intro x hx
      rcases c x hx with h1 | ⟨l', h2, h3⟩
      · rcases owners_addReward _ _ _ _ h1 with h4 | h4
        · exact Or.inr ⟨l, List.mem_cons_self, h4.symm⟩
        · exact Or.inl h4
      · exact Or.inr ⟨l', List.mem_cons_of_mem _ h2, h3⟩

/-- `calculateAssetGaugeRewards`: pays at most the remainder, the tracker grows by exactly what is paid,
    and only owners of the given locks are added -/
theorem calcAsset_spec (g : Gauge) (locks : List Lock) (tr tr' : Tracker) (c : Coins)
    (h : calcAsset g locks tr = some (tr', c)) :
    (∀ i, amt c i + amt g.distributed i ≤ amt g.coins i ∨ (amt c i = 0)) ∧
    (∀ i, trSum tr' i = trSum tr i + amt c i) ∧
    (∀ a, a ∈ tr'.map (·.1) → a ∈ tr.map (·.1) ∨ ∃ l ∈ locks, l.owner = a) := by
  unfold calcAsset at h
  by_cases hL : lockSum locks = 0
  · simp only [hL, if_true, Option.some.injEq, Prod.mk.injEq] at h
    obtain ⟨h1, h2⟩ := h; subst h1; subst h2
    exact ⟨fun i => Or.inr (by simp), fun i => by simp, fun a ha => Or.inl ha⟩
  · simp only [hL, if_false] at h
    cases hs : Coins.sub? g.coins g.distributed with
    | none => simp [hs] at h
    | some remain =>
      simp only [hs] at h
      obtain ⟨hr, hle⟩ := sub?_some hs
      by_cases hre : remainEpochs g = 0
      · simp only [hre, if_true, Option.some.injEq, Prod.mk.injEq] at h
        obtain ⟨h1, h2⟩ := h; subst h1; subst h2
        exact ⟨fun i => Or.inr (by simp), fun i => by simp, fun a ha => Or.inl ha⟩
      · simp only [hre, if_false] at h
        by_cases hz : remain.isZero = true
        · simp only [hz, if_true, Option.some.injEq, Prod.mk.injEq] at h
          obtain ⟨h1, h2⟩ := h; subst h1; subst h2
          exact ⟨fun i => Or.inr (by simp), fun i => by simp, fun a ha => Or.inl ha⟩
        · rw [if_neg hz] at h
          simp only [Option.some.injEq] at h
          refine ⟨?_, ?_, ?_⟩
          · intro i
            have ⟨_, b, _⟩ := assetLoop_spec remain (lockSum locks) _ i locks tr [] tr' c h
            left
            have hb := lockShare_total_le (amt remain i) _ (Nat.pos_of_ne_zero hre) locks
            rw [hr, amt_sub] at hb
            have := hle i
            simp only [amt_nil, Nat.zero_add] at b
            rw [hr, amt_sub] at b
            omega
          · intro i
            have ⟨a, _, _⟩ := assetLoop_spec remain (lockSum locks) _ i locks tr [] tr' c h
            simp only [amt_nil, Nat.add_zero] at a
            omega
          · intro a ha
            exact (assetLoop_spec remain (lockSum locks) _ 0 locks tr [] tr' c h).2.2 a ha


/-- who a gauge may pay: owners of locks qualifying for an asset gauge, the owner of the (launched) rollapp -/
def LegitFor (locks : List Lock) (rollapps : List Rollapp) (k : GKind) (a : Nat) : Prop :=
  match k with
  | .asset d dur => ∃ l ∈ locks, l.owner = a ∧ qualifies d dur l = true
  | .rollapp r => ∃ ra, rollapps[r]? = some ra ∧ ra.exists_ = true ∧ ra.launched = true ∧ ra.owner = a

theorem calcRollapp_spec (s : State) (g : Gauge) (r : Nat) (tr tr' : Tracker) (c : Coins)
    (h : calcRollapp s g r tr = .ok tr' c) :
    (∀ i, amt c i + amt g.distributed i ≤ amt g.coins i ∨ amt c i = 0) ∧
    (∀ i, trSum tr' i = trSum tr i + amt c i) ∧
    (∀ a, a ∈ tr'.map (·.1) → a ∈ tr.map (·.1) ∨
      ∃ ra, s.rollapps[r]? = some ra ∧ ra.exists_ = true ∧ ra.launched = true ∧ ra.owner = a) := by
  unfold calcRollapp at h
  cases hr : s.rollapps[r]? with
  | none => simp [hr] at h
  | some ra =>
    simp only [hr] at h
    by_cases he : ra.exists_ = true
    · simp only [he, Bool.not_true, Bool.false_eq_true, if_false] at h
      by_cases hl : ra.launched = true
      · simp only [hl, Bool.not_true, Bool.false_eq_true, if_false] at h
        cases hs : Coins.sub? g.coins g.distributed with
        | none => simp [hs] at h
        | some total =>
          simp only [hs] at h
          obtain ⟨ht, hle⟩ := sub?_some hs
          by_cases hz : total.isZero = true
          · simp only [hz, if_true, CalcRes.ok.injEq] at h
            obtain ⟨h1, h2⟩ := h; subst h1; subst h2
            exact ⟨fun i => Or.inr (by simp), fun i => by simp, fun a ha => Or.inl ha⟩
          · rw [if_neg hz] at h
            simp only [CalcRes.ok.injEq] at h
            obtain ⟨h1, h2⟩ := h; subst h1; subst h2
            refine ⟨?_, ?_, ?_⟩
            · intro i; left; rw [ht, amt_sub]; have := hle i; omega
            · intro i; exact trSum_addReward _ _ _ _
            · intro a ha
              rcases owners_addReward _ _ _ _ ha with h4 | h4
              · exact Or.inr ⟨ra, rfl, he, hl, h4.symm⟩
              · exact Or.inl h4
      · have hl' : ra.launched = false := by simpa using hl
        simp only [hl', Bool.not_false, if_true, CalcRes.ok.injEq] at h
        obtain ⟨h1, h2⟩ := h; subst h1; subst h2
        exact ⟨fun i => Or.inr (by simp), fun i => by simp, fun a ha => Or.inl ha⟩
    · have he' : ra.exists_ = false := by simpa using he
      simp [he'] at h

theorem calcGauge_spec (s : State) (g : Gauge) (tr tr' : Tracker) (c : Coins)
    (h : calcGauge s g tr = .ok tr' c) :
    (∀ i, amt c i + amt g.distributed i ≤ amt g.coins i ∨ amt c i = 0) ∧
    (∀ i, trSum tr' i = trSum tr i + amt c i) ∧
    (∀ a, a ∈ tr'.map (·.1) → a ∈ tr.map (·.1) ∨ LegitFor s.locks s.rollapps g.kind a) := by
  unfold calcGauge at h
  cases hk : g.kind with
  | asset d dur =>
    simp only [hk] at h
    cases hc : calcAsset g (gaugeLocks s g) tr with
    | none => simp [hc] at h
    | some p =>
      obtain ⟨t2, c2⟩ := p
      simp only [hc, CalcRes.ok.injEq] at h
      obtain ⟨h1, h2⟩ := h; subst h1; subst h2
      have ⟨a, b, cc⟩ := calcAsset_spec g _ tr _ _ hc
      refine ⟨a, b, ?_⟩
      intro x hx
      rcases cc x hx with h3 | ⟨l, hl, ho⟩
      · exact Or.inl h3
      · right
        unfold LegitFor
        simp only
        unfold gaugeLocks at hl
        simp only [hk] at hl
        by_cases hz : g.coins.isZero = true
        · simp [hz] at hl
        · rw [if_neg hz] at hl
          have := List.mem_filter.1 hl
          exact ⟨l, this.1, ho, this.2⟩
  | rollapp r =>
    simp only [hk] at h
    have ⟨a, b, cc⟩ := calcRollapp_spec s g r tr tr' c h
    refine ⟨a, b, ?_⟩
    intro x hx
    rcases cc x hx with h3 | h3
    · exact Or.inl h3
    · right; unfold LegitFor; simp only; exact h3


/-! ### the gauge store -/

def getG (gs : List Gauge) (id : Nat) : Option Gauge := if id = 0 then none else gs[id - 1]?
theorem getGauge_eq (s : State) (id : Nat) : getGauge s id = getG s.gauges id := rfl

def IdsOK (gs : List Gauge) : Prop := ∀ k (h : k < gs.length), gs[k].id = k + 1
def Bounded (gs : List Gauge) : Prop := ∀ g ∈ gs, ∀ i, amt g.distributed i ≤ amt g.coins i
def owedG (g : Gauge) (i : Nat) : Nat := amt g.coins i - amt g.distributed i
def owed (gs : List Gauge) (i : Nat) : Nat := (gs.map (owedG · i)).sum

/-- a passed gauge value is a copy of the stored gauge, possibly with more coins (the streamer's cache) -/
def Coh (gs : List Gauge) (g : Gauge) : Prop :=
  ∃ g0, getG gs g.id = some g0 ∧ g.distributed = g0.distributed ∧ g.kind = g0.kind ∧ ∀ i, amt g0.coins i ≤ amt g.coins i

def storedCoins (gs : List Gauge) (id : Nat) (i : Nat) : Nat :=
  match getG gs id with
  | some g0 => amt g0.coins i
  | none => 0

def extra (gs : List Gauge) (g : Gauge) (i : Nat) : Nat := amt g.coins i - storedCoins gs g.id i
def extras (gs : List Gauge) (l : List Gauge) (i : Nat) : Nat := (l.map (extra gs · i)).sum

theorem getG_some {gs : List Gauge} (hid : IdsOK gs) {id : Nat} {g0 : Gauge} (h : getG gs id = some g0) :
    1 ≤ id ∧ ∃ hk : id - 1 < gs.length, gs[id - 1] = g0 ∧ g0.id = id ∧ g0 ∈ gs := by
  unfold getG at h
  by_cases h0 : id = 0
  · simp [h0] at h
  · rw [if_neg h0] at h
    obtain ⟨hk, he⟩ := List.getElem?_eq_some_iff.1 h
    refine ⟨by omega, hk, he, ?_, ?_⟩
    · rw [← he, hid _ hk]; omega
    · rw [← he]; exact List.getElem_mem hk

theorem sum_map_set {α : Type} (f : α → Nat) (l : List α) (k : Nat) (v : α) (hk : k < l.length) :
    ((l.set k v).map f).sum + f l[k] = (l.map f).sum + f v := by
  induction l generalizing k with
  | nil => simp at hk
  | cons x xs ih =>
    cases k with
    | zero => simp; omega
    | succ k =>
      have := ih k (by simpa using hk)
      simp only [List.set_cons_succ, List.map_cons, List.sum_cons, List.getElem_cons_succ]
      omega

theorem idsOK_set {gs : List Gauge} (hid : IdsOK gs) (k : Nat) (v : Gauge) (hv : v.id = k + 1) : IdsOK (gs.set k v) := by
  intro j hj
  rw [List.getElem_set]
  split
  · next h => rw [← h]; exact hv
  · exact hid j (by simpa using hj)

theorem bounded_set {gs : List Gauge} (hb : Bounded gs) (k : Nat) (v : Gauge)
    (hv : ∀ i, amt v.distributed i ≤ amt v.coins i) : Bounded (gs.set k v) := by
  intro g hg i
  rcases List.mem_or_eq_of_mem_set hg with h | h
  · exact hb g h i
  · rw [h]; exact hv i

theorem getG_set_ne (gs : List Gauge) (k : Nat) (v : Gauge) (id : Nat) (h : id ≠ k + 1) :
    getG (gs.set k v) id = getG gs id := by
  unfold getG
  by_cases h0 : id = 0
  · simp [h0]
  · simp only [h0, if_false]
    rw [List.getElem?_set_ne (by omega)]

theorem kinds_set (gs : List Gauge) (k : Nat) (v : Gauge) (hk : k < gs.length) (hv : v.kind = gs[k].kind) :
    (gs.set k v).map (·.kind) = gs.map (·.kind) := by
  rw [List.map_set]
  apply List.ext_getElem
  · simp
  · intro j h1 h2
    rw [List.getElem_set]
    split
    · next h => subst h; simp [hv]
    · rfl

/-! ### the gauge loop of `Keeper.Distribute` -/

theorem incLoop_spec (ee : Bool) : ∀ (gs : List Gauge) (s : State) (tr : Tracker) (s' : State) (tr' : Tracker),
    IdsOK s.gauges → Bounded s.gauges → (gs.map (·.id)).Nodup → (∀ g ∈ gs, Coh s.gauges g) →
    incLoop ee gs s tr = .ok (s', tr') →
    IdsOK s'.gauges ∧ Bounded s'.gauges ∧ s' = { s with gauges := s'.gauges } ∧
    s'.gauges.map (·.kind) = s.gauges.map (·.kind) ∧
    (∀ i, owed s'.gauges i + trSum tr' i ≤ owed s.gauges i + extras s.gauges gs i + trSum tr i) ∧
    (∀ a, a ∈ tr'.map (·.1) → a ∈ tr.map (·.1) ∨ ∃ g ∈ gs, LegitFor s.locks s.rollapps g.kind a) := by
  intro gs
  induction gs with
  | nil =>
    intro s tr s' tr' _ _ _ _ h
    simp only [incLoop, Except.ok.injEq, Prod.mk.injEq] at h
    obtain ⟨h1, h2⟩ := h; subst h1; subst h2
    refine ⟨by assumption, by assumption, rfl, rfl, ?_, fun a ha => Or.inl ha⟩
    intro i; simp [extras]
  | cons g rest ih =>
    intro s tr s' tr' hid hb hnd hcoh h
    unfold incLoop at h
    have hnd0 : (g.id :: rest.map (·.id)).Nodup := hnd
    have hnd' : (rest.map (·.id)).Nodup := (List.nodup_cons.1 hnd0).2
    have hgnot : ∀ x ∈ rest, x.id ≠ g.id := by
      intro x hx he
      have := (List.nodup_cons.1 hnd0).1
      exact this (by rw [← he]; exact List.mem_map_of_mem (f := (·.id)) hx)
    cases hc : calcGauge s g tr with
    | err => simp [hc] at h
    | panic => simp [hc] at h
    | ok t2 c =>
      simp only [hc] at h
      obtain ⟨c1, c2, c3⟩ := calcGauge_spec s g tr t2 c hc
      obtain ⟨g0, hg0, hd, hkind, hcoins⟩ := hcoh g List.mem_cons_self
      obtain ⟨hid1, hk, hget, hg0id, hg0mem⟩ := getG_some hid hg0
      by_cases hz : c.isZero = true
      · simp only [hz, if_true] at h
        obtain ⟨r1, r2, r3, r4, r5, r6⟩ := ih s t2 s' tr' hid hb hnd' (fun x hx => hcoh x (List.mem_cons_of_mem _ hx)) h
        refine ⟨r1, r2, r3, r4, ?_, ?_⟩
        · intro i
          have := r5 i
          have hz' := (isZero_iff c).1 hz i
          have := c2 i
          simp only [extras, List.map_cons, List.sum_cons] at *
          omega
        · intro a ha
          rcases r6 a ha with h1 | ⟨x, hx, hl⟩
          · rcases c3 a h1 with h2 | h2
            · exact Or.inl h2
            · exact Or.inr ⟨g, List.mem_cons_self, h2⟩
          · exact Or.inr ⟨x, List.mem_cons_of_mem _ hx, hl⟩
      · rw [if_neg hz] at h
        -- the written-back gauge
        have hbg0 := hb g0 hg0mem
        have hbound : ∀ i, amt (Coins.add g.distributed c) i ≤ amt g.coins i := by
          intro i
          rw [amt_add]
          rcases c1 i with h1 | h1
          · omega
          · have := hbg0 i; have := hcoins i; rw [hd]; omega
        have hsetid : g.id - 1 < s.gauges.length := hk
        let g' : Gauge := { g with filled := if ee then g.filled + 1 else g.filled, distributed := Coins.add g.distributed c }
        have hs1 : setGauge s g' = { s with gauges := s.gauges.set (g.id - 1) g' } := rfl
        have hid' : IdsOK (setGauge s g').gauges := by
          rw [hs1]; exact idsOK_set hid _ _ (by show g.id = g.id - 1 + 1; omega)
        have hb' : Bounded (setGauge s g').gauges := by
          rw [hs1]; exact bounded_set hb _ _ hbound
        have hcoh' : ∀ x ∈ rest, Coh (setGauge s g').gauges x := by
          intro x hx
          obtain ⟨x0, hx0, r⟩ := hcoh x (List.mem_cons_of_mem _ hx)
          refine ⟨x0, ?_, r⟩
          rw [hs1]; simp only
          rw [getG_set_ne _ _ _ _ (by have := hgnot x hx; omega)]
          exact hx0
        obtain ⟨r1, r2, r3, r4, r5, r6⟩ := ih (setGauge s g') t2 s' tr' hid' hb' hnd' hcoh' h
        refine ⟨r1, r2, ?_, ?_, ?_, ?_⟩
        · rw [r3, hs1]
        · rw [r4, hs1]; simp only
          exact kinds_set _ _ _ hk (by show g.kind = _; rw [hget]; exact hkind)
        · intro i
          have h5 := r5 i
          have hset := sum_map_set (owedG · i) s.gauges (g.id - 1) g' hk
          have hex : extras (setGauge s g').gauges rest i = extras s.gauges rest i := by
            unfold extras
            apply congrArg
            apply List.map_congr_left
            intro x hx
            unfold extra storedCoins
            rw [hs1]; simp only
            rw [getG_set_ne _ _ _ _ (by have := hgnot x hx; omega)]
          rw [hex] at h5
          have hs1g : (setGauge s g').gauges = s.gauges.set (g.id - 1) g' := rfl
          rw [hs1g] at h5
          have e1 : owedG s.gauges[g.id - 1] i = amt g0.coins i - amt g0.distributed i := by rw [hget]; rfl
          have e2 : owedG g' i = amt g.coins i - (amt g.distributed i + amt c i) := by
            show amt g.coins i - amt (Coins.add g.distributed c) i = _
            rw [amt_add]
          have e3 : extra s.gauges g i = amt g.coins i - amt g0.coins i := by
            unfold extra storedCoins; rw [hg0]
          have := c2 i
          have hbi := hbound i
          rw [amt_add] at hbi
          have := hbg0 i
          have := hcoins i
          have hdi : amt g.distributed i = amt g0.distributed i := by rw [hd]
          simp only [extras, List.map_cons, List.sum_cons] at *
          unfold owed at *
          omega
        · intro a ha
          rcases r6 a ha with h1 | ⟨x, hx, hl⟩
          · rcases c3 a h1 with h2 | h2
            · exact Or.inl h2
            · exact Or.inr ⟨g, List.mem_cons_self, h2⟩
          · exact Or.inr ⟨x, List.mem_cons_of_mem _ hx, hl⟩


/-! ### paying the tracker -/

/-- what address `a` receives from a tracker -/
def trFor (tr : Tracker) (a i : Nat) : Nat := ((tr.filter (·.1 == a)).map (fun p => amt p.2 i)).sum

theorem payAll_spec : ∀ (tr : Tracker) (b b' : Bank), payAll tr b = some b' →
    (∀ i, amt (b'.get incAddr) i + trSum tr i = amt (b.get incAddr) i) ∧
    (∀ a, a ≠ incAddr → ∀ i, amt (b'.get a) i = amt (b.get a) i + trFor tr a i) ∧
    (∀ a, a ∈ tr.map (·.1) → blocked a = false) := by
  intro tr
  induction tr with
  | nil =>
    intro b b' h
    simp only [payAll, Option.some.injEq] at h
    subst h
    exact ⟨by simp [trSum], by simp [trFor], by simp⟩
  | cons p rest ih =>
    intro b b' h
    obtain ⟨o, c⟩ := p
    unfold payAll at h
    by_cases hbl : blocked o = true
    · simp [hbl] at h
    · rw [if_neg hbl] at h
      have hne : incAddr ≠ o := by
        intro he
        apply hbl
        rw [← he]; decide
      cases hs : b.send incAddr o c with
      | none => simp [hs] at h
      | some b1 =>
        simp only [hs] at h
        obtain ⟨s1, s2⟩ := Bank.send_some hs hne
        obtain ⟨r1, r2, r3⟩ := ih b1 b' h
        refine ⟨?_, ?_, ?_⟩
        · intro i
          have := r1 i
          have h2 := s2 incAddr i
          simp only [if_true] at h2
          have := s1 i
          simp only [trSum, List.map_cons, List.sum_cons] at *
          omega
        · intro a ha i
          have h1 := r2 a ha i
          have h2 := s2 a i
          rw [if_neg ha] at h2
          unfold trFor at *
          by_cases hao : a = o
          · subst hao
            simp only [if_true] at h2
            simp only [List.filter_cons, beq_self_eq_true, if_true, List.map_cons, List.sum_cons]
            omega
          · rw [if_neg hao] at h2
            have : (o == a) = false := by simp; exact fun x => hao x.symm
            simp only [List.filter_cons, this]
            simp only [Bool.false_eq_true, if_false]
            omega
        · intro a ha
          simp only [List.map_cons, List.mem_cons] at ha
          rcases ha with h1 | h1
          · rw [h1]; simpa using hbl
          · exact r3 a h1

theorem trFor_pos_mem (tr : Tracker) (a i : Nat) (h : trFor tr a i ≠ 0) : a ∈ tr.map (·.1) := by
  unfold trFor at h
  induction tr with
  | nil => simp at h
  | cons p rest ih =>
    by_cases hp : p.1 = a
    · simp [hp]
    · have : (p.1 == a) = false := by simpa using hp
      simp only [List.filter_cons, this] at h
      simp only [List.map_cons, List.mem_cons]
      exact Or.inr (ih h)

/-- x/incentives `Keeper.Distribute`: keeps the gauge invariant, pays only legitimate recipients -/
theorem incDistribute_spec (s : State) (gs : List Gauge) (ee : Bool) (s' : State)
    (hid : IdsOK s.gauges) (hb : Bounded s.gauges) (hnd : (gs.map (·.id)).Nodup) (hcoh : ∀ g ∈ gs, Coh s.gauges g)
    (hsol : ∀ i, owed s.gauges i + extras s.gauges gs i ≤ amt (s.bank.get incAddr) i)
    (h : incDistribute s gs ee = .ok s') :
    IdsOK s'.gauges ∧ Bounded s'.gauges ∧ s' = { s with gauges := s'.gauges, bank := s'.bank } ∧
    s'.gauges.map (·.kind) = s.gauges.map (·.kind) ∧
    (∀ i, owed s'.gauges i ≤ amt (s'.bank.get incAddr) i) ∧
    (∀ a, a ≠ incAddr → ∀ i, amt (s.bank.get a) i ≤ amt (s'.bank.get a) i) ∧
    (∀ a, a ≠ incAddr → (∃ i, amt (s'.bank.get a) i ≠ amt (s.bank.get a) i) →
      blocked a = false ∧ ∃ g ∈ gs, LegitFor s.locks s.rollapps g.kind a) := by
  unfold incDistribute at h
  cases hl : incLoop ee gs s [] with
  | error e => simp [hl] at h
  | ok p =>
    obtain ⟨s1, tr⟩ := p
    simp only [hl] at h
    obtain ⟨r1, r2, r3, r4, r5, r6⟩ := incLoop_spec ee gs s [] s1 tr hid hb hnd hcoh hl
    cases hp : payAll tr s1.bank with
    | none => simp [hp] at h
    | some b =>
      simp only [hp, Except.ok.injEq] at h
      subst h
      obtain ⟨p1, p2, p3⟩ := payAll_spec tr s1.bank b hp
      have hbank : s1.bank = s.bank := by rw [r3]
      refine ⟨r1, r2, ?_, r4, ?_, ?_, ?_⟩
      · simp only; rw [r3]
      · intro i
        have h5 := r5 i
        have h1 := p1 i
        have h0 := hsol i
        rw [hbank] at h1
        have hnil : trSum ([] : Tracker) i = 0 := by simp [trSum]
        rw [hnil] at h5
        simp only
        omega
      · intro a ha i
        have := p2 a ha i
        rw [hbank] at this
        simp only; omega
      · intro a ha ⟨i, hi⟩
        have h2 := p2 a ha i
        rw [hbank] at h2
        simp only at hi
        have hne : trFor tr a i ≠ 0 := by omega
        have hm := trFor_pos_mem tr a i hne
        refine ⟨p3 a hm, ?_⟩
        rcases r6 a hm with h3 | h3
        · simp at h3
        · exact h3


/-! ### the streamer's gauge cache -/

theorem upsertGauge_absent (l : List Gauge) (g : Gauge) (h : ∀ x ∈ l, x.id ≠ g.id) : upsertGauge l g = l ++ [g] := by
  induction l with
  | nil => rfl
  | cons x xs ih =>
    unfold upsertGauge
    have := h x List.mem_cons_self
    rw [if_neg this, ih (fun y hy => h y (List.mem_cons_of_mem _ hy))]
    rfl

theorem upsertGauge_present (f : Gauge → Nat) : ∀ (l : List Gauge) (g x : Gauge), (l.map (·.id)).Nodup → x ∈ l → x.id = g.id →
    (upsertGauge l g).map (·.id) = l.map (·.id) ∧
    (∀ y ∈ upsertGauge l g, y = g ∨ (y ∈ l ∧ y.id ≠ g.id)) ∧
    ((upsertGauge l g).map f).sum + f x = (l.map f).sum + f g := by
  intro l
  induction l with
  | nil => intro g x _ hx; simp at hx
  | cons a as ih =>
    intro g x hnd hx hid
    have hnd0 : (a.id :: as.map (·.id)).Nodup := hnd
    obtain ⟨hna, hnd'⟩ := List.nodup_cons.1 hnd0
    unfold upsertGauge
    by_cases ha : a.id = g.id
    · rw [if_pos ha]
      have hxa : x = a := by
        rcases List.mem_cons.1 hx with h | h
        · exact h
        · exfalso; apply hna; rw [ha, ← hid]; exact List.mem_map_of_mem (f := (·.id)) h
      subst hxa
      refine ⟨by simp [ha], ?_, by simp only [List.map_cons, List.sum_cons]; omega⟩
      intro y hy
      rcases List.mem_cons.1 hy with h | h
      · exact Or.inl h
      · right
        refine ⟨List.mem_cons_of_mem _ h, ?_⟩
        intro he
        apply hna; rw [ha, ← he]; exact List.mem_map_of_mem (f := (·.id)) h
    · rw [if_neg ha]
      have hxas : x ∈ as := by
        rcases List.mem_cons.1 hx with h | h
        · exfalso; rw [h] at hid; exact ha hid
        · exact h
      obtain ⟨i1, i2, i3⟩ := ih g x hnd' hxas hid
      refine ⟨by simp only [List.map_cons, i1], ?_, by simp only [List.map_cons, List.sum_cons]; omega⟩
      intro y hy
      rcases List.mem_cons.1 hy with h | h
      · right; rw [h]; exact ⟨List.mem_cons_self, ha⟩
      · rcases i2 y h with h2 | ⟨h2, h3⟩
        · exact Or.inl h2
        · exact Or.inr ⟨List.mem_cons_of_mem _ h2, h3⟩

theorem cacheGet_some {c : Caches} {id : Nat} {g : Gauge} (h : c.getGauge id = some g) : g ∈ c.gauges ∧ g.id = id := by
  unfold Caches.getGauge at h
  exact ⟨List.mem_of_find?_eq_some h, by simpa using List.find?_some h⟩

theorem cacheGet_none {c : Caches} {id : Nat} (h : c.getGauge id = none) : ∀ x ∈ c.gauges, x.id ≠ id := by
  unfold Caches.getGauge at h
  intro x hx
  have := List.find?_eq_none.1 h x hx
  simpa using this

/-- cache invariant: cached gauges are copies of stored ones whose extra coins add up to what the
    streamer is about to transfer -/
def CI (gs : List Gauge) (c : Caches) : Prop :=
  (c.gauges.map (·.id)).Nodup ∧ (∀ g ∈ c.gauges, Coh gs g) ∧ ∀ i, extras gs c.gauges i = amt c.distributed i

theorem CI_insert (gs : List Gauge) (hid : IdsOK gs) (c : Caches) (h : CI gs c) (id : Nat) (g : Gauge)
    (hg : getG gs id = some g) (habs : ∀ x ∈ c.gauges, x.id ≠ id) :
    CI gs { c with gauges := upsertGauge c.gauges g } := by
  obtain ⟨_, _, _, hgid, _⟩ := getG_some hid hg
  obtain ⟨h1, h2, h3⟩ := h
  have habs' : ∀ x ∈ c.gauges, x.id ≠ g.id := by rw [hgid]; exact habs
  unfold CI
  simp only
  rw [upsertGauge_absent _ _ habs']
  refine ⟨?_, ?_, ?_⟩
  · rw [List.map_append, List.nodup_append]
    refine ⟨h1, by simp, ?_⟩
    intro a ha b hb
    simp at hb
    subst hb
    obtain ⟨x, hx, hxe⟩ := List.mem_map.1 ha
    intro he
    exact habs' x hx (by rw [hxe, he])
  · intro x hx
    rcases List.mem_append.1 hx with h | h
    · exact h2 x h
    · simp at h; subst h
      exact ⟨x, by rw [hgid]; exact hg, rfl, rfl, fun i => Nat.le_refl _⟩
  · intro i
    have : extra gs g i = 0 := by
      unfold extra storedCoins
      rw [hgid, hg]; simp
    unfold extras at *
    rw [List.map_append, List.sum_append, h3 i]
    simp [this]

theorem CI_bump (gs : List Gauge) (c : Caches) (h : CI gs c) (g : Gauge) (hg : g ∈ c.gauges) (rw_ : Coins) (ss : List Stream) :
    CI gs { streams := ss, gauges := upsertGauge c.gauges { g with coins := Coins.add g.coins rw_ },
            distributed := Coins.add c.distributed rw_ } := by
  obtain ⟨h1, h2, h3⟩ := h
  unfold CI
  simp only
  refine ⟨?_, ?_, ?_⟩
  · have := (upsertGauge_present (fun _ => 0) c.gauges { g with coins := Coins.add g.coins rw_ } g h1 hg rfl).1
    rw [this]; exact h1
  · intro y hy
    rcases (upsertGauge_present (fun _ => 0) c.gauges { g with coins := Coins.add g.coins rw_ } g h1 hg rfl).2.1 y hy with h | ⟨h, _⟩
    · subst h
      obtain ⟨g0, a, b, cc, d⟩ := h2 g hg
      exact ⟨g0, a, b, cc, fun i => by simp only [amt_add]; have := d i; omega⟩
    · exact h2 y h
  · intro i
    have hs := (upsertGauge_present (extra gs · i) c.gauges { g with coins := Coins.add g.coins rw_ } g h1 hg rfl).2.2
    obtain ⟨g0, a, b, cc, d⟩ := h2 g hg
    have e1 : extra gs { g with coins := Coins.add g.coins rw_ } i = extra gs g i + amt rw_ i := by
      unfold extra storedCoins
      simp only [a, amt_add]
      have := d i; omega
    unfold extras at *
    rw [amt_add, ← h3 i]
    omega

theorem rewardsCb_CI (s : State) (hid : IdsOK s.gauges) (c : Caches) (v : SView) (r : Rec) (h : CI s.gauges c) :
    CI s.gauges (rewardsCb s c v r).1 := by
  unfold rewardsCb
  cases hs : c.getStream v.id with
  | none => exact h
  | some stream =>
    simp only
    cases hg : c.getGauge r.gauge with
    | some g =>
      simp only
      obtain ⟨hm, _⟩ := cacheGet_some hg
      split
      · exact h
      · exact CI_bump _ c h g hm _ _
    | none =>
      simp only
      cases hst : getGauge s r.gauge with
      | none => exact h
      | some g =>
        simp only
        by_cases hf : g.isFinished s.now = true
        · simp only [hf, if_true]; exact h
        · rw [if_neg hf]
          simp only
          have hins := CI_insert s.gauges hid c h r.gauge g hst (cacheGet_none hg)
          obtain ⟨_, _, _, hgid, _⟩ := getG_some hid hst
          have hmem : g ∈ upsertGauge c.gauges g := by
            rw [upsertGauge_absent _ _ (by rw [hgid]; exact cacheGet_none hg)]; simp
          split
          · exact hins
          · exact CI_bump _ _ hins g hmem _ _

theorem paginate_inv {σ : Type} (P : σ → Prop) (data : List SView) (e : Nat) (cb : σ → SView → Rec → σ × Nat) (max : Nat)
    (hcb : ∀ acc s r, P acc → P (cb acc s r).1) :
    ∀ fuel it total acc, P acc → P (paginate data e cb max fuel it total acc).2.2 := by
  intro fuel
  induction fuel with
  | zero => intro it total acc h; exact h
  | succ n ih =>
    intro it total acc h
    unfold paginate
    split
    · cases hd : data[it.1]? with
      | none => exact h
      | some s => exact ih _ _ _ (hcb _ _ _ h)
    · exact h

theorem iterate_inv {σ : Type} (P : σ → Prop) (data : List SView) (e : Nat) (p : Pointer) (max : Nat)
    (cb : σ → SView → Rec → σ × Nat) (acc : σ) (hcb : ∀ acc s r, P acc → P (cb acc s r).1) (h : P acc) :
    P (iterateEpochPointer data e p max cb acc).2.2 := by
  unfold iterateEpochPointer
  exact paginate_inv P data e cb max hcb _ _ _ _ h

theorem ptrLoop_CI (s : State) (hid : IdsOK s.gauges) (maxOps : Nat) :
    ∀ (es : List Nat) (total : Nat) (c : Caches) (ps : List Pointer), CI s.gauges c →
      CI s.gauges (ptrLoop s maxOps es total c ps).2.1 := by
  intro es
  induction es with
  | nil => intro total c ps h; exact h
  | cons e rest ih =>
    intro total c ps h
    unfold ptrLoop
    split
    · exact h
    · exact ih _ _ _ (iterate_inv (CI s.gauges) _ e _ _ (rewardsCb s) c (fun acc v r hp => rewardsCb_CI s hid acc v r hp) h)


/-! ### the invariant and the payment relation -/

/-- gauge-side invariant: ids are positions, nothing over-distributed, the module account covers the rest -/
structure GInv (s : State) : Prop where
  ids : IdsOK s.gauges
  bounded : Bounded s.gauges
  solvent : ∀ i, owed s.gauges i ≤ amt (s.bank.get incAddr) i

/-- `a` may be paid by some gauge of the state -/
def LegitAddr (s : State) (a : Nat) : Prop := ∃ k ∈ s.gauges.map (·.kind), LegitFor s.locks s.rollapps k a

/-- what a block may do to the accounts other than the two module accounts -/
structure Pay (s s' : State) : Prop where
  kinds : s'.gauges.map (·.kind) = s.gauges.map (·.kind)
  locks : s'.locks = s.locks
  rollapps : s'.rollapps = s.rollapps
  mono : ∀ a, a ≠ streamerAddr → a ≠ incAddr → ∀ i, amt (s.bank.get a) i ≤ amt (s'.bank.get a) i
  legit : ∀ a, a ≠ streamerAddr → a ≠ incAddr → (∃ i, amt (s'.bank.get a) i ≠ amt (s.bank.get a) i) →
    blocked a = false ∧ LegitAddr s a

theorem Pay.refl (s : State) : Pay s s :=
  ⟨rfl, rfl, rfl, fun _ _ _ _ => Nat.le_refl _, fun _ _ _ ⟨_, h⟩ => absurd rfl h⟩

theorem LegitAddr_congr {s s' : State} (hk : s'.gauges.map (·.kind) = s.gauges.map (·.kind)) (hl : s'.locks = s.locks)
    (hr : s'.rollapps = s.rollapps) (a : Nat) (h : LegitAddr s' a) : LegitAddr s a := by
  unfold LegitAddr at *
  rw [hk, hl, hr] at h
  exact h

theorem Pay.trans {s s1 s2 : State} (h1 : Pay s s1) (h2 : Pay s1 s2) : Pay s s2 := by
  refine ⟨h2.kinds.trans h1.kinds, h2.locks.trans h1.locks, h2.rollapps.trans h1.rollapps, ?_, ?_⟩
  · intro a ha hb i
    exact Nat.le_trans (h1.mono a ha hb i) (h2.mono a ha hb i)
  · intro a ha hb ⟨i, hi⟩
    by_cases hc : amt (s1.bank.get a) i = amt (s.bank.get a) i
    · have := h2.legit a ha hb ⟨i, by rw [hc]; exact hi⟩
      exact ⟨this.1, LegitAddr_congr h1.kinds h1.locks h1.rollapps a this.2⟩
    · exact h1.legit a ha hb ⟨i, hc⟩

/-- the parts of the state the stream bookkeeping never touches -/
def Same (s s' : State) : Prop :=
  s'.gauges = s.gauges ∧ s'.bank = s.bank ∧ s'.locks = s.locks ∧ s'.rollapps = s.rollapps

theorem Same.refl (s : State) : Same s s := ⟨rfl, rfl, rfl, rfl⟩
theorem Same.trans {a b c : State} (h1 : Same a b) (h2 : Same b c) : Same a c :=
  ⟨h2.1.trans h1.1, h2.2.1.trans h1.2.1, h2.2.2.1.trans h1.2.2.1, h2.2.2.2.trans h1.2.2.2⟩

theorem Same.ginv {s s' : State} (h : Same s s') (g : GInv s) : GInv s' := by
  obtain ⟨a, b, _, _⟩ := h
  exact ⟨by rw [a]; exact g.ids, by rw [a]; exact g.bounded, by rw [a, b]; exact g.solvent⟩

theorem Same.pay {s s' : State} (h : Same s s') : Pay s s' := by
  obtain ⟨a, b, c, d⟩ := h
  refine ⟨by rw [a], c, d, ?_, ?_⟩
  · intro x _ _ i; rw [b]; exact Nat.le_refl _
  · intro x _ _ ⟨i, hi⟩; rw [b] at hi; exact absurd rfl hi

theorem saveStreamEnd_same (st : Stream) (s s' : State) (h : saveStreamEnd st s = .ok s') : Same s s' := by
  unfold saveStreamEnd at h
  split at h
  · cases hd : Refs.del s.active st.start st.id with
    | none => simp [hd] at h
    | some a =>
      simp only [hd] at h
      cases hf : Refs.add s.finished st.start st.id with
      | none => simp [hf] at h
      | some f =>
        simp only [hf, Except.ok.injEq] at h
        subst h; exact ⟨rfl, rfl, rfl, rfl⟩
  · simp only [Except.ok.injEq] at h
    subst h; exact ⟨rfl, rfl, rfl, rfl⟩

theorem saveStreams_same (ee : Bool) : ∀ (l : List Stream) (s s' : State), saveStreams ee l s = .ok s' → Same s s' := by
  intro l
  induction l with
  | nil => intro s s' h; simp only [saveStreams, Except.ok.injEq] at h; subst h; exact Same.refl _
  | cons st rest ih =>
    intro s s' h
    unfold saveStreams at h
    by_cases he : ee = true
    · simp only [he, if_true] at h
      cases hs : saveStreamEnd st.atEpochEnd s with
      | error e => simp [hs] at h
      | ok s1 =>
        simp only [hs] at h
        exact Same.trans (saveStreamEnd_same _ _ _ hs) (ih _ _ (by rw [he]; exact h))
    · have he' : ee = false := by simpa using he
      simp only [he', Bool.false_eq_true, if_false] at h
      refine Same.trans ?_ (ih _ _ (by rw [he']; exact h))
      exact ⟨rfl, rfl, rfl, rfl⟩

theorem activateDue_same : ∀ (l : List Stream) (s s' : State), activateDue l s = .ok s' → Same s s' := by
  intro l
  induction l with
  | nil => intro s s' h; simp only [activateDue, Except.ok.injEq] at h; subst h; exact Same.refl _
  | cons st rest ih =>
    intro s s' h
    unfold activateDue at h
    split at h
    · cases hd : Refs.del s.upcoming st.start st.id with
      | none => simp [hd] at h
      | some u =>
        simp only [hd] at h
        cases hf : Refs.add s.active st.start st.id with
        | none => simp [hf] at h
        | some a =>
          simp only [hf] at h
          refine Same.trans ?_ (ih _ _ h)
          exact ⟨rfl, rfl, rfl, rfl⟩
    · exact ih _ _ h

theorem startStreams_same : ∀ (l : List Stream) (s s' : State), startStreams l s = .ok s' → Same s s' := by
  intro l
  induction l with
  | nil => intro s s' h; simp only [startStreams, Except.ok.injEq] at h; subst h; exact Same.refl _
  | cons st rest ih =>
    intro s s' h
    unfold startStreams at h
    cases hs : Coins.sub? st.coins st.distributed with
    | none => simp [hs] at h
    | some remain =>
      simp only [hs] at h
      split at h
      · simp at h
      · refine Same.trans ?_ (ih _ _ h)
        exact ⟨rfl, rfl, rfl, rfl⟩

/-- x/streamer `Keeper.Distribute` keeps the gauge invariant and pays only legitimate recipients -/
theorem strDistribute_spec (s : State) (es : List Nat) (streams : List Stream) (maxOps : Nat) (ee : Bool) (s' : State)
    (hg : GInv s) (h : strDistribute s es streams maxOps ee = .ok s') : GInv s' ∧ Pay s s' := by
  unfold strDistribute at h
  have hci := ptrLoop_CI s hg.ids maxOps (sortByDuration es) 0 ⟨sortById streams, [], []⟩ s.ptrs
    ⟨by simp, by simp, by intro i; simp [extras]⟩
  generalize ptrLoop s maxOps (sortByDuration es) 0 ⟨sortById streams, [], []⟩ s.ptrs = res at h hci
  obtain ⟨tot, c, ps⟩ := res
  dsimp only at h hci
  obtain ⟨ci1, ci2, ci3⟩ := hci
  -- the transfer streamer -> incentives
  have hne : streamerAddr ≠ incAddr := by decide
  have key : ∀ b : Bank, (∀ i, amt (b.get incAddr) i = amt (s.bank.get incAddr) i + amt c.distributed i) →
      (∀ a, a ≠ streamerAddr → a ≠ incAddr → ∀ i, amt (b.get a) i = amt (s.bank.get a) i) →
      ∀ s2, incDistribute { s with ptrs := ps, bank := b } c.gauges ee = .ok s2 → saveStreams ee c.streams s2 = .ok s' →
      GInv s' ∧ Pay s s' := by
    intro b hb1 hb2 s2 hinc hsave
    obtain ⟨r1, r2, r3, r4, r5, r6, r7⟩ := incDistribute_spec { s with ptrs := ps, bank := b } c.gauges ee s2
      hg.ids hg.bounded ci1 ci2
      (by intro i; simp only; rw [ci3 i, hb1 i]; have := hg.solvent i; omega) hinc
    have hsame := saveStreams_same ee _ _ _ hsave
    have g2 : GInv s2 := ⟨r1, r2, r5⟩
    refine ⟨hsame.ginv g2, Pay.trans ?_ hsame.pay⟩
    refine ⟨r4, by rw [r3], by rw [r3], ?_, ?_⟩
    · intro a ha hb i
      have := r6 a hb i
      simp only at this
      rw [hb2 a ha hb i] at this
      exact this
    · intro a ha hb ⟨i, hi⟩
      have hx : ∃ i, amt (s2.bank.get a) i ≠ amt (({ s with ptrs := ps, bank := b } : State).bank.get a) i :=
        ⟨i, by simp only; rw [hb2 a ha hb i]; exact hi⟩
      obtain ⟨q1, g, hgm, hl⟩ := r7 a hb hx
      refine ⟨q1, ?_⟩
      obtain ⟨g0, a1, _, a3, _⟩ := ci2 g hgm
      obtain ⟨_, _, _, _, hmem⟩ := getG_some hg.ids a1
      exact ⟨g0.kind, List.mem_map_of_mem (f := (·.kind)) hmem, by rw [← a3]; exact hl⟩
  by_cases hz : c.distributed.isZero = true
  · simp only [hz, if_true] at h
    cases hinc : incDistribute { s with ptrs := ps, bank := s.bank } c.gauges ee with
    | error e => simp [hinc] at h
    | ok s2 =>
      simp only [hinc] at h
      exact key s.bank (by intro i; have := (isZero_iff _).1 hz i; omega) (by intro a _ _ i; rfl) s2 hinc h
  · rw [if_neg hz] at h
    cases hsend : s.bank.send streamerAddr incAddr c.distributed with
    | none => simp [hsend] at h
    | some b =>
      simp only [hsend] at h
      obtain ⟨_, sb⟩ := Bank.send_some hsend hne
      cases hinc : incDistribute { s with ptrs := ps, bank := b } c.gauges ee with
      | error e => simp [hinc] at h
      | ok s2 =>
        simp only [hinc] at h
        refine key b ?_ ?_ s2 hinc h
        · intro i
          have := sb incAddr i
          rw [if_neg (fun x => hne x.symm), if_pos rfl] at this
          exact this
        · intro a ha hb i
          have := sb a i
          rw [if_neg ha, if_neg hb] at this
          exact this


/-! ### epoch hooks -/

theorem streamerAfterEpochEnd_spec (s : State) (e : Nat) (s' : State) (hg : GInv s)
    (h : streamerAfterEpochEnd s e = .ok s') : GInv s' ∧ Pay s s' := by
  unfold streamerAfterEpochEnd at h
  split at h
  · simp only [Except.ok.injEq] at h; subst h; exact ⟨hg, Pay.refl _⟩
  · cases hd : strDistribute s [e] (activeStreamsFor s e) maxU64 true with
    | error x => simp [hd] at h
    | ok s1 =>
      simp only [hd, Except.ok.injEq] at h
      subst h
      obtain ⟨a, b⟩ := strDistribute_spec _ _ _ _ _ _ hg hd
      have hs : Same s1 { s1 with ptrs := s1.ptrs.set e Pointer.first } := ⟨rfl, rfl, rfl, rfl⟩
      exact ⟨hs.ginv a, Pay.trans b hs.pay⟩

theorem streamerBeforeEpochStart_same (s : State) (e : Nat) (s' : State)
    (h : streamerBeforeEpochStart s e = .ok s') : Same s s' := by
  unfold streamerBeforeEpochStart at h
  cases ha : activateDue (upcomingStreams s) s with
  | error x => simp [ha] at h
  | ok s1 =>
    simp only [ha] at h
    exact Same.trans (activateDue_same _ _ _ ha) (startStreams_same _ _ _ h)

theorem idsOK_nodup (gs : List Gauge) (h : IdsOK gs) : (gs.map (·.id)).Nodup := by
  have : gs.map (·.id) = List.range' 1 gs.length := by
    apply List.ext_getElem
    · simp
    · intro k h1 h2
      simp only [List.getElem_map, List.getElem_range']
      rw [h k (by simpa using h1)]; omega
  rw [this]
  exact List.nodup_range' (step := 1)

theorem sum_zero_of_all_zero (l : List Nat) (h : ∀ x ∈ l, x = 0) : l.sum = 0 := by
  induction l with
  | nil => rfl
  | cons x xs ih =>
    rw [List.sum_cons, h x List.mem_cons_self, ih (fun y hy => h y (List.mem_cons_of_mem _ hy))]

theorem getG_of_mem {gs : List Gauge} (hid : IdsOK gs) {g : Gauge} (hg : g ∈ gs) : getG gs g.id = some g := by
  obtain ⟨k, hk, he⟩ := List.getElem_of_mem hg
  have := hid k hk
  rw [he] at this
  unfold getG
  rw [this]
  simp [he, hk]

theorem extra_self {gs : List Gauge} (hid : IdsOK gs) {g : Gauge} (hg : g ∈ gs) (i : Nat) : extra gs g i = 0 := by
  unfold extra storedCoins
  rw [getG_of_mem hid hg]; simp

theorem checkFinished_spec : ∀ (l : List Gauge) (s : State), GInv s → GInv (checkFinished l s) ∧ Pay s (checkFinished l s) := by
  intro l
  induction l with
  | nil => intro s h; exact ⟨h, Pay.refl _⟩
  | cons g rest ih =>
    intro s h
    unfold checkFinished
    split
    · cases hc : getGauge s g.id with
      | none => simp only; exact ih s h
      | some cur =>
        simp only
        rw [getGauge_eq] at hc
        obtain ⟨h1, hk, hget, hcid, hmem⟩ := getG_some h.ids hc
        have hs1 : setGauge s { cur with status := .finished } = { s with gauges := s.gauges.set (cur.id - 1) { cur with status := .finished } } := rfl
        have hk' : cur.id - 1 < s.gauges.length := by rw [hcid]; exact hk
        have hget' : s.gauges[cur.id - 1] = cur := by
          have : cur.id - 1 = g.id - 1 := by rw [hcid]
          simp only [this]; exact hget
        have g1 : GInv (setGauge s { cur with status := .finished }) := by
          rw [hs1]
          refine ⟨idsOK_set h.ids _ _ (by show cur.id = cur.id - 1 + 1; omega), bounded_set h.bounded _ _ (h.bounded cur hmem), ?_⟩
          intro i
          have := sum_map_set (owedG · i) s.gauges (cur.id - 1) { cur with status := .finished } hk'
          have e1 : owedG { cur with status := GStatus.finished } i = owedG s.gauges[cur.id - 1] i := by rw [hget']; rfl
          have := h.solvent i
          simp only
          unfold owed at *
          omega
        have p1 : Pay s (setGauge s { cur with status := .finished }) := by
          rw [hs1]
          refine ⟨?_, rfl, rfl, fun _ _ _ _ => Nat.le_refl _, fun _ _ _ ⟨_, hh⟩ => absurd rfl hh⟩
          exact kinds_set _ _ _ hk' (by rw [hget'])
        obtain ⟨a, b⟩ := ih _ g1
        exact ⟨a, Pay.trans p1 b⟩
    · exact ih s h

theorem incAfterEpochEnd_spec (s : State) (e : Nat) (s' : State) (hg : GInv s)
    (h : incAfterEpochEnd s e = .ok s') : GInv s' ∧ Pay s s' := by
  unfold incAfterEpochEnd at h
  split at h
  · simp only [Except.ok.injEq] at h; subst h; exact ⟨hg, Pay.refl _⟩
  · simp only at h
    generalize hf : (fun g : Gauge => if (g.status == GStatus.upcoming && decide (g.start ≤ s.now)) = true then { g with status := GStatus.active } else g) = f at h
    have hfp : ∀ g, (f g).id = g.id ∧ (f g).coins = g.coins ∧ (f g).distributed = g.distributed ∧ (f g).kind = g.kind := by
      intro g; rw [← hf]; simp only; split <;> exact ⟨rfl, rfl, rfl, rfl⟩
    have g1 : GInv { s with gauges := s.gauges.map f } := by
      refine ⟨?_, ?_, ?_⟩
      · intro k hk
        simp only [List.getElem_map]
        rw [(hfp _).1]; exact hg.ids k (by simpa using hk)
      · intro g hgm i
        obtain ⟨g0, hg0, he⟩ := List.mem_map.1 hgm
        rw [← he, (hfp g0).2.1, (hfp g0).2.2.1]; exact hg.bounded g0 hg0 i
      · intro i
        have : owed (s.gauges.map f) i = owed s.gauges i := by
          unfold owed
          rw [List.map_map]
          apply congrArg
          apply List.map_congr_left
          intro g _
          simp only [Function.comp, owedG, (hfp g).2.1, (hfp g).2.2.1]
        simp only; rw [this]; exact hg.solvent i
    have p1 : Pay s { s with gauges := s.gauges.map f } := by
      refine ⟨?_, rfl, rfl, fun _ _ _ _ => Nat.le_refl _, fun _ _ _ ⟨_, hh⟩ => absurd rfl hh⟩
      simp only [List.map_map]
      apply List.map_congr_left
      intro g _; exact (hfp g).2.2.2
    cases hd : incDistribute { s with gauges := s.gauges.map f } (List.filter (fun x => x.status == GStatus.active) (s.gauges.map f)) true with
    | error x => simp [hd] at h
    | ok s2 =>
      simp only [hd, Except.ok.injEq] at h
      have hsub : ∀ g ∈ List.filter (fun x => x.status == GStatus.active) (s.gauges.map f), g ∈ s.gauges.map f :=
        fun g hgm => (List.mem_filter.1 hgm).1
      obtain ⟨r1, r2, r3, r4, r5, r6, r7⟩ := incDistribute_spec _ _ true s2 g1.ids g1.bounded
        ((idsOK_nodup _ g1.ids).sublist ((List.filter_sublist).map _))
        (fun g hgm => ⟨g, getG_of_mem g1.ids (hsub g hgm), rfl, rfl, fun _ => Nat.le_refl _⟩)
        (by
          intro i
          have : extras (s.gauges.map f) (List.filter (fun x => x.status == GStatus.active) (s.gauges.map f)) i = 0 := by
            unfold extras
            apply sum_zero_of_all_zero
            intro x hx
            obtain ⟨g, hgm, he⟩ := List.mem_map.1 hx
            rw [← he]; exact extra_self g1.ids (hsub g hgm) i
          simp only; rw [this]; exact g1.solvent i)
        hd
      have g2 : GInv s2 := ⟨r1, r2, r5⟩
      have p2 : Pay { s with gauges := s.gauges.map f } s2 := by
        refine ⟨r4, by rw [r3], by rw [r3], fun a _ hb i => r6 a hb i, ?_⟩
        intro a _ hb hx
        obtain ⟨q1, g, hgm, hl⟩ := r7 a hb hx
        exact ⟨q1, g.kind, List.mem_map_of_mem (f := (·.kind)) (hsub g hgm), hl⟩
      obtain ⟨a, b⟩ := checkFinished_spec (List.filter (fun x => x.status == GStatus.active) (s.gauges.map f)) s2 g2
      subst h
      exact ⟨a, Pay.trans p1 (Pay.trans p2 b)⟩


/-! ### blocks and messages -/

theorem applyHook_spec (f : State → Res) (s : State) (hg : GInv s)
    (hf : ∀ s', f s = .ok s' → GInv s' ∧ Pay s s') : GInv (applyHook f s) ∧ Pay s (applyHook f s) := by
  unfold applyHook
  cases h : f s with
  | ok s' => exact hf s' h
  | error e => exact ⟨hg, Pay.refl _⟩

theorem epochTick_spec (s : State) (e : Nat) (hg : GInv s) : GInv (epochTick s e) ∧ Pay s (epochTick s e) := by
  unfold epochTick
  cases he : s.epochs[e]? with
  | none => exact ⟨hg, Pay.refl _⟩
  | some ep =>
    simp only
    split
    · exact ⟨hg, Pay.refl _⟩
    · split
      · exact ⟨hg, Pay.refl _⟩
      · split
        · have hs : Same s { s with epochs := s.epochs.set e { ep with started := true, curStart := ep.startTime } } := ⟨rfl, rfl, rfl, rfl⟩
          obtain ⟨a, b⟩ := applyHook_spec (fun x => streamerBeforeEpochStart x e) _ (hs.ginv hg)
            (fun s' h => let sm := streamerBeforeEpochStart_same _ _ _ h; ⟨sm.ginv (hs.ginv hg), sm.pay⟩)
          exact ⟨a, Pay.trans hs.pay b⟩
        · obtain ⟨a1, b1⟩ := applyHook_spec (fun x => streamerAfterEpochEnd x e) s hg
            (fun s' h => streamerAfterEpochEnd_spec _ _ _ hg h)
          obtain ⟨a2, b2⟩ := applyHook_spec (fun x => incAfterEpochEnd x e) _ a1
            (fun s' h => incAfterEpochEnd_spec _ _ _ a1 h)
          generalize applyHook (fun x => incAfterEpochEnd x e) (applyHook (fun x => streamerAfterEpochEnd x e) s) = s2 at a2 b2 ⊢
          have hs : Same s2 { s2 with epochs := s2.epochs.set e { ep with curStart := ep.curStart + ep.dur } } := ⟨rfl, rfl, rfl, rfl⟩
          obtain ⟨a3, b3⟩ := applyHook_spec (fun x => streamerBeforeEpochStart x e) _ (hs.ginv a2)
            (fun s' h => let sm := streamerBeforeEpochStart_same _ _ _ h; ⟨sm.ginv (hs.ginv a2), sm.pay⟩)
          exact ⟨a3, Pay.trans b1 (Pay.trans b2 (Pay.trans hs.pay b3))⟩

theorem beginBlock_spec (s : State) (dt : Nat) (hg : GInv s) : GInv (beginBlock s dt) ∧ Pay s (beginBlock s dt) := by
  unfold beginBlock
  have hs : Same s { s with now := s.now + dt } := ⟨rfl, rfl, rfl, rfl⟩
  obtain ⟨a0, b0⟩ := epochTick_spec _ 0 (hs.ginv hg)
  obtain ⟨a1, b1⟩ := epochTick_spec _ 1 a0
  obtain ⟨a2, b2⟩ := epochTick_spec _ 2 a1
  exact ⟨a2, Pay.trans hs.pay (Pay.trans b0 (Pay.trans b1 b2))⟩

/-- module accounts do not sign messages -/
def Op.wf : Op → Prop
  | .createGauge o _ _ _ _ _ _ _ => o ≠ incAddr
  | .addToGauge o _ _ => o ≠ incAddr
  | _ => True

instance (op : Op) : Decidable op.wf := by
  cases op <;> (unfold Op.wf; infer_instance)

theorem owed_append (gs : List Gauge) (g : Gauge) (i : Nat) : owed (gs ++ [g]) i = owed gs i + owedG g i := by
  simp [owed]

theorem GInv_append (s : State) (hg : GInv s) (g : Gauge) (b : Bank) (hid : g.id = s.gauges.length + 1) (hd : g.distributed = [])
    (hb : ∀ i, amt (b.get incAddr) i = amt (s.bank.get incAddr) i + amt g.coins i) :
    GInv { s with bank := b, gauges := s.gauges ++ [g] } := by
  refine ⟨?_, ?_, ?_⟩
  · intro k hk
    simp only [List.length_append, List.length_singleton] at hk
    simp only
    by_cases h : k < s.gauges.length
    · rw [List.getElem_append_left h]; exact hg.ids k h
    · have : k = s.gauges.length := by omega
      subst this
      simp [hid]
  · intro x hx i
    rcases List.mem_append.1 hx with h | h
    · exact hg.bounded x h i
    · simp at h; subst h; rw [hd]; simp
  · intro i
    simp only
    rw [owed_append, hb i]
    have := hg.solvent i
    unfold owedG; rw [hd]; simp only [amt_nil]; omega

theorem createStream_same (s : State) (sp : Bool) (c : Coins) (rs : List Rec) (st e n : Nat) : Same s (createStream s sp c rs st e n).2 := by
  unfold createStream
  dsimp only
  repeat' split
  all_goals first | exact Same.refl _ | exact ⟨rfl, rfl, rfl, rfl⟩

theorem moveToFinished_same (s : State) (b : Bool) (st : Stream) (s' : State) (h : moveToFinished s b st = some s') : Same s s' := by
  unfold moveToFinished at h
  repeat' (first | split at h | dsimp only at h)
  all_goals first | (simp at h; done) | (simp only [Option.some.injEq] at h; subst h; exact ⟨rfl, rfl, rfl, rfl⟩)

theorem terminateStream_same (s : State) (id : Nat) : Same s (terminateStream s id).2 := by
  unfold terminateStream
  repeat' (first | split | dsimp only)
  all_goals first | exact Same.refl _ | (exact moveToFinished_same _ _ _ _ (by assumption))

theorem replaceDistr_same (s : State) (id : Nat) (rs : List Rec) : Same s (replaceDistr s id rs).2 := by
  unfold replaceDistr
  repeat' split
  all_goals first | exact Same.refl _ | exact ⟨rfl, rfl, rfl, rfl⟩

theorem updateDistr_same (s : State) (id : Nat) (rs : List Rec) : Same s (updateDistr s id rs).2 := by
  unfold updateDistr
  repeat' (first | split | dsimp only)
  all_goals first | exact Same.refl _ | exact ⟨rfl, rfl, rfl, rfl⟩

/-- `CreateAssetGauge` by any account other than the incentives module account keeps the gauge invariant -/
theorem createGauge_ginv (s : State) (hg : GInv s) (o : Nat) (hw : o ≠ incAddr) (p : Bool) (d du : Nat) (hs : Bool) (c : Coins)
    (st n : Nat) : GInv (createGauge s o p d du hs c st n).2 := by
  unfold createGauge
  split
  · exact hg
  · split
    · exact hg
    · split
      · exact hg
      · cases hsend : s.bank.send o incAddr c with
        | none => exact hg
        | some b =>
          simp only
          obtain ⟨_, sb⟩ := Bank.send_some hsend hw
          refine GInv_append s hg _ b rfl rfl ?_
          intro i
          have := sb incAddr i
          rw [if_neg (fun x => hw x.symm), if_pos rfl] at this
          exact this

/-- `CreatePoolGauge`: the streamer module account creates the gauges -/
theorem poolGaugesLoop_ginv (denom : Nat) (hs : Bool) : ∀ (ds : List Nat) (s : State), GInv s → GInv (poolGaugesLoop denom hs ds s).2 := by
  intro ds
  induction ds with
  | nil => intro s hg; exact hg
  | cons d rest ih =>
    intro s hg
    unfold poolGaugesLoop
    have h1 := createGauge_ginv s hg streamerAddr (by decide) true denom d hs [] s.now 1
    generalize createGauge s streamerAddr true denom d hs [] s.now 1 = res at h1
    obtain ⟨o, s'⟩ := res
    cases o <;> first | exact ih s' h1 | exact h1

theorem step_ginv (s : State) (op : Op) (hg : GInv s) (hw : op.wf) : GInv (step s op).2 := by
  unfold step
  split
  · exact hg
  · cases op with
    | begin dt => exact (beginBlock_spec s dt hg).1
    | end_ =>
      simp only
      cases h : streamerEndBlock s with
      | ok s' => exact (strDistribute_spec _ _ _ _ _ _ hg h).1
      | error e => exact (Same.ginv (s := s) (s' := { s with halted := true }) ⟨rfl, rfl, rfl, rfl⟩ hg)
    | setMaxIter n => exact (Same.ginv (s := s) (s' := { s with maxIter := n }) ⟨rfl, rfl, rfl, rfl⟩ hg)
    | fund a c =>
      simp only
      refine ⟨hg.ids, hg.bounded, ?_⟩
      intro i
      have := hg.solvent i
      simp only
      rw [Bank.get_credit]
      by_cases hh : incAddr = a
      · rw [if_pos hh, ← hh]; omega
      · rw [if_neg hh]; omega
    | locks ls => exact ⟨hg.ids, hg.bounded, hg.solvent⟩
    | rollapp r o l => exact ⟨hg.ids, hg.bounded, hg.solvent⟩
    | rollappGauge r =>
      simp only
      unfold createRollappGauge
      cases hr : s.rollapps[r]? with
      | none => exact hg
      | some ra =>
        simp only
        split
        · exact hg
        · exact GInv_append s hg _ s.bank rfl rfl (by intro i; simp)
    | createGauge o p d du hs c st n => exact createGauge_ginv s hg o hw p d du hs c st n
    | addToGauge o gid c =>
      simp only
      unfold addToGauge
      split
      · exact hg
      · cases hgg : getGauge s gid with
        | none => exact hg
        | some g =>
          simp only
          split
          · exact hg
          · cases hsend : s.bank.send o incAddr c with
            | none => exact hg
            | some b =>
              simp only
              obtain ⟨_, sb⟩ := Bank.send_some hsend hw
              rw [getGauge_eq] at hgg
              obtain ⟨h1, hk, hget, hgid, hmem⟩ := getG_some hg.ids hgg
              have hk' : g.id - 1 < s.gauges.length := by rw [hgid]; exact hk
              have hget' : s.gauges[g.id - 1] = g := by
                have : g.id - 1 = gid - 1 := by rw [hgid]
                simp only [this]; exact hget
              show GInv { s with bank := b, gauges := s.gauges.set (g.id - 1) { g with coins := Coins.add g.coins c } }
              refine ⟨idsOK_set hg.ids _ _ (by show g.id = g.id - 1 + 1; omega), bounded_set hg.bounded _ _ ?_, ?_⟩
              · intro i; simp only [amt_add]; have := hg.bounded g hmem i; omega
              · intro i
                have hset := sum_map_set (owedG · i) s.gauges (g.id - 1) { g with coins := Coins.add g.coins c } hk'
                have e1 : owedG { g with coins := Coins.add g.coins c } i = amt g.coins i + amt c i - amt g.distributed i := by
                  unfold owedG; simp only [amt_add]
                have e2 : owedG s.gauges[g.id - 1] i = amt g.coins i - amt g.distributed i := by rw [hget']; rfl
                have hb := sb incAddr i
                rw [if_neg (fun x => hw x.symm), if_pos rfl] at hb
                have := hg.solvent i
                have := hg.bounded g hmem i
                simp only
                unfold owed at *
                omega
    | createStream sp c rs st e n => exact (createStream_same s sp c rs st e n).ginv hg
    | terminateStream id => exact (terminateStream_same s id).ginv hg
    | replaceDistr id rs => exact (replaceDistr_same s id rs).ginv hg
    | updateDistr id rs => exact (updateDistr_same s id rs).ginv hg
    | distribution rs => exact (Same.ginv (s := s) (s' := { s with distr := rs }) ⟨rfl, rfl, rfl, rfl⟩ hg)
    | poolGauges d hs => exact poolGaugesLoop_ginv d hs lockableDurations s hg

theorem run_ginv : ∀ (ops : List Op) (s : State), GInv s → (∀ op ∈ ops, op.wf) → GInv (run s ops) := by
  intro ops
  induction ops with
  | nil => intro s h _; exact h
  | cons op rest ih =>
    intro s h hw
    unfold run
    exact ih _ (step_ginv s op h (hw op List.mem_cons_self)) (fun o ho => hw o (List.mem_cons_of_mem _ ho))

theorem init_ginv (now mi : Nat) : GInv (init now mi) :=
  ⟨by intro k hk; simp [init] at hk, by intro g hg; simp [init] at hg, by intro i; simp [init, owed]⟩

/-- a block (begin or end) pays only legitimate, non-blocked recipients and debits nobody -/
theorem step_pay (s : State) (op : Op) (hg : GInv s) (hop : (∃ dt, op = .begin dt) ∨ op = .end_) : Pay s (step s op).2 := by
  unfold step
  split
  · exact Pay.refl _
  · rcases hop with ⟨dt, h⟩ | h
    · subst h; exact (beginBlock_spec s dt hg).2
    · subst h
      simp only
      cases h : streamerEndBlock s with
      | ok s' => exact (strDistribute_spec _ _ _ _ _ _ hg h).2
      | error e => exact (Same.pay (s := s) (s' := { s with halted := true }) ⟨rfl, rfl, rfl, rfl⟩)

end DymVerif.Incent
