/-
  Lemmas/IroArith — arithmetic facts about the LegacyDec roundings as used by M-IRO:
  truncated division bounds, exactness of `Mul` on integers, cost / taker-fee characterisations.
-/
import DymVerif.Model.Iro
namespace DymVerif.Iro
open DymVerif

theorem decP_pos : (0 : Int) < decP := by decide

theorem tdiv_decP_of_nonneg (n : Int) (h : 0 ≤ n) :
    decP * n.tdiv decP ≤ n ∧ n < decP * (n.tdiv decP + 1) := by
  rw [Int.tdiv_eq_ediv_of_nonneg h]; unfold decP; omega

theorem tdiv_decP_of_neg (n : Int) (h : n < 0) : n.tdiv decP ≤ 0 := by
  have h1 : n = -(-n) := by omega
  rw [h1, Int.neg_tdiv, Int.tdiv_eq_ediv_of_nonneg (by omega)]; unfold decP; omega

/-- a positive truncated quotient is a floor: `decP·q ≤ n < decP·(q+1)` -/
theorem tdiv_decP_pos (n : Int) (h : 0 < n.tdiv decP) :
    0 < n ∧ decP * n.tdiv decP ≤ n ∧ n < decP * (n.tdiv decP + 1) := by
  have hn : 0 ≤ n := by
    by_cases h0 : 0 ≤ n
    · exact h0
    · have := tdiv_decP_of_neg n (by omega); omega
  have hb := tdiv_decP_of_nonneg n hn
  refine ⟨?_, hb.1, hb.2⟩
  rcases Int.lt_or_eq_of_le hn with h1 | h1
  · exact h1
  · rw [← h1] at h; simp at h

/-- truncation never exceeds the exact value when the result is non-negative … -/
theorem tdiv_decP_le (n : Int) (h : 0 ≤ n) : decP * n.tdiv decP ≤ n := (tdiv_decP_of_nonneg n h).1

theorem pow10_pos (n : Nat) : 0 < pow10 n := by
  unfold pow10; have := Nat.pow_pos (n := n) (by decide : 0 < 10); omega

theorem cost_eq (I : Int → Int) (L : Nat) (x x1 : Int) :
    cost I L x x1 = ((I x1 - I x) * pow10 L).tdiv decP := by
  simp [cost, scaleToBase, Dec.sub, Dec.mulInt, Dec.truncateInt, chopTrunc]

/-- `Mul` of an integer-valued decimal is exact (the half-even rounding has nothing to round) -/
theorem chopRound_mul_decP (k : Int) : chopRound (k * decP) = k := by
  have hm : (k * decP).natAbs = k.natAbs * decPN := by
    rw [Int.natAbs_mul]; rfl
  have hp : 0 < decPN := by decide
  unfold chopRound
  simp only [hm, Nat.mul_mod_left, Nat.mul_div_cancel _ hp]
  have hh : 0 < decHalf := by decide
  simp only [hh, if_true]
  have hd : (0 : Int) < decP := by decide
  split
  · have : k < 0 := by
      by_cases hk : k < 0
      · exact hk
      · have : 0 ≤ k * decP := Int.mul_nonneg (by omega) (by omega)
        omega
    omega
  · have : 0 ≤ k := by
      by_cases hk : 0 ≤ k
      · exact hk
      · have : k * decP < 0 := Int.mul_neg_of_neg_of_pos (by omega) hd
        omega
    omega

theorem ofInt_mul_raw (a : Int) (d : Dec) : ((Dec.ofInt a).mul d).raw = a * d.raw := by
  have : a * decP * d.raw = (a * d.raw) * decP := by
    rw [Int.mul_assoc, Int.mul_comm decP, ← Int.mul_assoc]
  simp [Dec.mul, Dec.ofInt, this, chopRound_mul_decP]

theorem mul_ofInt_raw (d : Dec) (a : Int) : (d.mul (Dec.ofInt a)).raw = d.raw * a := by
  have : d.raw * (a * decP) = (d.raw * a) * decP := by rw [Int.mul_assoc]
  simp [Dec.mul, Dec.ofInt, this, chopRound_mul_decP]

/-- `ApplyTakerFee` succeeds only on a positive amount with a positive fee and a positive total -/
theorem applyTakerFee_some {amount : Int} {fee : Dec} {isAdd : Bool} {tot f : Int}
    (h : applyTakerFee amount fee isAdd = some (tot, f)) :
    0 < amount ∧ 0 < f ∧ 0 < tot ∧ tot = (if isAdd then amount + f else amount - f) := by
  unfold applyTakerFee at h
  split at h
  · simp at h
  · cases isAdd
    · simp only [Bool.false_eq_true, if_false] at h
      split at h
      · simp at h
      · simp only [Option.some.injEq, Prod.mk.injEq] at h
        obtain ⟨h1, h2⟩ := h
        subst h1 h2
        simp
        omega
    · simp only [if_true] at h
      split at h
      · simp at h
      · simp only [Option.some.injEq, Prod.mk.injEq] at h
        obtain ⟨h1, h2⟩ := h
        subst h1 h2
        simp
        omega

end DymVerif.Iro
