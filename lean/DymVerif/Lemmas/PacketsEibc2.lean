/-
  Lemmas/PacketsEibc2 — decomposition of the successful eIBC messages into their steps
  (direct, on-demand LP, authorised through a grant; fee update), and what a grant's `Accept` checked.
-/
import DymVerif.Lemmas.PacketsEibc
namespace DymVerif.Packets
open DymVerif DymVerif.Keys

theorem msgFulfill_ok {s s' : St} {a : Addr} {id : Bytes} {fee : Int} (h : msgFulfill s a id fee = .ok s') :
    ∃ o, getOutstanding s id = .ok o ∧ o.fee = fee ∧ fulfillCore s o a = .ok s' := by
  unfold msgFulfill at h
  split at h
  · cases h
  · split at h
    · cases h
    · rename_i o ho
      split at h
      · cases h
      · rename_i hfee
        exact ⟨o, ho, by simpa using hfee, h⟩

theorem msgUpdateFee_ok {s s' : St} {a : Addr} {id : Bytes} {fee : Int} (h : msgUpdateFee s a id fee = .ok s') :
    0 ≤ fee ∧ ∃ o p price, getOutstanding s id = .ok o ∧ a = o.recipient ∧ getPacket s o.trackingKey = some p ∧
      calcPrice p.amount fee (if p.ptype == .onRecv then s.bridgingFee else Dec.zero) = .ok price ∧
      s' = setOrder s { o with fee := fee, price := price, amount := p.amount, withBf := p.ptype == .onRecv } := by
  unfold msgUpdateFee at h
  split at h
  · cases h
  · rename_i hneg
    split at h
    · cases h
    · rename_i o ho
      split at h
      · cases h
      · rename_i hrec
        split at h
        · cases h
        · rename_i p hp
          split at h
          · cases h
          · rename_i price hc
            cases h
            exact ⟨Int.not_lt.mp hneg, o, p, price, ho, by simpa using hrec, hp, hc, rfl⟩

theorem calcPrice_ok {amt fee : Int} {mult : Dec} {price : Int} (h : calcPrice amt fee mult = .ok price) :
    price + fee + (mult.mulInt amt).truncateInt = amt ∧ 0 < price := by
  unfold calcPrice at h
  split at h
  · rename_i hp
    cases h
    exact ⟨by omega, hp⟩
  · cases h

-- ------------------------------------------------------------------ on-demand LPs

/-- only LP records were deleted between the two states -/
structure LpDel (s s0 : St) : Prop where
  eq : s0 = { s with lps := s0.lps }
  sub : ∀ x ∈ s0.lps, x ∈ s.lps

theorem LpDel.refl (s : St) : LpDel s s := ⟨rfl, fun _ h => h⟩

theorem LpDel.step {s s0 : St} (h : LpDel s s0) (id : Nat) : LpDel s (delLp s0 id) := by
  refine ⟨?_, fun x hx => h.sub x (List.mem_filter.mp hx).1⟩
  have := h.eq
  unfold delLp
  rw [this]

theorem onDemandLoop_ok {o : Order} : ∀ (l : List LP) {s0 s s' : St}, LpDel s s0 → onDemandLoop s0 o l = .ok s' →
    ∃ l0 ∈ l, ∃ s1 s2, LpDel s s1 ∧ fulfillCore s1 o l0.addr = .ok s2 ∧ s' = setLp s2 { l0 with spent := l0.spent + o.price }
  | [], _, _, _, _, h => by unfold onDemandLoop at h; cases h
  | x :: rest, s0, s, s', hd, h => by
    unfold onDemandLoop at h
    split at h
    · split at h
      · cases h
      · obtain ⟨l0, hl0, s1, s2, h1, h2, h3⟩ := onDemandLoop_ok rest (hd.step x.id) h
        exact ⟨l0, List.mem_cons_of_mem _ hl0, s1, s2, h1, h2, h3⟩
    · cases h
    · rename_i s2 hf
      cases h
      exact ⟨x, List.mem_cons_self, s0, s2, hd, hf, rfl⟩

theorem mem_applyPerm {perm : List Nat} {l : List LP} {x : LP} (h : x ∈ applyPerm perm l) : x ∈ l := by
  unfold applyPerm at h
  split at h
  · obtain ⟨i, _, hi⟩ := List.mem_filterMap.mp h
    exact List.mem_of_getElem? hi
  · exact h

theorem msgOnDemand_ok {s s' : St} {id : Bytes} {perm : List Nat} (h : msgOnDemand s id perm = .ok s') :
    ∃ o, getOutstanding s id = .ok o ∧ ∃ l0 ∈ compatibleLPs s o, ∃ s1 s2, LpDel s s1 ∧
      fulfillCore s1 o l0.addr = .ok s2 ∧ s' = setLp s2 { l0 with spent := l0.spent + o.price } := by
  unfold msgOnDemand at h
  split at h
  · cases h
  · rename_i o ho
    obtain ⟨l0, hl0, s1, s2, h1, h2, h3⟩ := onDemandLoop_ok _ (LpDel.refl s) h
    exact ⟨o, ho, l0, mem_applyPerm hl0, s1, s2, h1, h2, h3⟩

/-- what `Accepts` + the (rollapp, denom) index guarantee about a compatible LP -/
theorem compatible_spec {s : St} {o : Order} {l : LP} (h : l ∈ compatibleLPs s o) :
    l ∈ s.lps ∧ l.rollappId = o.rollappId ∧ l.denom = o.denom ∧ o.price ≤ l.maxPrice ∧ o.price ≤ l.spendLimit - l.spent ∧
    l.minFee ≤ o.fee ∧ l.minAge ≤ (s.h + 2 ^ 64 - o.creationHeight) % 2 ^ 64 := by
  unfold compatibleLPs at h
  obtain ⟨hm, hc⟩ := List.mem_filter.mp h
  simp only [Bool.and_eq_true, beq_iff_eq, lpAccepts, decide_eq_true_eq, lpMaxSpend] at hc
  obtain ⟨⟨h1, h2⟩, ⟨h3, h4⟩, h5⟩ := hc
  have h3' : o.price ≤ min l.maxPrice (l.spendLimit - l.spent) := of_decide_eq_true h3
  have h4' : l.minFee ≤ o.fee := h4
  have h5' : l.minAge ≤ (s.h + 2 ^ 64 - o.creationHeight) % 2 ^ 64 := h5
  refine ⟨hm, h1, h2, ?_, ?_, h4', h5'⟩
  · exact Int.le_trans h3' (Int.min_le_left _ _)
  · exact Int.le_trans h3' (Int.min_le_right _ _)

-- ------------------------------------------------------------------ authorised fulfilment

theorem validateOrder_ok {s : St} {o : Order} {m : AuthMsg} (h : validateOrder s o m = .ok ()) :
    o.rollappId = m.rollappId ∧ m.price = [(o.denom, o.price)] ∧ o.fee = m.expectedFee ∧
    (m.sv = true → settlementValidated s o = .ok true) := by
  unfold validateOrder at h
  split at h
  · cases h
  · rename_i h1
    split at h
    · cases h
    · rename_i h2
      split at h
      · cases h
      · rename_i h3
        refine ⟨by simpa using h1, by simpa using h2, by simpa using h3, ?_⟩
        intro hsv
        simp only [hsv, if_true] at h
        split at h
        · cases h
        · rename_i v hv
          split at h
          · rename_i hvt; rw [hv, hvt]
          · cases h

theorem payOperator_spec {s s' : St} {lp op : Addr} {d : Denom} {v : Int} (h : payOperator s lp op d v = some s') :
    ∀ a' d', getBal s'.bal a' d' =
      getBal s.bal a' d' - (if a' = lp ∧ d' = d then (max v 0) else 0) + (if a' = op ∧ d' = d then (max v 0) else 0) := by
  unfold payOperator at h
  split at h
  · rename_i hv
    have := (sendCoins_spec h).2
    intro a' d'
    rw [this a' d', Int.max_eq_left (Int.le_of_lt hv)]
  · rename_i hv
    cases h
    intro a' d'
    rw [Int.max_eq_right (Int.not_lt.mp hv)]
    simp

theorem fulfillAuthorizedCore_ok {s s' : St} {m : AuthMsg} (h : fulfillAuthorizedCore s m = .ok s') :
    ∃ o, getOutstanding s m.orderId = .ok o ∧ validateOrder s o m = .ok () ∧
      ∃ s1 s2, sendCoins s m.lp o.recipient o.denom o.price = some s1 ∧
        payOperator s1 m.lp m.opAddr o.denom (operatorFee o.fee m.share) = some s2 ∧
        setOrderFulfilled s2 o m.opAddr (some m.lp) = .ok s' := by
  unfold fulfillAuthorizedCore at h
  split at h
  · cases h
  · rename_i o ho
    split at h
    · cases h
    · rename_i u hv
      split at h
      · cases h
      · split at h
        · cases h
        · rename_i s1 hs1
          split at h
          · cases h
          · split at h
            · cases h
            · rename_i s2 hs2
              exact ⟨o, ho, by cases u; exact hv, s1, s2, hs1, hs2, h⟩

/-- what `FulfillOrderAuthorization.Accept` checked, about the message as the caller wrote it -/
structure Accepted (g : Grant) (m : AuthMsg) (c : Criteria) : Prop where
  first : g.crit.find? (·.rollappId == m.rollappId) = some c
  sv : c.sv = m.sv
  share : c.opShare = m.share
  denoms : c.denoms.isEmpty = false → ∀ x ∈ m.price, x.1 ∈ c.denoms
  minFee : grantMinFee c m.amount ≤ m.expectedFee
  maxPrice : coinsIsZero c.maxPrice = false → exceedsMaxPrice m.price c.maxPrice = false
  limit : coinsIsZero c.spendLimit = false → (coinsSafeSub c.spendLimit m.price).2 = false

theorem acceptGrant_ok {g : Grant} {m : AuthMsg} {r : Option Grant} (h : acceptGrant g m = .ok r) :
    ∃ c, Accepted g m c ∧ acceptSpend g c m = .ok r := by
  unfold acceptGrant at h
  split at h
  · cases h
  · rename_i c hc
    split at h
    · cases h
    · rename_i h1
      split at h
      · cases h
      · rename_i h2
        split at h
        · cases h
        · rename_i h3
          split at h
          · cases h
          · rename_i h4
            split at h
            · cases h
            · rename_i h5
              refine ⟨c, ⟨hc, by simpa using h1, by simpa using h2, ?_, Int.not_lt.mp h4, ?_, ?_⟩, h⟩
              · intro hne x hx
                simp only [hne, Bool.not_false, Bool.true_and, List.any_eq_true, Bool.not_eq_true', not_exists, not_and,
                  Bool.not_eq_false] at h3
                have := h3 x hx
                simpa using this
              · intro hz
                simpa [hz] using h5
              · intro hz
                unfold acceptSpend at h
                simp only [hz, Bool.not_false, if_true] at h
                split at h
                · cases h
                · rename_i hneg; simpa using hneg

theorem acceptSpend_result {g : Grant} {c : Criteria} {m : AuthMsg} {r : Option Grant} (h : acceptSpend g c m = .ok r) :
    (coinsIsZero c.spendLimit = true ∧ r = some g) ∨
    (coinsIsZero c.spendLimit = false ∧
      r = (if (spendCriteria g m.rollappId (coinsSafeSub c.spendLimit m.price).1).isEmpty then none
           else some { g with crit := spendCriteria g m.rollappId (coinsSafeSub c.spendLimit m.price).1 })) := by
  unfold acceptSpend at h
  cases hz : coinsIsZero c.spendLimit with
  | true => simp only [hz, Bool.not_true, Bool.false_eq_true, if_false] at h; cases h; exact Or.inl ⟨rfl, rfl⟩
  | false =>
    simp only [hz, Bool.not_false, if_true] at h
    split at h
    · cases h
    · split at h
      · rename_i he; cases h; exact Or.inr ⟨rfl, by simp [he]⟩
      · rename_i he; cases h; exact Or.inr ⟨rfl, by simp [he]⟩

theorem msgFulfillAuthorized_ok {s s' : St} {grantee : Addr} {m : AuthMsg} (h : msgFulfillAuthorized s grantee m = .ok s') :
    authMsgValid m = true ∧
    ((m.lp = grantee ∧ fulfillAuthorizedCore s m = .ok s') ∨
     (m.lp ≠ grantee ∧ ∃ g r, getGrant s m.lp grantee = some g ∧ acceptGrant g m = .ok r ∧
        fulfillAuthorizedCore (match r with | none => delGrant s m.lp grantee | some g' => setGrant s g') m = .ok s')) := by
  unfold msgFulfillAuthorized at h
  split at h
  · cases h
  · rename_i hv
    refine ⟨by simpa using hv, ?_⟩
    split at h
    · rename_i he; exact Or.inl ⟨by simpa using he, h⟩
    · rename_i he
      refine Or.inr ⟨by simpa using he, ?_⟩
      split at h
      · cases h
      · rename_i g hg
        split at h
        · cases h
        · rename_i ha; exact ⟨g, none, hg, ha, h⟩
        · rename_i g' ha; exact ⟨g, some g', hg, ha, h⟩

-- coin arithmetic of a one-coin price -------------------------------------------------------

theorem exceeds_single {d : Denom} {price : Int} {mx : Coins} (h : exceedsMaxPrice [(d, price)] mx = false) :
    coinsAmountOf mx d ≠ 0 → price ≤ coinsAmountOf mx d := by
  intro hne
  simp only [exceedsMaxPrice, List.any_cons, List.any_nil, Bool.or_false, Bool.and_eq_false_iff, bne_eq_false_iff_eq,
    decide_eq_false_iff_not, Int.not_lt] at h
  rcases h with h | h
  · exact absurd h hne
  · exact h

/-- a one-coin price fits into the spend limit: the limit lists the denom with at least the price -/
theorem safeSub_single {lim : Coins} {d : Denom} {price : Int} (hp : 0 < price)
    (h : (coinsSafeSub lim [(d, price)]).2 = false) : price ≤ coinsAmountOf lim d := by
  unfold coinsSafeSub coinsMerge at h
  simp only [List.any_append, Bool.or_eq_false_iff] at h
  obtain ⟨h1, h2⟩ := h
  cases hf : lim.find? (·.1 == d) with
  | none =>
    -- the denom is not in the limit: the price would appear negated
    exfalso
    have hany : lim.any (fun x => x.1 == d) = false := by
      cases ha : lim.any (fun x => x.1 == d) with
      | false => rfl
      | true =>
        obtain ⟨x, hx, hxd⟩ := List.any_eq_true.mp ha
        have := List.find?_eq_none.mp hf x hx
        simp [hxd] at this
    simp [List.filter, hany] at h2
    omega
  | some x =>
    have hx := List.mem_of_find?_eq_some hf
    have hxd : x.1 = d := by simpa using List.find?_some hf
    have : coinsAmountOf lim d = x.2 := by unfold coinsAmountOf; rw [hf]
    rw [this]
    have h1' := List.any_eq_false.mp h1 (x.1, x.2 - coinsAmountOf [(d, price)] x.1) (List.mem_map.mpr ⟨x, hx, rfl⟩)
    simp only [decide_eq_true_eq, Int.not_lt] at h1'
    have hc : coinsAmountOf [(d, price)] x.1 = price := by
      unfold coinsAmountOf; simp [List.find?, hxd]
    rw [hc] at h1'
    omega

end DymVerif.Packets
