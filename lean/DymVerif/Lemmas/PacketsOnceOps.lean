/-
  Lemmas/PacketsOnceOps — every operation of M-Packets preserves the C04 invariant `Inv04`.
-/
import DymVerif.Lemmas.PacketsOnce
namespace DymVerif.Packets
open DymVerif DymVerif.Keys

theorem finHeight_frame {s s' : St} (f : DFrame s s') (r : Bytes) : finHeight s' r = finHeight s r := by
  unfold finHeight getRa; rw [f.ras]

theorem inv_setPacket_show {s : St} {p : Packet} (h : InvF (storeSet s.packets p) s.receipts s.commits s.nextSeq s.log) :
    Inv04 (setPacket s p) := h

theorem inv_addByAddr {s : St} (a k) (h : Inv04 s) : Inv04 (addByAddr s a k) := h
theorem inv_delByAddr {s : St} (a k) (h : Inv04 s) : Inv04 (delByAddr s a k) := h

theorem inv_delPacket {s : St} (k : Bytes) (h : Inv04 s) : Inv04 (delPacket s k) :=
  InvF.filter h _

theorem logRelease_inv {s : St} {p : Packet} {ra : Option Bytes} {v : Bool}
    (h : InvF s.packets s.receipts s.commits s.nextSeq (s.log ++ [logEntry s p ra v])) : Inv04 (logRelease s p ra v) := h

theorem logEntry_uid (s : St) (p : Packet) (ra v) : (logEntry s p ra v).uid = p.uid := rfl

/-- the entry logged for a pass-through or a finalization is at or below the finalized height -/
theorem EOk_logEntry_pass {s : St} {p : Packet} {ra : Option Bytes} {v : Bool}
    (h : ra.isNone || isFinalizedFor s ra p.proofHeight = true) : EOk (logEntry s p ra v) := by
  intro r hr
  simp only [logEntry] at hr
  subst hr
  simp only [Option.isNone_some, Bool.false_or, isFinalizedFor] at h
  simp only [logEntry]
  cases hf : finHeight s r with
  | none => simp [hf] at h
  | some f => simp [hf] at h; exact ⟨f, rfl, h⟩

-- ------------------------------------------------------------------ receive

theorem mkRecvPacket_uid (s : St) (c seq ph : Nat) (rid : Bytes) (d : RecvData) (tgt : Addr) :
    (mkRecvPacket s c seq ph rid d tgt).uid = (true, c, seq) := rfl

theorem inv_recvFail {s0 : St} (c seq : Nat) (h : Inv04 s0) : Inv04 (recvFail s0 c seq).1 :=
  Inv04.of_frame (frame_writeAck s0 c seq false) h

theorem inv_recvAuth {s0 : St} (c seq ph : Nat) (d : RecvData) (h0 : Inv04 s0)
    (hnl : ¬ loggedL s0.log (true, c, seq)) (hnp : ¬ pendL s0.packets (true, c, seq)) (e_rc : (c, seq) ∈ s0.receipts) :
    Inv04 (recvAuth s0 c seq ph d).1 := by
  unfold recvAuth
  split
  · exact inv_recvFail c seq h0
  · rename_i ra hra
    split
    · exact inv_recvFail c seq h0
    · split
      · exact inv_recvFail c seq h0
      · rename_i tgt htgt
        split
        · -- pass through
          rename_i hpass
          unfold recvPass
          split
          · exact inv_recvFail c seq h0
          · rename_i s1 hics
            have f1 := frame_icsRecv hics
            have h1 : Inv04 s1 := Inv04.of_frame f1 h0
            apply Inv04.of_frame (frame_writeAck _ c seq true)
            apply logRelease_inv
            apply InvF.logAppend h1
            · apply EOk_logEntry_pass
              have : isFinalizedFor s1 ra ph = isFinalizedFor s0 ra ph := by
                unfold isFinalizedFor
                cases ra with
                | none => rfl
                | some r => simp only [finHeight_frame f1]
              simpa [mkRecvPacket, this] using hpass
            · rw [logEntry_uid, mkRecvPacket_uid, f1.log]; exact hnl
            · rw [logEntry_uid, mkRecvPacket_uid, f1.packets]; exact hnp
            · intro c' q' e
              rw [logEntry_uid, mkRecvPacket_uid] at e
              obtain ⟨-, rfl, rfl⟩ := Prod.mk.inj e |>.imp id Prod.mk.inj
              rw [f1.receipts]; exact e_rc
            · intro c' q' e
              rw [logEntry_uid, mkRecvPacket_uid] at e
              simp at e
        · -- delayed
          unfold recvDelay
          split
          · exact inv_recvFail c seq h0
          · split
            · exact inv_recvFail c seq h0
            · rename_i s2 he
              refine Inv04.of_frame (frame_eibcOnRecv he) ?_
              apply inv_setPacket_show
              apply InvF.setPending (inv_addByAddr _ _ h0)
              · rw [mkRecvPacket_uid]; exact hnl
              · rw [mkRecvPacket_uid]; exact hnp
              · intro c' q' e
                rw [mkRecvPacket_uid] at e
                obtain ⟨-, rfl, rfl⟩ := Prod.mk.inj e |>.imp id Prod.mk.inj
                exact e_rc
              · intro c' q' e
                rw [mkRecvPacket_uid] at e
                simp at e

theorem inv_markFwd {s : St} (k q : Nat) (r : Nat × Nat) (h : Inv04 s) : Inv04 (markFwd s k q r) := h

-- (inv_recvForward, inv_recvOpen: after inv_sendOpen)

-- ------------------------------------------------------------------ send

theorem inv_sendOpen {s s' : St} {a c d amt} (h : Inv04 s) (hs : sendOpen s a c d amt = .ok s') : Inv04 s' := by
  unfold sendOpen at hs
  split at hs
  · cases hs
  · split at hs
    · cases hs
    · split at hs
      · cases hs
      · cases hs
        have f : DFrame s (lockCoins s a c d amt) := by
          unfold lockCoins
          split
          · exact (frame_debit s _ _ _).trans (frame_credit _ _ _ _)
          · exact frame_debit s _ _ _
        have h1 : Inv04 (lockCoins s a c d amt) := Inv04.of_frame f h
        have := InvF.send h1 c
        unfold Inv04 recordSent
        simp only [getNextSeq_eq]
        rw [f.nextSeq] at this ⊢
        exact this

theorem inv_recvForward {s0 : St} (c seq ph : Nat) (d : RecvData) (k : Nat) (h0 : Inv04 s0)
    (hnl : ¬ loggedL s0.log (true, c, seq)) (hnp : ¬ pendL s0.packets (true, c, seq)) (e_rc : (c, seq) ∈ s0.receipts) :
    Inv04 (recvForward s0 c seq ph d k).1 := by
  unfold recvForward
  have ha := inv_recvAuth c seq ph { d with target := some (pfmAddr c), memo := .none } h0 hnl hnp e_rc
  split
  · rename_i s1 hr
    rw [hr] at ha
    split
    · rename_i s2 hs
      have h1 : Inv04 { s1 with acks := s0.acks } := ha
      exact inv_markFwd _ _ _ (inv_sendOpen h1 (sendTransfer_ok hs))
    · exact inv_recvFail c seq h0
  · exact inv_recvFail c seq h0

theorem inv_recvOpen {s : St} (c seq ph : Nat) (d : RecvData) (h : Inv04 s) : Inv04 (recvOpen s c seq ph d).1 := by
  unfold recvOpen
  split
  · exact h
  · rename_i hc
    have hnr : (c, seq) ∉ s.receipts := by simpa using hc
    have hnl : ¬ loggedL s.log (true, c, seq) := fun hl => hnr (InvF.rcv h c seq (Or.inl hl))
    have hnp : ¬ pendL s.packets (true, c, seq) := fun hp => hnr (InvF.rcv h c seq (Or.inr hp))
    have h0 : Inv04 { s with receipts := s.receipts ++ [(c, seq)] } := InvF.addReceipt h (c, seq)
    have e_rc : (c, seq) ∈ ({ s with receipts := s.receipts ++ [(c, seq)] } : St).receipts := by simp
    split
    · exact inv_recvForward c seq ph d _ h0 hnl hnp e_rc
    · exact inv_recvAuth c seq ph d h0 hnl hnp e_rc

-- ------------------------------------------------------------------ acknowledgement / timeout

theorem sentType_ne_recv (b : Bool) : (sentType b == PType.onRecv) = false := by
  cases b <;> rfl

theorem mkSentPacket_uid (s : St) (x : Sent) (b : Bool) (ph : Nat) (rid : Bytes) (e : Bool) :
    (mkSentPacket s x (sentType b) ph rid e).uid = (false, x.chan, x.seq) := by
  simp [Packet.uid, mkSentPacket, sentType_ne_recv]

theorem getSent_some {s : St} {c seq : Nat} {x : Sent} (h : getSent s c seq = some x) : x.chan = c ∧ x.seq = seq := by
  unfold getSent at h
  have := List.find?_some h
  simpa using this

theorem inv_ackOpen {s s' : St} {c seq ph : Nat} {isTimeout isErr : Bool} (h : Inv04 s)
    (ha : ackOpen s c seq ph isTimeout isErr = .ok (some s')) : Inv04 s' := by
  unfold ackOpen at ha
  split at ha
  · cases ha
  · rename_i hc
    have hmem : (c, seq) ∈ s.commits := by simpa using hc
    have hnl : ¬ loggedL s.log (false, c, seq) := fun hl => (InvF.snt h c seq (Or.inl hl)).1 hmem
    have hnp : ¬ pendL s.packets (false, c, seq) := fun hp => (InvF.snt h c seq (Or.inr hp)).1 hmem
    have hlt : seq < nextOf s.nextSeq c := InvF.bound h c seq hmem
    split at ha
    · cases ha
    · rename_i x hx
      obtain ⟨rfl, rfl⟩ := getSent_some hx
      generalize hs0 : ({ s with commits := s.commits.filter (· != (x.chan, x.seq)) } : St) = s0 at ha
      have h0 : Inv04 s0 := by subst hs0; exact InvF.delCommit h _
      have e_pk : s0.packets = s.packets := by subst hs0; rfl
      have e_lg : s0.log = s.log := by subst hs0; rfl
      have e_ns : s0.nextSeq = s.nextSeq := by subst hs0; rfl
      have e_cm : (x.chan, x.seq) ∉ s0.commits := by subst hs0; simp
      rw [← e_lg] at hnl
      rw [← e_pk] at hnp
      rw [← e_ns] at hlt
      unfold ackAuth at ha
      split at ha
      · cases ha
      · rename_i ra hra
        split at ha
        · rename_i hpass
          unfold ackPass at ha
          have key : ∀ s1 : St, DFrame s0 s1 →
              Inv04 (logRelease s1 (mkSentPacket s0 x (sentType isTimeout) ph (ra.getD []) (!isTimeout && isErr)) ra false) := by
            intro s1 f1
            have h1 : Inv04 s1 := Inv04.of_frame f1 h0
            apply logRelease_inv
            apply InvF.logAppend h1
            · apply EOk_logEntry_pass
              have : isFinalizedFor s1 ra ph = isFinalizedFor s0 ra ph := by
                unfold isFinalizedFor
                cases ra with
                | none => rfl
                | some r => simp only [finHeight_frame f1]
              simpa [mkSentPacket, this] using hpass
            · rw [logEntry_uid, mkSentPacket_uid, f1.log]; exact hnl
            · rw [logEntry_uid, mkSentPacket_uid, f1.packets]; exact hnp
            · intro c' q' e
              rw [logEntry_uid, mkSentPacket_uid] at e
              simp at e
            · intro c' q' e
              rw [logEntry_uid, mkSentPacket_uid] at e
              obtain ⟨-, rfl, rfl⟩ := Prod.mk.inj e |>.imp id Prod.mk.inj
              rw [f1.commits, f1.nextSeq]; exact ⟨e_cm, hlt⟩
          split at ha
          · split at ha
            · cases ha
            · rename_i s1 hics
              cases ha
              exact key s1 (frame_icsRefund hics)
          · cases ha
            exact key s0 (DFrame.refl s0)
        · unfold ackDelay at ha
          have key : Inv04 (setPacket (addByAddr s0 (mkSentPacket s0 x (sentType isTimeout) ph (ra.getD []) (!isTimeout && isErr)).target
              (pkey (mkSentPacket s0 x (sentType isTimeout) ph (ra.getD []) (!isTimeout && isErr))))
              (mkSentPacket s0 x (sentType isTimeout) ph (ra.getD []) (!isTimeout && isErr))) := by
            apply inv_setPacket_show
            apply InvF.setPending (inv_addByAddr _ _ h0)
            · rw [mkSentPacket_uid]; exact hnl
            · rw [mkSentPacket_uid]; exact hnp
            · intro c' q' e
              rw [mkSentPacket_uid] at e
              simp at e
            · intro c' q' e
              rw [mkSentPacket_uid] at e
              obtain ⟨-, rfl, rfl⟩ := Prod.mk.inj e |>.imp id Prod.mk.inj
              exact ⟨e_cm, hlt⟩
          split at ha
          · cases ha
          · split at ha
            · split at ha
              · cases ha
              · rename_i s2 he
                cases ha
                exact Inv04.of_frame (frame_eibcOnRefund (eibcRefundHandler_ok he)) key
            · cases ha
              exact key

-- ------------------------------------------------------------------ finalization

theorem pkey_congr {p q : Packet} (h1 : p.status = q.status) (h2 : p.rollappId = q.rollappId) (h3 : p.proofHeight = q.proofHeight)
    (h4 : p.ptype = q.ptype) (h5 : p.srcChan = q.srcChan) (h6 : p.seq = q.seq) : pkey p = pkey q := by
  unfold pkey; rw [h1, h2, h3, h4, h5, h6]

theorem restoreTarget_fields (p : Packet) :
    (restoreTarget p).status = p.status ∧ (restoreTarget p).rollappId = p.rollappId ∧ (restoreTarget p).proofHeight = p.proofHeight ∧
    (restoreTarget p).ptype = p.ptype ∧ (restoreTarget p).srcChan = p.srcChan ∧ (restoreTarget p).seq = p.seq ∧
    (restoreTarget p).chan = p.chan := by
  unfold restoreTarget; split <;> simp

theorem pkey_restoreTarget (p : Packet) : pkey (restoreTarget p) = pkey p := by
  obtain ⟨a, b, c, d, e, f, _⟩ := restoreTarget_fields p
  exact pkey_congr a b c d e f

theorem pkey_finalizedRecord (p : Packet) (b : Option PErr) : pkey (finalizedRecord p b) = pkey p := rfl

theorem finalizedRecord_status (p : Packet) (b : Option PErr) : (finalizedRecord p b).status = p.status := rfl

theorem inv_finalizePacket {s s' : St} {k : Bytes} (h : Inv04 s) (hf : finalizePacket s k = .ok s') : Inv04 s' := by
  unfold finalizePacket at hf
  split at hf
  · cases hf
  · rename_i p hp
    obtain ⟨hmem, -⟩ := getPacket_some hp
    split at hf
    · cases hf
    · rename_i hv
      unfold updateAfterFinalization at hf
      split at hf
      · cases hf
      · rename_i hst
        cases hf
        have hpend : p.status = .pending := by
          rw [finalizedRecord_status] at hst
          simpa using hst
        apply Inv04.of_frame (frame_afterPacketStatusUpdated _ _ _ _)
        apply inv_setPacket_show
        simp only [delPacket_receipts, delPacket_commits, delPacket_nextSeq, delPacket_log, delByAddr_receipts, delByAddr_commits,
          delByAddr_nextSeq, delByAddr_log]
        apply InvF.setNonPending
        · -- the log entry, then the pending packet is taken out
          have f1 := frame_releaseEffect s p
          have h1 : Inv04 (releaseEffect s p).1 := Inv04.of_frame f1 h
          have hlog : InvF ((releaseEffect s p).1.packets.filter (fun q => pkey q != pkey p)) (releaseEffect s p).1.receipts
              (releaseEffect s p).1.commits (releaseEffect s p).1.nextSeq ((releaseEffect s p).1.log ++ [logEntry (releaseEffect s p).1 p (some p.rollappId) true]) := by
            apply InvF.logAppend (InvF.filter h1 _)
            · intro r hr
              simp only [logEntry] at hr
              cases hr
              simp only [logEntry, finHeight_frame f1]
              unfold verifyHeightFinalized at hv
              split at hv
              · cases hv
              · rename_i f hfin
                split at hv
                · cases hv
                · rename_i hlt
                  exact ⟨f, hfin, Nat.not_lt.mp hlt⟩
            · rw [logEntry_uid, f1.log]
              intro hl
              exact InvF.excl h _ hl ⟨p, hmem, hpend, rfl⟩
            · rw [logEntry_uid, f1.packets]
              rintro ⟨q, hq, s1, s2⟩
              have hq' := List.mem_filter.mp hq
              have : q = p := InvF.uniq h q hq'.1 p hmem s1 hpend s2
              subst this
              simp at hq'
            · intro c q e
              rw [logEntry_uid] at e
              rw [f1.receipts]
              exact InvF.rcv h c q (Or.inr ⟨p, hmem, hpend, e⟩)
            · intro c q e
              rw [logEntry_uid] at e
              rw [f1.commits, f1.nextSeq]
              exact InvF.snt h c q (Or.inr ⟨p, hmem, hpend, e⟩)
          simp only [logRelease, delPacket, delByAddr, pkey_finalizedRecord]
          exact hlog
        · simp [flipped]

theorem inv_msgFinalize {s s' : St} {a rid ph t src seq} (h : Inv04 s) (hf : msgFinalize s a rid ph t src seq = .ok s') : Inv04 s' := by
  unfold msgFinalize at hf
  split at hf
  · cases hf
  · exact inv_finalizePacket h hf

theorem inv_msgFinalizeByKey {s s' : St} {a b} (h : Inv04 s) (hf : msgFinalizeByKey s a b = .ok s') : Inv04 s' := by
  unfold msgFinalizeByKey at hf
  split at hf
  · cases hf
  · split at hf
    · cases hf
    · exact inv_finalizePacket h hf

-- ------------------------------------------------------------------ fulfilment family

theorem inv_updateTransferAddress {s s' : St} {k : Bytes} {a : Addr} (h : Inv04 s)
    (hu : updateTransferAddress s k a = .ok s') : Inv04 s' := by
  unfold updateTransferAddress at hu
  split at hu
  · cases hu
  · rename_i p hp
    obtain ⟨hmem, -⟩ := getPacket_some hp
    split at hu
    · cases hu
    · cases hu
      apply inv_setPacket_show
      exact InvF.replace h p (retarget p a) hmem (pkey_congr rfl rfl rfl rfl rfl rfl) rfl rfl

theorem inv_setOrderFulfilled {s s' : St} {o f c} (h : Inv04 s) (hu : setOrderFulfilled s o f c = .ok s') : Inv04 s' := by
  unfold setOrderFulfilled at hu
  exact inv_updateTransferAddress (Inv04.of_frame (frame_setOrder s _) h) hu

theorem inv_fulfillCore {s s' : St} {o f} (h : Inv04 s) (hu : fulfillCore s o f = .ok s') : Inv04 s' := by
  unfold fulfillCore at hu
  split at hu
  · cases hu
  · split at hu
    · cases hu
    · rename_i s1 hs
      exact inv_setOrderFulfilled (Inv04.of_frame (frame_sendCoins hs) h) hu

theorem inv_msgFulfill {s s' : St} {a id fee} (h : Inv04 s) (hu : msgFulfill s a id fee = .ok s') : Inv04 s' := by
  unfold msgFulfill at hu
  split at hu
  · cases hu
  · split at hu
    · cases hu
    · split at hu
      · cases hu
      · exact inv_fulfillCore h hu

theorem inv_onDemandLoop {o : Order} : ∀ (l : List LP) {s s' : St}, Inv04 s → onDemandLoop s o l = .ok s' → Inv04 s'
  | [], s, s', _, hu => by unfold onDemandLoop at hu; cases hu
  | x :: rest, s, s', h, hu => by
    unfold onDemandLoop at hu
    split at hu
    · split at hu
      · cases hu
      · exact inv_onDemandLoop rest (Inv04.of_frame (frame_delLp s _) h) hu
    · cases hu
    · rename_i s1 hf
      cases hu
      exact Inv04.of_frame (frame_setLp s1 _) (inv_fulfillCore h hf)

theorem inv_msgOnDemand {s s' : St} {id perm} (h : Inv04 s) (hu : msgOnDemand s id perm = .ok s') : Inv04 s' := by
  unfold msgOnDemand at hu
  split at hu
  · cases hu
  · exact inv_onDemandLoop _ h hu

theorem frame_payOperator {s s' : St} {a b d v} (h : payOperator s a b d v = some s') : DFrame s s' := by
  unfold payOperator at h
  split at h
  · exact frame_sendCoins h
  · cases h; exact DFrame.refl s

theorem inv_fulfillAuthorizedCore {s s' : St} {m} (h : Inv04 s) (hu : fulfillAuthorizedCore s m = .ok s') : Inv04 s' := by
  unfold fulfillAuthorizedCore at hu
  split at hu
  · cases hu
  · split at hu
    · cases hu
    · split at hu
      · cases hu
      · split at hu
        · cases hu
        · rename_i s1 hs
          split at hu
          · cases hu
          · split at hu
            · cases hu
            · rename_i s2 hp
              exact inv_setOrderFulfilled (Inv04.of_frame ((frame_sendCoins hs).trans (frame_payOperator hp)) h) hu

theorem inv_msgFulfillAuthorized {s s' : St} {g m} (h : Inv04 s) (hu : msgFulfillAuthorized s g m = .ok s') : Inv04 s' := by
  unfold msgFulfillAuthorized at hu
  split at hu
  · cases hu
  · split at hu
    · exact inv_fulfillAuthorizedCore h hu
    · split at hu
      · cases hu
      · split at hu
        · cases hu
        · exact inv_fulfillAuthorizedCore (Inv04.of_frame (frame_delGrant s _ _) h) hu
        · exact inv_fulfillAuthorizedCore (Inv04.of_frame (frame_setGrant s _) h) hu

-- ------------------------------------------------------------------ deletion: epoch, hard fork

theorem inv_deletePacket {s : St} (p : Packet) (h : Inv04 s) : Inv04 (deletePacket s p) := by
  unfold deletePacket
  exact Inv04.of_frame ((frame_delOrder _ _ _).trans (frame_delOrder _ _ _)) (inv_delByAddr _ _ (inv_delPacket _ h))

theorem inv_foldl_deletePacket : ∀ (l : List Packet) {s : St}, Inv04 s → Inv04 (l.foldl deletePacket s)
  | [], _, h => h
  | p :: rest, _, h => inv_foldl_deletePacket rest (inv_deletePacket p h)

theorem inv_epochCleanup {s : St} (h : Inv04 s) : Inv04 (epochCleanup s) := inv_foldl_deletePacket _ h

theorem deletePacket_packets (s : St) (p : Packet) : (deletePacket s p).packets = s.packets.filter (fun q => pkey q != pkey p) := rfl

theorem inv_revertPacket {s : St} {p : Packet} (h : Inv04 s) (hp : p ∈ s.packets) (hst : p.status = .pending) :
    Inv04 (revertPacket s p) := by
  unfold revertPacket deletePacket
  apply Inv04.of_frame ((frame_delOrder _ _ _).trans (frame_delOrder _ _ _))
  apply inv_delByAddr
  unfold revertIbc
  cases hr : (p.ptype == PType.onRecv)
  · simp only [Bool.false_eq_true, if_false]
    exact InvF.revertSent h p hp hst hr
  · simp only [if_true]
    exact InvF.revertRecv h p hp hst hr

theorem revertPacket_packets (s : St) (p : Packet) : (revertPacket s p).packets = s.packets.filter (fun q => pkey q != pkey p) := by
  unfold revertPacket
  rw [deletePacket_packets]
  unfold revertIbc
  split <;> rfl

theorem inv_foldl_revertPacket : ∀ (l : List Packet) {s : St}, Inv04 s → (∀ p ∈ l, p ∈ s.packets ∧ p.status = .pending) →
    l.Pairwise (fun a b => pkey a ≠ pkey b) → Inv04 (l.foldl revertPacket s)
  | [], _, h, _, _ => h
  | p :: rest, s, h, hl, hpw => by
    rw [List.pairwise_cons] at hpw
    apply inv_foldl_revertPacket rest (inv_revertPacket h (hl p List.mem_cons_self).1 (hl p List.mem_cons_self).2)
    · intro q hq
      refine ⟨?_, (hl q (List.mem_cons_of_mem _ hq)).2⟩
      rw [revertPacket_packets]
      refine List.mem_filter.mpr ⟨(hl q (List.mem_cons_of_mem _ hq)).1, ?_⟩
      simpa using (hpw.1 q hq).symm
    · exact hpw.2

-- a key inside the hard-fork range belongs to a pending packet
theorem forkRange_pending {rid : Bytes} {lv : Nat} {p : Packet} (h : forkRange rid lv (pkey p) = true) : p.status = .pending := by
  cases hs : p.status with
  | pending => rfl
  | finalized =>
    exfalso
    unfold forkRange pendingFromHeightRange byStatusRollappHeightPrefix byStatusRollappPrefix byStatusPrefix at h
    unfold pkey rollappPacketKey byStatusRollappHeightPrefix byStatusRollappPrefix byStatusPrefix at h
    rw [hs] at h
    simp [statusBytes, inRange, lexLe, lexLt] at h

theorem inv_onHardFork {s : St} (rid : Bytes) (lv : Nat) (h : Inv04 s) : Inv04 (onHardFork s rid lv) := by
  unfold onHardFork
  apply inv_foldl_revertPacket _ h
  · intro p hp
    have := List.mem_filter.mp hp
    exact ⟨this.1, forkRange_pending this.2⟩
  · exact List.Pairwise.filter _ (InvF.keys h)

theorem inv_setRa {s : St} (r : Rollapp) (h : Inv04 s) : Inv04 (setRa s r) := h

theorem inv_forkRollapp {s s' : St} {rid lv} (h : Inv04 s) (hf : forkRollapp s rid lv = .ok s') : Inv04 s' := by
  unfold forkRollapp at hf
  split at hf
  · cases hf
  · split at hf
    · cases hf
    · split at hf
      · cases hf
      · split at hf
        · cases hf
        · cases hf
          exact inv_onHardFork _ _ (inv_setRa _ h)

theorem inv_addState {s s' : St} {rid n} (h : Inv04 s) (hf : addState s rid n = .ok s') : Inv04 s' := by
  unfold addState at hf
  split at hf
  · cases hf
  · split at hf
    · cases hf
    · cases hf; exact inv_setRa _ h

theorem inv_finalizeState {s s' : St} {rid} (h : Inv04 s) (hf : finalizeState s rid = .ok s') : Inv04 s' := by
  unfold finalizeState at hf
  split at hf
  · cases hf
  · split at hf
    · cases hf; exact inv_setRa _ h
    · cases hf

theorem inv_ofM {s : St} {m : M St} (h : Inv04 s) (hm : ∀ s', m = .ok s' → Inv04 s') : Inv04 (ofM s m).1 := by
  cases m with
  | ok s' => exact hm s' rfl
  | error e => exact h

/-- every operation preserves the C04 invariant -/
theorem inv_step {s : St} (o : Op) (h : Inv04 s) : Inv04 (step s o).1 := by
  cases o with
  | recv c seq ph d =>
    show Inv04 (recvPacket s c seq ph d).1
    rcases recvPacket_cases s c seq ph d with e | e <;> rw [e]
    · exact h
    · exact inv_recvOpen c seq ph d h
  | send a c d amt => exact inv_ofM h (fun _ e => inv_sendOpen h (sendTransfer_ok e))
  | ack c seq ph isErr =>
    simp only [step]
    split
    · exact h
    · rename_i s' e; exact inv_ackOpen h (ackPacket_ok e)
    · exact h
  | timeout c seq ph =>
    simp only [step]
    split
    · exact h
    · rename_i s' e; exact inv_ackOpen h (ackPacket_ok e)
    · exact h
  | chanClose c => exact inv_ofM h (fun _ e => Inv04.of_frame (frame_setChanClosed e) h)
  | chanOpen c => exact inv_ofM h (fun _ e => Inv04.of_frame (frame_setChanClosed e) h)
  | timeoutOnClose c seq => exact inv_ofM h (fun _ e => by unfold timeoutOnClose at e; split at e <;> cases e; exact h)
  | sendBlk a c d amt =>
    exact inv_ofM h (fun _ e => by
      obtain ⟨s1, hs, rfl⟩ := sendBlk_ok e
      exact (inv_sendOpen h hs : Inv04 s1))
  | finalize a rid ph t src seq => exact inv_ofM h (fun _ e => inv_msgFinalize h e)
  | finalizeByKey a b => exact inv_ofM h (fun _ e => inv_msgFinalizeByKey h e)
  | fulfill a id fee => exact inv_ofM h (fun _ e => inv_msgFulfill h e)
  | fulfillAuth g m => exact inv_ofM h (fun _ e => inv_msgFulfillAuthorized h e)
  | onDemand a id perm => exact inv_ofM h (fun _ e => inv_msgOnDemand h e)
  | updateFee a id fee => exact inv_ofM h (fun _ e => Inv04.of_frame (frame_msgUpdateFee e) h)
  | createLp l ok => exact inv_ofM h (fun _ e => Inv04.of_frame (frame_msgCreateLp e) h)
  | deleteLps a ids => exact inv_ofM h (fun _ e => Inv04.of_frame (frame_msgDeleteLps ids e) h)
  | grant g => exact inv_ofM h (fun _ e => Inv04.of_frame (frame_msgGrant e) h)
  | addState rid n => exact inv_ofM h (fun _ e => inv_addState h e)
  | finalizeState rid => exact inv_ofM h (fun _ e => inv_finalizeState h e)
  | fork rid lv => exact inv_ofM h (fun _ e => inv_forkRollapp h e)
  | epoch => exact inv_epochCleanup h
  | block => exact h

theorem inv_run : ∀ (ops : List Op) {s : St}, Inv04 s → Inv04 (run s ops)
  | [], _, h => h
  | o :: rest, s, h => by
    show Inv04 (run (step s o).1 rest)
    exact inv_run rest (inv_step o h)

theorem inv_init (n : Nat) (fund : Int) (a b c : Dec) (r0 r1 : Bytes) (ch : List Chan) : Inv04 (initSt n fund a b c r0 r1 ch) where
  final := by intro e he; cases he
  nodup := List.nodup_nil
  excl := by intro u hl; cases hl
  rcv := by
    intro c q hh
    rcases hh with hl | ⟨p, hp, _⟩
    · cases hl
    · cases hp
  snt := by
    intro c q hh
    rcases hh with hl | ⟨p, hp, _⟩
    · cases hl
    · cases hp
  bound := by intro c q hm; cases hm
  keys := List.Pairwise.nil
  uniq := by intro p hp; cases hp

end DymVerif.Packets
