/-
  Lemmas/CoreRolesS — how every function of M-Core moves the successor field of every rollapp: it is
  set only by begin-block (for a rollapp whose proposer's notice has just expired, to the proposer
  choice), and otherwise only ever cleared.
-/
import DymVerif.Lemmas.CoreRolesOut
namespace DymVerif.Core.Roles

/-- the successor slot of rollapp `id` -/
def succOf (s : St) (id : Nat) : Option (Option Addr) := (getRa s id).map (·.successor)

/-- every successor slot is the same or has been cleared -/
def SClr (s s' : St) : Prop := ∀ id, succOf s' id = succOf s id ∨ succOf s' id = some none

theorem SClr.refl (s : St) : SClr s s := fun _ => Or.inl rfl
theorem SClr.trans {s1 s2 s3 : St} (h1 : SClr s1 s2) (h2 : SClr s2 s3) : SClr s1 s3 := by
  intro id
  rcases h2 id with h | h
  · rw [h]; exact h1 id
  · exact Or.inr h

theorem SClr.of_ras {s s' : St} (e : s'.ras = s.ras) : SClr s s' := by
  intro id; left; unfold succOf; rw [getRa_congr e]

theorem Frame.sclr {s s' : St} (f : Frame s s') : SClr s s' := by
  intro id
  left
  unfold succOf
  cases h1 : getRa s id with
  | none =>
    have := f.ra_map id
    rw [h1] at this
    cases h2 : getRa s' id with
    | none => rfl
    | some _ => rw [h2] at this; cases this
  | some r =>
    obtain ⟨r', hr', _, _, hs⟩ := f.ra_some h1
    rw [hr']; simp [hs]

theorem succOf_get {s : St} {id : Nat} {r : Rollapp} (hg : getRa s id = some r) : succOf s id = some r.successor := by
  unfold succOf; rw [hg]; rfl

theorem succOf_setRa {s : St} {id0 : Nat} {r r0 : Rollapp} (hg : getRa s id0 = some r0) (hid : r.id = r0.id) (id : Nat) :
    succOf (setRa s r) id = if id = r.id then some r.successor else succOf s id := by
  unfold succOf
  by_cases hc : id = r.id
  · subst hc; rw [if_pos rfl, getRa_setRa_same' hg hid]; rfl
  · rw [if_neg hc, getRa_setRa_other (Ne.symm hc)]

/-- writing a rollapp record whose successor is unchanged or cleared -/
theorem sclr_setRa {s : St} {id0 : Nat} {r r0 : Rollapp} (hg : getRa s id0 = some r0) (hid : r.id = r0.id)
    (hs : r.successor = r0.successor ∨ r.successor = none) : SClr s (setRa s r) := by
  intro id
  rw [succOf_setRa hg hid]
  split
  · rename_i hc
    have : getRa s id = some r0 := by rw [hc, hid, getRa_id hg]; exact hg
    rw [succOf_get this]
    rcases hs with hs | hs
    · left; rw [hs]
    · right; rw [hs]
  · left; rfl

theorem recoverFromSentinel_sclr {s s' : St} {ra : Nat} (u : Uniq s) (e : recoverFromSentinel s ra = .ok s') : SClr s s' := by
  unfold recoverFromSentinel at e
  split at e
  · cases e
  · rename_i r hg
    split at e
    · cases e
    · split at e
      · cases e
      · rename_i a _
        injection e with e; subst e
        exact (sclr_setRa (r0 := r) hg (by rfl) (Or.inl (by rfl))).trans
          (afterSetRealProposer_frame (u.of_setRa _) ra a).sclr

theorem abruptRemoveProposer_sclr (s : St) (ra : Nat) : SClr s (abruptRemoveProposer s ra) := by
  unfold abruptRemoveProposer
  split
  · exact SClr.refl s
  · split
    · exact SClr.refl s
    · split
      · exact SClr.refl s
      · rename_i q _
        have h1 : SClr s (setSeq (removeFromNoticeQueue s q) { q with bonded := false }) :=
          SClr.of_ras (removeFromNoticeQueue_ras s q)
        apply h1.trans
        unfold setProposer
        split
        · exact SClr.refl _
        · rename_i r hg
          exact sclr_setRa (r0 := r) hg (by rfl) (Or.inl (by rfl))

theorem seqOnHardFork_sclr (s : St) (ra : Nat) : SClr s (seqOnHardFork s ra) := by
  unfold seqOnHardFork
  have h1 : SClr s (optOutAll s ra) := SClr.of_ras rfl
  apply (h1.trans (abruptRemoveProposer_sclr _ ra)).trans
  unfold setSuccessor
  split
  · exact SClr.refl _
  · rename_i r hg
    exact sclr_setRa (r0 := r) hg (by rfl) (Or.inr (by rfl))

theorem hardFork_sclr {s s' : St} {ra lv : Nat} (u : Uniq s) (e : hardFork s ra lv = .ok s') : SClr s s' := by
  unfold hardFork at e
  split at e
  · cases e
  · rename_i r hg
    split at e
    · cases e
    · split at e
      · cases e
      · split at e
        · cases e
        · rename_i keep kst _
          dsimp only at e
          injection e with e; subst e
          unfold resetClock
          dsimp only
          have f : Frame s (setRa { s with queue := removeIdxAbove s.queue ra keep,
                                           seqH := pruneSeqHeights s.seqH (kst.creator :: (r.states.drop keep).map (·.creator)) kst.last,
                                           lev := delEvent s.lev (forkedRollapp r keep kst).evH (forkedRollapp r keep kst).id }
                                  { forkedRollapp r keep kst with evH := 0, cdStart := s.h }) :=
            Frame.of_setRa_eq (r0 := r) u hg (by rfl) (by rfl) (by rfl) (by rfl) (by rfl) (by rfl) (by rfl) (by rfl)
          exact f.sclr.trans (seqOnHardFork_sclr _ ra)

theorem hardForkToLatest_sclr {s s' : St} {ra : Nat} (u : Uniq s) (e : hardForkToLatest s ra = .ok s') : SClr s s' := by
  unfold hardForkToLatest at e
  split at e
  · cases e
  · split at e
    · cases e
    · exact hardFork_sclr u e

theorem onProposerLastBlock_sclr {s s' : St} {q : Seq} (u : Uniq s) (e : onProposerLastBlock s q = .ok s') : SClr s s' := by
  unfold onProposerLastBlock at e
  split at e
  · cases e
  · split at e
    · cases e
    · rename_i r hg
      dsimp only at e
      have h1 : SClr s (setRa s { r with successor := none, proposer := r.successor }) :=
        sclr_setRa (r0 := r) hg (by rfl) (Or.inr (by rfl))
      split at e
      · exact h1.trans (hardForkToLatest_sclr (u.of_setRa _) e)
      · injection e with e; subst e
        exact h1.trans (afterSetRealProposer_frame (u.of_setRa _) _ _).sclr

theorem seqAfterUpdate_sclr {s s' : St} {m : UpdMsg} {b : Bool} (u : Uniq s) (e : seqAfterUpdate s m b = .ok s') : SClr s s' := by
  unfold seqAfterUpdate at e
  split at e
  · cases e
  · rename_i prop _
    dsimp only at e
    have h1 : SClr s (setSeq s { prop with dishonor := prop.dishonor - min s.sqp.dishonorSU prop.dishonor }) := SClr.of_ras rfl
    split at e
    · exact h1.trans (onProposerLastBlock_sclr (u.of_setSeq _) e)
    · injection e with e; subst e; exact h1

theorem updateState_sclr {s s' : St} {m : UpdMsg} (h : Roles s) (e : updateState s m = .ok s') : SClr s s' := by
  have h' := updateState_roles h e
  unfold updateState at e
  split at e
  · cases e
  · split at e
    · cases e
    · rename_i r hg
      split at e
      · cases e
      · split at e
        · cases e
        · split at e
          · cases e
          · split at e
            · cases e
            · split at e
              · cases e
              · split at e
                · cases e
                · rename_i s3 h3
                  dsimp only at e
                  split at e
                  · cases e
                  · rename_i r4 hg4
                    injection e with e; subst e
                    have f1 : Frame s (setRa s { r with states := r.states ++ [newSInfo s m (updSucc r m)] }) :=
                      Frame.of_setRa (r0 := r) h.core.uniq hg (by rfl) (by rfl) (by rfl)
                    have h3' := seqAfterUpdate_sclr (f1.uniq h.core.uniq) h3
                    have f4 : SClr s3 (indicateLiveness { s3 with queue := queueAppend s3.queue s3.h m.ra (r.states.length + 1), seqH := addSeqHeights s3.seqH m.sender m.bds } r4) := by
                      apply (SClr.of_ras (s := s3) (by rfl)).trans
                      unfold indicateLiveness resetClock scheduleEvent
                      dsimp only
                      exact (SClr.of_ras (by rfl)).trans (sclr_setRa (r0 := r4) (by exact hg4) (by rfl) (Or.inl (by rfl)))
                    exact (f1.sclr.trans h3').trans f4

theorem createSeq_sclr {s s' : St} {a : Addr} {ra bond : Nat} {d : Bool} (h : Roles s)
    (e : createSeq s a ra bond d = .ok s') : SClr s s' := by
  unfold createSeq at e
  split at e
  · cases e
  · rename_i r hg
    split at e
    · cases e
    · rename_i hex
      have hnone : getSeq s a = none := by
        cases hx : getSeq s a with
        | none => rfl
        | some _ => simp [hx] at hex
      split at e
      · cases e
      · split at e
        · cases e
        · split at e
          · cases e
          · dsimp only at e
            have f0 : Frame s (if r.launched = true then s else setRa s { r with launched := true }) := by
              split
              · exact Frame.refl s
              · exact Frame.of_setRa (r0 := r) h.core.uniq hg (by rfl) (by rfl) (by rfl)
            have hs0 : (if r.launched = true then s else setRa s { r with launched := true }).seqs = s.seqs := by
              split <;> rfl
            split at e
            · cases e
            · rename_i s1 q1 hs
              have sp := sendToModule_same hs
              have hk := sp.2
              simp only [skey, Prod.mk.injEq] at hk
              have h1 : Roles s1 := (h.frame f0).frame sp.1.frame
              have hfresh : getSeq s1 q1.addr = none := by
                rw [getSeq_congr (sp.1.seqs.trans hs0), hk.1]; exact hnone
              have c2 : RolesCore { s1 with seqs := insertSorted (fun x y => decide (x.addr < y.addr)) q1 s1.seqs } :=
                h1.core.of_insertSeq hfresh hk.2.2.2.2
              have f2 : SClr s { s1 with seqs := insertSorted (fun x y => decide (x.addr < y.addr)) q1 s1.seqs } :=
                (f0.sclr.trans sp.1.frame.sclr).trans (SClr.of_ras rfl)
              split at e
              · cases e
              · split at e
                · exact f2.trans (recoverFromSentinel_sclr c2.uniq e)
                · injection e with e; subst e; exact f2

theorem optIn_sclr {s s' : St} {a : Addr} {v : Bool} (u : Uniq s) (e : optIn s a v = .ok s') : SClr s s' := by
  unfold optIn at e
  split at e
  · cases e
  · rename_i q hg
    split at e
    · cases e
    · dsimp only at e
      have f1 : SClr s (setSeq s { q with optedIn := v }) := SClr.of_ras rfl
      split at e
      · cases e
      · split at e
        · exact f1.trans (recoverFromSentinel_sclr (u.of_setSeq _) e)
        · injection e with e; subst e; exact f1

theorem kick_sclr {s s' : St} {a : Addr} (h : Roles s) (e : kick s a = .ok s') : SClr s s' := by
  unfold kick at e
  split at e
  · cases e
  · rename_i kicker hgk
    split at e
    · cases e
    · split at e
      · cases e
      · rename_i r hgr
        split at e
        · cases e
        · split at e
          · cases e
          · split at e
            · cases e
            · split at e
              · cases e
              · dsimp only at e
                split at e
                · cases e
                · rename_i s3 h3
                  have c2 : RolesCore (abruptRemoveProposer s r.id) := abruptRemoveProposer_core h.core
                  have p2 : SuccPropEx r.id (abruptRemoveProposer s r.id) := abruptRemoveProposer_ex (h.sp.ex r.id)
                  have h3' : Roles s3 := hardForkToLatest_roles c2 p2 h3
                  have s2 := abruptRemoveProposer_sclr s r.id
                  have s3' := hardForkToLatest_sclr c2.uniq h3
                  have s4 : SClr s3 (setSeq s3 { kicker with optedIn := true }) := SClr.of_ras rfl
                  exact ((s2.trans s3').trans s4).trans (recoverFromSentinel_sclr (h3'.core.uniq.of_setSeq _) e)

theorem fraud_sclr {s s' : St} {au : Bool} {ra hh rev : Nat} {p rw : Option Addr} (u : Uniq s)
    (e : fraud s au ra hh rev p rw = .ok s') : SClr s s' := by
  unfold fraud at e
  split at e
  · cases e
  · split at e
    · cases e
    · split at e
      · cases e
      · split at e
        · cases e
        · dsimp only at e
          split at e
          · cases e
          · rename_i s1 h1
            have hf : Frame s s1 := by
              split at h1
              · exact punish_frame u h1
              · injection h1 with h1; subst h1; exact Frame.refl s
            exact hf.sclr.trans (hardFork_sclr (hf.uniq u) e)

theorem markObsolete_sclr {s s' : St} {au : Bool} {vs : List Nat} (h : Roles s)
    (e : markObsolete s au vs = .ok s') : SClr s s' := by
  unfold markObsolete at e
  split at e
  · cases e
  · split at e
    · cases e
    · dsimp only at e
      injection e with e; subst e
      have := foldl_inv (fun acc => Roles acc ∧ SClr s acc)
        (fun acc r0 =>
          match getRa acc r0.id with
          | none => acc
          | some r =>
            match r.states.getLast? with
            | none => acc
            | some l =>
              if vs.contains ((l.bds.getLast?.map (·.drs)).getD 0) = true then
                match hardForkToLatest acc r.id with
                | .ok a => a
                | .error _ => acc
              else acc)
        s.ras { s with obsolete := vs.foldl (fun acc v => if acc.contains v then acc else acc ++ [v]) s.obsolete }
        ⟨h.frame (Frame.of_eq rfl rfl rfl rfl rfl), SClr.of_ras rfl⟩
        (by
          intro b r0 hb
          split
          · exact hb
          · split
            · exact hb
            · split
              · split
                · rename_i a ha
                  exact ⟨hardForkToLatest_roles hb.1.core (hb.1.sp.ex _) ha, hb.2.trans (hardForkToLatest_sclr hb.1.core.uniq ha)⟩
                · exact hb
              · exact hb)
      exact this.2

/-- every operation other than begin-block leaves every successor as it is or clears it -/
theorem apply_sclr {s s' : St} {o : Op} (h : Roles s) (e : apply s o = .ok s') (hb : ∀ dt, o ≠ .begin_ dt) : SClr s s' := by
  cases o with
  | createRollapp id' owner mb =>
    simp only [apply] at e
    split at e
    · cases e
    · rename_i hex
      injection e with e; subst e
      have hnone : getRa s id' = none := by
        cases hx : getRa s id' with
        | none => rfl
        | some _ => simp [hx] at hex
      intro id
      by_cases hc : id' = id
      · subst hc
        right
        unfold succOf
        have hm : ∀ x ∈ insertSorted (fun x y => decide (x.id < y.id)) (newRollapp id' owner mb) s.ras, x.id = id' → x.successor = none := by
          intro x hx hid
          rcases insertSorted_mem _ _ _ _ hx with h1 | h1
          · rw [h1]; rfl
          · exact absurd hid (getRa_none hnone x h1)
        cases hg : getRa { s with ras := insertSorted (fun x y => decide (x.id < y.id)) (newRollapp id' owner mb) s.ras } id' with
        | none =>
          -- impossible, but harmless: the new rollapp is found
          exfalso
          have : newRollapp id' owner mb ∈ insertSorted (fun x y => decide (x.id < y.id)) (newRollapp id' owner mb) s.ras := by
            generalize s.ras = l
            induction l with
            | nil => simp [insertSorted]
            | cons y ys ih =>
              unfold insertSorted
              split
              · simp
              · split
                · simp [ih]
                · simp
          unfold getRa at hg
          have := List.find?_eq_none.1 hg _ this
          simp [newRollapp] at this
        | some x => simp [hm x (getRa_mem hg) (getRa_id hg)]
      · left
        unfold succOf
        rw [getRa_insert_other (r := newRollapp id' owner mb) (by exact hc)]
  | bridge ra hh =>
    simp only [apply] at e
    split at e
    · cases e
    · rename_i r1 hg1
      split at e
      · cases e
      · split at e
        · cases e
        · injection e with e; subst e
          exact sclr_setRa (r0 := r1) hg1 (by rfl) (Or.inl (by rfl))
  | fund a' amt => simp only [apply] at e; injection e with e; subst e; exact SClr.of_ras rfl
  | createSeq a' ra b d => exact createSeq_sclr h e
  | bondInc a' amt d => exact (increaseBond_frame h.core.uniq e).sclr
  | bondDec a' amt => exact SClr.of_ras (decreaseBond_ras e)
  | unbond a' => exact SClr.of_ras (unbond_ras e)
  | optIn a' v => exact optIn_sclr h.core.uniq e
  | kick a' => exact kick_sclr h e
  | update m => exact updateState_sclr h e
  | fraud au ra hh rev p rw => exact fraud_sclr h.core.uniq e
  | obsolete au vs => exact markObsolete_sclr h e
  | punish au a' rw => exact (punish_frame h.core.uniq (punishProposal_ok e).2).sclr
  | transferOwner sg ra' no =>
    obtain ⟨r1, hg1, _, _, _, rfl⟩ := transferOwner_ok e
    exact sclr_setRa (r0 := r1) hg1 (by rfl) (Or.inl (by rfl))
  | setSeqParams au sp =>
    obtain ⟨_, hnp, _, rfl⟩ := setSeqParams_ok e
    exact SClr.of_ras rfl
  | begin_ dt => exact absurd rfl (hb dt)
  | end_ f => simp only [apply] at e; injection e with e; subst e; exact (endBlock_frame h.core.uniq).sclr

-- ---------------------------------------------------------------- begin block

/-- the successor slots after begin-block: unchanged, or — for the rollapp of a sequencer whose
    notice-queue entry is due — the proposer choice -/
theorem beginBlock_succ (s : St) (dt : Nat) (id : Nat) :
    succOf (beginBlock s dt) id = succOf s id ∨
    ∃ t a q, (t, a) ∈ s.nq ∧ t ≤ s.t + dt ∧ getSeq s a = some q ∧ q.rollapp = id ∧
      succOf (beginBlock s dt) id = some (choose (beginBlock s dt) id) := by
  have hseqs := beginBlock_seqs s dt
  rw [choose_congr hseqs]
  rw [beginBlock_eq]
  have := foldl_inv_mem (fun acc : St => acc.seqs = s.seqs ∧ (succOf acc id = succOf s id ∨
      ∃ t a q, (t, a) ∈ s.nq ∧ t ≤ s.t + dt ∧ getSeq s a = some q ∧ q.rollapp = id ∧ succOf acc id = some (choose s id)))
    beginStep (s.nq.filter (fun e => decide (e.1 ≤ s.t + dt))) { s with h := s.h + 1, t := s.t + dt }
    ⟨rfl, Or.inl rfl⟩
    (by
      intro b e he hb
      have hmem := List.mem_filter.1 he
      refine ⟨(beginStep_seqs b e).trans hb.1, ?_⟩
      unfold beginStep
      split
      · exact hb.2
      · rename_i q hq
        split
        · exact hb.2
        · rename_i r hr
          have hq' : getSeq s e.2 = some q := by
            have : getSeq b e.2 = some q := hq
            rw [getSeq_congr hb.1] at this; exact this
          have hid : r.id = q.rollapp := getRa_id hr
          have hsr := succOf_setRa (s := { b with nq := b.nq.filter (fun x => !(x.1 == e.1 && x.2 == e.2)) })
            (r := { r with successor := choose { b with nq := b.nq.filter (fun x => !(x.1 == e.1 && x.2 == e.2)) } q.rollapp })
            (r0 := r) hr (by rfl) id
          by_cases hc : id = r.id
          · right
            refine ⟨e.1, e.2, q, hmem.1, by simpa using hmem.2, hq', by rw [hc, hid], ?_⟩
            rw [hsr, if_pos (by exact hc)]
            show some (choose { b with nq := _ } q.rollapp) = some (choose s id)
            rw [hc, hid]
            exact congrArg some (choose_congr hb.1 _)
          · have : succOf (setRa { b with nq := b.nq.filter (fun x => !(x.1 == e.1 && x.2 == e.2)) }
                { r with successor := choose { b with nq := b.nq.filter (fun x => !(x.1 == e.1 && x.2 == e.2)) } q.rollapp }) id
                = succOf b id := by
              rw [hsr, if_neg (by exact hc)]; rfl
            rw [this]; exact hb.2)
  exact this.2

end DymVerif.Core.Roles
