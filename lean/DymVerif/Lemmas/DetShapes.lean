/-
  Lemmas/DetShapes — order-independence of the loop shapes of Model/Determinism.lean (C12), for ALL
  enumerations: two replicas see two permutations of the same map; keys of a map are unique.
  Core Lean only.
-/
import DymVerif.Model.Determinism
namespace DymVerif.Det

theorem natLe_trans (a b c : Nat) (h1 : decide (a ≤ b) = true) (h2 : decide (b ≤ c) = true) : decide (a ≤ c) = true := by
  simp at *; omega

theorem natLe_total (a b : Nat) : (decide (a ≤ b) || decide (b ≤ a)) = true := by
  simp; omega

/-- keys collected in ANY order and then sorted give the same slice -/
theorem sort_perm_invariant (keys keys' : List Nat) (h : keys'.Perm keys) :
    keys'.mergeSort (fun a b => decide (a ≤ b)) = keys.mergeSort (fun a b => decide (a ≤ b)) := by
  apply List.Perm.eq_of_pairwise (le := fun a b => decide (a ≤ b) = true)
  · intro a b _ _ h1 h2
    simp at h1 h2; omega
  · exact List.pairwise_mergeSort natLe_trans natLe_total _
  · exact List.pairwise_mergeSort natLe_trans natLe_total _
  · exact (List.mergeSort_perm _ _).trans (h.trans (List.mergeSort_perm _ _).symm)

theorem uniq_key_eq (recs : List (Nat × Nat)) (huniq : recs.Pairwise (fun a b => a.1 ≠ b.1)) :
    ∀ a b, a ∈ recs → b ∈ recs → a.1 = b.1 → a = b := by
  induction recs with
  | nil => intro a b ha; cases ha
  | cons x xs ih =>
    intro a b ha hb hab
    have hp := List.pairwise_cons.1 huniq
    rcases List.mem_cons.1 ha with h1 | h1 <;> rcases List.mem_cons.1 hb with h2 | h2
    · rw [h1, h2]
    · subst h1; exact absurd hab (hp.1 b h2)
    · subst h2; exact absurd hab.symm (hp.1 a h1)
    · exact ih hp.2 a b h1 h2 hab

/-- records keyed by a unique id, collected in ANY order and then sorted by that id, give the same slice -/
theorem sort_by_unique_key_perm_invariant (recs recs' : List (Nat × Nat)) (h : recs'.Perm recs)
    (huniq : recs.Pairwise (fun a b => a.1 ≠ b.1)) :
    recs'.mergeSort (fun a b => decide (a.1 ≤ b.1)) = recs.mergeSort (fun a b => decide (a.1 ≤ b.1)) := by
  have hu := uniq_key_eq recs huniq
  apply List.Perm.eq_of_pairwise (le := fun a b => decide (a.1 ≤ b.1) = true)
  · intro a b ha hb h1 h2
    have ha' : a ∈ recs := h.subset ((List.mergeSort_perm _ _).subset ha)
    have hb' : b ∈ recs := (List.mergeSort_perm _ _).subset hb
    simp at h1 h2
    exact hu a b ha' hb' (by omega)
  · exact List.pairwise_mergeSort (fun a b c h1 h2 => by simp at *; omega) (fun a b => by simp; omega) _
  · exact List.pairwise_mergeSort (fun a b c h1 h2 => by simp at *; omega) (fun a b => by simp; omega) _
  · exact (List.mergeSort_perm _ _).trans (h.trans (List.mergeSort_perm _ _).symm)

/-- the `uniq` hypothesis of the lemma above is what "keys of a map are unique" gives -/
theorem wf_pairwise_keys (m : Enum) (h : m.WF) : m.Pairwise (fun a b => a.1 ≠ b.1) := by
  unfold Enum.WF List.Nodup at h
  exact (List.pairwise_map.1 h)

theorem wf_perm (m₁ m₂ : Enum) (h : m₁.Perm m₂) (hw : m₁.WF) : m₂.WF := by
  unfold Enum.WF at *
  exact ((h.map (·.1)).nodup_iff).1 hw

-- ---------------------------------------------------------------- one theorem per shape

theorem collectThenSort_order_independent (m₁ m₂ : Enum) (h : m₁.Perm m₂) :
    collectThenSort m₁ = collectThenSort m₂ :=
  sort_perm_invariant _ _ (h.map (·.1))

theorem collectFilteredSortByKey_order_independent (keep : Nat × Nat → Bool) (m₁ m₂ : Enum)
    (hw : m₁.WF) (h : m₁.Perm m₂) :
    collectFilteredSortByKey keep m₁ = collectFilteredSortByKey keep m₂ := by
  unfold collectFilteredSortByKey
  apply sort_by_unique_key_perm_invariant
  · exact h.filter keep
  · exact (wf_pairwise_keys m₂ (wf_perm m₁ m₂ h hw)).filter keep

theorem memberTest_order_independent (m₁ m₂ : Enum) (h : m₁.Perm m₂) (x : Nat) :
    memberTest m₁ x = memberTest m₂ x :=
  h.any_eq

theorem foldComm_order_independent (m₁ m₂ : Enum) (h : m₁.Perm m₂) : foldComm m₁ = foldComm m₂ := by
  unfold foldComm
  exact h.foldl_eq' (fun x _ y _ z => by omega) 0

/-- a shuffle by a PRNG seeded from the transaction is a function of the transaction: nothing local
    to the replica (wall clock, global source) enters -/
theorem seededShuffle_replica_independent (prng : Nat → Nat → List Nat) (loc₁ loc₂ : Local) (txSeed : Nat)
    (cands : List Nat) :
    seededShuffle prng .txField loc₁ txSeed cands = seededShuffle prng .txField loc₂ txSeed cands := rfl

/-- ... and of the SORTED candidate list: however the candidates were enumerated -/
theorem seededShuffle_order_independent (prng : Nat → Nat → List Nat) (loc₁ loc₂ : Local) (txSeed : Nat)
    (m₁ m₂ : Enum) (h : m₁.Perm m₂) :
    seededShuffle prng .txField loc₁ txSeed (collectThenSort m₁) =
      seededShuffle prng .txField loc₂ txSeed (collectThenSort m₂) := by
  rw [collectThenSort_order_independent m₁ m₂ h]
  rfl

/-- **every shape**: the value handed on does not depend on the enumeration order -/
theorem shape_order_independent (sh : Shape) (p : Params) (m₁ m₂ : Enum) (hw : m₁.WF) (h : m₁.Perm m₂) :
    sh.eval p m₁ = sh.eval p m₂ := by
  cases sh with
  | collectThenSort => simp [Shape.eval, collectThenSort_order_independent m₁ m₂ h]
  | collectFilteredSortByKey => simp [Shape.eval, collectFilteredSortByKey_order_independent p.keep m₁ m₂ hw h]
  | memberTest => simp [Shape.eval, memberTest_order_independent m₁ m₂ h]
  | foldComm => simp [Shape.eval, foldComm_order_independent m₁ m₂ h]
  | seededShuffle => simp [Shape.eval, collectThenSort_order_independent m₁ m₂ h]
  | outside => rfl

/-- ... nor, for the seeded shuffle, on the replica -/
theorem shape_replica_independent (sh : Shape) (p : Params) (loc' : Local) (m : Enum) :
    sh.eval p m = sh.eval { p with loc := loc' } m := by
  cases sh <;> rfl

-- ---------------------------------------------------------------- maps built by insertion have unique keys

theorem mapInsert_keys (m : Enum) (e : Nat × Nat) :
    (mapInsert m e).map (·.1) = if e.1 ∈ m.map (·.1) then m.map (·.1) else m.map (·.1) ++ [e.1] := by
  unfold mapInsert
  have hany : m.any (·.1 == e.1) = true ↔ e.1 ∈ m.map (·.1) := by
    rw [List.any_eq_true, List.mem_map]
    constructor
    · rintro ⟨x, hm, hx⟩; exact ⟨x, hm, by simpa using hx⟩
    · rintro ⟨x, hm, hx⟩; exact ⟨x, hm, by simpa using hx⟩
  by_cases hc : m.any (·.1 == e.1) = true
  · rw [if_pos hc, if_pos (hany.1 hc), List.map_map]
    apply List.map_congr_left
    intro x _
    by_cases hx : x.1 = e.1
    · simp [hx]
    · simp [hx]
  · rw [if_neg hc, if_neg (fun h => hc (hany.2 h))]
    simp

theorem mapInsert_wf (m : Enum) (e : Nat × Nat) (h : m.WF) : (mapInsert m e).WF := by
  unfold Enum.WF at *
  rw [mapInsert_keys]
  by_cases hc : e.1 ∈ m.map (·.1)
  · rw [if_pos hc]; exact h
  · rw [if_neg hc]
    rw [List.nodup_append]
    refine ⟨h, by simp, ?_⟩
    intro a ha b hb
    simp at hb
    subst hb
    intro hab
    exact hc (hab ▸ ha)

theorem foldl_mapInsert_wf (l : List (Nat × Nat)) (m : Enum) (h : m.WF) : (l.foldl mapInsert m).WF := by
  induction l generalizing m with
  | nil => exact h
  | cons e es ih => exact ih _ (mapInsert_wf m e h)

/-- keys of a map are unique: whatever list it was filled from -/
theorem mapOfList_wf (l : List (Nat × Nat)) : (mapOfList l).WF :=
  foldl_mapInsert_wf l [] List.nodup_nil

-- ---------------------------------------------------------------- the concrete consumers

/-- `UpdateDistrRecords`: whatever two enumerations of the merged record map two replicas see, the
    stored records are the same (the `uniq` hypothesis is discharged by `mapOfList_wf`) -/
theorem updateDistrRecords_order_independent (old upd : List (Nat × Nat)) (e₁ e₂ : Enum)
    (h₁ : e₁.Perm (mapOfList (old ++ upd))) (h₂ : e₂.Perm (mapOfList (old ++ upd))) :
    updateDistrRecords e₁ = updateDistrRecords e₂ := by
  have hw : e₁.WF := wf_perm _ _ h₁.symm (mapOfList_wf _)
  unfold updateDistrRecords
  rw [collectFilteredSortByKey_order_independent _ e₁ e₂ hw (h₁.trans h₂.symm)]

/-- `Distinct`: the list is put into a map keyed by the element, the values are collected and sorted by that key -/
theorem distinct_order_independent (l : List Nat) (e₁ e₂ : Enum)
    (h₁ : e₁.Perm (mapOfList (l.map fun a => (a, a)))) (h₂ : e₂.Perm (mapOfList (l.map fun a => (a, a)))) :
    collectFilteredSortByKey (fun _ => true) e₁ = collectFilteredSortByKey (fun _ => true) e₂ :=
  collectFilteredSortByKey_order_independent _ e₁ e₂ (wf_perm _ _ h₁.symm (mapOfList_wf _)) (h₁.trans h₂.symm)

theorem moduleAccountAddrs_order_independent (p₁ p₂ : Enum) (h : p₁.Perm p₂) (excl : List Nat) (x : Nat) :
    moduleAccountAddrs p₁ excl x = moduleAccountAddrs p₂ excl x := by
  unfold moduleAccountAddrs
  rw [memberTest_order_independent p₁ p₂ h]

-- ---------------------------------------------------------------- the per-function count closes the table

theorem countP_pos_of_mem {α} (p : α → Bool) (l : List α) (a : α) (ha : a ∈ l) (hp : p a = true) :
    0 < l.countP p := by
  rw [List.countP_pos_iff]
  exact ⟨a, ha, hp⟩

/-- **an added site breaks the count**: if the table matches the allow-list function by function,
    then the table with ANY further site (in an allow-listed function or not, whatever its kind,
    class and ordinal) does not -/
theorem added_site_breaks_counts (sites : List Site) (allow : List Allowed) (s : Site)
    (h : countsMatch sites allow = true) : countsMatch (s :: sites) allow = false := by
  unfold countsMatch at *
  rw [Bool.and_eq_true] at h
  obtain ⟨hs, ha⟩ := h
  rw [List.all_eq_true] at hs ha
  -- the entry count of s' function equals the old site count
  have hcnt : sitesOf sites s.file s.fn = entriesOf allow s.file s.fn := by
    by_cases hex : ∃ s' ∈ sites, (s'.file == s.file && s'.fn == s.fn) = true
    · obtain ⟨s', hm, hk⟩ := hex
      have := hs s' hm
      simp at hk
      simp [hk.1, hk.2] at this
      exact this
    · by_cases hea : ∃ a ∈ allow, (a.file == s.file && a.fn == s.fn) = true
      · obtain ⟨a, hm, hk⟩ := hea
        have := ha a hm
        simp at hk
        simp [hk.1, hk.2] at this
        exact this
      · have h1 : sitesOf sites s.file s.fn = 0 := by
          unfold sitesOf
          rw [List.countP_eq_zero]
          intro x hx hp
          exact hex ⟨x, hx, hp⟩
        have h2 : entriesOf allow s.file s.fn = 0 := by
          unfold entriesOf
          rw [List.countP_eq_zero]
          intro x hx hp
          exact hea ⟨x, hx, hp⟩
        omega
  have hnew : sitesOf (s :: sites) s.file s.fn = sitesOf sites s.file s.fn + 1 := by
    unfold sitesOf
    rw [List.countP_cons]
    simp
  have : (sitesOf (s :: sites) s.file s.fn == entriesOf allow s.file s.fn) = false := by
    rw [hnew, hcnt]
    simp
  simp [List.all_cons, this]

/-- from the decided table to a statement about every site -/
theorem wellReasoned_spec (sites : List Site) (allow : List Allowed) (h : wellReasoned sites allow = true) :
    ∀ s ∈ sites, ∃ a ∈ allow, s.allowedBy a = true ∧ a.reason.admits s.kind s.cls = true := by
  intro s hs
  unfold wellReasoned at h
  rw [List.all_eq_true] at h
  have := h s hs
  rw [List.any_eq_true] at this
  obtain ⟨a, ha, hb⟩ := this
  rw [Bool.and_eq_true] at hb
  exact ⟨a, ha, hb.1, hb.2⟩

end DymVerif.Det
