import DymVerif.Model.Lockup
set_option linter.unusedSimpArgs false
/-
  Lemmas/LockupBasic — list / sum / accumulation-store lemmas for M-Lockup (core Lean only).
-/
namespace DymVerif.Lockup

/-- weight of a lock under predicate `P` -/
def w (P : Lock → Bool) (l : Lock) : Nat := if P l then l.amount else 0

theorem total_cons (P : Lock → Bool) (l : Lock) (ls : List Lock) :
    total P (l :: ls) = w P l + total P ls := rfl

theorem total_append (P : Lock → Bool) (xs ys : List Lock) :
    total P (xs ++ ys) = total P xs + total P ys := by
  induction xs with
  | nil => simp [total]
  | cons x xs ih => simp [total, ih]; omega

theorem total_single (P : Lock → Bool) (l : Lock) : total P [l] = w P l := by
  simp [total, w]

theorem total_congr (P Q : Lock → Bool) (ls : List Lock) (h : ∀ l ∈ ls, P l = Q l) :
    total P ls = total Q ls := by
  induction ls with
  | nil => rfl
  | cons x xs ih =>
    have hx := h x (by simp)
    have := ih (fun l hl => h l (by simp [hl]))
    simp [total, hx, this]

theorem total_eq_zero (P : Lock → Bool) (ls : List Lock) (h : ∀ l ∈ ls, P l = false) :
    total P ls = 0 := by
  induction ls with
  | nil => rfl
  | cons x xs ih =>
    have hx := h x (by simp)
    have := ih (fun l hl => h l (by simp [hl]))
    simp [total, hx, this]

theorem le_total_of_mem (P : Lock → Bool) (ls : List Lock) (o : Lock) (ho : o ∈ ls) :
    w P o ≤ total P ls := by
  induction ls with
  | nil => simp at ho
  | cons x xs ih =>
    rw [total_cons]
    rcases List.mem_cons.mp ho with h | h
    · subst h; omega
    · have := ih h; omega

/-! ### find / set / delete -/

theorem findLock_some {ls : List Lock} {id : Nat} {l : Lock} (h : findLock ls id = some l) :
    l ∈ ls ∧ l.id = id := by
  unfold findLock at h
  have h1 := List.mem_of_find?_eq_some h
  have h2 := List.find?_some h
  exact ⟨h1, by simpa using h2⟩

theorem findLock_none {ls : List Lock} {id : Nat} (h : findLock ls id = none) :
    ∀ l ∈ ls, l.id ≠ id := by
  unfold findLock at h
  intro l hl
  have := List.find?_eq_none.mp h l hl
  simpa using this

theorem findLock_of_mem {ls : List Lock} (hn : (ls.map (·.id)).Nodup) {l : Lock} (hl : l ∈ ls) :
    findLock ls l.id = some l := by
  induction ls with
  | nil => simp at hl
  | cons x xs ih =>
    simp only [List.map_cons, List.nodup_cons] at hn
    unfold findLock
    rw [List.find?_cons]
    rcases List.mem_cons.mp hl with h | h
    · subst h; simp
    · have hne : x.id ≠ l.id := by
        intro he
        apply hn.1
        rw [he]
        exact List.mem_map.mpr ⟨l, h, rfl⟩
      have : (x.id == l.id) = false := by simpa using hne
      simp only [this]
      exact ih hn.2 h

/-- two members with the same id are the same lock -/
theorem eq_of_id_eq {ls : List Lock} (hn : (ls.map (·.id)).Nodup) {a b : Lock}
    (ha : a ∈ ls) (hb : b ∈ ls) (h : a.id = b.id) : a = b := by
  have h1 := findLock_of_mem hn ha
  have h2 := findLock_of_mem hn hb
  rw [h] at h1
  rw [h1] at h2
  exact Option.some.inj h2

theorem setLock_ids (ls : List Lock) (n : Lock) : (setLock ls n).map (·.id) = ls.map (·.id) := by
  unfold setLock
  rw [List.map_map]
  apply List.map_congr_left
  intro l _
  simp only [Function.comp]
  split <;> simp_all

theorem mem_setLock {ls : List Lock} {n x : Lock} (h : x ∈ setLock ls n) :
    (x = n ∧ ∃ o ∈ ls, o.id = n.id) ∨ (x ∈ ls ∧ x.id ≠ n.id) := by
  unfold setLock at h
  rcases List.mem_map.mp h with ⟨o, ho, hx⟩
  by_cases hid : o.id = n.id
  · simp only [hid, if_true] at hx
    exact Or.inl ⟨hx.symm, o, ho, hid⟩
  · simp only [hid, if_false] at hx
    subst hx
    exact Or.inr ⟨ho, hid⟩

theorem mem_setLock_new {ls : List Lock} {n o : Lock} (ho : o ∈ ls) (hid : o.id = n.id) :
    n ∈ setLock ls n := by
  unfold setLock
  exact List.mem_map.mpr ⟨o, ho, by simp [hid]⟩

theorem mem_setLock_other {ls : List Lock} {n x : Lock} (hx : x ∈ ls) (hid : x.id ≠ n.id) :
    x ∈ setLock ls n := by
  unfold setLock
  exact List.mem_map.mpr ⟨x, hx, by simp [hid]⟩

theorem mem_delLock {ls : List Lock} {id : Nat} {x : Lock} :
    x ∈ delLock ls id ↔ x ∈ ls ∧ x.id ≠ id := by
  unfold delLock
  simp [List.mem_filter]

theorem delLock_nodup {ls : List Lock} (hn : (ls.map (·.id)).Nodup) (id : Nat) :
    ((delLock ls id).map (·.id)).Nodup := by
  unfold delLock
  exact List.Nodup.sublist (List.Sublist.map _ List.filter_sublist) hn

/-- replacing the lock with id `n.id` (old value `o`) changes a `P`-sum by `w n - w o` -/
theorem total_setLock (P : Lock → Bool) {ls : List Lock} (hn : (ls.map (·.id)).Nodup) {o n : Lock}
    (ho : o ∈ ls) (hid : n.id = o.id) :
    total P (setLock ls n) + w P o = total P ls + w P n := by
  induction ls with
  | nil => simp at ho
  | cons x xs ih =>
    simp only [List.map_cons, List.nodup_cons] at hn
    have hset : setLock (x :: xs) n = (if x.id = n.id then n else x) :: setLock xs n := by
      simp [setLock]
    rw [hset, total_cons, total_cons]
    rcases List.mem_cons.mp ho with h | h
    · subst h
      have hnot : ∀ y ∈ xs, y.id ≠ n.id := by
        intro y hy he
        apply hn.1
        rw [← hid, ← he]
        exact List.mem_map.mpr ⟨y, hy, rfl⟩
      have hsame : setLock xs n = xs := by
        unfold setLock
        conv => rhs; rw [← List.map_id xs]
        apply List.map_congr_left
        intro y hy
        simp [hnot y hy]
      rw [hsame]
      simp only [hid, if_true]
      omega
    · have hne : x.id ≠ n.id := by
        intro he
        apply hn.1
        rw [he, hid]
        exact List.mem_map.mpr ⟨o, h, rfl⟩
      simp only [hne, if_false]
      have := ih hn.2 h
      omega

/-- deleting lock `o` lowers a `P`-sum by `w o` -/
theorem total_delLock (P : Lock → Bool) {ls : List Lock} (hn : (ls.map (·.id)).Nodup) {o : Lock}
    (ho : o ∈ ls) : total P (delLock ls o.id) + w P o = total P ls := by
  induction ls with
  | nil => simp at ho
  | cons x xs ih =>
    simp only [List.map_cons, List.nodup_cons] at hn
    rcases List.mem_cons.mp ho with h | h
    · subst h
      have hnot : ∀ y ∈ xs, y.id ≠ o.id := by
        intro y hy he
        apply hn.1
        rw [← he]
        exact List.mem_map.mpr ⟨y, hy, rfl⟩
      have hsame : delLock (o :: xs) o.id = xs := by
        unfold delLock
        rw [List.filter_cons]
        simp only [bne_self_eq_false, Bool.false_eq_true, if_false]
        apply List.filter_eq_self.mpr
        intro y hy
        simpa using hnot y hy
      rw [hsame, total_cons]
      omega
    · have hne : x.id ≠ o.id := by
        intro he
        apply hn.1
        rw [he]
        exact List.mem_map.mpr ⟨o, h, rfl⟩
      have hstep : delLock (x :: xs) o.id = x :: delLock xs o.id := by
        unfold delLock
        rw [List.filter_cons]
        simp [hne]
      rw [hstep, total_cons, total_cons]
      have := ih hn.2 h
      omega

/-! ### accumulation store -/

theorem accQuery_accAdd (acc : List AccEntry) (d k : Nat) (v : Int) (d' k' : Nat) :
    accQuery (accAdd acc d k v) d' k' = accQuery acc d' k' + (if d = d' ∧ k' ≤ k then v else 0) := by
  induction acc with
  | nil => simp [accAdd, accQuery]
  | cons e es ih =>
    unfold accAdd
    by_cases h : e.denom = d ∧ e.dur = k
    · simp only [h, and_self, if_true, accQuery]
      obtain ⟨h1, h2⟩ := h
      by_cases h3 : d = d' ∧ k' ≤ k
      · simp only [h1, h2, h3, and_self, if_true]; omega
      · have : ¬ (e.denom = d' ∧ k' ≤ e.dur) := by rw [h1, h2]; exact h3
        simp only [h1, h2, h3, if_false]; omega
    · simp only [h, if_false, accQuery, ih]; omega

end DymVerif.Lockup
