/-
  Lemmas/CoreRolesChoose — what `choose` (ProposerChoiceAlgo over the potential proposers) returns:
  the first sequencer of maximal bond among the bonded, opted-in sequencers of the rollapp.
-/
import DymVerif.Lemmas.CoreRoles
namespace DymVerif.Core.Roles

/-- the potential proposers of a rollapp, in address order -/
def cands (s : St) (ra : Nat) : List Seq := s.seqs.filter (fun q => q.rollapp == ra && q.bonded && q.optedIn)

def bestStep (acc : Option Seq) (q : Seq) : Option Seq :=
  match acc with
  | none => some q
  | some b => if b.tokens < q.tokens then some q else some b

theorem choose_eq (s : St) (ra : Nat) : choose s ra = ((cands s ra).foldl bestStep none).map (·.addr) := rfl

/-- `b` is the first element of maximal bond in `l` -/
def FirstMax (l : List Seq) (b : Seq) : Prop :=
  ∃ pre post, l = pre ++ b :: post ∧ (∀ x ∈ pre, x.tokens < b.tokens) ∧ (∀ x ∈ post, x.tokens ≤ b.tokens)

theorem bestFold_some (l : List Seq) : ∀ b0 : Seq,
    ∃ b, l.foldl bestStep (some b0) = some b ∧
      ((b = b0 ∧ ∀ x ∈ l, x.tokens ≤ b0.tokens) ∨
       (b0.tokens < b.tokens ∧ FirstMax l b)) := by
  induction l with
  | nil => intro b0; exact ⟨b0, rfl, Or.inl ⟨rfl, by simp⟩⟩
  | cons x xs ih =>
    intro b0
    simp only [List.foldl_cons, bestStep]
    by_cases hlt : b0.tokens < x.tokens
    · rw [if_pos hlt]
      obtain ⟨b, hb, hc⟩ := ih x
      refine ⟨b, hb, Or.inr ?_⟩
      rcases hc with ⟨rfl, hall⟩ | ⟨h1, pre, post, e, hpre, hpost⟩
      · exact ⟨hlt, [], xs, rfl, by simp, hall⟩
      · refine ⟨by omega, x :: pre, post, by simp [e], ?_, hpost⟩
        intro y hy
        simp at hy
        rcases hy with rfl | hy
        · exact h1
        · exact hpre y hy
    · rw [if_neg hlt]
      obtain ⟨b, hb, hc⟩ := ih b0
      refine ⟨b, hb, ?_⟩
      rcases hc with ⟨rfl, hall⟩ | ⟨h1, pre, post, e, hpre, hpost⟩
      · left
        refine ⟨rfl, ?_⟩
        intro y hy
        simp at hy
        rcases hy with rfl | hy
        · omega
        · exact hall y hy
      · right
        refine ⟨h1, x :: pre, post, by simp [e], ?_, hpost⟩
        intro y hy
        simp at hy
        rcases hy with rfl | hy
        · omega
        · exact hpre y hy

theorem bestFold_none (l : List Seq) :
    (l = [] ∧ l.foldl bestStep none = none) ∨ ∃ b, l.foldl bestStep none = some b ∧ FirstMax l b := by
  cases l with
  | nil => exact Or.inl ⟨rfl, rfl⟩
  | cons x xs =>
    right
    simp only [List.foldl_cons, bestStep]
    obtain ⟨b, hb, hc⟩ := bestFold_some xs x
    refine ⟨b, hb, ?_⟩
    rcases hc with ⟨rfl, hall⟩ | ⟨h1, pre, post, e, hpre, hpost⟩
    · exact ⟨[], xs, rfl, by simp, hall⟩
    · refine ⟨x :: pre, post, by simp [e], ?_, hpost⟩
      intro y hy
      simp at hy
      rcases hy with rfl | hy
      · exact h1
      · exact hpre y hy

/-- the chosen address is that of the first potential proposer of maximal bond -/
theorem choose_spec {s : St} {ra : Nat} {a : Addr} (h : choose s ra = some a) :
    ∃ b, b.addr = a ∧ FirstMax (cands s ra) b := by
  rw [choose_eq] at h
  rcases bestFold_none (cands s ra) with ⟨_, h0⟩ | ⟨b, hb, hf⟩
  · rw [h0] at h; cases h
  · rw [hb] at h
    simp at h
    exact ⟨b, h, hf⟩

/-- the sentinel is chosen exactly when there is no potential proposer -/
theorem choose_none {s : St} {ra : Nat} : choose s ra = none ↔ cands s ra = [] := by
  rw [choose_eq]
  rcases bestFold_none (cands s ra) with ⟨h1, h0⟩ | ⟨b, hb, pre, post, e, _⟩
  · rw [h0]; simp [h1]
  · rw [hb, e]; simp

theorem mem_cands {s : St} {ra : Nat} {q : Seq} :
    q ∈ cands s ra ↔ q ∈ s.seqs ∧ q.rollapp = ra ∧ q.bonded = true ∧ q.optedIn = true := by
  unfold cands
  simp [List.mem_filter, and_assoc]

theorem FirstMax.mem {l : List Seq} {b : Seq} (h : FirstMax l b) : b ∈ l := by
  obtain ⟨pre, post, e, _⟩ := h; rw [e]; simp

theorem FirstMax.max {l : List Seq} {b : Seq} (h : FirstMax l b) : ∀ x ∈ l, x.tokens ≤ b.tokens := by
  obtain ⟨pre, post, e, h1, h2⟩ := h
  intro x hx
  rw [e] at hx
  simp at hx
  rcases hx with hx | rfl | hx
  · exact Nat.le_of_lt (h1 x hx)
  · exact Nat.le_refl _
  · exact h2 x hx

theorem choose_mem {s : St} {ra : Nat} {a : Addr} (h : choose s ra = some a) :
    ∃ q ∈ s.seqs, q.addr = a ∧ q.rollapp = ra ∧ q.bonded = true ∧ q.optedIn = true ∧
      ∀ x ∈ cands s ra, x.tokens ≤ q.tokens := by
  obtain ⟨b, hb, hf⟩ := choose_spec h
  have := mem_cands.1 hf.mem
  exact ⟨b, this.1, hb, this.2.1, this.2.2.1, this.2.2.2, hf.max⟩

/-- maximal bond, ties resolved to the smallest address (the sequencer list is sorted by address) -/
theorem choose_max_tiebreak {s : St} (hs : AddrSorted s.seqs) {ra : Nat} {a : Addr} (h : choose s ra = some a) :
    ∃ b, b.addr = a ∧ b ∈ cands s ra ∧
      ∀ x ∈ cands s ra, x.tokens ≤ b.tokens ∧ (x.tokens = b.tokens → b.addr ≤ x.addr) := by
  obtain ⟨b, hb, hf⟩ := choose_spec h
  refine ⟨b, hb, hf.mem, ?_⟩
  have hsort : AddrSorted (cands s ra) := List.Pairwise.filter _ hs
  obtain ⟨pre, post, e, h1, h2⟩ := hf
  rw [e] at hsort ⊢
  unfold AddrSorted at hsort
  rw [List.pairwise_append] at hsort
  obtain ⟨_, hbp, _⟩ := hsort
  have hbp' := (List.pairwise_cons.1 hbp).1
  intro x hx
  simp only [List.mem_append, List.mem_cons] at hx
  rcases hx with hx | rfl | hx
  · exact ⟨Nat.le_of_lt (h1 x hx), fun he => absurd he (Nat.ne_of_lt (h1 x hx))⟩
  · exact ⟨Nat.le_refl _, fun _ => Nat.le_refl _⟩
  · exact ⟨h2 x hx, fun _ => Nat.le_of_lt (hbp' x hx)⟩

theorem choose_congr {s s' : St} (e : s'.seqs = s.seqs) (ra : Nat) : choose s' ra = choose s ra := by
  unfold choose; rw [e]

theorem choose_bondedOf {s : St} (u : Uniq s) {ra : Nat} {a : Addr} (h : choose s ra = some a) : BondedOf s ra a := by
  obtain ⟨q, hq, ha, hr, hb, _, _⟩ := choose_mem h
  exact ⟨q, ha ▸ getSeq_of_mem u.addrs hq, hb, hr⟩

end DymVerif.Core.Roles
