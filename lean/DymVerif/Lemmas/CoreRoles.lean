/-
  Lemmas/CoreRoles — the proposer / successor roles invariant of M-Core: definitions, the "frame"
  relation (nothing role-relevant changed), and how the primitive state transformers act on it.
-/
import DymVerif.Lemmas.CoreCustody3
namespace DymVerif.Core.Roles

-- ---------------------------------------------------------------- generic list facts

/-- `find?` by a predicate on a key commutes with any list transformation that preserves the keys -/
theorem find_key_congr {α κ} (k : α → κ) (p : κ → Bool) : ∀ (l l' : List α), l'.map k = l.map k →
    (l'.find? (fun x => p (k x))).map k = (l.find? (fun x => p (k x))).map k := by
  intro l
  induction l with
  | nil => intro l' h; simp at h; subst h; rfl
  | cons x xs ih =>
    intro l' h
    cases l' with
    | nil => simp at h
    | cons y ys =>
      simp only [List.map_cons, List.cons.injEq] at h
      simp only [List.find?_cons, h.1]
      cases p (k x) with
      | true => simp [h.1]
      | false => exact ih ys h.2

theorem mem_key_congr {α κ} (k : α → κ) {l l' : List α} (h : l'.map k = l.map k) {x' : α} (hx : x' ∈ l') :
    ∃ x ∈ l, k x = k x' := by
  have : k x' ∈ l'.map k := List.mem_map.2 ⟨x', hx, rfl⟩
  rw [h] at this
  exact List.mem_map.1 this

-- ---------------------------------------------------------------- uniqueness of ids and addresses

/-- distinct rollapp records have distinct ids -/
def IdsNodup (s : St) : Prop := s.ras.Pairwise (fun a b => a.id ≠ b.id)

theorem IdsNodup.eq_of_mem {s : St} (h : IdsNodup s) {x y : Rollapp} (hx : x ∈ s.ras) (hy : y ∈ s.ras)
    (e : x.id = y.id) : x = y := by
  unfold IdsNodup at h
  generalize s.ras = l at *
  induction l with
  | nil => cases hx
  | cons a as ih =>
    have hp := List.pairwise_cons.1 h
    rcases List.mem_cons.1 hx with h1 | h1 <;> rcases List.mem_cons.1 hy with h2 | h2
    · rw [h1, h2]
    · subst h1; exact absurd e (hp.1 y h2)
    · subst h2; exact absurd e.symm (hp.1 x h1)
    · exact ih hp.2 h1 h2

theorem getRa_of_mem {s : St} (h : IdsNodup s) {r : Rollapp} (hr : r ∈ s.ras) : getRa s r.id = some r := by
  cases hf : getRa s r.id with
  | none =>
    unfold getRa at hf
    have := List.find?_eq_none.1 hf r hr
    simp at this
  | some r' => rw [h.eq_of_mem (getRa_mem hf) hr (getRa_id hf)]

theorem getSeq_of_mem {s : St} (h : AddrNodup s.seqs) {q : Seq} (hq : q ∈ s.seqs) : getSeq s q.addr = some q := by
  cases hf : getSeq s q.addr with
  | none =>
    unfold getSeq at hf
    have := List.find?_eq_none.1 hf q hq
    simp at this
  | some q' => rw [h.eq_of_mem (getSeq_mem hf) hq (getSeq_addr hf)]

/-- the sequencer list is strictly sorted by address -/
def AddrSorted (l : List Seq) : Prop := l.Pairwise (fun a b => a.addr < b.addr)

theorem AddrSorted.of_addrs_eq {l l' : List Seq} (h : AddrSorted l) (e : l'.map (·.addr) = l.map (·.addr)) : AddrSorted l' := by
  unfold AddrSorted at *
  have h1 : (l.map (·.addr)).Pairwise (· < ·) := List.pairwise_map.2 h
  rw [← e] at h1
  exact List.pairwise_map.1 h1

theorem sorted_insert (l : List Seq) (x : Seq) (hn : AddrSorted l) (h : ∀ y ∈ l, y.addr ≠ x.addr) :
    AddrSorted (insertSorted (fun a b => decide (a.addr < b.addr)) x l) := by
  unfold AddrSorted
  induction l with
  | nil => simp [insertSorted]
  | cons a as ih =>
    have hp := List.pairwise_cons.1 hn
    have ha : a.addr ≠ x.addr := h a (by simp)
    unfold insertSorted
    by_cases h1 : x.addr < a.addr
    · simp only [h1, decide_true, if_true]
      apply List.pairwise_cons.2
      refine ⟨?_, hn⟩
      intro y hy
      rcases List.mem_cons.1 hy with h3 | h3
      · subst h3; exact h1
      · exact Nat.lt_trans h1 (hp.1 y h3)
    · have h2 : a.addr < x.addr := Nat.lt_of_le_of_ne (Nat.le_of_not_lt h1) ha
      simp only [h1, h2, decide_false, decide_true, Bool.false_eq_true, if_false, if_true]
      apply List.pairwise_cons.2
      refine ⟨?_, ih hp.2 (fun y hy => h y (by simp [hy]))⟩
      intro y hy
      rcases insertSorted_mem _ _ _ _ hy with h3 | h3
      · subst h3; exact h2
      · exact hp.1 y h3

structure Uniq (s : St) : Prop where
  ids : IdsNodup s
  addrs : AddrNodup s.seqs
  sorted : AddrSorted s.seqs

theorem getRa_setRa_other {s : St} {r : Rollapp} {id : Nat} (hne : r.id ≠ id) : getRa (setRa s r) id = getRa s id := by
  unfold getRa setRa
  dsimp only
  induction s.ras with
  | nil => rfl
  | cons x xs ih =>
    simp only [List.map_cons, List.find?_cons]
    by_cases hx : (x.id == r.id) = true
    · have hxa : x.id = r.id := by simpa using hx
      simp only [hx, if_true]
      have h1 : (r.id == id) = false := by simp [hne]
      have h2 : (x.id == id) = false := by simp [hxa, hne]
      simp only [h1, h2]; exact ih
    · simp only [hx]
      simp only [Bool.false_eq_true, if_false]
      cases hxa : (x.id == id) with
      | true => rfl
      | false => exact ih

theorem find_replace_same {α} (key : α → Nat) (r : α) : ∀ (l : List α) (r0 : α), l.find? (fun x => key x == key r) = some r0 →
    (l.map (fun x => if key x == key r then r else x)).find? (fun x => key x == key r) = some r := by
  intro l
  induction l with
  | nil => intro r0 h; cases h
  | cons x xs ih =>
    intro r0 h
    simp only [List.map_cons, List.find?_cons] at h ⊢
    by_cases hx : (key x == key r) = true
    · simp [hx]
    · simp only [hx] at h ⊢
      simp only [Bool.false_eq_true, if_false]
      simp only [hx]
      exact ih r0 h

theorem getRa_setRa_same {s : St} {r r0 : Rollapp} (hg : getRa s r.id = some r0) : getRa (setRa s r) r.id = some r :=
  find_replace_same (fun x : Rollapp => x.id) r s.ras r0 hg

theorem getSeq_setSeq_same {s : St} {q q0 : Seq} (hg : getSeq s q.addr = some q0) : getSeq (setSeq s q) q.addr = some q :=
  find_replace_same (fun x : Seq => x.addr) q s.seqs q0 hg

theorem getRa_congr {s s' : St} (e : s'.ras = s.ras) (id : Nat) : getRa s' id = getRa s id := by
  unfold getRa; rw [e]

theorem ids_setRa (s : St) (r : Rollapp) : (setRa s r).ras.map (·.id) = s.ras.map (·.id) := by
  unfold setRa
  dsimp only
  rw [List.map_map]
  apply List.map_congr_left
  intro x _
  show (if (x.id == r.id) = true then r else x).id = x.id
  split
  · rename_i h; exact (by simpa using h : x.id = r.id).symm
  · rfl

theorem IdsNodup.of_ids_eq {s s' : St} (h : IdsNodup s) (e : s'.ras.map (·.id) = s.ras.map (·.id)) : IdsNodup s' := by
  unfold IdsNodup at *
  have h1 : (s.ras.map (·.id)).Pairwise (· ≠ ·) := List.pairwise_map.2 h
  rw [← e] at h1
  exact List.pairwise_map.1 h1

theorem Uniq.of_setRa {s : St} (h : Uniq s) (r : Rollapp) : Uniq (setRa s r) :=
  ⟨h.ids.of_ids_eq (ids_setRa s r), h.addrs, h.sorted⟩

theorem Uniq.of_setSeq {s : St} (h : Uniq s) (q : Seq) : Uniq (setSeq s q) :=
  ⟨h.ids, h.addrs.of_addrs_eq (addrs_replace s.seqs q), h.sorted.of_addrs_eq (addrs_replace s.seqs q)⟩

theorem Uniq.of_eq {s s' : St} (h : Uniq s) (e1 : s'.ras = s.ras) (e2 : s'.seqs = s.seqs) : Uniq s' :=
  ⟨by unfold IdsNodup; rw [e1]; exact h.ids, by rw [e2]; exact h.addrs, by rw [e2]; exact h.sorted⟩

-- ---------------------------------------------------------------- frames

/-- the role-relevant part of a rollapp record -/
def rkey (r : Rollapp) : Nat × Option Addr × Option Addr := (r.id, r.proposer, r.successor)
/-- the role-relevant part of a sequencer record -/
def skey (q : Seq) : Addr × Nat × Bool × Bool × Option Nat := (q.addr, q.rollapp, q.bonded, q.optedIn, q.notice)

/-- nothing role-relevant differs between the two states -/
structure Frame (s s' : St) : Prop where
  ras : s'.ras.map rkey = s.ras.map rkey
  seqs : s'.seqs.map skey = s.seqs.map skey
  nq : s'.nq = s.nq
  t : s'.t = s.t
  p : pp s' = pp s

theorem Frame.refl (s : St) : Frame s s := ⟨rfl, rfl, rfl, rfl, rfl⟩
theorem Frame.trans {s1 s2 s3 : St} (h1 : Frame s1 s2) (h2 : Frame s2 s3) : Frame s1 s3 :=
  ⟨h2.ras.trans h1.ras, h2.seqs.trans h1.seqs, h2.nq.trans h1.nq, h2.t.trans h1.t, h2.p.trans h1.p⟩

theorem Frame.of_eq {s s' : St} (e1 : s'.ras = s.ras) (e2 : s'.seqs = s.seqs) (e3 : s'.nq = s.nq) (e4 : s'.t = s.t)
    (e5 : pp s' = pp s) : Frame s s' := ⟨by rw [e1], by rw [e2], e3, e4, e5⟩

theorem Frame.ra_map {s s' : St} (h : Frame s s') (id : Nat) : (getRa s' id).map rkey = (getRa s id).map rkey :=
  find_key_congr rkey (fun k => k.1 == id) s.ras s'.ras h.ras

theorem Frame.sq_map {s s' : St} (h : Frame s s') (a : Addr) : (getSeq s' a).map skey = (getSeq s a).map skey :=
  find_key_congr skey (fun k => k.1 == a) s.seqs s'.seqs h.seqs

theorem Frame.ra_some {s s' : St} (h : Frame s s') {id : Nat} {r : Rollapp} (hg : getRa s id = some r) :
    ∃ r', getRa s' id = some r' ∧ r'.id = r.id ∧ r'.proposer = r.proposer ∧ r'.successor = r.successor := by
  have := h.ra_map id
  rw [hg] at this
  cases hg' : getRa s' id with
  | none => rw [hg'] at this; cases this
  | some r' =>
    rw [hg'] at this
    simp only [Option.map_some, Option.some.injEq, rkey, Prod.mk.injEq] at this
    exact ⟨r', rfl, this.1, this.2.1, this.2.2⟩

theorem Frame.ra_some' {s s' : St} (h : Frame s s') {id : Nat} {r' : Rollapp} (hg : getRa s' id = some r') :
    ∃ r, getRa s id = some r ∧ r'.id = r.id ∧ r'.proposer = r.proposer ∧ r'.successor = r.successor := by
  have := h.ra_map id
  rw [hg] at this
  cases hg' : getRa s id with
  | none => rw [hg'] at this; cases this
  | some r =>
    rw [hg'] at this
    simp only [Option.map_some, Option.some.injEq, rkey, Prod.mk.injEq] at this
    exact ⟨r, rfl, this.1, this.2.1, this.2.2⟩

theorem Frame.sq_some {s s' : St} (h : Frame s s') {a : Addr} {q : Seq} (hg : getSeq s a = some q) :
    ∃ q', getSeq s' a = some q' ∧ q'.rollapp = q.rollapp ∧ q'.bonded = q.bonded ∧ q'.optedIn = q.optedIn ∧ q'.notice = q.notice := by
  have := h.sq_map a
  rw [hg] at this
  cases hg' : getSeq s' a with
  | none => rw [hg'] at this; cases this
  | some q' =>
    rw [hg'] at this
    simp only [Option.map_some, Option.some.injEq, skey, Prod.mk.injEq] at this
    exact ⟨q', rfl, this.2.1, this.2.2.1, this.2.2.2.1, this.2.2.2.2⟩

theorem Frame.uniq {s s' : St} (h : Frame s s') (u : Uniq s) : Uniq s' := by
  constructor
  · apply u.ids.of_ids_eq
    have := congrArg (List.map (fun k : Nat × Option Addr × Option Addr => k.1)) h.ras
    simpa [List.map_map, Function.comp_def, rkey] using this
  · apply u.addrs.of_addrs_eq
    have := congrArg (List.map (fun k : Addr × Nat × Bool × Bool × Option Nat => k.1)) h.seqs
    simpa [List.map_map, Function.comp_def, skey] using this
  · apply u.sorted.of_addrs_eq
    have := congrArg (List.map (fun k : Addr × Nat × Bool × Bool × Option Nat => k.1)) h.seqs
    simpa [List.map_map, Function.comp_def, skey] using this

/-- replacing the unique record with a given key by one with the same projection keeps the projection -/
theorem map_replace_key {α κ} (k : α → κ) (key : α → Nat) (l : List α) (r : α)
    (h : ∀ x ∈ l, key x = key r → k x = k r) :
    (l.map (fun x => if key x == key r then r else x)).map k = l.map k := by
  rw [List.map_map]
  apply List.map_congr_left
  intro x hx
  show k (if (key x == key r) = true then r else x) = k x
  split
  · rename_i hc; exact (h x hx (by simpa using hc)).symm
  · rfl

theorem Frame.of_setRa {s : St} {id : Nat} {r r0 : Rollapp} (u : Uniq s) (hg : getRa s id = some r0) (hid : r.id = r0.id)
    (hp : r.proposer = r0.proposer) (hs : r.successor = r0.successor) : Frame s (setRa s r) := by
  refine ⟨?_, rfl, rfl, rfl, rfl⟩
  unfold Core.setRa
  dsimp only
  apply map_replace_key rkey (·.id)
  intro x hx e
  have : x = r0 := u.ids.eq_of_mem hx (getRa_mem hg) (e.trans hid)
  subst this
  simp [rkey, e, hp, hs]

theorem Frame.of_setSeq {s : St} {a : Addr} {q q0 : Seq} (u : Uniq s) (hg : getSeq s a = some q0) (ha : q.addr = q0.addr)
    (h1 : q.rollapp = q0.rollapp) (h2 : q.bonded = q0.bonded) (h3 : q.optedIn = q0.optedIn) (h4 : q.notice = q0.notice) :
    Frame s (setSeq s q) := by
  refine ⟨rfl, ?_, rfl, rfl, rfl⟩
  unfold Core.setSeq
  dsimp only
  apply map_replace_key skey (·.addr)
  intro x hx e
  have : x = q0 := u.addrs.eq_of_mem hx (getSeq_mem hg) (e.trans ha)
  subst this
  simp [skey, e, h1, h2, h3, h4]

/-- a write of a role-equivalent rollapp record on top of role-irrelevant changes -/
theorem Frame.of_setRa_eq {s s1 : St} {id : Nat} {r r0 : Rollapp} (u : Uniq s) (hg : getRa s id = some r0)
    (e1 : s1.ras = s.ras) (e2 : s1.seqs = s.seqs) (e3 : s1.nq = s.nq) (e4 : s1.t = s.t) (e5 : pp s1 = pp s)
    (hid : r.id = r0.id) (hp : r.proposer = r0.proposer) (hs : r.successor = r0.successor) : Frame s (setRa s1 r) :=
  (Frame.of_eq e1 e2 e3 e4 e5).trans (Frame.of_setRa (u.of_eq e1 e2) (by rw [getRa_congr e1]; exact hg) hid hp hs)

theorem getRa_setRa_same' {s : St} {id : Nat} {r r0 : Rollapp} (hg : getRa s id = some r0) (hid : r.id = r0.id) :
    getRa (setRa s r) r.id = some r :=
  getRa_setRa_same (r0 := r0) (by rw [hid, getRa_id hg]; exact hg)

theorem getSeq_setSeq_same' {s : St} {a : Addr} {q q0 : Seq} (hg : getSeq s a = some q0) (ha : q.addr = q0.addr) :
    getSeq (setSeq s q) q.addr = some q :=
  getSeq_setSeq_same (q0 := q0) (by rw [ha, getSeq_addr hg]; exact hg)

-- ---------------------------------------------------------------- the invariant

/-- `a` is a bonded sequencer of rollapp `id` -/
def BondedOf (s : St) (id : Nat) (a : Addr) : Prop := ∃ q, getSeq s a = some q ∧ q.bonded = true ∧ q.rollapp = id

/-- the roles invariant without the "successor only under a proposer" clause (which is broken for a
    moment while a proposer is abruptly removed) -/
structure RolesCore (s : St) : Prop where
  uniq : Uniq s
  prop : ∀ r ∈ s.ras, ∀ a, r.proposer = some a → BondedOf s r.id a
  succ : ∀ r ∈ s.ras, ∀ a, r.successor = some a → BondedOf s r.id a
  succFresh : ∀ r ∈ s.ras, ∀ a, r.successor = some a → ∀ q, getSeq s a = some q → q.notice = none
  ne : ∀ r ∈ s.ras, ∀ a, r.proposer = some a → r.successor ≠ some a
  optOut : ∀ q ∈ s.seqs, q.notice.isSome = true → q.optedIn = false
  nq : ∀ t a, (t, a) ∈ s.nq → ∃ q r, getSeq s a = some q ∧ q.notice = some t ∧ getRa s q.rollapp = some r ∧ r.proposer = some a
  fut : ∀ e ∈ s.nq, s.t < e.1
  np : 0 < s.sqp.noticePeriod

/-- a successor exists only while there is a proposer -/
def SuccProp (s : St) : Prop := ∀ r ∈ s.ras, r.proposer = none → r.successor = none

structure Roles (s : St) : Prop where
  core : RolesCore s
  sp : SuccProp s

theorem BondedOf.frame {s s' : St} (f : Frame s s') {id : Nat} {a : Addr} (h : BondedOf s id a) : BondedOf s' id a := by
  obtain ⟨q, hq, hb, hr⟩ := h
  obtain ⟨q', hq', e1, e2, _, _⟩ := f.sq_some hq
  exact ⟨q', hq', e2.trans hb, e1.trans hr⟩

theorem RolesCore.frame {s s' : St} (h : RolesCore s) (f : Frame s s') : RolesCore s' := by
  constructor
  · exact f.uniq h.uniq
  · intro r' hr' a ha
    obtain ⟨r, hr, e⟩ := mem_key_congr rkey f.ras hr'
    simp only [rkey, Prod.mk.injEq] at e
    rw [← e.1]
    exact (h.prop r hr a (e.2.1.trans ha)).frame f
  · intro r' hr' a ha
    obtain ⟨r, hr, e⟩ := mem_key_congr rkey f.ras hr'
    simp only [rkey, Prod.mk.injEq] at e
    rw [← e.1]
    exact (h.succ r hr a (e.2.2.trans ha)).frame f
  · intro r' hr' a ha q' hq'
    obtain ⟨r, hr, e⟩ := mem_key_congr rkey f.ras hr'
    simp only [rkey, Prod.mk.injEq] at e
    obtain ⟨q, hq, _⟩ := h.succ r hr a (e.2.2.trans ha)
    obtain ⟨q'', hq'', _, _, _, e4⟩ := f.sq_some hq
    rw [hq'] at hq''; injection hq'' with hq''; subst hq''
    rw [e4]; exact h.succFresh r hr a (e.2.2.trans ha) q hq
  · intro r' hr' a ha
    obtain ⟨r, hr, e⟩ := mem_key_congr rkey f.ras hr'
    simp only [rkey, Prod.mk.injEq] at e
    rw [← e.2.2]
    exact h.ne r hr a (e.2.1.trans ha)
  · intro q' hq' hn
    obtain ⟨q, hq, e⟩ := mem_key_congr skey f.seqs hq'
    simp only [skey, Prod.mk.injEq] at e
    rw [← e.2.2.2.1]
    exact h.optOut q hq (by rw [e.2.2.2.2]; exact hn)
  · intro t a hta
    rw [f.nq] at hta
    obtain ⟨q, r, hq, hn, hr, hp⟩ := h.nq t a hta
    obtain ⟨q', hq', e1, _, _, e4⟩ := f.sq_some hq
    obtain ⟨r', hr', _, e6, _⟩ := f.ra_some hr
    exact ⟨q', r', hq', e4.trans hn, by rw [e1]; exact hr', e6.trans hp⟩
  · intro e he
    rw [f.nq] at he
    rw [f.t]; exact h.fut e he
  · have e : s'.sqp = s.sqp := congrArg Prod.snd f.p
    rw [e]; exact h.np

theorem SuccProp.frame {s s' : St} (h : SuccProp s) (f : Frame s s') : SuccProp s' := by
  intro r' hr' hp
  obtain ⟨r, hr, e⟩ := mem_key_congr rkey f.ras hr'
  simp only [rkey, Prod.mk.injEq] at e
  rw [← e.2.2]
  exact h r hr (e.2.1.trans hp)

theorem Roles.frame {s s' : St} (h : Roles s) (f : Frame s s') : Roles s' := ⟨h.core.frame f, h.sp.frame f⟩

end DymVerif.Core.Roles
