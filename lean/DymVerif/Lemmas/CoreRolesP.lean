/-
  Lemmas/CoreRolesP — how every function of M-Core moves the proposer field of every rollapp.
-/
import DymVerif.Lemmas.CoreRoles5
namespace DymVerif.Core.Roles

/-- the proposer slot of rollapp `id`: `none` = no such rollapp, `some none` = empty slot (sentinel) -/
def propOf (s : St) (id : Nat) : Option (Option Addr) := (getRa s id).map (·.proposer)

/-- every proposer slot is the same -/
def PSame (s s' : St) : Prop := ∀ id, propOf s' id = propOf s id
/-- every proposer slot except that of `ra` is the same -/
def PFix (ra : Nat) (s s' : St) : Prop := ∀ id, id ≠ ra → propOf s' id = propOf s id

theorem PSame.refl (s : St) : PSame s s := fun _ => rfl
theorem PSame.trans {s1 s2 s3 : St} (h1 : PSame s1 s2) (h2 : PSame s2 s3) : PSame s1 s3 :=
  fun id => (h2 id).trans (h1 id)
theorem PFix.trans {ra : Nat} {s1 s2 s3 : St} (h1 : PFix ra s1 s2) (h2 : PFix ra s2 s3) : PFix ra s1 s3 :=
  fun id hne => (h2 id hne).trans (h1 id hne)
theorem PSame.fix {s s' : St} (h : PSame s s') (ra : Nat) : PFix ra s s' := fun id _ => h id

theorem PSame.of_ras {s s' : St} (e : s'.ras = s.ras) : PSame s s' := by
  intro id; unfold propOf; rw [getRa_congr e]

theorem Frame.psame {s s' : St} (f : Frame s s') : PSame s s' := by
  intro id
  have := f.ra_map id
  unfold propOf
  cases h1 : getRa s id with
  | none =>
    rw [h1] at this
    cases h2 : getRa s' id with
    | none => rfl
    | some _ => rw [h2] at this; cases this
  | some r =>
    obtain ⟨r', hr', _, hp, _⟩ := f.ra_some h1
    rw [hr']; simp [hp]

theorem propOf_setRa {s : St} {id0 : Nat} {r r0 : Rollapp} (hg : getRa s id0 = some r0) (hid : r.id = r0.id) (id : Nat) :
    propOf (setRa s r) id = if id = r.id then some r.proposer else propOf s id := by
  unfold propOf
  by_cases hc : id = r.id
  · subst hc; rw [if_pos rfl, getRa_setRa_same' hg hid]; rfl
  · rw [if_neg hc, getRa_setRa_other (Ne.symm hc)]

theorem propOf_get {s : St} {id : Nat} {r : Rollapp} (hg : getRa s id = some r) : propOf s id = some r.proposer := by
  unfold propOf; rw [hg]; rfl

theorem psame_setRa {s : St} {id0 : Nat} {r r0 : Rollapp} (hg : getRa s id0 = some r0) (hid : r.id = r0.id)
    (hp : r.proposer = r0.proposer) : PSame s (setRa s r) := by
  intro id
  rw [propOf_setRa hg hid]
  split
  · rename_i hc
    have : getRa s id = some r0 := by rw [hc, hid, getRa_id hg]; exact hg
    rw [propOf_get this, hp]
  · rfl

-- ---------------------------------------------------------------- rollapp-side hooks

theorem indicateLiveness_psame {s : St} {id : Nat} {r : Rollapp} (hg : getRa s id = some r) :
    PSame s (indicateLiveness s r) := by
  unfold indicateLiveness resetClock scheduleEvent
  dsimp only
  exact (PSame.of_ras (s := s) (by rfl)).trans (psame_setRa (r0 := r) (by exact hg) (by rfl) (by rfl))

theorem afterSetRealProposer_psame (s : St) (ra : Nat) (a : Addr) : PSame s (afterSetRealProposer s ra a) := by
  unfold afterSetRealProposer
  split
  · exact PSame.refl s
  · rename_i r hg
    have f1 := indicateLiveness_psame hg
    split
    · exact f1
    · rename_i r1 hg1
      exact f1.trans (psame_setRa (r0 := r1) hg1 (by rfl) (by rfl))

theorem recoverFromSentinel_p {s s' : St} {ra : Nat} (e : recoverFromSentinel s ra = .ok s') :
    PFix ra s s' ∧ propOf s ra = some none ∧ propOf s' ra = some (choose s' ra) ∧ (choose s' ra).isSome = true := by
  have hseqs := (recoverFromSentinel_seqs e).1
  unfold recoverFromSentinel at e
  split at e
  · cases e
  · rename_i r hg
    split at e
    · cases e
    · rename_i hnone
      have hpn : r.proposer = none := by
        cases hp : r.proposer with
        | none => rfl
        | some _ => simp [hp] at hnone
      split at e
      · cases e
      · rename_i a hch
        injection e with e; subst e
        have hid := getRa_id hg
        have hps := afterSetRealProposer_psame (setRa s { r with proposer := some a }) ra a
        have hc : choose (afterSetRealProposer (setRa s { r with proposer := some a }) ra a) ra = some a := by
          rw [choose_congr hseqs]; exact hch
        refine ⟨?_, ?_, ?_, ?_⟩
        · intro id hne
          rw [hps id, propOf_setRa (r0 := r) hg (by rfl)]
          rw [if_neg (by show id ≠ r.id; rw [hid]; exact hne)]
        · rw [propOf_get hg, hpn]
        · rw [hps ra, propOf_setRa (r0 := r) hg (by rfl), if_pos (by show ra = r.id; exact hid.symm), hc]
        · rw [hc]; rfl

-- ---------------------------------------------------------------- removal and fork

theorem setProposer_p (s : St) (ra : Nat) (a : Option Addr) :
    PFix ra s (setProposer s ra a) ∧ ((getRa s ra).isSome = true → propOf (setProposer s ra a) ra = some a) := by
  unfold setProposer
  split
  · rename_i hg
    exact ⟨fun _ _ => rfl, by rw [hg]; intro hc; cases hc⟩
  · rename_i r hg
    have hid := getRa_id hg
    constructor
    · intro id hne
      rw [propOf_setRa (r0 := r) hg (by rfl), if_neg (by show id ≠ r.id; rw [hid]; exact hne)]
    · intro _
      rw [propOf_setRa (r0 := r) hg (by rfl), if_pos (by show ra = r.id; exact hid.symm)]

theorem setSuccessor_psame (s : St) (ra : Nat) (a : Option Addr) : PSame s (setSuccessor s ra a) := by
  unfold setSuccessor
  split
  · exact PSame.refl s
  · rename_i r hg
    exact psame_setRa (r0 := r) hg (by rfl) (by rfl)

theorem abruptRemoveProposer_p {s : St} {ra : Nat} (h : RolesCore s) :
    PFix ra s (abruptRemoveProposer s ra) ∧
      ((getRa s ra).isSome = true → propOf (abruptRemoveProposer s ra) ra = some none) := by
  unfold abruptRemoveProposer
  split
  · rename_i hg
    exact ⟨fun _ _ => rfl, by rw [hg]; intro hc; cases hc⟩
  · rename_i r hg
    split
    · rename_i hpn
      exact ⟨fun _ _ => rfl, fun _ => by rw [propOf_get hg, hpn]⟩
    · rename_i a hpa
      split
      · rename_i hq
        obtain ⟨q, hq', _⟩ := h.prop r (getRa_mem hg) a hpa
        rw [hq] at hq'; cases hq'
      · rename_i q hq
        have hras : (setSeq (removeFromNoticeQueue s q) { q with bonded := false }).ras = s.ras :=
          removeFromNoticeQueue_ras s q
        have hps : PSame s (setSeq (removeFromNoticeQueue s q) { q with bonded := false }) := PSame.of_ras hras
        have sp := setProposer_p (setSeq (removeFromNoticeQueue s q) { q with bonded := false }) ra none
        constructor
        · exact (hps.fix ra).trans sp.1
        · intro _
          apply sp.2
          rw [getRa_congr hras, hg]; rfl

theorem seqOnHardFork_p {s : St} {ra : Nat} (h : RolesCore s) :
    PFix ra s (seqOnHardFork s ra) ∧ ((getRa s ra).isSome = true → propOf (seqOnHardFork s ra) ra = some none) := by
  unfold seqOnHardFork
  have h1 := optOutAll_core h ra
  have p1 : PSame s (optOutAll s ra) := PSame.of_ras rfl
  have p2 := abruptRemoveProposer_p (ra := ra) h1
  have p3 := setSuccessor_psame (abruptRemoveProposer (optOutAll s ra) ra) ra none
  constructor
  · exact ((p1.fix ra).trans p2.1).trans (p3.fix ra)
  · intro hs
    rw [p3 ra]
    exact p2.2 hs

theorem hardFork_p {s s' : St} {ra lv : Nat} (h : RolesCore s) (e : hardFork s ra lv = .ok s') :
    PFix ra s s' ∧ propOf s' ra = some none := by
  unfold hardFork at e
  split at e
  · cases e
  · rename_i r hg
    split at e
    · cases e
    · split at e
      · cases e
      · split at e
        · cases e
        · rename_i keep kst _
          dsimp only at e
          injection e with e; subst e
          unfold resetClock
          dsimp only
          have f : Frame s (setRa { s with queue := removeIdxAbove s.queue ra keep,
                                           seqH := pruneSeqHeights s.seqH (kst.creator :: (r.states.drop keep).map (·.creator)) kst.last,
                                           lev := delEvent s.lev (forkedRollapp r keep kst).evH (forkedRollapp r keep kst).id }
                                  { forkedRollapp r keep kst with evH := 0, cdStart := s.h }) :=
            Frame.of_setRa_eq (r0 := r) h.uniq hg (by rfl) (by rfl) (by rfl) (by rfl) (by rfl) (by rfl) (by rfl) (by rfl)
          have sp := seqOnHardFork_p (ra := ra) (h.frame f)
          obtain ⟨r', hr', _⟩ := f.ra_some hg
          constructor
          · exact (f.psame.fix ra).trans sp.1
          · apply sp.2; rw [hr']; rfl

theorem hardForkToLatest_p {s s' : St} {ra : Nat} (h : RolesCore s) (e : hardForkToLatest s ra = .ok s') :
    PFix ra s s' ∧ propOf s' ra = some none := by
  unfold hardForkToLatest at e
  split at e
  · cases e
  · split at e
    · cases e
    · exact hardFork_p h e

-- ---------------------------------------------------------------- rotation

theorem onProposerLastBlock_p {s s' : St} {prop : Seq} {r0 : Rollapp} (h : Roles s)
    (hq : getSeq s prop.addr = some prop) (hr0 : r0 ∈ s.ras) (hp0 : r0.proposer = some prop.addr)
    (e : onProposerLastBlock s prop = .ok s') :
    PFix r0.id s s' ∧ propOf s' r0.id = some r0.successor ∧ noticeElapsed prop s.t = true := by
  obtain ⟨q2, hq2, _, hr2⟩ := h.core.prop r0 hr0 _ hp0
  rw [hq] at hq2; injection hq2 with hq2; subst hq2
  have hg0 : getRa s prop.rollapp = some r0 := by rw [hr2]; exact getRa_of_mem h.core.uniq.ids hr0
  unfold onProposerLastBlock at e
  split at e
  · cases e
  · rename_i hel
    have hel' : noticeElapsed prop s.t = true := by simpa using hel
    split at e
    · cases e
    · rename_i r hg
      rw [hg0] at hg; injection hg with hg; subst hg
      dsimp only at e
      have hps : ∀ id, propOf (setRa s { r0 with successor := none, proposer := r0.successor }) id =
          if id = r0.id then some r0.successor else propOf s id := propOf_setRa (r0 := r0) hg0 (by rfl)
      split at e
      · rename_i hsn
        -- no successor: fork
        have c1 : RolesCore (setRa s { r0 with successor := none, proposer := r0.successor }) := by
          apply h.core.of_setRa (r0 := r0) hg0 (by rfl)
          · intro a ha; exact h.core.succ r0 hr0 a ha
          · intro a ha; cases ha
          · intro a ha; cases ha
          · intro a _ hs; cases hs
          · intro t a hta hpa
            rw [hp0] at hpa; injection hpa with hpa; subst hpa
            obtain ⟨q3, _, hq3, hn3, _, _⟩ := h.core.nq t _ hta
            rw [hq] at hq3; injection hq3 with hq3; subst hq3
            have := h.core.fut _ hta
            unfold noticeElapsed at hel'
            rw [hn3] at hel'
            simp at hel'
            exact absurd this (by simp only; omega)
        have sp := hardForkToLatest_p c1 e
        refine ⟨?_, ?_, hel'⟩
        · intro id hne
          rw [sp.1 id hne, hps id, if_neg hne]
        · rw [sp.2]
          show some none = some r0.successor
          rw [show r0.successor = none from hsn]
      · rename_i a hsa
        injection e with e; subst e
        have hps2 := afterSetRealProposer_psame (setRa s { r0 with successor := none, proposer := r0.successor }) r0.id a
        refine ⟨?_, ?_, hel'⟩
        · intro id hne
          rw [hps2 id, hps id, if_neg hne]
        · rw [hps2 r0.id, hps r0.id, if_pos rfl]

theorem seqAfterUpdate_p {s s' : St} {m : UpdMsg} {b : Bool} {r0 : Rollapp} (h : Roles s)
    (hr0 : r0 ∈ s.ras) (hp0 : r0.proposer = some m.sender) (e : seqAfterUpdate s m b = .ok s') :
    (b = false → PSame s s') ∧
    (b = true → PFix r0.id s s' ∧ propOf s' r0.id = some r0.successor ∧
      ∃ q, getSeq s m.sender = some q ∧ noticeElapsed q s.t = true) := by
  unfold seqAfterUpdate at e
  split at e
  · cases e
  · rename_i prop hg
    dsimp only at e
    have hpa : prop.addr = m.sender := getSeq_addr hg
    have f1 : Frame s (setSeq s { prop with dishonor := prop.dishonor - min s.sqp.dishonorSU prop.dishonor }) :=
      Frame.of_setSeq (q0 := prop) h.core.uniq hg (by rfl) (by rfl) (by rfl) (by rfl) (by rfl)
    have h1 := h.frame f1
    split at e
    · rename_i hb
      refine ⟨fun hc => (by rw [hb] at hc; cases hc), fun _ => ?_⟩
      have sp := onProposerLastBlock_p (r0 := r0) h1 (getSeq_setSeq_same' (q0 := prop) hg (by rfl)) hr0
        (by rw [hp0]; exact congrArg some hpa.symm) e
      refine ⟨?_, ?_, prop, hg, sp.2.2⟩
      · intro id hne; rw [sp.1 id hne]; exact f1.psame id
      · exact sp.2.1
    · rename_i hb
      injection e with e; subst e
      refine ⟨fun _ => f1.psame, fun hc => absurd hc hb⟩

theorem updateState_p {s s' : St} {m : UpdMsg} (h : Roles s) (e : updateState s m = .ok s') :
    ∃ r, getRa s m.ra = some r ∧ r.proposer = some m.sender ∧
      (PSame s s' ∨
       (m.last = true ∧ PFix m.ra s s' ∧ propOf s' m.ra = some r.successor ∧
         ∃ q, getSeq s m.sender = some q ∧ noticeElapsed q s.t = true)) := by
  unfold updateState at e
  split at e
  · cases e
  · split at e
    · cases e
    · rename_i r hg
      split at e
      · cases e
      · rename_i hprop
        have hpr : r.proposer = some m.sender := by simpa using hprop
        refine ⟨r, hg, hpr, ?_⟩
        split at e
        · cases e
        · split at e
          · cases e
          · split at e
            · cases e
            · split at e
              · cases e
              · split at e
                · cases e
                · rename_i s3 h3
                  dsimp only at e
                  split at e
                  · cases e
                  · rename_i r4 hg4
                    injection e with e; subst e
                    have hid := getRa_id hg
                    have f1 : Frame s (setRa s { r with states := r.states ++ [newSInfo s m (updSucc r m)] }) :=
                      Frame.of_setRa (r0 := r) h.core.uniq hg (by rfl) (by rfl) (by rfl)
                    have h1 := h.frame f1
                    have hmem : ({ r with states := r.states ++ [newSInfo s m (updSucc r m)] } : Rollapp) ∈
                        (setRa s { r with states := r.states ++ [newSInfo s m (updSucc r m)] }).ras :=
                      getRa_mem (getRa_setRa_same' (r0 := r) hg (by rfl))
                    have sp := seqAfterUpdate_p h1 hmem hpr h3
                    have f4 : PSame s3 (indicateLiveness { s3 with queue := queueAppend s3.queue s3.h m.ra (r.states.length + 1), seqH := addSeqHeights s3.seqH m.sender m.bds } r4) :=
                      (PSame.of_ras (s := s3) (by rfl)).trans (indicateLiveness_psame hg4)
                    cases hb : (updSucc r m != NextP.addr m.sender) with
                    | false =>
                      left
                      exact (f1.psame.trans (sp.1 hb)).trans f4
                    | true =>
                      right
                      obtain ⟨p1, p2, q, hq, hel⟩ := sp.2 hb
                      have hlast : m.last = true := by
                        cases hl : m.last with
                        | true => rfl
                        | false => unfold updSucc at hb; simp [hl] at hb
                      refine ⟨hlast, ?_, ?_, q, ?_, hel⟩
                      · intro id hne
                        rw [f4 id, p1 id (by show id ≠ r.id; rw [hid]; exact hne)]
                        exact f1.psame id
                      · rw [f4 m.ra]
                        have : propOf s3 r.id = some r.successor := p2
                        rw [hid] at this; exact this
                      · exact hq

-- ---------------------------------------------------------------- bonds, opt-in, kick, fraud

theorem createSeq_p {s s' : St} {a : Addr} {ra bond : Nat} {d : Bool} (e : createSeq s a ra bond d = .ok s') :
    PSame s s' ∨ (PFix ra s s' ∧ propOf s ra = some none ∧ propOf s' ra = some (choose s' ra) ∧
      (choose s' ra).isSome = true) := by
  unfold createSeq at e
  split at e
  · cases e
  · rename_i r hg
    split at e
    · cases e
    · split at e
      · cases e
      · split at e
        · cases e
        · split at e
          · cases e
          · dsimp only at e
            have f0 : PSame s (if r.launched = true then s else setRa s { r with launched := true }) := by
              split
              · exact PSame.refl s
              · exact psame_setRa (r0 := r) hg (by rfl) (by rfl)
            split at e
            · cases e
            · rename_i s1 q1 hs
              have sp := sendToModule_same hs
              have f2 : PSame s { s1 with seqs := insertSorted (fun x y => decide (x.addr < y.addr)) q1 s1.seqs } :=
                f0.trans (PSame.of_ras sp.1.ras)
              split at e
              · cases e
              · split at e
                · right
                  have rp := recoverFromSentinel_p e
                  refine ⟨?_, ?_, rp.2.2⟩
                  · intro id hne; rw [rp.1 id hne]; exact f2 id
                  · rw [← f2 ra]; exact rp.2.1
                · injection e with e; subst e; left; exact f2

theorem decreaseBond_ras {s s' : St} {a : Addr} {amt : Nat} (e : decreaseBond s a amt = .ok s') : s'.ras = s.ras := by
  unfold decreaseBond at e
  split at e
  · cases e
  · split at e
    · cases e
    · split at e
      · cases e
      · rename_i s1 q1 hs
        injection e with e; subst e
        exact (tryUnbond_same hs).1.ras

theorem unbond_ras {s s' : St} {a : Addr} (e : unbond s a = .ok s') : s'.ras = s.ras := by
  unfold unbond at e
  split at e
  · cases e
  · split at e
    · cases e
    · split at e
      · cases e
      · split at e
        · split at e
          · cases e
          · split at e
            · cases e
            · injection e with e; subst e; rfl
        · split at e
          · cases e
          · rename_i s1 q1 hs
            injection e with e; subst e
            exact (tryUnbond_same hs).1.ras

theorem optIn_p {s s' : St} {a : Addr} {v : Bool} (e : optIn s a v = .ok s') :
    ∃ q, getSeq s a = some q ∧
      (PSame s s' ∨ (PFix q.rollapp s s' ∧ propOf s q.rollapp = some none ∧
        propOf s' q.rollapp = some (choose s' q.rollapp) ∧ (choose s' q.rollapp).isSome = true)) := by
  unfold optIn at e
  split at e
  · cases e
  · rename_i q hg
    refine ⟨q, hg, ?_⟩
    split at e
    · cases e
    · dsimp only at e
      have f1 : PSame s (setSeq s { q with optedIn := v }) := PSame.of_ras rfl
      split at e
      · cases e
      · split at e
        · right
          have rp := recoverFromSentinel_p e
          refine ⟨?_, ?_, rp.2.2⟩
          · intro id hne; rw [rp.1 id hne]; exact f1 id
          · rw [← f1 q.rollapp]; exact rp.2.1
        · injection e with e; subst e; left; exact f1

theorem kick_p {s s' : St} {a : Addr} (h : Roles s) (e : kick s a = .ok s') :
    ∃ k r pa pq, getSeq s a = some k ∧ k.bonded = true ∧ k.optedIn = true ∧ getRa s k.rollapp = some r ∧
      r.proposer = some pa ∧ a ≠ pa ∧ getSeq s pa = some pq ∧ s.sqp.kickThr ≤ pq.dishonor ∧
      PFix k.rollapp s s' ∧ propOf s' k.rollapp = some (choose s' k.rollapp) ∧ (choose s' k.rollapp).isSome = true := by
  unfold kick at e
  split at e
  · cases e
  · rename_i kicker hgk
    split at e
    · cases e
    · rename_i hpot
      have hkb : kicker.bonded = true ∧ kicker.optedIn = true := by
        cases h1 : kicker.bonded <;> cases h2 : kicker.optedIn <;> simp [h1, h2] at hpot ⊢
      split at e
      · cases e
      · rename_i r hgr
        split at e
        · cases e
        · rename_i pa hpa
          split at e
          · cases e
          · rename_i pq hpq
            split at e
            · cases e
            · rename_i hne
              split at e
              · cases e
              · rename_i hthr
                dsimp only at e
                split at e
                · cases e
                · rename_i s3 h3
                  have hid : r.id = kicker.rollapp := getRa_id hgr
                  have c2 : RolesCore (abruptRemoveProposer s r.id) := abruptRemoveProposer_core h.core
                  have p2 := abruptRemoveProposer_p (ra := r.id) h.core
                  have p3 := hardForkToLatest_p c2 h3
                  have p4 : PSame s3 (setSeq s3 { kicker with optedIn := true }) := PSame.of_ras rfl
                  have rp := recoverFromSentinel_p e
                  refine ⟨kicker, r, pa, pq, hgk, hkb.1, hkb.2, hgr, hpa, hne, hpq, by simpa using hthr, ?_, ?_, ?_⟩
                  · intro id hne'
                    have hne2 : id ≠ r.id := by rw [hid]; exact hne'
                    rw [rp.1 id hne2, p4 id, p3.1 id hne2, p2.1 id hne2]
                  · rw [← hid]; exact rp.2.2.1
                  · rw [← hid]; exact rp.2.2.2

theorem fraud_p {s s' : St} {au : Bool} {ra hh rev : Nat} {p rw : Option Addr} (h : Roles s)
    (e : fraud s au ra hh rev p rw = .ok s') : PFix ra s s' ∧ propOf s' ra = some none := by
  unfold fraud at e
  split at e
  · cases e
  · split at e
    · cases e
    · split at e
      · cases e
      · split at e
        · cases e
        · dsimp only at e
          split at e
          · cases e
          · rename_i s1 h1
            have hf : Frame s s1 := by
              split at h1
              · exact punish_frame h.core.uniq h1
              · injection h1 with h1; subst h1; exact Frame.refl s
            have sp := hardFork_p (h.core.frame hf) e
            exact ⟨(hf.psame.fix ra).trans sp.1, sp.2⟩

theorem markObsolete_p {s s' : St} {au : Bool} {vs : List Nat} (h : Roles s)
    (e : markObsolete s au vs = .ok s') : ∀ id, propOf s' id = propOf s id ∨ propOf s' id = some none := by
  unfold markObsolete at e
  split at e
  · cases e
  · split at e
    · cases e
    · dsimp only at e
      injection e with e; subst e
      have := foldl_inv (fun acc => Roles acc ∧ ∀ id, propOf acc id = propOf s id ∨ propOf acc id = some none)
        (fun acc r0 =>
          match getRa acc r0.id with
          | none => acc
          | some r =>
            match r.states.getLast? with
            | none => acc
            | some l =>
              if vs.contains ((l.bds.getLast?.map (·.drs)).getD 0) = true then
                match hardForkToLatest acc r.id with
                | .ok a => a
                | .error _ => acc
              else acc)
        s.ras { s with obsolete := vs.foldl (fun acc v => if acc.contains v then acc else acc ++ [v]) s.obsolete }
        ⟨h.frame (Frame.of_eq rfl rfl rfl rfl rfl), fun id => Or.inl rfl⟩
        (by
          intro b r0 hb
          split
          · exact hb
          · rename_i r _
            split
            · exact hb
            · split
              · split
                · rename_i a ha
                  refine ⟨hardForkToLatest_roles hb.1.core (hb.1.sp.ex _) ha, ?_⟩
                  have sp := hardForkToLatest_p hb.1.core ha
                  intro id
                  by_cases hc : id = r.id
                  · right; rw [hc]; exact sp.2
                  · rw [sp.1 id hc]; exact hb.2 id
                · exact hb
              · exact hb)
      exact this.2

-- ---------------------------------------------------------------- blocks

theorem beginStep_psame (acc : St) (e : Nat × Addr) : PSame acc (beginStep acc e) := by
  unfold beginStep
  split
  · exact PSame.of_ras rfl
  · split
    · exact PSame.of_ras rfl
    · rename_i r hr
      exact (PSame.of_ras (s := acc) (by rfl)).trans (psame_setRa (r0 := r) hr (by rfl) (by rfl))

theorem beginBlock_psame (s : St) (dt : Nat) : PSame s (beginBlock s dt) := by
  rw [beginBlock_eq]
  apply foldl_inv (fun acc => PSame s acc)
  · exact PSame.of_ras rfl
  · intro b e hb; exact hb.trans (beginStep_psame b e)

end DymVerif.Core.Roles
