/-
  Lemmas/CoreLevSched — the liveness schedule: what `checkLiveness` / `endBlock` do to a rollapp
  whose event is (not) due, one idle block, and any number of idle blocks.
-/
import DymVerif.Lemmas.CoreLevFrame
namespace DymVerif.Core.LevNs

-- ---------------------------------------------------------------- arithmetic of consecutive heights

/-- while the event is more than one block away, advancing the hub height does not move it -/
theorem nextSlashHeight_stable (N I H c : Nat) (hI : 1 ≤ I) (hc : c ≤ H) (h : H + 1 < nextSlashHeight N I H c) :
    nextSlashHeight N I (H + 1) c = nextSlashHeight N I H c := by
  obtain ⟨k, hk⟩ := nextSlashHeight_grid N I H c
  obtain ⟨k', hk'⟩ := nextSlashHeight_grid N I (H + 1) c
  have h1 := nextSlashHeight_least N I (H + 1) c k hI (by omega) (by omega)
  have h2 := nextSlashHeight_future N I (H + 1) c hI (by omega)
  have h3 := nextSlashHeight_least N I H c k' hI hc (by omega)
  omega

/-- the event computed at height `H` is due in the very next block iff `H + 1` is a grid point -/
theorem nextSlashHeight_eq_succ_iff (N I H c : Nat) (hI : 1 ≤ I) (hc : c ≤ H) :
    nextSlashHeight N I H c = H + 1 ↔ ∃ j, H + 1 = c + N + j * I := by
  constructor
  · intro h; obtain ⟨k, hk⟩ := nextSlashHeight_grid N I H c; exact ⟨k, by omega⟩
  · rintro ⟨j, hj⟩
    have h1 := nextSlashHeight_least N I H c j hI hc (by omega)
    have h2 := nextSlashHeight_future N I H c hI hc
    omega

-- ---------------------------------------------------------------- checkLiveness: simple frames

theorem checkLiveness_h (s : St) : (checkLiveness s).h = s.h := by
  unfold checkLiveness
  exact foldl_inv (fun x : St => x.h = s.h) _ _ _ rfl (fun b e hb => by rw [handleLivenessEvent_h]; exact hb)

theorem checkLiveness_p (s : St) : (checkLiveness s).p = s.p := by
  unfold checkLiveness
  exact foldl_inv (fun x : St => x.p = s.p) _ _ _ rfl (fun b e hb => by rw [handleLivenessEvent_p]; exact hb)

theorem checkLiveness_sqp (s : St) : (checkLiveness s).sqp = s.sqp := by
  unfold checkLiveness
  exact foldl_inv (fun x : St => x.sqp = s.sqp) _ _ _ rfl (fun b e hb => by rw [handleLivenessEvent_sqp]; exact hb)

theorem checkLiveness_cust {s : St} (h : Cust s) : Cust (checkLiveness s) := by
  unfold checkLiveness
  exact foldl_inv Cust _ _ _ h (fun b e hb => handleLivenessEvent_cust hb)

theorem checkLiveness_uniq {s : St} {a : Addr} {ra : Nat} (h : Uniq s a ra) : Uniq (checkLiveness s) a ra := by
  unfold checkLiveness
  exact foldl_inv (fun x : St => Uniq x a ra) _ _ _ h (fun b e hb => handleLivenessEvent_uniq hb)

/-- an event is queued at the current height for a rollapp iff its record carries that height -/
theorem due_iff {s : St} (hl : Lev s) (hp : 1 ≤ s.h) {ra : Nat} {r : Rollapp} (hg : getRa s ra = some r) :
    (s.h, ra) ∈ s.lev ↔ r.evH = s.h := by
  constructor
  · intro hm; exact (hl.ev_height hg hm rfl).symm
  · intro he
    rcases hl.ra_ev r (getRa_mem hg) with h1 | h1
    · omega
    · rw [he, getRa_id hg] at h1; exact h1

-- ---------------------------------------------------------------- checkLiveness: event not due

/-- a rollapp whose event is not due keeps its record through `checkLiveness` -/
theorem checkLiveness_not_due_ra {s : St} {ra : Nat} {r : Rollapp} (hl : Lev s) (hg : getRa s ra = some r)
    (hne : r.evH ≠ s.h) : getRa (checkLiveness s) ra = some r := by
  unfold checkLiveness
  have := (foldl_handle (fun x _ => x.h = s.h ∧ getRa x ra = some r) (by
    intro x e es hlx he h1 _ hq
    have hne' : e.2 ≠ ra := by
      intro hc
      have := hlx.ev_height hq.2 he hc
      apply hne; rw [← this, h1]; exact hq.1
    exact ⟨by rw [handleLivenessEvent_h]; exact hq.1, by rw [handleLivenessEvent_getRa_other hne']; exact hq.2⟩)
    _ s hl due_events (due_nodup hl) ⟨rfl, hg⟩).2
  exact this.2

/-- … and, when its proposer proposes for no other rollapp, the proposer's record is untouched -/
theorem checkLiveness_not_due {s : St} {a : Addr} {ra : Nat} {r : Rollapp} (hl : Lev s) (hu : Uniq s a ra)
    (hg : getRa s ra = some r) (hne : r.evH ≠ s.h) :
    getRa (checkLiveness s) ra = some r ∧ getSeq (checkLiveness s) a = getSeq s a := by
  refine ⟨checkLiveness_not_due_ra hl hg hne, ?_⟩
  unfold checkLiveness
  have := (foldl_handle (fun x _ => x.h = s.h ∧ getRa x ra = some r ∧ Uniq x a ra ∧ getSeq x a = getSeq s a) (by
    intro x e es hlx he h1 _ hq
    have hne' : e.2 ≠ ra := by
      intro hc
      have := hlx.ev_height hq.2.1 he hc
      apply hne; rw [← this, h1]; exact hq.1
    have ho := handleLivenessEvent_other hq.2.2.1 hne'
    exact ⟨by rw [handleLivenessEvent_h]; exact hq.1, by rw [ho.1]; exact hq.2.1,
      handleLivenessEvent_uniq hq.2.2.1, by rw [ho.2]; exact hq.2.2.2⟩)
    _ s hl due_events (due_nodup hl) ⟨rfl, hg, hu, rfl⟩).2
  exact this.2.2.2

-- ---------------------------------------------------------------- checkLiveness: event due

theorem handleLivenessEvent_self_ra {s : St} {ra : Nat} {r : Rollapp} (hc : Cust s) (hg : getRa s ra = some r) :
    getRa (handleLivenessEvent s ra) ra =
      some { r with evH := nextSlashHeight s.p.lsBlocks s.p.lsInterval s.h r.cdStart } := by
  obtain ⟨s1, hs⟩ := slashLiveness_ok hc r
  have hsame := slashLiveness_same hs
  have hg1 : getRa s1 ra = some r := by rw [getRa_congr hsame.1]; exact hg
  rw [handleLivenessEvent_eq hg hs, ← hsame.2.2.1, ← hsame.peq]
  generalize nextSlashHeight s1.p.lsBlocks s1.p.lsInterval s1.h r.cdStart = n
  exact getRa_setRa_lev (r' := { r with evH := n }) hg1 (show r.id = ra from getRa_id hg)

/-- a rollapp whose event is due is rescheduled by `checkLiveness` (whatever else is due) -/
theorem checkLiveness_due_ra {s : St} {ra : Nat} {r : Rollapp} (hl : Lev s) (hc : Cust s) (hg : getRa s ra = some r)
    (hm : (s.h, ra) ∈ s.lev) :
    getRa (checkLiveness s) ra = some { r with evH := nextSlashHeight s.p.lsBlocks s.p.lsInterval s.h r.cdStart } := by
  unfold checkLiveness
  have := (foldl_handle (fun x rest => x.h = s.h ∧ x.p = s.p ∧ Cust x ∧
      (((s.h, ra) ∈ rest ∧ getRa x ra = some r) ∨
       ((s.h, ra) ∉ rest ∧ getRa x ra = some { r with evH := nextSlashHeight s.p.lsBlocks s.p.lsInterval s.h r.cdStart }))) (by
    intro x e es _ _ h1 hdist hq
    obtain ⟨qh, qp, qc, qst⟩ := hq
    refine ⟨by rw [handleLivenessEvent_h]; exact qh, by rw [handleLivenessEvent_p]; exact qp,
      handleLivenessEvent_cust qc, ?_⟩
    by_cases hra : e.2 = ra
    · rcases qst with ⟨_, q2⟩ | ⟨q1, _⟩
      · right
        refine ⟨fun hmem => hdist _ hmem hra.symm, ?_⟩
        rw [hra, handleLivenessEvent_self_ra qc q2, qh, qp]
      · exfalso; apply q1
        have : e = (s.h, ra) := Prod.ext (h1.trans qh) hra
        rw [← this]; exact List.mem_cons_self
    · rw [handleLivenessEvent_getRa_other hra]
      rcases qst with ⟨q1, q2⟩ | ⟨q1, q2⟩
      · left
        refine ⟨?_, q2⟩
        rcases List.mem_cons.1 q1 with h2 | h2
        · exact absurd (by rw [← h2] : e.2 = ra) hra
        · exact h2
      · right
        exact ⟨fun hmem => q1 (List.mem_cons_of_mem _ hmem), q2⟩)
    _ s hl due_events (due_nodup hl)
    ⟨rfl, rfl, hc, Or.inl ⟨List.mem_filter.2 ⟨hm, by simp⟩, hg⟩⟩).2
  rcases this.2.2.2 with ⟨h1, _⟩ | ⟨_, h2⟩
  · cases h1
  · exact h2

/-- … and its (exclusive) real proposer is slashed exactly once -/
theorem checkLiveness_due {s : St} {a : Addr} {ra : Nat} {r : Rollapp} {q : Seq} (hl : Lev s) (hc : Cust s)
    (hu : Uniq s a ra) (hg : getRa s ra = some r) (hp : r.proposer = some a) (hq : getSeq s a = some q)
    (hm : (s.h, ra) ∈ s.lev) :
    getRa (checkLiveness s) ra = some { r with evH := nextSlashHeight s.p.lsBlocks s.p.lsInterval s.h r.cdStart } ∧
    getSeq (checkLiveness s) a = some (slashOnce s.sqp q) := by
  refine ⟨checkLiveness_due_ra hl hc hg hm, ?_⟩
  unfold checkLiveness
  have := (foldl_handle (fun x rest => x.h = s.h ∧ x.sqp = s.sqp ∧ Cust x ∧ Uniq x a ra ∧
      (((s.h, ra) ∈ rest ∧ getRa x ra = some r ∧ getSeq x a = some q) ∨
       ((s.h, ra) ∉ rest ∧ getSeq x a = some (slashOnce s.sqp q)))) (by
    intro x e es _ _ h1 hdist hq
    obtain ⟨qh, qp, qc, qu, qst⟩ := hq
    refine ⟨by rw [handleLivenessEvent_h]; exact qh, by rw [handleLivenessEvent_sqp]; exact qp,
      handleLivenessEvent_cust qc, handleLivenessEvent_uniq qu, ?_⟩
    by_cases hra : e.2 = ra
    · rcases qst with ⟨_, q2, q3⟩ | ⟨q1, _⟩
      · right
        refine ⟨fun hmem => hdist _ hmem hra.symm, ?_⟩
        rw [hra, (handleLivenessEvent_self qc q2 hp q3).2.1, qp]
      · exfalso; apply q1
        have : e = (s.h, ra) := Prod.ext (h1.trans qh) hra
        rw [← this]; exact List.mem_cons_self
    · have ho := handleLivenessEvent_other qu hra
      rw [ho.1, ho.2]
      rcases qst with ⟨q1, q2⟩ | ⟨q1, q2⟩
      · left
        refine ⟨?_, q2⟩
        rcases List.mem_cons.1 q1 with h2 | h2
        · exact absurd (by rw [← h2] : e.2 = ra) hra
        · exact h2
      · right
        exact ⟨fun hmem => q1 (List.mem_cons_of_mem _ hmem), q2⟩)
    _ s hl due_events (due_nodup hl)
    ⟨rfl, rfl, hc, hu, Or.inl ⟨List.mem_filter.2 ⟨hm, by simp⟩, hg, hq⟩⟩).2
  rcases this.2.2.2.2 with ⟨h1, _⟩ | ⟨_, h2⟩
  · cases h1
  · exact h2

-- ---------------------------------------------------------------- one idle block

/-- the proposer's record after the idle block that starts (between blocks) at height `H`:
    slashed iff the event computed at `H` is due at `H + 1` -/
def idleBlock (p : Params) (sp : SeqParams) (c H : Nat) (q : Seq) : Seq :=
  if nextSlashHeight p.lsBlocks p.lsInterval H c = H + 1 then slashOnce sp q else q

/-- the proposer's record after `k` idle blocks starting between blocks at height `H` -/
def idleSeq (p : Params) (sp : SeqParams) (c : Nat) : Nat → Nat → Seq → Seq
  | _, 0, q => q
  | H, k + 1, q => idleSeq p sp c (H + 1) k (idleBlock p sp c H q)

/-- between blocks: rollapp `ra` has countdown start `c`, real proposer `a` (who proposes for no other
    rollapp) with record `q`, and its event at the next slash height -/
structure IdleInv (a : Addr) (ra c : Nat) (q : Seq) (s : St) : Prop where
  lev : Lev s
  cust : Cust s
  fut : Fut 0 s
  uniq : Uniq s a ra
  ra : (getRa s ra).map liv = some (nextSlashHeight s.p.lsBlocks s.p.lsInterval s.h c, c, some a)
  seq : getSeq s a = some q

theorem map_liv_some {s : St} {ra : Nat} {v : Nat × Nat × Option Addr} (h : (getRa s ra).map liv = some v) :
    ∃ r, getRa s ra = some r ∧ r.evH = v.1 ∧ r.cdStart = v.2.1 ∧ r.proposer = v.2.2 := by
  cases hg : getRa s ra with
  | none => rw [hg] at h; cases h
  | some r =>
    rw [hg] at h
    have : some (liv r) = some v := h
    injection this with this
    subst this
    exact ⟨r, rfl, rfl, rfl, rfl⟩

theorem block_idle {a : Addr} {ra c : Nat} {q : Seq} {s : St} (dt : Nat) (f : List (Nat × Nat))
    (h : IdleInv a ra c q s) :
    IdleInv a ra c (idleBlock s.p s.sqp c s.h q) (endBlock (beginBlock s dt) f) ∧
    (endBlock (beginBlock s dt) f).h = s.h + 1 ∧ pp (endBlock (beginBlock s dt) f) = pp s := by
  obtain ⟨fb, hb⟩ := beginBlock_frame s dt
  have l1 : Lev (beginBlock s dt) := beginBlock_lev h.lev
  have c1 : Cust (beginBlock s dt) := beginBlock_cust h.cust
  have f1 : Fut 1 (beginBlock s dt) := beginBlock_fut h.fut
  have u1 : Uniq (beginBlock s dt) a ra := h.uniq.frame fb
  obtain ⟨r0, hg0, _, hcd0, _⟩ := map_liv_some h.ra
  have hcs : c ≤ s.h := by have := h.fut.cd r0 (getRa_mem hg0); rw [hcd0] at this; exact this
  have hI := h.fut.iv
  generalize beginBlock s dt = s1 at *
  obtain ⟨ff, hf⟩ := finalizeRollappStates_frame s1 f
  have l2 : Lev (finalizeRollappStates s1 f) := finalizeRollappStates_cl lev_closed l1
  have c2 : Cust (finalizeRollappStates s1 f) := c1.of_eq ff.seqs ff.modBal
  have f2 : Fut 1 (finalizeRollappStates s1 f) := finalizeRollappStates_cl (fut_closed 1) f1
  have u2 : Uniq (finalizeRollappStates s1 f) a ra := u1.frame ff
  have ra2 := ff.getRa (fb.getRa h.ra)
  have seq2 : getSeq (finalizeRollappStates s1 f) a = some q := by rw [ff.getSeq, fb.getSeq]; exact h.seq
  unfold endBlock
  generalize finalizeRollappStates s1 f = s2 at *
  have h2 : s2.h = s.h + 1 := hf.trans hb
  have pp2 : pp s2 = pp s := ff.p.trans fb.p
  have p2 : s2.p = s.p := pp_p pp2
  have sq2 : s2.sqp = s.sqp := pp_sqp pp2
  obtain ⟨r2, hg2, he2, hcd2, hp2⟩ := map_liv_some ra2
  have he2 : r2.evH = nextSlashHeight s.p.lsBlocks s.p.lsInterval s.h c := he2
  have hcd2 : r2.cdStart = c := hcd2
  have hp2 : r2.proposer = some a := hp2
  have hfutE := nextSlashHeight_future s.p.lsBlocks s.p.lsInterval s.h c hI hcs
  have hh3 : (checkLiveness s2).h = s.h + 1 := (checkLiveness_h s2).trans h2
  have hp3 : (checkLiveness s2).p = s.p := (checkLiveness_p s2).trans p2
  have hs3 : (checkLiveness s2).sqp = s.sqp := (checkLiveness_sqp s2).trans sq2
  have hpp3 : pp (checkLiveness s2) = pp s := by unfold pp; rw [hp3, hs3]
  refine ⟨⟨checkLiveness_lev l2, checkLiveness_cust c2, checkLiveness_fut (Nat.le_refl 1) l2 c2 f2,
    checkLiveness_uniq u2, ?_, ?_⟩, hh3, hpp3⟩
  · rw [hh3, hp3]
    by_cases hE : nextSlashHeight s.p.lsBlocks s.p.lsInterval s.h c = s.h + 1
    · have hm : (s2.h, ra) ∈ s2.lev := by
        rcases l2.ra_ev r2 (getRa_mem hg2) with h3 | h3
        · omega
        · rw [he2, hE, getRa_id hg2, ← h2] at h3; exact h3
      rw [checkLiveness_due_ra l2 c2 hg2 hm]
      show some (nextSlashHeight s2.p.lsBlocks s2.p.lsInterval s2.h r2.cdStart, r2.cdStart, r2.proposer) = _
      rw [p2, h2, hcd2, hp2]
    · have hne : r2.evH ≠ s2.h := by rw [he2, h2]; exact hE
      rw [checkLiveness_not_due_ra l2 hg2 hne]
      show some (r2.evH, r2.cdStart, r2.proposer) = _
      rw [he2, hcd2, hp2, nextSlashHeight_stable _ _ _ _ hI hcs (by omega)]
  · unfold idleBlock
    by_cases hE : nextSlashHeight s.p.lsBlocks s.p.lsInterval s.h c = s.h + 1
    · have hm : (s2.h, ra) ∈ s2.lev := by
        rcases l2.ra_ev r2 (getRa_mem hg2) with h3 | h3
        · omega
        · rw [he2, hE, getRa_id hg2, ← h2] at h3; exact h3
      rw [if_pos hE, (checkLiveness_due l2 c2 u2 hg2 hp2 seq2 hm).2, sq2]
    · have hne : r2.evH ≠ s2.h := by rw [he2, h2]; exact hE
      rw [if_neg hE, (checkLiveness_not_due l2 u2 hg2 hne).2]; exact seq2

-- ---------------------------------------------------------------- any number of idle blocks

/-- `k` blocks without messages: `begin_ dt`, `end_ f` for each `(dt, f)` -/
def runBlocks (s : St) (bs : List (Nat × List (Nat × Nat))) : St :=
  bs.foldl (fun s b => endBlock (beginBlock s b.1) b.2) s

def blockOps (bs : List (Nat × List (Nat × Nat))) : List Op := bs.flatMap (fun b => [.begin_ b.1, .end_ b.2])

theorem runBlocks_eq_steps (bs : List (Nat × List (Nat × Nat))) (s : St) :
    (blockOps bs).foldl (fun s o => (step s o).1) s = runBlocks s bs := by
  induction bs generalizing s with
  | nil => rfl
  | cons b bs ih =>
    unfold blockOps runBlocks
    rw [List.flatMap_cons, List.foldl_append, List.foldl_cons]
    exact ih _

theorem blocks_idle {a : Addr} {ra c : Nat} : ∀ (bs : List (Nat × List (Nat × Nat))) (s : St) (q : Seq),
    IdleInv a ra c q s →
    IdleInv a ra c (idleSeq s.p s.sqp c s.h bs.length q) (runBlocks s bs) ∧
    (runBlocks s bs).h = s.h + bs.length ∧ pp (runBlocks s bs) = pp s := by
  intro bs
  induction bs with
  | nil => intro s q h; exact ⟨h, rfl, rfl⟩
  | cons b bs ih =>
    intro s q h
    obtain ⟨h1, hh, hp⟩ := block_idle b.1 b.2 h
    obtain ⟨i1, ih2, ip⟩ := ih _ _ h1
    rw [hh, pp_p hp, pp_sqp hp] at i1
    refine ⟨i1, ?_, ?_⟩
    · show (runBlocks (endBlock (beginBlock s b.1) b.2) bs).h = _
      rw [ih2, hh, List.length_cons]; omega
    · show pp (runBlocks (endBlock (beginBlock s b.1) b.2) bs) = _
      rw [ip, hp]

end DymVerif.Core.LevNs
