import DymVerif.Model.CoreBlocks
import DymVerif.Lemmas.CoreRoles5
namespace DymVerif.Core

/-- every notice-queue entry is backed by a sequencer record ⇒ `BeginBlock` returns no error and
    does exactly what the total model does -/
theorem beginBlockE_ok (s : St) (dt : Nat) (h : ∀ t a, (t, a) ∈ s.nq → ∃ q, getSeq s a = some q) :
    beginBlockE s dt = .ok (beginBlock s dt) := by
  unfold beginBlockE
  dsimp only
  rw [if_pos]
  rw [List.all_eq_true]
  intro e he
  have hm : e ∈ s.nq := (List.mem_filter.1 he).1
  obtain ⟨q, hq⟩ := h e.1 e.2 hm
  have : getSeq { s with h := s.h + 1, t := s.t + dt } e.2 = getSeq s e.2 := rfl
  rw [this, hq]; rfl

/-- an entry without a record DOES make `BeginBlock` fail once it is due: the hypothesis above is
    needed (it is an invariant of reachable states, see `Props/C11`) -/
theorem beginBlockE_fails_without_record :
    ∃ s : St, ∃ dt, beginBlockE s dt = .error .internal := by
  refine ⟨{ (init default) with nq := [(0, 7)] }, 1, ?_⟩
  unfold beginBlockE
  rfl

theorem blockE_ok (s : St) (dt : Nat) (fails : List (Nat × Nat))
    (h : ∀ t a, (t, a) ∈ s.nq → ∃ q, getSeq s a = some q) :
    blockE s dt fails = .ok (endBlock (beginBlock s dt) fails) := by
  unfold blockE; rw [beginBlockE_ok s dt h]

end DymVerif.Core
