import DymVerif.Base.Bytes
namespace DymVerif

theorem beN_length (k n : Nat) : (beN k n).length = k := by
  induction k generalizing n with
  | zero => rfl
  | succ k ih => simp [beN, ih]

theorem pow256_pos (k : Nat) : 0 < 256 ^ k := Nat.pow_pos (by decide)

theorem beN_wf (k n : Nat) : Bytes.WF (beN k n) := by
  induction k generalizing n with
  | zero => intro x hx; simp [beN] at hx
  | succ k ih =>
    intro x hx
    simp [beN] at hx
    rcases hx with h | h
    · subst h; exact Nat.mod_lt _ (by decide)
    · exact ih _ x h

theorem beVal_beN (k n : Nat) (h : n < 256 ^ k) : beVal (beN k n) = n := by
  induction k generalizing n with
  | zero => simp [beN, beVal] at *; omega
  | succ k ih =>
    have hp := pow256_pos k
    have hlt : n / 256 ^ k < 256 := by
      rw [Nat.div_lt_iff_lt_mul hp]; rw [Nat.pow_succ] at h; rw [Nat.mul_comm]; exact h
    simp only [beN, beVal, beN_length]
    rw [ih _ (Nat.mod_lt _ hp), Nat.mod_eq_of_lt hlt]
    rw [Nat.mul_comm]; exact Nat.div_add_mod n (256 ^ k)

theorem beN_inj (k a b : Nat) (ha : a < 256 ^ k) (hb : b < 256 ^ k) (h : beN k a = beN k b) : a = b := by
  rw [← beVal_beN k a ha, ← beVal_beN k b hb, h]

theorem lexLt_irrefl (a : Bytes) : lexLt a a = false := by
  induction a with
  | nil => rfl
  | cons x xs ih => simp [lexLt, ih]

/-- big-endian fixed-width encoding is order preserving: lexicographic byte order = numeric order -/
theorem lexLt_beN (k a b : Nat) (ha : a < 256 ^ k) (hb : b < 256 ^ k) :
    lexLt (beN k a) (beN k b) = decide (a < b) := by
  induction k generalizing a b with
  | zero => simp [beN, lexLt] at *; omega
  | succ k ih =>
    have hp := pow256_pos k
    simp only [beN, lexLt]
    have hqa : a / 256 ^ k < 256 := by
      rw [Nat.div_lt_iff_lt_mul hp]; rw [Nat.pow_succ] at ha; rw [Nat.mul_comm]; exact ha
    have hqb : b / 256 ^ k < 256 := by
      rw [Nat.div_lt_iff_lt_mul hp]; rw [Nat.pow_succ] at hb; rw [Nat.mul_comm]; exact hb
    rw [Nat.mod_eq_of_lt hqa, Nat.mod_eq_of_lt hqb]
    have ea := Nat.div_add_mod a (256 ^ k)
    have eb := Nat.div_add_mod b (256 ^ k)
    have ra := Nat.mod_lt a hp
    have rb := Nat.mod_lt b hp
    by_cases h1 : a / 256 ^ k < b / 256 ^ k
    · simp only [h1, if_true]
      have : 256 ^ k * (a / 256 ^ k + 1) ≤ 256 ^ k * (b / 256 ^ k) := Nat.mul_le_mul_left _ h1
      rw [Nat.mul_add, Nat.mul_one] at this
      have : a < b := by omega
      simp [this]
    · simp only [h1, if_false]
      by_cases h2 : b / 256 ^ k < a / 256 ^ k
      · simp only [h2, if_true]
        have : 256 ^ k * (b / 256 ^ k + 1) ≤ 256 ^ k * (a / 256 ^ k) := Nat.mul_le_mul_left _ h2
        rw [Nat.mul_add, Nat.mul_one] at this
        have : ¬ a < b := by omega
        simp [this]
      · simp only [h2, if_false]
        have heq : a / 256 ^ k = b / 256 ^ k := by omega
        rw [ih _ _ ra rb]
        rw [heq] at ea
        have : (a % 256 ^ k < b % 256 ^ k) ↔ a < b := by omega
        simp [this]

theorem be64_length (n : Nat) : (be64 n).length = 8 := beN_length 8 n

theorem be64_inj (a b : Nat) (ha : a < 2 ^ 64) (hb : b < 2 ^ 64) (h : be64 a = be64 b) : a = b :=
  beN_inj 8 a b (by simpa using ha) (by simpa using hb) h

theorem lexLt_be64 (a b : Nat) (ha : a < 2 ^ 64) (hb : b < 2 ^ 64) :
    lexLt (be64 a) (be64 b) = decide (a < b) :=
  lexLt_beN 8 a b (by simpa using ha) (by simpa using hb)

-- prefix / append / order interplay -------------------------------------------------

theorem lexLt_append_left (p a b : Bytes) : lexLt (p ++ a) (p ++ b) = lexLt a b := by
  induction p with
  | nil => rfl
  | cons x xs ih => simp [lexLt, ih]

/-- for equal-length heads, the order of `a ++ r` vs `b ++ s` is decided by the heads when they differ -/
theorem lexLt_append_of_lt (a b r s : Bytes) (hl : a.length = b.length) (h : lexLt a b = true) :
    lexLt (a ++ r) (b ++ s) = true := by
  induction a generalizing b with
  | nil => cases b with
    | nil => simp [lexLt] at h
    | cons y ys => simp at hl
  | cons x xs ih =>
    cases b with
    | nil => simp at hl
    | cons y ys =>
      simp only [List.cons_append, lexLt] at *
      by_cases h1 : x < y
      · simp [h1]
      · simp only [h1, if_false] at *
        by_cases h2 : y < x
        · simp [h2] at h
        · simp only [h2, if_false] at *
          exact ih ys (by simpa using hl) h

theorem lexLt_asymm (a b : Bytes) (h : lexLt a b = true) : lexLt b a = false := by
  induction a generalizing b with
  | nil => cases b <;> simp [lexLt] at *
  | cons x xs ih =>
    cases b with
    | nil => simp [lexLt] at h
    | cons y ys =>
      simp only [lexLt] at *
      by_cases h1 : x < y
      · have : ¬ y < x := by omega
        simp [h1, this]
      · simp only [h1, if_false] at *
        by_cases h2 : y < x
        · simp [h2] at h
        · simp only [h2, if_false] at *
          exact ih ys h

theorem isPrefix_append (p r : Bytes) : isPrefix p (p ++ r) = true := by
  induction p with
  | nil => rfl
  | cons x xs ih => simp [isPrefix, ih]

theorem isPrefix_iff (p k : Bytes) : isPrefix p k = true ↔ ∃ r, k = p ++ r := by
  induction p generalizing k with
  | nil => simp [isPrefix]
  | cons x xs ih =>
    cases k with
    | nil => simp [isPrefix]
    | cons y ys =>
      simp only [isPrefix, Bool.and_eq_true, beq_iff_eq, ih, List.cons_append, List.cons.injEq]
      constructor
      · rintro ⟨rfl, r, rfl⟩; exact ⟨r, rfl, rfl⟩
      · rintro ⟨r, rfl, rfl⟩; exact ⟨rfl, r, rfl⟩

/-- splitting at a separator that does not occur in the heads is unambiguous -/
theorem sep_split_unique (sep : Nat) (a a' r r' : Bytes)
    (ha : sep ∉ a) (ha' : sep ∉ a') (h : a ++ sep :: r = a' ++ sep :: r') : a = a' ∧ r = r' := by
  induction a generalizing a' with
  | nil =>
    cases a' with
    | nil => simpa using h
    | cons y ys =>
      simp only [List.nil_append, List.cons_append, List.cons.injEq] at h
      exact absurd (h.1 ▸ List.mem_cons_self) ha'
  | cons x xs ih =>
    cases a' with
    | nil =>
      simp only [List.nil_append, List.cons_append, List.cons.injEq] at h
      exact absurd (h.1 ▸ List.mem_cons_self) ha
    | cons y ys =>
      simp only [List.cons_append, List.cons.injEq] at h
      have := ih ys (fun m => ha (List.mem_cons_of_mem _ m)) (fun m => ha' (List.mem_cons_of_mem _ m)) h.2
      exact ⟨by rw [h.1, this.1], this.2⟩

theorem trimRight0_append_zeros (b : Bytes) (n : Nat) :
    trimRight0 (b ++ List.replicate n 0) = trimRight0 b := by
  have hz : ∀ n, trimRight0 (List.replicate n 0) = [] := by
    intro n; induction n with
    | zero => rfl
    | succ n ih => simp [List.replicate, trimRight0, ih]
  induction b with
  | nil => simp [hz n, trimRight0]
  | cons x xs ih => simp [trimRight0, ih]

theorem trimRight0_of_last_ne (b : Bytes) (h : ∀ x, b.getLast? = some x → x ≠ 0) : trimRight0 b = b := by
  induction b with
  | nil => rfl
  | cons x xs ih =>
    cases xs with
    | nil =>
      have : x ≠ 0 := h x (by simp)
      simp [trimRight0, this]
    | cons y ys =>
      have ih' := ih (by intro z hz; exact h z (by simpa [List.getLast?_cons_cons] using hz))
      simp only [trimRight0] at ih' ⊢
      rw [ih']

end DymVerif
