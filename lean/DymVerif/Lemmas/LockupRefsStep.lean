import DymVerif.Lemmas.LockupRefsSim
/-
  Lemmas/LockupRefsStep — every MESSAGE of the reference-level machine (Model/LockupRefs) does what
  the message of M-Lockup does, keeps the reference store the image of the lock table, raises no
  reference fault, and creates no lock owned by a blocked recipient (`Good`).
-/
namespace DymVerif.Lockup
open DymVerif.Genesis

/-- the result `r` of a reference-level operation against the result `b` of M-Lockup's operation -/
structure Good (B : Actor → Bool) (r : RState × ROut) (b : State × Out) : Prop where
  state : r.1.s = b.1
  out : r.2 = .out b.2
  refs : RefsOk r.1.s.locks r.1.refs
  owners : ∀ l ∈ r.1.s.locks, B l.owner = false

theorem good_same {B : Actor → Bool} {rs : RState} (h : RInv B rs) (o : Out) :
    Good B (rs, .out o) (rs.s, o) := ⟨rfl, rfl, h.refs, h.owners⟩

theorem delLock_setLock {ls : List Lock} {n : Lock} {id : Nat} (h : n.id = id) :
    delLock (setLock ls n) id = delLock ls id := by
  subst h
  induction ls with
  | nil => rfl
  | cons x xs ih =>
    simp only [setLock, delLock, List.map_cons, List.filter_cons] at ih ⊢
    by_cases hx : x.id = n.id
    · simp [hx, ih]
    · simp [hx, ih]

theorem delLock_append_fresh {ls : List Lock} {n : Lock} (h : ∀ l ∈ ls, l.id ≠ n.id) :
    delLock (ls ++ [n]) n.id = ls := by
  simp only [delLock, List.filter_append, List.filter_cons, List.filter_nil, bne_self_eq_false]
  simp only [Bool.false_eq_true, if_false, List.append_nil]
  exact List.filter_eq_self.2 (fun l hl => by simpa using h l hl)

theorem setLock_nodup {ls : List Lock} (hn : (ls.map (·.id)).Nodup) (n : Lock) : ((setLock ls n).map (·.id)).Nodup := by
  rw [setLock_ids]; exact hn

/-! ### MsgLockTokens -/

theorem lockTokensR_good {B : Actor → Bool} {rs : RState} (h : RInv B rs) (p : Params) (a d amt dur : Nat)
    (ha : B a = false) : Good B (lockTokensR p rs a d amt dur) (lockTokens p rs.s a d amt dur) := by
  unfold lockTokensR lockTokens
  by_cases h1 : dur = 0 ∨ amt = 0
  · simp only [if_pos h1]; exact good_same h _
  simp only [if_neg h1]
  by_cases h2 : dur < p.minDur
  · simp only [if_pos h2]; exact good_same h _
  simp only [if_neg h2]
  by_cases h3 : rs.s.bal a p.feeDenom < lockCost p d amt
  · simp only [if_pos h3]; exact good_same h _
  simp only [if_neg h3]
  cases ht : toModule (chargeFee p rs.s a) a d amt with
  | none => exact good_same h _
  | some s2 =>
    obtain ⟨fr, _, _⟩ := frame_charge ht
    simp only [sameLock_lookup h]
    have hhead : rs.s.locks.find? (sameLock a d dur) = (rs.s.locks.filter (sameLock a d dur)).head? :=
      List.head?_filter.symm
    cases hfl : rs.s.locks.filter (sameLock a d dur) with
    | nil =>
      rw [hfl] at hhead
      simp only [List.head?_nil] at hhead
      simp only [hhead]
      have hfresh : ∀ l ∈ rs.s.locks, l.id ≠ (⟨rs.s.lastId + 1, a, dur, none, d, amt, none⟩ : Lock).id := by
        intro l hl; have := (h.inv.idle l hl).2; simp only; omega
      obtain ⟨r', hr', hok⟩ := refsOk_create h.refs hfresh
      simp only [hr']
      refine ⟨rfl, rfl, ?_, ?_⟩
      · simpa [createLock, fr.locks, fr.lastId] using hok
      · simp only [createLock, fr.locks, fr.lastId]
        exact owners_append h.owners ha
    | cons l rest =>
      rw [hfl] at hhead
      simp only [List.head?_cons] at hhead
      simp only [hhead]
      have hl : l ∈ rs.s.locks := (List.mem_filter.1 (hfl ▸ List.mem_cons_self : l ∈ rs.s.locks.filter _)).1
      refine ⟨rfl, rfl, ?_, ?_⟩
      · simp only [addToLock, fr.locks]
        exact refsOk_setLock_same h.refs h.inv.nodup hl ⟨rfl, rfl, rfl, rfl, rfl⟩
      · simp only [addToLock, fr.locks]
        exact owners_setLock h.owners (h.owners l hl)

/-! ### MsgBeginUnlocking -/

theorem beginUnlockingR_good {B : Actor → Bool} {rs : RState} (h : RInv B rs) (a id : Nat) (c : Option (Denom × Nat)) :
    Good B (beginUnlockingR rs a id c) (beginUnlocking rs.s a id c) := by
  unfold beginUnlockingR beginUnlocking
  by_cases h1 : id = 0 ∨ coinsInvalid c = true
  · simp only [if_pos h1]; exact good_same h _
  simp only [if_neg h1]
  cases hf : findLock rs.s.locks id with
  | none => exact good_same h _
  | some l =>
    obtain ⟨hl, _⟩ := findLock_some hf
    try dsimp only
    by_cases h2 : l.owner ≠ a
    · simp only [if_pos h2]; exact good_same h _
    simp only [if_neg h2]
    by_cases h3 : exceeds c l = true
    · simp only [if_pos h3]; exact good_same h _
    simp only [h3]
    cases hu : l.isUnlocking with
    | true => exact good_same h _
    | false =>
      simp only [Bool.false_eq_true, if_false]
      have hfresh : ∀ x ∈ rs.s.locks, x.id ≠ rs.s.lastId + 1 := by
        intro x hx; have := (h.inv.idle x hx).2; omega
      by_cases h4 : isPartial c l = true
      · simp only [if_pos h4]
        -- the rest keeps its references; the split lock gets the eight references of an unlocking lock
        have hrest : RefsOk (setLock rs.s.locks { l with amount := l.amount - reqAmt c }) rs.refs :=
          refsOk_setLock_same h.refs h.inv.nodup hl ⟨rfl, rfl, rfl, rfl, rfl⟩
        have hfresh' : ∀ x ∈ setLock rs.s.locks { l with amount := l.amount - reqAmt c },
            x.id ≠ ({ splitOf rs.s l (reqAmt c) with
                      endTime := some (rs.s.now + (splitOf rs.s l (reqAmt c)).duration) } : Lock).id := by
          intro x hx
          obtain ⟨o, ho, hid⟩ := mem_setLock_old hx
          rw [← hid]; exact hfresh o ho
        obtain ⟨r', hr', hok⟩ := refsOk_add_fresh hrest
          (n' := ⟨rs.s.lastId + 1, l.owner, l.duration, some (rs.s.now + l.duration), l.denom, reqAmt c, some rs.s.now⟩)
          (d := splitOf rs.s l (reqAmt c)) (queueOf false) hfresh' rfl ⟨rfl, rfl, rfl, rfl, rfl⟩
        simp only [beginUnlockRefs, hr']
        refine ⟨rfl, rfl, hok, ?_⟩
        simp only [splitUnlock]
        exact owners_append (owners_setLock h.owners (h.owners l hl)) (h.owners l hl)
      · simp only [h4]
        have hq : queueOf false = queueOf l.isUnlocking := by rw [hu]
        obtain ⟨r', hr', hok⟩ := refsOk_move h.refs h.inv.nodup hl
          (n := { l with endTime := some (rs.s.now + l.duration) })
          (n' := { l with endTime := some (rs.s.now + l.duration), startedAt := some rs.s.now })
          rfl ⟨rfl, rfl, rfl, rfl, rfl⟩
        rw [← hq] at hr'
        simp only [beginUnlockRefs, hr', Bool.false_eq_true, if_false]
        refine ⟨rfl, rfl, hok, ?_⟩
        simp only [startUnlock]
        exact owners_setLock h.owners (h.owners l hl)

/-! ### MsgExtendLockup -/

theorem extendLockupR_good {B : Actor → Bool} {rs : RState} (h : RInv B rs) (a id dur : Nat) :
    Good B (extendLockupR rs a id dur) (extendLockup rs.s a id dur) := by
  unfold extendLockupR extendLockup
  by_cases h1 : id = 0 ∨ dur = 0
  · simp only [if_pos h1]; exact good_same h _
  simp only [if_neg h1]
  cases hf : findLock rs.s.locks id with
  | none => exact good_same h _
  | some l =>
    obtain ⟨hl, _⟩ := findLock_some hf
    try dsimp only
    by_cases h2 : l.owner ≠ a
    · simp only [if_pos h2]; exact good_same h _
    simp only [if_neg h2]
    cases hu : l.isUnlocking with
    | true => exact good_same h _
    | false =>
      simp only [Bool.false_eq_true, if_false]
      by_cases h3 : dur ≤ l.duration
      · simp only [if_pos h3]; exact good_same h _
      simp only [if_neg h3]
      have hq : queueOf false = queueOf l.isUnlocking := by rw [hu]
      obtain ⟨r', hr', hok⟩ := refsOk_move h.refs h.inv.nodup hl
        (n := { l with duration := dur }) (n' := { l with duration := dur }) rfl ⟨rfl, rfl, rfl, rfl, rfl⟩
      rw [← hq] at hr'
      simp only [hr']
      refine ⟨rfl, rfl, hok, ?_⟩
      simp only [extendTo]
      exact owners_setLock h.owners (h.owners l hl)

/-! ### MsgForceUnlock -/

/-- `ForceUnlock` of a stored lock on the references: whatever its state, all its references go -/
theorem forceRefs_stored {locks : List Lock} {refs : Refs} (h : RefsOk locks refs)
    (hn : (locks.map (·.id)).Nodup) {l : Lock} (hl : l ∈ locks) (now : Nat) :
    ∃ r', forceRefs refs now l = some r' ∧ RefsOk (delLock locks l.id) r' := by
  unfold forceRefs
  cases hu : l.isUnlocking with
  | true =>
    refine ⟨_, rfl, ?_⟩
    have := refsOk_remove h hn hl
    rwa [hu] at this
  | false =>
    simp only [Bool.false_eq_true, if_false]
    have hq : queueOf false = queueOf l.isUnlocking := by rw [hu]
    obtain ⟨r1, hr1, hok1⟩ := refsOk_move h hn hl
      (n := { l with endTime := some (now + l.duration) })
      (n' := { l with endTime := some (now + l.duration) }) rfl ⟨rfl, rfl, rfl, rfl, rfl⟩
    rw [← hq] at hr1
    simp only [beginUnlockRefs, hr1]
    refine ⟨_, rfl, ?_⟩
    have hmem : ({ l with endTime := some (now + l.duration) } : Lock) ∈
        setLock locks { l with endTime := some (now + l.duration) } := mem_setLock_new hl rfl
    have := refsOk_remove hok1 (setLock_nodup hn _) hmem
    rw [delLock_setLock rfl] at this
    exact this

/-- `ForceUnlock` of the split lock of a partial force-unlock (stored without references, never in
    the table of the model): the reference store ends as it began -/
theorem forceRefs_split {locks : List Lock} {refs : Refs} (h : RefsOk locks refs)
    (hs : IdSorted locks) {sp : Lock} (hfresh : ∀ l ∈ locks, l.id < sp.id) (now : Nat) :
    ∃ r', forceRefs refs now sp = some r' ∧ RefsOk locks r' := by
  have hne : ∀ l ∈ locks, l.id ≠ sp.id := fun l hl => Nat.ne_of_lt (hfresh l hl)
  unfold forceRefs
  cases hu : sp.isUnlocking with
  | true => exact ⟨_, rfl, refsOk_delete_absent h _ hne⟩
  | false =>
    simp only [Bool.false_eq_true, if_false]
    obtain ⟨r1, hr1, hok1⟩ := refsOk_add_fresh h
      (n := { sp with endTime := some (now + sp.duration) })
      (n' := { sp with endTime := some (now + sp.duration) }) (d := sp) (queueOf false) hne rfl
      ⟨rfl, rfl, rfl, rfl, rfl⟩
    simp only [beginUnlockRefs, hr1]
    refine ⟨_, rfl, ?_⟩
    have hnd : ((locks ++ [({ sp with endTime := some (now + sp.duration) } : Lock)]).map (·.id)).Nodup :=
      (idSorted_append_fresh hs ({ sp with endTime := some (now + sp.duration) } : Lock) hfresh).nodup
    have := refsOk_remove hok1 hnd (List.mem_append_right _ List.mem_cons_self)
    rw [delLock_append_fresh (n := ({ sp with endTime := some (now + sp.duration) } : Lock)) hne] at this
    exact this

theorem forceUnlockR_good {B : Actor → Bool} {rs : RState} (h : RInv B rs) (p : Params) (a id : Nat)
    (c : Option (Denom × Nat)) :
    Good B (forceUnlockR B p rs a id c) (forceUnlock p rs.s a id c) := by
  unfold forceUnlockR forceUnlock
  by_cases h1 : id = 0 ∨ coinsInvalid c = true
  · simp only [if_pos h1]; exact good_same h _
  simp only [if_neg h1]
  cases hf : findLock rs.s.locks id with
  | none => exact good_same h _
  | some l =>
    obtain ⟨hl, _⟩ := findLock_some hf
    try dsimp only
    by_cases h2 : l.owner ≠ a
    · simp only [if_pos h2]; exact good_same h _
    simp only [if_neg h2]
    by_cases h3 : ¬ (a ∈ p.allowed)
    · simp only [if_pos h3]; exact good_same h _
    simp only [if_neg h3]
    by_cases h4 : exceeds c l = true
    · simp only [if_pos h4]; exact good_same h _
    simp only [h4, h.owners l hl, Bool.false_eq_true, if_false]
    by_cases h5 : isPartial c l = true
    · simp only [if_pos h5]
      cases hm : fromModule rs.s l.owner l.denom (reqAmt c) with
      | none => exact good_same h _
      | some s1 =>
        obtain ⟨_, hlk, _, hlast, _⟩ := fromModule_some hm
        have hfresh : ∀ x ∈ rs.s.locks, x.id < (splitOf rs.s l (reqAmt c)).id := by
          intro x hx; have := (h.inv.idle x hx).2; simp only [splitOf]; omega
        obtain ⟨r', hr', hok⟩ := forceRefs_split h.refs h.sorted hfresh rs.s.now
        simp only [hr']
        refine ⟨rfl, rfl, ?_, ?_⟩
        · simp only [shrinkLock, hlk]
          exact refsOk_setLock_same hok h.inv.nodup hl ⟨rfl, rfl, rfl, rfl, rfl⟩
        · simp only [shrinkLock, hlk]
          exact owners_setLock h.owners (h.owners l hl)
    · simp only [h5]
      cases hm : fromModule rs.s l.owner l.denom l.amount with
      | none => exact good_same h _
      | some s1 =>
        obtain ⟨_, hlk, _⟩ := fromModule_some hm
        obtain ⟨r', hr', hok⟩ := forceRefs_stored h.refs h.inv.nodup hl rs.s.now
        simp only [hr', Bool.false_eq_true, if_false]
        refine ⟨rfl, rfl, ?_, ?_⟩
        · simpa [removeLock, hlk] using hok
        · simp only [removeLock, hlk]
          exact owners_delLock _ h.owners

end DymVerif.Lockup
