/-
  Lemmas/CoreXWalk — a walk through the handlers of M-Core for PER-RECORD invariants that relate the
  proposer slot, the liveness clock, the revisions and the recorded states of ONE rollapp record
  (`QClosed Q`).  Unlike `LClosed` (Lemmas/CoreLevWalk.lean), whose `set_same` primitive allows any
  change of the proposer, the primitives here follow the record through the composite steps of the
  model: "set a real proposer" is `setRa` + `afterSetRealProposer` (the record violates e.g.
  "a real proposer has an event" in between), and a hard fork is the clock reset + the sequencer
  hook that removes the proposer.

  Side invariants threaded through the intermediate states (`W`): `OwnN` (the proposer has a
  sequencer record — without it `abruptRemoveProposer` keeps the proposer of a forked rollapp),
  `ChainAll`, unique rollapp ids, positive hub height.  Each comes from the existing per-handler
  lemmas (`*_own`, `*_chain`, `*_cl ids_closed`).

  This file: definitions, the composite primitives, the fork family, `updateState`.
  Lemmas/CoreXWalk2.lean: the remaining handlers, block processing, the step / run theorems.
-/
import DymVerif.Lemmas.CoreLevOwn
import DymVerif.Lemmas.CoreLevUpdate
import DymVerif.Lemmas.CoreForkQuiet
namespace DymVerif.Core.XW
open DymVerif.Core.LevNs

/-- the fields of a state info the X-invariants may read (not: `finalized`, `next`, `finalizedAt`) -/
def xKey (st : SInfo) : Addr × Nat × Nat × Nat × List BD × Nat :=
  (st.creator, st.start, st.num, st.creationHeight, st.bds, st.accRev)

/-- the fields of a rollapp record the X-invariants may read besides the proposer
    (not: owner, minBond, launched, lastFin, tph, successor) -/
def xv (r : Rollapp) : Nat × List (Nat × Nat) × List (Addr × Nat × Nat × Nat × List BD × Nat) × Nat × Nat :=
  (r.id, r.revs, r.states.map xKey, r.evH, r.cdStart)

/-- closure of a per-record predicate under the ways M-Core rewrites a rollapp record -/
structure QClosed (Q : Rollapp → Prop) : Prop where
  /-- a freshly created rollapp -/
  fresh : ∀ id o mb, Q (newRollapp id o mb)
  /-- any rewrite that keeps `xv` and either keeps the proposer or clears it -/
  view : ∀ {r r' : Rollapp}, Q r → xv r' = xv r → (r'.proposer = r.proposer ∨ r'.proposer = none) → Q r'
  /-- `IndicateLiveness` at hub height `h ≥ 1` (whatever the proposer then is: covers
      `setProposer (some a)` + `afterSetRealProposer`) -/
  clock : ∀ {r r' : Rollapp} (N I h : Nat), Q r → 1 ≤ h → r'.id = r.id → r'.revs = r.revs →
    r'.states.map xKey = r.states.map xKey → r'.cdStart = h → r'.evH = nextSlashHeight N I h h → Q r'
  /-- a fired liveness event is rescheduled -/
  resched : ∀ {r : Rollapp} (N I h : Nat), Q r → Q { r with evH := nextSlashHeight N I h r.cdStart }
  /-- an accepted update appends its state info -/
  append : ∀ {r : Rollapp} (s : St) (m : UpdMsg) (n : NextP), Q r → Chain r.states →
    updValidateBasic m = .ok () → updPre r m = .ok () → latestRev r = m.rev →
    Q { r with states := r.states ++ [newSInfo s m n] }
  /-- a hard fork (at hub height `h ≥ 1`): states reverted, revision bumped, clock reset, proposer and
      successor cleared -/
  fork : ∀ {r : Rollapp} (n keep h : Nat) (kst : SInfo), Q r → Chain r.states → revertPlan r n = .ok (keep, kst) → 1 ≤ h →
    Q { r with states := r.states.take (keep - 1) ++ [kst], revs := r.revs ++ [(latestRev r + 1, kst.last + 1)],
               evH := 0, cdStart := h, proposer := none, successor := none }

/-- the walk's state: side invariants + the per-record invariant for every rollapp -/
structure W (Q : Rollapp → Prop) (s : St) : Prop where
  own : OwnN s
  chain : ChainAll s
  ids : IdsNodup s
  hpos : 1 ≤ s.h
  q : RaAll Q s

-- ---------------------------------------------------------------- small facts

theorem setRa_setRa_ras (s : St) (r1 r2 : Rollapp) (hid : r1.id = r2.id) :
    (setRa (setRa s r1) r2).ras = (setRa s r2).ras := by
  unfold setRa
  dsimp only
  rw [List.map_map]
  apply List.map_congr_left
  intro x _
  show (if ((if (x.id == r1.id) = true then r1 else x).id == r2.id) = true then r2 else (if (x.id == r1.id) = true then r1 else x)) =
    (if (x.id == r2.id) = true then r2 else x)
  by_cases h : (x.id == r1.id) = true
  · have h2 : (x.id == r2.id) = true := by rw [← hid]; exact h
    have h3 : (r1.id == r2.id) = true := by simp [hid]
    simp only [h, h2, h3, if_true]
  · simp only [h, Bool.false_eq_true, if_false]

theorem setLastNext_xKey (l : List SInfo) (n : NextP) : (setLastNext l n).map xKey = l.map xKey := by
  unfold setLastNext
  split
  · rfl
  · rename_i x rest e
    have : l = (x :: rest).reverse := by rw [← e, List.reverse_reverse]
    rw [this]; simp [xKey]

theorem set_fin_xKey {l : List SInfo} {i : Nat} {st : SInfo} (h : l[i]? = some st) (b : Bool) (f : Nat) :
    (l.set i { st with finalized := b, finalizedAt := f }).map xKey = l.map xKey := by
  apply List.ext_getElem?
  intro j
  rw [List.getElem?_map, List.getElem?_map, List.getElem?_set]
  by_cases hj : i = j
  · subst hj
    have hlt : i < l.length := by
      rcases Nat.lt_or_ge i l.length with h1 | h1
      · exact h1
      · rw [List.getElem?_eq_none h1] at h; cases h
    simp only [if_true, hlt, h, Option.map_some]
    rfl
  · simp only [hj, if_false]

theorem RaAll.of_getRa {Q : Rollapp → Prop} {s : St} (hn : IdsNodup s) (h : ∀ id x, getRa s id = some x → Q x) : RaAll Q s :=
  fun x hx => h x.id x (hn.getRa_of_mem hx)

theorem ids_setRa {s : St} {id : Nat} {r r' : Rollapp} (h : IdsNodup s) (_hg : getRa s id = some r) (_hid : r'.id = r.id) :
    IdsNodup (setRa s r') := by
  unfold IdsNodup; rw [setRa_ids]; exact h

-- ---------------------------------------------------------------- set a real proposer

/-- `setRa` of a record that differs from the stored one only outside `xv`-minus-clock (typically: a
    new proposer), followed by the rollapp hook `AfterSetRealProposer` -/
theorem afterSetReal_q {Q : Rollapp → Prop} (hc : QClosed Q) {s : St} {ra : Nat} {a : Addr} {r r1 : Rollapp}
    (hp : 1 ≤ s.h) (h : RaAll Q s) (hg : getRa s ra = some r) (hid : r1.id = r.id) (hrev : r1.revs = r.revs)
    (hst : r1.states = r.states) : RaAll Q (afterSetRealProposer (setRa s r1) ra a) := by
  have hid' : r1.id = ra := hid.trans (getRa_id hg)
  have hg1 : getRa (setRa s r1) ra = some r1 := getRa_setRa_same_id hg hid'
  have sp := indicateLiveness_spec hg1
  unfold afterSetRealProposer
  rw [hg1]; dsimp only
  rw [sp.1]; dsimp only
  have hq1 : Q { r1 with evH := nextSlashHeight s.p.lsBlocks s.p.lsInterval s.h s.h, cdStart := s.h } :=
    hc.clock s.p.lsBlocks s.p.lsInterval s.h (h.get hg) hp hid hrev (by show r1.states.map xKey = _; rw [hst]) rfl rfl
  apply RaAll.setRa
  · refine RaAll.of_ras_eq (RaAll.setRa h hq1) ?_
    exact (indicateLiveness_ras (setRa s r1) r1).trans (setRa_setRa_ras s r1 _ rfl)
  · exact hc.clock s.p.lsBlocks s.p.lsInterval s.h (h.get hg) hp hid hrev
      (by show (setLastNext r1.states (NextP.addr a)).map xKey = _; rw [setLastNext_xKey, hst]) rfl rfl

theorem recoverFromSentinel_q {Q : Rollapp → Prop} (hc : QClosed Q) {s s' : St} {ra : Nat} (hp : 1 ≤ s.h) (h : RaAll Q s)
    (e : recoverFromSentinel s ra = .ok s') : RaAll Q s' := by
  unfold recoverFromSentinel at e
  split at e
  · cases e
  · rename_i r hg
    split at e
    · cases e
    · split at e
      · cases e
      · injection e with e; subst e
        exact afterSetReal_q hc hp h hg rfl rfl rfl

theorem indicateLiveness_q {Q : Rollapp → Prop} (hc : QClosed Q) {s : St} {id : Nat} {r : Rollapp} (hp : 1 ≤ s.h) (h : RaAll Q s)
    (hg : getRa s id = some r) : RaAll Q (indicateLiveness s r) :=
  RaAll.of_ras_eq (RaAll.setRa h (hc.clock (r' := { r with evH := nextSlashHeight s.p.lsBlocks s.p.lsInterval s.h s.h, cdStart := s.h })
    s.p.lsBlocks s.p.lsInterval s.h (h.get hg) hp rfl rfl rfl rfl rfl)) (indicateLiveness_ras s r)

-- ---------------------------------------------------------------- the fork family

theorem hardFork_w {Q : Rollapp → Prop} (hc : QClosed Q) {s s' : St} {ra lv : Nat} (w : W Q s)
    (e : hardFork s ra lv = .ok s') : W Q s' := by
  have hids : IdsNodup s' := hardFork_cl ids_closed w.ids e
  have hh : s'.h = s.h := (hardFork_cl (hp_closed s.h s.p) ⟨rfl, rfl⟩ e).1
  refine ⟨(hardFork_own w.own e).1, hardFork_chain w.chain e, hids, by rw [hh]; exact w.hpos, ?_⟩
  obtain ⟨r, keep, kst, hg, _, _, _, hplan, _⟩ := Fork.hardFork_ok_elim e
  obtain ⟨p', h1, h2⟩ := Fork.hardFork_getRa_same hg hplan e
  have hp' : p' = none := by
    rcases h2 with h2 | ⟨_, a, h3, h4⟩
    · exact h2
    · exfalso
      obtain ⟨q, hq, _⟩ := w.own.own ra r a hg (Or.inl h3)
      rw [h4] at hq; cases hq
  subst hp'
  refine RaAll.of_getRa hids ?_
  intro id x hx
  by_cases hid : id = ra
  · subst hid
    rw [h1] at hx; injection hx with hx; subst hx
    exact hc.fork _ keep s.h kst (w.q.get hg) (w.chain.get hg) hplan w.hpos
  · rw [Fork.hardFork_getRa_other e hid] at hx
    exact w.q.get hx

theorem hardForkToLatest_w {Q : Rollapp → Prop} (hc : QClosed Q) {s s' : St} {ra : Nat} (w : W Q s)
    (e : hardForkToLatest s ra = .ok s') : W Q s' := by
  obtain ⟨_, _, _, _, hf⟩ := Fork.hardForkToLatest_ok_elim e
  exact hardFork_w hc w hf

theorem onProposerLastBlock_w {Q : Rollapp → Prop} (hc : QClosed Q) {s s' : St} {q : Seq} (w : W Q s)
    (e : onProposerLastBlock s q = .ok s') : W Q s' := by
  have hids : IdsNodup s' := onProposerLastBlock_cl ids_closed w.ids e
  have hh : s'.h = s.h := (onProposerLastBlock_cl (hp_closed s.h s.p) ⟨rfl, rfl⟩ e).1
  refine ⟨onProposerLastBlock_own w.own e, onProposerLastBlock_chain w.chain e, hids, by rw [hh]; exact w.hpos, ?_⟩
  unfold onProposerLastBlock at e
  split at e
  · cases e
  · split at e
    · cases e
    · rename_i r hg
      dsimp only at e
      split at e
      · rename_i hsucc
        -- no successor: fork to the sentinel
        have w1 : W Q (setRa s { r with successor := none, proposer := r.successor }) := by
          refine ⟨?_, RaAll.setRa w.chain ((w.chain.get hg).of_states rfl), ids_setRa w.ids hg rfl, w.hpos, ?_⟩
          · refine w.own.setRa_ps hg (by rfl) ?_
            intro b hb
            rcases hb with hb | hb
            · exact w.own.own _ r b hg (Or.inr hb)
            · cases hb
          · exact RaAll.setRa w.q (hc.view (w.q.get hg) rfl (Or.inr hsucc))
        exact (hardForkToLatest_w hc w1 e).q
      · injection e with e; subst e
        have hg' : getRa s r.id = some r := by rw [getRa_id hg]; exact hg
        exact afterSetReal_q hc w.hpos w.q hg' rfl rfl rfl

theorem seqAfterUpdate_w {Q : Rollapp → Prop} (hc : QClosed Q) {s s' : St} {m : UpdMsg} {b : Bool} (w : W Q s)
    (e : seqAfterUpdate s m b = .ok s') : W Q s' := by
  unfold seqAfterUpdate at e
  split at e
  · cases e
  · rename_i prop hg
    dsimp only at e
    have w1 : W Q (setSeq s { prop with dishonor := prop.dishonor - min s.sqp.dishonorSU prop.dishonor }) :=
      ⟨w.own.setSeq (q' := { prop with dishonor := prop.dishonor - min s.sqp.dishonorSU prop.dishonor }) (q0 := prop)
          (by show getSeq s prop.addr = some prop; rw [getSeq_addr hg]; exact hg) rfl,
        w.chain.ras_eq rfl, w.ids, w.hpos, RaAll.of_ras_eq w.q rfl⟩
    split at e
    · exact onProposerLastBlock_w hc w1 e
    · injection e with e; subst e; exact w1

theorem updateState_w {Q : Rollapp → Prop} (hc : QClosed Q) {s s' : St} {m : UpdMsg} (w : W Q s)
    (e : updateState s m = .ok s') : W Q s' := by
  have hids : IdsNodup s' := updateState_cl ids_closed w.ids e
  have hh : s'.h = s.h := (updateState_cl (hp_closed s.h s.p) ⟨rfl, rfl⟩ e).1
  refine ⟨updateState_own w.own e, updateState_chain w.chain e, hids, by rw [hh]; exact w.hpos, ?_⟩
  unfold updateState at e
  split at e
  · cases e
  · rename_i hvb
    split at e
    · cases e
    · rename_i r hg
      split at e
      · cases e
      · split at e
        · cases e
        · split at e
          · cases e
          · rename_i hrev
            split at e
            · cases e
            · rename_i hpre
              split at e
              · cases e
              · split at e
                · cases e
                · rename_i s3 h3
                  dsimp only at e
                  split at e
                  · cases e
                  · rename_i r4 hg4
                    injection e with e; subst e
                    have hrev' : latestRev r = m.rev := by simpa using hrev
                    have wnew : W Q (setRa s { r with states := r.states ++ [newSInfo s m (updSucc r m)] }) := by
                      refine ⟨w.own.setRa_same hg rfl rfl rfl, ?_, ids_setRa w.ids hg rfl, w.hpos, ?_⟩
                      · exact RaAll.setRa w.chain ((w.chain.get hg).append (updValidateBasic_wf hvb s _) (by
                          intro a ha
                          show m.start = a.start + a.num
                          exact updPre_start hpre a ha))
                      · exact RaAll.setRa w.q (hc.append s m _ (w.q.get hg) (w.chain.get hg) hvb hpre hrev')
                    have w3 := seqAfterUpdate_w hc wnew h3
                    have hh3 : s3.h = s.h := (seqAfterUpdate_cl (hp_closed s.h s.p)
                      (s := setRa s { r with states := r.states ++ [newSInfo s m (updSucc r m)] }) ⟨rfl, rfl⟩ h3).1
                    have q4 : RaAll Q { s3 with queue := queueAppend s3.queue s3.h m.ra (r.states.length + 1),
                                                seqH := addSeqHeights s3.seqH m.sender m.bds } :=
                      RaAll.of_ras_eq w3.q rfl
                    exact indicateLiveness_q hc (by show 1 ≤ s3.h; exact w3.hpos) q4 hg4

end DymVerif.Core.XW
