/-
  Lemmas/GenEqSkBlocks — tie 1 for C11 C18 (Model/CoreBlocks.lean, Model/Incent.lean, Model/Lockup.lean): the normalised statement listing (translate/skel.go `listing`:
  every `if` / `for` / `switch` header, call, assignment and `return` in source order; comments, logging,
  events and error-message texts dropped) of EVERY function with a body in the files the property is
  anchored in, regenerated from /repo's working tree on every run (Gen/SkBlocks.lean), equals the listing
  the model was written and validated against.  A dropped or weakened guard, a reordered effect, a
  changed operand, a new early return, a new or vanished function breaks the corresponding lemma; the
  check then searches for a failing input with the harness' monitors (DESIGN.md §12.2).
-/
import DymVerif.Gen.SkBlocks
namespace DymVerif.GenEqSk.Blocks

/-- `App.BeginBlocker` -/
theorem app_App_BeginBlocker_listing : Gen.SkBlocks.app_App_BeginBlocker =
  ["func (app *App) BeginBlocker(ctx sdk.Context) (sdk.BeginBlock, error)",
   "  return app.mm.BeginBlock(ctx)"] := rfl

/-- `App.EndBlocker` -/
theorem app_App_EndBlocker_listing : Gen.SkBlocks.app_App_EndBlocker =
  ["func (app *App) EndBlocker(ctx sdk.Context) (sdk.EndBlock, error)",
   "  return app.mm.EndBlock(ctx)"] := rfl

/-- `App.InitChainer` -/
theorem app_App_InitChainer_listing : Gen.SkBlocks.app_App_InitChainer =
  ["func (app *App) InitChainer(ctx sdk.Context, req *abci.RequestInitChain) (*abci.ResponseInitChain, error)",
   "  var genesisState GenesisState",
   "  err := json.Unmarshal(req.AppStateBytes, &genesisState)",
   "  if err != nil",
   "    panic(err)",
   "  err := app.UpgradeKeeper.SetModuleVersionMap(ctx, app.mm.GetVersionMap())",
   "  if err != nil",
   "    panic(err)",
   "  return app.mm.InitGenesis(ctx, app.appCodec, genesisState)"] := rfl

/-- `App.PreBlocker` -/
theorem app_App_PreBlocker_listing : Gen.SkBlocks.app_App_PreBlocker =
  ["func (app *App) PreBlocker(ctx sdk.Context, _ *abci.RequestFinalizeBlock) (*sdk.ResponsePreBlock, error)",
   "  return app.mm.PreBlock(ctx)"] := rfl

/-- `AppModule.EndBlock` -/
theorem ra_AppModule_EndBlock_listing : Gen.SkBlocks.ra_AppModule_EndBlock =
  ["func (am AppModule) EndBlock(goCtx context.Context) error",
   "  am.keeper.FinalizeRollappStates(ctx)",
   "  am.keeper.CheckLiveness(ctx)",
   "  return nil"] := rfl

/-- `AppModule.BeginBlock` -/
theorem sq_AppModule_BeginBlock_listing : Gen.SkBlocks.sq_AppModule_BeginBlock =
  ["func (am AppModule) BeginBlock(goCtx context.Context) error",
   "  err := am.keeper.ChooseSuccessorForFinishedNotices(ctx, ctx.BlockTime())",
   "  if err != nil",
   "    return err",
   "  return nil"] := rfl

/-- `AppModule.EndBlock` -/
theorem str_AppModule_EndBlock_listing : Gen.SkBlocks.str_AppModule_EndBlock =
  ["func (am AppModule) EndBlock(goCtx context.Context) error",
   "  return am.keeper.EndBlock(<noise>)"] := rfl

/-- `AppModule.EndBlock` -/
theorem lk_AppModule_EndBlock_listing : Gen.SkBlocks.lk_AppModule_EndBlock =
  ["func (am AppModule) EndBlock(goCtx context.Context) error",
   "  EndBlocker(ctx, am.keeper)",
   "  return nil"] := rfl

/-- `EndBlocker` -/
theorem lk_EndBlocker_listing : Gen.SkBlocks.lk_EndBlocker =
  ["func EndBlocker(ctx sdk.Context, k keeper.Keeper) []abci.ValidatorUpdate",
   "  MinBlockHeightToBeginAutoWithdrawing := int64(6)",
   "  if ctx.BlockHeight() < MinBlockHeightToBeginAutoWithdrawing",
   "    return nil",
   "  k.WithdrawAllMaturedLocks(ctx)",
   "  return nil"] := rfl

/-- `App.ExportAppStateAndValidators` -/
theorem exp_App_ExportAppStateAndValidators_listing : Gen.SkBlocks.exp_App_ExportAppStateAndValidators =
  ["func (app *App) ExportAppStateAndValidators(forZeroHeight bool, jailAllowedAddrs, modulesToExport []string) (servertypes.ExportedApp, error)",
   "  ctx := app.NewContextLegacy(true, cmtproto.Header{Height: app.LastBlockHeight()})",
   "  height := app.LastBlockHeight() + 1",
   "  if forZeroHeight",
   "    height = 0",
   "    app.prepForZeroHeightGenesis(ctx, jailAllowedAddrs)",
   "  genState, err := app.mm.ExportGenesisForModules(ctx, app.appCodec, modulesToExport)",
   "  if err != nil",
   "    return servertypes.ExportedApp{}, err",
   "  appState, err := json.MarshalIndent(genState, \"\", \" \")",
   "  if err != nil",
   "    return servertypes.ExportedApp{}, err",
   "  validators, err := staking.WriteValidators(ctx, app.StakingKeeper)",
   "  if err != nil",
   "    return servertypes.ExportedApp{}, err",
   "  return servertypes.ExportedApp{AppState: appState, Validators: validators, Height: height, ConsensusParams: app.BaseApp.GetConsensusParams(ctx)}, nil"] := rfl

/-- `App.prepForZeroHeightGenesis` -/
theorem exp_App_prepForZeroHeightGenesis_listing : Gen.SkBlocks.exp_App_prepForZeroHeightGenesis =
  ["func (app *App) prepForZeroHeightGenesis(ctx sdk.Context, jailAllowedAddrs []string)",
   "  applyAllowedAddrs := false",
   "  if len(jailAllowedAddrs) > 0",
   "    applyAllowedAddrs = true",
   "  allowedAddrsMap := make(map[string]bool)",
   "  for _, addr := range jailAllowedAddrs",
   "    _, err := sdk.ValAddressFromBech32(addr)",
   "    if err != nil",
   "      log.Fatal(err)",
   "    allowedAddrsMap[addr] = true",
   "  app.CrisisKeeper.AssertInvariants(ctx)",
   "  err := app.StakingKeeper.IterateValidators(ctx, func#1)",
   "    func#1 (_ int64, val stakingtypes.ValidatorI) (stop bool)",
   "      valBz, err := app.StakingKeeper.ValidatorAddressCodec().StringToBytes(val.GetOperator())",
   "      if err != nil",
   "        panic(err)",
   "      _, _ = app.DistrKeeper.WithdrawValidatorCommission(ctx, valBz)",
   "      return false",
   "  if err != nil",
   "    panic(err)",
   "  dels, err := app.StakingKeeper.GetAllDelegations(ctx)",
   "  if err != nil",
   "    panic(err)",
   "  for _, delegation := range dels",
   "    valAddr, err := sdk.ValAddressFromBech32(delegation.ValidatorAddress)",
   "    if err != nil",
   "      panic(err)",
   "    delAddr := sdk.MustAccAddressFromBech32(delegation.DelegatorAddress)",
   "    _, _ = app.DistrKeeper.WithdrawDelegationRewards(ctx, delAddr, valAddr)",
   "  app.DistrKeeper.DeleteAllValidatorSlashEvents(ctx)",
   "  app.DistrKeeper.DeleteAllValidatorHistoricalRewards(ctx)",
   "  height := ctx.BlockHeight()",
   "  ctx = ctx.WithBlockHeight(0)",
   "  err = app.StakingKeeper.IterateValidators(ctx, func#2)",
   "    func#2 (_ int64, val stakingtypes.ValidatorI) (stop bool)",
   "      valBz, err := app.StakingKeeper.ValidatorAddressCodec().StringToBytes(val.GetOperator())",
   "      if err != nil",
   "        panic(err)",
   "      scraps, err := app.DistrKeeper.GetValidatorOutstandingRewardsCoins(ctx, valBz)",
   "      if err != nil",
   "        panic(err)",
   "      feePool, err := app.DistrKeeper.FeePool.Get(ctx)",
   "      if err != nil",
   "        panic(err)",
   "      feePool.CommunityPool = feePool.CommunityPool.Add(scraps...)",
   "      err := app.DistrKeeper.FeePool.Set(ctx, feePool)",
   "      if err != nil",
   "        panic(err)",
   "      err := app.DistrKeeper.Hooks().AfterValidatorCreated(ctx, valBz)",
   "      if err != nil",
   "        panic(err)",
   "      return false",
   "  for _, del := range dels",
   "    valAddr, err := sdk.ValAddressFromBech32(del.ValidatorAddress)",
   "    if err != nil",
   "      panic(err)",
   "    delAddr := sdk.MustAccAddressFromBech32(del.DelegatorAddress)",
   "    err := app.DistrKeeper.Hooks().BeforeDelegationCreated(ctx, delAddr, valAddr)",
   "    if err != nil",
   "      panic()",
   "    err := app.DistrKeeper.Hooks().AfterDelegationModified(ctx, delAddr, valAddr)",
   "    if err != nil",
   "      panic()",
   "  ctx = ctx.WithBlockHeight(height)",
   "  err = app.StakingKeeper.IterateRedelegations(ctx, func#3)",
   "    func#3 (_ int64, red stakingtypes.Redelegation) (stop bool)",
   "      for i := range red.Entries",
   "        red.Entries[i].CreationHeight = 0",
   "      err = app.StakingKeeper.SetRedelegation(ctx, red)",
   "      if err != nil",
   "        panic(err)",
   "      return false",
   "  if err != nil",
   "    panic(err)",
   "  err = app.StakingKeeper.IterateUnbondingDelegations(ctx, func#4)",
   "    func#4 (_ int64, ubd stakingtypes.UnbondingDelegation) (stop bool)",
   "      for i := range ubd.Entries",
   "        ubd.Entries[i].CreationHeight = 0",
   "      err = app.StakingKeeper.SetUnbondingDelegation(ctx, ubd)",
   "      if err != nil",
   "        panic(err)",
   "      return false",
   "  if err != nil",
   "    panic(err)",
   "  store := ctx.KVStore(app.GetKey(stakingtypes.StoreKey))",
   "  iter := storetypes.KVStoreReversePrefixIterator(store, stakingtypes.ValidatorsKey)",
   "  counter := int16(0)",
   "  for ; iter.Valid(); iter.Next()",
   "    addr := sdk.ValAddress(stakingtypes.AddressFromValidatorsKey(iter.Key()))",
   "    validator, err := app.StakingKeeper.GetValidator(ctx, addr)",
   "    if err != nil",
   "      panic()",
   "    validator.UnbondingHeight = 0",
   "    if applyAllowedAddrs && !allowedAddrsMap[addr.String()]",
   "      validator.Jailed = true",
   "    err = app.StakingKeeper.SetValidator(ctx, validator)",
   "    if err != nil",
   "      panic(err)",
   "    counter++",
   "  err := iter.Close()",
   "  if err != nil",
   "    return",
   "  _, err = app.StakingKeeper.ApplyAndReturnValidatorSetUpdates(ctx)",
   "  if err != nil",
   "    log.Fatal(err)",
   "  app.SlashingKeeper.IterateValidatorSigningInfos(ctx, func#5)",
   "    func#5 (addr sdk.ConsAddress, info slashingtypes.ValidatorSigningInfo) (stop bool)",
   "      info.StartHeight = 0",
   "      app.SlashingKeeper.SetValidatorSigningInfo(ctx, addr, info)",
   "      return false"] := rfl

/-- `every function with a body in the listed files, sorted per package` -/
theorem inventory_listing : Gen.SkBlocks.inventory =
  ["app_App_BeginBlocker",
   "app_App_EndBlocker",
   "app_App_InitChainer",
   "app_App_PreBlocker",
   "ra_AppModule_EndBlock",
   "sq_AppModule_BeginBlock",
   "str_AppModule_EndBlock",
   "lk_AppModule_EndBlock",
   "lk_EndBlocker",
   "exp_App_ExportAppStateAndValidators",
   "exp_App_prepForZeroHeightGenesis"] := rfl

end DymVerif.GenEqSk.Blocks
