/-
  Lemmas/IncentPtrRun — `PtrsOKS` along WHOLE histories.
  The invariant `StrongS`: each stored epoch pointer is at a first gauge (gauge id 0), or names a stream that is
  stored, ACTIVE and of the pointer's own epoch identifier, or is `Pointer.last`.  (`PtrsOKS` allows, instead of
  `last`, any pointer past every active stream; that weaker form is not inductive: activating a stream can put a
  stream behind such a pointer.  The code only ever stores a valid position or `last`: `iterate_strong`.)
  Kept by blocks (the EndBlock stores valid positions or `last`; the epoch-end flush resets its own pointer and
  removes streams of its own epoch only; epoch starts add active streams and rewrite streams keeping their epoch
  identifier) and by every message except the termination of an ACTIVE stream named by a pointer.
-/
import DymVerif.Lemmas.IncentLiveRun
namespace DymVerif.Incent
open DymVerif Coins

def PtrStrong (s : State) (e : Nat) (p : Pointer) : Prop :=
  p.gaugeId = 0 ∨ (∃ st, getS s.streams p.streamId = some st ∧ p.streamId ∈ s.active.ids ∧ st.epochId = e) ∨ p = Pointer.last

def StrongS (s : State) : Prop := ∀ e, PtrStrong s e (s.ptrs.getD e Pointer.last)

def StrongP (data : List SView) (e : Nat) (p : Pointer) : Prop :=
  p.gaugeId = 0 ∨ (∃ sv ∈ data, sv.id = p.streamId ∧ sv.epochId = e) ∨ p = Pointer.last

theorem strongP_of_strong (s : State) (hs : SStruct s) (e : Nat) (p : Pointer) (h : PtrStrong s e p) : StrongP (dataOf s) e p := by
  rcases h with h | ⟨st, hg, ha, he⟩ | h
  · exact Or.inl h
  · right; left
    obtain ⟨st', hg', hm'⟩ := active_has_stream s hs p.streamId ha
    rw [hg] at hg'
    have : st = st' := Option.some.inj hg'
    subst this
    obtain ⟨_, _, _, hid, _⟩ := getS_some hs.sid hg
    refine ⟨st.view, ?_, hid, he⟩
    unfold dataOf
    exact List.mem_map.2 ⟨st, (mem_sortById _ _).2 hm', rfl⟩
  · exact Or.inr (Or.inr h)

theorem strong_of_strongP (s : State) (hs : SStruct s) (e : Nat) (p : Pointer) (h : StrongP (dataOf s) e p) : PtrStrong s e p := by
  rcases h with h | ⟨sv, hm, hid, he⟩ | h
  · exact Or.inl h
  · right; left
    unfold dataOf at hm
    obtain ⟨st, hst, hv⟩ := List.mem_map.1 hm
    have hact := (mem_sortById _ _).1 hst
    obtain ⟨g1, g2⟩ := (activeStreams_good s hs).2 st hact
    have e1 : st.id = p.streamId := by rw [← hid, ← hv]; rfl
    have e2 : st.epochId = e := by rw [← he, ← hv]; rfl
    rw [e1] at g1 g2
    exact ⟨st, g1, g2, e2⟩
  · exact Or.inr (Or.inr h)

/-- **the invariant gives `PtrsOKS`** -/
theorem ptrsOKS_of_strong (s : State) (hi : Inv s) (h : StrongS s) : PtrsOKS s := by
  intro e _
  rcases strongP_of_strong s hi.struct e _ (h e) with h1 | h1 | h1
  · exact Or.inl h1
  · exact Or.inr (Or.inl h1)
  · right; right
    intro sv hm
    rw [h1]
    unfold dataOf at hm
    obtain ⟨st, hst, hv⟩ := List.mem_map.1 hm
    have hmem := mem_streamsOf ((mem_sortById _ _).1 hst)
    have h2 := id_le_length hi.struct.sid hmem
    have h3 := hi.len
    have : sv.id = st.id := by rw [← hv]; rfl
    show sv.id < maxU64
    omega

theorem StrongS_frame {s s' : State} (h : StrongS s) (h1 : s'.streams = s.streams) (h2 : s'.active = s.active)
    (h3 : s'.ptrs = s.ptrs) : StrongS s' := by
  intro e
  unfold PtrStrong
  rw [h1, h2, h3]
  exact h e

/-! ### what the pointer loop stores -/

theorem upsert_view : ∀ (l : List Stream) (x : Stream) (d : Coins) (k : Nat), l.find? (·.id == k) = some x →
    (upsertStream l { x with distributed := d }).map Stream.view = l.map Stream.view := by
  intro l
  induction l with
  | nil => intro x d k h; simp at h
  | cons a rest ih =>
    intro x d k h
    have hx : x.id = k := by simpa using List.find?_some h
    unfold upsertStream
    by_cases ha : a.id = k
    · have : x = a := by
        rw [List.find?_cons_of_pos (by simpa using ha)] at h
        exact (Option.some.inj h).symm
      subst this
      rw [if_pos rfl]
      rfl
    · rw [List.find?_cons_of_neg (by simpa using ha)] at h
      rw [if_neg (by show ¬ a.id = x.id; rw [hx]; exact ha)]
      simp only [List.map_cons, List.cons.injEq, true_and]
      exact ih x d k h

theorem rewardsCb_views (s : State) (c : Caches) (v : SView) (r : Rec) :
    (rewardsCb s c v r).1.streams.map Stream.view = c.streams.map Stream.view := by
  unfold rewardsCb
  cases hs : c.getStream v.id with
  | none => rfl
  | some stream =>
    unfold Caches.getStream at hs
    simp only
    cases hg : c.getGauge r.gauge with
    | some g =>
      simp only
      split
      · rfl
      · exact upsert_view c.streams stream _ v.id hs
    | none =>
      simp only
      cases hstg : getGauge s r.gauge with
      | none => rfl
      | some g =>
        simp only
        by_cases hf : g.isFinished s.now = true
        · simp only [hf, if_true]
        · rw [if_neg hf]
          simp only
          split
          · rfl
          · exact upsert_view c.streams stream _ v.id hs

theorem iterate_strong {σ : Type} (data : List SView) (e : Nat) (p : Pointer) (max : Nat)
    (cb : σ → SView → Rec → σ × Nat) (acc : σ) : StrongP data e (iterateEpochPointer data e p max cb acc).1 := by
  unfold iterateEpochPointer
  simp only
  generalize paginate data e cb max (totalRecs data + 1) (newIter data e p) 0 acc = res
  obtain ⟨it, total, acc'⟩ := res
  simp only
  by_cases hv : validAt data e it.1 it.2 = true
  · obtain ⟨hlt, hok, _⟩ := (validAt_iff data e it.1 it.2).1 hv
    simp only [hv, if_true, List.getElem?_eq_getElem hlt]
    right; left
    refine ⟨data[it.1], List.getElem_mem hlt, rfl, ?_⟩
    unfold sOk at hok
    simp only [Bool.and_eq_true, beq_iff_eq] at hok
    exact hok.2
  · rw [if_neg hv]
    exact Or.inr (Or.inr rfl)

theorem ptrLoop_strong (s : State) (maxOps : Nat) : ∀ (es : List Nat) (total : Nat) (c : Caches) (ps : List Pointer),
    (∀ e, StrongP (c.streams.map Stream.view) e (ps.getD e Pointer.last)) →
    (ptrLoop s maxOps es total c ps).2.1.streams.map Stream.view = c.streams.map Stream.view ∧
    ∀ e, StrongP (c.streams.map Stream.view) e ((ptrLoop s maxOps es total c ps).2.2.getD e Pointer.last) := by
  intro es
  induction es with
  | nil => intro total c ps h; exact ⟨rfl, h⟩
  | cons e rest ih =>
    intro total c ps h
    unfold ptrLoop
    split
    · exact ⟨rfl, h⟩
    · have hv := iterate_inv (fun a : Caches => a.streams.map Stream.view = c.streams.map Stream.view) (c.streams.map Stream.view) e
        (ps.getD e Pointer.last) (maxOps - total) (rewardsCb s) c (fun acc v r hp => (rewardsCb_views s acc v r).trans hp) rfl
      have hp' := iterate_strong (c.streams.map Stream.view) e (ps.getD e Pointer.last) (maxOps - total) (rewardsCb s) c
      simp only
      generalize iterateEpochPointer (c.streams.map Stream.view) e (ps.getD e Pointer.last) (maxOps - total) (rewardsCb s) c = res at hv hp'
      obtain ⟨p', iters, c'⟩ := res
      simp only at hv hp' ⊢
      have hyp : ∀ e', StrongP (c'.streams.map Stream.view) e' ((ps.set e p').getD e' Pointer.last) := by
        intro e'
        rw [hv]
        rcases getD_set_cases ps e e' p' with ⟨h2, h1⟩ | h1
        · rw [h2, ← h1]; exact hp'
        · rw [h1]; exact h e'
      obtain ⟨i1, i2⟩ := ih (total + iters) c' (ps.set e p') hyp
      exact ⟨i1.trans hv, by intro e'; have := i2 e'; rw [hv] at this; exact this⟩

/-! ### blocks -/

theorem saveStreams_ptrs (ee : Bool) : ∀ (l : List Stream) (s s' : State), saveStreams ee l s = .ok s' → s'.ptrs = s.ptrs := by
  intro l
  induction l with
  | nil => intro s s' h; simp only [saveStreams, Except.ok.injEq] at h; rw [← h]
  | cons st rest ih =>
    intro s s' h
    unfold saveStreams at h
    split at h
    · cases he : saveStreamEnd st.atEpochEnd s with
      | error e => simp [he] at h
      | ok s1 =>
        simp only [he] at h
        have h1 : s1.ptrs = s.ptrs := by
          unfold saveStreamEnd at he
          split at he
          · cases hd : Refs.del s.active st.atEpochEnd.start st.atEpochEnd.id with
            | none => simp [hd] at he
            | some a =>
              simp only [hd] at he
              cases ha : Refs.add s.finished st.atEpochEnd.start st.atEpochEnd.id with
              | none => simp [ha] at he
              | some f =>
                simp only [ha, Except.ok.injEq] at he
                rw [← he]; rfl
          · simp only [Except.ok.injEq] at he
            rw [← he]; rfl
        rw [ih s1 s' h, h1]
    · have := ih _ s' h
      exact this

theorem strDistribute_ptrs (s : State) (es : List Nat) (streams : List Stream) (maxOps : Nat) (ee : Bool) (s' : State)
    (h : strDistribute s es streams maxOps ee = .ok s') :
    s'.ptrs = (ptrLoop s maxOps (sortByDuration es) 0 ⟨sortById streams, [], []⟩ s.ptrs).2.2 := by
  unfold strDistribute at h
  generalize ptrLoop s maxOps (sortByDuration es) 0 ⟨sortById streams, [], []⟩ s.ptrs = res at h ⊢
  obtain ⟨tot, c, ps⟩ := res
  dsimp only at h ⊢
  split at h
  · simp at h
  · next b hb =>
    cases hinc : incDistribute { s with ptrs := ps, bank := b } c.gauges ee with
    | error x => simp [hinc] at h
    | ok s2 =>
      simp only [hinc] at h
      have hf := incDistribute_frame _ _ _ _ hinc
      rw [saveStreams_ptrs ee _ _ _ h, hf]

/-- **the streamer EndBlock keeps the pointer invariant** (no liveness hypothesis: sponsored streams included) -/
theorem endBlock_strong (s s' : State) (hi : Inv s) (hst : StrongS s) (h : streamerEndBlock s = .ok s') : StrongS s' := by
  unfold streamerEndBlock at h
  have hin := activeStreams_good s hi.struct
  have hst2 : ∀ st ∈ activeStreams s, StrictInc (st.recs.map (·.gauge)) ∧ st.id < maxU64 := by
    intro st hm
    have hmem := mem_streamsOf hm
    exact ⟨hi.stat.recs st hmem, by have := id_le_length hi.struct.sid hmem; have := hi.len; omega⟩
  obtain ⟨c, _, _, _, _, c5, _, c7, c8, _, c10⟩ := strDistribute_core s _ _ _ _ s' hi.ginv hi.struct hin hst2 h
  obtain ⟨hact, _⟩ := strDistribute_false_frame _ _ _ _ _ h
  have hptrs := strDistribute_ptrs _ _ _ _ _ _ h
  have L := ptrLoop_strong s s.maxIter (sortByDuration [0, 1, 2]) 0 ⟨sortById (activeStreams s), [], []⟩ s.ptrs
    (fun e => strongP_of_strong s hi.struct e _ (hst e))
  -- every stored stream keeps its epoch identifier
  have hep : ∀ id st, getS s.streams id = some st → ∃ st', getS s'.streams id = some st' ∧ st'.epochId = st.epochId := by
    intro id st hg
    by_cases hx : id ∈ (activeStreams s).map (·.id)
    · obtain ⟨v, hv, hvid⟩ := c7 id hx
      obtain ⟨st0, g0, g1, _⟩ := c10 v hv
      have g8 := c8 v hv
      rw [hvid] at g0 g8
      rw [hg] at g0
      have : st = st0 := Option.some.inj g0
      subst this
      refine ⟨_, g8, ?_⟩
      show v.epochId = st.epochId
      rw [g1]
    · exact ⟨st, by rw [c5 id hx]; exact hg, rfl⟩
  intro e
  rw [hptrs]
  rcases strong_of_strongP s hi.struct e _ (L.2 e) with k | ⟨st, g1, g2, g3⟩ | k
  · exact Or.inl k
  · obtain ⟨st', a1, a2⟩ := hep _ st g1
    exact Or.inr (Or.inl ⟨st', a1, by rw [hact]; exact g2, by rw [a2]; exact g3⟩)
  · exact Or.inr (Or.inr k)

theorem started_epoch (st : Stream) (d : List Rec) : (started (st.retarget d)).epochId = st.epochId := by
  unfold started Stream.retarget
  split <;> rfl

/-- the epoch-end flush of epoch `e` resets pointer `e`, leaves the others, and removes streams of epoch `e` only -/
theorem afterEpochEnd_strong (s : State) (e : Nat) (s' : State) (hi : Inv s) (hst : StrongS s)
    (h : streamerAfterEpochEnd s e = .ok s') : StrongS s' := by
  unfold streamerAfterEpochEnd at h
  by_cases hemp : (activeStreamsFor s e).isEmpty = true
  · rw [if_pos hemp] at h
    simp only [Except.ok.injEq] at h; subst h; exact hst
  rw [if_neg hemp] at h
  cases hd : strDistribute s [e] (activeStreamsFor s e) maxU64 true with
  | error x => simp [hd] at h
  | ok s1 =>
    simp only [hd, Except.ok.injEq] at h
    have hin := activeStreamsFor_good s hi.struct e
    have hst2 : ∀ st ∈ activeStreamsFor s e, StrictInc (st.recs.map (·.gauge)) ∧ st.id < maxU64 := by
      intro st hm
      have hmem : st ∈ s.streams := mem_of_getS (hin.2 st hm).1
      exact ⟨hi.stat.recs st hmem, by have := id_le_length hi.struct.sid hmem; have := hi.len; omega⟩
    obtain ⟨c, _, _, _, c4, c5, c6, _, _, c9, _⟩ := strDistribute_core s _ _ _ _ s1 hi.ginv hi.struct hin hst2 hd
    rw [← h]
    intro e'
    show PtrStrong s1 e' ((s1.ptrs.set e Pointer.first).getD e' Pointer.last)
    rcases getD_set_cases s1.ptrs e e' Pointer.first with ⟨h2, _⟩ | h1
    · rw [h2]; exact Or.inl rfl
    · rw [h1]
      by_cases hee : e' = e
      · -- the pointer of `e` itself was out of range: `getD` gives `last`
        subst hee
        by_cases hl : e' < s1.ptrs.length
        · have : (s1.ptrs.set e' Pointer.first).getD e' Pointer.last = Pointer.first := by
            simp [List.getD_eq_getElem?_getD, hl]
          rw [← h1, this]; exact Or.inl rfl
        · have : s1.ptrs.getD e' Pointer.last = Pointer.last := by
            simp only [List.getD_eq_getElem?_getD]
            rw [List.getElem?_eq_none (by omega)]; rfl
          rw [this]; exact Or.inr (Or.inr rfl)
      · rw [c4 e' (by simpa using hee)]
        rcases hst e' with k | ⟨st, hg, ha, hep⟩ | k
        · exact Or.inl k
        · right; left
          have hnot : (s.ptrs.getD e' Pointer.last).streamId ∉ (activeStreamsFor s e).map (·.id) := by
            intro hx
            obtain ⟨y, hy, hyid⟩ := List.mem_map.1 hx
            have g1 := (hin.2 y hy).1
            rw [hyid, hg] at g1
            have : st = y := Option.some.inj g1
            have hye := activeStreamsFor_epoch s e y hy
            rw [← this, hep] at hye
            exact hee hye
          refine ⟨st, by rw [c5 _ hnot]; exact hg, ?_, hep⟩
          apply (c9 _).2
          refine ⟨ha, ?_⟩
          intro v hv hvid
          exact absurd (by rw [← hvid]; exact c6 v hv) hnot
        · exact Or.inr (Or.inr k)

theorem beforeEpochStart_strong (s : State) (e : Nat) (s' : State) (hs : SStruct s) (hst : StrongS s)
    (h : streamerBeforeEpochStart s e = .ok s') : StrongS s' := by
  unfold streamerBeforeEpochStart at h
  cases ha : activateDue (upcomingStreams s) s with
  | error x => simp [ha] at h
  | ok s1 =>
    simp only [ha] at h
    obtain ⟨a1, a2, _, _, a5, _⟩ := activateDue_exact _ _ _ ha
    obtain ⟨hs1, _, _, _⟩ := activateDue_spec _ _ _ hs ha
    obtain ⟨gi1, gi2⟩ := activeStreamsFor_good s1 hs1 e
    obtain ⟨b1, b2, _, b4, _, b5⟩ := startStreams_exact _ _ _ hs1 gi1 (fun st hst => (gi2 st hst).1) h
    intro e'
    rw [b1, a2]
    rcases hst e' with k | ⟨st, hg, hact, hep⟩ | k
    · exact Or.inl k
    · right; left
      have hact' : (s.ptrs.getD e' Pointer.last).streamId ∈ s'.active.ids := by rw [b2]; exact a5 _ hact
      by_cases hx : (s.ptrs.getD e' Pointer.last).streamId ∈ (activeStreamsFor s1 e).map (·.id)
      · obtain ⟨y, hy, hyid⟩ := List.mem_map.1 hx
        have g1 := (gi2 y hy).1
        rw [hyid, a1, hg] at g1
        have : st = y := Option.some.inj g1
        subst this
        have := (b5 st hy).1
        rw [hyid] at this
        exact ⟨_, this, hact', by rw [started_epoch]; exact hep⟩
      · exact ⟨st, by rw [b4 _ hx, a1]; exact hg, hact', hep⟩
    · exact Or.inr (Or.inr k)

/-- the invariant pair carried through hooks -/
def J (s : State) : Prop := Inv s ∧ StrongS s

theorem applyHook_J (f : State → Res) (s : State) (hj : J s) (hf : ∀ s', f s = .ok s' → J s') : J (applyHook f s) := by
  unfold applyHook
  cases h : f s with
  | ok s' => exact hf s' h
  | error e => exact hj

theorem epochTick_J (s : State) (e : Nat) (hj : J s) : J (epochTick s e) := by
  unfold epochTick
  cases he : s.epochs[e]? with
  | none => exact hj
  | some ep =>
    simp only
    split
    · exact hj
    · split
      · exact hj
      · split
        · have h1 : J { s with epochs := s.epochs.set e { ep with started := true, curStart := ep.startTime } } :=
            ⟨Inv_frame hj.1 rfl rfl rfl rfl (Same.ginv (s := s) ⟨rfl, rfl, rfl, rfl⟩ hj.1.ginv), StrongS_frame hj.2 rfl rfl rfl⟩
          exact applyHook_J _ _ h1 (fun s' h => ⟨streamerBeforeEpochStart_inv _ e s' h1.1 h, beforeEpochStart_strong _ e s' h1.1.struct h1.2 h⟩)
        · have a1 := applyHook_J (fun x => streamerAfterEpochEnd x e) s hj
            (fun s' h => ⟨streamerAfterEpochEnd_inv s e s' hj.1 h, afterEpochEnd_strong s e s' hj.1 hj.2 h⟩)
          have a2 := applyHook_J (fun x => incAfterEpochEnd x e) _ a1 (fun s' h => by
            obtain ⟨f1, f2, f3, _⟩ := incAfterEpochEnd_frame _ e s' h
            exact ⟨incAfterEpochEnd_inv _ e s' a1.1 h, StrongS_frame a1.2 f1 f2 f3⟩)
          generalize applyHook (fun x => incAfterEpochEnd x e) (applyHook (fun x => streamerAfterEpochEnd x e) s) = s2 at a2 ⊢
          have h1 : J { s2 with epochs := s2.epochs.set e { ep with curStart := ep.curStart + ep.dur } } :=
            ⟨Inv_frame a2.1 rfl rfl rfl rfl (Same.ginv (s := s2) ⟨rfl, rfl, rfl, rfl⟩ a2.1.ginv), StrongS_frame a2.2 rfl rfl rfl⟩
          exact applyHook_J _ _ h1 (fun s' h => ⟨streamerBeforeEpochStart_inv _ e s' h1.1 h, beforeEpochStart_strong _ e s' h1.1.struct h1.2 h⟩)

theorem beginBlock_strong (s : State) (dt : Nat) (hi : Inv s) (hst : StrongS s) : StrongS (beginBlock s dt) := by
  unfold beginBlock
  have h0 : J { s with now := s.now + dt } :=
    ⟨Inv_frame hi rfl rfl rfl rfl (Same.ginv (s := s) ⟨rfl, rfl, rfl, rfl⟩ hi.ginv), StrongS_frame hst rfl rfl rfl⟩
  exact (epochTick_J _ 2 (epochTick_J _ 1 (epochTick_J _ 0 h0))).2

/-! ### messages -/

/-- the excluded step: terminating a stream that an epoch pointer names in the middle of its records -/
def Op.termOK (s : State) : Op → Prop
  | .terminateStream id => ∀ p ∈ s.ptrs, p.gaugeId = 0 ∨ p.streamId ≠ id
  | _ => True

instance (s : State) (op : Op) : Decidable (op.termOK s) := by
  cases op <;> (unfold Op.termOK; infer_instance)

/-- along the history, no termination hits a stream under an epoch pointer (decidable: the model is executable) -/
def TermSafe : State → List Op → Prop
  | _, [] => True
  | s, op :: rest => op.termOK s ∧ TermSafe (step s op).2 rest

def TermSafe.dec : (s : State) → (ops : List Op) → Decidable (TermSafe s ops)
  | _, [] => isTrue trivial
  | s, op :: rest =>
    have := TermSafe.dec (step s op).2 rest
    by unfold TermSafe; exact inferInstance

instance (s : State) (ops : List Op) : Decidable (TermSafe s ops) := TermSafe.dec s ops

theorem getD_mem_or_default (ps : List Pointer) (e : Nat) (d : Pointer) : ps.getD e d ∈ ps ∨ ps.getD e d = d := by
  simp only [List.getD_eq_getElem?_getD]
  cases h : ps[e]? with
  | none => exact Or.inr rfl
  | some p => exact Or.inl (List.mem_of_getElem? h)

theorem terminateStream_strong (s : State) (id : Nat) (hs : SStruct s) (hst : StrongS s)
    (hok : ∀ p ∈ s.ptrs, p.gaugeId = 0 ∨ p.streamId ≠ id) : StrongS (terminateStream s id).2 := by
  unfold terminateStream
  cases hg : getStream s id with
  | none => exact hst
  | some st =>
    simp only
    split
    · exact hst
    · cases hm : moveToFinished s (st.isActive s.now) st with
      | none => exact hst
      | some s' =>
        simp only
        have hidd : st.id = id := by
          obtain ⟨_, _, _, h1, _⟩ := getS_some hs.sid (show getS s.streams id = some st from hg)
          exact h1
        unfold moveToFinished at hm
        cases hd : Refs.del (if st.isActive s.now = true then s.active else s.upcoming) st.start st.id with
        | none => simp [hd] at hm
        | some r =>
          simp only [hd] at hm
          cases ha : Refs.add s.finished st.start st.id with
          | none => simp [ha] at hm
          | some f =>
            simp only [ha] at hm
            by_cases hact : st.isActive s.now = true
            · simp only [hact, if_true, Option.some.injEq] at hm hd
              rw [← hm]
              obtain ⟨n1, _, _⟩ := List.nodup_append.1 hs.nodup
              obtain ⟨_, _, k3⟩ := Refs.del_spec (fun _ => 0) _ _ _ _ hd
              obtain ⟨_, k4⟩ := k3 n1
              intro e
              show PtrStrong { s with active := r, finished := f } e (s.ptrs.getD e Pointer.last)
              rcases hst e with k | ⟨y, g1, g2, g3⟩ | k
              · exact Or.inl k
              · rcases getD_mem_or_default s.ptrs e Pointer.last with hmem | hdef
                · rcases hok _ hmem with k | k
                  · exact Or.inl k
                  · exact Or.inr (Or.inl ⟨y, g1, (k4 _).2 ⟨g2, by rw [hidd]; exact k⟩, g3⟩)
                · exact Or.inr (Or.inr hdef)
              · exact Or.inr (Or.inr k)
            · have hact' : st.isActive s.now = false := by simpa using hact
              simp only [hact', Bool.false_eq_true, if_false, Option.some.injEq] at hm
              rw [← hm]
              exact StrongS_frame hst rfl rfl rfl

theorem createStream_strong (s : State) (hs : SStruct s) (sp : Bool) (c : Coins) (rs : List Rec) (st e n : Nat) (hst : StrongS s) :
    StrongS (createStream s sp c rs st e n).2 := by
  unfold createStream
  split
  · exact hst
  · split
    · exact hst
    · split
      · exact hst
      · cases hm : moduleToDistribute s with
        | none => exact hst
        | some alloc =>
          simp only
          cases hf : Coins.sub? (s.bank.get streamerAddr) alloc with
          | none => exact hst
          | some free =>
            simp only
            split
            · exact hst
            · split
              · exact hst
              · cases hu : Refs.add s.upcoming (if st < s.now then s.now else st) (s.streams.length + 1) with
                | none => exact hst
                | some u =>
                  simp only
                  intro e'
                  have h0 := hst e'
                  show PtrStrong _ e' (s.ptrs.getD e' Pointer.last)
                  generalize s.ptrs.getD e' Pointer.last = q at h0 ⊢
                  rcases h0 with k | ⟨y, g1, g2, g3⟩ | k
                  · exact Or.inl k
                  · right; left
                    refine ⟨y, ?_, g2, g3⟩
                    show getS (s.streams ++ [_]) q.streamId = some y
                    obtain ⟨h1, hk, _⟩ := getS_some hs.sid g1
                    rw [getS_append_old _ _ _ (by omega)]
                    exact g1
                  · exact Or.inr (Or.inr k)

theorem createGauge_sframe (s : State) (o : Nat) (p : Bool) (d du : Nat) (hs : Bool) (c : Coins) (st n : Nat) :
    (createGauge s o p d du hs c st n).2.streams = s.streams ∧ (createGauge s o p d du hs c st n).2.active = s.active ∧
    (createGauge s o p d du hs c st n).2.ptrs = s.ptrs := by
  unfold createGauge
  split
  · exact ⟨rfl, rfl, rfl⟩
  · split
    · exact ⟨rfl, rfl, rfl⟩
    · split
      · exact ⟨rfl, rfl, rfl⟩
      · split <;> exact ⟨rfl, rfl, rfl⟩

theorem poolGaugesLoop_sframe (denom : Nat) (hs : Bool) : ∀ (ds : List Nat) (s : State),
    (poolGaugesLoop denom hs ds s).2.streams = s.streams ∧ (poolGaugesLoop denom hs ds s).2.active = s.active ∧
    (poolGaugesLoop denom hs ds s).2.ptrs = s.ptrs := by
  intro ds
  induction ds with
  | nil => intro s; exact ⟨rfl, rfl, rfl⟩
  | cons d rest ih =>
    intro s
    unfold poolGaugesLoop
    obtain ⟨e1, e2, e3⟩ := createGauge_sframe s streamerAddr true denom d hs [] s.now 1
    generalize createGauge s streamerAddr true denom d hs [] s.now 1 = res at e1 e2 e3
    obtain ⟨o, s1⟩ := res
    cases o with
    | ok =>
      simp only
      obtain ⟨f1, f2, f3⟩ := ih s1
      exact ⟨by rw [f1, e1], by rw [f2, e2], by rw [f3, e3]⟩
    | invalid => exact ⟨e1, e2, e3⟩
    | err => exact ⟨e1, e2, e3⟩
    | panic => exact ⟨e1, e2, e3⟩
    | halt => exact ⟨e1, e2, e3⟩

theorem addToGauge_sframe (s : State) (o gid : Nat) (c : Coins) :
    (addToGauge s o gid c).2.streams = s.streams ∧ (addToGauge s o gid c).2.active = s.active ∧
    (addToGauge s o gid c).2.ptrs = s.ptrs := by
  unfold addToGauge
  split
  · exact ⟨rfl, rfl, rfl⟩
  · cases hg : getGauge s gid with
    | none => exact ⟨rfl, rfl, rfl⟩
    | some g =>
      simp only
      split
      · exact ⟨rfl, rfl, rfl⟩
      · cases hb : s.bank.send o incAddr c with
        | none => exact ⟨rfl, rfl, rfl⟩
        | some b => exact ⟨rfl, rfl, rfl⟩

/-- **one step keeps the pointer invariant** -/
theorem step_strong (s : State) (op : Op) (hi : Inv s) (hst : StrongS s) (hr : op.noRetarget) (ht : op.termOK s) :
    StrongS (step s op).2 := by
  unfold step
  split
  · exact hst
  · cases op with
    | begin dt => exact beginBlock_strong s dt hi hst
    | end_ =>
      simp only
      cases he : streamerEndBlock s with
      | ok s' => exact endBlock_strong s s' hi hst he
      | error e => exact StrongS_frame hst rfl rfl rfl
    | setMaxIter n => exact StrongS_frame hst rfl rfl rfl
    | fund a c => exact StrongS_frame hst rfl rfl rfl
    | locks ls => exact StrongS_frame hst rfl rfl rfl
    | rollapp r o l => exact StrongS_frame hst rfl rfl rfl
    | rollappGauge r =>
      simp only
      unfold createRollappGauge
      cases hra : s.rollapps[r]? with
      | none => exact hst
      | some ra =>
        simp only
        split
        · exact hst
        · exact StrongS_frame hst rfl rfl rfl
    | createGauge o p d du hs c st n =>
      obtain ⟨e1, e2, e3⟩ := createGauge_sframe s o p d du hs c st n
      exact StrongS_frame hst e1 e2 e3
    | addToGauge o g c =>
      obtain ⟨e1, e2, e3⟩ := addToGauge_sframe s o g c
      exact StrongS_frame hst e1 e2 e3
    | createStream sp c rs st e n => exact createStream_strong s hi.struct sp c rs st e n hst
    | terminateStream id => exact terminateStream_strong s id hi.struct hst ht
    | replaceDistr id rs => exact absurd hr (by unfold Op.noRetarget; exact fun x => x)
    | updateDistr id rs => exact absurd hr (by unfold Op.noRetarget; exact fun x => x)
    | distribution rs => exact StrongS_frame hst rfl rfl rfl
    | poolGauges d hs =>
      obtain ⟨e1, e2, e3⟩ := poolGaugesLoop_sframe d hs lockableDurations s
      exact StrongS_frame hst e1 e2 e3

theorem init_strong (now mi : Nat) : StrongS (init now mi) := by
  intro e
  right; right
  show ([Pointer.last, Pointer.last, Pointer.last] : List Pointer).getD e Pointer.last = Pointer.last
  match e with
  | 0 => rfl
  | 1 => rfl
  | 2 => rfl
  | _ + 3 => rfl

/-- **both invariants along every admissible history** without sponsored streams and without the termination of a
    stream under an epoch pointer -/
theorem run_live_strong : ∀ (ops : List Op) (s : State), Inv s → NamedS s → StrongS s →
    (∀ op ∈ ops, op.wf ∧ op.wfS ∧ op.noRetarget) → (∀ op ∈ ops, op.notSponsored) → TermSafe s ops →
    (run s ops).streams.length < maxU64 → Inv (run s ops) ∧ NamedS (run s ops) ∧ StrongS (run s ops) := by
  intro ops
  induction ops with
  | nil => intro s hi hn hst _ _ _ _; exact ⟨hi, hn, hst⟩
  | cons op rest ih =>
    intro s hi hn hst hw hns hts hlen
    unfold run at hlen ⊢
    obtain ⟨w1, w2, w3⟩ := hw op List.mem_cons_self
    have hw' : ∀ o ∈ rest, o.wf ∧ o.wfS ∧ o.noRetarget := fun o ho => hw o (List.mem_cons_of_mem _ ho)
    have hsst := step_sstep s op hi.ginv hi.struct w1 w2
    have hg1 := step_ginv s op hi.ginv w1
    have hm := (run_struct_mono rest _ hg1 hsst.struct (fun o ho => ⟨(hw' o ho).1, (hw' o ho).2.1⟩)).2
    have hl1 : (step s op).2.streams.length < maxU64 := Nat.lt_of_le_of_lt hm.1 hlen
    exact ih _ (step_inv s op hi w1 w2 w3 hl1)
      (step_named s op (idsT_of_idsOK _ hi.ginv.ids) hn w3 (hns op List.mem_cons_self))
      (step_strong s op hi hst w3 hts.1) hw'
      (fun o ho => hns o (List.mem_cons_of_mem _ ho)) hts.2 hlen

/-- **the pointer invariant along every admissible history** (sponsored streams included) without the termination
    of a stream under an epoch pointer -/
theorem run_strong : ∀ (ops : List Op) (s : State), Inv s → StrongS s →
    (∀ op ∈ ops, op.wf ∧ op.wfS ∧ op.noRetarget) → TermSafe s ops →
    (run s ops).streams.length < maxU64 → Inv (run s ops) ∧ StrongS (run s ops) := by
  intro ops
  induction ops with
  | nil => intro s hi hst _ _ _; exact ⟨hi, hst⟩
  | cons op rest ih =>
    intro s hi hst hw hts hlen
    unfold run at hlen ⊢
    obtain ⟨w1, w2, w3⟩ := hw op List.mem_cons_self
    have hw' : ∀ o ∈ rest, o.wf ∧ o.wfS ∧ o.noRetarget := fun o ho => hw o (List.mem_cons_of_mem _ ho)
    have hsst := step_sstep s op hi.ginv hi.struct w1 w2
    have hg1 := step_ginv s op hi.ginv w1
    have hm := (run_struct_mono rest _ hg1 hsst.struct (fun o ho => ⟨(hw' o ho).1, (hw' o ho).2.1⟩)).2
    have hl1 : (step s op).2.streams.length < maxU64 := Nat.lt_of_le_of_lt hm.1 hlen
    exact ih _ (step_inv s op hi w1 w2 w3 hl1) (step_strong s op hi hst w3 hts.1) hw' hts.2 hlen

end DymVerif.Incent
