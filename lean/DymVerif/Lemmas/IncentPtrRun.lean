/-
  Lemmas/IncentPtrRun — `PtrsOKS` along WHOLE histories.
  The invariant `StrongS`: each stored epoch pointer is at a first gauge (gauge id 0), or names a stream that is
  stored, ACTIVE and of the pointer's own epoch identifier, or is `Pointer.last`.  (`PtrsOKS` allows, instead of
  `last`, any pointer past every active stream; that weaker form is not inductive: activating a stream can put a
  stream behind such a pointer.  The code only ever stores a valid position or `last`: `iterate_strong`.)
  Kept by blocks (the EndBlock stores valid positions or `last`; the epoch-end flush resets its own pointer and
  removes streams of its own epoch only; epoch starts add active streams and rewrite streams keeping their epoch
  identifier) and by every message except the termination of an ACTIVE stream named by a pointer.
-/
import DymVerif.Lemmas.IncentLiveRun
namespace DymVerif.Incent
open DymVerif Coins

def PtrStrong (s : State) (e : Nat) (p : Pointer) : Prop :=
  p.gaugeId = 0 ∨ (∃ st, getS s.streams p.streamId = some st ∧ p.streamId ∈ s.active.ids ∧ st.epochId = e) ∨ p = Pointer.last

def StrongS (s : State) : Prop := ∀ e, PtrStrong s e (s.ptrs.getD e Pointer.last)

def StrongP (data : List SView) (e : Nat) (p : Pointer) : Prop :=
  p.gaugeId = 0 ∨ (∃ sv ∈ data, sv.id = p.streamId ∧ sv.epochId = e) ∨ p = Pointer.last

theorem strongP_of_strong (s : State) (hs : SStruct s) (e : Nat) (p : Pointer) (h : PtrStrong s e p) : StrongP (dataOf s) e p := by
  rcases h with h | ⟨st, hg, ha, he⟩ | h
  · exact Or.inl h
  · right; left
    obtain ⟨st', hg', hm'⟩ := active_has_stream s hs p.streamId ha
    rw [hg] at hg'
    have : st = st' := Option.some.inj hg'
    subst this
    obtain ⟨_, _, _, hid, _⟩ := getS_some hs.sid hg
    refine ⟨st.view, ?_, hid, he⟩
    unfold dataOf
    exact List.mem_map.2 ⟨st, (mem_sortById _ _).2 hm', rfl⟩
  · exact Or.inr (Or.inr h)

theorem strong_of_strongP (s : State) (hs : SStruct s) (e : Nat) (p : Pointer) (h : StrongP (dataOf s) e p) : PtrStrong s e p := by
  rcases h with h | ⟨sv, hm, hid, he⟩ | h
  · exact Or.inl h
  · right; left
    unfold dataOf at hm
    obtain ⟨st, hst, hv⟩ := List.mem_map.1 hm
    have hact := (mem_sortById _ _).1 hst
    obtain ⟨g1, g2⟩ := (activeStreams_good s hs).2 st hact
    have e1 : st.id = p.streamId := by rw [← hid, ← hv]; rfl
    have e2 : st.epochId = e := by rw [← he, ← hv]; rfl
    rw [e1] at g1 g2
    exact ⟨st, g1, g2, e2⟩
  · exact Or.inr (Or.inr h)

/-- **the invariant gives `PtrsOKS`** -/
theorem ptrsOKS_of_strong (s : State) (hi : Inv s) (h : StrongS s) : PtrsOKS s := by
  intro e _
  rcases strongP_of_strong s hi.struct e _ (h e) with h1 | h1 | h1
  · exact Or.inl h1
  · exact Or.inr (Or.inl h1)
  · right; right
    intro sv hm
    rw [h1]
    unfold dataOf at hm
    obtain ⟨st, hst, hv⟩ := List.mem_map.1 hm
    have hmem := mem_streamsOf ((mem_sortById _ _).1 hst)
    have h2 := id_le_length hi.struct.sid hmem
    have h3 := hi.len
    have : sv.id = st.id := by rw [← hv]; rfl
    show sv.id < maxU64
    omega

theorem StrongS_frame {s s' : State} (h : StrongS s) (h1 : s'.streams = s.streams) (h2 : s'.active = s.active)
    (h3 : s'.ptrs = s.ptrs) : StrongS s' := by
  intro e
  unfold PtrStrong
  rw [h1, h2, h3]
  exact h e

/-! ### what the pointer loop stores -/

theorem upsert_view : ∀ (l : List Stream) (x : Stream) (d : Coins) (k : Nat), l.find? (·.id == k) = some x →
    (upsertStream l { x with distributed := d }).map Stream.view = l.map Stream.view := by
  intro l
  induction l with
  | nil => intro x d k h; simp at h
  | cons a rest ih =>
    intro x d k h
    have hx : x.id = k := by simpa using List.find?_some h
    unfold upsertStream
    by_cases ha : a.id = k
    · have : x = a := by
        rw [List.find?_cons_of_pos (by simpa using ha)] at h
        exact (Option.some.inj h).symm
      subst this
      rw [if_pos rfl]
      rfl
    · rw [List.find?_cons_of_neg (by simpa using ha)] at h
      rw [if_neg (by show ¬ a.id = x.id; rw [hx]; exact ha)]
      simp only [List.map_cons, List.cons.injEq, true_and]
      exact ih x d k h

theorem rewardsCb_views (s : State) (c : Caches) (v : SView) (r : Rec) :
    (rewardsCb s c v r).1.streams.map Stream.view = c.streams.map Stream.view := by
  unfold rewardsCb
  cases hs : c.getStream v.id with
  | none => rfl
  | some stream =>
    unfold Caches.getStream at hs
    simp only
    cases hg : c.getGauge r.gauge with
    | some g =>
      simp only
      split
      · rfl
      · exact upsert_view c.streams stream _ v.id hs
    | none =>
      simp only
      cases hstg : getGauge s r.gauge with
      | none => rfl
      | some g =>
        simp only
        by_cases hf : g.isFinished s.now = true
        · simp only [hf, if_true]
        · rw [if_neg hf]
          simp only
          split
          · rfl
          · exact upsert_view c.streams stream _ v.id hs

theorem iterate_strong {σ : Type} (data : List SView) (e : Nat) (p : Pointer) (max : Nat)
    (cb : σ → SView → Rec → σ × Nat) (acc : σ) : StrongP data e (iterateEpochPointer data e p max cb acc).1 := by
  unfold iterateEpochPointer
  simp only
  generalize paginate data e cb max (totalRecs data + 1) (newIter data e p) 0 acc = res
  obtain ⟨it, total, acc'⟩ := res
  simp only
  by_cases hv : validAt data e it.1 it.2 = true
  · obtain ⟨hlt, hok, _⟩ := (validAt_iff data e it.1 it.2).1 hv
    simp only [hv, if_true, List.getElem?_eq_getElem hlt]
    right; left
    refine ⟨data[it.1], List.getElem_mem hlt, rfl, ?_⟩
    unfold sOk at hok
    simp only [Bool.and_eq_true, beq_iff_eq] at hok
    exact hok.2
  · rw [if_neg hv]
    exact Or.inr (Or.inr rfl)

theorem ptrLoop_strong (s : State) (maxOps : Nat) : ∀ (es : List Nat) (total : Nat) (c : Caches) (ps : List Pointer),
    (∀ e, StrongP (c.streams.map Stream.view) e (ps.getD e Pointer.last)) →
    (ptrLoop s maxOps es total c ps).2.1.streams.map Stream.view = c.streams.map Stream.view ∧
    ∀ e, StrongP (c.streams.map Stream.view) e ((ptrLoop s maxOps es total c ps).2.2.getD e Pointer.last) := by
  intro es
  induction es with
  | nil => intro total c ps h; exact ⟨rfl, h⟩
  | cons e rest ih =>
    intro total c ps h
    unfold ptrLoop
    split
    · exact ⟨rfl, h⟩
    · have hv := iterate_inv (fun a : Caches => a.streams.map Stream.view = c.streams.map Stream.view) (c.streams.map Stream.view) e
        (ps.getD e Pointer.last) (maxOps - total) (rewardsCb s) c (fun acc v r hp => (rewardsCb_views s acc v r).trans hp) rfl
      have hp' := iterate_strong (c.streams.map Stream.view) e (ps.getD e Pointer.last) (maxOps - total) (rewardsCb s) c
      simp only
      generalize iterateEpochPointer (c.streams.map Stream.view) e (ps.getD e Pointer.last) (maxOps - total) (rewardsCb s) c = res at hv hp'
      obtain ⟨p', iters, c'⟩ := res
      simp only at hv hp' ⊢
      have hyp : ∀ e', StrongP (c'.streams.map Stream.view) e' ((ps.set e p').getD e' Pointer.last) := by
        intro e'
        rw [hv]
        rcases getD_set_cases ps e e' p' with ⟨h2, h1⟩ | h1
        · rw [h2, ← h1]; exact hp'
        · rw [h1]; exact h e'
      obtain ⟨i1, i2⟩ := ih (total + iters) c' (ps.set e p') hyp
      exact ⟨i1.trans hv, by intro e'; have := i2 e'; rw [hv] at this; exact this⟩

end DymVerif.Incent
