/-
  Lemmas/CoreXUpdate — what an accepted `MsgUpdateState` does to the rollapp records, for every value
  of the `last` flag (plain update, hand-over to a real successor, hand-over to the sentinel = fork to
  the latest height):
    * `updateState_rkeys`: up to `NextProposer`, the records after the update are the records before
      it with the new state appended to the updated rollapp (ids, `lastFin`, every state-info field
      but `next` of every rollapp);
    * `updateState_revs`: the revisions of the updated rollapp are unchanged, except in the
      fork-to-sentinel case where exactly one revision starting right above the new state is added.
  Both go through the existing `FS` / `Fork.Good` machinery; no case split over `Op`.
-/
import DymVerif.Lemmas.CoreFinInv
import DymVerif.Lemmas.CoreForkQuiet
namespace DymVerif.Core.XUpd
open DymVerif.Core

-- ---------------------------------------------------------------- from lists of records to lookups

theorem find_rKey (R1 R2 : List Rollapp) (h : R1.map rKey = R2.map rKey) (id : Nat) :
    (R1.find? (·.id == id)).map rKey = (R2.find? (·.id == id)).map rKey := by
  induction R1 generalizing R2 with
  | nil =>
    cases R2 with
    | nil => rfl
    | cons y ys => simp at h
  | cons x xs ih =>
    cases R2 with
    | nil => simp at h
    | cons y ys =>
      simp only [List.map_cons, List.cons.injEq] at h
      have hid : x.id = y.id := (rKey_fields h.1).1
      simp only [List.find?_cons, hid]
      cases (y.id == id) with
      | true => simp [h.1]
      | false => exact ih ys h.2

/-- equal key lists give equal keys of every looked-up record (no uniqueness of ids needed: the key
    contains the id and `getRa` takes the first match on both sides) -/
theorem getRa_rKey {s1 s2 : St} (h : s1.ras.map rKey = s2.ras.map rKey) (id : Nat) :
    (getRa s1 id).map rKey = (getRa s2 id).map rKey := find_rKey _ _ h id

theorem getRa_rKey_some {s1 s2 : St} (h : s1.ras.map rKey = s2.ras.map rKey) {id : Nat} {r : Rollapp}
    (hg : getRa s2 id = some r) : ∃ r', getRa s1 id = some r' ∧ rKey r' = rKey r := by
  have := getRa_rKey h id
  rw [hg] at this
  cases h1 : getRa s1 id with
  | none => rw [h1] at this; cases this
  | some r' =>
    rw [h1] at this
    simp only [Option.map_some, Option.some.injEq] at this
    exact ⟨r', rfl, this⟩

theorem getRa_rKey_none {s1 s2 : St} (h : s1.ras.map rKey = s2.ras.map rKey) {id : Nat}
    (hg : getRa s2 id = none) : getRa s1 id = none := by
  have := getRa_rKey h id
  rw [hg] at this
  cases h1 : getRa s1 id with
  | none => rfl
  | some r' => rw [h1] at this; cases this

/-- `eraseNext` keeps exactly what `sKey` lists -/
theorem sKey_of_eraseNext {a b : SInfo} (e : Fork.eraseNext a = Fork.eraseNext b) : sKey a = sKey b := by
  unfold Fork.eraseNext at e
  injection e with e1 e2 e3 e4 e5 e6 e7 e8 e9
  unfold sKey
  rw [e1, e2, e3, e4, e5, e7, e8, e9]

theorem map_sKey_of_eraseNext {l l' : List SInfo} (e : l'.map Fork.eraseNext = l.map Fork.eraseNext) :
    l'.map sKey = l.map sKey := by
  induction l' generalizing l with
  | nil =>
    cases l with
    | nil => rfl
    | cons y ys => simp at e
  | cons x xs ih =>
    cases l with
    | nil => simp at e
    | cons y ys =>
      simp only [List.map_cons, List.cons.injEq] at e
      simp only [List.map_cons, sKey_of_eraseNext e.1, ih e.2]

-- ---------------------------------------------------------------- the update, up to `NextProposer`

/-- **Every accepted update appends exactly one state** (any `last` flag): up to the `next` field,
    the rollapp records after the update are those of the state in which the new state info was
    appended to the updated rollapp and nothing else was done. -/
theorem updateState_rkeys {s s' : St} {m : UpdMsg} {r : Rollapp} (hc : ChainAll s) (hi : FinInv s)
    (hgr : getRa s m.ra = some r) (e : updateState s m = .ok s') :
    s'.ras.map rKey = (setRa s { r with states := r.states ++ [newSInfo s m (updSucc r m)] }).ras.map rKey := by
  unfold updateState at e
  split at e
  · cases e
  · rename_i hvb
    split at e
    · cases e
    · rename_i r0 hg
      rw [hgr] at hg; injection hg with hg; subst hg
      have hg := hgr
      split at e
      · cases e
      · split at e
        · cases e
        · split at e
          · cases e
          · split at e
            · cases e
            · rename_i hpre
              split at e
              · cases e
              · split at e
                · cases e
                · rename_i s3 h3
                  dsimp only at e
                  split at e
                  · cases e
                  · rename_i r4 hg4
                    injection e with e; subst e
                    have hc2 : ChainAll (setRa s { r with states := r.states ++ [newSInfo s m (updSucc r m)] }) :=
                      RaAll.setRa hc ((hc.get hg).append (updValidateBasic_wf hvb s _) (by
                        intro a ha
                        show m.start = a.start + a.num
                        exact updPre_start hpre a ha))
                    have hq2 : QBound (setRa s { r with states := r.states ++ [newSInfo s m (updSucc r m)] }) := by
                      intro r2 hr2 e he hra
                      have he : e ∈ s.queue := he
                      rcases mem_setRa_strong hr2 with ⟨hm, _⟩ | heq
                      · exact hi.qbound r2 hm e he hra
                      · subst heq
                        have := hi.qbound r (getRa_mem hg) e he hra
                        refine ⟨this.1, fun i hii => ?_⟩
                        have := this.2 i hii
                        show i ≤ (r.states ++ [_]).length
                        simp; omega
                    obtain ⟨p3, s23⟩ := seqAfterUpdate_fs h3 ⟨hi.nodup.setRa _, hc2, hq2⟩
                    have hp4 : Pre { s3 with queue := queueAppend s3.queue s3.h m.ra (r.states.length + 1),
                                             seqH := addSeqHeights s3.seqH m.sender m.bds } := by
                      refine ⟨p3.nodup.of_ids rfl, p3.chain.ras_eq rfl, ?_⟩
                      -- the queue bound after the append of the new index
                      intro r5 hr5 e he hra
                      have hr5 : r5 ∈ s3.ras := hr5
                      obtain ⟨r2, hr2, hk⟩ := s23.mem_back hr5
                      obtain ⟨k1, _, k3⟩ := rKey_fields hk
                      have hlen : r5.states.length = r2.states.length := (map_length_of_eq k3).symm
                      have hold : ∀ e0 ∈ s.queue, e0.ra = r5.id → e0.idx ≠ [] ∧ ∀ i ∈ e0.idx, i ≤ r5.states.length := by
                        intro e0 he0 hra0
                        rcases mem_setRa_strong hr2 with ⟨hm, _⟩ | heq
                        · rw [hlen]; exact hi.qbound r2 hm e0 he0 (by rw [k1]; exact hra0)
                        · subst heq
                          have := hi.qbound r (getRa_mem hg) e0 he0 (by rw [hra0, ← k1])
                          refine ⟨this.1, fun i hii => ?_⟩
                          have := this.2 i hii
                          rw [hlen]
                          show i ≤ (r.states ++ [_]).length
                          simp; omega
                      have hq3 : s3.queue = s.queue := s23.queue
                      rcases mem_queueAppend _ _ _ _ _ he with ⟨_, k2', k3', k4⟩ | hq
                      · refine ⟨(by intro hx; rw [hx] at k3'; cases k3'), ?_⟩
                        intro i hii
                        rcases k4 i hii with h1 | ⟨e0, he0, _, j2, j3⟩
                        · subst h1
                          -- r5 is the updated rollapp
                          have hid5 : r5.id = m.ra := hra.symm.trans k2'
                          rcases mem_setRa_strong hr2 with ⟨_, hne⟩ | heq
                          · exfalso; apply hne
                            show r2.id = r.id
                            rw [k1, hid5, getRa_id hg]
                          · subst heq
                            rw [hlen]
                            show r.states.length + 1 ≤ (r.states ++ [_]).length
                            simp
                        · rw [hq3] at he0
                          exact (hold e0 he0 (by rw [j2]; exact hra)).2 i j3
                      · rw [hq3] at hq
                        exact hold e hq hra
                    obtain ⟨_, s45⟩ := indicateLiveness_fs hg4 hp4
                    exact s45.ras.trans s23.ras

-- ---------------------------------------------------------------- revisions of the updated rollapp

theorem getLast?_concat' {α} (l : List α) (a : α) : (l ++ [a]).getLast? = some a := by simp

/-- the `NextProposer` recorded in the new state differs from the sender exactly in a rotation whose
    successor is not the sender itself -/
theorem updSucc_ne_iff (r : Rollapp) (m : UpdMsg) :
    (updSucc r m != NextP.addr m.sender) = true ↔ m.last = true ∧ r.successor ≠ some m.sender := by
  unfold updSucc
  cases hl : m.last with
  | false => simp
  | true =>
    cases hs : r.successor with
    | none => simp
    | some a =>
      simp only [if_true, bne_iff_ne, ne_eq, true_and, Option.some.injEq]
      constructor
      · intro h hc; apply h; rw [hc]
      · intro h hc; apply h; injection hc

/-- revisions of the rollapp of `q` after the hand-over hook `OnProposerLastBlock` -/
theorem onProposerLastBlock_revs {s s' : St} {q : Seq} {r : Rollapp} {l : SInfo} (hc : Chain r.states)
    (hg : getRa s q.rollapp = some r) (hl : r.states.getLast? = some l) (e : onProposerLastBlock s q = .ok s') :
    ∃ r', getRa s' q.rollapp = some r' ∧
      r'.revs = if r.successor = none then r.revs ++ [(latestRev r + 1, l.start + l.num)] else r.revs := by
  unfold onProposerLastBlock at e
  split at e
  · cases e
  · rw [hg] at e
    dsimp only at e
    have hid := getRa_id hg
    have hg1 : getRa (setRa s { r with successor := none, proposer := r.successor }) r.id =
        some { r with successor := none, proposer := r.successor } :=
      getRa_setRa_same s { r with successor := none, proposer := r.successor } (by
        show (getRa s r.id).isSome = true
        rw [hid, hg]; rfl)
    cases hs : r.successor with
    | none =>
      rw [hs] at e hg1
      dsimp only at e
      rw [if_pos rfl]
      obtain ⟨r1, lh, hgp, hlh, hf, hp⟩ := Fork.hardForkToLatest_plan e
      rw [hg1] at hgp; injection hgp with hgp; subst hgp
      obtain ⟨l1, hl1, _, hplan⟩ := hp hc
      have hl1 : r.states.getLast? = some l1 := hl1
      rw [hl] at hl1; injection hl1 with hl1; subst hl1
      obtain ⟨p', h1, _⟩ := Fork.hardFork_getRa_same hg1 hplan hf
      refine ⟨_, by rw [← hid]; exact h1, ?_⟩
      have hw := hc.wf l (List.mem_of_getLast? hl)
      have hle := hw.last_eq
      have hpos := hw.num_pos
      show r.revs ++ [(latestRev r + 1, ({ l with next := NextP.empty } : SInfo).last + 1)] = _
      have : ({ l with next := NextP.empty } : SInfo).last = l.last := rfl
      rw [this, hle]
      congr 3
      omega
    | some a =>
      rw [hs] at e hg1
      dsimp only at e
      injection e with e; subst e
      rw [if_neg (by simp)]
      obtain ⟨r', h1, h2, _⟩ := (Fork.afterSetRealProposer_good
        (setRa s { r with successor := none, proposer := some a }) r.id a).keep r.id _ hg1
      exact ⟨r', by rw [← hid]; exact h1, congrArg Prod.fst h2⟩

/-- **Revisions after an accepted update**: unchanged, except when the update is the proposer's last
    block and there is no successor (hand-over to the sentinel): then the rollapp is forked to its
    latest height, which adds exactly one revision, numbered `latest + 1` and starting right above
    the new state. -/
theorem updateState_revs {s s' : St} {m : UpdMsg} {r : Rollapp} (hi : Fork.Inv s)
    (hgr : getRa s m.ra = some r) (e : updateState s m = .ok s') :
    ∃ r', getRa s' m.ra = some r' ∧
      r'.revs = if m.last = true ∧ r.successor = none
                then r.revs ++ [(latestRev r + 1, m.start + m.num)] else r.revs := by
  unfold updateState at e
  split at e
  · cases e
  · rename_i hvb
    split at e
    · cases e
    · rename_i r0 hg
      rw [hgr] at hg; injection hg with hg; subst hg
      have hg := hgr
      split at e
      · cases e
      · rename_i hprop
        split at e
        · cases e
        · split at e
          · cases e
          · split at e
            · cases e
            · rename_i hpre
              split at e
              · cases e
              · split at e
                · cases e
                · rename_i s3 h3
                  dsimp only at e
                  split at e
                  · cases e
                  · rename_i r4 hg4
                    injection e with e; subst e
                    have hid := getRa_id hg
                    have hpr : r.proposer = some m.sender := by simpa using hprop
                    -- the sender is a sequencer of this very rollapp
                    obtain ⟨prop, hq, hqr⟩ : Fork.SeqOf s m.sender m.ra := by
                      have h0 := (hi.j.prop m.ra r hg).1 m.sender hpr
                      rw [hid] at h0; exact h0
                    have hga : getRa (setRa s { r with states := r.states ++ [newSInfo s m (updSucc r m)] }) m.ra =
                        some { r with states := r.states ++ [newSInfo s m (updSucc r m)] } := by
                      rw [← hid]
                      exact getRa_setRa_same s { r with states := r.states ++ [newSInfo s m (updSucc r m)] }
                        (by show (getRa s r.id).isSome = true; rw [hid, hg]; rfl)
                    have hca : Chain (r.states ++ [newSInfo s m (updSucc r m)]) :=
                      (hi.chain.get hg).append (updValidateBasic_wf hvb s _) (by
                        intro a ha
                        show m.start = a.start + a.num
                        exact updPre_start hpre a ha)
                    -- revisions of the rollapp after the sequencer hook
                    have key : ∃ r3, getRa s3 m.ra = some r3 ∧
                        r3.revs = if m.last = true ∧ r.successor = none
                                  then r.revs ++ [(latestRev r + 1, m.start + m.num)] else r.revs := by
                      unfold seqAfterUpdate at h3
                      have hq' : getSeq (setRa s { r with states := r.states ++ [newSInfo s m (updSucc r m)] }) m.sender = some prop := hq
                      rw [hq'] at h3
                      dsimp only at h3
                      cases hb : (updSucc r m != NextP.addr m.sender) with
                      | false =>
                        rw [hb] at h3
                        simp only [Bool.false_eq_true, if_false] at h3
                        injection h3 with h3; subst h3
                        refine ⟨_, hga, ?_⟩
                        rw [if_neg]
                        rintro ⟨h1, h2⟩
                        have := (updSucc_ne_iff r m).2 ⟨h1, by rw [h2]; simp⟩
                        rw [hb] at this; cases this
                      | true =>
                        rw [hb] at h3
                        simp only [if_true] at h3
                        have hlast := ((updSucc_ne_iff r m).1 hb).1
                        have := onProposerLastBlock_revs
                          (s := setSeq (setRa s { r with states := r.states ++ [newSInfo s m (updSucc r m)] })
                            { prop with dishonor := prop.dishonor - min s.sqp.dishonorSU prop.dishonor })
                          (q := { prop with dishonor := prop.dishonor - min s.sqp.dishonorSU prop.dishonor })
                          (r := { r with states := r.states ++ [newSInfo s m (updSucc r m)] })
                          (l := newSInfo s m (updSucc r m)) hca
                          (by show getRa (setRa s _) prop.rollapp = _; rw [hqr]; exact hga)
                          (getLast?_concat' _ _) h3
                        obtain ⟨r3, h1, h2⟩ := this
                        refine ⟨r3, by rw [← hqr]; exact h1, ?_⟩
                        rw [h2]
                        show (if r.successor = none then r.revs ++ [(latestRev r + 1, m.start + m.num)] else r.revs) = _
                        by_cases hs : r.successor = none
                        · rw [if_pos hs, if_pos ⟨hlast, hs⟩]
                        · rw [if_neg hs, if_neg (fun h => hs h.2)]
                    obtain ⟨r3, hg3, hrev3⟩ := key
                    have hg4' : getRa s3 m.ra = some r4 := hg4
                    rw [hg3] at hg4'; injection hg4' with hg4'; subst hg4'
                    obtain ⟨r', h1, h2, _⟩ := (Fork.indicateLiveness_good (id := m.ra) hg4).keep m.ra r3 hg4
                    exact ⟨r', h1, (congrArg Prod.fst h2).trans hrev3⟩

end DymVerif.Core.XUpd
