import DymVerif.Lemmas.SponsShares
/-
  Lemmas/SponsFrame — what an op leaves alone.  `FrameK kg ke s s'`: the op created no gauge and no
  endorsement, and the lookups `gauge? / endorsement?` return entries with the same key (`kg` / `ke`).
  With the fine keys (id, kind, EpochRewards) / (rollapp, rollapp gauge, EpochShares) this holds for
  every op except the creation ops and the end of a distribution epoch; with the coarse keys
  (id, kind) / (rollapp, rollapp gauge) for the end of a distribution epoch too.
-/
namespace DymVerif.Spons

def gkey (g : Gauge) : Nat × GKind × Option Int := (g.id, g.kind, g.epochRewards)
def ekey (e : Endorsement) : Nat × Nat × Int := (e.r, e.gaugeId, e.epoch)
def gkey0 (g : Gauge) : Nat × GKind := (g.id, g.kind)
def ekey0 (e : Endorsement) : Nat × Nat := (e.r, e.gaugeId)

structure FrameK {α β : Type} (kg : Gauge → α) (ke : Endorsement → β) (s s' : State) : Prop where
  ids : s'.gauges.map (·.id) = s.gauges.map (·.id)
  gk : ∀ gid, (s'.gauge? gid).map kg = (s.gauge? gid).map kg
  ek : ∀ r, (s'.endorsement? r).map ke = (s.endorsement? r).map ke
  last : s'.lastGauge = s.lastGauge

abbrev Frame := FrameK gkey ekey
abbrev Frame0 := FrameK gkey0 ekey0

theorem FrameK.refl {α β : Type} (kg : Gauge → α) (ke : Endorsement → β) (s : State) : FrameK kg ke s s :=
  ⟨rfl, fun _ => rfl, fun _ => rfl, rfl⟩

theorem FrameK.trans {α β : Type} {kg : Gauge → α} {ke : Endorsement → β} {a b c : State}
    (h1 : FrameK kg ke a b) (h2 : FrameK kg ke b c) : FrameK kg ke a c :=
  ⟨h2.ids.trans h1.ids, fun g => (h2.gk g).trans (h1.gk g), fun r => (h2.ek r).trans (h1.ek r),
   h2.last.trans h1.last⟩

theorem Frame.coarse {s s' : State} (h : Frame s s') : Frame0 s s' := by
  refine ⟨h.ids, fun g => ?_, fun r => ?_, h.last⟩
  · have := congrArg (Option.map fun k : Nat × GKind × Option Int => (k.1, k.2.1)) (h.gk g)
    rw [Option.map_map, Option.map_map] at this; exact this
  · have := congrArg (Option.map fun k : Nat × Nat × Int => (k.1, k.2.1)) (h.ek r)
    rw [Option.map_map, Option.map_map] at this; exact this

/-- a frame whose gauge table and last id are literally unchanged and whose endorsements keep their keys -/
theorem FrameK.of_same_gauges {α β : Type} {kg : Gauge → α} {ke : Endorsement → β} {s s' : State}
    (hg : s'.gauges = s.gauges) (hl : s'.lastGauge = s.lastGauge)
    (he : ∀ r, (s'.endorsement? r).map ke = (s.endorsement? r).map ke) : FrameK kg ke s s' :=
  ⟨by rw [hg], fun g => by unfold State.gauge?; rw [hg], he, hl⟩

/-! ### endorsement keys under share updates -/

theorem find_addShares_key {β : Type} (ke : Endorsement → β)
    (hke : ∀ (e : Endorsement) (t : Int), ke { e with total := t } = ke e)
    (es : List Endorsement) (r r' : Nat) (p : Int) :
    ((addShares es r' p).find? (·.r == r)).map ke = (es.find? (·.r == r)).map ke := by
  rw [find_addShares]
  cases es.find? (·.r == r) with
  | none => rfl
  | some e =>
    simp only [Option.map]
    split
    · rw [hke]
    · rfl

theorem find_updateShares_key {β : Type} (ke : Endorsement → β)
    (hke : ∀ (e : Endorsement) (t : Int), ke { e with total := t } = ke e)
    (gs : List Gauge) (es : List Endorsement) (us : List GP) (r : Nat) :
    ((updateShares gs es us).find? (·.r == r)).map ke = (es.find? (·.r == r)).map ke := by
  induction us generalizing es with
  | nil => rfl
  | cons u us ih =>
    rw [updateShares_cons]
    cases raOf gs u.1 with
    | none => exact ih es
    | some r' => simp only; rw [ih, find_addShares_key ke hke]

theorem ekey_total (e : Endorsement) (t : Int) : ekey { e with total := t } = ekey e := rfl

theorem applyUpdate_frame (s : State) (u : Dist) : Frame s (s.applyUpdate u) :=
  FrameK.of_same_gauges rfl rfl (fun r => find_updateShares_key ekey ekey_total _ _ _ r)

theorem revokeVote_frame (s : State) (a : Nat) (v : Vote) : Frame s (s.revokeVote a v) :=
  FrameK.of_same_gauges rfl rfl (fun r => find_updateShares_key ekey ekey_total _ _ _ r)

theorem castVote_frame {s1 s' : State} {a : Nat} {ws : List GP} (hc : s1.castVote a ws = .ok s') : Frame s1 s' := by
  unfold State.castVote at hc
  simp only at hc
  split at hc
  · cases hc
  · cases hc
    exact FrameK.of_same_gauges rfl rfl (fun r => find_updateShares_key ekey ekey_total _ _ _ r)

theorem vote_frame {s s' : State} {a : Nat} {ws : List GP} (h : s.vote a ws = .ok s') : Frame s s' := by
  unfold State.vote at h
  split at h
  · cases h
  split at h
  · cases h
  split at h
  · exact (revokeVote_frame s a _).trans (castVote_frame h)
  · exact castVote_frame h

theorem processHook_frame (s : State) (a val : Nat) (v : Vote) (o n : Int) : Frame s (s.processHook a val v o n) := by
  unfold State.processHook
  simp only
  split
  · exact revokeVote_frame s a v
  · exact FrameK.of_same_gauges rfl rfl (fun r => by
      show ((updateShares _ (updateShares _ _ _) _).find? (·.r == r)).map ekey = _
      rw [find_updateShares_key ekey ekey_total, find_updateShares_key ekey ekey_total]; rfl)

theorem hook_frame {s s' : State} {a val : Nat} {p : Option Int} (h : s.hook a val p = .ok s') : Frame s s' := by
  rcases hook_ok h with ⟨_, rfl⟩ | ⟨v, _, rfl⟩
  · exact FrameK.refl _ _ _
  · exact processHook_frame _ _ _ _ _ _

theorem hooks_frame {s s' : State} {a : Nat} {hs : List (Nat × Option Int)} (h : s.hooks a hs = .ok s') : Frame s s' := by
  induction hs generalizing s with
  | nil => cases h; exact FrameK.refl _ _ _
  | cons x xs ih =>
    unfold State.hooks at h
    split at h
    · cases h
    · rename_i s1 h1; exact (hook_frame h1).trans (ih h)

/-! ### gauge keys under `updGauge` -/

theorem map_id_updGauge (gs : List Gauge) (g2 : Gauge) : (updGauge gs g2).map (·.id) = gs.map (·.id) := by
  unfold updGauge
  rw [List.map_map]
  apply List.map_congr_left
  intro x _
  show (if x.id = g2.id then g2 else x).id = x.id
  split
  · rename_i h; exact h.symm
  · rfl

/-- replacing the stored gauge `g` (found under its id) by `g2` with the same key keeps every lookup's key -/
theorem find_updGauge_key {α : Type} (kg : Gauge → α) {gs : List Gauge} {g g2 : Gauge} {gid' : Nat}
    (hg : gs.find? (·.id == gid') = some g) (hid : g2.id = g.id) (hk : kg g2 = kg g) (gid : Nat) :
    ((updGauge gs g2).find? (·.id == gid)).map kg = (gs.find? (·.id == gid)).map kg := by
  rw [find_updGauge]
  cases hf : gs.find? (·.id == gid) with
  | none => rfl
  | some x =>
    simp only [Option.map]
    by_cases hx : x.id = g2.id
    · have h1 : x.id = gid := by have := List.find?_some hf; simpa using this
      have h2 : g.id = gid' := by have := List.find?_some hg; simpa using this
      have : gid' = gid := by omega
      subst this
      rw [hf] at hg; cases hg
      simp [hx, hk]
    · simp [hx]

theorem pay_frame {s s1 : State} {a gid' : Nat} {g : Gauge} {e : Endorsement} {pw p : Int}
    (hg : s.gauge? gid' = some g) (h : s.pay a g e pw = .ok (s1, p)) : Frame s s1 := by
  rcases pay_facts h with ⟨_, _, rfl⟩ | ⟨er, _, _, _, rfl⟩
  · exact ⟨rfl, fun _ => rfl, fun _ => rfl, rfl⟩
  · exact ⟨map_id_updGauge _ _,
      fun gid => find_updGauge_key gkey (g2 := { g with distributed := g.distributed + p }) hg rfl rfl gid,
      fun _ => rfl, rfl⟩

theorem claim_frame {s s1 : State} {a gid : Nat} {p : Int} (h : s.claim a gid = .ok (s1, p)) : Frame s s1 := by
  obtain ⟨_, g, r, e, v, hg, _, _, _, _, hpay⟩ := claim_ok h
  exact pay_frame hg hpay

theorem fund_frame {s s1 : State} {g : Nat} {amt : Int} (h : s.fund g amt = .ok s1) : Frame s s1 := by
  unfold State.fund at h
  split at h
  · cases h
  rename_i g0 hg
  split at h
  · cases h
  · cases h
    exact ⟨map_id_updGauge _ _,
      fun gid => find_updGauge_key gkey (g2 := { g0 with coins := g0.coins + amt }) hg rfl rfl gid,
      fun _ => rfl, rfl⟩

/-! ### the end of a distribution epoch keeps the coarse keys -/

theorem map_id_map {f : Gauge → Gauge} (hid : ∀ x, (f x).id = x.id) (gs : List Gauge) :
    (gs.map f).map (·.id) = gs.map (·.id) := by
  rw [List.map_map]; apply List.map_congr_left; intro x _; exact hid x

theorem find_map_key0 {f : Gauge → Gauge} (hid : ∀ x, (f x).id = x.id) (hk : ∀ x, (f x).kind = x.kind)
    (gs : List Gauge) (gid : Nat) :
    ((gs.map f).find? (·.id == gid)).map gkey0 = (gs.find? (·.id == gid)).map gkey0 := by
  rw [find_map_id hid]
  cases gs.find? (·.id == gid) with
  | none => rfl
  | some x => simp [Option.map, gkey0, hid, hk]

theorem frame0_of_map {s s' : State} (f : Gauge → Gauge) (hid : ∀ x, (f x).id = x.id) (hk : ∀ x, (f x).kind = x.kind)
    (hg : s'.gauges = s.gauges.map f) (he : s'.endorsements = s.endorsements) (hl : s'.lastGauge = s.lastGauge) :
    Frame0 s s' := by
  refine ⟨by rw [hg]; exact map_id_map hid _, fun gid => ?_, fun r => by unfold State.endorsement?; rw [he], hl⟩
  unfold State.gauge?; rw [hg]; exact find_map_key0 hid hk _ _

theorem incentivesEpochEnd_frame0 (s : State) : Frame0 s s.incentivesEpochEnd := by
  unfold State.incentivesEpochEnd
  simp only
  split
  · exact FrameK.refl _ _ _
  · have e1 : Frame0 s { s with gauges := s.gauges.map fun g => if g.status = .upcoming then { g with status := .active } else g } :=
      frame0_of_map _ (fun x => by split <;> rfl) (fun x => by split <;> rfl) rfl rfl rfl
    refine e1.trans (frame0_of_map _ (fun x => ?_) (fun x => ?_) rfl rfl rfl)
    · split
      · split <;> (split <;> rfl)
      · rfl
    · split
      · split <;> (split <;> rfl)
      · rfl

theorem sponsEpochEnd_frame0 (s : State) : Frame0 s s.sponsEpochEnd := by
  refine FrameK.of_same_gauges rfl rfl (fun r => ?_)
  show ((s.endorsements.map fun e => { e with epoch := e.total }).find? (·.r == r)).map ekey0 = _
  rw [find_map_r (f := fun e => { e with epoch := e.total }) (fun _ => rfl)]
  unfold State.endorsement?
  cases s.endorsements.find? (·.r == r) <;> rfl

theorem epochEnd_frame0 (s : State) (d : Bool) : Frame0 s (s.epochEnd d) := by
  unfold State.epochEnd
  cases d
  · exact FrameK.refl _ _ _
  · exact (incentivesEpochEnd_frame0 s).trans (sponsEpochEnd_frame0 _)

/-! ### steps -/

def isAdd : Op → Bool
  | .addGauge _ => true
  | .addRollapp _ => true
  | _ => false

/-- every op other than a creation op and the end of a distribution epoch keeps the fine keys -/
theorem step_frame {s : State} {op : Op} (ha : isAdd op = false) (he : isEpochEnd op = false) :
    Frame s (step s op).1 := by
  cases op with
  | vote a ws =>
    simp only [step]; split
    · rename_i s1 h; exact vote_frame h
    · exact FrameK.refl _ _ _
  | revoke a =>
    simp only [step]; split
    · rename_i s1 h
      unfold State.revoke at h; split at h
      · cases h
      · cases h; exact revokeVote_frame _ _ _
    · exact FrameK.refl _ _ _
  | claim a g =>
    simp only [step]; split
    · rename_i s1 p h; exact claim_frame h
    · exact FrameK.refl _ _ _
  | staking a hs fin =>
    simp only [step]; split
    · rename_i s1 h
      unfold State.staking at h
      split at h
      · cases h
      · rename_i s2 h2; cases h
        have := hooks_frame h2
        exact ⟨this.ids, this.gk, this.ek, this.last⟩
    · exact FrameK.refl _ _ _
  | slash fin => exact ⟨rfl, fun _ => rfl, fun _ => rfl, rfl⟩
  | epochEnd d =>
    cases d
    · exact FrameK.refl _ _ _
    · cases he
  | fund g amt =>
    simp only [step]; split
    · rename_i s1 h; exact fund_frame h
    · exact FrameK.refl _ _ _
  | addGauge g => cases ha
  | addRollapp r => cases ha
  | setParams ma mv =>
    simp only [step]; split
    · rename_i s1 h; obtain ⟨rfl, _⟩ := setParams_ok h; exact ⟨rfl, fun _ => rfl, fun _ => rfl, rfl⟩
    · exact FrameK.refl _ _ _

/-- every op other than a creation op keeps the coarse keys -/
theorem step_frame0 {s : State} {op : Op} (ha : isAdd op = false) : Frame0 s (step s op).1 := by
  by_cases he : isEpochEnd op = true
  · cases op with
    | epochEnd d =>
      cases d
      · cases he
      · exact epochEnd_frame0 s true
    | _ => cases he
  · exact (step_frame ha (by simpa using he)).coarse

/-! ### what the keys determine -/

theorem raOf_of_gk0 {s s' : State} (h : ∀ gid, (s'.gauge? gid).map gkey0 = (s.gauge? gid).map gkey0) (gid : Nat) :
    raOf s'.gauges gid = raOf s.gauges gid := by
  rw [raOf_eq_kindRa, raOf_eq_kindRa]
  have := h gid
  unfold State.gauge? at this
  cases h1 : s'.gauges.find? (·.id == gid) with
  | none =>
    cases h2 : s.gauges.find? (·.id == gid) with
    | none => rfl
    | some y => rw [h1, h2] at this; cases this
  | some x =>
    cases h2 : s.gauges.find? (·.id == gid) with
    | none => rw [h1, h2] at this; cases this
    | some y =>
      rw [h1, h2] at this
      simp only [Option.map, gkey0, Option.some.injEq, Prod.mk.injEq] at this
      simp only [Option.bind, this.2]

theorem endo_isSome_of_ek0 {s s' : State} (h : ∀ r, (s'.endorsement? r).map ekey0 = (s.endorsement? r).map ekey0) (r : Nat) :
    (s'.endorsement? r).isSome = (s.endorsement? r).isSome := by
  have := congrArg Option.isSome (h r)
  simpa using this

theorem GaugeIs_of_frame {s s' : State} (h : Frame s s') {gid r : Nat} {R : Int} (hG : GaugeIs s gid r R) :
    GaugeIs s' gid r R := by
  obtain ⟨g, hg, hk, hr⟩ := hG
  have := h.gk gid
  rw [hg] at this
  cases h1 : s'.gauge? gid with
  | none => rw [h1] at this; cases this
  | some x =>
    rw [h1] at this
    simp only [Option.map, gkey, Option.some.injEq, Prod.mk.injEq] at this
    exact ⟨x, h1, by rw [this.2.1, hk], by rw [this.2.2, hr]⟩

/-- the endorsement of `r` names rollapp gauge `rg` and holds the epoch snapshot `S` -/
def EndoIs (s : State) (r rg : Nat) (S : Int) : Prop :=
  ∃ e, s.endorsement? r = some e ∧ e.gaugeId = rg ∧ e.epoch = S

theorem EndoIs_of_frame {s s' : State} (h : Frame s s') {r rg : Nat} {S : Int} (hE : EndoIs s r rg S) :
    EndoIs s' r rg S := by
  obtain ⟨e, he, hg, hs⟩ := hE
  have := h.ek r
  rw [he] at this
  cases h1 : s'.endorsement? r with
  | none => rw [h1] at this; cases this
  | some x =>
    rw [h1] at this
    simp only [Option.map, ekey, Option.some.injEq, Prod.mk.injEq] at this
    exact ⟨x, h1, by rw [this.2.1, hg], by rw [this.2.2, hs]⟩

end DymVerif.Spons
