/-
  Lemmas/CoreRolesMark — a sequencer that loses the proposer slot is marked for good: it either has
  a started (elapsed) notice or has been unbonded by the removal.
-/
import DymVerif.Lemmas.CoreRolesMono
namespace DymVerif.Core.Roles

def Unbonded (s : St) (a : Addr) : Prop := ∃ q, getSeq s a = some q ∧ q.bonded = false

theorem Unbonded.marked {s : St} {a : Addr} (h : Unbonded s a) : Marked s a := by
  obtain ⟨q, hq, hb⟩ := h; exact ⟨q, hq, Or.inr hb⟩

theorem Mono.unbonded {s s' : St} (m : Mono s s') {a : Addr} (h : Unbonded s a) : Unbonded s' a := by
  obtain ⟨q, hq, hb⟩ := h
  obtain ⟨q', hq', _, _, b⟩ := m a q hq
  exact ⟨q', hq', b hb⟩

theorem abruptRemoveProposer_unbonds {s : St} {ra : Nat} {r : Rollapp} {a : Addr} (h : RolesCore s)
    (hg : getRa s ra = some r) (hp : r.proposer = some a) : Unbonded (abruptRemoveProposer s ra) a := by
  obtain ⟨q0, hq0, _⟩ := h.prop r (getRa_mem hg) a hp
  have hqa : q0.addr = a := getSeq_addr hq0
  subst hqa
  unfold abruptRemoveProposer
  rw [hg]
  dsimp only
  rw [hp]
  dsimp only
  rw [hq0]
  dsimp only
  have hg1 : getSeq (removeFromNoticeQueue s q0) q0.addr = some q0 := by
    rw [getSeq_congr (removeFromNoticeQueue_seqs s q0).1]; exact hq0
  refine ⟨{ q0 with bonded := false }, ?_, rfl⟩
  rw [getSeq_congr (setProposer_seqs _ _ _).1]
  exact getSeq_setSeq_same' (q := { q0 with bonded := false }) hg1 rfl

theorem seqOnHardFork_unbonds {s : St} {ra : Nat} {r : Rollapp} {a : Addr} (h : RolesCore s)
    (hg : getRa s ra = some r) (hp : r.proposer = some a) : Unbonded (seqOnHardFork s ra) a := by
  unfold seqOnHardFork
  have h1 := optOutAll_core h ra
  have hg1 : getRa (optOutAll s ra) ra = some r := hg
  have := abruptRemoveProposer_unbonds h1 hg1 hp
  exact (Mono.of_seqs (setSuccessor_seqs _ _ _).1).unbonded this

theorem hardFork_unbonds {s s' : St} {ra lv : Nat} {r : Rollapp} {a : Addr} (h : RolesCore s)
    (e : hardFork s ra lv = .ok s') (hg : getRa s ra = some r) (hp : r.proposer = some a) : Unbonded s' a := by
  unfold hardFork at e
  split at e
  · cases e
  · rename_i r1 hg1
    rw [hg] at hg1; injection hg1 with hg1; subst hg1
    split at e
    · cases e
    · split at e
      · cases e
      · split at e
        · cases e
        · rename_i keep kst _
          dsimp only at e
          injection e with e; subst e
          unfold resetClock
          dsimp only
          have f : Frame s (setRa { s with queue := removeIdxAbove s.queue ra keep,
                                           seqH := pruneSeqHeights s.seqH (kst.creator :: (r.states.drop keep).map (·.creator)) kst.last,
                                           lev := delEvent s.lev (forkedRollapp r keep kst).evH (forkedRollapp r keep kst).id }
                                  { forkedRollapp r keep kst with evH := 0, cdStart := s.h }) :=
            Frame.of_setRa_eq (r0 := r) h.uniq hg (by rfl) (by rfl) (by rfl) (by rfl) (by rfl) (by rfl) (by rfl) (by rfl)
          obtain ⟨r', hr', _, hp', _⟩ := f.ra_some hg
          exact seqOnHardFork_unbonds (h.frame f) hr' (hp'.trans hp)

theorem hardForkToLatest_unbonds {s s' : St} {ra : Nat} {r : Rollapp} {a : Addr} (h : RolesCore s)
    (e : hardForkToLatest s ra = .ok s') (hg : getRa s ra = some r) (hp : r.proposer = some a) : Unbonded s' a := by
  unfold hardForkToLatest at e
  split at e
  · cases e
  · split at e
    · cases e
    · exact hardFork_unbonds h e hg hp

theorem fraud_unbonds {s s' : St} {au : Bool} {ra hh rev : Nat} {p rw : Option Addr} {r : Rollapp} {a : Addr}
    (h : Roles s) (e : fraud s au ra hh rev p rw = .ok s') (hg : getRa s ra = some r) (hp : r.proposer = some a) :
    Unbonded s' a := by
  unfold fraud at e
  split at e
  · cases e
  · split at e
    · cases e
    · split at e
      · cases e
      · split at e
        · cases e
        · dsimp only at e
          split at e
          · cases e
          · rename_i s1 h1
            have hf : Frame s s1 := by
              split at h1
              · exact punish_frame h.core.uniq h1
              · injection h1 with h1; subst h1; exact Frame.refl s
            obtain ⟨r', hr', _, hp', _⟩ := hf.ra_some hg
            exact hardFork_unbonds (h.core.frame hf) e hr' (hp'.trans hp)

theorem kick_unbonds {s s' : St} {a : Addr} (h : Roles s) (e : kick s a = .ok s') :
    ∃ k r pa, getSeq s a = some k ∧ getRa s k.rollapp = some r ∧ r.proposer = some pa ∧ Unbonded s' pa := by
  unfold kick at e
  split at e
  · cases e
  · rename_i kicker hgk
    split at e
    · cases e
    · split at e
      · cases e
      · rename_i r hgr
        split at e
        · cases e
        · rename_i pa hpa
          split at e
          · cases e
          · split at e
            · cases e
            · rename_i hne
              split at e
              · cases e
              · dsimp only at e
                split at e
                · cases e
                · rename_i s3 h3
                  refine ⟨kicker, r, pa, hgk, hgr, hpa, ?_⟩
                  have u2 : Unbonded (abruptRemoveProposer s r.id) pa :=
                    abruptRemoveProposer_unbonds h.core (getRa_self hgr) hpa
                  have u3 : Unbonded s3 pa := (hardForkToLatest_mono h3).unbonded u2
                  obtain ⟨q3, hq3, hb3⟩ := u3
                  refine ⟨q3, ?_, hb3⟩
                  rw [getSeq_congr (recoverFromSentinel_seqs e).1, getSeq_setSeq_other]
                  · exact hq3
                  · show kicker.addr ≠ pa
                    rw [getSeq_addr hgk]; exact hne

theorem markObsolete_unbonds {s s' : St} {au : Bool} {vs : List Nat} (h : Roles s)
    (e : markObsolete s au vs = .ok s') :
    ∀ id a, propOf s id = some (some a) → propOf s' id = some (some a) ∨ Unbonded s' a := by
  unfold markObsolete at e
  split at e
  · cases e
  · split at e
    · cases e
    · dsimp only at e
      injection e with e; subst e
      have := foldl_inv (fun acc => Roles acc ∧ ∀ id a, propOf s id = some (some a) → propOf acc id = some (some a) ∨ Unbonded acc a)
        (fun acc r0 =>
          match getRa acc r0.id with
          | none => acc
          | some r =>
            match r.states.getLast? with
            | none => acc
            | some l =>
              if vs.contains ((l.bds.getLast?.map (·.drs)).getD 0) = true then
                match hardForkToLatest acc r.id with
                | .ok a => a
                | .error _ => acc
              else acc)
        s.ras { s with obsolete := vs.foldl (fun acc v => if acc.contains v then acc else acc ++ [v]) s.obsolete }
        ⟨h.frame (Frame.of_eq rfl rfl rfl rfl rfl), fun id a hp => Or.inl hp⟩
        (by
          intro b r0 hb
          split
          · exact hb
          · rename_i r hr
            split
            · exact hb
            · split
              · split
                · rename_i s2 ha
                  refine ⟨hardForkToLatest_roles hb.1.core (hb.1.sp.ex _) ha, ?_⟩
                  have sp := hardForkToLatest_p hb.1.core ha
                  have mn := hardForkToLatest_mono ha
                  intro id a hp
                  rcases hb.2 id a hp with h1 | h1
                  · by_cases hc : id = r.id
                    · right
                      subst hc
                      have hgr : getRa b r.id = some r := getRa_self hr
                      have : r.proposer = some a := by
                        rw [propOf_get hgr] at h1; injection h1
                      exact hardForkToLatest_unbonds hb.1.core ha hgr this
                    · left; rw [sp.1 id hc]; exact h1
                  · right; exact mn.unbonded h1
                · exact hb
              · exact hb)
      exact this.2

/-- **whoever loses the proposer slot is marked**: after an accepted operation under which `a` stops
    being the proposer of a rollapp, `a` has a started notice (rotation) or is unbonded (kick / fork) -/
theorem apply_removed_marked {s s' : St} {o : Op} {id : Nat} {r : Rollapp} {a : Addr} (h : Roles s)
    (e : apply s o = .ok s') (hg : getRa s id = some r) (hp : r.proposer = some a)
    (hne : propOf s' id ≠ some (some a)) : Marked s' a := by
  have hps : propOf s id = some (some a) := by rw [propOf_get hg, hp]
  have contra : PSame s s' → Marked s' a := fun ps => absurd ((ps id).trans hps) hne
  cases o with
  | createRollapp id' owner mb =>
    simp only [apply] at e
    split at e
    · cases e
    · rename_i hex
      injection e with e; subst e
      apply contra
      intro i
      by_cases hc : id' = i
      · subst hc
        -- the new id did not exist before: both sides differ only for it, and `id` is an old one
        have hnone : getRa s id' = none := by
          cases hx : getRa s id' with
          | none => rfl
          | some _ => simp [hx] at hex
        exfalso
        apply hne
        unfold propOf
        have hid : id ≠ id' := by intro hh; rw [hh, hnone] at hg; cases hg
        rw [getRa_insert_other (r := newRollapp id' owner mb) (by exact Ne.symm hid), hg]
        show some r.proposer = some (some a)
        rw [hp]
      · unfold propOf
        rw [getRa_insert_other (r := newRollapp id' owner mb) (by exact hc)]
  | bridge ra hh =>
    simp only [apply] at e
    split at e
    · cases e
    · rename_i r1 hg1
      split at e
      · cases e
      · split at e
        · cases e
        · injection e with e; subst e
          exact contra (psame_setRa (r0 := r1) hg1 (by rfl) (by rfl))
  | fund a' amt => simp only [apply] at e; injection e with e; subst e; exact contra (PSame.of_ras rfl)
  | createSeq a' ra b d =>
    rcases createSeq_p e with ps | ⟨pf, pn, _⟩
    · exact contra ps
    · by_cases hc : id = ra
      · subst hc; rw [hps] at pn; cases pn
      · exact absurd ((pf id hc).trans hps) hne
  | bondInc a' amt d => exact contra (increaseBond_frame h.core.uniq e).psame
  | bondDec a' amt => exact contra (PSame.of_ras (decreaseBond_ras e))
  | unbond a' => exact contra (PSame.of_ras (unbond_ras e))
  | optIn a' v =>
    obtain ⟨q, _, hq⟩ := optIn_p e
    rcases hq with ps | ⟨pf, pn, _⟩
    · exact contra ps
    · by_cases hc : id = q.rollapp
      · subst hc; rw [hps] at pn; cases pn
      · exact absurd ((pf id hc).trans hps) hne
  | kick a' =>
    obtain ⟨k, r1, pa, _, hk1, _, _, hk2, hk3, _, _, _, pf, _, _⟩ := kick_p h e
    obtain ⟨k', r2, pa', hk1', hk2', hk3', hub⟩ := kick_unbonds h e
    rw [hk1] at hk1'; injection hk1' with hk1'; subst hk1'
    rw [hk2] at hk2'; injection hk2' with hk2'; subst hk2'
    by_cases hc : id = k.rollapp
    · subst hc
      rw [hg] at hk2; injection hk2 with hk2; subst hk2
      rw [hp] at hk3'; injection hk3' with hk3'; subst hk3'
      exact hub.marked
    · exact absurd ((pf id hc).trans hps) hne
  | update m =>
    obtain ⟨r1, hr1, hp1, hcase⟩ := updateState_p h e
    rcases hcase with ps | ⟨_, pf, _, q, hq, hel⟩
    · exact contra ps
    · by_cases hc : id = m.ra
      · subst hc
        rw [hg] at hr1; injection hr1 with hr1; subst hr1
        rw [hp] at hp1; injection hp1 with hp1; subst hp1
        apply (apply_mono h e).marked
        refine ⟨q, hq, Or.inl ?_⟩
        unfold noticeElapsed at hel
        cases hn : q.notice with
        | none => rw [hn] at hel; cases hel
        | some _ => rfl
      · exact absurd ((pf id hc).trans hps) hne
  | fraud au ra hh rev p rw =>
    have fp := fraud_p h e
    by_cases hc : id = ra
    · subst hc; exact (fraud_unbonds h e hg hp).marked
    · exact absurd ((fp.1 id hc).trans hps) hne
  | obsolete au vs =>
    rcases markObsolete_unbonds h e id a hps with h1 | h1
    · exact absurd h1 hne
    · exact h1.marked

  | punish au a' rw => exact contra (punish_frame h.core.uniq (punishProposal_ok e).2).psame
  | transferOwner sg ra' no =>
    obtain ⟨r1, hg1, _, _, _, rfl⟩ := transferOwner_ok e
    exact contra (psame_setRa (r0 := r1) hg1 (by rfl) (by rfl))
  | setSeqParams au sp =>
    obtain ⟨_, hnp, _, rfl⟩ := setSeqParams_ok e
    exact contra (PSame.of_ras rfl)
  | begin_ dt => simp only [apply] at e; injection e with e; subst e; exact contra (beginBlock_psame s dt)
  | end_ f => simp only [apply] at e; injection e with e; subst e; exact contra (endBlock_frame h.core.uniq).psame

end DymVerif.Core.Roles
