/-
  Lemmas/IncentPagingState — STATE-LEVEL independence from the per-block iteration limit, one epoch:
    `Settled s st = st.distributed + (shares of st's records at or after its epoch's stored pointer)`
  is CONSERVED by the streamer EndBlock for every value of `MaxIterationsPerBlock` (`endBlock_settled`), hence by
  every schedule of blocks (`blocks_settled`), and REALISED by the epoch-end flush (`flush_settled`: afterwards the
  stream's distributed coins ARE the settled amount).  So what a stream has handed out at its epoch end is a function
  of the state at the beginning of the window alone — the same for any two schedules (Props/C15,
  `paging_state_independent`).
-/
import DymVerif.Lemmas.IncentExactState
import DymVerif.Lemmas.IncentBlocks
namespace DymVerif.Incent
open DymVerif Coins

/-- what the stream will have distributed once its current epoch is completely served -/
def Settled (s : State) (st : Stream) (i : Nat) : Nat :=
  amt st.distributed i + pendId (ptrOfEpoch s st.epochId) st i

/-- every record of every active stream names a gauge `getActiveGaugeByID` accepts -/
def LiveS (s : State) : Prop := ∀ st ∈ activeStreams s, ∀ r ∈ st.recs, LiveRec s r

/-- the list `Distribute` iterates in the EndBlock (static part) -/
def dataOf (s : State) : List SView := (sortById (activeStreams s)).map Stream.view

/-- the three stored pointers are resumable: each is at a first gauge, or names an ACTIVE stream of its own epoch
    identifier, or is past every active stream.  Excludes exactly: the stream under the pointer was terminated
    (known finding C15/paging_independent/pointer-stream-terminated). -/
def PtrsOKS (s : State) : Prop := PtrsOKe (fun _ => True) (dataOf s) s.ptrs

/-! ### frames -/

theorem saveStreams_false_frame : ∀ (l : List Stream) (s s' : State), saveStreams false l s = .ok s' →
    s'.active = s.active ∧ s'.locks = s.locks := by
  intro l
  induction l with
  | nil => intro s s' h; simp only [saveStreams, Except.ok.injEq] at h; rw [← h]; exact ⟨rfl, rfl⟩
  | cons st rest ih =>
    intro s s' h
    unfold saveStreams at h
    simp only [Bool.false_eq_true, if_false] at h
    exact ih (setStream s st) s' h

theorem strDistribute_false_frame (s : State) (es : List Nat) (streams : List Stream) (maxOps : Nat) (s' : State)
    (h : strDistribute s es streams maxOps false = .ok s') : s'.active = s.active ∧ s'.locks = s.locks := by
  unfold strDistribute at h
  generalize ptrLoop s maxOps (sortByDuration es) 0 ⟨sortById streams, [], []⟩ s.ptrs = res at h
  obtain ⟨tot, c, ps⟩ := res
  dsimp only at h
  split at h
  · simp at h
  · next b hb =>
    cases hinc : incDistribute { s with ptrs := ps, bank := b } c.gauges false with
    | error x => simp [hinc] at h
    | ok s2 =>
      simp only [hinc] at h
      have f := incDistribute_frame _ _ _ _ hinc
      obtain ⟨a1, a2⟩ := saveStreams_false_frame _ _ _ h
      rw [a1, a2, f]
      exact ⟨rfl, rfl⟩

/-! ### sorting by id only looks at the static part -/

theorem insertById_view (a b : Stream) (hab : a.view = b.view) : ∀ (l1 l2 : List Stream), l1.map Stream.view = l2.map Stream.view →
    (insertById a l1).map Stream.view = (insertById b l2).map Stream.view := by
  have hid : a.id = b.id := by have := congrArg SView.id hab; exact this
  intro l1
  induction l1 with
  | nil =>
    intro l2 h
    cases l2 with
    | nil => simp [insertById, hab]
    | cons y ys => simp at h
  | cons x xs ih =>
    intro l2 h
    cases l2 with
    | nil => simp at h
    | cons y ys =>
      simp only [List.map_cons, List.cons.injEq] at h
      have hxy : x.id = y.id := by have := congrArg SView.id h.1; exact this
      unfold insertById
      by_cases hc : a.id ≤ x.id
      · rw [if_pos hc, if_pos (by rw [← hid, ← hxy]; exact hc)]
        simp [hab, h.1, h.2]
      · rw [if_neg hc, if_neg (by rw [← hid, ← hxy]; exact hc)]
        simp only [List.map_cons, List.cons.injEq]
        exact ⟨h.1, ih ys h.2⟩

theorem sortById_view : ∀ (l1 l2 : List Stream), l1.map Stream.view = l2.map Stream.view →
    (sortById l1).map Stream.view = (sortById l2).map Stream.view := by
  intro l1
  induction l1 with
  | nil =>
    intro l2 h
    cases l2 with
    | nil => rfl
    | cons y ys => simp at h
  | cons x xs ih =>
    intro l2 h
    cases l2 with
    | nil => simp at h
    | cons y ys =>
      simp only [List.map_cons, List.cons.injEq] at h
      unfold sortById
      exact insertById_view x y h.1 _ _ (ih ys h.2)

theorem filterMap_view (ss ss' : List Stream) : ∀ (ids : List Nat),
    (∀ id ∈ ids, (getS ss' id).map Stream.view = (getS ss id).map Stream.view) →
    (ids.filterMap (getS ss')).map Stream.view = (ids.filterMap (getS ss)).map Stream.view := by
  intro ids
  induction ids with
  | nil => intro _; rfl
  | cons x xs ih =>
    intro h
    have hx := h x List.mem_cons_self
    have hr := ih (fun id hid => h id (List.mem_cons_of_mem _ hid))
    cases h1 : getS ss' x with
    | none =>
      cases h2 : getS ss x with
      | none => simp only [List.filterMap_cons, h1, h2]; exact hr
      | some b => rw [h1, h2] at hx; simp at hx
    | some a =>
      cases h2 : getS ss x with
      | none => rw [h1, h2] at hx; simp at hx
      | some b =>
        rw [h1, h2] at hx
        simp only [Option.map_some, Option.some.injEq] at hx
        simp only [List.filterMap_cons, h1, h2, List.map_cons, hx, hr]

/-! ### the EndBlock conserves the settled amounts, for every iteration limit -/

theorem active_has_stream (s : State) (hs : SStruct s) (id : Nat) (h : id ∈ s.active.ids) :
    ∃ st, getS s.streams id = some st ∧ st ∈ activeStreams s := by
  have : id ∈ (activeStreams s).map (·.id) := by rw [activeStreams_ids s hs]; exact h
  obtain ⟨y, hy, hyid⟩ := List.mem_map.1 this
  exact ⟨y, by rw [← hyid]; exact ((activeStreams_good s hs).2 y hy).1, hy⟩

theorem endBlock_settled (s s' : State) (hi : Inv s) (hl : LiveS s) (hp : PtrsOKS s) (h : streamerEndBlock s = .ok s') :
    (∀ st0 ∈ s.streams, st0.id ∈ s.active.ids → ∃ st', getS s'.streams st0.id = some st' ∧
        st' = { st0 with distributed := st'.distributed } ∧ ∀ i, Settled s' st' i = Settled s st0 i) ∧
    s'.active = s.active ∧ s'.locks = s.locks ∧ dataOf s' = dataOf s ∧ PtrsOKS s' := by
  have h0 := h
  unfold streamerEndBlock at h
  have hin := activeStreams_good s hi.struct
  have hst : ∀ st ∈ activeStreams s, StrictInc (st.recs.map (·.gauge)) ∧ st.id < maxU64 := by
    intro st hm
    have hmem := mem_streamsOf hm
    exact ⟨hi.stat.recs st hmem, by have := id_le_length hi.struct.sid hmem; have := hi.len; omega⟩
  obtain ⟨c, c1, c2, c3, c4, _, _, _⟩ := strDistribute_core_eq s _ _ _ _ s' hi.ginv hi.struct hin hst hl (fun _ => True)
    (fun _ _ => trivial) hp h
  obtain ⟨hact, hlocks⟩ := strDistribute_false_frame _ _ _ _ _ h
  have key : ∀ st0 ∈ s.streams, st0.id ∈ s.active.ids → ∃ st', getS s'.streams st0.id = some st' ∧
      st' = { st0 with distributed := st'.distributed } ∧ ∀ i, Settled s' st' i = Settled s st0 i := by
    intro st0 hm ha
    have hmem : st0.id ∈ (activeStreams s).map (·.id) := by rw [activeStreams_ids s hi.struct]; exact ha
    obtain ⟨v, hv, hvid⟩ := c2 _ hmem
    obtain ⟨st1, g0, g1, g2⟩ := c3 v hv
    have e0 := getS_of_mem hi.struct.sid hm
    rw [hvid, e0] at g0
    have : st0 = st1 := Option.some.inj g0
    subst this
    have hc1 := c1 v hv
    rw [hvid] at hc1
    refine ⟨v, by simpa [finVal] using hc1, g1, ?_⟩
    intro i
    unfold Settled ptrOfEpoch
    exact g2 i
  have hdata : dataOf s' = dataOf s := by
    unfold dataOf
    apply sortById_view
    unfold activeStreams streamsOf
    rw [hact]
    apply filterMap_view
    intro id hid
    obtain ⟨st0, hg, hm⟩ := active_has_stream s hi.struct id hid
    have hmem := mem_streamsOf hm
    have hidd : st0.id = id := (getS_some hi.struct.sid hg).2.2.2.1
    obtain ⟨st', a1, a2, _⟩ := key st0 hmem (by rw [hidd]; exact hid)
    rw [hidd] at a1
    show (getS s'.streams id).map Stream.view = (getS s.streams id).map Stream.view
    rw [a1, hg, a2]
    rfl
  refine ⟨key, hact, hlocks, hdata, ?_⟩
  unfold PtrsOKS
  rw [hdata]
  exact c4

/-! ### every schedule of blocks -/

/-- blocks inside one epoch, each under the iteration limit in force (`setMaxIter n; end`) -/
def runBlocks (s : State) : List Nat → Option State
  | [] => some s
  | n :: ns =>
    match streamerEndBlock { s with maxIter := n } with
    | .ok s' => runBlocks s' ns
    | .error _ => none

/-- liveness of the gauges named by active streams in every state an EndBlock of the schedule runs on, and in the
    final one (perpetual gauges are never finished; a stream record naming a finished or unknown gauge is skipped
    by the code — its share is lost whatever the limit) -/
def LiveAlong (s : State) : List Nat → Prop
  | [] => LiveS s
  | n :: ns => LiveS s ∧ ∀ s', streamerEndBlock { s with maxIter := n } = .ok s' → LiveAlong s' ns

theorem Inv_maxIter (s : State) (n : Nat) (hi : Inv s) : Inv { s with maxIter := n } :=
  Inv_frame (s' := { s with maxIter := n }) hi rfl rfl rfl rfl (Same.ginv (s := s) ⟨rfl, rfl, rfl, rfl⟩ hi.ginv)

theorem blocks_settled : ∀ (ns : List Nat) (s t : State), Inv s → PtrsOKS s → LiveAlong s ns → runBlocks s ns = some t →
    Inv t ∧ PtrsOKS t ∧ LiveS t ∧ t.active = s.active ∧ t.locks = s.locks ∧ dataOf t = dataOf s ∧
    ∀ st0 ∈ s.streams, st0.id ∈ s.active.ids → ∃ st', getS t.streams st0.id = some st' ∧
        st' = { st0 with distributed := st'.distributed } ∧ ∀ i, Settled t st' i = Settled s st0 i := by
  intro ns
  induction ns with
  | nil =>
    intro s t hi hp hl h
    simp only [runBlocks, Option.some.injEq] at h
    subst h
    refine ⟨hi, hp, hl, rfl, rfl, rfl, ?_⟩
    intro st0 hm _
    exact ⟨st0, getS_of_mem hi.struct.sid hm, rfl, fun _ => rfl⟩
  | cons n rest ih =>
    intro s t hi hp hl h
    unfold runBlocks at h
    cases hb : streamerEndBlock { s with maxIter := n } with
    | error x => simp [hb] at h
    | ok s1 =>
      simp only [hb] at h
      obtain ⟨hl0, hl1⟩ := hl
      have hi0 := Inv_maxIter s n hi
      obtain ⟨k1, k2, k3, k4, k5⟩ := endBlock_settled { s with maxIter := n } s1 hi0 hl0 hp hb
      have hi1 := endBlock_inv _ s1 hi0 hb
      obtain ⟨r1, r2, r3, r4, r5, r6, r7⟩ := ih s1 t hi1 k5 (hl1 s1 hb) h
      refine ⟨r1, r2, r3, r4.trans k2, r5.trans k3, r6.trans k4, ?_⟩
      intro st0 hm ha
      obtain ⟨st1, a1, a2, a3⟩ := k1 st0 hm ha
      have hm1 : st1 ∈ s1.streams := mem_of_getS a1
      have hid1 : st1.id = st0.id := by rw [a2]
      obtain ⟨st', b1, b2, b3⟩ := r7 st1 hm1 (by rw [hid1, k2]; exact ha)
      refine ⟨st', by rw [← hid1]; exact b1, ?_, fun i => (b3 i).trans (a3 i)⟩
      rw [b2, a2]

/-! ### the epoch-end flush realises the settled amounts -/

theorem totalRecs_view (l : List Stream) : totalRecs (l.map Stream.view) = (l.map (fun st => st.recs.length)).sum := by
  unfold totalRecs
  rw [List.map_map]
  rfl

theorem totalRecs_for_le (s : State) (e : Nat) :
    totalRecs ((sortById (activeStreamsFor s e)).map Stream.view) ≤ totalRecs (dataOf s) := by
  unfold dataOf
  rw [totalRecs_view, totalRecs_view, sum_sortById, sum_sortById]
  unfold activeStreamsFor
  exact sum_sublist_le _ List.filter_sublist

/-- the pointer of the ending epoch stays resumable when the list is restricted to that epoch's streams -/
theorem ptrsOK_for (s : State) (e : Nat) (hp : PtrsOKS s) :
    PtrsOKe (fun x => x = e) ((sortById (activeStreamsFor s e)).map Stream.view) s.ptrs := by
  intro e' he'
  subst he'
  rcases hp e' trivial with h | ⟨sv, h1, h2, h3⟩ | h
  · exact Or.inl h
  · right; left
    unfold dataOf at h1
    obtain ⟨st, hst, hsv⟩ := List.mem_map.1 h1
    have hst' : st ∈ activeStreams s := (mem_sortById _ st).1 hst
    have hep : st.epochId = e' := by rw [← hsv] at h3; exact h3
    have hf : st ∈ activeStreamsFor s e' := by
      unfold activeStreamsFor
      exact List.mem_filter.2 ⟨hst', by rw [hep]; exact beq_self_eq_true e'⟩
    exact ⟨sv, by rw [← hsv]; exact List.mem_map_of_mem (f := Stream.view) ((mem_sortById _ st).2 hf), h2, h3⟩
  · right; right
    intro sv hsv
    obtain ⟨st, hst, he⟩ := List.mem_map.1 hsv
    have hst' : st ∈ activeStreamsFor s e' := (mem_sortById _ st).1 hst
    unfold activeStreamsFor at hst'
    have hst2 : st ∈ activeStreams s := (List.mem_filter.1 hst').1
    apply h sv
    unfold dataOf
    rw [← he]
    exact List.mem_map_of_mem (f := Stream.view) ((mem_sortById _ st).2 hst2)

/-- **the flush at the epoch end** (`AfterEpochEnd` of epoch `e`, unlimited budget): every active stream of that
    epoch is stored with its distributed coins equal to the settled amount (and its epoch counted) -/
theorem flush_settled (s s' : State) (e : Nat) (he : e ≤ 2) (hi : Inv s) (hl : LiveS s) (hp : PtrsOKS s)
    (hsmall : (s.locks.length + 1) * totalRecs (dataOf s) < maxU64)
    (h : streamerAfterEpochEnd s e = .ok s') :
    ∀ st0 ∈ s.streams, st0.id ∈ s.active.ids → st0.epochId = e →
      ∃ D, getS s'.streams st0.id = some ({ st0 with distributed := D } : Stream).atEpochEnd ∧ ∀ i, amt D i = Settled s st0 i := by
  intro st0 hm ha hep
  have hmem := mem_activeStreamsFor s hi.struct e st0 hm ha hep
  unfold streamerAfterEpochEnd at h
  have hne : (activeStreamsFor s e).isEmpty = false := by
    obtain ⟨y, hy, _⟩ := List.mem_map.1 hmem
    cases hh : activeStreamsFor s e with
    | nil => rw [hh] at hy; simp at hy
    | cons a b => rfl
  rw [hne] at h
  simp only [Bool.false_eq_true, if_false] at h
  cases hd : strDistribute s [e] (activeStreamsFor s e) maxU64 true with
  | error x => simp [hd] at h
  | ok s1 =>
    simp only [hd, Except.ok.injEq] at h
    subst h
    have hin := activeStreamsFor_good s hi.struct e
    have hsub : ∀ st ∈ activeStreamsFor s e, st ∈ activeStreams s := by
      intro st hst; unfold activeStreamsFor at hst; exact (List.mem_filter.1 hst).1
    have hst : ∀ st ∈ activeStreamsFor s e, StrictInc (st.recs.map (·.gauge)) ∧ st.id < maxU64 := by
      intro st hm'
      have hmem' := mem_streamsOf (hsub st hm')
      exact ⟨hi.stat.recs st hmem', by have := id_le_length hi.struct.sid hmem'; have := hi.len; omega⟩
    obtain ⟨c, c1, c2, c3, c4, c5, _, _⟩ := strDistribute_core_eq s _ _ _ _ s1 hi.ginv hi.struct hin hst
      (fun st hm' r hr => hl st (hsub st hm') r hr) (fun x => x = e) (fun st hm' => activeStreamsFor_epoch s e st hm')
      (ptrsOK_for s e hp) hd
    obtain ⟨v, hv, hvid⟩ := c2 _ hmem
    obtain ⟨st1, g0, g1, g2⟩ := c3 v hv
    have e0 := getS_of_mem hi.struct.sid hm
    rw [hvid, e0] at g0
    have : st0 = st1 := Option.some.inj g0
    subst this
    have hc1 := c1 v hv
    rw [hvid] at hc1
    refine ⟨v.distributed, ?_, ?_⟩
    · show getS s1.streams st0.id = _
      rw [hc1]
      unfold finVal
      simp only [if_true]
      rw [← g1]
    · intro i
      -- nothing is left to visit after the unlimited pass
      have hrem := c5 e he rfl rfl (Nat.lt_of_le_of_lt (Nat.mul_le_mul_left _ (totalRecs_for_le s e)) hsmall)
      have hgc : GoodCache ⟨sortById (activeStreamsFor s e), [], []⟩ := by
        have hin2 := sortById_good s _ hin
        refine ⟨hin2.1, sorted_sortById _, ?_, ?_⟩
        · intro st hm'; exact (hst st ((mem_sortById _ st).1 hm')).1
        · intro st hm'; exact (hst st ((mem_sortById _ st).1 hm')).2
      have hsd := hgc.sortedData
      -- the index of the stream in the iterated list
      obtain ⟨y, hy, hyid⟩ := List.mem_map.1 hmem
      have hgy := (hin.2 y hy).1
      rw [hyid, e0] at hgy
      have hyeq : y = st0 := (Option.some.inj hgy).symm
      subst hyeq
      have hys : y ∈ sortById (activeStreamsFor s e) := (mem_sortById _ y).2 hy
      obtain ⟨k, hk, hke⟩ := List.getElem_of_mem hys
      have hkd : k < ((sortById (activeStreamsFor s e)).map Stream.view).length := by simpa using hk
      have hdk : ((sortById (activeStreamsFor s e)).map Stream.view)[k] = y.view := by simp [hke]
      have hpk := c4 e rfl
      have hz : pendId (s1.ptrs.getD e Pointer.last) v i = 0 := by
        rw [← pendR_eq_pendId _ e _ hsd hpk.ok k hkd v (by rw [hdk, g1]; rfl) (by rw [hdk, g1]; rfl) (by rw [hdk]; exact hep) i]
        unfold pendR
        rw [hrem]
        simp [sharesAt]
      have := g2 i
      have hve : v.epochId = e := by rw [g1]; exact hep
      rw [hve, hz] at this
      unfold Settled ptrOfEpoch
      rw [hep] at this ⊢
      omega

end DymVerif.Incent
