/-
  Lemmas/GBInv — the per-rollapp invariant of M-GB and its preservation by every op.
-/
import DymVerif.Lemmas.GBStep
namespace DymVerif.GB

/-- A-proofheight: accepted packets carry a proof height ≥ 1 -/
def PhOk : Op → Prop
  | .recv _ ph _ => 0 < ph
  | _ => True

structure RaInv (ra : Ra) : Prop where
  wf : ra.gi.vb = none
  sealedI : (ra.launched = true ∨ ra.plan.isSome = true) → ra.gi.sealed = true
  -- while the bridge is closed nothing is credited; metadata of the rollapp's IBC denom can exist only by a
  -- registration outside the handshake (`premd`), which needs a recorded canonical channel
  closed : ra.tph = 0 → ra.bal = [] ∧ (ra.md = true → ra.chan.isSome = true) ∧ ra.nOpen = 0 ∧ ∀ a st, ra.plan = some (a, st) → st = false
  opened : ra.tph ≠ 0 → ra.nOpen = 1
  -- only a hard fork freezes the canonical client, and `ForkAllowed` wants transfers enabled
  frz : ra.frozen = true → ra.tph ≠ 0

theorem AllRa.append {P : Ra → Prop} {s : St} {x : Ra} (h : AllRa P s) (hx : P x) (s' : St) (e : s'.ras = s.ras ++ [x]) : AllRa P s' := by
  intro y hy
  rw [e] at hy
  rcases List.mem_append.1 hy with hm | hm
  · exact h y hm
  · simp only [List.mem_singleton] at hm
    exact hm ▸ hx

theorem AllRa.of_ras {P : Ra → Prop} {s s' : St} (h : AllRa P s) (e : s'.ras = s.ras) : AllRa P s' := by
  intro y hy; rw [e] at hy; exact h y hy

theorem emptyGI_vb : emptyGI.vb = none := by decide

theorem newRa_inv (r : Nat) (g : GInfo) (hg : g.vb = none) : RaInv (newRa r g) :=
  ⟨hg, by simp [newRa], by simp [newRa], by simp [newRa], by simp [newRa]⟩

theorem isSome_false_none {α} {o : Option α} (h : o.isSome = false) : o = none := by
  cases o <;> simp_all

theorem setgi_inv {ra : Ra} (g1 : GInfo) (hra : RaInv ra) (hv : g1.vb.isSome = false) (hs : ra.gi.sealed = false) :
    RaInv { ra with gi := g1 } := by
  have hnl : ¬ (ra.launched = true ∨ ra.plan.isSome = true) := fun hc => by
    have := hra.sealedI hc; rw [hs] at this; exact absurd this (by simp)
  exact ⟨isSome_false_none hv, fun hc => absurd hc hnl, hra.closed, hra.opened, hra.frz⟩

theorem force_inv {ra : Ra} (g : GInfo) (hra : RaInv ra) (hv : g.vb.isSome = false) :
    RaInv { ra with gi := { g with sealed := true } } :=
  ⟨by rw [vb_sealed]; exact isSome_false_none hv, fun _ => rfl, hra.closed, hra.opened, hra.frz⟩

theorem plan_inv {ra : Ra} (alloc : Int) (pl : Option Nat) (te : Bool) (ps : Option Nat) (pd : Nat) (hra : RaInv ra) :
    RaInv { ra with gi := { ra.gi with sealed := true }, preLaunch := pl, plan := some (alloc, false), te := te, pstart := ps, pdur := pd } := by
  refine ⟨by rw [vb_sealed]; exact hra.wf, fun _ => rfl, ?_, hra.opened, hra.frz⟩
  intro ht
  obtain ⟨a, b, c, _⟩ := hra.closed ht
  refine ⟨a, b, c, ?_⟩
  intro a' st' he
  simp only [Option.some.injEq, Prod.mk.injEq] at he
  exact he.2.symm

/-- `EnableTrading` touches the plan's trading flag / start time and the pre-launch time only -/
theorem enable_inv {ra : Ra} (pl ps : Option Nat) (hra : RaInv ra) :
    RaInv { ra with te := true, pstart := ps, preLaunch := pl } :=
  ⟨hra.wf, hra.sealedI, hra.closed, hra.opened, hra.frz⟩

theorem seq_inv {ra : Ra} (hra : RaInv ra) : RaInv { ra with launched := true, gi := { ra.gi with sealed := true } } :=
  ⟨by rw [vb_sealed]; exact hra.wf, fun _ => rfl, hra.closed, hra.opened, hra.frz⟩

theorem link_inv {ra : Ra} (c : Option Nat) (hc : ra.chan.isSome = true → c.isSome = true) (hra : RaInv ra) :
    RaInv { ra with linked := true, chan := c } :=
  ⟨hra.wf, hra.sealedI, fun ht => ⟨(hra.closed ht).1, fun hm => hc ((hra.closed ht).2.1 hm), (hra.closed ht).2.2⟩, hra.opened, hra.frz⟩

theorem handshake_inv {ra : Ra} (ph : Nat) (p : Pkt) (hra : RaInv ra) (ht0 : ra.tph = 0) (hph : 0 < ph) :
    RaInv (handshake ra ph p).1 := by
  rcases handshake_cases ra ph p with ⟨h1, _⟩ | ⟨d, bal', _, _, _, _, h2, _⟩
  · rw [h1]; exact hra
  · rw [h2]
    obtain ⟨_, _, hn, _⟩ := hra.closed ht0
    refine ⟨hra.wf, ?_, ?_, ?_, fun _ => by simp only; omega⟩
    · intro hc
      apply hra.sealedI
      rcases hc with hc | hc
      · exact Or.inl hc
      · right
        cases hpl : ra.plan <;> simp_all
    · intro hc
      simp only at hc
      omega
    · intro _
      simp only
      omega

theorem stepCreate_inv (s : St) (r : Nat) (g : Option GInfo) (h : AllRa RaInv s) : AllRa RaInv (stepCreate s r g).1 := by
  unfold stepCreate
  repeat' split
  all_goals first
    | exact h
    | exact h.append (newRa_inv r _ emptyGI_vb) _ rfl
    | exact h.append (newRa_inv r _ (isSome_false_none (by simp_all))) _ rfl

theorem stepSetgi_inv (s : St) (r : Nat) (owner : Bool) (g : Option GInfo) (h : AllRa RaInv s) : AllRa RaInv (stepSetgi s r owner g).1 := by
  unfold stepSetgi
  repeat' split
  all_goals first
    | exact h
    | (rename_i ra hg _ _ _ _ _ _ _ _
       exact h.setRa (setgi_inv _ (h.get hg) (by simp_all) (by simp_all)))

theorem stepForce_inv (s : St) (r : Nat) (gov : Bool) (g : GInfo) (h : AllRa RaInv s) : AllRa RaInv (stepForce s r gov g).1 := by
  unfold stepForce
  repeat' split
  all_goals first
    | exact h
    | (rename_i ra hg _ _
       exact h.setRa (force_inv _ (h.get hg) (by simp_all)))

theorem stepPlan_inv (s : St) (r : Nat) (owner : Bool) (alloc : Int) (dur : Nat) (te : Bool) (start : Option Nat) (h : AllRa RaInv s) :
    AllRa RaInv (stepPlan s r owner alloc dur te start).1 := by
  unfold stepPlan
  split
  · exact h
  cases hg : getRa s r with
  | none => exact h
  | some ra =>
    simp only
    repeat' split
    all_goals first
      | exact h
      | exact h.setRa (plan_inv _ _ _ _ _ (h.get hg))

theorem stepEnable_inv (s : St) (r : Nat) (owner : Bool) (h : AllRa RaInv s) : AllRa RaInv (stepEnable s r owner).1 := by
  unfold stepEnable
  cases hg : getRa s r with
  | none => exact h
  | some ra =>
    simp only
    repeat' split
    all_goals first
      | exact h
      | exact h.setRa (enable_inv _ _ (h.get hg))

theorem stepSeq_inv (s : St) (r : Nat) (h : AllRa RaInv s) : AllRa RaInv (stepSeq s r).1 := by
  unfold stepSeq
  repeat' split
  all_goals first
    | exact h
    | exact h.setRa (seq_inv (h.get (by assumption)))

theorem stepLink_inv (s : St) (r : Nat) (h : AllRa RaInv s) : AllRa RaInv (stepLink s r).1 := by
  unfold stepLink
  repeat' split
  all_goals first
    | exact h
    | (rename_i ra hg _
       exact AllRa.of_ras (h.setRa (link_inv _ (fun _ => rfl) (h.get hg))) rfl)

theorem stepLink2_inv (s : St) (r : Nat) (h : AllRa RaInv s) : AllRa RaInv (stepLink2 s r).1 := by
  unfold stepLink2
  repeat' split
  all_goals exact h

theorem stepCanon_inv (s : St) (r : Nat) (h : AllRa RaInv s) : AllRa RaInv (stepCanon s r).1 := by
  unfold stepCanon
  repeat' split
  all_goals first
    | exact h
    | (rename_i ra hg _
       exact h.setRa (link_inv ra.chan id (h.get hg)))

theorem chan_inv {ra : Ra} (c : Nat) (hra : RaInv ra) : RaInv { ra with chan := some c } :=
  ⟨hra.wf, hra.sealedI, fun ht => ⟨(hra.closed ht).1, fun _ => rfl, (hra.closed ht).2.2⟩, hra.opened, hra.frz⟩

theorem premd_inv {ra : Ra} (hc : ra.chan.isSome = true) (hra : RaInv ra) : RaInv { ra with md := true } :=
  ⟨hra.wf, hra.sealedI, fun ht => ⟨(hra.closed ht).1, fun _ => hc, (hra.closed ht).2.2⟩, hra.opened, hra.frz⟩

theorem stepPremd_inv (s : St) (r : Nat) (h : AllRa RaInv s) : AllRa RaInv (stepPremd s r).1 := by
  unfold stepPremd
  repeat' split
  all_goals first
    | exact h
    | (rename_i ra hg hc _
       exact h.setRa (premd_inv (by cases hch : ra.chan <;> simp_all) (h.get hg)))

theorem stepChopen_inv (s : St) (r : Nat) (via : Nat) (h : AllRa RaInv s) : AllRa RaInv (stepChopen s r via).1 := by
  unfold stepChopen
  repeat' split
  all_goals first
    | exact h
    | exact h.of_ras rfl
    | (rename_i ra hg _ _ _ _
       exact AllRa.of_ras (h.setRa (chan_inv _ (h.get hg))) rfl)

/-- a state update moves the last height and un-freezes the client -/
theorem update_inv {ra : Ra} (l : Nat) (hra : RaInv ra) : RaInv { ra with lastH := l, frozen := false } :=
  ⟨hra.wf, hra.sealedI, hra.closed, hra.opened, fun h => absurd h (by simp)⟩

/-- a hard fork moves the last height, freezes the client and bumps the revision — of an open bridge only -/
theorem fork_inv {ra : Ra} (l v : Nat) (ht : ra.tph ≠ 0) (hra : RaInv ra) : RaInv { ra with lastH := l, frozen := true, rev := v } :=
  ⟨hra.wf, hra.sealedI, hra.closed, hra.opened, fun _ => ht⟩

theorem stepUpdate_inv (s : St) (r n : Nat) (h : AllRa RaInv s) : AllRa RaInv (stepUpdate s r n).1 := by
  unfold stepUpdate
  repeat' split
  all_goals first
    | exact h
    | exact h.setRa (update_inv _ (h.get (by assumption)))

theorem stepFork_inv (s : St) (r : Nat) (gov : Bool) (ht : Nat) (h : AllRa RaInv s) : AllRa RaInv (stepFork s r gov ht).1 := by
  unfold stepFork
  repeat' split
  all_goals first
    | exact h
    | (rename_i ra hg _ hf _ _ _
       exact h.setRa (fork_inv _ _ (by intro h0; simp [h0] at hf) (h.get hg)))

theorem stepSend_inv (s : St) (c : Nat) (h : AllRa RaInv s) : AllRa RaInv (stepSend s c).1 := by
  unfold stepSend
  repeat' split
  all_goals exact h

theorem stepRecv_inv (s : St) (c ph : Nat) (p : Pkt) (h : AllRa RaInv s) (hph : 0 < ph) : AllRa RaInv (stepRecv s c ph p).1 := by
  unfold stepRecv
  repeat' split
  all_goals first
    | exact h
    | (rename_i ra hg ht _
       exact h.setRa (handshake_inv ph p (h.get hg) (by simpa using ht) hph))

theorem step_inv (s : St) (op : Op) (h : AllRa RaInv s) (hp : PhOk op) : AllRa RaInv (step s op).1 := by
  cases op with
  | create r g => exact stepCreate_inv s r g h
  | setgi r owner g => exact stepSetgi_inv s r owner g h
  | force r gov g => exact stepForce_inv s r gov g h
  | plan r owner alloc dur te start => exact stepPlan_inv s r owner alloc dur te start h
  | enable r owner => exact stepEnable_inv s r owner h
  | tick dt => exact h.of_ras rfl
  | seq r => exact stepSeq_inv s r h
  | link r => exact stepLink_inv s r h
  | link2 r => exact stepLink2_inv s r h
  | canon r => exact stepCanon_inv s r h
  | chopen r via => exact stepChopen_inv s r via h
  | premd r => exact stepPremd_inv s r h
  | update r n => exact stepUpdate_inv s r n h
  | fork r gov ht => exact stepFork_inv s r gov ht h
  | plainch => exact h.of_ras rfl
  | send c => exact stepSend_inv s c h
  | recv c ph p => exact stepRecv_inv s c ph p h hp

def AllPhOk (ops : List Op) : Prop := ∀ op ∈ ops, PhOk op

theorem init_inv : AllRa RaInv init := by
  intro ra hra
  simp [init] at hra

theorem run_inv_from (s : St) (ops : List Op) (h : AllRa RaInv s) (hp : AllPhOk ops) : AllRa RaInv (run s ops) := by
  induction ops generalizing s with
  | nil => exact h
  | cons op ops ih =>
    simp only [run, List.foldl_cons]
    apply ih
    · exact step_inv s op h (hp op (by simp))
    · intro o ho; exact hp o (by simp [ho])

theorem run_inv (ops : List Op) (hp : AllPhOk ops) : AllRa RaInv (run init ops) :=
  run_inv_from init ops init_inv hp

end DymVerif.GB
