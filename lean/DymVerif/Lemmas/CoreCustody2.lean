/-
  Lemmas/CoreCustody2 — custody through the money-moving handlers, block processing, and all runs.
-/
import DymVerif.Lemmas.CoreCustody
namespace DymVerif.Core

theorem sendToModule_spec {s s1 : St} {q q1 : Seq} {amt : Nat} (e : sendToModule s q amt = .ok (s1, q1)) :
    s1.seqs = s.seqs ∧ s1.modBal = s.modBal + amt ∧ q1.tokens = q.tokens + amt ∧ q1.addr = q.addr := by
  unfold sendToModule at e; split at e
  · cases e
  · injection e with e; injection e with e1 e2; subst e1; subst e2; exact ⟨rfl, rfl, rfl, rfl⟩

theorem sendFromModule_spec {s s1 : St} {q q1 : Seq} {amt : Nat} {to : Addr}
    (e : sendFromModule s q amt to = .ok (s1, q1)) :
    s1.seqs = s.seqs ∧ s1.modBal + amt = s.modBal ∧ q1.tokens + amt = q.tokens ∧ q1.addr = q.addr := by
  unfold sendFromModule at e; split at e
  · cases e
  · split at e
    · cases e
    · split at e
      · cases e
      · injection e with e; injection e with e1 e2; subst e1; subst e2
        refine ⟨rfl, ?_, ?_, rfl⟩
        · show s.modBal - amt + amt = s.modBal; omega
        · show q.tokens - amt + amt = q.tokens; omega

theorem burn_spec {s s1 : St} {q q1 : Seq} {amt : Nat} (e : burn s q amt = .ok (s1, q1)) :
    s1.seqs = s.seqs ∧ s1.modBal + amt = s.modBal ∧ q1.tokens + amt = q.tokens ∧ q1.addr = q.addr := by
  unfold burn at e; split at e
  · cases e
  · split at e
    · cases e
    · injection e with e; injection e with e1 e2; subst e1; subst e2
      refine ⟨rfl, ?_, ?_, rfl⟩
      · show s.modBal - amt + amt = s.modBal; omega
      · show q.tokens - amt + amt = q.tokens; omega

/-- a slash moves the module balance and the recorded bond by the same amount -/
theorem slash_spec {s s1 : St} {q q1 : Seq} {amt : Nat} {mul : Dec} {rw : Option Addr}
    (e : slash s q amt mul rw = .ok (s1, q1)) :
    s1.seqs = s.seqs ∧ s1.modBal + q.tokens = s.modBal + q1.tokens ∧ q1.addr = q.addr ∧ q1.tokens ≤ q.tokens := by
  unfold slash at e
  dsimp only at e
  split at e
  · cases e
  · rename_i s0 q0 h0
    have hb := burn_spec e
    have h0' : s0.seqs = s.seqs ∧ s0.modBal + q.tokens = s.modBal + q0.tokens ∧ q0.addr = q.addr ∧ q0.tokens ≤ q.tokens := by
      split at h0
      · injection h0 with h0; injection h0 with h1 h2; subst h1; subst h2; exact ⟨rfl, rfl, rfl, Nat.le_refl _⟩
      · split at h0
        · have := sendFromModule_spec h0
          exact ⟨this.1, by omega, this.2.2.2, by omega⟩
        · cases h0
    exact ⟨hb.1.trans h0'.1, by omega, hb.2.2.2.trans h0'.2.2.1, by omega⟩

theorem tryUnbond_spec {s s1 : St} {q q1 : Seq} {amt : Nat} (e : tryUnbond s q amt = .ok (s1, q1)) :
    s1.seqs = s.seqs ∧ s1.modBal + q.tokens = s.modBal + q1.tokens ∧ q1.addr = q.addr := by
  unfold tryUnbond at e
  split at e
  · cases e
  · split at e
    · cases e
    · split at e
      · cases e
      · dsimp only at e
        split at e
        · cases e
        · split at e
          · cases e
          · rename_i s0 q0 h0
            have := sendFromModule_spec h0
            injection e with e; injection e with e1 e2; subst e1; subst e2
            have ht : (if q0.tokens = 0 then { q0 with bonded := false } else q0).tokens = q0.tokens := by split <;> rfl
            have ha : (if q0.tokens = 0 then { q0 with bonded := false } else q0).addr = q0.addr := by split <;> rfl
            refine ⟨this.1, ?_, ?_⟩
            · rw [ht]; omega
            · rw [ha]; exact this.2.2.2

theorem tokSum_insert (l : List Seq) (x : Seq) (h : ∀ y ∈ l, y.addr ≠ x.addr) :
    tokSum (insertSorted (fun a b => decide (a.addr < b.addr)) x l) = tokSum l + x.tokens := by
  induction l with
  | nil => simp [insertSorted, tokSum]
  | cons a as ih =>
    have ha : a.addr ≠ x.addr := h a (by simp)
    have ih' := ih (fun y hy => h y (by simp [hy]))
    have hc : ∀ (y : Seq) (l : List Seq), tokSum (y :: l) = y.tokens + tokSum l := by
      intro y l; simp [tokSum]
    unfold insertSorted
    by_cases h1 : x.addr < a.addr
    · simp only [h1, decide_true, if_true]
      rw [hc, hc]; omega
    · have h2 : a.addr < x.addr := Nat.lt_of_le_of_ne (Nat.le_of_not_lt h1) ha
      simp only [h1, h2, decide_false, decide_true, Bool.false_eq_true, if_false, if_true]
      rw [hc, hc, ih']; omega

theorem nodup_insert (l : List Seq) (x : Seq) (hn : AddrNodup l) (h : ∀ y ∈ l, y.addr ≠ x.addr) :
    AddrNodup (insertSorted (fun a b => decide (a.addr < b.addr)) x l) := by
  unfold AddrNodup
  induction l with
  | nil => simp [insertSorted]
  | cons a as ih =>
    have hp := List.pairwise_cons.1 hn
    have ha : a.addr ≠ x.addr := h a (by simp)
    unfold insertSorted
    by_cases h1 : x.addr < a.addr
    · simp only [h1, decide_true, if_true]
      apply List.pairwise_cons.2
      refine ⟨?_, hn⟩
      intro y hy; exact fun e => h y hy e.symm
    · have h2 : a.addr < x.addr := Nat.lt_of_le_of_ne (Nat.le_of_not_lt h1) ha
      simp only [h1, h2, decide_false, decide_true, Bool.false_eq_true, if_false, if_true]
      apply List.pairwise_cons.2
      refine ⟨?_, ih hp.2 (fun y hy => h y (by simp [hy]))⟩
      intro y hy
      rcases insertSorted_mem _ _ _ _ hy with h3 | h3
      · subst h3; exact ha
      · exact hp.1 y h3

theorem getSeq_none {s : St} {a : Addr} (h : getSeq s a = none) : ∀ y ∈ s.seqs, y.addr ≠ a := by
  unfold getSeq at h
  intro y hy e
  have := List.find?_eq_none.1 h y hy
  simp [e] at this

theorem createSeq_cust {s s' : St} {a : Addr} {ra bond : Nat} {d : Bool} (h : Cust s)
    (e : createSeq s a ra bond d = .ok s') : Cust s' := by
  unfold createSeq at e
  split at e
  · cases e
  · rename_i r hg
    split at e
    · cases e
    · rename_i hex
      have hnone : getSeq s a = none := by
        cases hx : getSeq s a with
        | none => rfl
        | some _ => simp [hx] at hex
      split at e
      · cases e
      · split at e
        · cases e
        · split at e
          · cases e
          · dsimp only at e
            have h0 : Cust (if r.launched = true then s else setRa s { r with launched := true }) := by
              split
              · exact h
              · exact h.of_eq rfl rfl
            have hs0 : (if r.launched = true then s else setRa s { r with launched := true }).seqs = s.seqs := by
              split <;> rfl
            split at e
            · cases e
            · rename_i s1 q1 hs
              have sp := sendToModule_spec hs
              have hfresh : ∀ y ∈ s1.seqs, y.addr ≠ q1.addr := by
                intro y hy
                rw [sp.1, hs0] at hy
                rw [sp.2.2.2]
                exact getSeq_none hnone y hy
              have h2 : Cust { s1 with seqs := insertSorted (fun x y => decide (x.addr < y.addr)) q1 s1.seqs } := by
                constructor
                · exact nodup_insert s1.seqs q1 (by rw [sp.1]; exact h0.nodup) hfresh
                · show s1.modBal = tokSum (insertSorted _ q1 s1.seqs)
                  rw [tokSum_insert s1.seqs q1 hfresh, sp.2.1, sp.1, h0.bal, sp.2.2.1]
                  show tokSum _ + bond = tokSum _ + (0 + bond); omega
              split at e
              · cases e
              · split at e
                · have := recoverFromSentinel_seqs e
                  exact h2.of_eq this.1 this.2
                · injection e with e; subst e; exact h2

theorem increaseBond_cust {s s' : St} {a : Addr} {amt : Nat} {d : Bool} (h : Cust s)
    (e : increaseBond s a amt d = .ok s') : Cust s' := by
  unfold increaseBond at e
  split at e
  · cases e
  · rename_i q hg
    split at e
    · cases e
    · split at e
      · cases e
      · split at e
        · cases e
        · rename_i s1 q1 hs
          have sp := sendToModule_spec hs
          injection e with e; subst e
          exact h.setSeq_moved hg sp.1 (sp.2.2.2.trans (getSeq_addr hg)) (by omega)

theorem decreaseBond_cust {s s' : St} {a : Addr} {amt : Nat} (h : Cust s)
    (e : decreaseBond s a amt = .ok s') : Cust s' := by
  unfold decreaseBond at e
  split at e
  · cases e
  · rename_i q hg
    split at e
    · cases e
    · split at e
      · cases e
      · rename_i s1 q1 hs
        have sp := tryUnbond_spec hs
        injection e with e; subst e
        exact h.setSeq_moved hg sp.1 (sp.2.2.trans (getSeq_addr hg)) (by omega)

theorem unbond_cust {s s' : St} {a : Addr} (h : Cust s) (e : unbond s a = .ok s') : Cust s' := by
  unfold unbond at e
  split at e
  · cases e
  · rename_i q hg
    split at e
    · cases e
    · split at e
      · cases e
      · split at e
        · split at e
          · cases e
          · split at e
            · cases e
            · injection e with e; subst e
              exact Cust.setSeq_same (s := { s with nq := _ }) (q0 := q) (a := a) (h.of_eq rfl rfl) hg
                (show q.addr = a from getSeq_addr hg) rfl
        · split at e
          · cases e
          · rename_i s1 q1 hs
            have sp := tryUnbond_spec hs
            have hqa : q.addr = a := getSeq_addr hg
            injection e with e; subst e
            exact h.setSeq_moved hg sp.1 (sp.2.2.trans hqa) sp.2.1

theorem optIn_cust {s s' : St} {a : Addr} {v : Bool} (h : Cust s) (e : optIn s a v = .ok s') : Cust s' := by
  unfold optIn at e
  split at e
  · cases e
  · rename_i q hg
    split at e
    · cases e
    · dsimp only at e
      have h1 : Cust (setSeq s { q with optedIn := v }) :=
        Cust.setSeq_same (q0 := q) (a := a) h hg (show q.addr = a from getSeq_addr hg) rfl
      split at e
      · cases e
      · split at e
        · have := recoverFromSentinel_seqs e; exact h1.of_eq this.1 this.2
        · injection e with e; subst e; exact h1

theorem punish_cust {s s' : St} {a : Addr} {rw : Option Addr} (h : Cust s) (e : punish s a rw = .ok s') : Cust s' := by
  unfold punish at e
  split at e
  · cases e
  · rename_i q hg
    dsimp only at e
    split at e
    · cases e
    · rename_i s1 q1 hs
      have sp := slash_spec hs
      injection e with e; subst e
      exact h.setSeq_moved hg sp.1 (sp.2.2.1.trans (getSeq_addr hg)) sp.2.1

theorem fraud_cust {s s' : St} {au : Bool} {ra hh rev : Nat} {p rw : Option Addr} (h : Cust s)
    (e : fraud s au ra hh rev p rw = .ok s') : Cust s' := by
  unfold fraud at e
  split at e
  · cases e
  · split at e
    · cases e
    · split at e
      · cases e
      · split at e
        · cases e
        · dsimp only at e
          split at e
          · cases e
          · rename_i s1 h1
            have : Cust s1 := by
              split at h1
              · exact punish_cust h h1
              · injection h1 with h1; subst h1; exact h
            exact hardFork_cust this e

theorem getSeq_setSeq_other {s : St} {q : Seq} {a : Addr} (hne : q.addr ≠ a) : getSeq (setSeq s q) a = getSeq s a := by
  unfold getSeq setSeq
  dsimp only
  induction s.seqs with
  | nil => rfl
  | cons x xs ih =>
    simp only [List.map_cons, List.find?_cons]
    by_cases hx : (x.addr == q.addr) = true
    · have hxa : x.addr = q.addr := by simpa using hx
      simp only [hx, if_true]
      have h1 : (q.addr == a) = false := by simp [hne]
      have h2 : (x.addr == a) = false := by simp [hxa, hne]
      simp only [h1, h2]; exact ih
    · simp only [hx]
      simp only [Bool.false_eq_true, if_false]
      cases hxa : (x.addr == a) with
      | true => rfl
      | false => exact ih

/-- the recorded bond of every address is the same in both states -/
def TokFrame (s s' : St) : Prop := ∀ a, (getSeq s' a).map (·.tokens) = (getSeq s a).map (·.tokens)

theorem TokFrame.refl (s : St) : TokFrame s s := fun _ => rfl
theorem TokFrame.trans {s1 s2 s3 : St} (h1 : TokFrame s1 s2) (h2 : TokFrame s2 s3) : TokFrame s1 s3 :=
  fun a => (h2 a).trans (h1 a)
theorem TokFrame.of_seqs {s s' : St} (e : s'.seqs = s.seqs) : TokFrame s s' := by
  intro a; rw [getSeq_congr e]

theorem find_map_addr (l : List Seq) (f : Seq → Seq) (hf : ∀ x, (f x).addr = x.addr) (a : Addr) :
    (l.map f).find? (·.addr == a) = (l.find? (·.addr == a)).map f := by
  induction l with
  | nil => rfl
  | cons x xs ih =>
    simp only [List.map_cons, List.find?_cons, hf]
    cases (x.addr == a) with
    | true => rfl
    | false => exact ih

theorem TokFrame.map {s : St} (f : Seq → Seq) (hf : ∀ x, (f x).addr = x.addr) (ht : ∀ x, (f x).tokens = x.tokens) :
    TokFrame s { s with seqs := s.seqs.map f } := by
  intro a
  unfold getSeq
  dsimp only
  rw [find_map_addr _ f hf]
  cases s.seqs.find? (·.addr == a) with
  | none => rfl
  | some x => simp [ht]

theorem TokFrame.setSeq {s : St} {q0 q : Seq} (hg : getSeq s q.addr = some q0) (ht : q.tokens = q0.tokens) :
    TokFrame s (setSeq s q) := by
  have := TokFrame.map (s := s) (fun x => if x.addr == q.addr then q else x)
    (by intro x; by_cases h : (x.addr == q.addr) = true
        · simp [h]; exact (by simpa using h : x.addr = q.addr).symm
        · simp [h])
  intro a
  by_cases ha : q.addr = a
  · subst ha
    unfold getSeq Core.setSeq
    dsimp only
    unfold getSeq at hg
    have : ∀ l : List Seq, l.find? (·.addr == q.addr) = some q0 →
        ((l.map (fun x => if x.addr == q.addr then q else x)).find? (·.addr == q.addr)) = some q := by
      intro l
      induction l with
      | nil => intro h; cases h
      | cons x xs ih =>
        intro h
        simp only [List.map_cons, List.find?_cons] at h ⊢
        by_cases hx : (x.addr == q.addr) = true
        · simp [hx]
        · simp only [hx] at h ⊢
          simp only [Bool.false_eq_true, if_false]
          simp only [hx]
          exact ih h
    rw [this _ hg, hg]; simp [ht]
  · rw [getSeq_setSeq_other ha]

theorem abruptRemoveProposer_tok (s : St) (ra : Nat) : TokFrame s (abruptRemoveProposer s ra) := by
  unfold abruptRemoveProposer
  split
  · exact TokFrame.refl s
  · split
    · exact TokFrame.refl s
    · split
      · exact TokFrame.refl s
      · rename_i _ a _ _ q hg
        have f1 : TokFrame s (removeFromNoticeQueue s q) := TokFrame.of_seqs (removeFromNoticeQueue_seqs s q).1
        have hg1 : getSeq (removeFromNoticeQueue s q) a = some q := by
          rw [getSeq_congr (removeFromNoticeQueue_seqs s q).1]; exact hg
        have hqa : q.addr = a := getSeq_addr hg
        have f2 : TokFrame (removeFromNoticeQueue s q) (setSeq (removeFromNoticeQueue s q) { q with bonded := false }) :=
          TokFrame.setSeq (q0 := q) (by show getSeq _ q.addr = some q; rw [hqa]; exact hg1) rfl
        exact (f1.trans f2).trans (TokFrame.of_seqs (setProposer_seqs _ _ _).1)

theorem seqOnHardFork_tok (s : St) (ra : Nat) : TokFrame s (seqOnHardFork s ra) := by
  unfold seqOnHardFork
  have f1 : TokFrame s (optOutAll s ra) := by
    unfold optOutAll
    exact TokFrame.map _ (by intro x; split <;> rfl) (by intro x; split <;> rfl)
  exact (f1.trans (abruptRemoveProposer_tok _ _)).trans (TokFrame.of_seqs (setSuccessor_seqs _ _ _).1)

theorem hardFork_tok {s s' : St} {ra lv : Nat} (e : hardFork s ra lv = .ok s') : TokFrame s s' := by
  unfold hardFork at e
  split at e
  · cases e
  · split at e
    · cases e
    · split at e
      · cases e
      · split at e
        · cases e
        · dsimp only at e
          injection e with e; subst e
          unfold resetClock
          exact (TokFrame.of_seqs rfl).trans (seqOnHardFork_tok _ _)

theorem hardForkToLatest_tok {s s' : St} {ra : Nat} (e : hardForkToLatest s ra = .ok s') : TokFrame s s' := by
  unfold hardForkToLatest at e
  split at e
  · cases e
  · split at e
    · cases e
    · exact hardFork_tok e

theorem kick_cust {s s' : St} {a : Addr} (h : Cust s) (e : kick s a = .ok s') : Cust s' := by
  unfold kick at e
  split at e
  · cases e
  · rename_i kicker hgk
    split at e
    · cases e
    · split at e
      · cases e
      · rename_i r hgr
        split at e
        · cases e
        · rename_i pa hpa
          split at e
          · cases e
          · split at e
            · cases e
            · rename_i hne
              split at e
              · cases e
              · dsimp only at e
                split at e
                · cases e
                · rename_i s3 h3
                  -- the kicker is not the proposer, so its record is untouched by the removal and the fork
                  -- except for the opt-out; tokens are preserved in any case
                  have c2 := abruptRemoveProposer_cust (ra := r.id) h
                  have c3 := hardForkToLatest_cust c2 h3
                  -- kicker still present with the same tokens: use the generic replace lemma through membership
                  have hk3 : ∃ q3, getSeq s3 a = some q3 ∧ q3.tokens = kicker.tokens := by
                    -- tokens are never changed by abruptRemoveProposer / hardFork (only bonded / optedIn flags)
                    have tf := ((abruptRemoveProposer_tok s r.id).trans (hardForkToLatest_tok h3)) a
                    rw [hgk] at tf
                    cases hq : getSeq s3 a with
                    | none => rw [hq] at tf; cases tf
                    | some q3 => rw [hq] at tf; exact ⟨q3, rfl, by simpa using tf⟩
                  obtain ⟨q3, hq3, ht3⟩ := hk3
                  have c4 : Cust (setSeq s3 { kicker with optedIn := true }) :=
                    Cust.setSeq_same (q0 := q3) (a := a) c3 hq3 (show kicker.addr = a from getSeq_addr hgk) ht3.symm
                  have := recoverFromSentinel_seqs e
                  exact c4.of_eq this.1 this.2

end DymVerif.Core
