/-
  Lemmas/KeysLock — range / prefix lemmas for the lockup scans whose prefix carries an owner address
  (any bytes, also 0xFF: `PrefixEndBytes` of it is not `incLast`) followed by 0xFF-separated parts.
-/
import DymVerif.Lemmas.Keys
import DymVerif.Lemmas.Keys2
import DymVerif.Lemmas.Keys3
import DymVerif.Lemmas.KeysRange
namespace DymVerif.Keys
open DymVerif

/-- equal-length heads: `[A ++ x, A ++ y)` contains `B ++ z` exactly when `B = A` and `z ∈ [x, y)` -/
theorem eqlen_head_range (A B x y z : Bytes) (hl : A.length = B.length) :
    inRange (A ++ x) (A ++ y) (B ++ z) = (decide (B = A) && inRange x y z) := by
  have e1 := lexLt_append_eqlen B A z x hl.symm
  have e2 := lexLt_append_eqlen B A z y hl.symm
  simp only [inRange, lexLe, e1, e2]
  by_cases h : B = A
  · subst h; simp [lexLt_irrefl]
  · have hb : (B == A) = false := by simpa using h
    simp only [hb, Bool.false_and, Bool.or_false, h, decide_false]
    cases h1 : lexLt B A with
    | true => simp
    | false => simp

/-- owner scans bounded above by `PrefixEndBytes(Q ++ A)`: `[Q ++ A ++ FF ++ s, end)` contains
    `Q ++ B ++ FF ++ r` exactly when `B = A` and `s ≤ r` — for owners of equal length, any bytes -/
theorem eqlen_tail_range (Q A B s r : Bytes) (hl : A.length = B.length) (hQ : Bytes.WF Q) (hB : Bytes.WF B) :
    inRangeO (Q ++ A ++ 255 :: s) (prefixEnd (Q ++ A)) (Q ++ B ++ 255 :: r) = (decide (B = A) && lexLe s r) := by
  have hwf : Bytes.WF (Q ++ B) := by
    intro x hx
    rcases List.mem_append.mp hx with h | h
    · exact hQ x h
    · exact hB x h
  have hb := below_prefixEnd_eqlen (Q ++ A) (Q ++ B) (255 :: r) (by simp [hl]) hwf
  have e1 := lexLt_append_eqlen B A (255 :: r) (255 :: s) hl.symm
  rw [inRangeO_eq, hb]
  simp only [lexLe, List.append_assoc, lexLt_append_left, e1]
  have e3 : lexLt (255 :: r) (255 :: s) = lexLt r s := by simp [lexLt]
  rw [e3]
  by_cases h : B = A
  · subst h; simp [lexLt_irrefl]
  · have hb' : (B == A) = false := by simpa using h
    simp only [hb', Bool.false_and, Bool.or_false, h, decide_false, Bool.false_and]
    cases h1 : lexLt B A with
    | true => simp
    | false =>
      cases h2 : lexLt A B with
      | true => simp
      | false => exact absurd (lexLt_total_eq B A h1 h2) h

/-- equal-length heads: prefix match splits into equality of the heads and prefix match of the rest -/
theorem eqlen_isPrefix_head (A B x z : Bytes) (hl : A.length = B.length) :
    isPrefix (A ++ x) (B ++ z) = (decide (A = B) && isPrefix x z) := by
  induction A generalizing B with
  | nil => cases B with
    | nil => simp
    | cons _ _ => simp at hl
  | cons a as ih =>
    cases B with
    | nil => simp at hl
    | cons b bs =>
      have := ih bs (by simpa using hl)
      simp only [List.cons_append, isPrefix, this]
      by_cases hab : a = b
      · subst hab; simp
      · have : (a == b) = false := by simpa using hab
        simp [this, hab]

/-- 0xFF-separated parts without the byte 0xFF: prefix match splits at the separator -/
theorem sep_isPrefix (x x' k k' : Bytes) (hx : ∀ c ∈ x, c < 255) (hx' : ∀ c ∈ x', c < 255) :
    isPrefix (x ++ 255 :: k) (x' ++ 255 :: k') = (decide (x = x') && isPrefix k k') := by
  induction x generalizing x' with
  | nil =>
    cases x' with
    | nil => simp [isPrefix]
    | cons c cs =>
      have : c ≠ 255 := by have := hx' c (by simp); omega
      have h2 : (255 == c) = false := by simpa using this.symm
      simp [isPrefix, h2]
  | cons a as ih =>
    have ha : a ≠ 255 := by have := hx a (by simp); omega
    cases x' with
    | nil =>
      have h2 : (a == 255) = false := by simpa using ha
      simp [isPrefix, h2]
    | cons c cs =>
      have := ih cs (fun y hy => hx y (by simp [hy])) (fun y hy => hx' y (by simp [hy]))
      simp only [List.cons_append, isPrefix, this]
      by_cases hac : a = c
      · subst hac; simp
      · have : (a == c) = false := by simpa using hac
        simp [this, hac]

end DymVerif.Keys
