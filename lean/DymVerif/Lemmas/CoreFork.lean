/-
  Lemmas/CoreFork — frame lemmas for the hard fork: record lookup after `setRa` / `setSeq`, what the
  sequencer hook `seqOnHardFork` and `resetClock` touch, and the decomposition of an accepted
  `hardFork` into its post-state.
-/
import DymVerif.Lemmas.CoreCustody2
namespace DymVerif.Core.Fork

-- ---------------------------------------------------------------- record lookup

theorem getRa_congr {s s' : St} (e : s'.ras = s.ras) (id : Nat) : getRa s' id = getRa s id := by
  unfold getRa; rw [e]

theorem find_map_id (l : List Rollapp) (f : Rollapp → Rollapp) (hf : ∀ x, (f x).id = x.id) (id : Nat) :
    (l.map f).find? (·.id == id) = (l.find? (·.id == id)).map f := by
  induction l with
  | nil => rfl
  | cons x xs ih =>
    simp only [List.map_cons, List.find?_cons, hf]
    cases (x.id == id) with
    | true => rfl
    | false => exact ih

theorem getRa_setRa (s : St) (r : Rollapp) (id : Nat) :
    getRa (setRa s r) id = (getRa s id).map (fun x => if x.id == r.id then r else x) := by
  unfold getRa setRa
  dsimp only
  apply find_map_id
  intro x
  by_cases h : (x.id == r.id) = true
  · simp only [h, if_true]; exact (by simpa using h : x.id = r.id).symm
  · simp [h]

/-- writing a record back under its own id: it is what a lookup returns -/
theorem getRa_setRa_same {s : St} {r r0 : Rollapp} (hg : getRa s r.id = some r0) :
    getRa (setRa s r) r.id = some r := by
  rw [getRa_setRa, hg]
  have := getRa_id hg
  simp [this]

/-- … and the records of all other ids are untouched -/
theorem getRa_setRa_other {s : St} {r : Rollapp} {id : Nat} (hne : id ≠ r.id) :
    getRa (setRa s r) id = getRa s id := by
  rw [getRa_setRa]
  cases hg : getRa s id with
  | none => rfl
  | some x =>
    have := getRa_id hg
    have hx : (x.id == r.id) = false := by simp [this, hne]
    show some (if (x.id == r.id) = true then r else x) = some x
    rw [hx]; rfl

theorem getSeq_map (s : St) (f : Seq → Seq) (hf : ∀ x, (f x).addr = x.addr) (a : Addr) :
    getSeq { s with seqs := s.seqs.map f } a = (getSeq s a).map f := by
  unfold getSeq; exact find_map_addr _ f hf a

theorem getSeq_setSeq (s : St) (q : Seq) (a : Addr) :
    getSeq (setSeq s q) a = (getSeq s a).map (fun x => if x.addr == q.addr then q else x) := by
  unfold setSeq
  apply getSeq_map
  intro x
  by_cases h : (x.addr == q.addr) = true
  · simp only [h, if_true]; exact (by simpa using h : x.addr = q.addr).symm
  · simp [h]

-- ---------------------------------------------------------------- setProposer / setSuccessor

theorem setProposer_getRa_same {s : St} {ra : Nat} {r : Rollapp} {a : Option Addr} (hg : getRa s ra = some r) :
    getRa (setProposer s ra a) ra = some { r with proposer := a } := by
  have hid := getRa_id hg
  subst hid
  unfold setProposer
  rw [hg]
  exact getRa_setRa_same (r := { r with proposer := a }) hg

theorem setProposer_getRa_other {s : St} {ra id : Nat} {a : Option Addr} (hne : id ≠ ra) :
    getRa (setProposer s ra a) id = getRa s id := by
  unfold setProposer
  split
  · rfl
  · rename_i r hg
    have hid := getRa_id hg
    exact getRa_setRa_other (by show id ≠ r.id; rw [hid]; exact hne)

theorem setSuccessor_getRa_same {s : St} {ra : Nat} {r : Rollapp} {a : Option Addr} (hg : getRa s ra = some r) :
    getRa (setSuccessor s ra a) ra = some { r with successor := a } := by
  have hid := getRa_id hg
  subst hid
  unfold setSuccessor
  rw [hg]
  exact getRa_setRa_same (r := { r with successor := a }) hg

theorem setSuccessor_getRa_other {s : St} {ra id : Nat} {a : Option Addr} (hne : id ≠ ra) :
    getRa (setSuccessor s ra a) id = getRa s id := by
  unfold setSuccessor
  split
  · rfl
  · rename_i r hg
    have hid := getRa_id hg
    exact getRa_setRa_other (by show id ≠ r.id; rw [hid]; exact hne)

/-- the components of the state that the rollapp-record writers never touch -/
structure SameRest (s s' : St) : Prop where
  h : s'.h = s.h
  t : s'.t = s.t
  p : s'.p = s.p
  queue : s'.queue = s.queue
  seqH : s'.seqH = s.seqH
  lev : s'.lev = s.lev
  obsolete : s'.obsolete = s.obsolete
  bal : s'.bal = s.bal
  modBal : s'.modBal = s.modBal
  burned : s'.burned = s.burned

theorem SameRest.refl (s : St) : SameRest s s := ⟨rfl, rfl, rfl, rfl, rfl, rfl, rfl, rfl, rfl, rfl⟩

theorem SameRest.trans {s1 s2 s3 : St} (a : SameRest s1 s2) (b : SameRest s2 s3) : SameRest s1 s3 :=
  ⟨b.h.trans a.h, b.t.trans a.t, b.p.trans a.p, b.queue.trans a.queue, b.seqH.trans a.seqH, b.lev.trans a.lev,
   b.obsolete.trans a.obsolete, b.bal.trans a.bal, b.modBal.trans a.modBal, b.burned.trans a.burned⟩

theorem setProposer_rest (s : St) (ra : Nat) (a : Option Addr) : SameRest s (setProposer s ra a) := by
  unfold setProposer; split <;> exact ⟨rfl, rfl, rfl, rfl, rfl, rfl, rfl, rfl, rfl, rfl⟩

theorem setSuccessor_rest (s : St) (ra : Nat) (a : Option Addr) : SameRest s (setSuccessor s ra a) := by
  unfold setSuccessor; split <;> exact ⟨rfl, rfl, rfl, rfl, rfl, rfl, rfl, rfl, rfl, rfl⟩

theorem removeFromNoticeQueue_rest (s : St) (q : Seq) : SameRest s (removeFromNoticeQueue s q) := by
  unfold removeFromNoticeQueue; split <;> exact ⟨rfl, rfl, rfl, rfl, rfl, rfl, rfl, rfl, rfl, rfl⟩

theorem setProposer_nq (s : St) (ra : Nat) (a : Option Addr) : (setProposer s ra a).nq = s.nq := by
  unfold setProposer; split <;> rfl

theorem setSuccessor_nq (s : St) (ra : Nat) (a : Option Addr) : (setSuccessor s ra a).nq = s.nq := by
  unfold setSuccessor; split <;> rfl

-- ---------------------------------------------------------------- abruptRemoveProposer

theorem abruptRemoveProposer_rest (s : St) (ra : Nat) : SameRest s (abruptRemoveProposer s ra) := by
  unfold abruptRemoveProposer
  split
  · exact SameRest.refl s
  · split
    · exact SameRest.refl s
    · split
      · exact SameRest.refl s
      · rename_i q _
        exact ((removeFromNoticeQueue_rest s q).trans (show SameRest (removeFromNoticeQueue s q) (setSeq _ _) from
          ⟨rfl, rfl, rfl, rfl, rfl, rfl, rfl, rfl, rfl, rfl⟩)).trans (setProposer_rest _ _ _)

theorem abruptRemoveProposer_getRa_other {s : St} {ra id : Nat} (hne : id ≠ ra) :
    getRa (abruptRemoveProposer s ra) id = getRa s id := by
  unfold abruptRemoveProposer
  split
  · rfl
  · split
    · rfl
    · split
      · rfl
      · rename_i q _
        rw [setProposer_getRa_other hne]
        exact getRa_congr (by simp [removeFromNoticeQueue_ras]) id

/-- the rollapp record after the abrupt removal: only the proposer field may change; it becomes
    the sentinel unless the recorded proposer has no sequencer record (then nothing happens) -/
theorem abruptRemoveProposer_getRa_same {s : St} {ra : Nat} {r : Rollapp} (hg : getRa s ra = some r) :
    ∃ p', getRa (abruptRemoveProposer s ra) ra = some { r with proposer := p' } ∧
      (p' = none ∨ (p' = r.proposer ∧ ∃ a, r.proposer = some a ∧ getSeq s a = none)) := by
  unfold abruptRemoveProposer
  rw [hg]
  dsimp only
  split
  · rename_i hp
    exact ⟨none, by rw [hg]; cases r; simp_all, Or.inl rfl⟩
  · rename_i a hp
    split
    · rename_i hq
      exact ⟨r.proposer, by rw [hg], Or.inr ⟨rfl, a, hp, hq⟩⟩
    · rename_i q hq
      refine ⟨none, ?_, Or.inl rfl⟩
      apply setProposer_getRa_same
      rw [getRa_congr (s := s) (by simp [removeFromNoticeQueue_ras])]; exact hg

/-- the sequencer records after the abrupt removal: only the proposer's `bonded` flag changes -/
theorem abruptRemoveProposer_getSeq {s : St} {ra : Nat} {r : Rollapp} (hg : getRa s ra = some r) (a : Addr) :
    getSeq (abruptRemoveProposer s ra) a =
      (getSeq s a).map (fun q => if r.proposer = some a then { q with bonded := false } else q) := by
  unfold abruptRemoveProposer
  rw [hg]
  dsimp only
  split
  · rename_i hp
    simp [hp]
  · rename_i pa hp
    split
    · rename_i hq
      by_cases hpa : pa = a
      · subst hpa; rw [hq]; rfl
      · have : ¬ (r.proposer = some a) := by rw [hp]; intro hc; injection hc with hc; exact hpa hc
        simp [this]
    · rename_i q hq
      rw [getSeq_congr (setProposer_seqs _ _ _).1, getSeq_setSeq, getSeq_congr (removeFromNoticeQueue_seqs s q).1]
      have hqa := getSeq_addr hq
      by_cases hpa : pa = a
      · subst hpa
        rw [hq, hp]
        simp [hqa]
      · have hne : ¬ (r.proposer = some a) := by rw [hp]; intro hc; injection hc with hc; exact hpa hc
        simp only [hne, if_false]
        cases hx : getSeq s a with
        | none => rfl
        | some x =>
          have hxa := getSeq_addr hx
          have : (x.addr == q.addr) = false := by simp [hxa, hqa]; exact fun hc => hpa hc.symm
          show some (if (x.addr == q.addr) = true then { q with bonded := false } else x) = some x
          rw [this]; rfl

theorem abruptRemoveProposer_nq_sub (s : St) (ra : Nat) : ∀ e ∈ (abruptRemoveProposer s ra).nq, e ∈ s.nq := by
  unfold abruptRemoveProposer
  intro e he
  split at he
  · exact he
  · split at he
    · exact he
    · split at he
      · exact he
      · rename_i q _
        rw [setProposer_nq] at he
        have he : e ∈ (removeFromNoticeQueue s q).nq := he
        unfold removeFromNoticeQueue at he
        split at he
        · exact (List.mem_filter.1 he).1
        · exact he

/-- only notice-queue entries of the removed proposer disappear -/
theorem abruptRemoveProposer_nq_keep {s : St} {ra : Nat} {r : Rollapp} (hg : getRa s ra = some r) :
    ∀ e ∈ s.nq, r.proposer ≠ some e.2 → e ∈ (abruptRemoveProposer s ra).nq := by
  intro e he hne
  unfold abruptRemoveProposer
  rw [hg]
  dsimp only
  split
  · exact he
  · rename_i pa hp
    split
    · exact he
    · rename_i q hq
      rw [setProposer_nq]
      show e ∈ (removeFromNoticeQueue s q).nq
      unfold removeFromNoticeQueue
      split
      · apply List.mem_filter.2
        refine ⟨he, ?_⟩
        have hqa := getSeq_addr hq
        have : e.2 ≠ q.addr := by
          intro hc; apply hne; rw [hp, hc, hqa]
        simp [this]
      · exact he

-- ---------------------------------------------------------------- seqOnHardFork

theorem optOutAll_rest (s : St) (ra : Nat) : SameRest s (optOutAll s ra) :=
  ⟨rfl, rfl, rfl, rfl, rfl, rfl, rfl, rfl, rfl, rfl⟩

theorem optOutAll_getSeq (s : St) (ra : Nat) (a : Addr) :
    getSeq (optOutAll s ra) a = (getSeq s a).map (fun q => if q.rollapp == ra then { q with optedIn := false } else q) := by
  unfold optOutAll
  apply getSeq_map
  intro x; split <;> rfl

theorem seqOnHardFork_rest (s : St) (ra : Nat) : SameRest s (seqOnHardFork s ra) := by
  unfold seqOnHardFork
  exact ((optOutAll_rest s ra).trans (abruptRemoveProposer_rest _ _)).trans (setSuccessor_rest _ _ _)

theorem seqOnHardFork_getRa_other {s : St} {ra id : Nat} (hne : id ≠ ra) :
    getRa (seqOnHardFork s ra) id = getRa s id := by
  unfold seqOnHardFork
  rw [setSuccessor_getRa_other hne, abruptRemoveProposer_getRa_other hne]
  exact getRa_congr rfl id

/-- the forked rollapp's record after the sequencer hook: successor cleared, proposer := sentinel
    (unless the recorded proposer has no sequencer record), every other field as before -/
theorem seqOnHardFork_getRa_same {s : St} {ra : Nat} {r : Rollapp} (hg : getRa s ra = some r) :
    ∃ p', getRa (seqOnHardFork s ra) ra = some { r with proposer := p', successor := none } ∧
      (p' = none ∨ (p' = r.proposer ∧ ∃ a, r.proposer = some a ∧ getSeq s a = none)) := by
  unfold seqOnHardFork
  have hg1 : getRa (optOutAll s ra) ra = some r := (getRa_congr (s := s) (s' := optOutAll s ra) rfl ra).trans hg
  obtain ⟨p', h1, h2⟩ := abruptRemoveProposer_getRa_same hg1
  refine ⟨p', setSuccessor_getRa_same h1, ?_⟩
  rcases h2 with h2 | ⟨h2, a, h3, h4⟩
  · exact Or.inl h2
  · refine Or.inr ⟨h2, a, h3, ?_⟩
    rw [optOutAll_getSeq] at h4
    cases hx : getSeq s a with
    | none => rfl
    | some x => rw [hx] at h4; cases h4

/-- every sequencer record after the hook: opted out if it belongs to the rollapp, unbonded if it
    was the proposer, nothing else changes (in particular not the bond) -/
theorem seqOnHardFork_getSeq {s : St} {ra : Nat} {r : Rollapp} (hg : getRa s ra = some r) (a : Addr) :
    getSeq (seqOnHardFork s ra) a =
      (getSeq s a).map (fun q => { q with optedIn := if q.rollapp == ra then false else q.optedIn,
                                          bonded := if r.proposer = some a then false else q.bonded }) := by
  unfold seqOnHardFork
  have hg1 : getRa (optOutAll s ra) ra = some r := (getRa_congr (s := s) (s' := optOutAll s ra) rfl ra).trans hg
  rw [getSeq_congr (setSuccessor_seqs _ _ _).1, abruptRemoveProposer_getSeq hg1, optOutAll_getSeq]
  cases getSeq s a with
  | none => rfl
  | some q =>
    simp only [Option.map_some]
    congr 1
    by_cases h1 : (q.rollapp == ra) = true <;> by_cases h2 : r.proposer = some a <;> simp [h1, h2]

theorem seqOnHardFork_nq_sub (s : St) (ra : Nat) : ∀ e ∈ (seqOnHardFork s ra).nq, e ∈ s.nq := by
  unfold seqOnHardFork
  intro e he
  rw [setSuccessor_nq] at he
  exact abruptRemoveProposer_nq_sub (optOutAll s ra) ra e he

theorem seqOnHardFork_nq_keep {s : St} {ra : Nat} {r : Rollapp} (hg : getRa s ra = some r) :
    ∀ e ∈ s.nq, r.proposer ≠ some e.2 → e ∈ (seqOnHardFork s ra).nq := by
  intro e he hne
  unfold seqOnHardFork
  rw [setSuccessor_nq]
  have hg1 : getRa (optOutAll s ra) ra = some r := (getRa_congr (s := s) (s' := optOutAll s ra) rfl ra).trans hg
  exact abruptRemoveProposer_nq_keep hg1 e he hne

-- ---------------------------------------------------------------- hardFork: decomposition of an accepted fork

/-- the state right after `RevertPendingStates`, pruning and the liveness-clock reset, before the
    sequencer hook runs -/
def forkMid (s : St) (ra : Nat) (r : Rollapp) (keep : Nat) (kst : SInfo) : St :=
  setRa { s with queue := removeIdxAbove s.queue ra keep,
                 seqH := pruneSeqHeights s.seqH (kst.creator :: (r.states.drop keep).map (·.creator)) kst.last,
                 lev := delEvent s.lev r.evH r.id }
        { forkedRollapp r keep kst with evH := 0, cdStart := s.h }

/-- an accepted fork went through every gate and its result is the sequencer hook applied to `forkMid` -/
theorem hardFork_ok_elim {s s' : St} {ra lv : Nat} (e : hardFork s ra lv = .ok s') :
    ∃ r keep kst, getRa s ra = some r ∧ 0 < r.tph ∧ r.tph ≤ lv ∧ (lv + 1) % 2 ^ 64 ≠ 0 ∧
      revertPlan r ((lv + 1) % 2 ^ 64) = .ok (keep, kst) ∧ s' = seqOnHardFork (forkMid s ra r keep kst) ra := by
  unfold hardFork at e
  split at e
  · cases e
  · rename_i r hg
    split at e
    · cases e
    · rename_i htph
      split at e
      · cases e
      · rename_i hn
        split at e
        · cases e
        · rename_i keep kst hplan
          dsimp only at e
          injection e with e
          have ht : ¬ r.tph = 0 ∧ r.tph ≤ lv := by simpa using htph
          exact ⟨r, keep, kst, hg, by omega, ht.2, hn, hplan, e.symm⟩

/-- the same with the rollapp record and the plan named by the caller -/
theorem hardFork_ok_eq {s s' : St} {ra lv keep : Nat} {r : Rollapp} {kst : SInfo} (hg : getRa s ra = some r)
    (hplan : revertPlan r ((lv + 1) % 2 ^ 64) = .ok (keep, kst)) (e : hardFork s ra lv = .ok s') :
    s' = seqOnHardFork (forkMid s ra r keep kst) ra := by
  obtain ⟨r1, keep1, kst1, hg1, _, _, _, hplan1, hs⟩ := hardFork_ok_elim e
  rw [hg] at hg1; injection hg1 with hg1; subst hg1
  rw [hplan] at hplan1; injection hplan1 with h1; injection h1 with h1 h2; subst h1; subst h2
  exact hs

theorem forkMid_getRa_same {s : St} {ra keep : Nat} {r : Rollapp} {kst : SInfo} (hg : getRa s ra = some r) :
    getRa (forkMid s ra r keep kst) ra = some { forkedRollapp r keep kst with evH := 0, cdStart := s.h } := by
  have hid := getRa_id hg
  subst hid
  unfold forkMid
  exact getRa_setRa_same (r0 := r) (show getRa _ r.id = some r from hg)

theorem forkMid_getRa_other {s : St} {ra keep id : Nat} {r : Rollapp} {kst : SInfo} (hg : getRa s ra = some r)
    (hne : id ≠ ra) : getRa (forkMid s ra r keep kst) id = getRa s id := by
  unfold forkMid
  rw [getRa_setRa_other (by show id ≠ r.id; rw [getRa_id hg]; exact hne)]
  exact getRa_congr rfl id

theorem forkMid_getSeq (s : St) (ra keep : Nat) (r : Rollapp) (kst : SInfo) (a : Addr) :
    getSeq (forkMid s ra r keep kst) a = getSeq s a := getSeq_congr rfl a

-- ---------------------------------------------------------------- entry points

theorem hardForkToLatest_ok_elim {s s' : St} {ra : Nat} (e : hardForkToLatest s ra = .ok s') :
    ∃ r lh, getRa s ra = some r ∧ latestHeight r = some lh ∧ hardFork s ra lh = .ok s' := by
  unfold hardForkToLatest at e
  split at e
  · cases e
  · rename_i r hg
    split at e
    · cases e
    · rename_i lh hl
      exact ⟨r, lh, hg, hl, e⟩

end DymVerif.Core.Fork
