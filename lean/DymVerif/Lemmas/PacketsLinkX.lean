/-
  Lemmas/PacketsLinkX — the strengthened order/packet link of M-Packets, for all operation sequences:
  every PENDING demand order tracks a stored pending packet whose key is the order's id AND the
  order's ghost fields are the packet's: `amount`, `withBf` (received packet), the recipient is the
  packet's original transfer target, and the order is fulfilled iff the packet has been redirected.

  Finalized orders are left out on purpose: a finalized packet's key can only be shown collision free
  with an extra invariant (finalized ⇒ logged) that `Inv04` does not carry.  Key collisions between a
  freshly recorded acknowledgement / timeout packet and a stored one are excluded with `IdxInv` and
  `BoundedOp`, as in Props/C04's by-address theorem; a received packet needs neither (its new order
  replaces whatever order sat on the key).
-/
import DymVerif.Lemmas.PacketsOrders
import DymVerif.Lemmas.PacketsIndex
namespace DymVerif.Packets
open DymVerif DymVerif.Keys

/-- the order `o` tracks the pending packet `p` and its ghost fields are `p`'s -/
structure LinkP (p : Packet) (o : Order) : Prop where
  key : pkey p = o.trackingKey
  pend : p.status = .pending
  id : pkey p = o.id
  amount : o.amount = p.amount
  withBf : o.withBf = (p.ptype == .onRecv)
  recipient : o.recipient = p.orig.getD p.target
  fulfiller : o.fulfiller.isSome ↔ p.orig.isSome
  nofwd : p.fwd = none      -- a packet the packet-forward middleware sent never has an order

def OrderLinkedX (pk : List Packet) (o : Order) : Prop := ∃ p ∈ pk, LinkP p o

def InvX (s : St) : Prop := ∀ o ∈ s.orders, o.status = .pending → OrderLinkedX s.packets o

theorem invX_congr {s s' : St} (ho : s'.orders = s.orders) (hp : s'.packets = s.packets) (h : InvX s) : InvX s' := by
  unfold InvX at *; rw [ho, hp]; exact h

theorem invX_oframe {s s' : St} (f : OFrame s s') (h : InvX s) : InvX s' := invX_congr f.orders f.packets h

theorem invX_setOrder {s : St} (h : InvX s) (o : Order) (hl : o.status = .pending → OrderLinkedX s.packets o) :
    InvX (setOrder s o) := by
  intro q hq hs
  rcases mem_setOrder.mp hq with rfl | ⟨hq', _⟩
  · exact hl hs
  · exact h q hq' hs

theorem invX_setPacket {s : St} (h : InvX s) (p : Packet)
    (hcol : ∀ o ∈ s.orders, o.status = .pending → ∀ q ∈ s.packets, LinkP q o → pkey q = pkey p → LinkP p o) :
    InvX (setPacket s p) := by
  intro o ho hs
  have ho' : o ∈ s.orders := ho
  obtain ⟨q, hq, hl⟩ := h o ho' hs
  by_cases hk : pkey q = pkey p
  · exact ⟨p, mem_setPacket.mpr (Or.inl rfl), hcol o ho' hs q hq hl hk⟩
  · exact ⟨q, mem_setPacket.mpr (Or.inr ⟨hq, hk⟩), hl⟩

theorem invX_setPacket_fresh {s : St} (h : InvX s) (p : Packet) (a : Addr) (k : Bytes)
    (fresh : ∀ q ∈ s.packets, pkey q ≠ pkey p) : InvX (setPacket (addByAddr s a k) p) :=
  invX_setPacket (s := addByAddr s a k) h p (fun _ _ _ q hq _ hk => absurd hk (fresh q hq))

/-- `DeleteRollappPacket` + `AfterPacketDeleted` -/
theorem invX_deletePacket {s : St} (p : Packet) (h : InvX s) : InvX (deletePacket s p) := by
  unfold deletePacket
  intro o ho hs
  obtain ⟨ho1, _⟩ := mem_delOrder.mp ho
  obtain ⟨ho2, hp⟩ := mem_delOrder.mp ho1
  have ho3 : o ∈ s.orders := ho2
  obtain ⟨q, hq, hl⟩ := h o ho3 hs
  refine ⟨q, ?_, hl⟩
  show q ∈ (delPacket s (pkey p)).packets
  refine mem_delPacket.mpr ⟨hq, ?_⟩
  intro hk
  obtain ⟨_, e2⟩ := pkey_eq_parts hk
  apply hp
  refine ⟨hs, ?_⟩
  rw [← hl.id, ← pendKeyOf_of_pending hl.pend, e2]

theorem invX_foldl_deletePacket : ∀ (l : List Packet) {s : St}, InvX s → InvX (l.foldl deletePacket s)
  | [], _, h => h
  | p :: rest, _, h => invX_foldl_deletePacket rest (invX_deletePacket p h)

theorem invX_revertPacket {s : St} (p : Packet) (h : InvX s) : InvX (revertPacket s p) := by
  unfold revertPacket
  apply invX_deletePacket
  unfold revertIbc
  split <;> exact h

theorem invX_foldl_revertPacket : ∀ (l : List Packet) {s : St}, InvX s → InvX (l.foldl revertPacket s)
  | [], _, h => h
  | p :: rest, _, h => invX_foldl_revertPacket rest (invX_revertPacket p h)

/-- a new pending packet is stored and gets its demand order: whatever order sat on the key is replaced -/
theorem invX_record_order {s : St} (h : InvX s) (p : Packet) (hs : p.status = .pending) (ho : p.orig = none)
    (hfw : p.fwd = none) (a : Addr) (k : Bytes) (s1 : St) (price fee : Int) :
    InvX (setOrder (setPacket (addByAddr s a k) p) (newOrder s1 p price fee p.target)) := by
  intro o hmem hst
  rcases mem_setOrder.mp hmem with rfl | ⟨hq', hne⟩
  · refine ⟨p, mem_setPacket.mpr (Or.inl rfl), ⟨rfl, hs, rfl, rfl, rfl, ?_, ?_, hfw⟩⟩
    · show p.target = p.orig.getD p.target
      rw [ho]; rfl
    · show (none : Option Addr).isSome ↔ p.orig.isSome
      rw [ho]
  · have hq'' : o ∈ s.orders := hq'
    obtain ⟨q, hq, hl⟩ := h o hq'' hst
    refine ⟨q, mem_setPacket.mpr (Or.inr ⟨hq, ?_⟩), hl⟩
    intro hk
    exact hne ⟨hst, (hl.id.symm.trans hk : o.id = pkey p)⟩

theorem invX_eibcOnRecv {s s' : St} {p : Packet} {m : Memo} {a : Addr} {k : Bytes} (h : InvX s)
    (hs : p.status = .pending) (ho : p.orig = none) (hfw : p.fwd = none)
    (he : eibcOnRecv (setPacket (addByAddr s a k) p) p m = .ok s') : InvX s' := by
  unfold eibcOnRecv at he
  split at he
  · cases he
  · split at he
    · cases he
    · split at he
      · cases he
      · cases he
        exact invX_record_order h p hs ho hfw a k _ _ _

theorem invX_eibcOnRefund {s s' : St} {p : Packet} {a : Addr} {k : Bytes} (h : InvX s)
    (hs : p.status = .pending) (ho : p.orig = none) (hfw : p.fwd = none) (fresh : ∀ q ∈ s.packets, pkey q ≠ pkey p)
    (he : eibcOnRefund (setPacket (addByAddr s a k) p) p = .ok s') : InvX s' := by
  unfold eibcOnRefund at he
  split at he
  · cases he; exact invX_setPacket_fresh h p a k fresh
  · split at he
    · cases he
    · cases he
      exact invX_record_order h p hs ho hfw a k _ _ _

theorem oframe_sendOpen {s s' : St} {a c d amt} (hs : sendOpen s a c d amt = .ok s') : OFrame s s' := by
  unfold sendOpen at hs
  split at hs
  · cases hs
  · split at hs
    · cases hs
    · split at hs
      · cases hs
      · cases hs
        unfold recordSent lockCoins
        split <;> exact ⟨rfl, rfl, rfl, rfl⟩

theorem invX_recvAuth {s0 : St} (c seq ph : Nat) (d : RecvData) (h0 : InvX s0) : InvX (recvAuth s0 c seq ph d).1 := by
  have hfail : InvX (recvFail s0 c seq).1 := h0
  unfold recvAuth
  split
  · exact hfail
  · split
    · exact hfail
    · split
      · exact hfail
      · split
        · unfold recvPass
          split
          · exact hfail
          · rename_i s1 hi
            exact invX_oframe ((oframe_icsRecv hi).trans ⟨rfl, rfl, rfl, rfl⟩) h0
        · unfold recvDelay
          split
          · exact hfail
          · split
            · exact hfail
            · rename_i s2 he
              exact invX_eibcOnRecv h0 rfl rfl rfl he

theorem invX_recvForward {s0 : St} (c seq ph : Nat) (d : RecvData) (k : Nat) (h0 : InvX s0) :
    InvX (recvForward s0 c seq ph d k).1 := by
  have hfail : InvX (recvFail s0 c seq).1 := h0
  unfold recvForward
  have ha := invX_recvAuth c seq ph { d with target := some (pfmAddr c), memo := .none } h0
  split
  · rename_i s1 hr
    rw [hr] at ha
    split
    · rename_i s2 hs
      have h1 : InvX { s1 with acks := s0.acks } := ha
      exact (invX_oframe (oframe_sendOpen (sendTransfer_ok hs)) h1 : InvX s2)
    · exact hfail
  · exact hfail

theorem invX_recvOpen {s : St} (c seq ph : Nat) (d : RecvData) (h : InvX s) : InvX (recvOpen s c seq ph d).1 := by
  unfold recvOpen
  split
  · exact h
  · have h0 : InvX { s with receipts := s.receipts ++ [(c, seq)] } := h
    split
    · exact invX_recvForward c seq ph d _ h0
    · exact invX_recvAuth c seq ph d h0

theorem invX_ackOpen {s s' : St} {c seq ph : Nat} {isTimeout isErr : Bool} (h4 : Inv04 s) (hi : IdxInv s) (h : InvX s)
    (hph : ph < 2 ^ 64) (hseq : seq < 2 ^ 64) (ha : ackOpen s c seq ph isTimeout isErr = .ok (some s')) : InvX s' := by
  unfold ackOpen at ha
  split at ha
  · cases ha
  · rename_i hc
    have hmem : (c, seq) ∈ s.commits := by simpa using hc
    have hnp : ¬ pendL s.packets (false, c, seq) := fun hp => (InvF.snt h4 c seq (Or.inr hp)).1 hmem
    split at ha
    · cases ha
    · rename_i x hx
      obtain ⟨rfl, rfl⟩ := getSent_some hx
      generalize hs0 : ({ s with commits := s.commits.filter (· != (x.chan, x.seq)) } : St) = s0 at ha
      have f0 : IFrame s s0 := by subst hs0; exact ⟨rfl, rfl, rfl, rfl⟩
      have i0 : IdxInv s0 := IdxInv.of_frame f0 hi
      have h0 : InvX s0 := by subst hs0; exact h
      unfold ackAuth at ha
      split at ha
      · cases ha
      · rename_i ra hra
        split at ha
        · unfold ackPass at ha
          split at ha
          · split at ha
            · cases ha
            · rename_i s1 hi1
              cases ha
              exact invX_oframe ((oframe_icsRefund hi1).trans ⟨rfl, rfl, rfl, rfl⟩) h0
          · cases ha; exact invX_oframe ⟨rfl, rfl, rfl, rfl⟩ h0
        · rename_i hdel
          obtain ⟨rid, hrid⟩ : ∃ rid, ra = some rid := by
            cases ra with
            | none => simp at hdel
            | some r => exact ⟨r, rfl⟩
          subst hrid
          have hP : PktOk s0 (mkSentPacket s0 x (sentType isTimeout) ph ((some rid).getD []) (!isTimeout && isErr)) := by
            refine ⟨hra, ?_, hph, hseq, by cases isTimeout <;> simp [mkSentPacket, sentType]⟩
            simp [mkSentPacket, sentType_ne_recv]
          have fresh : ∀ q ∈ s0.packets,
              pkey q ≠ pkey (mkSentPacket s0 x (sentType isTimeout) ph ((some rid).getD []) (!isTimeout && isErr)) := by
            intro q hq hk
            obtain ⟨hu, hst⟩ := key_determines_uid i0.cfg hP (i0.pk q hq) hk
            rw [f0.packets] at hq
            rw [mkSentPacket_uid] at hu
            exact hnp ⟨q, hq, hst, hu⟩
          unfold ackDelay at ha
          split at ha
          · cases ha
          · split at ha
            · rename_i hrf
              have hfw : (mkSentPacket s0 x (sentType isTimeout) ph ((some rid).getD []) (!isTimeout && isErr)).fwd = none := by
                simp only [Bool.and_eq_true, Option.isNone_iff_eq_none] at hrf
                exact hrf.2
              split at ha
              · cases ha
              · rename_i s2 he
                cases ha
                exact invX_eibcOnRefund h0 rfl rfl hfw fresh (eibcRefundHandler_ok he)
            · cases ha
              exact invX_setPacket_fresh h0 _ _ _ fresh

/-- finalization: the packet's pending key goes, its order (if any) turns FINALIZED; the other pending
    orders keep their packets -/
theorem invX_finalizePacket {s s' : St} {k : Bytes} (h : InvX s) (hk : KeysNodup s.packets)
    (hf : finalizePacket s k = .ok s') : InvX s' := by
  unfold finalizePacket at hf
  split at hf
  · cases hf
  · rename_i p hp
    obtain ⟨hmem, -⟩ := getPacket_some hp
    split at hf
    · cases hf
    · unfold updateAfterFinalization at hf
      split at hf
      · cases hf
      · rename_i hst
        cases hf
        generalize hp1 : finalizedRecord p (releaseEffect s p).2 = p1
        have k1 : pkey p1 = pkey p := by rw [← hp1]; exact pkey_finalizedRecord p _
        generalize hsA : logRelease (releaseEffect s p).1 p (some p.rollappId) true = sA
        have eA_pk : sA.packets = s.packets := by
          rw [← hsA]; exact (oframe_releaseEffect s p).packets
        have eA_or : sA.orders = s.orders := by
          rw [← hsA]; exact (oframe_releaseEffect s p).orders
        rw [k1]
        unfold afterPacketStatusUpdated
        generalize hsB : setPacket (delPacket (delByAddr sA p1.target (pkey p)) (pkey p)) (flipped p1) = sB
        have eB_os : sB.orders = s.orders := by rw [← hsB]; exact eA_or
        have keep : ∀ o ∈ s.orders, o.status = .pending → o.id ≠ pkey p → OrderLinkedX sB.packets o := by
          intro o ho hs hne
          obtain ⟨q, hq, hl⟩ := h o ho hs
          refine ⟨q, ?_, hl⟩
          rw [← hsB]
          refine mem_setPacket.mpr (Or.inr ⟨mem_delPacket.mpr ⟨?_, ?_⟩, ?_⟩)
          · show q ∈ sA.packets
            rw [eA_pk]; exact hq
          · intro hqp
            have : q = p := keysNodup_eq hk hmem hq hqp
            subst this
            exact hne hl.id.symm
          · intro hqf
            have := (pkey_eq_parts hqf).1
            rw [hl.pend] at this
            simp [flipped] at this
        split
        · rename_i hgo
          intro o ho hs
          rw [eB_os] at ho
          apply keep o ho hs
          intro e2
          unfold getOrder at hgo
          rw [eB_os] at hgo
          have := List.find?_eq_none.mp hgo o ho
          simp [hs, e2] at this
        · rename_i o0 hgo
          obtain ⟨_, _, hi0⟩ := getOrder_some hgo
          intro o ho hs
          rcases mem_setOrder.mp ho with rfl | ⟨ho1, _⟩
          · simp at hs
          · obtain ⟨ho2, hne⟩ := mem_delOrder.mp ho1
            rw [eB_os] at ho2
            exact keep o ho2 hs (fun e => hne ⟨hs, e.trans hi0.symm⟩)

/-- `SetOrderFulfilled` + `AfterDemandOrderFulfilled` of an unfulfilled pending order: the order gets
    its fulfiller, the packet is redirected and remembers the original target -/
theorem invX_setOrderFulfilled {s s' : St} {o : Order} {f : Addr} {c : Option Addr} (h : InvX s) (hk : KeysNodup s.packets)
    (ho : o ∈ s.orders) (hs : o.status = .pending) (hf : o.fulfiller = none)
    (hu : setOrderFulfilled s o f c = .ok s') : InvX s' := by
  unfold setOrderFulfilled at hu
  obtain ⟨p, hp, _, rfl⟩ := updateTransferAddress_ok hu
  obtain ⟨hpm, hpk⟩ := getPacket_some hp
  have hpm' : p ∈ s.packets := hpm
  obtain ⟨p0, hp0, hl0⟩ := h o ho hs
  have e0 : p0 = p := keysNodup_eq hk hpm' hp0 (hl0.key.trans hpk.symm)
  have hl : LinkP p o := e0 ▸ hl0
  have horig : p.orig = none := by
    have := hl.fulfiller
    rw [hf] at this
    cases hh : p.orig with
    | none => rfl
    | some x => rw [hh] at this; simp at this
  intro q hq hqs
  have hq' : q ∈ (setOrder s { o with fulfiller := some f }).orders := hq
  rcases mem_setOrder.mp hq' with rfl | ⟨hq1, hne⟩
  · refine ⟨retarget p (c.getD f), mem_setPacket.mpr (Or.inl rfl),
      ⟨hl.key, hl.pend, hl.id, hl.amount, hl.withBf, ?_, ?_, hl.nofwd⟩⟩
    · show o.recipient = (some p.target).getD (c.getD f)
      rw [hl.recipient, horig]; rfl
    · show (some f).isSome ↔ (some p.target).isSome
      simp
  · obtain ⟨r, hr, hlr⟩ := h q hq1 hqs
    refine ⟨r, mem_setPacket.mpr (Or.inr ⟨hr, ?_⟩), hlr⟩
    intro hkr
    have : r = p := keysNodup_eq hk hpm' hr hkr
    subst this
    exact hne ⟨hqs.trans hs.symm, hlr.id.symm.trans hl.id⟩

theorem invX_fulfillCore {s s' : St} {o : Order} {f : Addr} (h : InvX s) (hk : KeysNodup s.packets)
    (ho : o ∈ s.orders) (hs : o.status = .pending) (hf : o.fulfiller = none)
    (hu : fulfillCore s o f = .ok s') : InvX s' := by
  unfold fulfillCore at hu
  split at hu
  · cases hu
  · split at hu
    · cases hu
    · rename_i s1 hsc
      have f1 := oframe_sendCoins hsc
      exact invX_setOrderFulfilled (invX_oframe f1 h) (by rw [f1.packets]; exact hk) (by rw [f1.orders]; exact ho) hs hf hu

theorem outstanding_pending {s : St} {id : Bytes} {o : Order} (h : getOutstanding s id = .ok o) :
    o ∈ s.orders ∧ o.status = .pending ∧ o.fulfiller = none := by
  obtain ⟨hgo, hf, _⟩ := getOutstanding_ok h
  obtain ⟨hm, hs, _⟩ := getOrder_some hgo
  exact ⟨hm, hs, hf⟩

theorem invX_msgFulfill {s s' : St} {a id fee} (h : InvX s) (hk : KeysNodup s.packets)
    (hu : msgFulfill s a id fee = .ok s') : InvX s' := by
  obtain ⟨o, ho, _, hc⟩ := msgFulfill_ok hu
  obtain ⟨hm, hs, hf⟩ := outstanding_pending ho
  exact invX_fulfillCore h hk hm hs hf hc

theorem invX_msgOnDemand {s s' : St} {id perm} (h : InvX s) (hk : KeysNodup s.packets)
    (hu : msgOnDemand s id perm = .ok s') : InvX s' := by
  obtain ⟨o, ho, l0, _, s1, s2, hd, hc, rfl⟩ := msgOnDemand_ok hu
  obtain ⟨hm, hs, hf⟩ := outstanding_pending ho
  have h1 : InvX s1 := by rw [hd.eq]; exact h
  have hk1 : KeysNodup s1.packets := by rw [hd.eq]; exact hk
  have ho1 : o ∈ s1.orders := by rw [hd.eq]; exact hm
  exact invX_congr (s := s2) rfl rfl (invX_fulfillCore h1 hk1 ho1 hs hf hc)

theorem invX_fulfillAuthorizedCore {s s' : St} {m : AuthMsg} (h : InvX s) (hk : KeysNodup s.packets)
    (hu : fulfillAuthorizedCore s m = .ok s') : InvX s' := by
  obtain ⟨o, ho, _, s1, s2, hs1, hs2, hfu⟩ := fulfillAuthorizedCore_ok hu
  obtain ⟨hm, hs, hf⟩ := outstanding_pending ho
  have f := (oframe_sendCoins hs1).trans (oframe_payOperator hs2)
  exact invX_setOrderFulfilled (invX_oframe f h) (by rw [f.packets]; exact hk) (by rw [f.orders]; exact hm) hs hf hfu

theorem invX_msgFulfillAuthorized {s s' : St} {g m} (h : InvX s) (hk : KeysNodup s.packets)
    (hu : msgFulfillAuthorized s g m = .ok s') : InvX s' := by
  obtain ⟨_, hcase⟩ := msgFulfillAuthorized_ok hu
  rcases hcase with ⟨_, hc⟩ | ⟨_, gr, r, _, _, hc⟩
  · exact invX_fulfillAuthorizedCore h hk hc
  · cases r with
    | none => exact invX_fulfillAuthorizedCore (s := delGrant s m.lp g) h hk hc
    | some g' => exact invX_fulfillAuthorizedCore (s := setGrant s g') h hk hc

theorem invX_msgUpdateFee {s s' : St} {a id fee} (h : InvX s) (hk : KeysNodup s.packets)
    (hu : msgUpdateFee s a id fee = .ok s') : InvX s' := by
  obtain ⟨_, o, p, price, ho, _, hp, _, rfl⟩ := msgUpdateFee_ok hu
  obtain ⟨hom, hs, _⟩ := outstanding_pending ho
  obtain ⟨hpm, hpk⟩ := getPacket_some hp
  obtain ⟨p0, hp0, hl0⟩ := h o hom hs
  have e0 : p0 = p := keysNodup_eq hk hpm hp0 (hl0.key.trans hpk.symm)
  have hl : LinkP p o := e0 ▸ hl0
  exact invX_setOrder h _ (fun _ => ⟨p, hpm, ⟨hl.key, hl.pend, hl.id, rfl, rfl, hl.recipient, hl.fulfiller, hl.nofwd⟩⟩)

theorem invX_msgDeleteLps {owner : Addr} : ∀ (ids : List Nat) {s s' : St}, InvX s → msgDeleteLps s owner ids = .ok s' → InvX s'
  | [], s, s', h, hu => by unfold msgDeleteLps at hu; cases hu; exact h
  | id :: rest, s, s', h, hu => by
    unfold msgDeleteLps at hu
    split at hu
    · exact invX_msgDeleteLps rest h hu
    · split at hu
      · cases hu
      · exact invX_msgDeleteLps rest (s := delLp s id) h hu

theorem invX_forkRollapp {s s' : St} {rid lv} (h : InvX s) (hf : forkRollapp s rid lv = .ok s') : InvX s' := by
  unfold forkRollapp at hf
  split at hf
  · cases hf
  · split at hf
    · cases hf
    · split at hf
      · cases hf
      · split at hf
        · cases hf
        · cases hf
          exact invX_foldl_revertPacket _ (s := setRa s _) h

theorem invX_ofM {s : St} {m : M St} (h : InvX s) (hm : ∀ s', m = .ok s' → InvX s') : InvX (ofM s m).1 := by
  cases m with
  | ok s' => exact hm s' rfl
  | error e => exact h

theorem invX_step {s : St} (o : Op) (hb : BoundedOp o) (h4 : Inv04 s) (hi : IdxInv s) (h : InvX s) : InvX (step s o).1 := by
  have hk : KeysNodup s.packets := InvF.keys h4
  cases o with
  | recv c seq ph d =>
    show InvX (recvPacket s c seq ph d).1
    rcases recvPacket_cases s c seq ph d with e | e <;> rw [e]
    · exact h
    · exact invX_recvOpen c seq ph d h
  | send a c d amt => exact invX_ofM h (fun _ e => invX_oframe (oframe_sendOpen (sendTransfer_ok e)) h)
  | ack c seq ph isErr =>
    simp only [step]
    split
    · exact h
    · rename_i s' e; exact invX_ackOpen h4 hi h hb.1 hb.2 (ackPacket_ok e)
    · exact h
  | timeout c seq ph =>
    simp only [step]
    split
    · exact h
    · rename_i s' e; exact invX_ackOpen h4 hi h hb.1 hb.2 (ackPacket_ok e)
    · exact h
  | chanClose c => exact invX_ofM h (fun _ e => invX_oframe (oframe_setChanClosed e) h)
  | chanOpen c => exact invX_ofM h (fun _ e => invX_oframe (oframe_setChanClosed e) h)
  | timeoutOnClose c seq => exact invX_ofM h (fun _ e => by unfold timeoutOnClose at e; split at e <;> cases e; exact h)
  | sendBlk a c d amt =>
    exact invX_ofM h (fun _ e => by
      obtain ⟨s1, hs, rfl⟩ := sendBlk_ok e
      exact (invX_oframe (oframe_sendOpen hs) h : InvX s1))
  | finalize a rid ph t src seq =>
    apply invX_ofM h
    intro s' e
    unfold msgFinalize at e
    split at e
    · cases e
    · exact invX_finalizePacket h hk e
  | finalizeByKey a b =>
    apply invX_ofM h
    intro s' e
    unfold msgFinalizeByKey at e
    split at e
    · cases e
    · split at e
      · cases e
      · exact invX_finalizePacket h hk e
  | fulfill a id fee => exact invX_ofM h (fun _ e => invX_msgFulfill h hk e)
  | fulfillAuth g m => exact invX_ofM h (fun _ e => invX_msgFulfillAuthorized h hk e)
  | onDemand a id perm => exact invX_ofM h (fun _ e => invX_msgOnDemand h hk e)
  | updateFee a id fee => exact invX_ofM h (fun _ e => invX_msgUpdateFee h hk e)
  | createLp l ok =>
    apply invX_ofM h
    intro s' e
    unfold msgCreateLp at e
    split at e
    · cases e
    · split at e
      · cases e
      · cases e; exact invX_congr (s := s) rfl rfl h
  | deleteLps a ids => exact invX_ofM h (fun _ e => invX_msgDeleteLps ids h e)
  | grant g =>
    apply invX_ofM h
    intro s' e
    unfold msgGrant at e
    split at e
    · cases e
    · split at e
      · cases e
      · split at e
        · cases e
        · cases e; exact invX_congr (s := s) rfl rfl h
  | addState rid n =>
    apply invX_ofM h
    intro s' e
    unfold addState at e
    split at e
    · cases e
    · split at e
      · cases e
      · cases e; exact invX_congr (s := s) rfl rfl h
  | finalizeState rid =>
    apply invX_ofM h
    intro s' e
    unfold finalizeState at e
    split at e
    · cases e
    · split at e
      · cases e; exact invX_congr (s := s) rfl rfl h
      · cases e
  | fork rid lv => exact invX_ofM h (fun _ e => invX_forkRollapp h e)
  | epoch => exact invX_foldl_deletePacket _ h
  | block => exact invX_congr (s := s) rfl rfl h

/-- the three invariants the strengthened link rests on, together -/
structure InvAll (s : St) : Prop where
  i4 : Inv04 s
  i5 : Inv05 s
  idx : IdxInv s
  x : InvX s

theorem invAll_step {s : St} (o : Op) (hb : BoundedOp o) (h : InvAll s) : InvAll (step s o).1 :=
  ⟨inv_step o h.i4, (inv_step_both o ⟨h.i4, h.i5⟩).2, idx_step o hb h.i4 h.idx, invX_step o hb h.i4 h.idx h.x⟩

theorem invAll_run : ∀ (ops : List Op) {s : St}, (∀ o ∈ ops, BoundedOp o) → InvAll s → InvAll (run s ops)
  | [], _, _, h => h
  | o :: rest, s, hp, h => by
    show InvAll (run (step s o).1 rest)
    exact invAll_run rest (fun o' ho' => hp o' (List.mem_cons_of_mem _ ho')) (invAll_step o (hp o List.mem_cons_self) h)

end DymVerif.Packets
