/-
  Lemmas/LCTxGood — the bundled invariant `Good` (Lemmas/LCGood) through a whole TRANSACTION of any number of messages,
  for the decorator as patched (`checkedMsgsTravelWithIBCOnly`, `Model/LCTx.mixedRefusal`): a transaction either
  carries no message the decorator checks — then every message phase preserves `Good` on its own — or consists of ibc
  core messages only — then no message of it changes the descriptors, the designation maps or the rollapp side, so
  what the ante handler established about a header (`HdrOk`) still holds when the header is stored.
-/
import DymVerif.Lemmas.LCTx
namespace DymVerif.LC
open DymVerif.Core (Addr NextP)

/-- what the ante check of a header establishes and the message phase relies on: on a canonical client the header
    agrees with the descriptor of its height, if there is one -/
def HdrOk (s : St) (c : Nat) (hd : Hdr) : Prop :=
  ∀ r, lookup s.c2r c = some r → ∀ d, getDesc s r hd.h = some d → Agrees hd.cons d

theorem HdrOk.congr {s s' : St} {c : Nat} {hd : Hdr} (h : HdrOk s c hd) (e1 : s'.c2r = s.c2r) (e2 : s'.descs = s.descs) :
    HdrOk s' c hd := by
  intro r hr d hd'
  rw [e1] at hr
  rw [getDesc_congr e2] at hd'
  exact h r hr d hd'

/-- the parts of the state the agreement is about -/
structure Frame (s s' : St) : Prop where
  descs : s'.descs = s.descs
  r2c : s'.r2c = s.r2c
  c2r : s'.c2r = s.c2r
  core : s'.core = s.core

theorem Frame.refl (s : St) : Frame s s := ⟨rfl, rfl, rfl, rfl⟩
theorem Frame.trans {a b c : St} (h1 : Frame a b) (h2 : Frame b c) : Frame a c :=
  ⟨h2.descs.trans h1.descs, h2.r2c.trans h1.r2c, h2.c2r.trans h1.c2r, h2.core.trans h1.core⟩

theorem handleUpdate_frame (s : St) (c : Nat) (hd : Hdr) : Frame s (handleUpdate s c hd).1 := by
  refine ⟨?_, ?_, ?_, ?_⟩ <;>
  · unfold handleUpdate
    simp only
    repeat' split
    all_goals rfl

theorem anteMsg_frame (s : St) (m : Op) : Frame s (anteMsg s m).1 ∧ (anteMsg s m).1.clients = s.clients := by
  cases m with
  | updateClient c w hd ibc =>
    cases w with
    | top => exact ⟨handleUpdate_frame s c hd, handleUpdate_clients s c hd⟩
    | _ => exact ⟨Frame.refl s, rfl⟩
  | misbehaviour c k ibc =>
    simp only [anteMsg]
    repeat' split
    all_goals exact ⟨Frame.refl s, rfl⟩
  | chanAck ch w ibc =>
    cases w with
    | ack =>
      simp only [anteMsg]
      repeat' split
      all_goals first
        | exact ⟨Frame.refl s, rfl⟩
        | exact ⟨⟨rfl, rfl, rfl, rfl⟩, rfl⟩
    | _ => exact ⟨Frame.refl s, rfl⟩
  | _ => exact ⟨Frame.refl s, rfl⟩

theorem anteAll_frame : ∀ (ms : List Op) (s : St), Frame s (anteAll s ms).1 ∧ (anteAll s ms).1.clients = s.clients
  | [], s => ⟨Frame.refl s, rfl⟩
  | m :: ms, s => by
    unfold anteAll
    cases h : anteMsg s m with
    | mk s1 oe =>
      cases oe with
      | some e => exact ⟨Frame.refl s, rfl⟩
      | none =>
        simp only
        have h1 := anteMsg_frame s m
        rw [h] at h1
        have h2 := anteAll_frame ms s1
        exact ⟨h1.1.trans h2.1, h2.2.trans h1.2⟩

/-- every header of the transaction that the ante chain let through is `HdrOk` in the state the ante chain leaves -/
theorem anteAll_hdrOk : ∀ (ms : List Op) (s s1 : St), anteAll s ms = (s1, none) →
    ∀ c hd ibc, Op.updateClient c .top hd ibc ∈ ms → HdrOk s1 c hd
  | [], _, _, _ => fun _ _ _ hm => absurd hm (by simp)
  | m :: ms, s, s1, h => by
    intro c hd ibc hm
    unfold anteAll at h
    cases ha : anteMsg s m with
    | mk s' oe =>
      cases oe with
      | some e => simp [ha] at h
      | none =>
        simp only [ha] at h
        have hf : Frame s' s1 := by
          have := (anteAll_frame ms s').1
          rw [h] at this; exact this
        simp only [List.mem_cons] at hm
        rcases hm with rfl | hm
        · -- the head is this header: `handleUpdate` checked it against `s`
          simp only [anteMsg] at ha
          obtain ⟨_, e2, _, e4, _, hchk⟩ := handleUpdate_ok ha
          have h0 : HdrOk s c hd := by
            intro r hr d hd'
            obtain ⟨_, _, _, _, _, _, _, hag⟩ := hchk r hr
            exact hag d hd'
          exact (h0.congr e4 e2).congr hf.c2r hf.descs
        · exact anteAll_hdrOk ms s' s1 h c hd ibc hm

-- ---------------------------------------------------------------- message phases

theorem good_setClient_of {s : St} (h : Good s) {c : Nat} {cl new : Client} (hcl : getClient s c = some cl)
    (hid : new.id = c) (hch : new.chain = cl.chain) (hok : ClientOk new)
    (hag : ∀ r, lookup s.r2c r = some c → ∀ ht cs d, getCons new ht = some cs → getDesc s r ht = some d → Agrees cs d) :
    Good (setClient s new) := by
  have hget : getClient s new.id = some cl := by rw [hid]; exact hcl
  refine ⟨h.maps.of_shape (Shape.setClient hget hch), ClientsOk.setClient h.clients hok, ?_, ?_⟩
  · intro r c0 cl0 ht cs d a b g f
    simp only [setClient_r2c] at a
    rw [getDesc_congr (setClient_descs _ _)] at f
    by_cases hcc : c0 = c
    · subst hcc
      have : getClient (setClient s new) c0 = some new := by
        have := getClient_setClient_self (s := s) (cl := new) (old := cl) hget
        rw [hid] at this; exact this
      rw [this] at b; cases b
      exact hag r a ht cs d g f
    · have hne : c0 ≠ new.id := by rw [hid]; exact hcc
      rw [getClient_setClient_ne hne] at b
      exact h.agree r c0 cl0 ht cs d a b g f
  · show Core.ChainAll (setClient s new).core
    exact h.chain

theorem good_freeze {s : St} (h : Good s) {c : Nat} {cl : Client} (hcl : getClient s c = some cl) :
    Good (setClient s { cl with frozen := true }) := by
  have hid := getClient_id hcl
  refine good_setClient_of h hcl hid rfl ⟨(h.clients cl (getClient_mem hcl)).sorted, (h.clients cl (getClient_mem hcl)).le⟩ ?_
  intro r a ht cs d g f
  exact h.agree r c cl ht cs d a hcl g f

theorem good_apply {s : St} (h : Good s) {c : Nat} {cl : Client} {hd : Hdr} (hcl : getClient s c = some cl)
    (hok : HdrOk s c hd) : Good (setClient s (ibcApply cl hd)) := by
  have hid := getClient_id hcl
  have hidA : (ibcApply cl hd).id = c := by rw [ibcApply_id]; exact hid
  have hch : (ibcApply cl hd).chain = cl.chain := by
    unfold ibcApply
    repeat' split
    all_goals rfl
  refine good_setClient_of h hcl hidA hch (clientOk_ibcApply (h.clients cl (getClient_mem hcl)) hd) ?_
  intro r a ht cs d g f
  rcases getCons_ibcApply g with g' | ⟨eh, ec⟩
  · exact h.agree r c cl ht cs d a hcl g' f
  · subst eh; subst ec
    exact hok r (h.maps.r2c_c2r r c a) d f

/-- the message phase of a header whose ante verdict still holds -/
theorem good_execUpdate {s : St} (h : Good s) {c : Nat} {hd : Hdr} (ibc : Bool) (hok : HdrOk s c hd) :
    Good (execMsg s (.updateClient c .top hd ibc)).1 := by
  simp only [execMsg]
  cases hcl : getClient s c with
  | none => exact h
  | some cl =>
    simp only
    split
    · exact good_apply h hcl hok
    · exact h

/-- the message phase of every message that is not a top-level header update preserves `Good` on its own -/
theorem good_execMsg_other {s : St} (h : Good s) (m : Op) (hm : ∀ c hd ibc, m ≠ .updateClient c .top hd ibc)
    (hs : SafeOp s m) : Good (execMsg s m).1 := by
  cases m with
  | core o ds => exact step_good h (.core o ds) hs
  | createClient chain p ht cs => exact step_good h (.createClient chain p ht cs) hs
  | setCanonical c => exact step_good h (.setCanonical c) hs
  | chanInit c => exact step_good h (.chanInit c) hs
  | updateClient c w hd ibc =>
    cases w with
    | top => exact absurd rfl (hm c hd ibc)
    | _ => exact h
  | misbehaviour c k ibc =>
    simp only [execMsg]
    cases hcl : getClient s c with
    | none => exact h
    | some cl =>
      simp only
      cases k <;> simp only <;> repeat' split
      all_goals first
        | exact h
        | exact good_freeze h hcl
  | chanAck ch w ibc =>
    simp only [execMsg]
    repeat' split
    all_goals first
      | exact h
      | exact h.of_eq rfl rfl rfl rfl rfl

theorem execMsg_frame_ibc (s : St) (m : Op) (hm : isIbcCore m = true) : Frame s (execMsg s m).1 := by
  cases m with
  | core o ds => simp [isIbcCore] at hm
  | setCanonical c => simp [isIbcCore] at hm
  | createClient chain p ht cs => exact ⟨rfl, rfl, rfl, rfl⟩
  | chanInit c =>
    simp only [execMsg, chanInit]
    repeat' split
    all_goals exact ⟨rfl, rfl, rfl, rfl⟩
  | updateClient c w hd ibc =>
    simp only [execMsg]
    repeat' split
    all_goals exact ⟨rfl, rfl, rfl, rfl⟩
  | misbehaviour c k ibc =>
    simp only [execMsg]
    repeat' split
    all_goals exact ⟨rfl, rfl, rfl, rfl⟩
  | chanAck ch w ibc =>
    simp only [execMsg]
    repeat' split
    all_goals exact ⟨rfl, rfl, rfl, rfl⟩

-- ---------------------------------------------------------------- whole transactions

/-- the side condition of `Lemmas/LCGood` (descriptors covered at a designation), message by message through the
    message phase -/
def SafeMsgs : St → List Op → Prop
  | _, [] => True
  | s, m :: ms => SafeOp s m ∧ SafeMsgs (execMsg s m).1 ms

def SafeTx (s : St) (ms : List Op) : Prop := SafeMsgs (anteAll s ms).1 ms

def SafeRunTx : St → List (List Op) → Prop
  | _, [] => True
  | s, t :: ts => SafeTx s t ∧ SafeRunTx (txStep s t).1 ts

theorem isChecked_top (c : Nat) (hd : Hdr) (ibc : Bool) : isChecked (.updateClient c .top hd ibc) = true := rfl

theorem good_execAll_unchecked : ∀ (ms : List Op) (s : St), (∀ m ∈ ms, isChecked m = false) → Good s → SafeMsgs s ms →
    Good (execAll s ms).1
  | [], _, _, h, _ => h
  | m :: ms, s, hu, h, hs => by
    unfold execAll
    have hm : ∀ c hd ibc, m ≠ .updateClient c .top hd ibc := by
      intro c hd ibc e
      have := hu m (by simp)
      rw [e, isChecked_top] at this
      exact absurd this (by simp)
    have g1 : Good (execMsg s m).1 := good_execMsg_other h m hm hs.1
    cases hx : execMsg s m with
    | mk s1 r =>
      rw [hx] at g1
      have hs2 : SafeMsgs s1 ms := by have := hs.2; rw [hx] at this; exact this
      cases r with
      | ok => exact good_execAll_unchecked ms s1 (fun x hx' => hu x (by simp [hx'])) g1 hs2
      | ante e => exact h
      | msg e => exact h

theorem good_execAll_ibc : ∀ (ms : List Op) (s : St), (∀ m ∈ ms, isIbcCore m = true) → Good s →
    (∀ c hd ibc, Op.updateClient c .top hd ibc ∈ ms → HdrOk s c hd) → Good (execAll s ms).1
  | [], _, _, h, _ => h
  | m :: ms, s, hi, h, hok => by
    unfold execAll
    have hfr : Frame s (execMsg s m).1 := execMsg_frame_ibc s m (hi m (by simp))
    have g1 : Good (execMsg s m).1 := by
      by_cases htop : ∃ c hd ibc, m = .updateClient c .top hd ibc
      · obtain ⟨c, hd, ibc, rfl⟩ := htop
        exact good_execUpdate h ibc (hok c hd ibc (by simp))
      · refine good_execMsg_other h m (fun c hd ibc e => htop ⟨c, hd, ibc, e⟩) ?_
        -- an ibc core message is not a designation
        cases m with
        | setCanonical c => have := hi (.setCanonical c) (by simp); simp [isIbcCore] at this
        | _ => trivial
    cases hx : execMsg s m with
    | mk s1 r =>
      rw [hx] at g1 hfr
      cases r with
      | ok =>
        refine good_execAll_ibc ms s1 (fun x hx' => hi x (by simp [hx'])) g1 ?_
        intro c hd ibc hm
        exact (hok c hd ibc (by simp [hm])).congr hfr.c2r hfr.descs
      | ante e => exact h
      | msg e => exact h

theorem mixed_false {ms : List Op} (h : mixedRefusal ms = false) :
    (∀ m ∈ ms, isChecked m = false) ∨ (∀ m ∈ ms, isIbcCore m = true) := by
  unfold mixedRefusal at h
  by_cases ha : ms.any isChecked = true
  · right
    have : ms.all isIbcCore = true := by simpa [ha] using h
    intro m hm
    exact List.all_eq_true.1 this m hm
  · left
    intro m hm
    cases hc : isChecked m with
    | false => rfl
    | true => exact absurd (List.any_eq_true.2 ⟨m, hm, hc⟩) ha

/-- **good_txStep** — a whole transaction, of any number of messages, preserves the bundled invariant -/
theorem good_txStep {s : St} (h : Good s) (ms : List Op) (hs : SafeTx s ms) : Good (txStep s ms).1 := by
  unfold txStep
  split
  · exact h
  split
  · exact h
  by_cases hmix : mixedRefusal ms = true
  · simp only [hmix, if_true]; exact h
  · simp only [hmix]
    have hmf : mixedRefusal ms = false := by simpa using hmix
    cases ha : anteAll s ms with
    | mk s1 oe =>
      cases oe with
      | some e => exact h
      | none =>
        simp only [Bool.false_eq_true, if_false]
        have hfr := anteAll_frame ms s
        rw [ha] at hfr
        have g1 : Good s1 := h.of_eq hfr.2 hfr.1.descs hfr.1.r2c hfr.1.c2r hfr.1.core
        have g2 : Good (execAll s1 ms).1 := by
          rcases mixed_false hmf with hu | hi
          · have : SafeMsgs s1 ms := by unfold SafeTx at hs; rw [ha] at hs; exact hs
            exact good_execAll_unchecked ms s1 hu g1 this
          · exact good_execAll_ibc ms s1 hi g1 (anteAll_hdrOk ms s s1 ha)
        cases hx : execAll s1 ms with
        | mk s2 r =>
          rw [hx] at g2
          cases r with
          | ok => exact g2
          | ante e => exact g1
          | msg e => exact g1

theorem runTx_good : ∀ (txs : List (List Op)) (s : St), Good s → SafeRunTx s txs → Good (runTx s txs)
  | [], _, h, _ => h
  | t :: ts, s, h, hs => by
    simp only [runTx, List.foldl_cons]
    exact runTx_good ts _ (good_txStep h t hs.1) hs.2

end DymVerif.LC
