/-
  Lemmas/IncentBasic — pointwise algebra of `Coins`, the bank, and the arithmetic kernels of the
  payout formulas (asset-gauge shares never exceed the remainder; the stream share formula).
-/
import DymVerif.Model.Incent
namespace DymVerif.Incent
open DymVerif

namespace Coins

@[simp] theorem amt_nil (i : Nat) : amt [] i = 0 := by simp [amt]

@[simp] theorem amt_cons_zero (x : Nat) (xs : Coins) : amt (x :: xs) 0 = x := by simp [amt]

@[simp] theorem amt_cons_succ (x : Nat) (xs : Coins) (i : Nat) : amt (x :: xs) (i + 1) = amt xs i := by
  simp [amt]

theorem amt_add (a b : Coins) (i : Nat) : amt (add a b) i = amt a i + amt b i := by
  induction a generalizing b i with
  | nil => simp [add]
  | cons x xs ih =>
    cases b with
    | nil => simp [add]
    | cons y ys =>
      cases i with
      | zero => simp [add]
      | succ i => simp [add, ih]

theorem amt_sub (a b : Coins) (i : Nat) : amt (sub a b) i = amt a i - amt b i := by
  induction a generalizing b i with
  | nil => simp [sub]
  | cons x xs ih =>
    cases b with
    | nil => simp [sub]
    | cons y ys =>
      cases i with
      | zero => simp [sub]
      | succ i => simp [sub, ih]

theorem isZero_iff (c : Coins) : isZero c = true ↔ ∀ i, amt c i = 0 := by
  induction c with
  | nil => simp [isZero]
  | cons x xs ih =>
    simp only [isZero, List.all_cons, Bool.and_eq_true, beq_iff_eq] at ih ⊢
    constructor
    · intro ⟨h1, h2⟩ i
      cases i with
      | zero => simpa using h1
      | succ i => simpa using (ih.1 h2) i
    · intro h
      exact ⟨by simpa using h 0, ih.2 (fun i => by simpa using h (i + 1))⟩

theorem le_iff (a b : Coins) : le a b = true ↔ ∀ i, amt a i ≤ amt b i := by
  induction a generalizing b with
  | nil => simp [le]
  | cons x xs ih =>
    cases b with
    | nil =>
      simp only [le, Bool.and_eq_true, beq_iff_eq]
      constructor
      · intro ⟨h1, h2⟩ i
        cases i with
        | zero => simp [h1]
        | succ i => simpa using (ih []).1 h2 i
      · intro h
        exact ⟨by simpa using h 0, (ih []).2 (fun i => by simpa using h (i + 1))⟩
    | cons y ys =>
      simp only [le, Bool.and_eq_true, decide_eq_true_eq]
      constructor
      · intro ⟨h1, h2⟩ i
        cases i with
        | zero => simpa using h1
        | succ i => simpa using (ih ys).1 h2 i
      · intro h
        exact ⟨by simpa using h 0, (ih ys).2 (fun i => by simpa using h (i + 1))⟩

theorem sub?_some {a b c : Coins} (h : sub? a b = some c) : c = sub a b ∧ ∀ i, amt b i ≤ amt a i := by
  unfold sub? at h
  split at h
  · next hle => exact ⟨by simpa using h.symm, (le_iff b a).1 hle⟩
  · simp at h

theorem amt_map (f : Nat → Nat) (h0 : f 0 = 0) (c : Coins) (i : Nat) : amt (c.map f) i = f (amt c i) := by
  induction c generalizing i with
  | nil => simp [h0]
  | cons x xs ih =>
    cases i with
    | zero => simp
    | succ i => simpa using ih i

theorem amt_quo (c : Coins) (n i : Nat) : amt (quo c n) i = amt c i / n := by
  unfold quo; rw [amt_map _ (by simp)]

theorem amt_sumList_cons (c : Coins) (cs : List Coins) (i : Nat) :
    amt (sumList (c :: cs)) i = amt c i + amt (sumList cs) i := by
  simp [sumList, amt_add]

end Coins

/-! ### bank -/

namespace Bank

theorem find_filter_ne (b : Bank) (a a' : Nat) (h : ¬ a' = a) :
    List.find? (fun x => x.1 == a') (b.filter (fun x => x.1 != a)) = List.find? (fun x => x.1 == a') b := by
  induction b with
  | nil => simp
  | cons p ps ih =>
    by_cases hp : p.1 = a
    · have h1 : (p.1 != a) = false := by simp [hp]
      have h2 : (p.1 == a') = false := by simp [hp]; exact fun x => h x.symm
      simp only [List.filter_cons, h1, List.find?_cons, h2]
      exact ih
    · have h1 : (p.1 != a) = true := by simp [hp]
      simp only [List.filter_cons, h1, if_true, List.find?_cons]
      cases (p.1 == a') with
      | true => rfl
      | false => exact ih

theorem get_set (b : Bank) (a a' : Nat) (c : Coins) : (b.set a c).get a' = if a' = a then c else b.get a' := by
  unfold set get
  by_cases h : a' = a
  · subst h; simp
  · have h' : (a == a') = false := by simp; exact fun x => h x.symm
    simp only [List.find?_cons, h', h, if_false]
    rw [find_filter_ne b a a' h]

theorem get_credit (b : Bank) (a a' : Nat) (c : Coins) (i : Nat) :
    Coins.amt ((b.credit a c).get a') i = if a' = a then Coins.amt (b.get a) i + Coins.amt c i else Coins.amt (b.get a') i := by
  unfold credit
  rw [get_set]
  by_cases h : a' = a
  · simp [h, Coins.amt_add]
  · simp [h]

/-- a successful send: the source had the coins, is debited, and the destination is credited -/
theorem send_some {b b' : Bank} {src dst : Nat} {c : Coins} (h : b.send src dst c = some b') (hne : src ≠ dst) :
    (∀ i, Coins.amt c i ≤ Coins.amt (b.get src) i) ∧
    ∀ a i, Coins.amt (b'.get a) i =
      if a = src then Coins.amt (b.get src) i - Coins.amt c i
      else if a = dst then Coins.amt (b.get dst) i + Coins.amt c i
      else Coins.amt (b.get a) i := by
  unfold send at h
  split at h
  · next hle =>
    have hle' := (Coins.le_iff _ _).1 hle
    refine ⟨hle', ?_⟩
    intro a i
    have hb : b' = (b.set src (Coins.sub (b.get src) c)).credit dst c := by simpa using h.symm
    rw [hb, get_credit]
    by_cases h2 : a = src
    · subst h2
      simp [hne, get_set, Coins.amt_sub]
    · by_cases h1 : a = dst
      · subst h1
        have h3 : ¬ a = src := h2
        simp [h3, get_set]
      · simp [h1, h2, get_set]
  · simp at h

end Bank

/-! ### arithmetic kernels -/

theorem div_add_div_le (a b c : Nat) : a / c + b / c ≤ (a + b) / c := by
  rcases Nat.eq_zero_or_pos c with h | h
  · subst h; simp
  · rw [Nat.le_div_iff_mul_le h, Nat.add_mul]
    exact Nat.add_le_add (Nat.div_mul_le_self a c) (Nat.div_mul_le_self b c)

theorem lockSum_cons (l : Lock) (rest : List Lock) : lockSum (l :: rest) = l.amount + lockSum rest := by
  simp [lockSum]

/-- Σ_l ⌊remain·l / (L·e)⌋ ≤ ⌊remain·(Σ l) / (L·e)⌋ -/
theorem lockShare_sum_le (remain L e : Nat) (ls : List Lock) :
    (ls.map (fun l => lockShare remain l.amount L e)).sum ≤ remain * lockSum ls / (L * e) := by
  induction ls with
  | nil => simp [lockSum]
  | cons l rest ih =>
    rw [List.map_cons, List.sum_cons, lockSum_cons, Nat.mul_add]
    have h2 := div_add_div_le (remain * l.amount) (remain * lockSum rest) (L * e)
    have h3 : lockShare remain l.amount L e = remain * l.amount / (L * e) := rfl
    omega

/-- **asset gauge**: the locks' shares of one distribution never exceed the remainder -/
theorem lockShare_total_le (remain e : Nat) (he : 1 ≤ e) (ls : List Lock) :
    (ls.map (fun l => lockShare remain l.amount (lockSum ls) e)).sum ≤ remain := by
  have h := lockShare_sum_le remain (lockSum ls) e ls
  refine Nat.le_trans h ?_
  rcases Nat.eq_zero_or_pos (lockSum ls) with h0 | h0
  · simp [h0]
  · apply Nat.div_le_of_le_mul
    calc remain * lockSum ls = lockSum ls * remain := Nat.mul_comm _ _
      _ ≤ lockSum ls * e * remain := by
          apply Nat.mul_le_mul_right
          exact Nat.le_mul_of_pos_right _ he

/-- shares are monotone in the locked amount (proportionality, order form) -/
theorem lockShare_mono (remain L e l1 l2 : Nat) (h : l1 ≤ l2) : lockShare remain l1 L e ≤ lockShare remain l2 L e := by
  unfold lockShare
  exact Nat.div_le_div_right (Nat.mul_le_mul_left _ h)

theorem sum_filter_le {α : Type} (f : α → Nat) (p : α → Bool) (l : List α) : ((l.filter p).map f).sum ≤ (l.map f).sum := by
  induction l with
  | nil => simp
  | cons x xs ih =>
    simp only [List.filter_cons]
    split
    · simp only [List.map_cons, List.sum_cons]; omega
    · simp only [List.map_cons, List.sum_cons]; omega


end DymVerif.Incent
