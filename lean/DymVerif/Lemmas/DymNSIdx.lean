/-
  Lemmas/DymNSIdx — the three Dym-Name reverse indexes are exactly the image of the records:
  preservation by the Before/After hook pairs.
-/
import DymVerif.Lemmas.DymNSSpec
namespace DymVerif.DymNS
open AMap

/-- owned-by(a) = {n | names[n].owner = a}; configured-address(x) = {n | x is a value of names[n]};
    fallback(b) = {n | b is the account of names[n]'s default record} -/
structure IdxOK (ns : NameStore) : Prop where
  own : ∀ a n, n ∈ ns.ownIdx.lookup a ↔ ∃ d, ns.get n = some d ∧ d.owner = a
  cfg : ∀ x n, n ∈ ns.cfgIdx.lookup x ↔ ∃ d, ns.get n = some d ∧ x ∈ d.cfgAddrs
  fb : ∀ b n, n ∈ ns.fbIdx.lookup b ↔ ∃ d, ns.get n = some d ∧ b ∈ d.fbAddrs

/-- consistent for every name but `n`, which has no index entry at all -/
structure IdxOKBut (ns : NameStore) (n : Name) : Prop where
  own : ∀ a m, m ∈ ns.ownIdx.lookup a ↔ m ≠ n ∧ ∃ d, ns.get m = some d ∧ d.owner = a
  cfg : ∀ x m, m ∈ ns.cfgIdx.lookup x ↔ m ≠ n ∧ ∃ d, ns.get m = some d ∧ x ∈ d.cfgAddrs
  fb : ∀ b m, m ∈ ns.fbIdx.lookup b ↔ m ≠ n ∧ ∃ d, ns.get m = some d ∧ b ∈ d.fbAddrs

namespace NameStore

theorem idxOKBut_of_none {ns : NameStore} {n : Name} (h : IdxOK ns) (hn : ns.get n = none) : IdxOKBut ns n := by
  refine ⟨fun a m => ?_, fun x m => ?_, fun b m => ?_⟩
  · rw [h.own]
    constructor
    · rintro ⟨d, hd, ho⟩
      exact ⟨fun e => by subst e; simp [hn] at hd, d, hd, ho⟩
    · exact fun h => h.2
  · rw [h.cfg]
    constructor
    · rintro ⟨d, hd, ho⟩
      exact ⟨fun e => by subst e; simp [hn] at hd, d, hd, ho⟩
    · exact fun h => h.2
  · rw [h.fb]
    constructor
    · rintro ⟨d, hd, ho⟩
      exact ⟨fun e => by subst e; simp [hn] at hd, d, hd, ho⟩
    · exact fun h => h.2

theorem befores_eq (ns : NameStore) (n : Name) (d : DymName) (hd : ns.get n = some d) :
    (ns.beforeOwner n).beforeConfig n =
      { names := ns.names, ownIdx := ns.ownIdx.remove d.owner n,
        cfgIdx := d.cfgAddrs.foldl (fun i a => i.remove a n) ns.cfgIdx,
        fbIdx := d.fbAddrs.foldl (fun i a => i.remove a n) ns.fbIdx } := by
  have h1 : ns.beforeOwner n = { ns with ownIdx := ns.ownIdx.remove d.owner n } := by
    unfold beforeOwner; simp only [hd]
  have h2 : (ns.beforeOwner n).get n = some d := by rw [get_beforeOwner, hd]
  unfold beforeConfig
  simp only [h2]
  rw [h1]

/-- after both Before hooks the name has no index entries left -/
theorem idxOKBut_befores {ns : NameStore} (n : Name) (h : IdxOK ns) :
    IdxOKBut ((ns.beforeOwner n).beforeConfig n) n := by
  cases hd : ns.get n with
  | none =>
    have : (ns.beforeOwner n).beforeConfig n = ns := by
      unfold beforeOwner; simp only [hd]; unfold beforeConfig; simp only [hd]
    rw [this]; exact idxOKBut_of_none h hd
  | some d =>
    rw [befores_eq ns n d hd]
    refine ⟨fun a m => ?_, fun x m => ?_, fun b m => ?_⟩
    · simp only [Idx.mem_remove, h.own, get]
      constructor
      · rintro ⟨⟨d', hd', ho⟩, hne⟩
        refine ⟨fun e => ?_, d', hd', ho⟩
        subst e
        have : d' = d := by simpa [get, hd'] using hd
        subst this
        exact hne ⟨ho.symm, rfl⟩
      · rintro ⟨hne, d', hd', ho⟩
        exact ⟨⟨d', hd', ho⟩, fun e => hne e.2⟩
    · simp only [Idx.mem_foldl_remove, h.cfg, get]
      constructor
      · rintro ⟨⟨d', hd', ho⟩, hne⟩
        refine ⟨fun e => ?_, d', hd', ho⟩
        subst e
        have : d' = d := by simpa [get, hd'] using hd
        subst this
        exact hne ⟨ho, rfl⟩
      · rintro ⟨hne, d', hd', ho⟩
        exact ⟨⟨d', hd', ho⟩, fun e => hne e.2⟩
    · simp only [Idx.mem_foldl_remove, h.fb, get]
      constructor
      · rintro ⟨⟨d', hd', ho⟩, hne⟩
        refine ⟨fun e => ?_, d', hd', ho⟩
        subst e
        have : d' = d := by simpa [get, hd'] using hd
        subst this
        exact hne ⟨ho, rfl⟩
      · rintro ⟨hne, d', hd', ho⟩
        exact ⟨⟨d', hd', ho⟩, fun e => hne e.2⟩

theorem setAfterBothT_eq (ns : NameStore) (n : Name) (d : DymName) :
    ns.setAfterBothT n d =
      { names := AMap.set ns.names n d, ownIdx := ns.ownIdx.add d.owner n,
        cfgIdx := d.cfgAddrs.foldl (fun i a => i.add a n) ns.cfgIdx,
        fbIdx := d.fbAddrs.foldl (fun i a => i.add a n) ns.fbIdx } := by
  have h1 : (ns.set n d).get n = some d := by simp [get_set]
  have h2 : afterOwnerT (ns.set n d) n = { ns.set n d with ownIdx := (ns.set n d).ownIdx.add d.owner n } := by
    unfold afterOwnerT; simp only [h1]
  have h3 : (afterOwnerT (ns.set n d) n).get n = some d := by rw [get_afterOwnerT, h1]
  unfold setAfterBothT afterConfigT
  simp only [h3]
  rw [h2]
  rfl

/-- writing the record and running both After hooks restores consistency -/
theorem idxOK_setAfterBothT {ns : NameStore} {n : Name} (d : DymName) (h : IdxOKBut ns n) :
    IdxOK (ns.setAfterBothT n d) := by
  rw [setAfterBothT_eq]
  refine ⟨fun a m => ?_, fun x m => ?_, fun b m => ?_⟩
  · simp only [Idx.mem_add, h.own, get, AMap.get_set]
    by_cases hm : m = n
    · subst hm; simp; exact eq_comm
    · simp [hm]
  · simp only [Idx.mem_foldl_add, h.cfg, get, AMap.get_set]
    by_cases hm : m = n
    · subst hm; simp
    · simp [hm]
  · simp only [Idx.mem_foldl_add, h.fb, get, AMap.get_set]
    by_cases hm : m = n
    · subst hm; simp
    · simp [hm]

theorem idxOK_delete {ns : NameStore} (n : Name) (h : IdxOK ns) : IdxOK (ns.delete n) := by
  have hb := idxOKBut_befores n h
  have hg : ∀ m, (ns.delete n).get m = if m = n then none else ((ns.beforeOwner n).beforeConfig n).get m := by
    intro m; rw [get_delete, get_beforeConfig, get_beforeOwner]
  refine ⟨fun a m => ?_, fun x m => ?_, fun b m => ?_⟩
  · have : (ns.delete n).ownIdx = ((ns.beforeOwner n).beforeConfig n).ownIdx := rfl
    rw [this, hb.own, hg]
    by_cases hm : m = n <;> simp [hm]
  · have : (ns.delete n).cfgIdx = ((ns.beforeOwner n).beforeConfig n).cfgIdx := rfl
    rw [this, hb.cfg, hg]
    by_cases hm : m = n <;> simp [hm]
  · have : (ns.delete n).fbIdx = ((ns.beforeOwner n).beforeConfig n).fbIdx := rfl
    rw [this, hb.fb, hg]
    by_cases hm : m = n <;> simp [hm]

/-- a record change that keeps owner and configs leaves the indexes consistent -/
theorem idxOK_set_same {ns : NameStore} {n : Name} {d0 d : DymName} (h : IdxOK ns) (h0 : ns.get n = some d0)
    (ho : d.owner = d0.owner) (hc : d.configs = d0.configs) : IdxOK (ns.set n d) := by
  have hca : d.cfgAddrs = d0.cfgAddrs := by simp [DymName.cfgAddrs, DymName.revConfigs, ho, hc]
  have hfa : d.fbAddrs = d0.fbAddrs := by simp [DymName.fbAddrs, DymName.revConfigs, ho, hc]
  refine ⟨fun a m => ?_, fun x m => ?_, fun b m => ?_⟩
  · have : (ns.set n d).ownIdx = ns.ownIdx := rfl
    rw [this, h.own, get_set]
    by_cases hm : m = n
    · subst hm; simp [h0, ho]
    · simp [hm]
  · have : (ns.set n d).cfgIdx = ns.cfgIdx := rfl
    rw [this, h.cfg, get_set]
    by_cases hm : m = n
    · subst hm; simp [h0, hca]
    · simp [hm]
  · have : (ns.set n d).fbIdx = ns.fbIdx := rfl
    rw [this, h.fb, get_set]
    by_cases hm : m = n
    · subst hm; simp [h0, hfa]
    · simp [hm]

/-- a config change (owner kept) wrapped in the Before/After config hooks -/
theorem idxOK_setConfigChangedT {ns : NameStore} {n : Name} {d0 d : DymName} (h : IdxOK ns)
    (h0 : ns.get n = some d0) (ho : d.owner = d0.owner) : IdxOK (ns.setConfigChangedT n d) := by
  have hb : ns.beforeConfig n = { ns with cfgIdx := d0.cfgAddrs.foldl (fun i a => i.remove a n) ns.cfgIdx,
                                          fbIdx := d0.fbAddrs.foldl (fun i a => i.remove a n) ns.fbIdx } := by
    unfold beforeConfig; simp only [h0]
  have h1 : ((ns.beforeConfig n).set n d).get n = some d := by simp [get_set]
  unfold setConfigChangedT afterConfigT
  simp only [h1]
  rw [hb]
  refine ⟨fun a m => ?_, fun x m => ?_, fun b m => ?_⟩
  · simp only [set, get, AMap.get_set]
    have := h.own a m
    simp only [get] at this
    rw [this]
    by_cases hm : m = n
    · subst hm; simp [get] at h0; simp [h0, ho]
    · simp [hm]
  · simp only [set, get, AMap.get_set, Idx.mem_foldl_add, Idx.mem_foldl_remove]
    have := h.cfg x m
    simp only [get] at this
    rw [this]
    by_cases hm : m = n
    · subst hm; simp [get] at h0; simp [h0]
    · simp [hm]
  · simp only [set, get, AMap.get_set, Idx.mem_foldl_add, Idx.mem_foldl_remove]
    have := h.fb b m
    simp only [get] at this
    rw [this]
    by_cases hm : m = n
    · subst hm; simp [get] at h0; simp [h0]
    · simp [hm]

end NameStore

end DymVerif.DymNS
