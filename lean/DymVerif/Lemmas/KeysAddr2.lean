/-
  Lemmas/KeysAddr2 — `parseAddr (format …) = …` for both spellings of the last separator.
-/
import DymVerif.Lemmas.KeysAddr
namespace DymVerif.Keys
open DymVerif

theorem parseChunks_ok (bech : Bytes → Bool) (parts : List Bytes) (name h : Bytes)
    (hp : ∀ p ∈ parts, validDymName p = true) (hn : validDymName name = true)
    (hh : (validChainIdFormat h || validAlias h) = true) :
    parseChunks bech (parts ++ [name, h]) = some (joinDot parts, name, h) := by
  have hrev : (parts ++ [name, h]).reverse = h :: name :: parts.reverse := by simp
  have hall : parts.all validDymName = true := by simpa [List.all_eq_true] using hp
  unfold parseChunks
  rw [hrev]
  simp only [List.reverse_reverse, hall, hh, hn, Bool.not_true, Bool.false_eq_true, if_false, if_true]
  cases parts with
  | nil => simp [joinDot]
  | cons p ps => simp

theorem seps_count (n : Nat) (last : Nat) (hl : last = 46 ∨ last = 64) :
    ¬ (List.replicate n 46 ++ [last]).count 64 > 1 := by
  rcases hl with rfl | rfl <;> simp [List.count_replicate]

theorem seps_last (n : Nat) (last : Nat) (hl : last = 46 ∨ last = 64) :
    ((List.replicate n 46 ++ [last]).contains 64 && (List.replicate n 46 ++ [last]).getLast? != some 64) = false := by
  rcases hl with rfl | rfl
  · simp [List.mem_replicate]
  · simp

theorem parseAddr_glue (bech : Bytes → Bool) (parts : List Bytes) (name h : Bytes) (last : Nat)
    (hl : last = 46 ∨ last = 64)
    (hp : ∀ p ∈ parts, validDymName p = true) (hn : validDymName name = true)
    (hh : (validChainIdFormat h || validAlias h) = true) :
    parseAddr bech (glueDots parts (name ++ last :: h)) = some (joinDot parts, name, h) := by
  have hpc : ∀ p ∈ parts, Clean p := fun p hp' => validDymName_clean (hp p hp')
  have hnc := validDymName_clean hn
  have hhc := handle_clean hh
  have hsep : isSepC last = true := by rcases hl with rfl | rfl <;> decide
  have htext : ∀ c ∈ glueDots parts (name ++ last :: h), TextC c := by
    apply glueDots_textC parts _ hpc
    intro c hc
    simp only [List.mem_append, List.mem_cons] at hc
    rcases hc with hc | rfl | hc
    · exact Or.inl (hnc.2 c hc)
    · rcases hl with rfl | rfl
      · exact Or.inr (Or.inl rfl)
      · exact Or.inr (Or.inr rfl)
    · exact Or.inl (hhc.2 c hc)
  have hchunks : ∀ f ∈ parts ++ [name, h], Clean f := by
    intro f hf
    simp only [List.mem_append, List.mem_cons, List.not_mem_nil, or_false] at hf
    rcases hf with hf | rfl | rfl
    · exact hpc f hf
    · exact hnc
    · exact hhc
  have hempty : (parts ++ [name, h]).any (·.isEmpty) = false := by
    rw [List.any_eq_false]
    intro f hf
    have := (hchunks f hf).1
    cases f with
    | nil => exact absurd rfl this
    | cons _ _ => simp
  have htrim : (parts ++ [name, h]).any (fun f => trimSpace f != f) = false := by
    rw [List.any_eq_false]
    intro f hf
    simp [clean_trim (hchunks f hf)]
  unfold parseAddr
  simp only [trimSpace_id (fun c hc => textC_not_space (htext c hc)), asciiLower_id htext,
    splitSeps_glueDots parts name h last hpc hnc hhc hsep, hempty, htrim, seps_last _ _ hl,
    Bool.false_eq_true, if_false, if_neg (seps_count _ _ hl)]
  exact parseChunks_ok bech parts name h hp hn hh

end DymVerif.Keys
