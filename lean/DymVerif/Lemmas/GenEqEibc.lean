/-
  Lemmas/GenEqEibc — the regenerated translations of `CalcPriceWithBridgingFee`,
  `OnDemandLPRecord.MaxSpend` and `OnDemandLPRecord.Accepts` (Gen/Eibc.lean, rebuilt from the Go
  source on every run) equal the definitions M-Packets uses.
-/
import DymVerif.Gen.Eibc
import DymVerif.Model.Packets
namespace DymVerif.GenEqEibc
open DymVerif DymVerif.Packets

theorem calcPrice_eq (amt fee : Int) (mult : Dec) :
    Gen.Eibc.calcPriceWithBridgingFee amt fee mult =
      (match calcPrice amt fee mult with | .ok p => some p | .error _ => none) := by
  unfold Gen.Eibc.calcPriceWithBridgingFee calcPrice
  by_cases h : 0 < amt - fee - (mult.mulInt amt).truncateInt
  · rw [if_pos h]
    have : (!decide (0 < amt - fee - (Dec.mulInt mult amt).truncateInt)) = false := by
      simp only [Bool.not_eq_false', decide_eq_true_eq]; exact h
    simp only [this, Bool.false_eq_true, if_false]
  · rw [if_neg h]
    have : (!decide (0 < amt - fee - (Dec.mulInt mult amt).truncateInt)) = true := by
      simp only [Bool.not_eq_true', decide_eq_false_iff_not]; exact h
    simp only [this, if_true]

theorem maxSpend_eq (l : LP) : Gen.Eibc.maxSpend l.maxPrice l.spendLimit l.spent = lpMaxSpend l := rfl

theorem accepts_eq (l : LP) (now : Nat) (o : Order) :
    Gen.Eibc.accepts now o.price l.maxPrice l.spendLimit l.spent l.minFee o.fee l.minAge o.creationHeight = lpAccepts l now o := by
  unfold Gen.Eibc.accepts lpAccepts lpMaxSpend Gen.Eibc.maxSpend
  rfl

end DymVerif.GenEqEibc
